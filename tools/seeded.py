#!/usr/bin/env python3
"""Run the registered checks against the seeded changes under /verif/seeded/<id>/.

  tools/seeded.py [--tier quick] [--in-repo] [--only ID[,ID..]] [--demo]

For every seeded/<id>/ (patch.diff, meta.json with "property"), the patch is applied to a scratch worktree of
/repo (default; the checks then run with VERIF_REPO=<worktree>) or, with --in-repo, to /repo itself
(`git -C /repo apply`, undone straight afterwards with `git apply -R` + `git checkout -- .`).  The check of the
seeded change's property is run; "caught" = exit code 1 and a `VIOLATION property=<id>` line.  With --demo the
change's own demonstration (run_demo.sh <tree>) is run as well, with and without the patch.
Results: seeded/RESULTS.json and a table on stdout.  Worktrees are removed when done.
"""
import argparse
import json
import os
import re
import subprocess
import sys
import time

ROOT = os.path.dirname(os.path.dirname(os.path.abspath(__file__)))
SEEDED = os.path.join(ROOT, "seeded")


def sh(cmd, cwd=None, env=None, timeout=None):
    try:
        p = subprocess.run(cmd, cwd=cwd, env=env, timeout=timeout, stdout=subprocess.PIPE, stderr=subprocess.STDOUT,
                           text=True, shell=isinstance(cmd, str))
        return p.returncode, p.stdout
    except subprocess.TimeoutExpired as e:
        return 124, (e.stdout or b"").decode("utf-8", "replace") if isinstance(e.stdout, bytes) else (e.stdout or "")


def main():
    ap = argparse.ArgumentParser()
    ap.add_argument("--tier", default="quick")
    ap.add_argument("--in-repo", action="store_true")
    ap.add_argument("--only")
    ap.add_argument("--demo", action="store_true")
    ap.add_argument("--props", help="run these checks instead of only the seeded change's own property (comma list)")
    a = ap.parse_args()
    ids = sorted(d for d in os.listdir(SEEDED) if os.path.isfile(os.path.join(SEEDED, d, "patch.diff")))
    if a.only:
        want = set(a.only.split(","))
        ids = [i for i in ids if i in want]
    else:
        ids = [i for i in ids if not json.load(open(os.path.join(SEEDED, i, "meta.json"))).get("retired")]
    results = []
    for sid in ids:
        d = os.path.join(SEEDED, sid)
        meta = json.load(open(os.path.join(d, "meta.json")))
        props = a.props.split(",") if a.props else [meta["property"]]
        patch = os.path.join(d, "patch.diff")
        if a.in_repo:
            tree = "/repo"
            rc, out = sh(["git", "-C", tree, "apply", patch])
        else:
            tree = "/tmp/seedrun_%s" % sid
            sh(["git", "-C", "/repo", "worktree", "remove", "--force", tree])
            rc, out = sh(["git", "-C", "/repo", "worktree", "add", "--detach", tree, "HEAD"])
            if rc == 0:
                rc, out = sh(["git", "-C", tree, "apply", patch])
        res = dict(id=sid, property=meta["property"], applied=(rc == 0), checks={})
        if rc != 0:
            res["error"] = out[-500:]
        else:
            try:
                for pid in props:
                    env = dict(os.environ)
                    if not a.in_repo:
                        env["VERIF_REPO"] = tree
                    t0 = time.time()
                    rc, out = sh(["./check", pid, "--tier", a.tier], cwd=ROOT, env=env, timeout=3600)
                    viol = re.findall(r"^VIOLATION property=(\S+) replay=(\S+)(.*)$", out, re.M)
                    res["checks"][pid] = dict(rc=rc, caught=(rc == 1 and any(v[0] == pid for v in viol)),
                                              violations=[" ".join(v).strip() for v in viol][:5],
                                              nofail=all("no-failing-input-found" in v[2] for v in viol) if viol else None,
                                              wall_s=round(time.time() - t0, 1), tail=out[-600:] if rc not in (0, 1) else "")
                if a.demo and os.path.exists(os.path.join(d, "run_demo.sh")):
                    rc, out = sh(["sh", os.path.join(d, "run_demo.sh"), tree], timeout=1200)
                    res["demo_with_change_rc"] = rc
            finally:
                if a.in_repo:
                    sh(["git", "-C", tree, "apply", "-R", patch])
                    sh(["git", "-C", tree, "checkout", "--", "."])
        if not a.in_repo:
            sh(["git", "-C", "/repo", "worktree", "remove", "--force", tree])
        results.append(res)
        for pid in (props if res["applied"] else [meta["property"]]):
            c = res["checks"].get(pid, {})
            print("%-10s seeded-for=%-4s check=%-4s applied=%s caught=%s rc=%s %s" % (sid, meta["property"], pid, res["applied"], c.get("caught"),
                                                                                   c.get("rc"), "; ".join(c.get("violations", [])[:3])), flush=True)
    rp = os.path.join(SEEDED, "RESULTS.json")
    merged = {}
    if os.path.exists(rp):
        try:
            merged = {r["id"]: r for r in json.load(open(rp)).get("results", [])}
        except Exception:
            merged = {}
    stamp = time.strftime("%Y-%m-%d %H:%M:%S")
    head = sh(["git", "-C", "/repo", "rev-parse", "--short", "HEAD"])[1].strip()
    for r in results:
        r.update(tier=a.tier, in_repo=a.in_repo, when=stamp, repo_head=head)
        if r["id"] in merged and merged[r["id"]].get("checks") and r.get("checks"):
            ch = dict(merged[r["id"]]["checks"])
            ch.update(r["checks"])
            r["checks"] = ch
        merged[r["id"]] = r
    with open(rp, "w") as f:
        json.dump(dict(results=[merged[k] for k in sorted(merged)]), f, indent=1)
    caught = sum(1 for r in results if any(c.get("caught") for c in r["checks"].values()))
    print("caught (by one of the checks run) %d of %d" % (caught, len(results)))


if __name__ == "__main__":
    main()
