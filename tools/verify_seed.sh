#!/bin/bash
# usage: tools/verify_seed.sh <seed dir (with patch.diff, run_demo.sh, meta.json)> [--no-suite]
# Confirms, in a scratch worktree of /repo HEAD, that the seeded change (1) applies and builds, (2) passes the whole
# existing test suite unedited, (3) makes its own demonstration fail, and (4) that the demonstration passes without it.
# Writes <seed dir>/verified.json and prints one summary line. The worktree is removed afterwards.
set -u
D="$(cd "${1:?seed dir}" && pwd)"
NOSUITE="${2:-}"
ID="$(basename "$D")"
WT="/tmp/seedverify_$ID"
export GOFLAGS=-mod=mod GOPROXY=off GOSUMDB=off GOTOOLCHAIN=local
git -C /repo worktree remove --force "$WT" >/dev/null 2>&1
git -C /repo worktree add --detach "$WT" HEAD >/dev/null 2>&1 || { echo "$ID worktree-failed"; exit 2; }
applied=false; builds=false; suite=null; demo_with=null; demo_without=null
if git -C "$WT" apply "$D/patch.diff" 2>"$D/verify_apply.log"; then applied=true; fi
if $applied && (cd "$WT" && go1.26 build ./... && go1.26 build -tags verif ./...) >"$D/verify_build.log" 2>&1; then builds=true; fi
if $builds; then
  if [ "$NOSUITE" != "--no-suite" ]; then
    (cd "$WT" && go1.26 test -vet=off -count=1 -timeout 25m ./...) >"$D/verify_suite.log" 2>&1 && suite=true || suite=false
  fi
  bash "$D/run_demo.sh" "$WT" >"$D/verify_demo_with.log" 2>&1 && demo_with=0 || demo_with=$?
  git -C "$WT" apply -R "$D/patch.diff" && git -C "$WT" status --short | grep -v '^??' >/dev/null && echo "warning: tree not clean after revert" >>"$D/verify_apply.log"
  bash "$D/run_demo.sh" "$WT" >"$D/verify_demo_without.log" 2>&1 && demo_without=0 || demo_without=$?
fi
git -C /repo worktree remove --force "$WT" >/dev/null 2>&1
rm -rf "$WT"
HEADC="$(git -C /repo rev-parse --short HEAD)"
cat >"$D/verified.json" <<EOF
{"id": "$ID", "repo_head": "$HEADC", "applied": $applied, "builds": $builds, "suite_passes": $suite,
 "demo_exit_with_change": $demo_with, "demo_exit_without_change": $demo_without, "when": "$(date -u +%FT%TZ)"}
EOF
echo "$ID applied=$applied builds=$builds suite=$suite demo_with=$demo_with demo_without=$demo_without"
