#!/usr/bin/env python3
"""Regenerate /verif/MANIFEST.json from the table below (kept here so that entries are added in one place)."""
import json
import os

ROOT = os.path.dirname(os.path.dirname(os.path.abspath(__file__)))
ALL = ["C%02d" % i for i in range(1, 21)]

COMMON_NOTE = ("trusted: Coq 8.16.1 kernel incl. vm_compute (no native_compute; coqchk re-check in the thorough tier); no axioms "
               "(Print Assumptions of every property theorem is recorded in the evidence); the model is hand-written and tied to "
               "/repo by the correspondence check of each run (sampled, generator distribution recorded in the evidence); Go harness "
               "abstraction of Go values to Coq terms; ")

ENGINES = {
    "coq-tree": ("coq/tree", "yield-passing model of walk.Plan + declarative specification"),
    "coq-builder": ("coq/builder", "cursor-machine model of builder.go + recursive-descent reference"),
    "coq-secure": ("coq/secure", "universe of Go values + function-by-function transcription of clone/secure.go, clone entry points, reports.Render, registry.findSecrets"),
    "coq-clone": ("coq/clone", "value-level and location-labelled transcription of clone.go"),
    "coq-attempts": ("coq/attempts", "functional model of one action run (actions.go + Backoff.Retry) and its observable automaton"),
    "coq-select": ("coq/select", "row-wise store model + transcription of execute/recovery.go (search, filter, lastUpdate, agedOut) + tree-level specification"),
    "coq-store": ("coq/store", "row-level models of the sqlite and cosmosdb vaults refining an association-list specification"),
    "coq-query": ("coq/query", "query AST + transcription of Exists/Search/buildSearchQuery/List of both back ends"),
    "coq-engine": ("coq/engine", "observable automaton of internal/execute/sm (shared by C01-C04, C06-C08; per-property projects coq/c0N on top), with coq/limiter (mechanism models) and coq/smgraph (source-generated state graph)"),
    "coq-resume": ("coq/resume", "the engine automaton resumed from coq/recover's repair of a crash image (in-memory image next to the durable one)"),
    "coq-api": ("coq/api", "small-step model of Plans.Start / the run goroutine / Wait, Status, Plan, Submit"),
    "coq-validate": ("coq/validate", "transcription of workflow.Validate (BFS queue, shared key set), Defaults, Submit, validateStartState + declarative WF"),
}

# pid -> dict(engine, text, note, technique, design)
CHECKS = {
    "C19": dict(
        engine="coq-tree",
        text="Coq theorems over the yield-passing model of walk.Plan for ALL plans and ALL consumers: no duplicates, membership = objects of "
             "the plan, strictly sorted in execution order, chain = ancestors, any consumer is fed exactly the walk until it says stop "
             "(every stop position), and uniqueness (sortedness + membership + ancestors determine the walk). The model is tied to the code "
             "by a correspondence check on generated plans x every stop position, kernel-checked (vm_compute) on every run; because the "
             "specification determines the output completely, any disagreement is a violation with the plan as replay.",
        note="path numbering of objects by the harness; nil elements inside slices are skipped by model and code alike",
        technique="Coq proof (structural induction, refinement to a list specification, uniqueness) + differential correspondence",
        design="DESIGN.md section 6 C19, section 13"),
    "C20": dict(
        engine="coq-builder",
        text="Coq theorems over the cursor-machine model of builder.go for ALL New arguments and ALL call lists: never panics; call-by-call "
             "equality with a reference built on a recursive-descent parser of the call list (emitted tree = parsed tree; first misuse "
             "sticky until Reset; use-after-emit); stickiness monitor. Tied to the code by a correspondence check (per-call error identity "
             "and class, Err(), emitted tree) on generated and exhaustively enumerated sessions, kernel-checked with vm_compute every run.",
        note="keyword classification of error texts into classes; label abstraction of builder arguments; the stickiness monitor has no exemption "
             "for use after emit (c20_pre_B3_refuted); not covered: concurrent use of one builder",
        technique="Coq proof (simulation by induction on parser fuel / call list, phase lemmas, monitor invariant) + differential correspondence",
        design="DESIGN.md section 6 C20, section 13"),
}

CHECKS["C12"] = dict(
    engine="coq-api",
    text="Coq theorems over the small-step Start/engine/API model for ALL interleavings of any number of callers: at most one execution "
         "per plan, startMu mutual exclusion, no panic, restart rejected with the state unchanged, stale submission rejected, launch only "
         "after a fresh validated read; refutation lemmas show the same model without the lock / waiter check executes twice and panics. "
         "Correspondence (result classes, Status iterator results and per-plan execution counts of child-process histories and concurrent "
         "Start bursts) kernel-checked with vm_compute on every run via a set-of-states simulation of the model plus a separate monitor. "
         "The order in which runPlan registers the waiter and spawns the run, the non-cancellable Submit context and Start's lock scope are tied "
         "to execute.go by a statement shape regenerated from the source on every run (coq/apishape).",
    note="error classification by Go type, nonce-keyed call counting, gates, child-process isolation; not covered: recovery-started runs, "
         "cosmosdb vault, store write failures (log.Fatal), Delete of an executing plan, Status with a non-positive interval, the exact "
         "maxSubmit boundary (proved in the model, sampled >= 400 ms away)",
    technique="Coq proof (inductive invariant over a labelled transition system; refutation by computation) + trace-acceptance correspondence",
    design="DESIGN.md section 6 C12, section 13")
CHECKS["C16"] = dict(
    engine="coq-validate",
    text="Coq theorems over the transcription of workflow.Validate / Defaults / Submit / validateStartState for ALL plans (incl. nil "
         "elements): validate accepts exactly the declarative WF (queue invariant, fuel never runs out), rejected Submit leaves the store "
         "unchanged, accepted Submit stores normalize(p) pristine with fresh pairwise-distinct v7 ids and a submit time (given an injective "
         "v7 id supply), Start refuses non-check plugins in check groups and accepts freshly stored plans. Correspondence: mutants of valid "
         "plans (56 mutation kinds, 15 store tamperings) through the real Validate / Submit / Plan / Start on a sqlite vault in child "
         "processes, verdicts compared with WF first (any disagreement is a violation with that plan as replay), kernel-checked with vm_compute.",
    note="uuid.NewV7 injectivity/version and the vault's Create verdict are premises; a rejected Submit has no memory "
         "(c16_rejected_submit_has_no_memory; reject-correct-resubmit family); not covered: cosmosdb, what Create does on failure (C14)",
    technique="Coq proof (queue invariant, permutation of key sets, state-passing walk) + differential correspondence against the spec",
    design="DESIGN.md section 6 C16, section 13")

CHECKS["C17"] = dict(
    engine="coq-secure",
    text="Coq theorems for ALL Go values (any nesting of structs incl. embedded/unexported, pointers, slices, maps, interfaces, arrays, nil "
         "anywhere): the model of clone.Secure never panics and equals the one-screen specification scrub; every exposed secure-tagged field "
         "is '[secret hidden]'/zero and nothing else changes (erase equality); the same for every request/response of the five clone entry "
         "points (with and without keep-state) and for every template input of reports.Render; findSecrets errs iff a secret-looking "
         "untagged field is reachable through structs, pointers, slices, arrays and maps (keys and elements); a secure tag on an embedded "
         "field covers every promoted field. Tied to /repo by a kernel-checked (vm_compute) differential "
         "correspondence on run-time-built (reflect.StructOf) and hand-declared types, with canary byte-search in clone JSON and in every "
         "rendered file, and Register verdicts.",
    note="exclusions by the code's own documentation: below arrays, ordinary unexported fields; deepcopy = value-equal copy is a premise; "
         "original-unchanged is observed (and is C18's no-sharing theorem), not proved here; "
         "tree values only (no sharing/cycles)",
    technique="Coq proof (refinement of the reflective dispatch to a structural specification, nested induction) + differential correspondence + canary search",
    design="DESIGN.md section 6 C17, section 13")
CHECKS["C18"] = dict(
    engine="coq-clone",
    text="13 closed Coq theorems over an executable model of clone.go (value-level and with allocation labels) for ALL inputs of the five "
         "object kinds and all option sets: definition preserved (without keys), default clone pristine and accepted by validate whenever "
         "the definition is well formed whatever state the original is in, keep-state preserves ids/statuses/times/reason/submit "
         "time/attempts, the labelled clone refines the value clone and shares no location with anything that existed before. Tied to "
         "/repo by a kernel-checked correspondence on observations of the real clone functions in five execution states x five kinds x "
         "four option sets, incl. workflow.Validate, a real Submit, reflect-based address disjointness and mutate-one-observe-other monitors.",
    note="deep.MustCopy, clone.Secure on one value (C17) and the registry are premises (Section variables); resubmittability of a scrubbed "
         "clone needs plugins to accept scrubbed requests (premise, shown necessary by an Example); WithRemoveCompletedSequences is outside "
         "the property",
    technique="Coq proof (field-by-field refinement, allocation-counter monad for no-sharing) + differential correspondence + address/mutation monitors",
    design="DESIGN.md section 6 C18, section 13")
CHECKS["C05"] = dict(
    engine="coq-attempts",
    text="Coq theorems over run_action (a functional transcription of actions.go and Backoff.Retry) for ALL retry budgets and ALL outcome "
         "scripts, and over the observable one-action automaton for ALL accepted traces: at most retries+1 invocations, none after a final "
         "outcome, one recorded attempt per invocation in order with exactly the stored response/error the outcome dictates (timeout = "
         "non-permanent engine error with the plugin's context cancelled; wrong type = permanent error, response dropped), start<=end, "
         "final status; the automaton refines the Appendix-B monitor and accepts the model's own trace. Correspondence: every script of the "
         "bounded-exhaustive family x retries 0-4 plus random plans through the real engine (sequence and check actions, each continuous "
         "run separately), compared per run with model, monitor and automaton inside coqc (vm_compute).",
    note="model of one action run (engine-level composition is the engine automaton of C01-C08); not covered: back-off durations, cancelled "
         "plan contexts, recovered actions, tries that time out in the worker pool before the plugin is entered (treated as load disturbance "
         "and re-run)",
    technique="Coq proof (fuelled functional model, product invariant automaton/monitor) + differential correspondence against the real engine",
    design="DESIGN.md section 6 C05, section 13")

CHECKS["C11"] = dict(
    engine="coq-select",
    text="Coq theorems over the transcription of recovery's plan selection for EVERY store (unique primary keys), now, maxAge and recovery "
         "flag: exactly the durably Running, non-stale plans are resumed, once; a Running plan whose latest recorded activity (start/end "
         "of every object and of every attempt) is older than maxAge (strict) becomes exactly close_plan = Failed / ExceedRecovery with "
         "nothing left Running, through the write list the code issues, and is not resumed; every other plan is identical afterwards; "
         "with recovery disabled nothing changes. Correspondence: generated multi-plan stores (real crash images, ages maxAge +/- 200 ms / "
         "1 s / x10, six maxAge values, both option orders, in-memory and file-backed sqlite) opened by the real coercion.New in child "
         "processes; full post-state, plugin calls and vault writes compared with the model and the property monitor (vm_compute).",
    note="the clock is not injectable: the exact boundary is proved in the model and sampled >= 200 ms away in the implementation; a "
         "failing recovery is modelled by an operation budget (execute_new: nil error => the full selection, error => nothing resumed, "
         "c11_new_error_or_complete_recovery); an interrupted close followed by any later start-up equals the close "
         "(c11_interrupted_close_then_restart_closes); known finding R9 (torn first UpdatePlan on cosmosdb) is witnessed on every run; what "
         "a resumed plan then does is C09/C10",
    technique="Coq proof (persist-by-key write semantics, specification by direct tree recursion) + differential correspondence with property monitor",
    design="DESIGN.md section 6 C11, section 13")

STORE_NOTE = ("the theorem domain is ops_ok / cops_ok (created plans have pairwise distinct non-nil ids across the tree: what C16 guarantees); "
              "the request/response codec round trip dec (enc x) = Some x is a premise; SQLite transaction semantics and Cosmos per-partition "
              "batch atomicity are trusted; cosmosdb is tied only through the package's fake client (objects keyed by id, order tied separately "
              "through the emitted items); ")
CHECKS["C13"] = dict(
    engine="coq-store",
    text="Coq theorems: the executable models of the sqlite vault (five tables, commit/fetch/update/delete as the SQL statements are "
         "written, ORDER BY pos, time sentinels) and of the cosmosdb vault (items per partition, patch by path, two batches) REFINE an "
         "association-list specification for ALL operation lists of the stated domain: Read returns exactly what was last written "
         "(definition, order, state triples, reason, attempts), and None for ids never created or deleted; fetch_commit core lemma. Tied "
         "to the code by a kernel-checked correspondence: generated op lists on sqlite in-memory, sqlite file-backed and the cosmos fake, "
         "Read of every id after every op compared with the model evaluated in Coq (vm_compute).",
    note=STORE_NOTE + "nil == empty inside request/response values (go-json-experiment); instants zero or >= 1970 for sqlite (codec maps earlier instants to zero by design)",
    technique="Coq proof (refinement to an association-list store; error-propagation inversion lemmas; permutation/sorting for the ordered action query) + differential correspondence",
    design="DESIGN.md section 6 C13, section 13")
CHECKS["C14"] = dict(
    engine="coq-store",
    text="Coq theorems over the same models: Create is all-or-nothing (Ok: read = Some p and exactly the plan's rows appended; Err: database "
         "unchanged — in particular for an unencodable request or attempt at ANY position, or an existing id), unique, and Delete removes "
         "every row of that plan and nothing else on every reachable database; for cosmosdb the same per plan partition, and the two-batch "
         "gap (search batch fails => Err although the plan is readable) is a proved negative result. Correspondence: unencodable values "
         "planted at every action position, duplicates, interleaved creates/deletes, primary-key collisions, fault toggles; result class, "
         "Reads and ROW COUNTS PER TABLE PER plan_id through a direct SQL connection; thorough: process kill during Submit.",
    note=STORE_NOTE + "kill instants are sampled, not controlled; C14 for cosmosdb holds for the plan partition only (documented by its authors; c14_cosmos_two_batch_gap)",
    technique="Coq proof (transaction monad with rollback; success/inversion lemmas for every nested commit) + differential correspondence with row counts",
    design="DESIGN.md section 6 C14, section 13")
CHECKS["C15"] = dict(
    engine="coq-query",
    text="Coq theorems over the transcription of Exists / Search / buildSearchQuery / List of both back ends for ALL histories, filters and "
         "limits: Exists is true exactly for ids created and not deleted; Search rejects the empty filter and otherwise streams exactly "
         "the matching stored plans newest-first (ties in any order) and then closes; List is a LIMIT-prefix of a newest-first arrangement; "
         "Running plans are always found; the check's monitors are proved equivalent to the specification. Tied to the code by a "
         "kernel-checked correspondence on generated vault histories (sqlite in memory and file-backed, cosmosdb fake, raw search items "
         "incl. swarm, and the Search and List query TEXTS parsed and evaluated in Coq).",
    note="SQLite and the Cosmos query engine are trusted to implement the query AST; harness parser for the Cosmos SQL subset; cosmos "
         "results through the fake compared as sets; Search / List under cancelled, just-cancelled and expired contexts must return an error or a "
         "stream closed within a named bound (c15_stream_closed_any_ctx; exposed defect S9); not covered: consumers abandoning a stream",
    technique="Coq proof (semantic evaluation of the emitted query AST, sort and permutation lemmas, monitor exactness) + differential correspondence with property monitors",
    design="DESIGN.md section 6 C15, section 13")
CHECKS["C02"] = dict(
    engine="coq-engine",
    text="Coq theorems: for EVERY shape, trace and interleaving accepted by the observable engine automaton, at every prefix at most "
         "Concurrency sequences of a block have an action in flight and no two blocks have one together (c02_concurrency_bound, "
         "c02_every_prefix, c02_durable_bound); the automaton's launch guard is proved to be the guard that the detailed limiter + pool + "
         "WaitGroup mechanism model enforces on all its interleavings (limiter_refines + the C02 tie theorems). Tied to the code by trace "
         "acceptance + the independent monitor mon_conc evaluated on every real trace (profile conc: parked sequences, probe; several plans "
         "on one Workstream), kernel-checked with vm_compute, and by the statement-by-statement source-shape tie of ExecuteSequences.",
    note="in flight excludes attempts the engine timed out (plugin contract); Concurrency <= 0 -> 1 is C16; the implementation's schedules "
         "are steered (director) and sampled, not enumerated",
    technique="Coq proof (product invariant over the observable automaton; refinement link to the detailed limiter model) + trace-acceptance correspondence",
    design="DESIGN.md section 6 C02, section 13")

ENGINE_NOTE = ("the theorem is about the observable automaton of coq/engine, tied to /repo by trace acceptance of real engine runs "
               "(schedules steered by the harness director and sampled, not enumerated; child processes; > 11 000 traces accepted with zero "
               "rejections when the core was validated) and by the source-derived ties named in the text; overrun returns (attempts the engine "
               "timed out) and background continuous-check runs are exempt by pinned interpretation (DESIGN section 11); ")
CHECKS["C01"] = dict(
    engine="coq-engine",
    text="Coq theorem c01_order_and_gates: for EVERY shape, trace and interleaving accepted by the observable engine automaton the monitor "
         "mon_order holds (blocks one at a time in declared order; actions of a sequence in order, each only after its predecessor's last "
         "return was ok, at most one in flight, nothing after a failed action; every sequence action only after all-ok runs of the plan's "
         "and the block's pre groups and initial continuous runs; post after all started sequences, deferred last), proved by a product "
         "invariant over all handlers and epsilon-moves, with two first-order restatements (gates, predecessor ok). Every real trace must be "
         "accepted by the automaton AND satisfy mon_order (vm_compute); the state-chain graph is regenerated from the Go source on every "
         "run and its dominance facts (sequences gated by pre-check states, post only through sequences, ...) are re-proved in Coq.",
    note=ENGINE_NOTE + "goroutines that emit no plugin event are invisible; attempt counts are C05, launch guard C02/C03, bypass C06, continuous failures C07",
    technique="Coq proof (product invariant automaton x monitor, induction over the trace) + trace-acceptance correspondence + source-generated graph facts",
    design="DESIGN.md section 6 C01, section 13")
CHECKS["C03"] = dict(
    engine="coq-engine",
    text="Coq theorems: mon_tol (13 clauses: at most tol+conc failed sequences; a sequence starts only under the launch condition "
         "I < conc /\\ (tol < 0 \\/ f + I <= tol + conc - 1) and while the block is Running; with conc = 1 nothing after the exceeding "
         "failure; block Failed only with a cause and only with nothing in flight, Completed only without; no later block after a Failed "
         "block; plan Failed) holds on EVERY trace accepted by the observable automaton (c03_tolerance, c03_release, "
         "c03_bound_and_verdict), the block verdict is schedule independent at automaton level, and the detailed limiter mechanism model "
         "satisfies the same guard/bounds on all its interleavings (coq/limiter). Correspondence: the 360-plan bounded-exhaustive family "
         "(tol x conc x <= 4 sequences x failing subsets, permuted completion orders) + mixed + multi-plan runs, acceptance and monitor by "
         "vm_compute; statement-by-statement source-shape tie of ExecuteSequences.",
    note=ENGINE_NOTE + "orderings without an observable event (failures.Add vs. limiter release) are tied only by the source-shape check; "
         "recovery entry with pre-counted failures is proved at mechanism level only",
    technique="Coq proof (reachable-state invariant + two-mode product relation; mechanism model invariants) + trace-acceptance correspondence",
    design="DESIGN.md section 6 C03, section 13")

CHECKS["C06"] = dict(
    engine="coq-engine",
    text="Coq theorem c06_gating: for EVERY shape, trace and interleaving accepted by the observable engine automaton the per-scope monitor "
         "mon_gate holds: after a bypass group passed no other plugin event of that scope occurs and the scope ends Completed; a failed "
         "bypass alone never fails the scope (a Failed scope has another failed stage); a sequence action starts only when every pre action "
         "and every action of the initial continuous run returned ok, so a failed pre / initial continuous run means no sequence action "
         "ever, the scope ends Failed, and the run is released (c06_gating_at_release, c06_no_sequence_behind_a_closed_gate, "
         "c06_nothing_after_a_passed_bypass). Correspondence: all 224 (level, presence subset of the five groups, bypass ok / first failing "
         "group) combinations + mixed, cont, final profiles on every run, acceptance and monitor by vm_compute; Hang is a violation of the "
         "release obligation; the source-regenerated state graph facts (bypass successors, sequences gated, deferred dominates End) are "
         "re-proved on every run.",
    note=ENGINE_NOTE + "recovered runs and entrance/exit delays are not covered; the tolerance iff is C03, stage order C01",
    technique="Coq proof (reachable-state invariant pinv + per-scope product relations) + trace-acceptance correspondence + source-generated graph facts",
    design="DESIGN.md section 6 C06, section 13")

CHECKS["C04"] = dict(
    engine="coq-engine",
    text="Coq theorems c04_final_consistent / c04_final_released: for EVERY plan shape and every trace the observable engine automaton "
         "accepts, the monitor mon_final_core holds at and after the return of Wait: plan Completed or Failed, nothing Running, no plugin "
         "still executing, nothing changes afterwards, the status-consistency rules of the property, every action's status and attempt "
         "count equal what the trace shows ran, and the reason is the first stage (pre, cont, block, post, deferred) whose failure the "
         "trace shows, unset exactly when Completed; image_invariant and final_sound are stated on their own. Every real run must be "
         "accepted by the automaton and satisfy mon_final (incl. the time flags start<=end, observed on the implementation); a hang "
         "violates the release obligation; Final.v is tied to the real finalStates by direct function equality on generated status "
         "combinations through the verifhooks hook (all 7 776 plan-group combinations in the thorough tier).",
    note=ENGINE_NOTE + "start<=end / end-time-set flags are evaluated on real traces only (the automaton carries no clock; wall-clock "
         "monotonicity is not covered); a block's own verdict is C03, retry budgets C05",
    technique="Coq proof (product invariant automaton x monitor, phase windows, late-list accounting) + trace-acceptance correspondence + direct function equality for finalStates",
    design="DESIGN.md section 6 C04, section 13")
CHECKS["C07"] = dict(
    engine="coq-engine",
    text="Coq theorems c07_cont_deferred (all 15 clauses of the per-scope monitor mon_cont_deferred for EVERY shape, trace and interleaving "
         "of the observable automaton: no continuous run begins after a failed one; a failed continuous or deferred run means the scope and "
         "the group are shown Failed, with reason ContCheck / DeferredCheck at plan level unless an earlier stage failed; a deferred run "
         "begins only in an entered scope, only once, and nothing else of the scope runs after it began), c07_deferred_exactly_once at "
         "release (entered scope: exactly one deferred run; bypassed or unstarted: none), c07_thread_alive_* (safety half of 'keeps being "
         "re-run'; the liveness half is REFUTED for the faithful mechanism model - c07_keeps_rerunning_refuted: the sender stalls on the "
         "capacity-1 channel while no reader polls - witnessed on the real engine on every run and listed as known finding K1), and the result-channel mechanism theorems (no_failure_lost, conservation, at most one failed verdict, drain progress) "
         "on the detailed ContChan model. Correspondence: profiles cont (failure at the k-th run, k = 1..6, placed around sequence "
         "boundaries and the drain window), final, tol, mixed with forced deferred groups; acceptance + monitor by vm_compute; the check "
         "also requires that re-runs are actually observed; statement-shape tie of runContChecks/BlockEnd/PlanPostChecks/"
         "PlanDeferredChecks and the source-regenerated graph facts re-proved on every run.",
    note=ENGINE_NOTE + "the liveness half of 'keeps being re-run' is measured on the implementation (a third run of a continuous group must be "
         "observed), not proved; the rate of re-runs is not a property",
    technique="Coq proof (per-scope product invariant over reachable-state invariants; channel-protocol invariants) + trace-acceptance correspondence + source ties",
    design="DESIGN.md section 6 C07, section 13")

CHECKS["C08"] = dict(
    engine="coq-engine",
    text="Coq theorems for EVERY shape, accepted trace and interleaving of the observable automaton: c08_persist_before_act (an action is "
         "durably Running, with its sequence durably Running, with exactly the number of recorded attempts, before its plugin is entered; "
         "each attempt's result is durable before the next attempt, the next action of the sequence or the terminal write; the released "
         "plan equals the durable image and follows the plan's terminal write; no write moves a block, sequence or sequence action out of "
         "a durable Completed/Failed), image_monotone(_trace), and c08_no_visible_regress(_checked): polled snapshots never show progress "
         "going backwards, proved from an explicit read hypothesis that the check evaluates on every real trace (mon_explained). "
         "Correspondence: real traces with a 200 us poller (profiles persist, attempts, mixed, final, cont, multi-plan) checked against "
         "the automaton and the three monitors by vm_compute; thorough tier: every k-th Update* of small plans is made to fail in a child "
         "process, which must exit without releasing a waiter or making a dependent invocation.",
    note=ENGINE_NOTE + "durability below the Update* return (SQLite/WAL, fsync) is out of scope; 'write failure is fatal' is an injected-fault "
         "sweep, not a theorem; quiescence at release is C04",
    technique="Coq proof (product invariant automaton x monitor + reachable-state invariant; read-hypothesis lemma) + trace-acceptance correspondence on polled traces + k-th-write failure sweep",
    design="DESIGN.md section 6 C08, section 13")

RECOVER_NOTE = ("crash = a prefix of the durable write sequence of a real run (every prefix for runs <= 150 writes), materialised with vault.Create and "
                "recovered by the real coercion.New; double crashes are sampled (all of them for small runs in the thorough tier), plus file-backed "
                "stores and 200 real SIGKILLs in the thorough tier; the repair functions have a direct function-equality correspondence through "
                "the verifhooks hooks (coq/recover); ")
CHECKS["C09"] = dict(
    engine="coq-resume",
    text="Coq theorems: c09_finished_plan_runs_nothing (a plan not durably Running is not resumed: no plugin call, no write); "
         "c09_no_reexecution (coq/imgwf: for EVERY trace accepted by the engine automaton, every write prefix k, every full read of the "
         "crash image, every flag set and every trace accepted by the resumed automaton from the repair of that image: no sequence action "
         "with a durable attempt-bearing result that repair turns into Completed/Failed is invoked, nothing is invoked inside a durably "
         "Completed or Failed sequence, block or plan) — the well-formedness of crash images is PROVED as an invariant of the engine "
         "automaton (hinv + C06's pinv) and of the resumed automaton (coq/chain), so no premise on any image remains: "
         "c09_crash_chain_unconditional for any number of crashes. Every real recovery (each write prefix of each recorded run incl. an overrun family, sampled "
         "double crashes) must be accepted by the resumed automaton and satisfy the independent monitor mon_noreexec (vm_compute); the "
         "crash image is checked equal to the store read-back and well-formed on every case; the repair functions have a direct "
         "function-equality correspondence.",
    note=RECOVER_NOTE + "the crash chain is unconditional for ANY number of crashes (coq/chain: c09_crash_chain_unconditional: img_wf0 is an "
         "invariant of the resumed automaton until the terminal plan write, for every deviation flag set; after that write a plan is never "
         "resumed); the harness samples single and double crashes only",
    technique="Coq proof (invariants of the engine and resumed automata + repair facts derived from coq/recover) + trace-acceptance correspondence on real recoveries + direct function equality for the repair functions",
    design="DESIGN.md section 6 C09, section 13")
CHECKS["C10"] = dict(
    engine="coq-resume",
    text="Coq theorems, for every shape, every trace accepted by the engine automaton, every crash point k and every deviation flag set at "
         "the first crash: the crash image is consistent (c10_crash_images_consistent); a release accepted by the resumed automaton "
         "returns a terminal plan that obeys the sequence/action rules and the plan rule of C04 "
         "(c10_released_sequences_and_actions_consistent, c10_released_plan_consistent: coq/c10x); with NO flag nothing in it is left "
         "Running and the terminal write = finalStates of the in-memory statuses (c10_released_plan_is_quiescent, "
         "c10_recovery_converges_partial: coq/resume); the plan-scope deferred group has run when the repair does not short-circuit "
         "(c10_plan_deferred_group_ran_partial); c10_flags_only_loosen. The FULL statement is refuted per known finding "
         "(c10_recovery_converges_refuted_R2/R3/R5/R6: one real recovery each, accepted only with that flag, on which mon_converges is "
         "false) and its deferred-checks clause also without any flag (second half of R2, real recovery rec-5009-k12). The remaining "
         "clauses (reaches release without hanging; block-scope deferred groups; the block rule; time flags; final status = the "
         "uninterrupted run's verdict for action-determined outcomes; everything after a second crash) are evaluated by the independent "
         "monitor mon_converges on every real recovery; a case that needs a listed finding prints KNOWN-FINDING, anything else is a "
         "VIOLATION.",
    note=RECOVER_NOTE + "PARTIAL: progress/termination, block-scope deferred groups, the block rule and verdict equality are monitored, not "
         "proved; the code genuinely violates the full property (known findings R2, R3, R5, R6 in known_findings.json: interrupted "
         "check-group runs and deferred groups skipped when recovery short-circuits to End, fixBlock early return, in-memory-only sequence "
         "repair before a second crash, plan continuous failure abandoning the running block); R7 was repaired (0c944e8)",
    technique="Coq proof (invariants of the resumed automaton over C04's product invariant and the Fix.v transcription; refutation witnesses by vm_compute from real recoveries) + monitor + trace-acceptance correspondence on real recoveries",
    design="DESIGN.md section 6 C10, section 13")

PENDING_REASON = "check under construction in this session (see DESIGN.md section 12 build order); not yet claimed"


def main():
    old = json.load(open(os.path.join(ROOT, "MANIFEST.json")))
    m = dict(version=1, setup_cmd="./setup.sh", hooks=old["hooks"])
    used = sorted({c["engine"] for c in CHECKS.values()})
    m["engines"] = [dict(name=e, path=ENGINES[e][0],
                         serves_properties=sorted(p for p, c in CHECKS.items() if c["engine"] == e),
                         kind_free_text="Coq 8.16 model + theorems (%s); Go harness correspondence evaluated with vm_compute" % ENGINES[e][1])
                    for e in used]
    m["checks"] = []
    for pid in ALL:
        if pid not in CHECKS:
            continue
        c = CHECKS[pid]
        m["checks"].append(dict(
            property_id=pid, quick_cmd="./check %s --tier quick" % pid, thorough_cmd="./check %s --tier thorough" % pid,
            evidence_file="evidence/%s.json" % pid, replay_cmd_template="./check %s --replay {path}" % pid, engine=c["engine"],
            level_claimed=dict(category="proof", text=c["text"], design_ref=c["design"]),
            level_note=COMMON_NOTE + c["note"], technique=c["technique"]))
    m["not_applicable"] = [dict(property_id=p, reason=PENDING_REASON) for p in ALL if p not in CHECKS]
    m["notes"] = ("see DESIGN.md (section 13 records what was built per property); known findings: known_findings.json; seeded changes: "
                  "seeded/ (RESULTS.json: 148 of 148 caught, one retired as behaviour-neutral after a fix). Supporting checks that are not properties of their own: ./check MECH "
                  "(mechanism theorems of coq/limiter + source-shape tie), ./check GLUE (31 cross-model composition theorems), ./check GEN "
                  "(gen_accepted: for every well-formed non-empty shape and every oracle the engine automaton accepts a complete released "
                  "trace, so the C01-C08 theorems are not vacuous; generator = real sequential engine runs), python3 lib/props/smgraph.py "
                  "(state graph regenerated from the Go source), python3 lib/props/repair.py (crash-repair function equality). "
                  "tools/runall.sh runs every registered check and validates every evidence file.")
    with open(os.path.join(ROOT, "MANIFEST.json"), "w") as f:
        json.dump(m, f, indent=1)
    print("claimed:", [c["property_id"] for c in m["checks"]])


if __name__ == "__main__":
    main()
