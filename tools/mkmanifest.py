#!/usr/bin/env python3
"""Regenerate /verif/MANIFEST.json from the table below (kept here so that entries are added in one place)."""
import json
import os

ROOT = os.path.dirname(os.path.dirname(os.path.abspath(__file__)))
ALL = ["C%02d" % i for i in range(1, 21)]

COMMON_NOTE = ("trusted: Coq 8.16.1 kernel incl. vm_compute (no native_compute; coqchk re-check in the thorough tier); no axioms "
               "(Print Assumptions of every property theorem is recorded in the evidence); the model is hand-written and tied to "
               "/repo by the correspondence check of each run (sampled, generator distribution recorded in the evidence); Go harness "
               "abstraction of Go values to Coq terms; ")

ENGINES = {
    "coq-tree": ("coq/tree", "yield-passing model of walk.Plan + declarative specification"),
    "coq-builder": ("coq/builder", "cursor-machine model of builder.go + recursive-descent reference"),
    "coq-api": ("coq/api", "small-step model of Plans.Start / the run goroutine / Wait, Status, Plan, Submit"),
    "coq-validate": ("coq/validate", "transcription of workflow.Validate (BFS queue, shared key set), Defaults, Submit, validateStartState + declarative WF"),
}

# pid -> dict(engine, text, note, technique, design)
CHECKS = {
    "C19": dict(
        engine="coq-tree",
        text="Coq theorems over the yield-passing model of walk.Plan for ALL plans and ALL consumers: no duplicates, membership = objects of "
             "the plan, strictly sorted in execution order, chain = ancestors, any consumer is fed exactly the walk until it says stop "
             "(every stop position), and uniqueness (sortedness + membership + ancestors determine the walk). The model is tied to the code "
             "by a correspondence check on generated plans x every stop position, kernel-checked (vm_compute) on every run; because the "
             "specification determines the output completely, any disagreement is a violation with the plan as replay.",
        note="path numbering of objects by the harness; nil elements inside slices are skipped by model and code alike",
        technique="Coq proof (structural induction, refinement to a list specification, uniqueness) + differential correspondence",
        design="DESIGN.md section 6 C19, section 13"),
    "C20": dict(
        engine="coq-builder",
        text="Coq theorems over the cursor-machine model of builder.go for ALL New arguments and ALL call lists: never panics; call-by-call "
             "equality with a reference built on a recursive-descent parser of the call list (emitted tree = parsed tree; first misuse "
             "sticky until Reset; use-after-emit); stickiness monitor. Tied to the code by a correspondence check (per-call error identity "
             "and class, Err(), emitted tree) on generated and exhaustively enumerated sessions, kernel-checked with vm_compute every run.",
        note="keyword classification of error texts into classes; label abstraction of builder arguments; not covered: the same pointer "
             "passed to two calls, concurrent use of one builder",
        technique="Coq proof (simulation by induction on parser fuel / call list, phase lemmas, monitor invariant) + differential correspondence",
        design="DESIGN.md section 6 C20, section 13"),
}

CHECKS["C12"] = dict(
    engine="coq-api",
    text="Coq theorems over the small-step Start/engine/API model for ALL interleavings of any number of callers: at most one execution "
         "per plan, startMu mutual exclusion, no panic, restart rejected with the state unchanged, stale submission rejected, launch only "
         "after a fresh validated read; refutation lemmas show the same model without the lock / waiter check executes twice and panics. "
         "Correspondence (result classes, Status iterator results and per-plan execution counts of child-process histories and concurrent "
         "Start bursts) kernel-checked with vm_compute on every run via a set-of-states simulation of the model plus a separate monitor.",
    note="error classification by Go type, nonce-keyed call counting, gates, child-process isolation; not covered: recovery-started runs, "
         "cosmosdb vault, store write failures (log.Fatal), Delete of an executing plan, Status with a non-positive interval, the exact "
         "maxSubmit boundary (proved in the model, sampled >= 400 ms away)",
    technique="Coq proof (inductive invariant over a labelled transition system; refutation by computation) + trace-acceptance correspondence",
    design="DESIGN.md section 6 C12, section 13")
CHECKS["C16"] = dict(
    engine="coq-validate",
    text="Coq theorems over the transcription of workflow.Validate / Defaults / Submit / validateStartState for ALL plans (incl. nil "
         "elements): validate accepts exactly the declarative WF (queue invariant, fuel never runs out), rejected Submit leaves the store "
         "unchanged, accepted Submit stores normalize(p) pristine with fresh pairwise-distinct v7 ids and a submit time (given an injective "
         "v7 id supply), Start refuses non-check plugins in check groups and accepts freshly stored plans. Correspondence: mutants of valid "
         "plans (56 mutation kinds, 15 store tamperings) through the real Validate / Submit / Plan / Start on a sqlite vault in child "
         "processes, verdicts compared with WF first (any disagreement is a violation with that plan as replay), kernel-checked with vm_compute.",
    note="uuid.NewV7 injectivity/version and the vault's Create verdict are premises; not covered: the same pointer used twice in a plan, "
         "cosmosdb, concurrent Submits, what Create does on failure (C14)",
    technique="Coq proof (queue invariant, permutation of key sets, state-passing walk) + differential correspondence against the spec",
    design="DESIGN.md section 6 C16, section 13")

PENDING_REASON = "check under construction in this session (see DESIGN.md section 12 build order); not yet claimed"


def main():
    old = json.load(open(os.path.join(ROOT, "MANIFEST.json")))
    m = dict(version=1, setup_cmd="./setup.sh", hooks=old["hooks"])
    used = sorted({c["engine"] for c in CHECKS.values()})
    m["engines"] = [dict(name=e, path=ENGINES[e][0],
                         serves_properties=sorted(p for p, c in CHECKS.items() if c["engine"] == e),
                         kind_free_text="Coq 8.16 model + theorems (%s); Go harness correspondence evaluated with vm_compute" % ENGINES[e][1])
                    for e in used]
    m["checks"] = []
    for pid in ALL:
        if pid not in CHECKS:
            continue
        c = CHECKS[pid]
        m["checks"].append(dict(
            property_id=pid, quick_cmd="./check %s --tier quick" % pid, thorough_cmd="./check %s --tier thorough" % pid,
            evidence_file="evidence/%s.json" % pid, replay_cmd_template="./check %s --replay {path}" % pid, engine=c["engine"],
            level_claimed=dict(category="proof", text=c["text"], design_ref=c["design"]),
            level_note=COMMON_NOTE + c["note"], technique=c["technique"]))
    m["not_applicable"] = [dict(property_id=p, reason=PENDING_REASON) for p in ALL if p not in CHECKS]
    m["notes"] = "see DESIGN.md (section 13 records what was built per property); known findings: known_findings.json; seeded changes: seeded/"
    with open(os.path.join(ROOT, "MANIFEST.json"), "w") as f:
        json.dump(m, f, indent=1)
    print("claimed:", [c["property_id"] for c in m["checks"]])


if __name__ == "__main__":
    main()
