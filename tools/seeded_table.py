#!/usr/bin/env python3
"""Print the markdown table of seeded changes (seeded/<id>/meta.json + seeded/RESULTS.json) for DESIGN.md 13.5."""
import glob
import json
import os

ROOT = os.path.dirname(os.path.dirname(os.path.abspath(__file__)))
res = {r["id"]: r for r in json.load(open(os.path.join(ROOT, "seeded", "RESULTS.json")))["results"]}
print("| id | change | needs | caught by |")
print("|---|---|---|---|")
n = own = other = retired = 0
for d in sorted(glob.glob(os.path.join(ROOT, "seeded", "C??-?"))):
    sid = os.path.basename(d)
    m = json.load(open(os.path.join(d, "meta.json")))
    r = res.get(sid, {})
    by = []
    for pid, c in sorted(r.get("checks", {}).items()):
        if c.get("caught"):
            concrete = any("no-failing-input-found" not in v for v in c.get("violations", []))
            by.append("%s%s" % (pid, "" if concrete else " (structural only)"))
    if m.get("retired"):
        retired += 1
        t = (m.get("title") or "").replace("|", "/")[:150]
        print("| %s | %s | %s | retired: %s |" % (sid, t, "", m["retired"][:110]))
        continue
    n += 1
    if any(b.startswith(m["property"]) for b in by):
        own += 1
    elif by:
        other += 1
    t = (m.get("title") or "").replace("|", "/")[:150]
    need = (m.get("needs") or "").replace("|", "/").replace("\n", " ")[:130]
    print("| %s | %s | %s | %s |" % (sid, t, need, ", ".join(by) if by else "**missed**"))
print()
print("%d changes%s; %d caught by the check of their own property, %d more by another property's check, %d missed."
      % (n, (" (+%d retired)" % retired) if retired else "", own, other, n - own - other))
