#!/bin/sh
# usage: tools/runall.sh [quick|thorough] [ids...]   - runs the registered checks on /repo, validates every evidence file
cd "$(dirname "$0")/.."
tier="${1:-quick}"; shift 2>/dev/null
ids="$*"
[ -z "$ids" ] && ids=$(python3 -c "import json; print(' '.join(c['property_id'] for c in json.load(open('MANIFEST.json'))['checks']))")
fail=0
for c in $ids; do
  s=$(date +%s)
  out=$(./check "$c" --tier "$tier" 2>&1); rc=$?
  e=$(( $(date +%s) - s ))
  v=$(python3-vt - "$c" <<'PY'
import json,sys,jsonschema
pid=sys.argv[1]
try:
    ev=json.load(open('evidence/%s.json'%pid)); jsonschema.validate(ev, json.load(open('/root/.vp/EVIDENCE.schema.json')))
    c=ev['coverage']; ok=(c.get('obligations')==c.get('discharged')) and ev.get('repo','/repo')=='/repo'
    print('evidence-ok' if ok else 'EVIDENCE-BAD(%s/%s)'%(c.get('discharged'),c.get('obligations')), 'eval=%s distinct=%s'%(c.get('evaluations'),c.get('distinct_nontrivial')))
except Exception as ex:
    print('EVIDENCE-INVALID', str(ex)[:100])
PY
)
  echo "$c rc=$rc ${e}s $v $(echo "$out" | grep -c '^VIOLATION') violations $(echo "$out" | grep '^KNOWN-FINDING' | cut -c1-60 | tr '\n' ';')"
  [ $rc -ne 0 ] && fail=1 && echo "$out" | grep "^VIOLATION" | head -3
done
exit $fail
