(* The invariants along a run of the automaton, and what the automaton allows after the release. *)
From Coq Require Import Lia.
From Coercion.Base Require Import Plan.
From Coercion.Engine Require Import Shape Event Action ChecksRun Seq Block Final PlanSM Auto Accept AutoLemmas.
From Coercion.C04 Require Import MonC04 Views InvDefs InvLocal InvGlobal InvLift InvOps InvHandle InvWrite InvStep
     InvEps InvFoot InvPath.

Local Arguments iget : simpl never.
Local Arguments iset : simpl never.
Local Arguments ist : simpl never.
Local Arguments tlook : simpl never.
Local Arguments tput : simpl never.

Definition Inv (sh : shape) (s : st) (m : mstate) : Prop := Inv1 sh s m /\ Inv2 sh s m.

Section Run.
  Variable sh : shape.

  Lemma Inv_init : Inv sh init mstate0.
  Proof.
    assert (U : forall a, untouched_at (iget [] (OAct a)) (tlook [] a)).
    { intro a. split; [reflexivity|]. unfold tsettled, tally_is. simpl. auto. }
    assert (G : forall ors sc g, grp_inv ors g0 [] [] sc g).
    { intros [rs|] sc g; unfold grp_inv, ginv_opt; simpl; [|auto].
      split; [reflexivity|]. intros i _. apply U. }
    split; [|exact I].
    constructor; simpl.
    - intro g. destruct g; apply G.
    - unfold p_windows. simpl. repeat split; auto. intro X. discriminate X.
    - intros bi bs Hb. simpl. split; [|reflexivity]. split; [|split].
      + intro g. destruct g; apply G.
      + simpl. apply repeat_length.
      + intros q rs x Hr Hx. simpl in Hx. apply nth_error_repeat_inv in Hx as [-> _]. simpl.
        split; [reflexivity|]. intros i _. apply U.
    - intro a. simpl. split; [reflexivity|]. unfold lcount. lia.
    - reflexivity.
    - discriminate.
  Qed.

  Lemma eps_star_Inv s m s0 : eps_star sh s s0 -> Inv sh s m -> Inv sh s0 m.
  Proof.
    intro H. induction H as [s|s s1 s2 E _ IH]; intros [I1 I2]; [split; auto|].
    apply IH. split; [eapply eps_Inv1; eauto|eapply eps_Inv2; eauto].
  Qed.

  Lemma step_Inv s m e s' : Inv sh s m -> step sh s e = Some s' -> Inv sh s' (mon_step m e).
  Proof.
    intros I H. destruct (step_spec _ _ _ _ H) as [(s0 & Hs & H0)|[-> S]].
    - destruct (eps_star_Inv _ m _ Hs I) as [I1 I2].
      split; [eapply handle_Inv1; eauto|eapply handle_Inv2; eauto].
    - destruct I as [I1 I2]. split; [eapply stutter_Inv1; eauto|eapply stutter_Inv2; eauto].
  Qed.

  (* ---- released or not ---- *)
  Lemma eps_not_released s s1 : eps sh s = Some s1 -> released s1 = false.
  Proof.
    unfold eps, p_eps, released. intro H.
    assert (EB : forall s0 cb, s_ph (enter_block sh s0 cb) = s_ph s0).
    { intros s0 cb. unfold enter_block. destruct (block_of sh cb); reflexivity. }
    destruct (s_ph s) eqn:Hp.
    - destruct (status_eqb _ _); [|discriminate]. now injection H as <-.
    - destruct (g_bypass _).
      + destruct (once_done _ _ _) as [[x [|]]|]; try discriminate; now injection H as <-.
      + now injection H as <-.
    - destruct (once_done _ (t_pre _) _) as [[x v1]|]; [|discriminate].
      destruct (once_done _ (t_cont _) _) as [[y v2]|]; [|discriminate].
      destruct (v1 && v2); now injection H as <-.
    - destruct (block_of sh (s_cb s)).
      + destruct (b_eps _ _ _ _ _) as [[b'|[|]]|]; try discriminate; injection H as <-; simpl; rewrite ?EB, ?Hp; reflexivity.
      + now injection H as <-.
    - destruct (thr_live _).
      + destruct (g_settle _ _) as [x|]; [|discriminate]. injection H as <-. destruct (g_dead x); simpl; rewrite ?Hp; reflexivity.
      + destruct (once_done _ _ _) as [[x v]|]; [|discriminate]. now injection H as <-.
    - destruct (thr_live _).
      + destruct (g_settle _ _) as [x|]; [|discriminate]. injection H as <-. simpl. rewrite Hp. reflexivity.
      + destruct (once_done _ _ _) as [[x v]|]; [|discriminate]. now injection H as <-.
    - discriminate.
    - discriminate.
  Qed.

  Lemma eps_star_not_released s s0 : eps_star sh s s0 -> released s = false -> released s0 = false.
  Proof.
    intro H. induction H as [s|s s1 s2 E _ IH]; intro R; [auto|]. apply IH. eapply eps_not_released; eauto.
  Qed.

  Lemma handle_released s e s' :
    handle sh s e = Some s' -> (forall fin, e <> EvRelease fin) -> released s' = released s.
  Proof.
    intros H Hn. unfold released. destruct e as [a|a o|o st n ok r|snap|fin]; simpl in H.
    - destruct (released s); [discriminate|]. destruct (h_start_frame _ _ _ _ H) as (_ & E & _). now rewrite E.
    - destruct (h_end_frame _ _ _ _ _ H) as (_ & E & _). now rewrite E.
    - destruct (released s); [discriminate|]. destruct (h_write_foot _ _ _ _ _ _ _ _ H) as (_ & E & _). now rewrite E.
    - unfold h_read in H. destruct (s_fin s); [destruct (images_agree _ _ _); [|discriminate]|]; now injection H as <-.
    - elim (Hn fin). reflexivity.
  Qed.

  Lemma step_not_released s e s' :
    step sh s e = Some s' -> released s = false -> (forall fin, e <> EvRelease fin) -> released s' = false.
  Proof.
    intros H R Hn. destruct (step_spec _ _ _ _ H) as [(s0 & Hs & H0)|[-> _]]; [|exact R].
    rewrite (handle_released _ _ _ H0 Hn). eapply eps_star_not_released; eauto.
  Qed.

  (* a released state moves only by handlers *)
  Lemma step_when_released s e s' : released s = true -> step sh s e = Some s' -> handle sh s e = Some s'.
  Proof.
    intros R H. unfold step in H.
    assert (E : eps sh s = None).
    { unfold eps, p_eps. unfold released in R. apply pphase_eqb_eq in R. rewrite R. reflexivity. }
    assert (HE : handle_eps sh eps_fuel s e = handle sh s e).
    { unfold eps_fuel. simpl. destruct (handle sh s e); [reflexivity|]. now rewrite E. }
    rewrite HE in H. destruct (handle sh s e); [exact H|].
    unfold stutter in H. destruct e; try discriminate. rewrite R in H. discriminate.
  Qed.
End Run.
