(* Inv1 is kept by every handler of the automaton (Auto.handle), matched by the monitor's mon_step, and by
   stutter writes. *)
From Coq Require Import Lia.
From Coercion.Base Require Import Plan.
From Coercion.Engine Require Import Shape Event Action ChecksRun Seq Block Final PlanSM Auto Accept AutoLemmas.
From Coercion.C04 Require Import MonC04 Views InvDefs InvLocal InvGlobal InvLift InvOps.

Local Arguments tlook : simpl never.
Local Arguments tput : simpl never.
Local Arguments iget : simpl never.
Local Arguments iset : simpl never.
Local Arguments lcount : simpl never.
Local Arguments ist : simpl never.

Section Handle.
  Variable sh : shape.

  Lemma cur_block_spec s b bs :
    cur_block sh s b = Some bs -> s_ph s = PBlocks /\ b = s_cb s /\ nth_error (sh_blocks sh) b = Some bs.
  Proof.
    unfold cur_block. destruct (pphase_eqb (s_ph s) PBlocks && Nat.eqb b (s_cb s)) eqn:E; [|discriminate].
    apply andb_true_iff in E as [E1 E2]. apply pphase_eqb_eq in E1. apply Nat.eqb_eq in E2. auto.
  Qed.

  Lemma cur_binv s m bs :
    Inv1 sh s m -> s_ph s = PBlocks -> nth_error (sh_blocks sh) (s_cb s) = Some bs ->
    binv bs (s_cb s) (s_b s) (s_img s) (m_t m) /\ b_windows (s_b s).
  Proof.
    intros I Hp Hb. pose proof (i_blocks _ _ _ I _ _ Hb) as H. rewrite Hp, Nat.ltb_irrefl, Nat.eqb_refl in H. exact H.
  Qed.

  Lemma any_binv s m b bs :
    Inv1 sh s m -> nth_error (sh_blocks sh) b = Some bs -> exists b0, binv bs b b0 (s_img s) (m_t m).
  Proof.
    intros I Hb. pose proof (i_blocks _ _ _ I _ _ Hb) as H.
    destruct (s_ph s).
    1-3: destruct H as [H _]; eauto.
    - destruct (b <? s_cb s).
      + destruct H as [(b0 & _ & H) _]. eauto.
      + destruct (Nat.eqb b (s_cb s)); destruct H as [H _]; eauto.
    - destruct H as [(b0 & _ & H) _]. eauto.
    - destruct H as [(b0 & _ & H) _]. eauto.
    - destruct H as [(b0 & _ & H) _]. eauto.
    - destruct H as [(b0 & _ & H) _]. eauto.
  Qed.

  (* membership in the shape gives the index bounds *)
  Lemma in_shape_pchk g i rs :
    obj_in_shape sh (OAct (AChk SPlan g i)) = true -> grp_get (sh_groups sh) g = Some rs -> i < length rs.
  Proof.
    simpl. unfold group_of. simpl. intros H E. rewrite E in H.
    destruct (nth_error rs i) eqn:N; [|discriminate]. eapply nth_error_some_lt; eauto.
  Qed.
  Lemma in_shape_bchk b g i bs rs :
    obj_in_shape sh (OAct (AChk (SBlock b) g i)) = true -> nth_error (sh_blocks sh) b = Some bs ->
    grp_get (bs_groups bs) g = Some rs -> i < length rs.
  Proof.
    simpl. unfold group_of, scope_groups, block_of. intros H Eb E. rewrite Eb in H. simpl in H. rewrite E in H.
    destruct (nth_error rs i) eqn:N; [|discriminate]. eapply nth_error_some_lt; eauto.
  Qed.
  Lemma in_shape_sact b q i bs rs :
    obj_in_shape sh (OAct (ASeq b q i)) = true -> nth_error (sh_blocks sh) b = Some bs ->
    nth_error (bs_seqs bs) q = Some rs -> i < length rs.
  Proof.
    simpl. unfold seq_of, block_of. intros H Eb E. rewrite Eb, E in H.
    destruct (nth_error rs i) eqn:N; [|discriminate]. eapply nth_error_some_lt; eauto.
  Qed.
  Lemma in_shape_pgrp g : obj_in_shape sh (OAct (AChk SPlan g 0)) = true \/ True. Proof. auto. Qed.

  (* frames inside a group / a sequence *)
  Lemma group_frame_img img sc g o0 c o : in_group sc g o0 -> ~ in_group sc g o -> iget (iset img o0 c) o = iget img o.
  Proof. intros H0 H. apply iget_iset_other. intro E. subst. contradiction. Qed.
  Lemma group_frame_tally m sc g i0 t a :
    (forall i, a <> AChk sc g i) -> teq (tlook m a) (tlook (tput m (AChk sc g i0) t) a).
  Proof. intro H. rewrite tlook_tput_other; [apply teq_refl|]. intro E. symmetry in E. exact (H i0 E). Qed.
  Lemma seq_frame_img img bi q o0 c o : in_seq bi q o0 -> ~ in_seq bi q o -> iget (iset img o0 c) o = iget img o.
  Proof. intros H0 H. apply iget_iset_other. intro E. subst. contradiction. Qed.
  Lemma seq_frame_tally m b q i0 t a :
    (forall i, a <> ASeq b q i) -> teq (tlook m a) (tlook (tput m (ASeq b q i0) t) a).
  Proof. intro H. rewrite tlook_tput_other; [apply teq_refl|]. intro E. symmetry in E. exact (H i0 E). Qed.
  Lemma teq_all_refl m : forall a : aref, teq (tlook m a) (tlook m a).
  Proof. intro a. apply teq_refl. Qed.

  Lemma not_idle_window s m g :
    Inv1 sh s m -> g_is_idle (tget (s_g s) g) = false -> window_open s g.
  Proof.
    intros I H. destruct (p_windows_get s g (i_windows _ _ _ I)) as [E|W]; [congruence|exact W].
  Qed.
  Lemma not_idle_bwindow b g : b_windows b -> g_is_idle (tget (b_g b) g) = false -> b_window_open b g.
  Proof. intros W H. destruct (b_windows_get b g W) as [E|W']; [congruence|exact W']. Qed.

  Lemma g_start_running g i d x : g_start g i d = Some x -> g_is_idle g = false.
  Proof. destruct g; simpl; [discriminate|reflexivity]. Qed.
  Lemma g_act_running g i a : g_act g i = Some a -> g_is_idle g = false.
  Proof. destruct g; simpl; [discriminate|reflexivity]. Qed.
  Lemma g_end_running g i o x : g_end g i o = Some x -> g_is_idle g = false.
  Proof. unfold g_end. destruct (g_act g i) eqn:E; [|discriminate]. intros _. eapply g_act_running; eauto. Qed.
  Lemma g_attempt_running rs g i k ok x : g_attempt rs g i k ok = Some x -> g_is_idle g = false.
  Proof. unfold g_attempt. destruct (g_act g i) eqn:E; [|discriminate]. intros _. eapply g_act_running; eauto. Qed.
  Lemma g_final_running g i st k ok x : g_final g i st k ok = Some x -> g_is_idle g = false.
  Proof. unfold g_final. destruct (g_act g i) eqn:E; [|discriminate]. intros _. eapply g_act_running; eauto. Qed.

  (* ================= EvStart ================= *)
  Lemma h_start_Inv1 s m a s' :
    Inv1 sh s m -> h_start sh s a = Some s' -> Inv1 sh s' (mon_step m (EvStart a)).
  Proof.
    intros I H. unfold h_start in H. destruct (owes (s_late s) a); [discriminate|].
    unfold mon_step; simpl.
    assert (OW : late_ok sh (tput (m_t m) a (tally_start (tlook (m_t m) a))) (s_late s)).
    { apply owed_tput; [apply (i_late _ _ _ I)|reflexivity]. }
    destruct a as [[|b] g i|b q i].
    - (* a check action of the plan *)
      unfold p_chk_start in H.
      destruct (g_start (tget (s_g s) g) i (iget (s_img s) (OAct (AChk SPlan g i)))) as [x|] eqn:G; [|discriminate].
      injection H as <-.
      eapply (lift_pgroup sh s m _ g x _ I); [reflexivity..| | | | |]; simpl.
      + auto.
      + intros a' Ha. apply (tlook_tput_comp _ _ _ _ (CPG g)); auto.
      + eapply grp_start; eauto. apply (i_groups _ _ _ I).
      + right. eapply not_idle_window; eauto. eapply g_start_running; eauto.
      + exact OW.
    - (* a check action of the current block *)
      destruct (cur_block sh s b) as [bs|] eqn:HCB; [|discriminate].
      destruct (cur_block_spec _ _ _ HCB) as (Hp & -> & Hb).
      unfold b_chk_start in H.
      destruct (g_start (tget (b_g (s_b s)) g) i (iget (s_img s) (OAct (AChk (SBlock (s_cb s)) g i)))) as [x|] eqn:G;
        [|discriminate]. injection H as <-.
      destruct (cur_binv _ _ _ I Hp Hb) as [BI BW].
      eapply (lift_block sh s m _ bs _ I Hp Hb); [reflexivity..| | | | |]; simpl.
      + auto.
      + intros a' Ha. apply (tlook_tput_comp _ _ _ _ (CB (s_cb s))); auto.
      + eapply binv_set_group; eauto.
        * intros a' Ha. apply group_frame_tally; auto.
        * eapply grp_start; eauto. apply BI.
      + apply b_windows_set; auto. right. eapply not_idle_bwindow; eauto. eapply g_start_running; eauto.
      + exact OW.
    - (* an action of a sequence of the current block *)
      destruct (cur_block sh s b) as [bs|] eqn:HCB; [|discriminate].
      destruct (cur_block_spec _ _ _ HCB) as (Hp & -> & Hb).
      unfold b_act_start, b_seq_upd in H.
      destruct (nth_error (b_seqs (s_b s)) q) as [x|] eqn:Q; [|discriminate].
      destruct (s_start x i (iget (s_img s) (OAct (ASeq (s_cb s) q i)))) as [x'|] eqn:G; [|discriminate].
      injection H as <-.
      destruct (cur_binv _ _ _ I Hp Hb) as [BI BW].
      destruct (nth_error (bs_seqs bs) q) as [rs|] eqn:R.
      2:{ apply nth_error_None in R. destruct BI as (_ & Hl & _). apply nth_error_some_lt in Q. lia. }
      eapply (lift_block sh s m _ bs _ I Hp Hb); [reflexivity..| | | | |]; simpl.
      + auto.
      + intros a' Ha. apply (tlook_tput_comp _ _ _ _ (CB (s_cb s))); auto.
      + eapply binv_set_seq; eauto.
        * intros a' Ha. apply seq_frame_tally; auto.
        * eapply sq_start; eauto. apply BI; auto.
      + destruct BW as (W1 & W2 & W3 & W4 & W5 & W6). unfold b_windows. simpl. repeat split; auto.
        intros Hph q' y Hy. destruct (Nat.eq_dec q' q) as [->|Hn].
        * specialize (W6 Hph q x Q). destruct x; simpl in G; try discriminate; discriminate W6.
        * rewrite nth_upd_other in Hy by auto. eapply W6; eauto.
      + exact OW.
  Qed.

  (* ================= EvEnd ================= *)
  Lemma tally_end_owed_open t o : t_open t = true -> t_owed (tally_end t o) = t_owed t.
  Proof. intro H. unfold tally_end. rewrite H. reflexivity. Qed.

  Lemma noncur_quiet s m b bs :
    Inv1 sh s m -> nth_error (sh_blocks sh) b = Some bs -> cur_block sh s b = None ->
    exists b0, b_quiet b0 /\ binv bs b b0 (s_img s) (m_t m).
  Proof.
    intros I Hb Hc. pose proof (i_blocks _ _ _ I _ _ Hb) as H. unfold cur_block, block_of in Hc.
    destruct (s_ph s) eqn:Hp; simpl in Hc.
    1-3: destruct H as [H _]; exists (b_init bs); split; [apply b_init_quiet|exact H].
    - destruct (b <? s_cb s).
      + destruct H as [(b0 & Q & H) _]. eauto.
      + destruct (Nat.eqb b (s_cb s)); [congruence|].
        destruct H as [H _]. exists (b_init bs). split; [apply b_init_quiet|exact H].
    - destruct H as [(b0 & Q & H) _]. eauto.
    - destruct H as [(b0 & Q & H) _]. eauto.
    - destruct H as [(b0 & Q & H) _]. eauto.
    - destruct H as [(b0 & Q & H) _]. eauto.
  Qed.

  Lemma g_end_idle g i o : g_is_idle g = true -> g_end g i o = None.
  Proof. destruct g; [reflexivity|discriminate]. Qed.
  Lemma s_end_quiet x i o : s_quiet x = true -> s_end x i o = None.
  Proof. destruct x; simpl; try reflexivity; discriminate. Qed.

  Lemma end_sub_none s m a o :
    Inv1 sh s m -> h_end_sub sh s a o = None -> obj_in_shape sh (OAct a) = true ->
    t_open (tlook (m_t m) a) = false.
  Proof.
    intros I H Hs. destruct a as [[|b] g i|b q i]; simpl in H.
    - (* plan *)
      unfold p_chk_end in H. destruct (g_end (tget (s_g s) g) i o) eqn:G; [discriminate|].
      simpl in Hs. unfold group_of in Hs. simpl in Hs.
      destruct (grp_get (sh_groups sh) g) as [rs|] eqn:R; [|discriminate].
      destruct (nth_error rs i) eqn:N; [|discriminate].
      pose proof (i_groups _ _ _ I g) as GI. rewrite R in GI.
      eapply grp_not_flying; eauto. eapply nth_error_some_lt; eauto.
    - (* a check action of block b *)
      simpl in Hs. unfold group_of, scope_groups, block_of in Hs.
      destruct (nth_error (sh_blocks sh) b) as [bs|] eqn:Hb; [|discriminate]. simpl in Hs.
      destruct (grp_get (bs_groups bs) g) as [rs|] eqn:R; [|discriminate].
      destruct (nth_error rs i) eqn:N; [|discriminate]. apply nth_error_some_lt in N.
      destruct (cur_block sh s b) as [bs'|] eqn:HCB.
      + destruct (cur_block_spec _ _ _ HCB) as (Hp & -> & Hb'). rewrite Hb in Hb'. injection Hb' as <-.
        unfold b_chk_end in H. destruct (g_end (tget (b_g (s_b s)) g) i o) eqn:G; [discriminate|].
        destruct (cur_binv _ _ _ I Hp Hb) as [(BG & _) _]. specialize (BG g). rewrite R in BG.
        apply (grp_not_flying (SBlock (s_cb s)) g rs _ (s_img s) (m_t m) i o BG G N).
      + destruct (noncur_quiet _ _ _ _ I Hb HCB) as (b0 & [Q _] & (BG & _)). specialize (BG g). rewrite R in BG.
        apply (grp_not_flying (SBlock b) g rs _ (s_img s) (m_t m) i o BG); [apply g_end_idle; apply Q|exact N].
    - (* an action of a sequence of block b *)
      simpl in Hs. unfold seq_of, block_of in Hs.
      destruct (nth_error (sh_blocks sh) b) as [bs|] eqn:Hb; [|discriminate].
      destruct (nth_error (bs_seqs bs) q) as [rs|] eqn:R; [|discriminate].
      destruct (nth_error rs i) eqn:N; [|discriminate]. apply nth_error_some_lt in N.
      destruct (cur_block sh s b) as [bs'|] eqn:HCB.
      + destruct (cur_block_spec _ _ _ HCB) as (Hp & -> & Hb'). rewrite Hb in Hb'. injection Hb' as <-.
        destruct (cur_binv _ _ _ I Hp Hb) as [(_ & BL & BQ) _].
        unfold b_act_end, b_seq_upd in H.
        destruct (nth_error (b_seqs (s_b s)) q) as [x|] eqn:Q.
        * destruct (s_end x i o) eqn:G; [discriminate|].
          apply (sq_not_flying (s_cb s) q rs x (s_img s) (m_t m) i o); [eapply BQ; eauto|exact G|exact N].
        * apply nth_error_None in Q. apply nth_error_some_lt in R. lia.
      + destruct (noncur_quiet _ _ _ _ I Hb HCB) as (b0 & [_ Q] & (_ & BL & BQ)).
        destruct (nth_error (b_seqs b0) q) as [x|] eqn:Qx.
        * apply (sq_not_flying b q rs x (s_img s) (m_t m) i o);
            [eapply BQ; eauto|apply s_end_quiet; eapply Q; eauto|exact N].
        * apply nth_error_None in Qx. apply nth_error_some_lt in R. lia.
  Qed.

  Lemma h_end_Inv1 s m a o s' :
    Inv1 sh s m -> h_end sh s a o = Some s' -> Inv1 sh s' (mon_step m (EvEnd a o)).
  Proof.
    intros I H. unfold h_end in H. unfold mon_step; simpl.
    destruct (h_end_sub sh s a o) as [s1|] eqn:SUB.
    - injection H as <-.
      destruct a as [[|b] g i|b q i]; simpl in SUB.
      + (* plan *)
        unfold p_chk_end in SUB.
        destruct (g_end (tget (s_g s) g) i o) as [x|] eqn:G; [|discriminate]. injection SUB as <-.
        destruct (grp_end SPlan g _ _ _ _ i o x (i_groups _ _ _ I g) G) as [GI Ho].
        eapply (lift_pgroup sh s m _ g x _ I); [reflexivity..| | | | |]; simpl.
        * auto.
        * intros a' Ha. apply (tlook_tput_comp _ _ _ _ (CPG g)); auto.
        * exact GI.
        * right. eapply not_idle_window; eauto. eapply g_end_running; eauto.
        * apply owed_tput; [apply (i_late _ _ _ I)|]. now apply tally_end_owed_open.
      + (* block check *)
        destruct (cur_block sh s b) as [bs|] eqn:HCB; [|discriminate].
        destruct (cur_block_spec _ _ _ HCB) as (Hp & -> & Hb).
        unfold b_chk_end in SUB.
        destruct (g_end (tget (b_g (s_b s)) g) i o) as [x|] eqn:G; [|discriminate]. injection SUB as <-.
        destruct (cur_binv _ _ _ I Hp Hb) as [BI BW].
        destruct (grp_end (SBlock (s_cb s)) g _ _ _ _ i o x (proj1 BI g) G) as [GI Ho].
        eapply (lift_block sh s m _ bs _ I Hp Hb); [reflexivity..| | | | |]; simpl.
        * auto.
        * intros a' Ha. apply (tlook_tput_comp _ _ _ _ (CB (s_cb s))); auto.
        * eapply binv_set_group; eauto. intros a' Ha. apply group_frame_tally; auto.
        * apply b_windows_set; auto. right. eapply not_idle_bwindow; eauto. eapply g_end_running; eauto.
        * apply owed_tput; [apply (i_late _ _ _ I)|]. now apply tally_end_owed_open.
      + (* sequence action *)
        destruct (cur_block sh s b) as [bs|] eqn:HCB; [|discriminate].
        destruct (cur_block_spec _ _ _ HCB) as (Hp & -> & Hb).
        unfold b_act_end, b_seq_upd in SUB.
        destruct (nth_error (b_seqs (s_b s)) q) as [x|] eqn:Q; [|discriminate].
        destruct (s_end x i o) as [x'|] eqn:G; [|discriminate]. injection SUB as <-.
        destruct (cur_binv _ _ _ I Hp Hb) as [BI BW].
        destruct (nth_error (bs_seqs bs) q) as [rs|] eqn:R.
        2:{ apply nth_error_None in R. destruct BI as (_ & Hl & _). apply nth_error_some_lt in Q. lia. }
        destruct (sq_end (s_cb s) q rs x _ _ i o x' (proj2 (proj2 BI) q rs x R Q) G) as [QI Ho].
        eapply (lift_block sh s m _ bs _ I Hp Hb); [reflexivity..| | | | |]; simpl.
        * auto.
        * intros a' Ha. apply (tlook_tput_comp _ _ _ _ (CB (s_cb s))); auto.
        * eapply binv_set_seq; eauto. intros a' Ha. apply seq_frame_tally; auto.
        * destruct BW as (W1 & W2 & W3 & W4 & W5 & W6). unfold b_windows. simpl. repeat split; auto.
          intros Hph q' y Hy. destruct (Nat.eq_dec q' q) as [->|Hn].
          -- specialize (W6 Hph q x Q). rewrite (s_end_quiet x i o W6) in G. discriminate.
          -- rewrite nth_upd_other in Hy by auto. eapply W6; eauto.
        * apply owed_tput; [apply (i_late _ _ _ I)|]. now apply tally_end_owed_open.
    - (* the End of an invocation the engine had given up waiting for *)
      destruct o; try discriminate.
      destruct (remove_one a (s_late s)) as [l'|] eqn:RM; [|discriminate]. injection H as <-.
      pose proof (remove_one_count _ _ _ RM) as CNT.
      assert (Hs : obj_in_shape sh (OAct a) = true).
      { apply (i_late _ _ _ I a). rewrite (CNT a), aref_eqb_refl. lia. }
      pose proof (end_sub_none _ _ _ _ I SUB Hs) as Ho.
      eapply (lift_teq sh s m _ _ I); [reflexivity..| |]; simpl.
      + intro a'. destruct (aref_eqb a a') eqn:E.
        * apply aref_eqb_eq in E. subst a'. rewrite tlook_tput_same. now apply late_end_teq.
        * rewrite tlook_tput_other; [apply teq_refl|]. intro X. subst. now rewrite aref_eqb_refl in E.
      + intro a'. destruct (i_late _ _ _ I a') as [L1 L2]. rewrite (CNT a') in L1, L2.
        destruct (aref_eqb a a') eqn:E.
        * apply aref_eqb_eq in E. subst a'. rewrite tlook_tput_same. unfold tally_end. rewrite Ho. simpl.
          rewrite L1. split; [reflexivity|]. intro P. apply L2. lia.
        * rewrite tlook_tput_other; [|intro X; subst; now rewrite aref_eqb_refl in E].
          split; [exact L1|]. intro P. apply L2. lia.
  Qed.
End Handle.
