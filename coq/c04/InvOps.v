(* The local lemmas of InvLocal.v restated on the global views (image, tally map): one lemma per operation
   of a check group (at any scope) and of a sequence, and how a block's invariant follows when one of its
   groups / sequences steps. *)
From Coq Require Import Lia.
From Coercion.Base Require Import Plan.
From Coercion.Engine Require Import Shape Event Action ChecksRun Seq Block Final PlanSM Auto Accept AutoLemmas.
From Coercion.C04 Require Import MonC04 Views InvDefs InvLocal InvGlobal InvLift.

Lemma owed_tput sh m l a0 t' :
  late_ok sh m l -> t_owed t' = t_owed (tlook m a0) -> late_ok sh (tput m a0 t') l.
Proof.
  intros H E a. split; [|apply H]. destruct (aref_eqb a0 a) eqn:Q.
  - apply aref_eqb_eq in Q. subst a. rewrite tlook_tput_same, E. apply H.
  - rewrite tlook_tput_other; [apply H|]. intro X. subst. now rewrite aref_eqb_refl in Q.
Qed.

Lemma owed_tput_cons sh m l a0 t' :
  late_ok sh m l -> t_owed t' = S (t_owed (tlook m a0)) -> obj_in_shape sh (OAct a0) = true ->
  late_ok sh (tput m a0 t') (a0 :: l).
Proof.
  intros H E Hs a. destruct (aref_eqb a0 a) eqn:Q.
  - pose proof Q as Q'. apply aref_eqb_eq in Q. subst a. rewrite tlook_tput_same, E, (proj1 (H a0)).
    cbn [lcount]. rewrite Q'. split; [reflexivity|auto].
  - rewrite tlook_tput_other.
    + cbn [lcount]. rewrite Q. apply H.
    + intro X. subst. now rewrite aref_eqb_refl in Q.
Qed.

Lemma owed_teq_all sh m m' l :
  late_ok sh m l -> (forall a, t_owed (tlook m' a) = t_owed (tlook m a)) -> late_ok sh m' l.
Proof. intros H E a. rewrite E. apply H. Qed.

(* ================= a check group at scope sc ================= *)
Section GroupOps.
  Variables (sc : scope) (gr : grp).
  Notation act i := (AChk sc gr i).

  Lemma ist_iset_act img i c : ist (iset img (OAct (act i)) c) (OChecks sc gr) = ist img (OChecks sc gr).
  Proof. apply ist_iset_other. discriminate. Qed.

  Lemma grp_start ors g img m i x :
    grp_inv ors g img m sc gr -> g_start g i (iget img (OAct (act i))) = Some x ->
    grp_inv ors x img (tput m (act i) (tally_start (tlook m (act i)))) sc gr.
  Proof.
    unfold grp_inv, ginv_opt. destruct ors as [rs|].
    - intros I H. eapply ginv_start; eauto. apply gtf_tput.
    - intros [-> _] H. discriminate H.
  Qed.

  Lemma grp_end ors g img m i o x :
    grp_inv ors g img m sc gr -> g_end g i o = Some x ->
    grp_inv ors x img (tput m (act i) (tally_end (tlook m (act i)) o)) sc gr /\ t_open (tlook m (act i)) = true.
  Proof.
    unfold grp_inv, ginv_opt. destruct ors as [rs|].
    - intros I H.
      apply (ginv_end rs g i o x _ (gcf img sc gr) (gtf m sc gr) _ H I). apply gtf_tput.
    - intros [-> _] H. discriminate H.
  Qed.

  Lemma grp_not_flying rs g img m i o :
    grp_inv (Some rs) g img m sc gr -> g_end g i o = None -> i < length rs -> t_open (tlook m (act i)) = false.
  Proof. unfold grp_inv, ginv_opt. intros I H Hi. exact (ginv_not_flying rs g i o _ _ _ H I Hi). Qed.

  Lemma grp_mark rs g img m i x may :
    grp_inv (Some rs) g img m sc gr -> g_mark rs may (ist img (OChecks sc gr)) g i = Some x ->
    (may = true -> g_dead g = false \/ g_runs g = 0) -> i < length rs ->
    grp_inv (Some rs) x (iset img (OAct (act i)) (mkc Running 0 false))
            (tput m (act i) (tally_write (tlook m (act i)) Running 0 false)) sc gr.
  Proof.
    unfold grp_inv, ginv_opt. intros I H Hm Hi. rewrite ist_iset_act.
    eapply ginv_mark; eauto; [apply gcf_iset|apply gtf_tput].
  Qed.

  Lemma grp_attempt rs g img m i k ok x owed :
    grp_inv (Some rs) g img m sc gr -> g_attempt rs g i k ok = Some (x, owed) ->
    grp_inv (Some rs) x (iset img (OAct (act i)) (mkc Running k ok))
            (tput m (act i) (tally_write (tlook m (act i)) Running k ok)) sc gr
    /\ t_owed (tally_write (tlook m (act i)) Running k ok)
       = (if owed then S (t_owed (tlook m (act i))) else t_owed (tlook m (act i))).
  Proof.
    unfold grp_inv, ginv_opt. intros I H. rewrite ist_iset_act.
    apply (ginv_attempt rs g i k ok x owed _ (gcf img sc gr) (gtf m sc gr) _ _ H I); [apply gcf_iset|apply gtf_tput].
  Qed.

  Lemma grp_final ors g img m i st k ok x :
    grp_inv ors g img m sc gr -> g_final g i st k ok = Some x ->
    grp_inv ors x (iset img (OAct (act i)) (mkc st k ok))
            (tput m (act i) (tally_write (tlook m (act i)) st k ok)) sc gr
    /\ t_owed (tally_write (tlook m (act i)) st k ok) = t_owed (tlook m (act i)).
  Proof.
    unfold grp_inv, ginv_opt. destruct ors as [rs|].
    - intros I H. rewrite ist_iset_act.
      apply (ginv_final rs g i st k ok x _ (gcf img sc gr) (gtf m sc gr) _ _ H I); [apply gcf_iset|apply gtf_tput].
    - intros [-> _] H. discriminate H.
  Qed.

  Lemma grp_verdict ors g img m st x :
    grp_inv ors g img m sc gr -> g_verdict g st = Some x ->
    grp_inv ors x (iset img (OChecks sc gr) (mkc st 0 false)) m sc gr /\ g_is_idle x = true.
  Proof.
    unfold grp_inv, ginv_opt. destruct ors as [rs|].
    - intros I H. rewrite ist_iset_same. simpl.
      destruct (ginv_verdict rs g st _ _ _ x H I) as [I' Q]. split; [|exact Q].
      eapply ginv_ext; [| |exact I'].
      + intros j _. unfold gcf. apply iget_iset_other. discriminate.
      + intros j _. apply teq_refl.
    - intros [-> _] H. discriminate H.
  Qed.

  Lemma grp_settle ors g img m x :
    grp_inv ors g img m sc gr -> g_settle g (ist img (OChecks sc gr)) = Some x ->
    grp_inv ors x img m sc gr /\ g_is_idle x = true.
  Proof.
    unfold grp_inv, ginv_opt. destruct ors as [rs|].
    - intros I H. eapply ginv_settle; eauto.
    - intros [-> E] H. simpl in H. injection H as <-. auto.
  Qed.

  (* a write that repeats the durable value of action i *)
  Lemma grp_stutter rs g img m i c :
    grp_inv (Some rs) g img m sc gr -> i < length rs -> c = iget img (OAct (act i)) ->
    teq (tlook m (act i)) (tally_write (tlook m (act i)) (c_st c) (c_n c) (c_ok c))
    /\ t_owed (tally_write (tlook m (act i)) (c_st c) (c_n c) (c_ok c)) = t_owed (tlook m (act i)).
  Proof.
    unfold grp_inv, ginv_opt. intros I Hi ->.
    destruct (ginv_arel rs g _ _ _ i I Hi) as [x R]. unfold gcf, gtf in R.
    split; [exact (arel_stutter_teq x _ _ R)|exact (proj2 (arel_stutter x _ _ R))].
  Qed.
End GroupOps.

(* ================= a sequence of block b ================= *)
Definition seq_inv (rs : list nat) (x : sst) (img : dimg) (m : tmap) (b q : nat) : Prop :=
  qinv rs x (ist img (OSeq b q)) (qcf img b q) (qtf m b q).

Section SeqOps.
  Variables (b q : nat) (rs : list nat).
  Notation act i := (ASeq b q i).

  Lemma ist_iset_sact img i c : ist (iset img (OAct (act i)) c) (OSeq b q) = ist img (OSeq b q).
  Proof. apply ist_iset_other. discriminate. Qed.

  Lemma sq_launch x img m x' :
    seq_inv rs x img m b q -> s_launch x = Some x' ->
    seq_inv rs x' (iset img (OSeq b q) (mkc Running 0 false)) m b q.
  Proof.
    unfold seq_inv. intros I H. rewrite ist_iset_same. simpl.
    eapply qinv_ext; [| |eapply qinv_launch; eauto].
    - intros j _. unfold qcf. apply iget_iset_other. discriminate.
    - intros j _. apply teq_refl.
  Qed.

  Lemma sq_terminal x img m st x' :
    seq_inv rs x img m b q -> s_terminal x st = Some x' ->
    seq_inv rs x' (iset img (OSeq b q) (mkc st 0 false)) m b q /\ s_quiet x' = true.
  Proof.
    unfold seq_inv. intros I H. rewrite ist_iset_same. simpl.
    destruct (qinv_terminal rs x st x' _ _ _ H I) as [I' Q]. split; [|exact Q].
    eapply qinv_ext; [| |exact I'].
    - intros j _. unfold qcf. apply iget_iset_other. discriminate.
    - intros j _. apply teq_refl.
  Qed.

  Lemma sq_mark x img m i x' :
    seq_inv rs x img m b q -> s_mark x i = Some x' -> i < length rs ->
    seq_inv rs x' (iset img (OAct (act i)) (mkc Running 0 false))
            (tput m (act i) (tally_write (tlook m (act i)) Running 0 false)) b q.
  Proof.
    unfold seq_inv. intros I H Hi. rewrite ist_iset_sact.
    eapply qinv_mark; eauto; [apply qcf_iset|apply qtf_tput].
  Qed.

  Lemma sq_start x img m i x' :
    seq_inv rs x img m b q -> s_start x i (iget img (OAct (act i))) = Some x' ->
    seq_inv rs x' img (tput m (act i) (tally_start (tlook m (act i)))) b q.
  Proof. unfold seq_inv. intros I H. eapply qinv_start; eauto. apply qtf_tput. Qed.

  Lemma sq_end x img m i o x' :
    seq_inv rs x img m b q -> s_end x i o = Some x' ->
    seq_inv rs x' img (tput m (act i) (tally_end (tlook m (act i)) o)) b q /\ t_open (tlook m (act i)) = true.
  Proof.
    unfold seq_inv. intros I H.
    apply (qinv_end rs x i o x' _ (qcf img b q) (qtf m b q) _ H I). apply qtf_tput.
  Qed.

  Lemma sq_not_flying x img m i o :
    seq_inv rs x img m b q -> s_end x i o = None -> i < length rs -> t_open (tlook m (act i)) = false.
  Proof. unfold seq_inv. intros I H Hi. exact (qinv_not_flying rs x i o _ _ _ H I Hi). Qed.

  Lemma sq_attempt x img m i k ok x' owed :
    seq_inv rs x img m b q -> s_attempt rs x i k ok = Some (x', owed) ->
    seq_inv rs x' (iset img (OAct (act i)) (mkc Running k ok))
            (tput m (act i) (tally_write (tlook m (act i)) Running k ok)) b q
    /\ t_owed (tally_write (tlook m (act i)) Running k ok)
       = (if owed then S (t_owed (tlook m (act i))) else t_owed (tlook m (act i))).
  Proof.
    unfold seq_inv. intros I H. rewrite ist_iset_sact.
    apply (qinv_attempt rs x i k ok x' owed _ (qcf img b q) (qtf m b q) _ _ H I); [apply qcf_iset|apply qtf_tput].
  Qed.

  Lemma sq_final x img m i st k ok x' :
    seq_inv rs x img m b q -> s_final rs x i st k ok = Some x' ->
    seq_inv rs x' (iset img (OAct (act i)) (mkc st k ok))
            (tput m (act i) (tally_write (tlook m (act i)) st k ok)) b q
    /\ t_owed (tally_write (tlook m (act i)) st k ok) = t_owed (tlook m (act i)).
  Proof.
    unfold seq_inv. intros I H. rewrite ist_iset_sact.
    apply (qinv_final rs x i st k ok x' _ (qcf img b q) (qtf m b q) _ _ H I); [apply qcf_iset|apply qtf_tput].
  Qed.

  Lemma sq_stutter x img m i c :
    seq_inv rs x img m b q -> i < length rs -> c = iget img (OAct (act i)) ->
    teq (tlook m (act i)) (tally_write (tlook m (act i)) (c_st c) (c_n c) (c_ok c))
    /\ t_owed (tally_write (tlook m (act i)) (c_st c) (c_n c) (c_ok c)) = t_owed (tlook m (act i)).
  Proof.
    unfold seq_inv. intros I Hi ->.
    destruct (qinv_arel rs x _ _ _ i I Hi) as [y R]. unfold qcf, qtf in R.
    split; [exact (arel_stutter_teq y _ _ R)|exact (proj2 (arel_stutter y _ _ R))].
  Qed.
End SeqOps.

(* ================= a block when one of its groups / sequences steps ================= *)
Section BlockOps.
  Variables (bs : bshape) (bi : nat).

  Lemma binv_set_group b img m img' m' g x :
    binv bs bi b img m ->
    (forall o, ~ in_group (SBlock bi) g o -> iget img' o = iget img o) ->
    (forall a, (forall i, a <> AChk (SBlock bi) g i) -> teq (tlook m a) (tlook m' a)) ->
    grp_inv (grp_get (bs_groups bs) g) x img' m' (SBlock bi) g ->
    binv bs bi (b_with_g b (tset (b_g b) g x)) img' m'.
  Proof.
    intros (Hg & Hl & Hq) Hi Ht Hx. split; [|split; [exact Hl|]]; simpl.
    - intro g'. destruct (grp_dec g g') as [<-|Hn].
      + rewrite tget_tset_same. exact Hx.
      + rewrite tget_tset_other by auto. eapply grp_inv_frame; [| |apply Hg].
        * intros o Ho. apply Hi. intros [->|[i ->]]; destruct Ho as [E|[j E]]; try discriminate E;
            injection E as E; auto.
        * intro i. apply Ht. intros j E. injection E as E. auto.
    - intros q rs y Er Ey. specialize (Hq q rs y Er Ey).
      assert (E : ist img' (OSeq bi q) = ist img (OSeq bi q)).
      { unfold ist. rewrite Hi; [reflexivity|]. intros [E|[j E]]; discriminate E. }
      rewrite E. eapply qinv_ext; [| |exact Hq].
      + intros j _. unfold qcf. apply Hi. intros [E'|[k E']]; discriminate E'.
      + intros j _. unfold qtf. apply Ht. intros k E'. discriminate E'.
  Qed.

  (* the objects of sequence q of this block *)
  Definition in_seq (q : nat) (o : obj) : Prop := o = OSeq bi q \/ exists i, o = OAct (ASeq bi q i).

  Lemma binv_set_seq b img m img' m' q rs x :
    binv bs bi b img m -> nth_error (bs_seqs bs) q = Some rs ->
    (forall o, ~ in_seq q o -> iget img' o = iget img o) ->
    (forall a, (forall i, a <> ASeq bi q i) -> teq (tlook m a) (tlook m' a)) ->
    seq_inv rs x img' m' bi q ->
    binv bs bi (b_with_seqs b (upd (b_seqs b) q x)) img' m'.
  Proof.
    intros (Hg & Hl & Hq) Er Hi Ht Hx. split; [|split]; simpl.
    - intro g. eapply grp_inv_frame; [| |apply Hg].
      + intros o Ho. apply Hi. intros [->|[i ->]]; destruct Ho as [E|[j E]]; discriminate E.
      + intro i. apply Ht. intros j E. discriminate E.
    - now rewrite upd_length.
    - intros q' rs' y Er' Ey. destruct (Nat.eq_dec q' q) as [->|Hn].
      + rewrite Er in Er'. injection Er' as <-.
        rewrite nth_upd_same in Ey.
        * injection Ey as <-. exact Hx.
        * rewrite Hl. eapply nth_error_some_lt; eauto.
      + rewrite nth_upd_other in Ey by auto. specialize (Hq q' rs' y Er' Ey).
        assert (E : ist img' (OSeq bi q') = ist img (OSeq bi q')).
        { unfold ist. rewrite Hi; [reflexivity|]. intros [E|[j E]]; [injection E as E; auto|discriminate E]. }
        rewrite E. eapply qinv_ext; [| |exact Hq].
        * intros j _. unfold qcf. apply Hi. intros [E'|[k E']]; [discriminate E'|injection E' as E'; auto].
        * intros j _. unfold qtf. apply Ht. intros k E'. injection E' as E'. auto.
  Qed.

  (* the block's own status cell is no part of binv *)
  Lemma binv_set_status b img m c : binv bs bi b img m -> binv bs bi b (iset img (OBlock bi) c) m.
  Proof.
    intros (Hg & Hl & Hq). split; [|split; [exact Hl|]].
    - intro g. eapply grp_inv_frame; [| |apply Hg].
      + intros o [->|[i ->]]; apply iget_iset_other; discriminate.
      + intro i. apply teq_refl.
    - intros q rs y Er Ey. specialize (Hq q rs y Er Ey).
      assert (E : ist (iset img (OBlock bi) c) (OSeq bi q) = ist img (OSeq bi q)) by (apply ist_iset_other; discriminate).
      rewrite E. eapply qinv_ext; [| |exact Hq].
      + intros j _. unfold qcf. apply iget_iset_other. discriminate.
      + intros j _. apply teq_refl.
  Qed.
End BlockOps.
