(* C04 - "Wait returns a terminal, quiescent, consistent and truthful final plan".

   The property is the monitor MonC04.mon_final (read MonC04.v: it is the statement).  mon_final =
   mon_final_core && mon_times; the theorems below are about mon_final_core (every clause except the
   start/end TIME flags: the automaton of coq/engine carries no clock - its events have no time stamps -
   so start<=end is evaluated on the real engine only, by mon_times on every trace).

   For EVERY shape and EVERY trace the observable automaton accepts from the initial state (all plans,
   all plugin outcomes, all interleavings the engine's concurrency structure admits, no bound):      *)
From Coercion.Base Require Import Plan.
From Coercion.Engine Require Import Shape Event PlanSM Auto Accept.
From Coercion.C04 Require Import MonC04 C04Proofs.

(* a trace accepted up to and including the return of Wait satisfies every clause evaluated at the release:
   plan Completed|Failed, nothing Running, no plugin executing (overrun-cancelled invocations apart), the
   consistency clauses of plan / sequences / actions, every action's status, attempt count and last verdict
   equal to what the trace shows ran, the reason = the first stage the trace shows failing and FRUnknown
   exactly when Completed, and the engine's last plan write = what Wait returned *)
Theorem c04_final_consistent :
  forall (sh : shape) (tr : list event) (fin : image) (s : st),
    run sh init (tr ++ [EvRelease fin]) = Some s ->
    mon_final_core (sh, tr ++ [EvRelease fin]) = true.
Proof. exact c04_final_consistent. Qed.
Print Assumptions c04_final_consistent.

(* ... and whatever the automaton accepts AFTER the release keeps the monitor true: nothing but re-reads
   that equal the released plan and the owed Ends of overrun-cancelled invocations ("never changes
   afterwards", "no plugin is still executing") *)
Theorem c04_final_released :
  forall (sh : shape) (tr : list event) (s : st),
    run sh init tr = Some s -> released s = true -> mon_final_core (sh, tr) = true.
Proof. exact c04_final_released. Qed.
Print Assumptions c04_final_released.
