(* C04 - "Wait returns a terminal, quiescent, consistent and truthful final plan".

   The property is the monitor MonC04.mon_final (read MonC04.v: it is the statement).  mon_final =
   mon_final_core && mon_times; the theorems below are about mon_final_core (every clause except the
   start/end TIME flags: the automaton of coq/engine carries no clock - its events have no time stamps -
   so start<=end is evaluated on the real engine only, by mon_times on every trace).

   For EVERY shape and EVERY trace the observable automaton accepts from the initial state (all plans,
   all plugin outcomes, all interleavings the engine's concurrency structure admits, no bound):      *)
From Coercion.Base Require Import Plan.
From Coercion.Engine Require Import Shape Event Final PlanSM Auto Accept AutoLemmas.
From Coercion.C04 Require Import MonC04 InvDefs C04Proofs.

(* a trace accepted up to and including the return of Wait satisfies every clause evaluated at the release:
   plan Completed|Failed, nothing Running, no plugin executing (overrun-cancelled invocations apart), the
   consistency clauses of plan / sequences / actions, every action's status, attempt count and last verdict
   equal to what the trace shows ran, the reason = the first stage the trace shows failing and FRUnknown
   exactly when Completed, and the engine's last plan write = what Wait returned *)
Theorem c04_final_consistent :
  forall (sh : shape) (tr : list event) (fin : image) (s : st),
    run sh init (tr ++ [EvRelease fin]) = Some s ->
    mon_final_core (sh, tr ++ [EvRelease fin]) = true.
Proof. exact c04_final_consistent. Qed.
Print Assumptions c04_final_consistent.

(* ... and whatever the automaton accepts AFTER the release keeps the monitor true: nothing but re-reads
   that equal the released plan and the owed Ends of overrun-cancelled invocations ("never changes
   afterwards", "no plugin is still executing") *)
Theorem c04_final_released :
  forall (sh : shape) (tr : list event) (s : st),
    run sh init tr = Some s -> released s = true -> mon_final_core (sh, tr) = true.
Proof. exact c04_final_released. Qed.
Print Assumptions c04_final_released.

(* ---- the two ingredients (DESIGN.md section 6, C04) ---- *)
(* image_invariant: the durable image of EVERY reachable state satisfies the generalisation of `consistent` in
   which objects in progress may be Running.  (InvDefs.settled c: NotStarted with 0 attempts and no verdict, or
   Completed with attempts and last one ok, or Failed with attempts and last one not ok.) *)
Theorem image_invariant :
  forall (sh : shape) (tr : list event) (s : st),
    run sh init tr = Some s ->
    (forall a, obj_in_shape sh (OAct a) = true ->
       c_st (iget (s_img s) (OAct a)) <> Running -> settled (iget (s_img s) (OAct a)))
    /\ (forall b q rs, seq_of sh b q = Some rs ->
          (ist (s_img s) (OSeq b q) = Completed ->
             forall i, i < length rs -> c_st (iget (s_img s) (OAct (ASeq b q i))) = Completed)
          /\ (ist (s_img s) (OSeq b q) = Failed ->
               exists j, j < length rs
                 /\ (forall i, i < j -> c_st (iget (s_img s) (OAct (ASeq b q i))) = Completed)
                 /\ c_st (iget (s_img s) (OAct (ASeq b q j))) = Failed
                 /\ (forall i, j < i -> i < length rs -> iget (s_img s) (OAct (ASeq b q i)) = cell0)))
    /\ ist (s_img s) OPlan <> Stopped.
Proof. exact image_invariant. Qed.
Print Assumptions image_invariant.

(* final_sound: on every image reachable at PEnd (s0 = the run's end state after phase moves), Final.final - the
   transcription of finalStates, tied to the code by direct function equality on every run, and the only
   terminal plan write the automaton admits - returns the durable status and reason, and that reason is the
   first stage (pre, continuous, block, post, deferred) whose failure the TRACE shows (MonC04.shown_reason over
   the monitor's tallies of tr), FRUnknown exactly when the status is Completed. *)
Theorem final_sound :
  forall (sh : shape) (tr : list event) (s s0 : st) (fin : image),
    run sh init tr = Some s -> eps_star sh s s0 -> s_ph s0 = PEnd ->
    is_terminal (ist (s_img s0) OPlan) = true ->
    image_agrees (all_objs sh) (s_img s0) (s_reason s0) fin = true ->
    (ist (s_img s0) OPlan, s_reason s0) = final sh (ist (s_img s0))
    /\ snd (final sh (ist (s_img s0))) = shown_reason sh (m_t (mon_after tr)) fin
    /\ (fst (final sh (ist (s_img s0))) = Completed <-> snd (final sh (ist (s_img s0))) = FRUnknown).
Proof. exact final_sound. Qed.
Print Assumptions final_sound.
