(* C04 - property theorems (being built; see MonC04.v for the monitor). *)
From Coercion.Base Require Import Plan.
From Coercion.Engine Require Import Shape Event Accept.
From Coercion.C04 Require Import MonC04.

Theorem c04_tmp_partial : forall sh, scan sh mstate0 [] = [1].
Proof. reflexivity. Qed.
Print Assumptions c04_tmp_partial.
