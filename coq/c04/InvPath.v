(* The path invariant Inv2: which plan-level verdicts exist in which phase of the plan, so that at PEnd the
   durable statuses tell which stage failed; and what the plan's own last write is (Running until the terminal
   write, then Final.final of the image). *)
From Coq Require Import Lia.
From Coercion.Base Require Import Plan.
From Coercion.Engine Require Import Shape Event Action ChecksRun Seq Block Final PlanSM Auto Accept AutoLemmas.
From Coercion.C04 Require Import MonC04 Views InvDefs InvLocal InvGlobal InvLift InvOps InvHandle InvWrite InvStep InvEps InvFoot.

Local Arguments iget : simpl never.
Local Arguments iset : simpl never.
Local Arguments ist : simpl never.
Local Arguments tlook : simpl never.
Local Arguments tput : simpl never.

Lemma final_ext sh f f' :
  (forall g, f (OChecks SPlan g) = f' (OChecks SPlan g)) -> (forall b, f (OBlock b) = f' (OBlock b)) ->
  final sh f = final sh f'.
Proof.
  intros Hg Hb.
  assert (E1 : examine_bypass sh f = examine_bypass sh f') by (unfold examine_bypass; now rewrite Hg).
  assert (E2 : forall l, examine sh f l = examine sh f' l).
  { induction l as [|g l IH]; simpl; [reflexivity|]. now rewrite Hg, IH. }
  assert (E3 : any_block_failed sh f = any_block_failed sh f').
  { unfold any_block_failed. induction (block_indices sh) as [|b l IH]; simpl; [reflexivity|]. now rewrite Hb, IH. }
  assert (E4 : all_blocks_completed sh f = all_blocks_completed sh f').
  { unfold all_blocks_completed. induction (block_indices sh) as [|b l IH]; simpl; [reflexivity|]. now rewrite Hb, IH. }
  unfold final, final_blocks. now rewrite E1, !E2, E3, E4.
Qed.

Lemma once_done_stat ors g img m sc gr x v :
  grp_inv ors g img m sc gr -> once_done (present ors) g (ist img (OChecks sc gr)) = Some (x, v) ->
  (ors = None /\ v = true) \/ (ors <> None /\ ist img (OChecks sc gr) = vs v).
Proof.
  intros I H. unfold once_done in H. destruct ors as [rs|]; simpl in H.
  - right. split; [discriminate|].
    destruct (g_settle g (ist img (OChecks sc gr))) as [y|] eqn:S; [|discriminate].
    destruct (grp_settle sc gr (Some rs) g img m y I S) as [I' _].
    destruct y as [r l|]; [|discriminate]. destruct r; [discriminate|]. destruct l as [w|]; [|discriminate].
    injection H as <- <-. unfold grp_inv, ginv_opt in I'. simpl in I'. apply I'.
  - left. injection H as <- <-. auto.
Qed.

Section Path.
  Variable sh : shape.

  Definition gstat (s : st) (g : grp) : status := ist (s_img s) (OChecks SPlan g).
  Definition bstat (s : st) (b : nat) : status := ist (s_img s) (OBlock b).
  Definition gabsent (g : grp) : Prop := grp_get (sh_groups sh) g = None.
  Definition ran (s : st) (g : grp) : Prop := gabsent g \/ gstat s g = Completed \/ gstat s g = Failed.
  Definition passed (s : st) (g : grp) : Prop := gabsent g \/ gstat s g = Completed.
  Definition all_completed (s : st) : Prop :=
    forall b bs, nth_error (sh_blocks sh) b = Some bs -> bstat s b = Completed.
  Definition some_failed (s : st) : Prop :=
    exists b bs, nth_error (sh_blocks sh) b = Some bs /\ bstat s b = Failed.
  Definition cause (s : st) : Prop := gstat s GPre = Failed \/ gstat s GCont = Failed \/ some_failed s.
  Definition not_bypassed (s : st) : Prop := gabsent GBypass \/ gstat s GBypass = Failed.
  Definition tail (s : st) : Prop := (all_completed s /\ ran s GPost) \/ cause s.

  Definition Inv2at (p : pphase) (s : st) (m : mstate) : Prop :=
    match p with
    | PStart => True
    | PBypass => fst (m_pw m) = Running
    | PPre => fst (m_pw m) = Running /\ not_bypassed s
    | PBlocks => fst (m_pw m) = Running /\ not_bypassed s /\ passed s GPre /\ ran s GCont
    | PPost => fst (m_pw m) = Running /\ not_bypassed s /\ passed s GPre /\ ran s GCont /\ all_completed s
    | PDeferred => fst (m_pw m) = Running /\ not_bypassed s /\ ran s GPre /\ ran s GCont /\ tail s
    | PEnd | PReleased =>
        ((~ gabsent GBypass /\ gstat s GBypass = Completed)
         \/ (not_bypassed s /\ ran s GPre /\ ran s GCont /\ ran s GDeferred /\ tail s))
        /\ (fst (m_pw m) = Running \/ m_pw m = final sh (ist (s_img s)))
    end.
  Definition Inv2 (s : st) (m : mstate) : Prop := Inv2at (s_ph s) s m.

  Lemma Inv2at_img p s s1 m : s_img s1 = s_img s -> Inv2at p s m -> Inv2at p s1 m.
  Proof.
    intro E. unfold Inv2at, tail, cause, not_bypassed, passed, ran, all_completed, some_failed, gstat, bstat.
    rewrite E. tauto.
  Qed.

  (* nothing the invariant reads has changed *)
  Lemma Inv2_frame s m s' m' :
    s_ph s' = s_ph s -> (forall g, gstat s' g = gstat s g) -> (forall b, bstat s' b = bstat s b) ->
    m_pw m' = m_pw m -> Inv2 s m -> Inv2 s' m'.
  Proof.
    intros Ep Eg Eb Em. unfold Inv2, Inv2at. rewrite Ep, Em.
    assert (F : final sh (ist (s_img s')) = final sh (ist (s_img s))) by (apply final_ext; [apply Eg|apply Eb]).
    unfold tail, cause, not_bypassed, passed, ran, all_completed, some_failed, gabsent. rewrite F.
    assert (AC : (forall b bs, nth_error (sh_blocks sh) b = Some bs -> bstat s b = Completed) ->
                 forall b bs, nth_error (sh_blocks sh) b = Some bs -> bstat s' b = Completed).
    { intros H b bs Hb. rewrite Eb. eauto. }
    assert (SF : (exists b bs, nth_error (sh_blocks sh) b = Some bs /\ bstat s b = Failed) ->
                 exists b bs, nth_error (sh_blocks sh) b = Some bs /\ bstat s' b = Failed).
    { intros (b & bs & H1 & H2). exists b, bs. rewrite Eb. auto. }
    destruct (s_ph s); rewrite ?Eg; tauto.
  Qed.

  (* which plan-level verdicts the invariant reads in each phase *)
  Definition relevant (p : pphase) (g : grp) : bool :=
    match p, g with
    | (PStart | PBypass), _ => false
    | PPre, GBypass => true
    | PPre, _ => false
    | (PBlocks | PPost), (GBypass | GPre | GCont) => true
    | (PBlocks | PPost), _ => false
    | PDeferred, GDeferred => false
    | PDeferred, _ => true
    | (PEnd | PReleased), _ => true
    end.

  Lemma Inv2_frame_rel s m s' m' :
    s_ph s' = s_ph s -> (forall g, relevant (s_ph s) g = true -> gstat s' g = gstat s g) ->
    (forall b, bstat s' b = bstat s b) -> m_pw m' = m_pw m -> Inv2 s m -> Inv2 s' m'.
  Proof.
    intros Ep Eg Eb Em. destruct (s_ph s) eqn:Hp.
    7,8: (apply Inv2_frame; [congruence| |exact Eb|exact Em]; intro g; apply Eg; reflexivity).
    all: unfold Inv2, Inv2at; rewrite Ep, Hp, ?Em.
    all: assert (AC : all_completed s -> all_completed s') by (intros H b bs Hb; rewrite Eb; eauto).
    all: assert (SF : some_failed s -> some_failed s') by (intros (b & bs & H1 & H2); exists b, bs; rewrite Eb; auto).
    all: unfold tail, cause, not_bypassed, passed, ran, gabsent in *.
    all: try rewrite (Eg GBypass eq_refl); try rewrite (Eg GPre eq_refl); try rewrite (Eg GCont eq_refl);
         try rewrite (Eg GPost eq_refl); tauto.
  Qed.

  Lemma gstat_put_other s s' o c :
    s_img s' = iset (s_img s) o c -> forall g, o <> OChecks SPlan g -> gstat s' g = gstat s g.
  Proof. intros E g H. unfold gstat. rewrite E. apply ist_iset_other. exact H. Qed.
  Lemma bstat_put_other s s' o c :
    s_img s' = iset (s_img s) o c -> forall b, o <> OBlock b -> bstat s' b = bstat s b.
  Proof. intros E b H. unfold bstat. rewrite E. apply ist_iset_other. exact H. Qed.

  Lemma g_verdict_running g st x : g_verdict g st = Some x -> g_is_idle g = false.
  Proof. destruct g; simpl; [discriminate|reflexivity]. Qed.

  Lemma handle_Inv2 s m e s' :
    Inv1 sh s m -> Inv2 s m -> handle sh s e = Some s' -> Inv2 s' (mon_step m e).
  Proof.
    intros I1 I2 H. destruct e as [a|a o|o st n ok r|snap|fin]; simpl in H.
    - destruct (released s); [discriminate|]. destruct (h_start_frame _ _ _ _ H) as (E1 & E2 & _).
      eapply Inv2_frame; eauto; intros; unfold gstat, bstat; now rewrite E1.
    - destruct (h_end_frame _ _ _ _ _ H) as (E1 & E2 & _).
      eapply Inv2_frame; eauto; intros; unfold gstat, bstat; now rewrite E1.
    - destruct (released s); [discriminate|].
      destruct (h_write_foot _ _ _ _ _ _ _ _ H) as (Ei & Ep & Ec & Et & Ef & Er & K).
      inversion K as [a st0 r0|g st0 r0 x V ST|o0 b st0 r0 CO PB CB0|st0 r0 PW]; subst.
      + (* an action *)
        eapply Inv2_frame; eauto.
        * intro g. eapply gstat_put_other; eauto. discriminate.
        * intro b. eapply bstat_put_other; eauto. discriminate.
      + (* the verdict of a plan-level group *)
        assert (Eo : forall g', g' <> g -> gstat s' g' = gstat s g').
        { intros g' Hn. eapply gstat_put_other; eauto. intro E. injection E as E. auto. }
        assert (En : gstat s' g = st) by (unfold gstat; rewrite Ei; apply ist_iset_same).
        assert (Eb : forall b, bstat s' b = bstat s b) by (intro b; eapply bstat_put_other; eauto; discriminate).
        pose proof (not_idle_window _ _ _ g I1 (g_verdict_running _ _ _ V)) as W.
        assert (Old : gstat s g <> Failed).
        { pose proof (i_groups _ _ _ I1 g) as GI. unfold grp_inv, ginv_opt in GI.
          destruct (tget (s_g s) g) as [rr l|rr acts] eqn:T; [discriminate V|].
          destruct (grp_get (sh_groups sh) g); [apply GI|destruct GI as [X _]; discriminate X]. }
        assert (M : m_pw (mon_step m (EvWrite (OChecks SPlan g) st n ok r)) = m_pw m) by reflexivity.
        destruct (relevant (s_ph s) g) eqn:Rel.
        * (* only the continuous group is written in a phase that reads it *)
          assert (g = GCont /\ (s_ph s = PBlocks \/ s_ph s = PPost \/ s_ph s = PDeferred)) as [-> Hph].
          { destruct g; simpl in W.
            - rewrite W in Rel. discriminate Rel.
            - rewrite W in Rel. discriminate Rel.
            - split; [reflexivity|]. destruct W as [W|W]; [rewrite W in Rel; discriminate Rel|].
              apply (i_windows _ _ _ I1). exact W.
            - destruct W as [W _]. rewrite W in Rel. discriminate Rel.
            - destruct W as [W _]. rewrite W in Rel. discriminate Rel. }
          assert (Rn : ran s' GCont) by (right; rewrite En; tauto).
          unfold Inv2, Inv2at in *. rewrite Ep, M.
          assert (AC : all_completed s -> all_completed s') by (intros X b bs Hb; rewrite Eb; eauto).
          assert (SF : some_failed s -> some_failed s') by (intros (b & bs & H1 & H2); exists b, bs; rewrite Eb; auto).
          assert (E1 := Eo GBypass ltac:(discriminate)). assert (E2 := Eo GPre ltac:(discriminate)).
          assert (E4 := Eo GPost ltac:(discriminate)).
          destruct Hph as [Hph|[Hph|Hph]]; rewrite Hph in *;
            unfold tail, cause, not_bypassed, passed, ran, gabsent in *; rewrite ?E1, ?E2, ?E4; tauto.
        * eapply Inv2_frame_rel; eauto. intros g' Rg. apply Eo. intro X. subst g'. congruence.
      + (* an object of the current block *)
        assert (M : m_pw (mon_step m (EvWrite o st n ok r)) = m_pw m) by (destruct o; try reflexivity; discriminate CO).
        assert (Eg : forall g, gstat s' g = gstat s g).
        { intro g. eapply gstat_put_other; eauto. intro E. subst o. discriminate CO. }
        unfold Inv2, Inv2at in *. rewrite Ep, PB in *. rewrite M.
        unfold not_bypassed, passed, ran, gabsent in *. rewrite !Eg. exact I2.
      + (* the plan's own write *)
        assert (Eg : forall g, gstat s' g = gstat s g) by (intro g; eapply gstat_put_other; eauto; discriminate).
        assert (Eb : forall b, bstat s' b = bstat s b) by (intro b; eapply bstat_put_other; eauto; discriminate).
        assert (F : final sh (ist (s_img s')) = final sh (ist (s_img s))) by (apply final_ext; [apply Eg|apply Eb]).
        unfold p_write in PW. unfold Inv2, Inv2at in *. rewrite Ep. simpl.
        destruct (s_ph s) eqn:Hp; try discriminate PW.
        * exact I.
        * destruct (is_terminal st && negb (is_terminal (ist (s_img s) OPlan))
                    && status_eqb st (fst (final sh (ist (s_img s)))) && reason_eqb r (snd (final sh (ist (s_img s))))) eqn:G;
            [|discriminate PW].
          apply andb_true_iff in G as [G G4]. apply andb_true_iff in G as [G G3].
          apply status_eqb_eq in G3. apply reason_eqb_eq in G4.
          destruct I2 as [A B]. split.
          -- unfold tail, cause, not_bypassed, ran, all_completed, some_failed, gabsent in *.
             rewrite !Eg. 
             assert (AC : (forall b bs, nth_error (sh_blocks sh) b = Some bs -> bstat s b = Completed) ->
                          forall b bs, nth_error (sh_blocks sh) b = Some bs -> bstat s' b = Completed)
               by (intros X b bs Hb; rewrite Eb; eauto).
             assert (SF : (exists b bs, nth_error (sh_blocks sh) b = Some bs /\ bstat s b = Failed) ->
                          exists b bs, nth_error (sh_blocks sh) b = Some bs /\ bstat s' b = Failed)
               by (intros (b & bs & H1 & H2); exists b, bs; rewrite Eb; auto).
             tauto.
          -- right. rewrite F, G3, G4. destruct (final sh (ist (s_img s))); reflexivity.
    - unfold h_read in H. destruct (s_fin s) as [f|]; [destruct (images_agree (all_objs sh) f snap); [|discriminate]|];
        injection H as <-; exact I2.
    - unfold h_release in H.
      destruct (pphase_eqb (s_ph s) PEnd && is_terminal (ist (s_img s) OPlan)
                && image_agrees (all_objs sh) (s_img s) (s_reason s) fin) eqn:G; [|discriminate].
      injection H as <-. apply andb_true_iff in G as [G _]. apply andb_true_iff in G as [G _].
      apply pphase_eqb_eq in G. unfold Inv2, Inv2at in *. simpl. rewrite G in I2. exact I2.
  Qed.

  Lemma stutter_Inv2 s m e : Inv1 sh s m -> Inv2 s m -> stutter sh s e = true -> Inv2 s (mon_step m e).
  Proof.
    intros I1 I2 H. destruct e as [a|a o|o st n ok r|snap|fin]; try discriminate. simpl in H.
    apply andb_true_iff in H as [H Hr]. apply andb_true_iff in H as [H Hc]. apply cell_eqb_eq in Hc.
    apply (Inv2_frame s m s (mon_step m (EvWrite o st n ok r))); auto.
    destruct o; try reflexivity. simpl.
    apply reason_eqb_eq in Hr. subst r. rewrite (i_pw _ _ _ I1). unfold ist. rewrite Hc. reflexivity.
  Qed.

  Lemma ran_of_stat s g v : (gabsent g /\ v = true) \/ (~ gabsent g /\ gstat s g = vs v) -> ran s g.
  Proof. intros [[A _]|[_ A]]; [left; exact A|right]. rewrite A. destruct v; simpl; auto. Qed.
  Lemma passed_of_stat s g : (gabsent g /\ true = true) \/ (~ gabsent g /\ gstat s g = vs true) -> passed s g.
  Proof. intros [[A _]|[_ A]]; [left; exact A|right; exact A]. Qed.

  Lemma eps_Inv2 s m s1 : Inv1 sh s m -> Inv2 s m -> eps sh s = Some s1 -> Inv2 s1 m.
  Proof.
    intros I1 I2 H. unfold eps, p_eps in H. unfold Inv2 in I2.
    pose proof (i_groups _ _ _ I1) as Ig.
    (* the new state has the image of s: it suffices to show the formula of the new phase about s *)
    assert (K : forall p, s_img s1 = s_img s -> s_ph s1 = p -> Inv2at p s m -> Inv2 s1 m).
    { intros p E1 E2 X. unfold Inv2. rewrite E2. eapply Inv2at_img; eauto. }
    assert (EB : forall s0 cb, s_img (enter_block sh s0 cb) = s_img s0 /\ s_ph (enter_block sh s0 cb) = s_ph s0).
    { intros s0 cb. unfold enter_block. destruct (block_of sh cb); split; reflexivity. }
    destruct (s_ph s) eqn:Hp; simpl in I2.
    - (* PStart *)
      destruct (status_eqb (ist (s_img s) OPlan) Running) eqn:E; [|discriminate]. injection H as <-.
      apply (K PBypass); try reflexivity. simpl. rewrite (i_pw _ _ _ I1). simpl. now apply status_eqb_eq.
    - (* PBypass *)
      destruct (g_bypass (sh_groups sh)) as [rs|] eqn:R.
      + destruct (once_done true (t_bypass (s_g s)) (ist (s_img s) (OChecks SPlan GBypass))) as [[x v]|] eqn:O;
          [|discriminate].
        pose proof (Ig GBypass) as GI. simpl in GI. rewrite R in GI.
        destruct (once_done_stat (Some rs) _ _ _ _ _ x v GI O) as [[X _]|[_ ST]]; [discriminate X|].
        destruct v; injection H as <-.
        * apply (K PEnd); try reflexivity. simpl.
          split; [|left; exact I2]. left. split; [|exact ST]. unfold gabsent. simpl. rewrite R. discriminate.
        * apply (K PPre); try reflexivity. simpl. split; [exact I2|]. right. exact ST.
      + injection H as <-. apply (K PPre); try reflexivity. simpl. split; [exact I2|]. left. exact R.
    - (* PPre *)
      destruct I2 as [A B].
      destruct (once_done (present (g_pre (sh_groups sh))) (t_pre (s_g s)) (ist (s_img s) (OChecks SPlan GPre)))
        as [[x v1]|] eqn:O1; [|discriminate].
      destruct (once_done (present (g_cont (sh_groups sh))) (t_cont (s_g s)) (ist (s_img s) (OChecks SPlan GCont)))
        as [[y v2]|] eqn:O2; [|discriminate].
      pose proof (once_done_stat _ _ _ _ _ _ x v1 (Ig GPre) O1) as S1.
      pose proof (once_done_stat _ _ _ _ _ _ y v2 (Ig GCont) O2) as S2.
      destruct (v1 && v2) eqn:V; injection H as <-.
      + apply andb_true_iff in V as [-> ->].
        apply (K PBlocks); [simpl; rewrite (proj1 (EB _ _)); reflexivity|reflexivity|]. simpl.
        split; [exact A|]. split; [exact B|].
        split; [apply passed_of_stat; exact S1|apply (ran_of_stat s GCont true); exact S2].
      + apply (K PDeferred); try reflexivity. simpl.
        split; [exact A|]. split; [exact B|]. split; [apply (ran_of_stat s GPre v1); exact S1|].
        split; [apply (ran_of_stat s GCont v2); exact S2|]. right.
        apply andb_false_iff in V as [V|V]; subst.
        * left. destruct S1 as [[_ X]|[_ X]]; [discriminate X|exact X].
        * right. left. destruct S2 as [[_ X]|[_ X]]; [discriminate X|exact X].
    - (* PBlocks *)
      destruct I2 as (A & B & C & D).
      destruct (block_of sh (s_cb s)) as [bs|] eqn:B0.
      + unfold block_of in B0. destruct (cur_binv _ _ _ _ I1 Hp B0) as [BI BW].
        destruct (b_eps bs (s_img s) (s_cb s) (p_visible s) (s_b s)) as [[b'|f]|] eqn:E; [| |discriminate].
        * injection H as <-. apply (K PBlocks); try reflexivity; simpl; auto.
        * destruct (b_eps_finished _ _ _ _ _ _ BW E) as [_ BS]. destruct f; injection H as <-.
          -- apply (K PDeferred); try reflexivity. simpl. split; [exact A|]. split; [exact B|].
             split; [destruct C as [C|C]; [left; exact C|right; left; exact C]|]. split; [exact D|].
             right. right. right. exists (s_cb s), bs. split; [exact B0|exact BS].
          -- apply (K PBlocks); [exact (proj1 (EB s (S (s_cb s))))|rewrite (proj2 (EB s (S (s_cb s)))); exact Hp|]. simpl. auto.
      + injection H as <-. apply (K PPost); try reflexivity. simpl.
        split; [exact A|]. split; [exact B|]. split; [exact C|]. split; [exact D|].
        intros b bs Hb. unfold block_of in B0. apply nth_error_None in B0.
        pose proof (nth_error_some_lt _ _ _ Hb) as LB.
        pose proof (i_blocks _ _ _ I1 _ _ Hb) as X. rewrite Hp in X.
        assert (LT : b <? s_cb s = true) by (apply Nat.ltb_lt; lia). rewrite LT in X. apply X.
    - (* PPost *)
      destruct I2 as (A & B & C & D & E).
      assert (RC : ran s GPre) by (destruct C as [C|C]; [left; exact C|right; left; exact C]).
      destruct (thr_live (s_thr s)) eqn:L.
      + destruct (g_settle (t_cont (s_g s)) (ist (s_img s) (OChecks SPlan GCont))) as [x|] eqn:S; [|discriminate].
        injection H as <-.
        destruct (grp_settle SPlan GCont _ _ _ _ x (Ig GCont) S) as [GX Qx].
        destruct (g_dead x) eqn:Dx.
        * apply (K PDeferred); try reflexivity. simpl.
          split; [exact A|]. split; [exact B|]. split; [exact RC|]. split; [exact D|].
          right. right. left. unfold grp_inv, ginv_opt in GX. simpl in GX.
          destruct (g_cont (sh_groups sh)) as [rs|].
          -- destruct x as [r l|]; [|discriminate Dx]. destruct l as [[|]|]; try discriminate Dx.
             simpl in GX. destruct r; [contradiction|]. apply GX.
          -- destruct GX as [-> _]. discriminate Dx.
        * apply (K PPost); try reflexivity; [simpl; exact Hp|]. simpl. auto.
      + destruct (once_done (present (g_post (sh_groups sh))) (t_post (s_g s)) (ist (s_img s) (OChecks SPlan GPost)))
          as [[x v]|] eqn:O; [|discriminate]. injection H as <-.
        pose proof (once_done_stat _ _ _ _ _ _ x v (Ig GPost) O) as S1.
        apply (K PDeferred); try reflexivity. simpl.
        split; [exact A|]. split; [exact B|]. split; [exact RC|]. split; [exact D|].
        left. split; [exact E|apply (ran_of_stat s GPost v); exact S1].
    - (* PDeferred *)
      destruct I2 as (A & B & C & D & E).
      destruct (thr_live (s_thr s)) eqn:L.
      + destruct (g_settle (t_cont (s_g s)) (ist (s_img s) (OChecks SPlan GCont))) as [x|] eqn:S; [|discriminate].
        injection H as <-. apply (K PDeferred); try reflexivity; [simpl; exact Hp|]. simpl. auto.
      + destruct (once_done (present (g_deferred (sh_groups sh))) (t_deferred (s_g s)) (ist (s_img s) (OChecks SPlan GDeferred)))
          as [[x v]|] eqn:O; [|discriminate]. injection H as <-.
        pose proof (once_done_stat _ _ _ _ _ _ x v (Ig GDeferred) O) as S1.
        apply (K PEnd); try reflexivity. simpl. split; [|left; exact A]. right.
        split; [exact B|]. split; [exact C|]. split; [exact D|]. split; [apply (ran_of_stat s GDeferred v); exact S1|exact E].
    - discriminate.
    - discriminate.
  Qed.
End Path.
