(* Inv1 is kept by stutter writes, reads, the release, hence by every handler; and by epsilon-moves. *)
From Coq Require Import Lia.
From Coercion.Base Require Import Plan.
From Coercion.Engine Require Import Shape Event Action ChecksRun Seq Block Final PlanSM Auto Accept AutoLemmas.
From Coercion.C04 Require Import MonC04 Views InvDefs InvLocal InvGlobal InvLift InvOps InvHandle InvWrite.

Local Arguments tlook : simpl never.
Local Arguments tput : simpl never.
Local Arguments iget : simpl never.
Local Arguments iset : simpl never.
Local Arguments lcount : simpl never.
Local Arguments ist : simpl never.
Local Arguments tally_write : simpl never.

Lemma mstate_eta m : {| m_t := m_t m; m_pw := m_pw m |} = m.
Proof. destruct m; reflexivity. Qed.

Section Step.
  Variable sh : shape.

  (* a write that repeats the durable value of an action of the plan *)
  Lemma stutter_teq s m a c :
    Inv1 sh s m -> obj_in_shape sh (OAct a) = true -> c = iget (s_img s) (OAct a) ->
    teq (tlook (m_t m) a) (tally_write (tlook (m_t m) a) (c_st c) (c_n c) (c_ok c))
    /\ t_owed (tally_write (tlook (m_t m) a) (c_st c) (c_n c) (c_ok c)) = t_owed (tlook (m_t m) a).
  Proof.
    intros I Hs Hc. destruct a as [[|b] g i|b q i]; simpl in Hs.
    - unfold group_of in Hs. simpl in Hs.
      destruct (grp_get (sh_groups sh) g) as [rs|] eqn:R; [|discriminate].
      destruct (nth_error rs i) eqn:N; [|discriminate]. apply nth_error_some_lt in N.
      pose proof (i_groups _ _ _ I g) as GI. rewrite R in GI.
      eapply grp_stutter; eauto.
    - unfold group_of, scope_groups, block_of in Hs.
      destruct (nth_error (sh_blocks sh) b) as [bs|] eqn:Hb; [|discriminate]. simpl in Hs.
      destruct (grp_get (bs_groups bs) g) as [rs|] eqn:R; [|discriminate].
      destruct (nth_error rs i) eqn:N; [|discriminate]. apply nth_error_some_lt in N.
      destruct (any_binv _ _ _ _ _ I Hb) as (b0 & BG & _). specialize (BG g). rewrite R in BG.
      eapply grp_stutter; eauto.
    - unfold seq_of, block_of in Hs.
      destruct (nth_error (sh_blocks sh) b) as [bs|] eqn:Hb; [|discriminate].
      destruct (nth_error (bs_seqs bs) q) as [rs|] eqn:R; [|discriminate].
      destruct (nth_error rs i) eqn:N; [|discriminate]. apply nth_error_some_lt in N.
      destruct (any_binv _ _ _ _ _ I Hb) as (b0 & _ & BL & BQ).
      destruct (nth_error (b_seqs b0) q) as [x|] eqn:Qx.
      + eapply sq_stutter; eauto. eapply BQ; eauto.
      + apply nth_error_None in Qx. apply nth_error_some_lt in R. lia.
  Qed.

  Lemma stutter_Inv1 s m e : Inv1 sh s m -> stutter sh s e = true -> Inv1 sh s (mon_step m e).
  Proof.
    intros I H. destruct e as [a|a o|o st n ok r|snap|fin]; try discriminate. simpl in H.
    apply andb_true_iff in H as [H Hr]. apply andb_true_iff in H as [H Hc]. apply andb_true_iff in H as [_ Hs].
    apply cell_eqb_eq in Hc.
    destruct o as [|sc g|b|b q|a]; unfold mon_step; simpl.
    - apply reason_eqb_eq in Hr. subst r.
      assert (E : (st, s_reason s) = m_pw m).
      { rewrite (i_pw _ _ _ I). unfold ist. rewrite Hc. reflexivity. }
      rewrite E, mstate_eta. exact I.
    - rewrite mstate_eta. exact I.
    - rewrite mstate_eta. exact I.
    - rewrite mstate_eta. exact I.
    - destruct (stutter_teq s m a _ I Hs eq_refl) as [T O]. rewrite Hc in T, O. simpl in T, O.
      eapply (lift_teq sh s m s _ I); try reflexivity.
      + intro a'. destruct (aref_eqb a a') eqn:E.
        * apply aref_eqb_eq in E. subst a'. rewrite tlook_tput_same. exact T.
        * rewrite tlook_tput_other; [apply teq_refl|]. intro X. subst. now rewrite aref_eqb_refl in E.
      + apply owed_tput; [apply (i_late _ _ _ I)|exact O].
  Qed.

  Lemma release_Inv1 s m fin s' : Inv1 sh s m -> h_release sh s fin = Some s' -> Inv1 sh s' m.
  Proof.
    intros I H. unfold h_release in H.
    destruct (pphase_eqb (s_ph s) PEnd && is_terminal (ist (s_img s) OPlan)
              && image_agrees (all_objs sh) (s_img s) (s_reason s) fin) eqn:G; [|discriminate].
    injection H as <-. apply andb_true_iff in G as [G _]. apply andb_true_iff in G as [G _].
    apply pphase_eqb_eq in G. destruct I as [Ig Iw Ib Il Ipw Ipl].
    constructor; simpl; auto.
    - destruct Iw as (H1 & H2 & H3 & H4 & H5 & H6). rewrite G in *. unfold p_windows. simpl.
      assert (L : thr_live (s_thr s) = false).
      { destruct (thr_live (s_thr s)) eqn:L; auto. destruct (H6 eq_refl) as [X|[X|X]]; discriminate X. }
      repeat split.
      + destruct H1 as [X|X]; [auto|discriminate X].
      + destruct H2 as [X|X]; [auto|discriminate X].
      + destruct H3 as [X|[X|X]]; [auto|discriminate X|congruence].
      + destruct H4 as [X|[X _]]; [auto|discriminate X].
      + destruct H5 as [X|[X _]]; [auto|discriminate X].
      + intro X. congruence.
    - intros bi bs Hb. specialize (Ib bi bs Hb). rewrite G in Ib. simpl. exact Ib.
  Qed.

  Theorem handle_Inv1 s m e s' : Inv1 sh s m -> handle sh s e = Some s' -> Inv1 sh s' (mon_step m e).
  Proof.
    intros I H. destruct e as [a|a o|o st n ok r|snap|fin]; simpl in H.
    - destruct (released s); [discriminate|]. eapply h_start_Inv1; eauto.
    - eapply h_end_Inv1; eauto.
    - destruct (released s); [discriminate|]. eapply h_write_Inv1; eauto.
    - unfold mon_step; simpl. rewrite mstate_eta. unfold h_read in H.
      destruct (s_fin s) as [f|]; [destruct (images_agree (all_objs sh) f snap); [|discriminate]|];
        injection H as <-; exact I.
    - unfold mon_step; simpl. rewrite mstate_eta. eapply release_Inv1; eauto.
  Qed.
End Step.
