(* Footprint of the handlers: which parts of the state an accepted event can change.  Used by the path
   invariant (which plan-level verdicts exist in which phase) and by final_sound. *)
From Coq Require Import Lia.
From Coercion.Base Require Import Plan.
From Coercion.Engine Require Import Shape Event Action ChecksRun Seq Block Final PlanSM Auto Accept AutoLemmas.
From Coercion.C04 Require Import MonC04 Views InvDefs InvLocal InvGlobal InvLift InvOps InvHandle InvWrite.

Local Arguments iget : simpl never.
Local Arguments iset : simpl never.
Local Arguments ist : simpl never.

(* the parts of the state the sub-handlers never touch *)
Definition same_frame (s s1 : st) : Prop :=
  s_img s1 = s_img s /\ s_ph s1 = s_ph s /\ s_cb s1 = s_cb s /\ s_thr s1 = s_thr s /\ s_reason s1 = s_reason s
  /\ s_fin s1 = s_fin s.

Lemma same_frame_refl s : same_frame s s.
Proof. unfold same_frame. auto 10. Qed.
Lemma same_frame_with_g s t : same_frame s (with_g s t).
Proof. unfold same_frame. simpl. auto 10. Qed.
Lemma same_frame_with_b s b : same_frame s (with_b s b).
Proof. unfold same_frame. simpl. auto 10. Qed.
Lemma same_frame_owe s s1 a owed : same_frame s s1 -> same_frame s (owe s1 a owed).
Proof. unfold owe. destruct owed; auto; unfold same_frame in *; simpl; auto. Qed.
Lemma same_frame_with_late s l : same_frame s (with_late s l).
Proof. unfold same_frame. simpl. auto 10. Qed.

Lemma option_map_with_b s (x : option bst) s1 : option_map (with_b s) x = Some s1 -> same_frame s s1.
Proof. destruct x; simpl; intro H; [|discriminate]. injection H as <-. apply same_frame_with_b. Qed.

Section Foot.
  Variable sh : shape.

  Lemma h_write_act_frame s a st n ok s1 : h_write_act sh s a st n ok = Some s1 -> same_frame s s1.
  Proof.
    unfold h_write_act. intro H.
    destruct st; try discriminate; [destruct n; [destruct ok; [discriminate|]|]| |];
      destruct a as [[|b] g i|b q i].
    - unfold p_chk_mark in H. destruct (grp_get (sh_groups sh) g); [|discriminate].
      destruct (g_mark _ _ _ _ _); [|discriminate]. injection H as <-. apply same_frame_with_g.
    - destruct (cur_block sh s b); [|discriminate]. eapply option_map_with_b; eauto.
    - destruct (cur_block sh s b); [|discriminate]. eapply option_map_with_b; eauto.
    - unfold p_chk_attempt in H. destruct (grp_get (sh_groups sh) g); [|discriminate].
      destruct (g_attempt _ _ _ _ _) as [[x owed]|]; [|discriminate]. injection H as <-.
      apply same_frame_owe. apply same_frame_with_g.
    - destruct (cur_block sh s b); [|discriminate].
      destruct (b_chk_attempt _ _ _ _ _ _) as [[b' owed]|]; [|discriminate]. injection H as <-.
      apply same_frame_owe. apply same_frame_with_b.
    - destruct (cur_block sh s b); [|discriminate].
      destruct (b_act_attempt _ _ _ _ _ _) as [[b' owed]|]; [|discriminate]. injection H as <-.
      apply same_frame_owe. apply same_frame_with_b.
    - unfold p_chk_final in H. destruct (g_final _ _ _ _ _); [|discriminate]. injection H as <-. apply same_frame_with_g.
    - destruct (cur_block sh s b); [|discriminate]. eapply option_map_with_b; eauto.
    - destruct (cur_block sh s b); [|discriminate]. eapply option_map_with_b; eauto.
    - unfold p_chk_final in H. destruct (g_final _ _ _ _ _); [|discriminate]. injection H as <-. apply same_frame_with_g.
    - destruct (cur_block sh s b); [|discriminate]. eapply option_map_with_b; eauto.
    - destruct (cur_block sh s b); [|discriminate]. eapply option_map_with_b; eauto.
  Qed.

  (* what a handled write is *)
  Inductive write_kind (s : st) : obj -> status -> reason -> Prop :=
  | WAct a st r : write_kind s (OAct a) st r
  | WPGroup g st r x : g_verdict (tget (s_g s) g) st = Some x -> (st = Completed \/ st = Failed) ->
                       write_kind s (OChecks SPlan g) st r
  | WBlock o b st r : obj_comp o = CB b -> s_ph s = PBlocks -> b = s_cb s -> write_kind s o st r
  | WPlan st r : p_write sh s st r = Some s -> write_kind s OPlan st r.

  Lemma h_write_foot s o st n ok r s' :
    h_write sh s o st n ok r = Some s' ->
    s_img s' = iset (s_img s) o (mkc st n ok) /\ s_ph s' = s_ph s /\ s_cb s' = s_cb s /\ s_thr s' = s_thr s
    /\ s_fin s' = s_fin s
    /\ s_reason s' = (match o with OPlan => r | _ => s_reason s end)
    /\ write_kind s o st r.
  Proof.
    intro H. unfold h_write in H. destruct (negb (obj_in_shape sh o)); [discriminate|].
    assert (K : forall s1, same_frame s s1 -> write_kind s o st r ->
                match o with OPlan => s_reason (put s1 o st n ok) = r | _ => True end ->
                s_img (put s1 o st n ok) = iset (s_img s) o (mkc st n ok) /\ s_ph (put s1 o st n ok) = s_ph s
                /\ s_cb (put s1 o st n ok) = s_cb s /\ s_thr (put s1 o st n ok) = s_thr s
                /\ s_fin (put s1 o st n ok) = s_fin s
                /\ s_reason (put s1 o st n ok) = (match o with OPlan => r | _ => s_reason s end)
                /\ write_kind s o st r).
    { intros s1 (E1 & E2 & E3 & E4 & E5 & E6) W R. simpl. rewrite E1, E2, E3, E4, E6. repeat split; auto.
      destruct o; simpl in *; auto. }
    destruct o as [|sc g|b|b q|a].
    - destruct n; [|discriminate]. destruct ok; [discriminate|]. simpl in H.
      destruct (p_write sh s st r) as [s1|] eqn:P; [|discriminate]. injection H as <-.
      assert (s1 = s) as ->.
      { unfold p_write in P. destruct (s_ph s); try discriminate.
        - destruct (status_eqb st Running && reason_eqb r FRUnknown); [|discriminate]. now injection P as <-.
        - destruct (is_terminal st && negb (is_terminal (ist (s_img s) OPlan)) && _ && _); [|discriminate].
          now injection P as <-. }
      simpl. repeat split; auto. constructor. exact P.
    - destruct n; [|discriminate]. destruct ok; [discriminate|]. destruct sc as [|b]; simpl in H.
      + destruct st; try discriminate; unfold p_chk_verdict in H;
          (destruct (g_verdict (tget (s_g s) g) _) as [x|] eqn:V; [|discriminate]; injection H as <-;
           apply K; [apply same_frame_with_g|econstructor; eauto|exact I]).
      + destruct st; try discriminate;
          (destruct (cur_block sh s b) as [bs|] eqn:HCB; [|discriminate];
           destruct (cur_block_spec _ _ _ _ HCB) as (Hp & Hb & _);
           destruct (b_chk_verdict (s_b s) g _) as [b1|] eqn:V; [|discriminate]; injection H as <-;
           apply K; [apply same_frame_with_b|apply (WBlock s _ b); auto|exact I]).
    - destruct n; [|discriminate]. destruct ok; [discriminate|]. simpl in H.
      destruct (cur_block sh s b) as [bs|] eqn:HCB; [|discriminate].
      destruct (cur_block_spec _ _ _ _ HCB) as (Hp & Hb & _).
      destruct (b_write (s_b s) st) as [b1|]; [|discriminate]. injection H as <-.
      apply K; [apply same_frame_with_b|apply (WBlock s _ b); auto|exact I].
    - destruct n; [|discriminate]. destruct ok; [discriminate|]. simpl in H.
      destruct (cur_block sh s b) as [bs|] eqn:HCB; [|discriminate].
      destruct (cur_block_spec _ _ _ _ HCB) as (Hp & Hb & _).
      destruct st; try discriminate.
      + destruct (b_seq_launch bs (s_b s) q) as [b1|]; [|discriminate]. injection H as <-.
        apply K; [apply same_frame_with_b|apply (WBlock s _ b); auto|exact I].
      + destruct (b_seq_terminal (s_b s) q Completed) as [b1|]; [|discriminate]. injection H as <-.
        apply K; [apply same_frame_with_b|apply (WBlock s _ b); auto|exact I].
      + destruct (b_seq_terminal (s_b s) q Failed) as [b1|]; [|discriminate]. injection H as <-.
        apply K; [apply same_frame_with_b|apply (WBlock s _ b); auto|exact I].
    - assert (H' : option_map (fun s1 => put s1 (OAct a) st n ok) (h_write_act sh s a st n ok) = Some s').
      { destruct n, ok; exact H. }
      destruct (h_write_act sh s a st n ok) as [s1|] eqn:W; [|discriminate]. injection H' as <-.
      apply K; [eapply h_write_act_frame; eauto|constructor|exact I].
  Qed.

  Lemma h_start_frame s a s' : h_start sh s a = Some s' -> same_frame s s'.
  Proof.
    unfold h_start. destruct (owes (s_late s) a); [discriminate|]. destruct a as [[|b] g i|b q i]; intro H.
    - unfold p_chk_start in H. destruct (g_start _ _ _); [|discriminate]. injection H as <-. apply same_frame_with_g.
    - destruct (cur_block sh s b); [|discriminate]. eapply option_map_with_b; eauto.
    - destruct (cur_block sh s b); [|discriminate]. eapply option_map_with_b; eauto.
  Qed.

  Lemma h_end_frame s a o s' : h_end sh s a o = Some s' -> same_frame s s'.
  Proof.
    unfold h_end. destruct (h_end_sub sh s a o) as [s1|] eqn:E.
    - intro H. injection H as <-. destruct a as [[|b] g i|b q i]; simpl in E.
      + unfold p_chk_end in E. destruct (g_end _ _ _); [|discriminate]. injection E as <-. apply same_frame_with_g.
      + destruct (cur_block sh s b); [|discriminate]. eapply option_map_with_b; eauto.
      + destruct (cur_block sh s b); [|discriminate]. eapply option_map_with_b; eauto.
    - destruct o; try discriminate. destruct (remove_one a (s_late s)); simpl; [|discriminate].
      intro H. injection H as <-. apply same_frame_with_late.
  Qed.
End Foot.
