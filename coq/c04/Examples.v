(* Non-vacuity of the C04 theorems and teeth of the monitor, by vm_compute:
   two traces of the REAL engine (harness cases final-36 and final-4, VERIF_SEED=1) are accepted by the automaton
   (so the hypotheses of c04_final_consistent / c04_final_released are satisfiable on non-trivial inputs) and
   satisfy mon_final; mutated traces are rejected by the monitor, each for the clause one expects. *)
From Coercion.Base Require Import Plan.
From Coercion.Engine Require Import Shape Event PlanSM Auto Accept.
From Coercion.C04 Require Import MonC04.

(* final-36: three blocks; the plan's bypass group fails after two retries; block 0: bypass fails, a retried pre check, its only sequence fails (wrong response type), a failing and a retried deferred check; the plan ends Failed / FRBlock with blocks 1 and 2 untouched (108 events) *)
Definition sh_a : shape :=
  (Build_shape (Build_groups (Some [2]) None None None None) [(Build_bshape (Build_groups (Some [2]) (Some [1; 0]) None None (Some [2; 1])) [[1]] 3 (0)%Z); (Build_bshape (Build_groups None (Some [1]) None None (Some [2])) [[1; 2]; [0; 1]] 1 (0)%Z); (Build_bshape (Build_groups None None None None None) [[2; 2]] 3 (-1)%Z)]).
Definition tr_a : list event :=
  [(EvWrite OPlan Running 0 false FRUnknown);
   (EvWrite (OChecks SPlan GBypass) NotStarted 0 false FRUnknown);
   (EvWrite (OAct (AChk SPlan GBypass 0)) Running 0 false FRUnknown);
   (EvStart (AChk SPlan GBypass 0));
   (EvEnd (AChk SPlan GBypass 0) OErr);
   (EvWrite (OAct (AChk SPlan GBypass 0)) Running 1 false FRUnknown);
   (EvStart (AChk SPlan GBypass 0));
   (EvEnd (AChk SPlan GBypass 0) OErr);
   (EvWrite (OAct (AChk SPlan GBypass 0)) Running 2 false FRUnknown);
   (EvStart (AChk SPlan GBypass 0));
   (EvEnd (AChk SPlan GBypass 0) OPerm);
   (EvWrite (OAct (AChk SPlan GBypass 0)) Running 3 false FRUnknown);
   (EvWrite (OAct (AChk SPlan GBypass 0)) Failed 3 false FRUnknown);
   (EvWrite (OAct (AChk SPlan GBypass 0)) Failed 3 false FRUnknown);
   (EvWrite (OChecks SPlan GBypass) Failed 0 false FRUnknown);
   (EvWrite OPlan Running 0 false FRUnknown);
   (EvWrite OPlan Running 0 false FRUnknown);
   (EvWrite (OBlock 0) Running 0 false FRUnknown);
   (EvWrite (OChecks (SBlock 0) GBypass) NotStarted 0 false FRUnknown);
   (EvWrite (OAct (AChk (SBlock 0) GBypass 0)) Running 0 false FRUnknown);
   (EvStart (AChk (SBlock 0) GBypass 0));
   (EvEnd (AChk (SBlock 0) GBypass 0) OErr);
   (EvWrite (OAct (AChk (SBlock 0) GBypass 0)) Running 1 false FRUnknown);
   (EvStart (AChk (SBlock 0) GBypass 0));
   (EvEnd (AChk (SBlock 0) GBypass 0) OErr);
   (EvWrite (OAct (AChk (SBlock 0) GBypass 0)) Running 2 false FRUnknown);
   (EvStart (AChk (SBlock 0) GBypass 0));
   (EvEnd (AChk (SBlock 0) GBypass 0) OPerm);
   (EvWrite (OAct (AChk (SBlock 0) GBypass 0)) Running 3 false FRUnknown);
   (EvWrite (OAct (AChk (SBlock 0) GBypass 0)) Failed 3 false FRUnknown);
   (EvWrite (OAct (AChk (SBlock 0) GBypass 0)) Failed 3 false FRUnknown);
   (EvWrite (OChecks (SBlock 0) GBypass) Failed 0 false FRUnknown);
   (EvWrite (OBlock 0) Running 0 false FRUnknown);
   (EvWrite (OChecks (SBlock 0) GPre) NotStarted 0 false FRUnknown);
   (EvWrite (OAct (AChk (SBlock 0) GPre 0)) Running 0 false FRUnknown);
   (EvWrite (OAct (AChk (SBlock 0) GPre 1)) Running 0 false FRUnknown);
   (EvStart (AChk (SBlock 0) GPre 1));
   (EvEnd (AChk (SBlock 0) GPre 1) OOk);
   (EvStart (AChk (SBlock 0) GPre 0));
   (EvEnd (AChk (SBlock 0) GPre 0) OOk);
   (EvWrite (OAct (AChk (SBlock 0) GPre 1)) Running 1 true FRUnknown);
   (EvWrite (OAct (AChk (SBlock 0) GPre 1)) Completed 1 true FRUnknown);
   (EvWrite (OAct (AChk (SBlock 0) GPre 1)) Completed 1 true FRUnknown);
   (EvWrite (OAct (AChk (SBlock 0) GPre 0)) Running 1 true FRUnknown);
   (EvWrite (OAct (AChk (SBlock 0) GPre 0)) Completed 1 true FRUnknown);
   (EvWrite (OAct (AChk (SBlock 0) GPre 0)) Completed 1 true FRUnknown);
   (EvWrite (OChecks (SBlock 0) GPre) Completed 0 false FRUnknown);
   (EvWrite (OBlock 0) Running 0 false FRUnknown);
   (EvWrite (OBlock 0) Running 0 false FRUnknown);
   (EvWrite (OSeq 0 0) Running 0 false FRUnknown);
   (EvWrite (OAct (ASeq 0 0 0)) Running 0 false FRUnknown);
   (EvStart (ASeq 0 0 0));
   (EvEnd (ASeq 0 0 0) OWrongType);
   (EvWrite (OAct (ASeq 0 0 0)) Running 1 false FRUnknown);
   (EvWrite (OAct (ASeq 0 0 0)) Failed 1 false FRUnknown);
   (EvWrite (OAct (ASeq 0 0 0)) Failed 1 false FRUnknown);
   (EvWrite (OSeq 0 0) Failed 0 false FRUnknown);
   (EvWrite (OChecks (SBlock 0) GDeferred) NotStarted 0 false FRUnknown);
   (EvWrite (OAct (AChk (SBlock 0) GDeferred 0)) Running 0 false FRUnknown);
   (EvWrite (OAct (AChk (SBlock 0) GDeferred 1)) Running 0 false FRUnknown);
   (EvStart (AChk (SBlock 0) GDeferred 1));
   (EvEnd (AChk (SBlock 0) GDeferred 1) OErr);
   (EvWrite (OAct (AChk (SBlock 0) GDeferred 1)) Running 1 false FRUnknown);
   (EvStart (AChk (SBlock 0) GDeferred 0));
   (EvEnd (AChk (SBlock 0) GDeferred 0) OPerm);
   (EvWrite (OAct (AChk (SBlock 0) GDeferred 0)) Running 1 false FRUnknown);
   (EvStart (AChk (SBlock 0) GDeferred 1));
   (EvEnd (AChk (SBlock 0) GDeferred 1) OOk);
   (EvWrite (OAct (AChk (SBlock 0) GDeferred 0)) Failed 1 false FRUnknown);
   (EvWrite (OAct (AChk (SBlock 0) GDeferred 0)) Failed 1 false FRUnknown);
   (EvWrite (OAct (AChk (SBlock 0) GDeferred 1)) Running 2 true FRUnknown);
   (EvWrite (OAct (AChk (SBlock 0) GDeferred 1)) Completed 2 true FRUnknown);
   (EvWrite (OAct (AChk (SBlock 0) GDeferred 1)) Completed 2 true FRUnknown);
   (EvWrite (OChecks (SBlock 0) GDeferred) Failed 0 false FRUnknown);
   (EvWrite (OBlock 0) Failed 0 false FRUnknown);
   (EvWrite (OBlock 0) Failed 0 false FRUnknown);
   (EvWrite OPlan Running 0 false FRUnknown);
   (EvWrite OPlan Failed 0 false FRBlock);
   (EvWrite (OChecks SPlan GBypass) Failed 0 false FRUnknown);
   (EvWrite (OAct (AChk SPlan GBypass 0)) Failed 3 false FRUnknown);
   (EvWrite (OBlock 0) Failed 0 false FRUnknown);
   (EvWrite (OChecks (SBlock 0) GBypass) Failed 0 false FRUnknown);
   (EvWrite (OAct (AChk (SBlock 0) GBypass 0)) Failed 3 false FRUnknown);
   (EvWrite (OChecks (SBlock 0) GPre) Completed 0 false FRUnknown);
   (EvWrite (OAct (AChk (SBlock 0) GPre 0)) Completed 1 true FRUnknown);
   (EvWrite (OAct (AChk (SBlock 0) GPre 1)) Completed 1 true FRUnknown);
   (EvWrite (OSeq 0 0) Failed 0 false FRUnknown);
   (EvWrite (OAct (ASeq 0 0 0)) Failed 1 false FRUnknown);
   (EvWrite (OChecks (SBlock 0) GDeferred) Failed 0 false FRUnknown);
   (EvWrite (OAct (AChk (SBlock 0) GDeferred 0)) Failed 1 false FRUnknown);
   (EvWrite (OAct (AChk (SBlock 0) GDeferred 1)) Completed 2 true FRUnknown);
   (EvWrite (OBlock 1) NotStarted 0 false FRUnknown);
   (EvWrite (OChecks (SBlock 1) GPre) NotStarted 0 false FRUnknown);
   (EvWrite (OAct (AChk (SBlock 1) GPre 0)) NotStarted 0 false FRUnknown);
   (EvWrite (OSeq 1 0) NotStarted 0 false FRUnknown);
   (EvWrite (OAct (ASeq 1 0 0)) NotStarted 0 false FRUnknown);
   (EvWrite (OAct (ASeq 1 0 1)) NotStarted 0 false FRUnknown);
   (EvWrite (OSeq 1 1) NotStarted 0 false FRUnknown);
   (EvWrite (OAct (ASeq 1 1 0)) NotStarted 0 false FRUnknown);
   (EvWrite (OAct (ASeq 1 1 1)) NotStarted 0 false FRUnknown);
   (EvWrite (OChecks (SBlock 1) GDeferred) NotStarted 0 false FRUnknown);
   (EvWrite (OAct (AChk (SBlock 1) GDeferred 0)) NotStarted 0 false FRUnknown);
   (EvWrite (OBlock 2) NotStarted 0 false FRUnknown);
   (EvWrite (OSeq 2 0) NotStarted 0 false FRUnknown);
   (EvWrite (OAct (ASeq 2 0 0)) NotStarted 0 false FRUnknown);
   (EvWrite (OAct (ASeq 2 0 1)) NotStarted 0 false FRUnknown);
   (EvRelease (IM [(OPlan, (OC Failed 0 false (TF false false true))); ((OChecks SPlan GBypass), (OC Failed 0 false (TF false false true))); ((OAct (AChk SPlan GBypass 0)), (OC Failed 3 false (TF false false true))); ((OBlock 0), (OC Failed 0 false (TF false false true))); ((OChecks (SBlock 0) GBypass), (OC Failed 0 false (TF false false true))); ((OAct (AChk (SBlock 0) GBypass 0)), (OC Failed 3 false (TF false false true))); ((OChecks (SBlock 0) GPre), (OC Completed 0 false (TF false false true))); ((OAct (AChk (SBlock 0) GPre 0)), (OC Completed 1 true (TF false false true))); ((OAct (AChk (SBlock 0) GPre 1)), (OC Completed 1 true (TF false false true))); ((OChecks (SBlock 0) GDeferred), (OC Failed 0 false (TF false false true))); ((OAct (AChk (SBlock 0) GDeferred 0)), (OC Failed 1 false (TF false false true))); ((OAct (AChk (SBlock 0) GDeferred 1)), (OC Completed 2 true (TF false false true))); ((OSeq 0 0), (OC Failed 0 false (TF false false true))); ((OAct (ASeq 0 0 0)), (OC Failed 1 false (TF false false true))); ((OBlock 1), (OC NotStarted 0 false (TF true true true))); ((OChecks (SBlock 1) GPre), (OC NotStarted 0 false (TF true true true))); ((OAct (AChk (SBlock 1) GPre 0)), (OC NotStarted 0 false (TF true true true))); ((OChecks (SBlock 1) GDeferred), (OC NotStarted 0 false (TF true true true))); ((OAct (AChk (SBlock 1) GDeferred 0)), (OC NotStarted 0 false (TF true true true))); ((OSeq 1 0), (OC NotStarted 0 false (TF true true true))); ((OAct (ASeq 1 0 0)), (OC NotStarted 0 false (TF true true true))); ((OAct (ASeq 1 0 1)), (OC NotStarted 0 false (TF true true true))); ((OSeq 1 1), (OC NotStarted 0 false (TF true true true))); ((OAct (ASeq 1 1 0)), (OC NotStarted 0 false (TF true true true))); ((OAct (ASeq 1 1 1)), (OC NotStarted 0 false (TF true true true))); ((OBlock 2), (OC NotStarted 0 false (TF true true true))); ((OSeq 2 0), (OC NotStarted 0 false (TF true true true))); ((OAct (ASeq 2 0 0)), (OC NotStarted 0 false (TF true true true))); ((OAct (ASeq 2 0 1)), (OC NotStarted 0 false (TF true true true)))] FRBlock));
   (EvRead (IM [(OPlan, (OC Failed 0 false (TF false false true))); ((OChecks SPlan GBypass), (OC Failed 0 false (TF false false true))); ((OAct (AChk SPlan GBypass 0)), (OC Failed 3 false (TF false false true))); ((OBlock 0), (OC Failed 0 false (TF false false true))); ((OChecks (SBlock 0) GBypass), (OC Failed 0 false (TF false false true))); ((OAct (AChk (SBlock 0) GBypass 0)), (OC Failed 3 false (TF false false true))); ((OChecks (SBlock 0) GPre), (OC Completed 0 false (TF false false true))); ((OAct (AChk (SBlock 0) GPre 0)), (OC Completed 1 true (TF false false true))); ((OAct (AChk (SBlock 0) GPre 1)), (OC Completed 1 true (TF false false true))); ((OChecks (SBlock 0) GDeferred), (OC Failed 0 false (TF false false true))); ((OAct (AChk (SBlock 0) GDeferred 0)), (OC Failed 1 false (TF false false true))); ((OAct (AChk (SBlock 0) GDeferred 1)), (OC Completed 2 true (TF false false true))); ((OSeq 0 0), (OC Failed 0 false (TF false false true))); ((OAct (ASeq 0 0 0)), (OC Failed 1 false (TF false false true))); ((OBlock 1), (OC NotStarted 0 false (TF true true true))); ((OChecks (SBlock 1) GPre), (OC NotStarted 0 false (TF true true true))); ((OAct (AChk (SBlock 1) GPre 0)), (OC NotStarted 0 false (TF true true true))); ((OChecks (SBlock 1) GDeferred), (OC NotStarted 0 false (TF true true true))); ((OAct (AChk (SBlock 1) GDeferred 0)), (OC NotStarted 0 false (TF true true true))); ((OSeq 1 0), (OC NotStarted 0 false (TF true true true))); ((OAct (ASeq 1 0 0)), (OC NotStarted 0 false (TF true true true))); ((OAct (ASeq 1 0 1)), (OC NotStarted 0 false (TF true true true))); ((OSeq 1 1), (OC NotStarted 0 false (TF true true true))); ((OAct (ASeq 1 1 0)), (OC NotStarted 0 false (TF true true true))); ((OAct (ASeq 1 1 1)), (OC NotStarted 0 false (TF true true true))); ((OBlock 2), (OC NotStarted 0 false (TF true true true))); ((OSeq 2 0), (OC NotStarted 0 false (TF true true true))); ((OAct (ASeq 2 0 0)), (OC NotStarted 0 false (TF true true true))); ((OAct (ASeq 2 0 1)), (OC NotStarted 0 false (TF true true true)))] FRBlock))].

(* final-4: a sequence action overruns its deadline twice (the engine gives up waiting: the Ends arrive late), its sequence fails within the tolerance, the plan ends Completed (80 events) *)
Definition sh_b : shape :=
  (Build_shape (Build_groups None (Some [1; 2]) None None None) [(Build_bshape (Build_groups None (Some [0; 0]) None None None) [[1]; [2; 0]] 1 (1)%Z)]).
Definition tr_b : list event :=
  [(EvWrite OPlan Running 0 false FRUnknown);
   (EvWrite OPlan Running 0 false FRUnknown);
   (EvWrite (OChecks SPlan GPre) NotStarted 0 false FRUnknown);
   (EvWrite (OAct (AChk SPlan GPre 0)) Running 0 false FRUnknown);
   (EvWrite (OAct (AChk SPlan GPre 1)) Running 0 false FRUnknown);
   (EvStart (AChk SPlan GPre 1));
   (EvEnd (AChk SPlan GPre 1) OOk);
   (EvWrite (OAct (AChk SPlan GPre 1)) Running 1 true FRUnknown);
   (EvWrite (OAct (AChk SPlan GPre 1)) Completed 1 true FRUnknown);
   (EvWrite (OAct (AChk SPlan GPre 1)) Completed 1 true FRUnknown);
   (EvStart (AChk SPlan GPre 0));
   (EvEnd (AChk SPlan GPre 0) OOk);
   (EvWrite (OAct (AChk SPlan GPre 0)) Running 1 true FRUnknown);
   (EvWrite (OAct (AChk SPlan GPre 0)) Completed 1 true FRUnknown);
   (EvWrite (OAct (AChk SPlan GPre 0)) Completed 1 true FRUnknown);
   (EvWrite (OChecks SPlan GPre) Completed 0 false FRUnknown);
   (EvWrite OPlan Running 0 false FRUnknown);
   (EvWrite (OBlock 0) Running 0 false FRUnknown);
   (EvWrite (OBlock 0) Running 0 false FRUnknown);
   (EvWrite (OChecks (SBlock 0) GPre) NotStarted 0 false FRUnknown);
   (EvWrite (OAct (AChk (SBlock 0) GPre 0)) Running 0 false FRUnknown);
   (EvWrite (OAct (AChk (SBlock 0) GPre 1)) Running 0 false FRUnknown);
   (EvStart (AChk (SBlock 0) GPre 1));
   (EvEnd (AChk (SBlock 0) GPre 1) OOk);
   (EvWrite (OAct (AChk (SBlock 0) GPre 1)) Running 1 true FRUnknown);
   (EvWrite (OAct (AChk (SBlock 0) GPre 1)) Completed 1 true FRUnknown);
   (EvWrite (OAct (AChk (SBlock 0) GPre 1)) Completed 1 true FRUnknown);
   (EvStart (AChk (SBlock 0) GPre 0));
   (EvEnd (AChk (SBlock 0) GPre 0) OOk);
   (EvWrite (OAct (AChk (SBlock 0) GPre 0)) Running 1 true FRUnknown);
   (EvWrite (OAct (AChk (SBlock 0) GPre 0)) Completed 1 true FRUnknown);
   (EvWrite (OAct (AChk (SBlock 0) GPre 0)) Completed 1 true FRUnknown);
   (EvWrite (OChecks (SBlock 0) GPre) Completed 0 false FRUnknown);
   (EvWrite (OBlock 0) Running 0 false FRUnknown);
   (EvWrite (OBlock 0) Running 0 false FRUnknown);
   (EvWrite (OSeq 0 0) Running 0 false FRUnknown);
   (EvWrite (OAct (ASeq 0 0 0)) Running 0 false FRUnknown);
   (EvStart (ASeq 0 0 0));
   (EvEnd (ASeq 0 0 0) OOverrun);
   (EvWrite (OAct (ASeq 0 0 0)) Running 1 false FRUnknown);
   (EvStart (ASeq 0 0 0));
   (EvWrite (OAct (ASeq 0 0 0)) Running 2 false FRUnknown);
   (EvEnd (ASeq 0 0 0) OOverrun);
   (EvWrite (OAct (ASeq 0 0 0)) Failed 2 false FRUnknown);
   (EvWrite (OAct (ASeq 0 0 0)) Failed 2 false FRUnknown);
   (EvWrite (OSeq 0 0) Failed 0 false FRUnknown);
   (EvWrite (OSeq 0 1) Running 0 false FRUnknown);
   (EvWrite (OAct (ASeq 0 1 0)) Running 0 false FRUnknown);
   (EvStart (ASeq 0 1 0));
   (EvEnd (ASeq 0 1 0) OOk);
   (EvWrite (OAct (ASeq 0 1 0)) Running 1 true FRUnknown);
   (EvWrite (OAct (ASeq 0 1 0)) Completed 1 true FRUnknown);
   (EvWrite (OAct (ASeq 0 1 0)) Completed 1 true FRUnknown);
   (EvWrite (OAct (ASeq 0 1 1)) Running 0 false FRUnknown);
   (EvStart (ASeq 0 1 1));
   (EvEnd (ASeq 0 1 1) OOk);
   (EvWrite (OAct (ASeq 0 1 1)) Running 1 true FRUnknown);
   (EvWrite (OAct (ASeq 0 1 1)) Completed 1 true FRUnknown);
   (EvWrite (OAct (ASeq 0 1 1)) Completed 1 true FRUnknown);
   (EvWrite (OSeq 0 1) Completed 0 false FRUnknown);
   (EvWrite (OBlock 0) Running 0 false FRUnknown);
   (EvWrite (OBlock 0) Running 0 false FRUnknown);
   (EvWrite (OBlock 0) Completed 0 false FRUnknown);
   (EvWrite OPlan Running 0 false FRUnknown);
   (EvWrite OPlan Running 0 false FRUnknown);
   (EvWrite OPlan Completed 0 false FRUnknown);
   (EvWrite (OChecks SPlan GPre) Completed 0 false FRUnknown);
   (EvWrite (OAct (AChk SPlan GPre 0)) Completed 1 true FRUnknown);
   (EvWrite (OAct (AChk SPlan GPre 1)) Completed 1 true FRUnknown);
   (EvWrite (OBlock 0) Completed 0 false FRUnknown);
   (EvWrite (OChecks (SBlock 0) GPre) Completed 0 false FRUnknown);
   (EvWrite (OAct (AChk (SBlock 0) GPre 0)) Completed 1 true FRUnknown);
   (EvWrite (OAct (AChk (SBlock 0) GPre 1)) Completed 1 true FRUnknown);
   (EvWrite (OSeq 0 0) Failed 0 false FRUnknown);
   (EvWrite (OAct (ASeq 0 0 0)) Failed 2 false FRUnknown);
   (EvWrite (OSeq 0 1) Completed 0 false FRUnknown);
   (EvWrite (OAct (ASeq 0 1 0)) Completed 1 true FRUnknown);
   (EvWrite (OAct (ASeq 0 1 1)) Completed 1 true FRUnknown);
   (EvRelease (IM [(OPlan, (OC Completed 0 false (TF false false true))); ((OChecks SPlan GPre), (OC Completed 0 false (TF false false true))); ((OAct (AChk SPlan GPre 0)), (OC Completed 1 true (TF false false true))); ((OAct (AChk SPlan GPre 1)), (OC Completed 1 true (TF false false true))); ((OBlock 0), (OC Completed 0 false (TF false false true))); ((OChecks (SBlock 0) GPre), (OC Completed 0 false (TF false false true))); ((OAct (AChk (SBlock 0) GPre 0)), (OC Completed 1 true (TF false false true))); ((OAct (AChk (SBlock 0) GPre 1)), (OC Completed 1 true (TF false false true))); ((OSeq 0 0), (OC Failed 0 false (TF false false true))); ((OAct (ASeq 0 0 0)), (OC Failed 2 false (TF false false true))); ((OSeq 0 1), (OC Completed 0 false (TF false false true))); ((OAct (ASeq 0 1 0)), (OC Completed 1 true (TF false false true))); ((OAct (ASeq 0 1 1)), (OC Completed 1 true (TF false false true)))] FRUnknown));
   (EvRead (IM [(OPlan, (OC Completed 0 false (TF false false true))); ((OChecks SPlan GPre), (OC Completed 0 false (TF false false true))); ((OAct (AChk SPlan GPre 0)), (OC Completed 1 true (TF false false true))); ((OAct (AChk SPlan GPre 1)), (OC Completed 1 true (TF false false true))); ((OBlock 0), (OC Completed 0 false (TF false false true))); ((OChecks (SBlock 0) GPre), (OC Completed 0 false (TF false false true))); ((OAct (AChk (SBlock 0) GPre 0)), (OC Completed 1 true (TF false false true))); ((OAct (AChk (SBlock 0) GPre 1)), (OC Completed 1 true (TF false false true))); ((OSeq 0 0), (OC Failed 0 false (TF false false true))); ((OAct (ASeq 0 0 0)), (OC Failed 2 false (TF false false true))); ((OSeq 0 1), (OC Completed 0 false (TF false false true))); ((OAct (ASeq 0 1 0)), (OC Completed 1 true (TF false false true))); ((OAct (ASeq 0 1 1)), (OC Completed 1 true (TF false false true)))] FRUnknown))].

(* the hypotheses of the theorems hold: accepted from init, and released *)
Example accepted_a : accepts sh_a tr_a = true. Proof. vm_compute. reflexivity. Qed.
Example accepted_b : accepts sh_b tr_b = true. Proof. vm_compute. reflexivity. Qed.
Example run_a : exists s, run sh_a init tr_a = Some s /\ released s = true.
Proof. destruct (run sh_a init tr_a) as [s|] eqn:E; [|vm_compute in E; discriminate E].
       exists s. split; [reflexivity|]. vm_compute in E. injection E as <-. reflexivity. Qed.

(* ... and the monitor is true on them (all of it, time flags included) *)
Example holds_a : mon_final (sh_a, tr_a) = true /\ mon_final_diag (sh_a, tr_a) = [0]. Proof. vm_compute. auto. Qed.
Example holds_b : mon_final (sh_b, tr_b) = true /\ mon_final_diag (sh_b, tr_b) = [0]. Proof. vm_compute. auto. Qed.

(* ---- the monitor is not trivially true ---- *)
(* 1. Wait never returns *)
Example bad_no_release : final_codes (sh_a, removelast (removelast tr_a)) = [1]. Proof. vm_compute. reflexivity. Qed.

(* 2. a plugin is entered after Wait returned *)
Example bad_activity_after : final_codes (sh_a, tr_a ++ [EvStart (ASeq 0 0 0)]) = [12]. Proof. vm_compute. reflexivity. Qed.

(* 3. the stored reason is PostCheck although the trace shows a block failing (E5), the re-read shows the right one *)
Definition set_reason (r : reason) (e : event) : event :=
  match e with EvRelease (IM cs _) => EvRelease (IM cs r) | _ => e end.
Example bad_reason : final_codes (sh_a, map (set_reason FRPostCheck) tr_a) = [11; 15; 13]. Proof. vm_compute. reflexivity. Qed.
(* ... or no reason at all (S4: Reason not read back) *)
Example bad_no_reason : final_codes (sh_a, map (set_reason FRUnknown) tr_a) = [11; 15; 13]. Proof. vm_compute. reflexivity. Qed.

(* 4. the last End of an action is missing: its plugin is still executing at the release, and the released
      action is not what the trace shows *)
Fixpoint drop_last_end (a : aref) (tr : list event) : list event :=
  match tr with
  | [] => []
  | e :: tr' =>
      let r := drop_last_end a tr' in
      match e with
      | EvEnd a' _ => if aref_eqb a a' && Nat.eqb (length r) (length tr') then r else e :: r
      | _ => e :: r
      end
  end.
Example bad_still_executing :
  final_codes (sh_a, drop_last_end (AChk (SBlock 0) GDeferred 1) tr_a) = [4; 10]. Proof. vm_compute. reflexivity. Qed.

(* 5. the released plan shows an action Running / a Completed sequence with a Failed action *)
Definition set_cell (o : obj) (c : ocell) (e : event) : event :=
  match e with
  | EvRelease (IM cs r) => EvRelease (IM (map (fun oc => if obj_eqb (fst oc) o then (o, c) else oc) cs) r)
  | _ => e
  end.
Example bad_running :
  final_codes (sh_a, map (set_cell (OAct (AChk (SBlock 0) GPre 0)) (OC Running 1 true (TF false true true))) tr_a)
  = [3; 8; 10; 13]. Proof. vm_compute. reflexivity. Qed.
Example bad_sequence :
  final_codes (sh_b, map (set_cell (OSeq 0 0) (OC Completed 0 false (TF false false true))) tr_b)
  = [7; 13]. Proof. vm_compute. reflexivity. Qed.

(* 6. a Completed plan with a Failed block *)
Example bad_plan :
  final_codes (sh_b, map (set_cell (OBlock 0) (OC Failed 0 false (TF false false true))) tr_b)
  = [6; 11; 16; 13]. Proof. vm_compute. reflexivity. Qed.

(* 7. time flags: the plan's end time is not set *)
Example bad_times :
  mon_final_core (sh_b, map (set_cell OPlan (OC Completed 0 false (TF false true true))) tr_b) = true
  /\ mon_times (sh_b, map (set_cell OPlan (OC Completed 0 false (TF false true true))) tr_b) = false.
Proof. vm_compute. auto. Qed.
