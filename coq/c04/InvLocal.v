(* Local preservation lemmas of the C04 product invariant: one action, one check group, one sequence.
   Each lemma says: if the sub-automaton takes the step, the relation between its state, the durable
   cells and the monitor's tallies is kept when cell and tally of the action concerned are updated the
   way the handler (put) and the monitor (tally_start / tally_end / tally_write) update them. *)
From Coq Require Import Lia.
From Coercion.Base Require Import Plan.
From Coercion.Engine Require Import Shape Event Action ChecksRun Seq Block Final PlanSM Auto Accept AutoLemmas.
From Coercion.C04 Require Import MonC04 Views InvDefs.

(* views: f' is f updated at i / the same as f, on indices below n *)
Definition upd_view {A} (n : nat) (f f' : nat -> A) (i : nat) (x : A) : Prop :=
  forall j, j < n -> f' j = if Nat.eqb j i then x else f j.
Definition same_view {A} (n : nat) (f f' : nat -> A) : Prop := forall j, j < n -> f' j = f j.

Lemma upd_view_same {A} n (f f' : nat -> A) i x : upd_view n f f' i x -> i < n -> f' i = x.
Proof. intros H Hi. rewrite (H i Hi). now rewrite Nat.eqb_refl. Qed.
Lemma upd_view_other {A} n (f f' : nat -> A) i j x : upd_view n f f' i x -> j < n -> j <> i -> f' j = f j.
Proof. intros H Hj Hn. rewrite (H j Hj). destruct (Nat.eqb j i) eqn:E; auto. apply Nat.eqb_eq in E. contradiction. Qed.

(* tallies that agree on everything the relations look at (t_owed is accounted for separately) *)
Definition teq (t t' : tally) : Prop :=
  t_n t = t_n t' /\ t_open t = t_open t' /\ t_ok t = t_ok t' /\ t_dur t = t_dur t'.
Definition teq_view (n : nat) (f f' : nat -> tally) : Prop := forall j, j < n -> teq (f j) (f' j).
Lemma teq_refl t : teq t t.
Proof. unfold teq. auto. Qed.
Lemma same_teq_view n f f' : same_view n f f' -> teq_view n f f'.
Proof. intros H j Hj. rewrite (H j Hj). apply teq_refl. Qed.
Lemma tally_is_teq t t' a b c d : teq t t' -> tally_is t a b c d -> tally_is t' a b c d.
Proof. intros (E1 & E2 & E3 & E4) (H1 & H2 & H3 & H4). unfold tally_is. rewrite <- E1, <- E2, <- E3, <- E4. auto. Qed.

(* ================= one action ================= *)
Lemma settled_cell0 : settled cell0.
Proof. unfold settled, cell0. simpl. auto. Qed.

Lemma untouched_quiet c t : untouched_at c t -> quiet_at c t.
Proof. intros [-> H]. split; [apply settled_cell0|exact H]. Qed.
Lemma done_quiet c t : done_at c t -> quiet_at c t.
Proof. now intros [_ H]. Qed.
Lemma failed_quiet c t : failed_at c t -> quiet_at c t.
Proof. now intros [_ H]. Qed.
Lemma terminal_quiet c t : terminal_at c t -> quiet_at c t.
Proof. now intros [_ H]. Qed.

Lemma quiet_teq c t t' : teq t t' -> quiet_at c t -> quiet_at c t'.
Proof. intros E [H1 H2]. split; [auto|]. eapply tally_is_teq; eauto. Qed.
Lemma untouched_teq c t t' : teq t t' -> untouched_at c t -> untouched_at c t'.
Proof. intros E [H1 H2]. split; [auto|]. eapply tally_is_teq; eauto. Qed.
Lemma done_teq c t t' : teq t t' -> done_at c t -> done_at c t'.
Proof. intros E [H1 H2]. split; [auto|]. eapply quiet_teq; eauto. Qed.
Lemma failed_teq c t t' : teq t t' -> failed_at c t -> failed_at c t'.
Proof. intros E [H1 H2]. split; [auto|]. eapply quiet_teq; eauto. Qed.
Lemma terminal_teq c t t' : teq t t' -> terminal_at c t -> terminal_at c t'.
Proof. intros E [H1 H2]. split; [auto|]. eapply quiet_teq; eauto. Qed.
Lemma arel_teq x c t t' : teq t t' -> arel x c t -> arel x c t'.
Proof.
  intro E. destruct x; simpl.
  - apply quiet_teq; auto.
  - intros [H1 H2]. split; [auto|]. eapply tally_is_teq; eauto.
  - intros [H1 H2]. split; [auto|]. eapply tally_is_teq; eauto.
  - intros [H1 H2]. split; [auto|]. eapply tally_is_teq; eauto.
  - intros (H0 & H1 & H2). repeat split; auto; eapply tally_is_teq; eauto.
  - intros (H0 & H1 & H2). repeat split; auto; eapply tally_is_teq; eauto.
Qed.

(* what a repeated write / a late End does to a tally: nothing the relations look at *)
Lemma arel_stutter_teq x c t : arel x c t -> teq t (tally_write t (c_st c) (c_n c) (c_ok c)).
Proof.
  destruct x; simpl.
  - intros [Hs (Hn & Ho & Hk & Hd)]. unfold settled in Hs. unfold teq.
    destruct (c_st c) eqn:E; try contradiction; simpl; repeat split; auto.
  - intros [-> (Hn & Ho & Hk & Hd)]. simpl. destruct k; simpl in *.
    + rewrite Hd. apply teq_refl.
    + rewrite Ho. simpl. unfold teq; simpl. repeat split; auto.
  - intros [-> (Hn & Ho & Hk & Hd)]. simpl. destruct k; simpl in *.
    + rewrite Hd. apply teq_refl.
    + rewrite Ho, Hn. simpl. assert (Nat.eqb k (S k) = false) as -> by (apply Nat.eqb_neq; lia).
      simpl. unfold teq; simpl. repeat split; auto.
  - intros [-> (Hn & Ho & Hk & Hd)]. simpl. destruct k; simpl in *.
    + rewrite Hd. apply teq_refl.
    + rewrite Ho. simpl. unfold teq; simpl. repeat split; auto.
  - intros (Hp & -> & (Hn & Ho & Hk & Hd)). simpl. destruct n; [lia|]. rewrite Ho. simpl.
    unfold teq; simpl. repeat split; auto.
  - intros (Hp & -> & (Hn & Ho & Hk & Hd)). destruct v; simpl; unfold teq; simpl; repeat split; auto.
Qed.
Lemma stutter_owed t st n ok : t_open t = false -> t_owed (tally_write t st n ok) = t_owed t.
Proof.
  intro Ho. unfold tally_write. destruct st; simpl; auto.
  destruct n; simpl.
  - destruct (t_dur t); auto.
  - rewrite Ho. simpl. auto.
Qed.
Lemma late_end_teq t o : t_open t = false -> teq t (tally_end t o).
Proof. intro H. unfold tally_end. rewrite H. unfold teq; simpl. auto. Qed.

Lemma arel_mark x x' c t :
  a_mark x = Some x' -> arel x c t ->
  arel x' (mkc Running 0 false) (tally_write t Running 0 false)
  /\ t_owed (tally_write t Running 0 false) = t_owed t.
Proof.
  destruct x; simpl; intro H; try discriminate. injection H as <-.
  intros [_ (Hn & Ho & Hk & Hd)]. unfold tally_write. rewrite Hd. simpl.
  unfold tally_is; simpl. repeat split; auto.
Qed.

Lemma arel_start x x' c t :
  a_start x c = Some x' -> arel x c t ->
  arel x' c (tally_start t) /\ t_owed (tally_start t) = t_owed t.
Proof.
  destruct x; simpl; intro H; try discriminate.
  destruct (status_eqb (c_st c) Running && Nat.eqb (c_n c) k); [|discriminate]. injection H as <-.
  intros [Hc (Hn & Ho & Hk & Hd)]. simpl. unfold tally_is, tally_start; simpl. repeat split; auto.
Qed.

Lemma arel_end x x' c t o :
  a_end x o = Some x' -> arel x c t ->
  arel x' c (tally_end t o) /\ t_owed (tally_end t o) = t_owed t /\ t_open t = true.
Proof.
  destruct x; simpl; intro H; try discriminate. injection H as <-.
  intros [Hc (Hn & Ho & Hk & Hd)]. unfold tally_end. rewrite Ho. simpl. unfold tally_is; simpl. repeat split; auto.
Qed.

(* an End that no sub-automaton takes: the action is not inside its plugin *)
Lemma arel_not_flying x c t o : a_end x o = None -> arel x c t -> t_open t = false.
Proof.
  destruct x; simpl; intros H R; try discriminate.
  - destruct R as [_ (_ & Ho & _)]; auto.
  - destruct R as [_ (_ & Ho & _)]; auto.
  - destruct R as [_ (_ & Ho & _)]; auto.
  - destruct R as (_ & _ & (_ & Ho & _)); auto.
  - destruct R as (_ & _ & (_ & Ho & _)); auto.
Qed.

Lemma after_attempt_not_idle r k o : after_attempt r k o <> AIdle.
Proof.
  unfold after_attempt. destruct o; try (intro H; discriminate H);
    destruct (S k <=? r); intro H; discriminate H.
Qed.

Lemma a_attempt_not_idle r a k ok a' ow : a_attempt r a k ok = Some (a', ow) -> a' <> AIdle.
Proof.
  unfold a_attempt. destruct a; try discriminate.
  - destruct (Nat.eqb k (S k0) && negb ok); [|discriminate]. intro H.
    assert (E : a' = after_attempt r k0 OOverrun) by congruence. rewrite E. apply after_attempt_not_idle.
  - destruct (Nat.eqb k (S k0) && Bool.eqb ok (outcome_ok o)); [|discriminate]. intro H.
    assert (E : a' = after_attempt r k0 o) by congruence. rewrite E. apply after_attempt_not_idle.
Qed.

Lemma arel_after r k o t :
  tally_is t (S k) false (outcome_ok o) false ->
  arel (after_attempt r k o) (mkc Running (S k) (outcome_ok o)) t.
Proof.
  intro T. unfold after_attempt.
  destruct o; [ | destruct (S k <=? r) | | | destruct (S k <=? r) ];
    simpl in *; repeat split; try apply T; try lia.
Qed.

Lemma arel_attempt r x x' c t n ok owed :
  a_attempt r x n ok = Some (x', owed) -> arel x c t ->
  arel x' (mkc Running n ok) (tally_write t Running n ok)
  /\ t_owed (tally_write t Running n ok) = (if owed then S (t_owed t) else t_owed t).
Proof.
  destruct x; simpl; intro H; try discriminate.
  - (* AFly k: the engine gave up waiting *)
    destruct (Nat.eqb n (S k) && negb ok) eqn:G; [|discriminate]. injection H as <- <-.
    apply andb_true_iff in G as [G1 G2]. apply Nat.eqb_eq in G1. subst n. apply negb_true_iff in G2. subst ok.
    intros [Hc (Hn & Ho & Hk & Hd)]. unfold tally_write. rewrite Ho, Hn, Nat.eqb_refl. simpl.
    split; [|reflexivity].
    apply (arel_after r k OOverrun). unfold tally_is; simpl. auto.
  - (* ARet k o *)
    destruct (Nat.eqb n (S k) && Bool.eqb ok (outcome_ok o)) eqn:G; [|discriminate]. injection H as <- <-.
    apply andb_true_iff in G as [G1 G2]. apply Nat.eqb_eq in G1. subst n. apply Bool.eqb_prop in G2. subst ok.
    intros [Hc (Hn & Ho & Hk & Hd)]. unfold tally_write. rewrite Ho. simpl.
    split; [|reflexivity].
    apply (arel_after r k o). unfold tally_is; simpl. auto.
Qed.

Lemma arel_final x x' c t st n ok :
  a_final x st n ok = Some x' -> arel x c t ->
  arel x' (mkc st n ok) (tally_write t st n ok) /\ t_owed (tally_write t st n ok) = t_owed t
  /\ (st = Completed \/ st = Failed).
Proof.
  destruct x; simpl; intro H; try discriminate.
  destruct (Nat.eqb n0 n && status_eqb st (if v then Completed else Failed) && Bool.eqb ok v) eqn:G; [|discriminate].
  injection H as <-. apply andb_true_iff in G as [G G3]. apply andb_true_iff in G as [G1 G2].
  apply Nat.eqb_eq in G1. apply status_eqb_eq in G2. apply Bool.eqb_prop in G3. subst.
  intros (Hp & Hc & (Hn & Ho & Hk & Hd)).
  destruct v; simpl; unfold tally_is; simpl; repeat split; auto.
Qed.

(* a write that repeats the durable value changes nothing the relation looks at *)
Lemma arel_stutter x c t :
  arel x c t ->
  arel x c (tally_write t (c_st c) (c_n c) (c_ok c))
  /\ t_owed (tally_write t (c_st c) (c_n c) (c_ok c)) = t_owed t.
Proof.
  destruct x; simpl.
  - intros [Hs (Hn & Ho & Hk & Hd)]. unfold settled in Hs. unfold quiet_at, tsettled, settled, tally_is.
    destruct (c_st c) eqn:E; try contradiction; simpl; rewrite ?E; repeat split; tauto.
  - intros [-> (Hn & Ho & Hk & Hd)]. simpl. destruct k; simpl in *.
    + rewrite Hd. simpl. unfold tally_is. repeat split; auto.
    + rewrite Ho. simpl. unfold tally_is; simpl. repeat split; auto.
  - intros [-> (Hn & Ho & Hk & Hd)]. simpl. destruct k; simpl in *.
    + rewrite Hd. simpl. unfold tally_is. repeat split; auto.
    + rewrite Ho, Hn. simpl. assert (Nat.eqb k (S k) = false) as -> by (apply Nat.eqb_neq; lia).
      simpl. unfold tally_is; simpl. repeat split; auto.
  - intros [-> (Hn & Ho & Hk & Hd)]. simpl. destruct k; simpl in *.
    + rewrite Hd. simpl. unfold tally_is. repeat split; auto.
    + rewrite Ho. simpl. unfold tally_is; simpl. repeat split; auto.
  - intros (Hp & -> & (Hn & Ho & Hk & Hd)). simpl. destruct n; [lia|]. rewrite Ho. simpl.
    unfold tally_is; simpl. repeat split; auto.
  - intros (Hp & -> & (Hn & Ho & Hk & Hd)). destruct v; simpl; unfold tally_is; simpl; repeat split; auto.
Qed.

Lemma quiet_stutter c t :
  quiet_at c t ->
  quiet_at c (tally_write t (c_st c) (c_n c) (c_ok c))
  /\ t_owed (tally_write t (c_st c) (c_n c) (c_ok c)) = t_owed t.
Proof. exact (arel_stutter AIdle c t). Qed.

Lemma arel_done_quiet x c t : a_is_done x = true -> arel x c t -> terminal_at c t.
Proof.
  destruct x; simpl; intro H; try discriminate. intros (Hp & -> & (Hn & Ho & Hk & Hd)).
  unfold terminal_at, quiet_at, settled, tsettled, tally_is.
  destruct v; simpl; repeat split; auto; try discriminate.
Qed.

Lemma arel_done_ok x c t : a_is_done x = true -> arel x c t -> (a_done_ok x = true <-> c_st c = Completed).
Proof.
  destruct x; simpl; intro H; try discriminate. intros (Hp & -> & T).
  destruct v; simpl; split; auto; try discriminate.
Qed.

(* ================= one check group ================= *)
Section GroupLemmas.
  Variable rs : list nat.
  Let n := length rs.

  Lemma ginv_ext g gs cf tf cf' tf' :
    same_view n cf cf' -> teq_view n tf tf' -> ginv rs g gs cf tf -> ginv rs g gs cf' tf'.
  Proof.
    intros Hc Ht. destruct g as [r l|r acts]; simpl.
    - destruct r, l as [v|]; try tauto.
      + intros [Hg Ha]. split; [auto|]. intros i Hi. rewrite (Hc i Hi). eapply untouched_teq; eauto.
      + intros (Hg & Ha & Hv). split; [auto|]. split.
        * intros i Hi. rewrite (Hc i Hi). eapply terminal_teq; eauto.
        * rewrite Hv. split; intros H i Hi; [rewrite (Hc i Hi)|rewrite <- (Hc i Hi)]; auto.
    - intros (Hl & Hf & Ha). split; [auto|]. split; [auto|]. intros i x Hx.
      assert (Hi : i < n) by (unfold n; rewrite <- Hl; eapply nth_error_some_lt; eauto).
      rewrite (Hc i Hi). eapply arel_teq; eauto.
  Qed.

  Lemma ginv_idle_quiet r l gs cf tf :
    ginv rs (GIdle r l) gs cf tf -> forall i, i < n -> quiet_at (cf i) (tf i).
  Proof.
    simpl. destruct r, l as [v|]; try tauto.
    - intros [_ Ha] i Hi. apply untouched_quiet. auto.
    - intros (_ & Ha & _) i Hi. apply terminal_quiet. auto.
  Qed.

  (* replacing the state, cell and tally of action i of an open run *)
  Lemma ginv_set r acts gs cf tf cf' tf' i a' c' t' :
    ginv rs (GRun r acts) gs cf tf -> i < length acts -> arel a' c' t' ->
    upd_view n cf cf' i c' -> upd_view n tf tf' i t' ->
    ginv rs (GRun r (upd acts i a')) gs cf' tf'.
  Proof.
    intros (Hl & Hf & Ha) Hi R Hc Ht. simpl. split; [now rewrite upd_length|]. split; [auto|].
    intros j x Hx. assert (Hj : j < n).
    { unfold n. rewrite <- Hl, <- (upd_length acts i a'). eapply nth_error_some_lt; eauto. }
    destruct (Nat.eq_dec j i) as [->|Hn].
    - rewrite nth_upd_same in Hx by auto. injection Hx as <-.
      rewrite (upd_view_same _ _ _ _ _ Hc Hj), (upd_view_same _ _ _ _ _ Ht Hj). exact R.
    - rewrite nth_upd_other in Hx by auto.
      rewrite (upd_view_other _ _ _ _ _ _ Hc Hj Hn), (upd_view_other _ _ _ _ _ _ Ht Hj Hn). eauto.
  Qed.

  (* opening a run: every action is quiet, action i is marked *)
  Lemma ginv_open r gs cf tf cf' tf' i :
    gs <> Failed -> (forall j, j < n -> quiet_at (cf j) (tf j)) -> i < n ->
    upd_view n cf cf' i (mkc Running 0 false) -> upd_view n tf tf' i (tally_write (tf i) Running 0 false) ->
    ginv rs (GRun r (upd (repeat AIdle n) i (ARun 0))) gs cf' tf'.
  Proof.
    intros Hf Hq Hi Hc Ht. simpl. split; [now rewrite upd_length, repeat_length|]. split; [auto|].
    intros j x Hx. assert (Hj : j < n).
    { rewrite <- (repeat_length AIdle n), <- (upd_length (repeat AIdle n) i (ARun 0)). eapply nth_error_some_lt; eauto. }
    destruct (Nat.eq_dec j i) as [->|Hn].
    - rewrite nth_upd_same in Hx by (now rewrite repeat_length). injection Hx as <-.
      rewrite (upd_view_same _ _ _ _ _ Hc Hj), (upd_view_same _ _ _ _ _ Ht Hj).
      exact (proj1 (arel_mark AIdle (ARun 0) (cf i) (tf i) eq_refl (Hq i Hi))).
    - rewrite nth_upd_other in Hx by auto. apply nth_error_repeat_inv in Hx as [-> _].
      rewrite (upd_view_other _ _ _ _ _ _ Hc Hj Hn), (upd_view_other _ _ _ _ _ _ Ht Hj Hn). simpl. auto.
  Qed.

  (* closing a complete run *)
  Lemma ginv_close r acts st gs cf tf g' :
    g_close (GRun r acts) st = Some g' -> ginv rs (GRun r acts) gs cf tf ->
    ginv rs g' st cf tf /\ g_is_idle g' = true.
  Proof.
    simpl. destruct (acts_complete acts && status_eqb st (vs (acts_verdict acts))) eqn:G; [|discriminate].
    intro H. injection H as <-. apply andb_true_iff in G as [G1 G2]. apply status_eqb_eq in G2.
    intros (Hl & Hf & Ha). split; [|reflexivity]. simpl. split; [exact G2|]. split.
    - intros i Hi. destruct (nth_error acts i) as [x|] eqn:E.
      + eapply arel_done_quiet; eauto. eapply forallb_nth; eauto.
      + apply nth_error_None in E. unfold n in Hi. lia.
    - unfold acts_verdict. split.
      + intros Hv i Hi. destruct (nth_error acts i) as [x|] eqn:E.
        * apply (arel_done_ok x (cf i) (tf i)); eauto. eapply forallb_nth; eauto. eapply forallb_nth; eauto.
        * apply nth_error_None in E. unfold n in Hi. lia.
      + intro Hall. apply forallb_forall. intros x Hin. apply In_nth_error in Hin as [i E].
        assert (Hi : i < n) by (unfold n; rewrite <- Hl; eapply nth_error_some_lt; eauto).
        apply (arel_done_ok x (cf i) (tf i)); eauto. eapply forallb_nth; eauto.
  Qed.

  Lemma ginv_settle g gs cf tf g' :
    g_settle g gs = Some g' -> ginv rs g gs cf tf -> ginv rs g' gs cf tf /\ g_is_idle g' = true.
  Proof.
    destruct g as [r l|r acts]; simpl.
    - intro H. injection H as <-. auto.
    - intros H I. exact (ginv_close r acts gs gs cf tf g' H I).
  Qed.

  Lemma ginv_verdict g st gs cf tf g' :
    g_verdict g st = Some g' -> ginv rs g gs cf tf -> ginv rs g' st cf tf /\ g_is_idle g' = true.
  Proof.
    unfold g_verdict. destruct g as [r l|r acts]; [discriminate|].
    intros H I. exact (ginv_close r acts st gs cf tf g' H I).
  Qed.

  Lemma ginv_mark may gs g i g' cf tf cf' tf' :
    g_mark rs may gs g i = Some g' -> ginv rs g gs cf tf ->
    (may = true -> g_dead g = false \/ g_runs g = 0) -> i < n ->
    upd_view n cf cf' i (mkc Running 0 false) -> upd_view n tf tf' i (tally_write (tf i) Running 0 false) ->
    ginv rs g' gs cf' tf'.
  Proof.
    intros H I Hm Hi Hc Ht. unfold g_mark in H. destruct g as [r l|r acts]; simpl in H.
    - destruct (may && (i <? length rs)) eqn:My; [|discriminate]. injection H as <-.
      apply andb_true_iff in My as [My _]. specialize (Hm My).
      eapply ginv_open; eauto; [|exact (ginv_idle_quiet r l gs cf tf I)].
      simpl in I. destruct r, l as [v|]; try contradiction.
      + destruct I as [-> _]. discriminate.
      + destruct I as (-> & _). destruct Hm as [Hm|Hm]; [|discriminate Hm].
        destruct v; simpl in *; discriminate.
    - destruct (nth_error acts i) as [a|] eqn:E; [|discriminate].
      destruct (a_mark a) as [a'|] eqn:M.
      + injection H as <-. simpl. eapply ginv_set; eauto.
        * eapply nth_error_some_lt; eauto.
        * destruct I as (Hl & Hf & Ha). exact (proj1 (arel_mark a a' (cf i) (tf i) M (Ha i a E))).
      + destruct (acts_complete acts && status_eqb gs (vs (acts_verdict acts))) eqn:G; [|discriminate].
        destruct (may && (i <? length rs)); [|discriminate]. injection H as <-.
        assert (C : g_close (GRun r acts) gs = Some (GIdle (S r) (Some (acts_verdict acts)))) by (simpl; now rewrite G).
        destruct (ginv_close r acts gs gs cf tf _ C I) as [I' _].
        eapply ginv_open; eauto; [apply I|exact (ginv_idle_quiet _ _ gs cf tf I')].
  Qed.

  Lemma ginv_start g i g' gs cf tf tf' :
    g_start g i (cf i) = Some g' -> ginv rs g gs cf tf ->
    upd_view n tf tf' i (tally_start (tf i)) -> ginv rs g' gs cf tf'.
  Proof.
    intros H I Ht. destruct g as [r l|r acts]; simpl in H; [discriminate|].
    destruct (nth_error acts i) as [a|] eqn:E; [|discriminate].
    destruct (a_start a (cf i)) as [a'|] eqn:S; [|discriminate].
    destruct (acts_marked acts); [|discriminate]. injection H as <-.
    eapply (ginv_set r acts gs cf tf cf tf' i a' (cf i)); eauto.
    - eapply nth_error_some_lt; eauto.
    - destruct I as (Hl & Hf & Ha). exact (proj1 (arel_start a a' (cf i) (tf i) S (Ha i a E))).
    - intros j Hj. destruct (Nat.eqb j i) eqn:Q; auto. apply Nat.eqb_eq in Q. now subst.
  Qed.

  Lemma ginv_end g i o g' gs cf tf tf' :
    g_end g i o = Some g' -> ginv rs g gs cf tf ->
    upd_view n tf tf' i (tally_end (tf i) o) -> ginv rs g' gs cf tf' /\ t_open (tf i) = true.
  Proof.
    intros H I Ht. unfold g_end in H. destruct g as [r l|r acts]; simpl in H; [discriminate|].
    destruct (nth_error acts i) as [a|] eqn:E; [|discriminate].
    destruct (a_end a o) as [a'|] eqn:S; [|discriminate]. injection H as <-. simpl.
    destruct I as (Hl & Hf & Ha). destruct (arel_end a a' (cf i) (tf i) o S (Ha i a E)) as (R & _ & Ho).
    split; [|exact Ho].
    eapply (ginv_set r acts gs cf tf cf tf' i a' (cf i)); eauto.
    - repeat split; auto.
    - eapply nth_error_some_lt; eauto.
    - intros j Hj. destruct (Nat.eqb j i) eqn:Q; auto. apply Nat.eqb_eq in Q. now subst.
  Qed.

  (* an End the group does not take: its action i is not inside the plugin *)
  Lemma ginv_not_flying g i o gs cf tf :
    g_end g i o = None -> ginv rs g gs cf tf -> i < n -> t_open (tf i) = false.
  Proof.
    intros H I Hi. unfold g_end in H. destruct g as [r l|r acts]; simpl in H.
    - destruct (ginv_idle_quiet r l gs cf tf I i Hi) as [_ (_ & Ho & _)]. exact Ho.
    - destruct I as (Hl & Hf & Ha). destruct (nth_error acts i) as [a|] eqn:E.
      + destruct (a_end a o) eqn:S; [discriminate|]. eapply arel_not_flying; eauto.
      + apply nth_error_None in E. unfold n in Hi. lia.
  Qed.

  Lemma ginv_attempt g i k ok g' owed gs cf tf cf' tf' :
    g_attempt rs g i k ok = Some (g', owed) -> ginv rs g gs cf tf ->
    upd_view n cf cf' i (mkc Running k ok) -> upd_view n tf tf' i (tally_write (tf i) Running k ok) ->
    ginv rs g' gs cf' tf'
    /\ t_owed (tally_write (tf i) Running k ok) = (if owed then S (t_owed (tf i)) else t_owed (tf i)).
  Proof.
    intros H I Hc Ht. unfold g_attempt in H. destruct g as [r l|r acts]; simpl in H; [discriminate|].
    destruct (nth_error acts i) as [a|] eqn:E; [|discriminate].
    destruct (nth_error rs i) as [rt|] eqn:Er; [|discriminate].
    destruct (a_attempt rt a k ok) as [[a' ow]|] eqn:S; [|discriminate]. injection H as <- <-. simpl.
    destruct I as (Hl & Hf & Ha). destruct (arel_attempt rt a a' (cf i) (tf i) k ok ow S (Ha i a E)) as [R Ho].
    split; [|exact Ho].
    eapply (ginv_set r acts gs cf tf cf' tf' i a'); eauto.
    - repeat split; auto.
    - eapply nth_error_some_lt; eauto.
  Qed.

  Lemma ginv_final g i st k ok g' gs cf tf cf' tf' :
    g_final g i st k ok = Some g' -> ginv rs g gs cf tf ->
    upd_view n cf cf' i (mkc st k ok) -> upd_view n tf tf' i (tally_write (tf i) st k ok) ->
    ginv rs g' gs cf' tf' /\ t_owed (tally_write (tf i) st k ok) = t_owed (tf i).
  Proof.
    intros H I Hc Ht. unfold g_final in H. destruct g as [r l|r acts]; simpl in H; [discriminate|].
    destruct (nth_error acts i) as [a|] eqn:E; [|discriminate].
    destruct (a_final a st k ok) as [a'|] eqn:S; [|discriminate]. injection H as <-. simpl.
    destruct I as (Hl & Hf & Ha). destruct (arel_final a a' (cf i) (tf i) st k ok S (Ha i a E)) as (R & Ho & _).
    split; [|exact Ho].
    eapply (ginv_set r acts gs cf tf cf' tf' i a'); eauto.
    - repeat split; auto.
    - eapply nth_error_some_lt; eauto.
  Qed.

  (* every action of the group, whatever the group does: cell and tally are related by SOME action state *)
  Lemma ginv_arel g gs cf tf i :
    ginv rs g gs cf tf -> i < n -> exists x, arel x (cf i) (tf i).
  Proof.
    intros I Hi. destruct g as [r l|r acts].
    - exists AIdle. exact (ginv_idle_quiet r l gs cf tf I i Hi).
    - destruct I as (Hl & Hf & Ha). destruct (nth_error acts i) as [a|] eqn:E.
      + exists a. eauto.
      + apply nth_error_None in E. unfold n in Hi. lia.
  Qed.
End GroupLemmas.

(* ================= one sequence ================= *)
Section SeqLemmas.
  Variable rs : list nat.
  Let n := length rs.

  Lemma qfinal_ext v cf tf cf' tf' :
    same_view n cf cf' -> teq_view n tf tf' -> qfinal rs v cf tf -> qfinal rs v cf' tf'.
  Proof.
    intros Hc Ht. destruct v; simpl.
    - intros H i Hi. rewrite (Hc i Hi). eapply done_teq; eauto.
    - intros (j & Hj & H1 & H2 & H3). exists j. split; [auto|]. split; [|split].
      + intros i Hi. assert (i < n) by (unfold n; lia). rewrite (Hc i H). eapply done_teq; eauto.
      + rewrite (Hc j Hj). eapply failed_teq; eauto.
      + intros i Hi Hi'. rewrite (Hc i Hi'). eapply untouched_teq; eauto.
  Qed.

  Lemma qinv_ext q qs cf tf cf' tf' :
    same_view n cf cf' -> teq_view n tf tf' -> qinv rs q qs cf tf -> qinv rs q qs cf' tf'.
  Proof.
    intros Hc Ht. destruct q as [|j x|v|v]; simpl.
    - intros [Hq Ha]. split; [auto|]. intros i Hi. rewrite (Hc i Hi). eapply untouched_teq; eauto.
    - intros (Hq & H1 & H2 & H3 & H4 & H5). split; [auto|]. split; [|split; [|split; [|split]]]; auto.
      + intros i Hi. assert (L : i < n) by (unfold n; lia). rewrite (Hc i L). eapply done_teq; eauto.
      + intros i Hi Hi'. rewrite (Hc i Hi'). eapply untouched_teq; eauto.
      + intro Hj. destruct (H3 Hj) as [R U]. rewrite (Hc j Hj). split.
        * eapply arel_teq; eauto.
        * intro E. eapply untouched_teq; eauto.
    - intros [Hq F]. split; [auto|]. eapply qfinal_ext; eauto.
    - intros [Hq F]. split; [auto|]. eapply qfinal_ext; eauto.
  Qed.

  Lemma qfinal_quiet v cf tf : qfinal rs v cf tf -> forall i, i < n -> quiet_at (cf i) (tf i).
  Proof.
    destruct v; simpl.
    - intros H i Hi. apply done_quiet. auto.
    - intros (j & Hj & H1 & H2 & H3) i Hi.
      destruct (lt_eq_lt_dec i j) as [[L| ->]|L].
      + apply done_quiet. auto.
      + apply failed_quiet. auto.
      + apply untouched_quiet. auto.
  Qed.

  (* every action of the sequence is related to its cell and tally by SOME action state *)
  Lemma qinv_arel q qs cf tf i : qinv rs q qs cf tf -> i < n -> exists x, arel x (cf i) (tf i).
  Proof.
    intros I Hi. destruct q as [|j x|v|v]; simpl in I.
    - exists AIdle. apply untouched_quiet. apply I. auto.
    - destruct I as (Hq & H1 & H2 & H3 & H4 & H5).
      destruct (lt_eq_lt_dec i j) as [[L| ->]|L].
      + exists AIdle. apply done_quiet. auto.
      + exists x. apply H3. auto.
      + exists AIdle. apply untouched_quiet. auto.
    - exists AIdle. eapply qfinal_quiet; eauto. apply I.
    - exists AIdle. eapply qfinal_quiet; eauto. apply I.
  Qed.

  Lemma qinv_quiet q qs cf tf :
    qinv rs q qs cf tf -> s_quiet q = true -> forall i, i < n -> quiet_at (cf i) (tf i).
  Proof.
    destruct q as [|j x|v|v]; simpl; intros I Q i Hi; try discriminate.
    - apply untouched_quiet. apply I. auto.
    - eapply qfinal_quiet; eauto. apply I.
  Qed.

  Lemma qinv_launch q q' qs cf tf : s_launch q = Some q' -> qinv rs q qs cf tf -> qinv rs q' Running cf tf.
  Proof.
    destruct q; simpl; intro H; try discriminate. injection H as <-. intros [Hq Ha]. simpl.
    split; [auto|]. split; [intros; lia|]. split; [intros i Hi Hi'; auto|].
    split; [intro Hj; split; [apply untouched_quiet; auto|auto]|]. split; [lia|auto].
  Qed.

  Lemma qinv_in_range j a qs cf tf : qinv rs (SRun j a) qs cf tf -> a <> AIdle -> j < n.
  Proof.
    simpl. intros (_ & _ & _ & _ & H4 & H5) Ha. destruct (Nat.eq_dec j (length rs)) as [E|E].
    - elim Ha. auto.
    - unfold n. lia.
  Qed.

  Lemma qinv_set j a a' qs cf tf cf' tf' c' t' :
    qinv rs (SRun j a) qs cf tf -> j < n -> arel a' c' t' -> a' <> AIdle ->
    upd_view n cf cf' j c' -> upd_view n tf tf' j t' -> qinv rs (SRun j a') qs cf' tf'.
  Proof.
    intros (Hq & H1 & H2 & H3 & H4 & H5) Hj R Ha Hc Ht. simpl.
    split; [auto|]. split; [|split; [|split; [|split]]].
    - intros i Hi. assert (L : i < n) by lia.
      rewrite (upd_view_other _ _ _ _ _ _ Hc L), (upd_view_other _ _ _ _ _ _ Ht L) by lia. auto.
    - intros i Hi Hi'.
      rewrite (upd_view_other _ _ _ _ _ _ Hc Hi'), (upd_view_other _ _ _ _ _ _ Ht Hi') by lia. auto.
    - intros _. rewrite (upd_view_same _ _ _ _ _ Hc Hj), (upd_view_same _ _ _ _ _ Ht Hj). split; [auto|].
      intro E. contradiction.
    - auto.
    - intro E. unfold n in Hj. lia.
  Qed.

  Lemma qinv_mark q i q' qs cf tf cf' tf' :
    s_mark q i = Some q' -> qinv rs q qs cf tf -> i < n ->
    upd_view n cf cf' i (mkc Running 0 false) -> upd_view n tf tf' i (tally_write (tf i) Running 0 false) ->
    qinv rs q' qs cf' tf'.
  Proof.
    intros H I Hi Hc Ht. destruct q as [|j a|v|v]; simpl in H; try discriminate.
    destruct (Nat.eqb i j) eqn:E; [|discriminate]. apply Nat.eqb_eq in E. subst j.
    destruct (a_mark a) as [a'|] eqn:M; [|discriminate]. injection H as <-.
    assert (R : arel a (cf i) (tf i)) by (apply I; auto).
    eapply qinv_set; eauto.
    - exact (proj1 (arel_mark a a' (cf i) (tf i) M R)).
    - destruct a; simpl in M; try discriminate. injection M as <-. discriminate.
  Qed.

  Lemma view_refl {A} (f : nat -> A) i : upd_view n f f i (f i).
  Proof. intros j Hj. destruct (Nat.eqb j i) eqn:Q; auto. apply Nat.eqb_eq in Q. now subst. Qed.

  Lemma qinv_start q i q' qs cf tf tf' :
    s_start q i (cf i) = Some q' -> qinv rs q qs cf tf ->
    upd_view n tf tf' i (tally_start (tf i)) -> qinv rs q' qs cf tf'.
  Proof.
    intros H I Ht. destruct q as [|j a|v|v]; simpl in H; try discriminate.
    destruct (Nat.eqb i j) eqn:E; [|discriminate]. apply Nat.eqb_eq in E. subst j.
    destruct (a_start a (cf i)) as [a'|] eqn:HS; [|discriminate]. injection H as <-.
    assert (Ha : a <> AIdle) by (intros ->; discriminate).
    assert (Hi : i < n) by (eapply qinv_in_range; eauto).
    assert (R : arel a (cf i) (tf i)) by (apply I; auto).
    eapply (qinv_set i a a' qs cf tf cf tf' (cf i)); eauto.
    - exact (proj1 (arel_start a a' (cf i) (tf i) HS R)).
    - destruct a; simpl in HS; try discriminate.
      destruct (status_eqb (c_st (cf i)) Running && Nat.eqb (c_n (cf i)) k); [|discriminate]. injection HS as <-. discriminate.
    - apply view_refl.
  Qed.

  Lemma qinv_end q i o q' qs cf tf tf' :
    s_end q i o = Some q' -> qinv rs q qs cf tf ->
    upd_view n tf tf' i (tally_end (tf i) o) -> qinv rs q' qs cf tf' /\ t_open (tf i) = true.
  Proof.
    intros H I Ht. destruct q as [|j a|v|v]; simpl in H; try discriminate.
    destruct (Nat.eqb i j) eqn:E; [|discriminate]. apply Nat.eqb_eq in E. subst j.
    destruct (a_end a o) as [a'|] eqn:HS; [|discriminate]. injection H as <-.
    assert (Ha : a <> AIdle) by (intros ->; discriminate).
    assert (Hi : i < n) by (eapply qinv_in_range; eauto).
    assert (R : arel a (cf i) (tf i)) by (apply I; auto).
    destruct (arel_end a a' (cf i) (tf i) o HS R) as (R' & _ & Ho). split; [|exact Ho].
    eapply (qinv_set i a a' qs cf tf cf tf' (cf i)); eauto.
    - destruct a; simpl in HS; try discriminate. injection HS as <-. discriminate.
    - apply view_refl.
  Qed.

  Lemma qinv_not_flying q i o qs cf tf :
    s_end q i o = None -> qinv rs q qs cf tf -> i < n -> t_open (tf i) = false.
  Proof.
    intros H I Hi.
    assert (Q : forall c t, quiet_at c t -> t_open t = false) by (intros c t [_ (_ & Ho & _)]; exact Ho).
    destruct q as [|j a|v|v]; simpl in H, I.
    - eapply Q. apply untouched_quiet. apply I. auto.
    - destruct I as (Hq & H1 & H2 & H3 & H4 & H5).
      destruct (lt_eq_lt_dec i j) as [[L|E]|L].
      + eapply Q. apply done_quiet. auto.
      + subst j. rewrite Nat.eqb_refl in H. destruct (a_end a o) eqn:HS; [discriminate|].
        eapply arel_not_flying; eauto. apply H3. auto.
      + eapply Q. apply untouched_quiet. auto.
    - eapply Q. eapply qfinal_quiet; eauto. apply I.
    - eapply Q. eapply qfinal_quiet; eauto. apply I.
  Qed.

  Lemma qinv_attempt q i k ok q' owed qs cf tf cf' tf' :
    s_attempt rs q i k ok = Some (q', owed) -> qinv rs q qs cf tf ->
    upd_view n cf cf' i (mkc Running k ok) -> upd_view n tf tf' i (tally_write (tf i) Running k ok) ->
    qinv rs q' qs cf' tf'
    /\ t_owed (tally_write (tf i) Running k ok) = (if owed then S (t_owed (tf i)) else t_owed (tf i)).
  Proof.
    intros H I Hc Ht. unfold s_attempt in H. destruct q as [|j a|v|v]; try discriminate.
    destruct (nth_error rs i) as [r|] eqn:Er; [|discriminate].
    destruct (Nat.eqb i j) eqn:E; [|discriminate]. apply Nat.eqb_eq in E. subst j.
    destruct (a_attempt r a k ok) as [[a' ow]|] eqn:HS; [|discriminate]. injection H as <- <-.
    assert (Hi : i < n) by (eapply nth_error_some_lt; eauto).
    assert (R : arel a (cf i) (tf i)) by (apply I; auto).
    destruct (arel_attempt r a a' (cf i) (tf i) k ok ow HS R) as [R' Ho]. split; [|exact Ho].
    eapply qinv_set; eauto.
    eapply a_attempt_not_idle; eauto.
  Qed.

  Lemma qinv_final q i st k ok q' qs cf tf cf' tf' :
    s_final rs q i st k ok = Some q' -> qinv rs q qs cf tf ->
    upd_view n cf cf' i (mkc st k ok) -> upd_view n tf tf' i (tally_write (tf i) st k ok) ->
    qinv rs q' qs cf' tf' /\ t_owed (tally_write (tf i) st k ok) = t_owed (tf i).
  Proof.
    intros H I Hc Ht. destruct q as [|j a|v|v]; simpl in H; try discriminate.
    destruct (Nat.eqb i j) eqn:E; [|discriminate]. apply Nat.eqb_eq in E. subst j.
    destruct (a_final a st k ok) as [a'|] eqn:HS; [|discriminate].
    assert (Ha : a <> AIdle) by (intros ->; discriminate).
    assert (Hi : i < n) by (eapply qinv_in_range; eauto).
    assert (R : arel a (cf i) (tf i)) by (apply I; auto).
    destruct (arel_final a a' (cf i) (tf i) st k ok HS R) as (R' & Ho & _). split; [|exact Ho].
    destruct I as (Hq & H1 & H2 & H3 & H4 & H5).
    (* the finished action, seen through the new views *)
    assert (Hnew : forall v m, a' = ADone v m ->
              quiet_at (cf' i) (tf' i) /\ c_st (cf' i) = vs v).
    { intros v m ->. rewrite (upd_view_same _ _ _ _ _ Hc Hi), (upd_view_same _ _ _ _ _ Ht Hi).
      destruct R' as (Hp & Ec & (T1 & T2 & T3 & T4)). rewrite Ec. unfold quiet_at, settled, tsettled, tally_is.
      destruct v; simpl in *; repeat split; auto. }
    assert (Hbefore : forall i', i' < i -> done_at (cf' i') (tf' i')).
    { intros i' L. assert (L' : i' < n) by lia.
      rewrite (upd_view_other _ _ _ _ _ _ Hc L'), (upd_view_other _ _ _ _ _ _ Ht L') by lia. auto. }
    assert (Hafter : forall i', i < i' -> i' < n -> untouched_at (cf' i') (tf' i')).
    { intros i' L L'.
      rewrite (upd_view_other _ _ _ _ _ _ Hc L'), (upd_view_other _ _ _ _ _ _ Ht L') by lia. auto. }
    destruct a' as [| | | | |v m]; try discriminate. destruct (Hnew v m eq_refl) as [Qn Sn].
    destruct v.
    - destruct (S i <? length rs) eqn:L; injection H as <-; simpl.
      + apply Nat.ltb_lt in L. split; [auto|]. split; [|split; [|split; [|split]]].
        * intros i' Hi'. destruct (Nat.eq_dec i' i) as [->|Hn]; [split; auto|apply Hbefore; lia].
        * intros i' Hi' Hi''. apply Hafter; auto. lia.
        * intros _. assert (U : untouched_at (cf' (S i)) (tf' (S i))) by (apply Hafter; unfold n; lia).
          split; [apply untouched_quiet; exact U|intros _; exact U].
        * lia.
        * intro E. lia.
      + apply Nat.ltb_ge in L. split; [auto|]. intros i' Hi'.
        destruct (lt_eq_lt_dec i' i) as [[L'| ->]|L']; [apply Hbefore; auto|split; auto|unfold n in Hi'; lia].
    - injection H as <-. simpl. split; [auto|]. exists i. split; [auto|]. split; [auto|]. split; [split; auto|auto].
  Qed.

  Lemma qinv_terminal q st q' qs cf tf :
    s_terminal q st = Some q' -> qinv rs q qs cf tf -> qinv rs q' st cf tf /\ s_quiet q' = true.
  Proof.
    destruct q as [|j a|v|v]; simpl; intro H; try discriminate.
    destruct (status_eqb st (if v then Completed else Failed)) eqn:E; [|discriminate]. injection H as <-.
    apply status_eqb_eq in E. intros [_ F]. split; [|reflexivity]. simpl. split; [|exact F].
    subst st. destruct v; reflexivity.
  Qed.
End SeqLemmas.
