(* Small generic facts used by the C04 invariant proofs: the monitor's tally map, pointwise function
   update, the multiset view of the automaton's late list, which block / plan group an object belongs to. *)
From Coq Require Import Lia.
From Coercion.Base Require Import Plan.
From Coercion.Engine Require Import Shape Event Action ChecksRun Seq Block Final PlanSM Auto Accept AutoLemmas.
From Coercion.C04 Require Import MonC04.

(* ---- boolean equalities ---- *)
Lemma aref_eqb_refl a : aref_eqb a a = true.
Proof. now apply aref_eqb_eq. Qed.
Lemma aref_eqb_neq a b : a <> b -> aref_eqb a b = false.
Proof. intro H. destruct (aref_eqb a b) eqn:E; auto. apply aref_eqb_eq in E. contradiction. Qed.
Lemma obj_eqb_refl o : obj_eqb o o = true.
Proof. now apply obj_eqb_eq. Qed.
Lemma obj_eqb_neq a b : a <> b -> obj_eqb a b = false.
Proof. intro H. destruct (obj_eqb a b) eqn:E; auto. apply obj_eqb_eq in E. contradiction. Qed.

(* ---- the tally map ---- *)
Lemma tlook_tput_same m a t : tlook (tput m a t) a = t.
Proof. unfold tput. simpl. now rewrite aref_eqb_refl. Qed.
Lemma tlook_tput_other m a a' t : a <> a' -> tlook (tput m a t) a' = tlook m a'.
Proof. intro H. unfold tput. simpl. now rewrite (aref_eqb_neq _ _ H). Qed.

(* ---- the image ---- *)
Definition mkc (st : status) (n : nat) (ok : bool) : cell := {| c_st := st; c_n := n; c_ok := ok |}.
Lemma ist_iset_same im o c : ist (iset im o c) o = c_st c.
Proof. unfold ist. now rewrite iget_iset_same. Qed.
Lemma ist_iset_other im o o' c : o <> o' -> ist (iset im o c) o' = ist im o'.
Proof. intro H. unfold ist. now rewrite iget_iset_other. Qed.
Lemma cell_eqb_eq a b : cell_eqb a b = true -> a = b.
Proof.
  unfold cell_eqb. intro H. apply andb_true_iff in H as [H H3]. apply andb_true_iff in H as [H1 H2].
  apply status_eqb_eq in H1. apply Nat.eqb_eq in H2. apply Bool.eqb_prop in H3.
  destruct a, b; simpl in *; congruence.
Qed.

(* ---- the late list as a multiset ---- *)
Fixpoint lcount (a : aref) (l : list aref) : nat :=
  match l with [] => 0 | x :: l' => (if aref_eqb x a then 1 else 0) + lcount a l' end.

Lemma remove_one_count a l l' :
  remove_one a l = Some l' -> forall b, lcount b l = (if aref_eqb a b then 1 else 0) + lcount b l'.
Proof.
  revert l'. induction l as [|x l IH]; simpl; intros l' H b; [discriminate|].
  destruct (aref_eqb x a) eqn:E.
  - injection H as <-. apply aref_eqb_eq in E. subst x. reflexivity.
  - destruct (remove_one a l) as [r|] eqn:R; [|discriminate]. injection H as <-.
    simpl. rewrite (IH r eq_refl b). lia.
Qed.

Lemma remove_one_some a l : 0 < lcount a l -> exists l', remove_one a l = Some l'.
Proof.
  induction l as [|x l IH]; simpl; intro H; [lia|].
  destruct (aref_eqb x a) eqn:E; [eauto|].
  destruct IH as (l' & ->); [lia|]. eauto.
Qed.

Lemma owes_count l a : owes l a = true <-> 0 < lcount a l.
Proof.
  unfold owes. induction l as [|x l IH]; simpl.
  - split; [discriminate|lia].
  - destruct (aref_eqb a x) eqn:E.
    + apply aref_eqb_eq in E. subst x. rewrite aref_eqb_refl. simpl. split; [lia|auto].
    + assert (aref_eqb x a = false) as ->.
      { destruct (aref_eqb x a) eqn:E'; auto. apply aref_eqb_eq in E'. subst. now rewrite aref_eqb_refl in E. }
      simpl. exact IH.
Qed.

(* ---- which component of the plan an object / an action belongs to ---- *)
Inductive comp := CPlan | CPG (g : grp) | CB (b : nat).

Definition aref_comp (a : aref) : comp :=
  match a with
  | AChk SPlan g _ => CPG g
  | AChk (SBlock b) _ _ => CB b
  | ASeq b _ _ => CB b
  end.
Definition obj_comp (o : obj) : comp :=
  match o with
  | OPlan => CPlan
  | OChecks SPlan g => CPG g
  | OChecks (SBlock b) _ => CB b
  | OBlock b => CB b
  | OSeq b _ => CB b
  | OAct a => aref_comp a
  end.

(* pointwise update of a view *)
Definition fupd {A} (f : nat -> A) (i : nat) (x : A) : nat -> A := fun j => if Nat.eqb j i then x else f j.
Lemma fupd_same {A} (f : nat -> A) i x : fupd f i x i = x.
Proof. unfold fupd. now rewrite Nat.eqb_refl. Qed.
Lemma fupd_other {A} (f : nat -> A) i j x : j <> i -> fupd f i x j = f j.
Proof. intro H. unfold fupd. destruct (Nat.eqb j i) eqn:E; auto. apply Nat.eqb_eq in E. contradiction. Qed.

(* nth_error / upd / repeat *)
Lemma nth_error_repeat {A} (x : A) n i : i < n -> nth_error (repeat x n) i = Some x.
Proof. revert i; induction n as [|n IH]; intros [|i] H; simpl; try lia; auto. apply IH. lia. Qed.
Lemma nth_error_repeat_inv {A} (x y : A) n i : nth_error (repeat x n) i = Some y -> y = x /\ i < n.
Proof.
  revert i; induction n as [|n IH]; intros [|i] H; simpl in *; try discriminate.
  - injection H as <-. split; [auto|lia].
  - destruct (IH _ H). split; [auto|lia].
Qed.
Lemma nth_upd {A} (l : list A) i j x :
  nth_error (upd l i x) j = if Nat.eqb j i then (if j <? length l then Some x else None) else nth_error l j.
Proof.
  destruct (Nat.eqb j i) eqn:E.
  - apply Nat.eqb_eq in E. subst j. destruct (i <? length l) eqn:L.
    + apply Nat.ltb_lt in L. now apply nth_upd_same.
    + apply Nat.ltb_ge in L. apply nth_error_None. now rewrite upd_length.
  - apply Nat.eqb_neq in E. apply nth_upd_other. auto.
Qed.
