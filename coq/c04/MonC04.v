(* C04 - "Wait returns a terminal, quiescent, consistent and truthful final plan".

   mon_final is the formal statement of the property over ONE observed trace of one plan instance
   (harness/engine: plugin entry/exit, durable writes after Update* returned, polls, the return of
   Workstream.Wait with the plan it returned, the re-read 30 ms later).  It is written without any
   reference to the automaton of coq/engine (Auto.v): it uses only the shape of the plan, the events,
   and the two images the trace carries.  Model file: no proofs.

   BEFORE the release the monitor only tallies, per action, what the trace shows of its plugin:
     t_n     invocations (EvStart) since the action was last marked (Running, 0 attempts) - a continuous
             check is reset and re-run, so only its LAST run is what the final plan describes;
     t_open  an invocation is inside the plugin;
     t_ok    the last invocation returned without error;
     t_dur   the action's last write was (Running, 0 attempts) (so that repeating it is not a new mark);
     t_owed  invocations the engine stopped waiting for: it recorded the attempt as failed while the
             plugin was still inside (deadline overrun; DESIGN.md section 11: the plugin contract puts
             these outside quiescence).  Their End is owed and may arrive at any time, even after Wait.

   AT  EvRelease fin  (Wait returned the plan fin) every clause of the property is evaluated:
     2  the plan's status in fin is Completed or Failed                                   (terminal)
     3  nothing in fin is Running                                                          (terminal)
     4  no plugin is executing: no EvStart without its EvEnd, overrun-cancelled ones apart (quiescent)
     6  a Completed plan was bypassed as a whole, or has only Completed blocks and no Failed
        pre / continuous / post / deferred group                                           (consistent)
     7  a Completed sequence has only Completed actions; a Failed sequence has exactly one Failed
        action, every earlier one Completed, every later one NotStarted with 0 attempts    (consistent)
     8  an action is Completed exactly when it has attempts and the last one has no error  (consistent)
     10 every action's status, attempt count and last-attempt verdict in fin are what the trace shows
        ran: n = t_n, lastok = t_ok, status = NotStarted / Completed / Failed accordingly  (truthful)
     11 the failure reason names the first stage, in the order pre, continuous, block, post, deferred,
        whose failure the trace shows (a check group failed = one of its actions' last invocation of
        its last run returned an error; a block failed = fin shows it Failed); it is FRUnknown exactly
        when the plan is Completed; a plan bypassed as a whole has no failing stage         (reason)
     17 each of the plan's check groups is Failed in fin exactly when the trace shows it failing (truthful)
     14 fin describes every object of the plan
     15 the status and reason of the engine's last plan write are those of fin (what Wait returns is what
        the engine decided)                                      16 ... and that reason names the failing stage
   AFTER the release:
     12 nothing happens any more except re-reads and the owed Ends of overrun-cancelled invocations
     13 a re-read equals fin (status, attempts, last verdict of every object; the reason)  (never changes)
     1  (the trace has no EvRelease at all: Wait never returned - the release obligation)
   Time flags (mon_times, evaluated on the real engine only; the automaton carries no clock):
     9  start <= end wherever both are set; a Completed / Failed object has both set; a NotStarted
        object has neither; the re-read shows the same time flags as fin.

   Clauses of the property text that are left to other checks: whether a BLOCK's status is the right
   one for what its sequences and checks did (C03), retry counts against the retry budget (C05). *)
From Coercion.Base Require Import Plan.
From Coercion.Engine Require Import Shape Event Accept.

(* ---- the tally ---- *)
Record tally := { t_n : nat; t_open : bool; t_ok : bool; t_owed : nat;
                  t_dur : bool }.   (* the last write of the action was (Running, 0 attempts) *)
Definition tally0 : tally := {| t_n := 0; t_open := false; t_ok := false; t_owed := 0; t_dur := false |}.

Definition tmap := list (aref * tally).        (* newest first; absent = tally0 *)
Fixpoint tlook (m : tmap) (a : aref) : tally :=
  match m with
  | [] => tally0
  | (a', t) :: m' => if aref_eqb a' a then t else tlook m' a
  end.
Definition tput (m : tmap) (a : aref) (t : tally) : tmap := (a, t) :: m.

(* a write of action a *)
Definition tally_write (t : tally) (st : status) (n : nat) (lastok : bool) : tally :=
  match st, n with
  | Running, 0 =>
      (* marked: the durable value BECOMES (Running, 0): a (new) run of this action begins.
         Repeating that write is no new mark. *)
      if t_dur t then t
      else {| t_n := 0; t_open := t_open t; t_ok := false; t_owed := t_owed t; t_dur := true |}
  | Running, S _ =>
      if t_open t && Nat.eqb n (t_n t) && negb lastok
      then (* the engine recorded, as failed, exactly the attempt that is still inside the plugin:
              it gave up waiting for it *)
           {| t_n := t_n t; t_open := false; t_ok := false; t_owed := S (t_owed t); t_dur := false |}
      else {| t_n := t_n t; t_open := t_open t; t_ok := t_ok t; t_owed := t_owed t; t_dur := false |}
  | _, _ => {| t_n := t_n t; t_open := t_open t; t_ok := t_ok t; t_owed := t_owed t; t_dur := false |}
  end.

(* the plugin of action a is entered / returns with outcome o *)
Definition tally_start (t : tally) : tally :=
  {| t_n := S (t_n t); t_open := true; t_ok := false; t_owed := t_owed t; t_dur := t_dur t |}.
Definition tally_end (t : tally) (o : outcome) : tally :=
  if t_open t
  then {| t_n := t_n t; t_open := false; t_ok := outcome_ok o; t_owed := t_owed t; t_dur := t_dur t |}
  else (* the End of an invocation the engine had given up waiting for *)
       {| t_n := t_n t; t_open := false; t_ok := t_ok t; t_owed := pred (t_owed t); t_dur := t_dur t |}.

Definition tally_step (m : tmap) (e : event) : tmap :=
  match e with
  | EvStart a => tput m a (tally_start (tlook m a))
  | EvEnd a o => tput m a (tally_end (tlook m a) o)
  | EvWrite (OAct a) st n lastok _ => tput m a (tally_write (tlook m a) st n lastok)
  | _ => m
  end.

(* the monitor's state before the release: the tallies, and the status and reason of the last plan write *)
Record mstate := { m_t : tmap; m_pw : status * reason }.
Definition mstate0 : mstate := {| m_t := []; m_pw := (NotStarted, FRUnknown) |}.
Definition mon_step (m : mstate) (e : event) : mstate :=
  {| m_t := tally_step (m_t m) e;
     m_pw := match e with EvWrite OPlan st _ _ r => (st, r) | _ => m_pw m end |}.

(* ---- reading the released plan ---- *)
Definition cell_missing : ocell := OC Stopped 0 false (TF true true true).
Definition fcell (fin : image) (o : obj) : ocell :=
  match im_lookup fin o with Some c => c | None => cell_missing end.
Definition fst_ (fin : image) (o : obj) : status := oc_st (fcell fin o).
Definition is_st (fin : image) (o : obj) (s : status) : bool := status_eqb (fst_ fin o) s.

(* 8 *)
Definition action_consistent (c : ocell) : bool :=
  Bool.eqb (status_eqb (oc_st c) Completed) ((0 <? oc_n c) && oc_ok c).

(* 10 *)
Definition shown_status (t : tally) : status :=
  if Nat.eqb (t_n t) 0 then NotStarted else if t_ok t then Completed else Failed.
Definition truthful_cell (t : tally) (c : ocell) : bool :=
  Nat.eqb (oc_n c) (t_n t) && Bool.eqb (oc_ok c) (t_ok t) && status_eqb (oc_st c) (shown_status t).

(* 7 *)
Definition untouched (c : ocell) : bool := status_eqb (oc_st c) NotStarted && Nat.eqb (oc_n c) 0.
Fixpoint failed_pattern (cs : list ocell) : bool :=
  match cs with
  | [] => false
  | c :: cs' =>
      match oc_st c with
      | Completed => failed_pattern cs'
      | Failed => forallb untouched cs'
      | _ => false
      end
  end.
Definition seq_cells (fin : image) (b q n : nat) : list ocell :=
  map (fun i => fcell fin (OAct (ASeq b q i))) (seq 0 n).
Definition seq_consistent (fin : image) (b q n : nat) : bool :=
  match fst_ fin (OSeq b q) with
  | Completed => forallb (fun c => status_eqb (oc_st c) Completed) (seq_cells fin b q n)
  | Failed => failed_pattern (seq_cells fin b q n)
  | _ => true
  end.

(* 6 *)
Definition grp_present (sh : shape) (g : grp) : bool :=
  match group_of sh SPlan g with Some _ => true | None => false end.
Definition blocks_completed (sh : shape) (fin : image) : bool :=
  forallb (fun b => is_st fin (OBlock b) Completed) (seq 0 (length (sh_blocks sh))).
Definition plan_consistent (sh : shape) (fin : image) : bool :=
  if is_st fin OPlan Completed then
    (grp_present sh GBypass && is_st fin (OChecks SPlan GBypass) Completed)
    || (blocks_completed sh fin
        && forallb (fun g => negb (grp_present sh g && is_st fin (OChecks SPlan g) Failed))
                   [GPre; GCont; GPost; GDeferred])
  else true.

(* 11: what the trace shows of the plan's check groups *)
Definition act_failed (m : tmap) (a : aref) : bool := let t := tlook m a in (0 <? t_n t) && negb (t_ok t).
Definition act_passed (m : tmap) (a : aref) : bool := let t := tlook m a in (0 <? t_n t) && t_ok t.
Definition grp_failed (sh : shape) (m : tmap) (g : grp) : bool :=
  match group_of sh SPlan g with
  | Some rs => existsb (fun i => act_failed m (AChk SPlan g i)) (seq 0 (length rs))
  | None => false
  end.
Definition grp_passed (sh : shape) (m : tmap) (g : grp) : bool :=
  match group_of sh SPlan g with
  | Some rs => forallb (fun i => act_passed m (AChk SPlan g i)) (seq 0 (length rs))
  | None => false
  end.
Definition block_failed (sh : shape) (fin : image) : bool :=
  existsb (fun b => is_st fin (OBlock b) Failed) (seq 0 (length (sh_blocks sh))).

Definition shown_reason (sh : shape) (m : tmap) (fin : image) : reason :=
  if grp_passed sh m GBypass then FRUnknown            (* bypassed as a whole *)
  else if grp_failed sh m GPre then FRPreCheck
  else if grp_failed sh m GCont then FRContCheck
  else if block_failed sh fin then FRBlock
  else if grp_failed sh m GPost then FRPostCheck
  else if grp_failed sh m GDeferred then FRDeferredCheck
  else FRUnknown.
(* 17: a plan-level check group is Failed in fin exactly when the trace shows it failing *)
Definition group_truthful (sh : shape) (m : tmap) (fin : image) : bool :=
  forallb (fun g => negb (grp_present sh g) || Bool.eqb (is_st fin (OChecks SPlan g) Failed) (grp_failed sh m g)) all_grps.

Definition reason_ok (sh : shape) (m : tmap) (fin : image) : bool :=
  reason_eqb (im_reason fin) (shown_reason sh m fin)
  && Bool.eqb (is_st fin OPlan Completed) (reason_eqb (im_reason fin) FRUnknown).

(* ---- the clauses per object, then the whole release ---- *)
Definition when (b : bool) (code : nat) : list nat := if b then [code] else [].

Definition obj_codes (sh : shape) (m : tmap) (fin : image) (o : obj) : list nat :=
  match im_lookup fin o with
  | None => [14]
  | Some c =>
      when (status_eqb (oc_st c) Running) 3 ++
      match o with
      | OAct a =>
          when (t_open (tlook m a)) 4 ++ when (negb (action_consistent c)) 8
          ++ when (negb (truthful_cell (tlook m a) c)) 10
      | OSeq b q =>
          match seq_of sh b q with
          | Some rs => when (negb (seq_consistent fin b q (length rs))) 7
          | None => []
          end
      | _ => []
      end
  end.

(* 15, 16: what the engine decided (its last plan write) is what Wait returned, and names the failing stage *)
Definition written_ok (pw : status * reason) (fin : image) : bool :=
  status_eqb (fst pw) (fst_ fin OPlan) && reason_eqb (snd pw) (im_reason fin).
Definition written_reason_ok (sh : shape) (m : tmap) (pw : status * reason) (fin : image) : bool :=
  reason_eqb (snd pw) (shown_reason sh m fin).

Definition release_codes (sh : shape) (ms : mstate) (fin : image) : list nat :=
  let m := m_t ms in
  when (negb (is_st fin OPlan Completed || is_st fin OPlan Failed)) 2
  ++ flat_map (obj_codes sh m fin) (all_objs sh)
  ++ when (negb (plan_consistent sh fin)) 6
  ++ when (negb (reason_ok sh m fin)) 11
  ++ when (negb (written_ok (m_pw ms) fin)) 15
  ++ when (negb (written_reason_ok sh m (m_pw ms) fin)) 16
  ++ when (negb (group_truthful sh m fin)) 17.

Fixpoint after_codes (sh : shape) (fin : image) (m : tmap) (tr : list event) : list nat :=
  match tr with
  | [] => []
  | EvRead snap :: tr' =>
      when (negb (images_agree (all_objs sh) fin snap)) 13 ++ after_codes sh fin m tr'
  | EvEnd a OOverrun :: tr' =>
      let t := tlook m a in
      if negb (t_open t) && (0 <? t_owed t)
      then after_codes sh fin (tally_step m (EvEnd a OOverrun)) tr'
      else 12 :: after_codes sh fin m tr'
  | _ :: tr' => 12 :: after_codes sh fin m tr'
  end.

Fixpoint scan (sh : shape) (m : mstate) (tr : list event) : list nat :=
  match tr with
  | [] => [1]
  | EvRelease fin :: tr' => release_codes sh m fin ++ after_codes sh fin (m_t m) tr'
  | e :: tr' => scan sh (mon_step m e) tr'
  end.

(* the part of the property the observable automaton speaks about (everything except the clock) *)
Definition final_codes (c : case) : list nat := scan (fst c) mstate0 (snd c).
Definition mon_final_core (c : case) : bool := match final_codes c with [] => true | _ => false end.

(* ---- 9: the time flags of the released plan and of the re-reads ---- *)
Definition times_cell (c : ocell) : bool :=
  match oc_tm c with
  | TF sz ez ord =>
      ord
      && match oc_st c with
         | Completed | Failed => negb sz && negb ez
         | NotStarted => sz && ez
         | _ => true
         end
  end.
Definition tf_eqb (a b : tflags) : bool :=
  match a, b with TF x y z, TF x' y' z' => Bool.eqb x x' && Bool.eqb y y' && Bool.eqb z z' end.
Definition times_same (objs : list obj) (a b : image) : bool :=
  forallb (fun o => tf_eqb (oc_tm (fcell a o)) (oc_tm (fcell b o))) objs.
Fixpoint times_after (objs : list obj) (fin : image) (tr : list event) : bool :=
  match tr with
  | [] => true
  | EvRead snap :: tr' => times_same objs fin snap && times_after objs fin tr'
  | _ :: tr' => times_after objs fin tr'
  end.
Fixpoint times_scan (objs : list obj) (tr : list event) : bool :=
  match tr with
  | [] => true
  | EvRelease fin :: tr' => forallb (fun o => times_cell (fcell fin o)) objs && times_after objs fin tr'
  | _ :: tr' => times_scan objs tr'
  end.
Definition mon_times (c : case) : bool := times_scan (all_objs (fst c)) (snd c).

(* ---- THE MONITOR ---- *)
Definition mon_final (c : case) : bool := mon_final_core c && mon_times c.

(* diagnosis for the driver: [0] = holds, else the distinct codes of the clauses that fail *)
Definition mon_final_diag (c : case) : list nat :=
  match nodup Nat.eq_dec (final_codes c ++ when (negb (mon_times c)) 9) with
  | [] => [0]
  | l => l
  end.
