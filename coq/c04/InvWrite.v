(* Inv1 is kept by the write handler (Auto.h_write) - one case per object kind and per kind of write - and by
   stutter writes, reads and the release. *)
From Coq Require Import Lia.
From Coercion.Base Require Import Plan.
From Coercion.Engine Require Import Shape Event Action ChecksRun Seq Block Final PlanSM Auto Accept AutoLemmas.
From Coercion.C04 Require Import MonC04 Views InvDefs InvLocal InvGlobal InvLift InvOps InvHandle.

Local Arguments tlook : simpl never.
Local Arguments tput : simpl never.
Local Arguments iget : simpl never.
Local Arguments iset : simpl never.
Local Arguments lcount : simpl never.
Local Arguments ist : simpl never.
Local Arguments tally_write : simpl never.

Lemma tally_write_mark_owed t ok : t_owed (tally_write t Running 0 ok) = t_owed t.
Proof. unfold tally_write. destruct (t_dur t); reflexivity. Qed.

Lemma g_mark_idle_may rs may dst g i x : g_mark rs may dst g i = Some x -> g_is_idle g = true -> may = true.
Proof.
  destruct g; simpl; [|discriminate]. unfold g_mark. simpl. intros H _.
  destruct may; [reflexivity|discriminate].
Qed.

Lemma b_write_same b st b' : b_write b st = Some b' -> b' = b.
Proof.
  unfold b_write. destruct st; try discriminate.
  - destruct (bphase_eqb (b_ph b) BEnter); [|discriminate]. intro H. now injection H as <-.
  - destruct (bphase_eqb (b_ph b) BEnd && negb (b_cause b) && negb (thr_live (b_thr b))); [|discriminate].
    intro H. now injection H as <-.
  - destruct (b_cause b); [|discriminate]. intro H. now injection H as <-.
Qed.

Lemma final_status sh f : fst (final sh f) = Completed \/ fst (final sh f) = Failed.
Proof.
  unfold final, final_blocks.
  destruct (examine_bypass sh f); [simpl; auto|].
  destruct (examine sh f [GPre; GCont]); [simpl; auto|].
  destruct (any_block_failed sh f).
  - destruct (all_blocks_completed sh f); simpl; auto.
  - destruct (examine sh f [GPost; GDeferred]); [simpl; auto|].
    destruct (all_blocks_completed sh f); simpl; auto.
Qed.

(* the sequences part of the block windows when sequence q steps from x to x' *)
Lemma windows_set_seq b q x x' :
  b_windows b -> nth_error (b_seqs b) q = Some x ->
  (b_ph b = BSeqs \/ (s_quiet x = true -> s_quiet x' = true)) ->
  b_windows (b_with_seqs b (upd (b_seqs b) q x')).
Proof.
  intros (W1 & W2 & W3 & W4 & W5 & W6) Q H. unfold b_windows. simpl. repeat split; auto.
  intros Hph q' y Hy. destruct H as [H|H]; [contradiction|].
  destruct (Nat.eq_dec q' q) as [->|Hn].
  - rewrite nth_upd_same in Hy by (eapply nth_error_some_lt; eauto). injection Hy as <-.
    apply H. eapply W6; eauto.
  - rewrite nth_upd_other in Hy by auto. eapply W6; eauto.
Qed.

Lemma s_terminal_quiet x st x' : s_terminal x st = Some x' -> s_quiet x' = true.
Proof.
  destruct x; simpl; try discriminate.
  destruct (status_eqb st (if v then Completed else Failed)); [|discriminate]. intro H. now injection H as <-.
Qed.
Lemma quiet_no_mark x i : s_quiet x = true -> s_mark x i = None.
Proof. destruct x; simpl; try reflexivity; discriminate. Qed.
Lemma quiet_no_attempt rs x i k ok : s_quiet x = true -> s_attempt rs x i k ok = None.
Proof. destruct x; simpl; try reflexivity; discriminate. Qed.
Lemma quiet_no_final rs x i st k ok : s_quiet x = true -> s_final rs x i st k ok = None.
Proof. destruct x; simpl; try reflexivity; discriminate. Qed.

Section Write.
  Variable sh : shape.

  (* ---------- writes of an action ---------- *)
  Lemma w_mark s m a s1 :
    Inv1 sh s m -> obj_in_shape sh (OAct a) = true ->
    match a with
    | AChk SPlan g i => p_chk_mark sh s g i
    | AChk (SBlock b) g i =>
        match cur_block sh s b with
        | Some bs => option_map (with_b s) (b_chk_mark bs (s_img s) b (s_b s) g i)
        | None => None end
    | ASeq b q i =>
        match cur_block sh s b with
        | Some _ => option_map (with_b s) (b_act_mark (s_b s) q i)
        | None => None end
    end = Some s1 ->
    Inv1 sh (put s1 (OAct a) Running 0 false)
         {| m_t := tput (m_t m) a (tally_write (tlook (m_t m) a) Running 0 false); m_pw := m_pw m |}.
  Proof.
    intros I Hs H.
    assert (OW : late_ok sh (tput (m_t m) a (tally_write (tlook (m_t m) a) Running 0 false)) (s_late s)).
    { apply owed_tput; [apply (i_late _ _ _ I)|apply tally_write_mark_owed]. }
    destruct a as [[|b] g i|b q i].
    - unfold p_chk_mark in H. destruct (grp_get (sh_groups sh) g) as [rs|] eqn:R; [|discriminate].
      destruct (g_mark rs (p_may_start s g) (ist (s_img s) (OChecks SPlan g)) (tget (s_g s) g) i) as [x|] eqn:G;
        [|discriminate]. injection H as <-.
      pose proof (i_groups _ _ _ I g) as GI. rewrite R in GI.
      eapply (lift_pgroup sh s m _ g x _ I); [reflexivity..| | | | |]; simpl.
      + intros o Ho. apply (iget_iset_comp _ _ _ _ (CPG g)); auto.
      + intros a' Ha. apply (tlook_tput_comp _ _ _ _ (CPG g)); auto.
      + rewrite R. eapply grp_mark; eauto.
        * apply may_dead.
        * eapply in_shape_pchk; eauto.
      + destruct (g_is_idle (tget (s_g s) g)) eqn:E.
        * right. apply may_window. eapply g_mark_idle_may; eauto.
        * right. eapply not_idle_window; eauto.
      + exact OW.
    - destruct (cur_block sh s b) as [bs|] eqn:HCB; [|discriminate].
      destruct (cur_block_spec _ _ _ _ HCB) as (Hp & -> & Hb).
      unfold b_chk_mark in H. destruct (grp_get (bs_groups bs) g) as [rs|] eqn:R; [|discriminate].
      destruct (g_mark rs (b_may_start (s_b s) g) (ist (s_img s) (OChecks (SBlock (s_cb s)) g)) (tget (b_g (s_b s)) g) i)
        as [x|] eqn:G; [|discriminate]. injection H as <-.
      destruct (cur_binv _ _ _ _ I Hp Hb) as [BI BW].
      pose proof (proj1 BI g) as GI. rewrite R in GI.
      eapply (lift_block sh s m _ bs _ I Hp Hb); [reflexivity..| | | | |]; simpl.
      + intros o Ho. apply (iget_iset_comp _ _ _ _ (CB (s_cb s))); auto.
      + intros a' Ha. apply (tlook_tput_comp _ _ _ _ (CB (s_cb s))); auto.
      + eapply binv_set_group; eauto.
        * intros o Ho. apply (group_frame_img _ (SBlock (s_cb s)) g); auto. right. eauto.
        * intros a' Ha. apply group_frame_tally; auto.
        * rewrite R. eapply grp_mark; eauto.
          -- apply b_may_dead.
          -- eapply in_shape_bchk; eauto.
      + apply b_windows_set; auto. destruct (g_is_idle (tget (b_g (s_b s)) g)) eqn:E.
        * right. apply b_may_window. eapply g_mark_idle_may; eauto.
        * right. eapply not_idle_bwindow; eauto.
      + exact OW.
    - destruct (cur_block sh s b) as [bs|] eqn:HCB; [|discriminate].
      destruct (cur_block_spec _ _ _ _ HCB) as (Hp & -> & Hb).
      unfold b_act_mark, b_seq_upd in H.
      destruct (nth_error (b_seqs (s_b s)) q) as [x|] eqn:Q; [|discriminate].
      destruct (s_mark x i) as [x'|] eqn:G; [|discriminate]. injection H as <-.
      destruct (cur_binv _ _ _ _ I Hp Hb) as [BI BW].
      destruct (nth_error (bs_seqs bs) q) as [rs|] eqn:R.
      2:{ apply nth_error_None in R. destruct BI as (_ & Hl & _). apply nth_error_some_lt in Q. lia. }
      eapply (lift_block sh s m _ bs _ I Hp Hb); [reflexivity..| | | | |]; simpl.
      + intros o Ho. apply (iget_iset_comp _ _ _ _ (CB (s_cb s))); auto.
      + intros a' Ha. apply (tlook_tput_comp _ _ _ _ (CB (s_cb s))); auto.
      + eapply binv_set_seq; eauto.
        * intros o Ho. apply (seq_frame_img _ (s_cb s) q); auto. right. eauto.
        * intros a' Ha. apply seq_frame_tally; auto.
        * eapply sq_mark; eauto. apply BI; auto. eapply in_shape_sact; eauto.
      + eapply windows_set_seq; eauto. right. intro Qx. rewrite (quiet_no_mark x i Qx) in G. discriminate.
      + exact OW.
  Qed.

  Lemma w_attempt s m a k ok s1 :
    Inv1 sh s m -> obj_in_shape sh (OAct a) = true ->
    match a with
    | AChk SPlan g i =>
        match p_chk_attempt sh s g i (S k) ok with Some (s', owed) => Some (owe s' a owed) | None => None end
    | AChk (SBlock b) g i =>
        match cur_block sh s b with
        | Some bs => match b_chk_attempt bs (s_b s) g i (S k) ok with
                     | Some (b', owed) => Some (owe (with_b s b') a owed) | None => None end
        | None => None end
    | ASeq b q i =>
        match cur_block sh s b with
        | Some bs => match b_act_attempt bs (s_b s) q i (S k) ok with
                     | Some (b', owed) => Some (owe (with_b s b') a owed) | None => None end
        | None => None end
    end = Some s1 ->
    Inv1 sh (put s1 (OAct a) Running (S k) ok)
         {| m_t := tput (m_t m) a (tally_write (tlook (m_t m) a) Running (S k) ok); m_pw := m_pw m |}.
  Proof.
    intros I Hs H.
    assert (OW : forall owed : bool, t_owed (tally_write (tlook (m_t m) a) Running (S k) ok)
                              = (if owed then S (t_owed (tlook (m_t m) a)) else t_owed (tlook (m_t m) a)) ->
                 late_ok sh (tput (m_t m) a (tally_write (tlook (m_t m) a) Running (S k) ok))
                         (if owed then a :: s_late s else s_late s)).
    { intros [|] E; [apply owed_tput_cons|apply owed_tput]; auto; apply (i_late _ _ _ I). }
    destruct a as [[|b] g i|b q i].
    - unfold p_chk_attempt in H. destruct (grp_get (sh_groups sh) g) as [rs|] eqn:R; [|discriminate].
      destruct (g_attempt rs (tget (s_g s) g) i (S k) ok) as [[x owed]|] eqn:G; [|discriminate]. injection H as <-.
      pose proof (i_groups _ _ _ I g) as GI. rewrite R in GI.
      destruct (grp_attempt SPlan g rs _ _ _ i (S k) ok x owed GI G) as [GI' Ho].
      specialize (OW owed Ho).
      destruct owed; (eapply (lift_pgroup sh s m _ g x _ I); [reflexivity..| | | | |]; simpl;
        [ intros o Ho'; apply (iget_iset_comp _ _ _ _ (CPG g)); auto
        | intros a' Ha; apply (tlook_tput_comp _ _ _ _ (CPG g)); auto
        | rewrite R; exact GI'
        | right; eapply not_idle_window; eauto; eapply g_attempt_running; eauto
        | exact OW ]).
    - destruct (cur_block sh s b) as [bs|] eqn:HCB; [|discriminate].
      destruct (cur_block_spec _ _ _ _ HCB) as (Hp & -> & Hb).
      unfold b_chk_attempt in H. destruct (grp_get (bs_groups bs) g) as [rs|] eqn:R; [|discriminate].
      destruct (g_attempt rs (tget (b_g (s_b s)) g) i (S k) ok) as [[x owed]|] eqn:G; [|discriminate]. injection H as <-.
      destruct (cur_binv _ _ _ _ I Hp Hb) as [BI BW].
      pose proof (proj1 BI g) as GI. rewrite R in GI.
      destruct (grp_attempt (SBlock (s_cb s)) g rs _ _ _ i (S k) ok x owed GI G) as [GI' Ho].
      specialize (OW owed Ho).
      destruct owed; (eapply (lift_block sh s m _ bs _ I Hp Hb); [reflexivity..| | | | |]; simpl;
        [ intros o Ho'; apply (iget_iset_comp _ _ _ _ (CB (s_cb s))); auto
        | intros a' Ha; apply (tlook_tput_comp _ _ _ _ (CB (s_cb s))); auto
        | eapply binv_set_group; eauto;
          [ intros o Ho'; apply (group_frame_img _ (SBlock (s_cb s)) g); auto; right; eauto
          | intros a' Ha; apply group_frame_tally; auto
          | rewrite R; exact GI' ]
        | apply b_windows_set; auto; right; eapply not_idle_bwindow; eauto; eapply g_attempt_running; eauto
        | exact OW ]).
    - destruct (cur_block sh s b) as [bs|] eqn:HCB; [|discriminate].
      destruct (cur_block_spec _ _ _ _ HCB) as (Hp & -> & Hb).
      unfold b_act_attempt in H.
      destruct (nth_error (b_seqs (s_b s)) q) as [x|] eqn:Q; [|discriminate].
      destruct (nth_error (bs_seqs bs) q) as [rs|] eqn:R; [|discriminate].
      destruct (s_attempt rs x i (S k) ok) as [[x' owed]|] eqn:G; [|discriminate]. injection H as <-.
      destruct (cur_binv _ _ _ _ I Hp Hb) as [BI BW].
      destruct (sq_attempt (s_cb s) q rs x _ _ i (S k) ok x' owed (proj2 (proj2 BI) q rs x R Q) G) as [QI Ho].
      specialize (OW owed Ho).
      destruct owed; (eapply (lift_block sh s m _ bs _ I Hp Hb); [reflexivity..| | | | |]; simpl;
        [ intros o Ho'; apply (iget_iset_comp _ _ _ _ (CB (s_cb s))); auto
        | intros a' Ha; apply (tlook_tput_comp _ _ _ _ (CB (s_cb s))); auto
        | eapply binv_set_seq; eauto;
          [ intros o Ho'; apply (seq_frame_img _ (s_cb s) q); auto; right; eauto
          | intros a' Ha; apply seq_frame_tally; auto ]
        | eapply windows_set_seq; eauto; right; intro Qx; rewrite (quiet_no_attempt rs x i (S k) ok Qx) in G; discriminate
        | exact OW ]).
  Qed.

  Lemma w_final s m a st k ok s1 :
    Inv1 sh s m -> obj_in_shape sh (OAct a) = true ->
    match a with
    | AChk SPlan g i => p_chk_final s g i st k ok
    | AChk (SBlock b) g i =>
        match cur_block sh s b with
        | Some _ => option_map (with_b s) (b_chk_final (s_b s) g i st k ok)
        | None => None end
    | ASeq b q i =>
        match cur_block sh s b with
        | Some bs => option_map (with_b s) (b_act_final bs (s_b s) q i st k ok)
        | None => None end
    end = Some s1 ->
    Inv1 sh (put s1 (OAct a) st k ok)
         {| m_t := tput (m_t m) a (tally_write (tlook (m_t m) a) st k ok); m_pw := m_pw m |}.
  Proof.
    intros I Hs H.
    assert (OW : t_owed (tally_write (tlook (m_t m) a) st k ok) = t_owed (tlook (m_t m) a) ->
                 late_ok sh (tput (m_t m) a (tally_write (tlook (m_t m) a) st k ok)) (s_late s)).
    { intro E. apply owed_tput; auto. apply (i_late _ _ _ I). }
    destruct a as [[|b] g i|b q i].
    - unfold p_chk_final in H.
      destruct (g_final (tget (s_g s) g) i st k ok) as [x|] eqn:G; [|discriminate]. injection H as <-.
      destruct (grp_final SPlan g _ _ _ _ i st k ok x (i_groups _ _ _ I g) G) as [GI' Ho].
      eapply (lift_pgroup sh s m _ g x _ I); [reflexivity..| | | | |]; simpl.
      + intros o Ho'. apply (iget_iset_comp _ _ _ _ (CPG g)); auto.
      + intros a' Ha. apply (tlook_tput_comp _ _ _ _ (CPG g)); auto.
      + exact GI'.
      + right. eapply not_idle_window; eauto. eapply g_final_running; eauto.
      + auto.
    - destruct (cur_block sh s b) as [bs|] eqn:HCB; [|discriminate].
      destruct (cur_block_spec _ _ _ _ HCB) as (Hp & -> & Hb).
      unfold b_chk_final in H.
      destruct (g_final (tget (b_g (s_b s)) g) i st k ok) as [x|] eqn:G; [|discriminate]. injection H as <-.
      destruct (cur_binv _ _ _ _ I Hp Hb) as [BI BW].
      destruct (grp_final (SBlock (s_cb s)) g _ _ _ _ i st k ok x (proj1 BI g) G) as [GI' Ho].
      eapply (lift_block sh s m _ bs _ I Hp Hb); [reflexivity..| | | | |]; simpl.
      + intros o Ho'. apply (iget_iset_comp _ _ _ _ (CB (s_cb s))); auto.
      + intros a' Ha. apply (tlook_tput_comp _ _ _ _ (CB (s_cb s))); auto.
      + eapply binv_set_group; eauto.
        * intros o Ho'. apply (group_frame_img _ (SBlock (s_cb s)) g); auto. right. eauto.
        * intros a' Ha. apply group_frame_tally; auto.
      + apply b_windows_set; auto. right. eapply not_idle_bwindow; eauto. eapply g_final_running; eauto.
      + auto.
    - destruct (cur_block sh s b) as [bs|] eqn:HCB; [|discriminate].
      destruct (cur_block_spec _ _ _ _ HCB) as (Hp & -> & Hb).
      unfold b_act_final in H. destruct (nth_error (bs_seqs bs) q) as [rs|] eqn:R; [|discriminate].
      unfold b_seq_upd in H.
      destruct (nth_error (b_seqs (s_b s)) q) as [x|] eqn:Q; [|discriminate].
      destruct (s_final rs x i st k ok) as [x'|] eqn:G; [|discriminate]. injection H as <-.
      destruct (cur_binv _ _ _ _ I Hp Hb) as [BI BW].
      destruct (sq_final (s_cb s) q rs x _ _ i st k ok x' (proj2 (proj2 BI) q rs x R Q) G) as [QI Ho].
      eapply (lift_block sh s m _ bs _ I Hp Hb); [reflexivity..| | | | |]; simpl.
      + intros o Ho'. apply (iget_iset_comp _ _ _ _ (CB (s_cb s))); auto.
      + intros a' Ha. apply (tlook_tput_comp _ _ _ _ (CB (s_cb s))); auto.
      + eapply binv_set_seq; eauto.
        * intros o Ho'. apply (seq_frame_img _ (s_cb s) q); auto. right. eauto.
        * intros a' Ha. apply seq_frame_tally; auto.
      + eapply windows_set_seq; eauto. right. intro Qx. rewrite (quiet_no_final rs x i st k ok Qx) in G. discriminate.
      + auto.
  Qed.

  (* ---------- the verdict write of a check group ---------- *)
  Lemma w_pverdict s m g st s1 :
    Inv1 sh s m -> p_chk_verdict s g st = Some s1 ->
    Inv1 sh (put s1 (OChecks SPlan g) st 0 false) {| m_t := m_t m; m_pw := m_pw m |}.
  Proof.
    intros I H. unfold p_chk_verdict in H.
    destruct (g_verdict (tget (s_g s) g) st) as [x|] eqn:G; [|discriminate]. injection H as <-.
    destruct (grp_verdict SPlan g _ _ _ _ st x (i_groups _ _ _ I g) G) as [GI Q].
    eapply (lift_pgroup sh s m _ g x _ I); [reflexivity..| | | | |]; simpl.
    - intros o Ho. apply (iget_iset_comp _ _ _ _ (CPG g)); auto.
    - intros a' Ha. apply teq_refl.
    - exact GI.
    - left. exact Q.
    - apply (i_late _ _ _ I).
  Qed.

  Lemma w_bverdict s m b bs g st b1 :
    Inv1 sh s m -> cur_block sh s b = Some bs -> b_chk_verdict (s_b s) g st = Some b1 ->
    Inv1 sh (put (with_b s b1) (OChecks (SBlock b) g) st 0 false) {| m_t := m_t m; m_pw := m_pw m |}.
  Proof.
    intros I HCB H. destruct (cur_block_spec _ _ _ _ HCB) as (Hp & -> & Hb).
    unfold b_chk_verdict in H.
    destruct (g_verdict (tget (b_g (s_b s)) g) st) as [x|] eqn:G; [|discriminate]. injection H as <-.
    destruct (cur_binv _ _ _ _ I Hp Hb) as [BI BW].
    destruct (grp_verdict (SBlock (s_cb s)) g _ _ _ _ st x (proj1 BI g) G) as [GI Q].
    eapply (lift_block sh s m _ bs _ I Hp Hb); [reflexivity..| | | | |]; simpl.
    - intros o Ho. apply (iget_iset_comp _ _ _ _ (CB (s_cb s))); auto.
    - intros a' Ha. apply teq_refl.
    - eapply binv_set_group; eauto.
      + intros o Ho. apply (group_frame_img _ (SBlock (s_cb s)) g); auto. left. reflexivity.
      + intros a' Ha. apply teq_refl.
    - apply b_windows_set; auto.
    - apply (i_late _ _ _ I).
  Qed.

  (* ---------- writes of a sequence ---------- *)
  Lemma w_seq s m b bs q st b1 :
    Inv1 sh s m -> cur_block sh s b = Some bs ->
    match st with
    | Running => b_seq_launch bs (s_b s) q
    | Completed | Failed => b_seq_terminal (s_b s) q st
    | _ => None
    end = Some b1 ->
    Inv1 sh (put (with_b s b1) (OSeq b q) st 0 false) {| m_t := m_t m; m_pw := m_pw m |}.
  Proof.
    intros I HCB H. destruct (cur_block_spec _ _ _ _ HCB) as (Hp & -> & Hb).
    destruct (cur_binv _ _ _ _ I Hp Hb) as [BI BW].
    assert (K : forall x x', nth_error (b_seqs (s_b s)) q = Some x ->
              (forall rs, nth_error (bs_seqs bs) q = Some rs -> seq_inv rs x' (iset (s_img s) (OSeq (s_cb s) q) (mkc st 0 false)) (m_t m) (s_cb s) q) ->
              (b_ph (s_b s) = BSeqs \/ (s_quiet x = true -> s_quiet x' = true)) ->
              Inv1 sh (put (with_b s (b_with_seqs (s_b s) (upd (b_seqs (s_b s)) q x'))) (OSeq (s_cb s) q) st 0 false)
                   {| m_t := m_t m; m_pw := m_pw m |}).
    { intros x x' Q HI HW.
      destruct (nth_error (bs_seqs bs) q) as [rs|] eqn:R.
      2:{ apply nth_error_None in R. destruct BI as (_ & Hl & _). apply nth_error_some_lt in Q. lia. }
      eapply (lift_block sh s m _ bs _ I Hp Hb); [reflexivity..| | | | |]; simpl.
      - intros o Ho. apply (iget_iset_comp _ _ _ _ (CB (s_cb s))); auto.
      - intros a' Ha. apply teq_refl.
      - eapply binv_set_seq; eauto.
        + intros o Ho. apply (seq_frame_img _ (s_cb s) q); auto. left. reflexivity.
        + intros a' Ha. apply teq_refl.
      - eapply windows_set_seq; eauto.
      - apply (i_late _ _ _ I). }
    assert (SI : forall x rs, nth_error (b_seqs (s_b s)) q = Some x -> nth_error (bs_seqs bs) q = Some rs ->
                 seq_inv rs x (s_img s) (m_t m) (s_cb s) q).
    { intros x rs Q R. apply BI; auto. }
    destruct st; try discriminate.
    - (* launch *)
      unfold b_seq_launch in H.
      destruct (bphase_eqb (b_ph (s_b s)) BSeqs && launch_guard bs (s_b s)) eqn:LG; [|discriminate].
      apply andb_true_iff in LG as [LG _]. apply bphase_eqb_eq in LG.
      unfold b_seq_upd in H. destruct (nth_error (b_seqs (s_b s)) q) as [x|] eqn:Q; [|discriminate].
      destruct (s_launch x) as [x'|] eqn:G; [|discriminate]. injection H as <-.
      apply (K x x' eq_refl); [|left; exact LG].
      intros rs R. exact (sq_launch _ _ rs x _ _ x' (SI x rs eq_refl R) G).
    - unfold b_seq_terminal, b_seq_upd in H. destruct (nth_error (b_seqs (s_b s)) q) as [x|] eqn:Q; [|discriminate].
      destruct (s_terminal x Completed) as [x'|] eqn:G; [|discriminate]. injection H as <-.
      apply (K x x' eq_refl).
      + intros rs R. exact (proj1 (sq_terminal _ _ rs x _ _ _ x' (SI x rs eq_refl R) G)).
      + right. intros _. eapply s_terminal_quiet; eauto.
    - unfold b_seq_terminal, b_seq_upd in H. destruct (nth_error (b_seqs (s_b s)) q) as [x|] eqn:Q; [|discriminate].
      destruct (s_terminal x Failed) as [x'|] eqn:G; [|discriminate]. injection H as <-.
      apply (K x x' eq_refl).
      + intros rs R. exact (proj1 (sq_terminal _ _ rs x _ _ _ x' (SI x rs eq_refl R) G)).
      + right. intros _. eapply s_terminal_quiet; eauto.
  Qed.

  (* ---------- the block's own status ---------- *)
  Lemma w_block s m b bs st b1 :
    Inv1 sh s m -> cur_block sh s b = Some bs -> b_write (s_b s) st = Some b1 ->
    Inv1 sh (put (with_b s b1) (OBlock b) st 0 false) {| m_t := m_t m; m_pw := m_pw m |}.
  Proof.
    intros I HCB H. destruct (cur_block_spec _ _ _ _ HCB) as (Hp & -> & Hb).
    apply b_write_same in H. subst b1.
    destruct (cur_binv _ _ _ _ I Hp Hb) as [BI BW].
    eapply (lift_block sh s m _ bs _ I Hp Hb); [reflexivity..| | | | |]; simpl.
    - intros o Ho. apply (iget_iset_comp _ _ _ _ (CB (s_cb s))); auto.
    - intros a' Ha. apply teq_refl.
    - apply binv_set_status. exact BI.
    - exact BW.
    - apply (i_late _ _ _ I).
  Qed.

  (* ---------- the plan's own status and reason ---------- *)
  Lemma w_plan s m st r s1 :
    Inv1 sh s m -> p_write sh s st r = Some s1 ->
    Inv1 sh (put (with_reason s1 r) OPlan st 0 false) {| m_t := m_t m; m_pw := (st, r) |}.
  Proof.
    intros I H. unfold p_write in H.
    assert (s1 = s /\ st <> Stopped) as [-> Hst].
    { destruct (s_ph s); try discriminate.
      - destruct (status_eqb st Running && reason_eqb r FRUnknown) eqn:E; [|discriminate].
        injection H as <-. apply andb_true_iff in E as [E _]. apply status_eqb_eq in E. subst. split; [auto|discriminate].
      - destruct (is_terminal st && negb (is_terminal (ist (s_img s) OPlan))
                  && status_eqb st (fst (final sh (ist (s_img s)))) && reason_eqb r (snd (final sh (ist (s_img s))))) eqn:E;
          [|discriminate]. injection H as <-.
        apply andb_true_iff in E as [E _]. apply andb_true_iff in E as [_ E]. apply status_eqb_eq in E.
        split; [auto|]. destruct (final_status sh (ist (s_img s))) as [F|F]; rewrite E, F; discriminate. }
    apply (lift_plan sh s m _ (mkc st 0 false) r I); try reflexivity. exact Hst.
  Qed.

  (* ================= the write handler ================= *)
  Lemma h_write_Inv1 s m o st n ok r s' :
    Inv1 sh s m -> h_write sh s o st n ok r = Some s' -> Inv1 sh s' (mon_step m (EvWrite o st n ok r)).
  Proof.
    intros I H. unfold h_write in H. destruct (obj_in_shape sh o) eqn:Hs; simpl in H; [|discriminate].
    destruct o as [|sc g|b|b q|a].
    - (* OPlan *)
      destruct n; [|discriminate]. destruct ok; [discriminate|]. simpl in H.
      destruct (p_write sh s st r) as [s1|] eqn:P; [|discriminate]. injection H as <-.
      unfold mon_step; simpl. eapply w_plan; eauto.
    - (* OChecks *)
      destruct n; [|discriminate]. destruct ok; [discriminate|]. unfold mon_step; simpl.
      destruct sc as [|b]; simpl in H.
      + destruct st; try discriminate;
          (destruct (p_chk_verdict s g _) as [s1|] eqn:P; [|discriminate]; injection H as <-; eapply w_pverdict; eauto).
      + destruct st; try discriminate;
          (destruct (cur_block sh s b) as [bs|] eqn:HCB; [|discriminate];
           destruct (b_chk_verdict (s_b s) g _) as [b1|] eqn:P; [|discriminate]; injection H as <-;
           eapply w_bverdict; eauto).
    - (* OBlock *)
      destruct n; [|discriminate]. destruct ok; [discriminate|]. unfold mon_step; simpl. simpl in H.
      destruct (cur_block sh s b) as [bs|] eqn:HCB; [|discriminate].
      destruct (b_write (s_b s) st) as [b1|] eqn:P; [|discriminate]. injection H as <-.
      eapply w_block; eauto.
    - (* OSeq *)
      destruct n; [|discriminate]. destruct ok; [discriminate|]. unfold mon_step; simpl. simpl in H.
      destruct (cur_block sh s b) as [bs|] eqn:HCB; [|discriminate].
      destruct (match st with
                | Running => b_seq_launch bs (s_b s) q
                | Completed | Failed => b_seq_terminal (s_b s) q st
                | _ => None end) as [b1|] eqn:P.
      + assert (s' = put (with_b s b1) (OSeq b q) st 0 false) as ->.
        { destruct st; try discriminate; rewrite P in H; simpl in H; now injection H as <-. }
        eapply w_seq; eauto.
      + destruct st; try discriminate; rewrite P in H; discriminate.
    - (* OAct *)
      unfold mon_step; simpl.
      assert (H' : option_map (fun s1 => put s1 (OAct a) st n ok) (h_write_act sh s a st n ok) = Some s').
      { destruct n, ok; exact H. }
      clear H. destruct (h_write_act sh s a st n ok) as [s1|] eqn:W; [|discriminate]. injection H' as <-.
      unfold h_write_act in W. destruct st; try discriminate.
      + destruct n as [|k].
        * destruct ok; [discriminate|]. eapply w_mark; eauto.
        * eapply w_attempt; eauto.
      + eapply w_final; eauto.
      + eapply w_final; eauto.
  Qed.
End Write.
