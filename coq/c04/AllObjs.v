(* all_objs sh enumerates exactly the objects of the shape. *)
From Coq Require Import Lia.
From Coercion.Base Require Import Plan.
From Coercion.Engine Require Import Shape.

Lemma in_group_objs sc gs o :
  In o (group_objs sc gs) <->
  exists g rs, grp_get gs g = Some rs /\ (o = OChecks sc g \/ exists i, i < length rs /\ o = OAct (AChk sc g i)).
Proof.
  unfold group_objs. rewrite in_flat_map. split.
  - intros (g & _ & H). destruct (grp_get gs g) as [rs|] eqn:E; [|contradiction].
    exists g, rs. split; [auto|]. destruct H as [H|H]; [left; auto|right].
    apply in_map_iff in H as (i & <- & Hi). apply in_seq in Hi. exists i. split; [lia|auto].
  - intros (g & rs & E & H). exists g. split; [destruct g; simpl; auto 10|]. rewrite E.
    destruct H as [->|(i & Hi & ->)]; [left; auto|right].
    apply in_map_iff. exists i. split; [auto|]. apply in_seq. lia.
Qed.

Lemma in_seqs_objs b qs : forall k o,
  In o (seqs_objs b k qs) <->
  exists j rs, nth_error qs j = Some rs /\ (o = OSeq b (k + j) \/ exists i, i < length rs /\ o = OAct (ASeq b (k + j) i)).
Proof.
  induction qs as [|rs qs IH]; intros k o; cbn [seqs_objs].
  - split; [contradiction|]. intros (j & rs & H & _). destruct j; discriminate.
  - rewrite in_app_iff, IH. split.
    + intros [H|(j & rs' & E & H)].
      * exists 0, rs. split; [reflexivity|]. rewrite Nat.add_0_r. unfold seq_objs in H. destruct H as [H|H]; [left; auto|right].
        apply in_map_iff in H as (i & <- & Hi). apply in_seq in Hi. exists i. split; [lia|auto].
      * exists (S j), rs'. split; [exact E|]. replace (k + S j) with (S k + j) by lia. exact H.
    + intros (j & rs' & E & H). destruct j as [|j]; simpl in E.
      * injection E as <-. left. rewrite Nat.add_0_r in H. unfold seq_objs. simpl.
        destruct H as [->|(i & Hi & ->)]; [left; auto|right].
        apply in_map_iff. exists i. split; [auto|]. apply in_seq. lia.
      * right. exists j, rs'. split; [exact E|]. replace (S k + j) with (k + S j) by lia. exact H.
Qed.

Lemma in_blocks_objs bl : forall k o,
  In o (blocks_objs k bl) <-> exists j bs, nth_error bl j = Some bs /\ In o (block_objs (k + j) bs).
Proof.
  induction bl as [|bs bl IH]; intros k o; cbn [blocks_objs].
  - split; [contradiction|]. intros (j & bs & H & _). destruct j; discriminate.
  - rewrite in_app_iff, IH. split.
    + intros [H|(j & bs' & E & H)].
      * exists 0, bs. rewrite Nat.add_0_r. auto.
      * exists (S j), bs'. split; [exact E|]. replace (k + S j) with (S k + j) by lia. exact H.
    + intros (j & bs' & E & H). destruct j as [|j]; simpl in E.
      * injection E as <-. left. now rewrite Nat.add_0_r in H.
      * right. exists j, bs'. split; [exact E|]. replace (S k + j) with (k + S j) by lia. exact H.
Qed.

Lemma all_objs_spec sh o : In o (all_objs sh) <-> obj_in_shape sh o = true.
Proof.
  unfold all_objs. simpl. rewrite in_app_iff, in_group_objs, in_blocks_objs. split.
  - intros [<-|[(g & rs & E & H)|(j & bs & E & H)]]; [reflexivity| |].
    + destruct H as [->|(i & Hi & ->)]; simpl; unfold group_of; simpl; rewrite E; [reflexivity|].
      destruct (nth_error rs i) eqn:N; [reflexivity|]. apply nth_error_None in N. lia.
    + simpl in H. unfold block_objs in H. simpl in H. rewrite in_app_iff, in_group_objs, in_seqs_objs in H.
      destruct H as [<-|[(g & rs & E' & H)|(q & rs & E' & H)]].
      * simpl. unfold block_of. now rewrite E.
      * destruct H as [->|(i & Hi & ->)]; simpl; unfold group_of, scope_groups, block_of; rewrite E; simpl; rewrite E';
          [reflexivity|]. destruct (nth_error rs i) eqn:N; [reflexivity|]. apply nth_error_None in N. lia.
      * simpl in H. destruct H as [->|(i & Hi & ->)]; simpl; unfold seq_of, block_of; rewrite E, E'; [reflexivity|].
        destruct (nth_error rs i) eqn:N; [reflexivity|]. apply nth_error_None in N. lia.
  - destruct o as [|sc g|b|b q|a]; simpl; intro H.
    + left. reflexivity.
    + destruct sc as [|b]; unfold group_of, scope_groups in H.
      * simpl in H. destruct (grp_get (sh_groups sh) g) as [rs|] eqn:E; [|discriminate].
        right. left. exists g, rs. auto.
      * unfold block_of in H. destruct (nth_error (sh_blocks sh) b) as [bs|] eqn:E; [|discriminate]. simpl in H.
        destruct (grp_get (bs_groups bs) g) as [rs|] eqn:E'; [|discriminate].
        right. right. exists b, bs. split; [exact E|]. simpl. right. rewrite in_app_iff, in_group_objs.
        left. exists g, rs. auto.
    + unfold block_of in H. destruct (nth_error (sh_blocks sh) b) as [bs|] eqn:E; [|discriminate].
      right. right. exists b, bs. split; [exact E|]. simpl. left. reflexivity.
    + unfold seq_of, block_of in H. destruct (nth_error (sh_blocks sh) b) as [bs|] eqn:E; [|discriminate].
      destruct (nth_error (bs_seqs bs) q) as [rs|] eqn:E'; [|discriminate].
      right. right. exists b, bs. split; [exact E|]. simpl. right. rewrite in_app_iff, in_seqs_objs.
      right. exists q, rs. simpl. auto.
    + destruct a as [[|b] g i|b q i]; simpl in H.
      * unfold group_of in H. simpl in H. destruct (grp_get (sh_groups sh) g) as [rs|] eqn:E; [|discriminate].
        destruct (nth_error rs i) eqn:N; [|discriminate].
        right. left. exists g, rs. split; [exact E|]. right. exists i. split; [apply nth_error_Some; congruence|reflexivity].
      * unfold group_of, scope_groups, block_of in H.
        destruct (nth_error (sh_blocks sh) b) as [bs|] eqn:E; [|discriminate]. simpl in H.
        destruct (grp_get (bs_groups bs) g) as [rs|] eqn:E'; [|discriminate].
        destruct (nth_error rs i) eqn:N; [|discriminate].
        right. right. exists b, bs. split; [exact E|]. simpl. right. rewrite in_app_iff, in_group_objs.
        left. exists g, rs. split; [exact E'|]. right. exists i. split; [apply nth_error_Some; congruence|reflexivity].
      * unfold seq_of, block_of in H.
        destruct (nth_error (sh_blocks sh) b) as [bs|] eqn:E; [|discriminate].
        destruct (nth_error (bs_seqs bs) q) as [rs|] eqn:E'; [|discriminate].
        destruct (nth_error rs i) eqn:N; [|discriminate].
        right. right. exists b, bs. split; [exact E|]. simpl. right. rewrite in_app_iff, in_seqs_objs.
        right. exists q, rs. simpl. split; [exact E'|]. right. exists i. split; [apply nth_error_Some; congruence|reflexivity].
Qed.
