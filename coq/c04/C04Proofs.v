(* The C04 theorems: every trace the observable automaton accepts satisfies mon_final_core. *)
From Coq Require Import Lia.
From Coercion.Base Require Import Plan.
From Coercion.Engine Require Import Shape Event Action ChecksRun Seq Block Final PlanSM Auto Accept AutoLemmas.
From Coercion.C04 Require Import MonC04 Views InvDefs InvLocal InvGlobal InvLift InvOps InvHandle InvWrite InvStep
     InvEps InvFoot InvPath AllObjs C04Run C04Release.

Local Arguments iget : simpl never.
Local Arguments ist : simpl never.
Local Arguments tlook : simpl never.
Local Arguments all_objs : simpl never.

(* the monitor's state after a prefix of the trace *)
Definition mon_after (tr : list event) : mstate := fold_left mon_step tr mstate0.

Section Main.
  Variable sh : shape.

  Lemma run_Inv_gen : forall tr s m s', Inv sh s m -> run sh s tr = Some s' -> Inv sh s' (fold_left mon_step tr m).
  Proof.
    induction tr as [|e tr IH]; intros s m s' I H; simpl in *.
    - now injection H as <-.
    - destruct (step sh s e) as [s1|] eqn:E; [|discriminate]. eapply IH; eauto. eapply step_Inv; eauto.
  Qed.

  Lemma run_Inv tr s : run sh init tr = Some s -> Inv sh s (mon_after tr).
  Proof. intro H. eapply run_Inv_gen; eauto. apply Inv_init. Qed.

  (* the release event, seen from the automaton *)
  Lemma release_step s fin s1 :
    step sh s (EvRelease fin) = Some s1 ->
    exists s0, eps_star sh s s0 /\ s_ph s0 = PEnd /\ is_terminal (ist (s_img s0) OPlan) = true
               /\ image_agrees (all_objs sh) (s_img s0) (s_reason s0) fin = true
               /\ s1 = with_fin (with_ph s0 PReleased) (Some fin).
  Proof.
    intro H. destruct (step_spec _ _ _ _ H) as [(s0 & Hs & H0)|[_ S]]; [|discriminate S].
    exists s0. split; [exact Hs|]. simpl in H0. unfold h_release in H0.
    destruct (pphase_eqb (s_ph s0) PEnd && is_terminal (ist (s_img s0) OPlan)
              && image_agrees (all_objs sh) (s_img s0) (s_reason s0) fin) eqn:G; [|discriminate].
    injection H0 as <-. apply andb_true_iff in G as [G G3]. apply andb_true_iff in G as [G1 G2].
    apply pphase_eqb_eq in G1. auto.
  Qed.

  Theorem scan_ok : forall tr s m s',
    Inv sh s m -> released s = false -> run sh s tr = Some s' -> released s' = true -> scan sh m tr = [].
  Proof.
    induction tr as [|e tr IH]; intros s m s' I R H R'; simpl in H.
    - injection H as <-. congruence.
    - destruct (step sh s e) as [s1|] eqn:E; [|discriminate].
      assert (Hn : (forall fin, e <> EvRelease fin) -> scan sh m (e :: tr) = []).
      { intro Hn. assert (X : scan sh m (e :: tr) = scan sh (mon_step m e) tr).
        { destruct e; try reflexivity. elim (Hn fin). reflexivity. }
        rewrite X. eapply (IH s1); eauto.
        - eapply step_Inv; eauto.
        - eapply step_not_released; eauto. }
      destruct e as [a|a o|o st n ok r|snap|fin]; try (apply Hn; intros fin' X; discriminate X).
      clear Hn. cbn [scan].
      destruct (release_step _ _ _ E) as (s0 & Hs & Hp & Ht & Ha & ->).
      destruct (eps_star_Inv _ _ m _ Hs I) as [I1 I2].
      rewrite (release_ok sh s0 m fin I1 I2 Hp Ht Ha). simpl.
      assert (I1' : Inv1 sh (with_fin (with_ph s0 PReleased) (Some fin)) m).
      { eapply release_Inv1; eauto. unfold h_release.
        rewrite (proj2 (pphase_eqb_eq _ _) Hp), Ht, Ha. reflexivity. }
      eapply (after_ok sh fin tr _ m s' I1'); eauto.
  Qed.

  (* every accepted trace that reaches the release satisfies the monitor: up to the release AND after it *)
  Theorem c04_final_released tr s :
    run sh init tr = Some s -> released s = true -> mon_final_core (sh, tr) = true.
  Proof.
    intros H R. unfold mon_final_core, final_codes. simpl.
    rewrite (scan_ok tr init mstate0 s); auto. apply Inv_init.
  Qed.

  Theorem c04_final_consistent tr fin s :
    run sh init (tr ++ [EvRelease fin]) = Some s -> mon_final_core (sh, tr ++ [EvRelease fin]) = true.
  Proof.
    intro H. apply (c04_final_released _ s H).
    rewrite run_app in H. destruct (run sh init tr) as [s1|]; [|discriminate]. simpl in H.
    destruct (step sh s1 (EvRelease fin)) as [s2|] eqn:E; [|discriminate]. injection H as <-.
    destruct (release_step _ _ _ E) as (s0 & _ & _ & _ & _ & ->). reflexivity.
  Qed.
End Main.
