(* The C04 theorems: every trace the observable automaton accepts satisfies mon_final_core. *)
From Coq Require Import Lia.
From Coercion.Base Require Import Plan.
From Coercion.Engine Require Import Shape Event Action ChecksRun Seq Block Final PlanSM Auto Accept AutoLemmas.
From Coercion.C04 Require Import MonC04 Views InvDefs InvLocal InvGlobal InvLift InvOps InvHandle InvWrite InvStep
     InvEps InvFoot InvPath AllObjs C04Run C04Release.

Local Arguments iget : simpl never.
Local Arguments ist : simpl never.
Local Arguments tlook : simpl never.
Local Arguments all_objs : simpl never.

(* the monitor's state after a prefix of the trace *)
Definition mon_after (tr : list event) : mstate := fold_left mon_step tr mstate0.

Section Main.
  Variable sh : shape.

  Lemma run_Inv_gen : forall tr s m s', Inv sh s m -> run sh s tr = Some s' -> Inv sh s' (fold_left mon_step tr m).
  Proof.
    induction tr as [|e tr IH]; intros s m s' I H; simpl in *.
    - now injection H as <-.
    - destruct (step sh s e) as [s1|] eqn:E; [|discriminate]. eapply IH; eauto. eapply step_Inv; eauto.
  Qed.

  Lemma run_Inv tr s : run sh init tr = Some s -> Inv sh s (mon_after tr).
  Proof. intro H. eapply run_Inv_gen; eauto. apply Inv_init. Qed.

  (* the release event, seen from the automaton *)
  Lemma release_step s fin s1 :
    step sh s (EvRelease fin) = Some s1 ->
    exists s0, eps_star sh s s0 /\ s_ph s0 = PEnd /\ is_terminal (ist (s_img s0) OPlan) = true
               /\ image_agrees (all_objs sh) (s_img s0) (s_reason s0) fin = true
               /\ s1 = with_fin (with_ph s0 PReleased) (Some fin).
  Proof.
    intro H. destruct (step_spec _ _ _ _ H) as [(s0 & Hs & H0)|[_ S]]; [|discriminate S].
    exists s0. split; [exact Hs|]. simpl in H0. unfold h_release in H0.
    destruct (pphase_eqb (s_ph s0) PEnd && is_terminal (ist (s_img s0) OPlan)
              && image_agrees (all_objs sh) (s_img s0) (s_reason s0) fin) eqn:G; [|discriminate].
    injection H0 as <-. apply andb_true_iff in G as [G G3]. apply andb_true_iff in G as [G1 G2].
    apply pphase_eqb_eq in G1. auto.
  Qed.

  Theorem scan_ok : forall tr s m s',
    Inv sh s m -> released s = false -> run sh s tr = Some s' -> released s' = true -> scan sh m tr = [].
  Proof.
    induction tr as [|e tr IH]; intros s m s' I R H R'; simpl in H.
    - injection H as <-. congruence.
    - destruct (step sh s e) as [s1|] eqn:E; [|discriminate].
      assert (Hn : (forall fin, e <> EvRelease fin) -> scan sh m (e :: tr) = []).
      { intro Hn. assert (X : scan sh m (e :: tr) = scan sh (mon_step m e) tr).
        { destruct e; try reflexivity. elim (Hn fin). reflexivity. }
        rewrite X. eapply (IH s1); eauto.
        - eapply step_Inv; eauto.
        - eapply step_not_released; eauto. }
      destruct e as [a|a o|o st n ok r|snap|fin]; try (apply Hn; intros fin' X; discriminate X).
      clear Hn. cbn [scan].
      destruct (release_step _ _ _ E) as (s0 & Hs & Hp & Ht & Ha & ->).
      destruct (eps_star_Inv _ _ m _ Hs I) as [I1 I2].
      rewrite (release_ok sh s0 m fin I1 I2 Hp Ht Ha). simpl.
      assert (I1' : Inv1 sh (with_fin (with_ph s0 PReleased) (Some fin)) m).
      { eapply release_Inv1; eauto. unfold h_release.
        rewrite (proj2 (pphase_eqb_eq _ _) Hp), Ht, Ha. reflexivity. }
      eapply (after_ok sh fin tr _ m s' I1'); eauto.
  Qed.

  (* every accepted trace that reaches the release satisfies the monitor: up to the release AND after it *)
  Theorem c04_final_released tr s :
    run sh init tr = Some s -> released s = true -> mon_final_core (sh, tr) = true.
  Proof.
    intros H R. unfold mon_final_core, final_codes. simpl.
    rewrite (scan_ok tr init mstate0 s); auto. apply Inv_init.
  Qed.

  Theorem c04_final_consistent tr fin s :
    run sh init (tr ++ [EvRelease fin]) = Some s -> mon_final_core (sh, tr ++ [EvRelease fin]) = true.
  Proof.
    intro H. apply (c04_final_released _ s H).
    rewrite run_app in H. destruct (run sh init tr) as [s1|]; [|discriminate]. simpl in H.
    destruct (step sh s1 (EvRelease fin)) as [s2|] eqn:E; [|discriminate]. injection H as <-.
    destruct (release_step _ _ _ E) as (s0 & _ & _ & _ & _ & ->). reflexivity.
  Qed.

  (* ---- the two ingredients, stated on their own ---- *)

  (* every action of the plan is related to its durable cell and tally by SOME state of its sub-automaton *)
  Lemma act_arel s m a :
    Inv1 sh s m -> obj_in_shape sh (OAct a) = true ->
    exists x, arel x (iget (s_img s) (OAct a)) (tlook (m_t m) a).
  Proof.
    intros I Hs. destruct a as [[|b] g i|b q i]; simpl in Hs.
    - unfold group_of in Hs. simpl in Hs.
      destruct (grp_get (sh_groups sh) g) as [rs|] eqn:R; [|discriminate].
      destruct (nth_error rs i) eqn:N; [|discriminate]. apply nth_error_some_lt in N.
      pose proof (i_groups _ _ _ I g) as GI. rewrite R in GI.
      exact (ginv_arel rs _ _ _ _ i GI N).
    - unfold group_of, scope_groups, block_of in Hs.
      destruct (nth_error (sh_blocks sh) b) as [bs|] eqn:Hb; [|discriminate]. simpl in Hs.
      destruct (grp_get (bs_groups bs) g) as [rs|] eqn:R; [|discriminate].
      destruct (nth_error rs i) eqn:N; [|discriminate]. apply nth_error_some_lt in N.
      destruct (any_binv _ _ _ _ _ I Hb) as (b0 & BG & _). specialize (BG g). rewrite R in BG.
      exact (ginv_arel rs _ _ _ _ i BG N).
    - unfold seq_of, block_of in Hs.
      destruct (nth_error (sh_blocks sh) b) as [bs|] eqn:Hb; [|discriminate].
      destruct (nth_error (bs_seqs bs) q) as [rs|] eqn:R; [|discriminate].
      destruct (nth_error rs i) eqn:N; [|discriminate]. apply nth_error_some_lt in N.
      destruct (any_binv _ _ _ _ _ I Hb) as (b0 & _ & BL & BQ).
      destruct (nth_error (b_seqs b0) q) as [x|] eqn:Qx.
      + exact (qinv_arel rs x _ _ _ i (BQ q rs x R Qx) N).
      + apply nth_error_None in Qx. apply nth_error_some_lt in R. lia.
  Qed.

  (* image_invariant: the durable image of EVERY reachable state satisfies the generalisation of `consistent`
     in which objects in progress may be Running: an action that is not Running is settled (NotStarted with
     no attempt, or Completed / Failed with attempts and Completed exactly when the last one has no error);
     a sequence durably Completed has only Completed actions; a sequence durably Failed has exactly one
     Failed action, every earlier one Completed, every later one untouched; the plan is never Stopped. *)
  Theorem image_invariant tr s :
    run sh init tr = Some s ->
    (forall a, obj_in_shape sh (OAct a) = true ->
       c_st (iget (s_img s) (OAct a)) <> Running -> settled (iget (s_img s) (OAct a)))
    /\ (forall b q rs, seq_of sh b q = Some rs ->
          (ist (s_img s) (OSeq b q) = Completed ->
             forall i, i < length rs -> c_st (iget (s_img s) (OAct (ASeq b q i))) = Completed)
          /\ (ist (s_img s) (OSeq b q) = Failed ->
               exists j, j < length rs
                 /\ (forall i, i < j -> c_st (iget (s_img s) (OAct (ASeq b q i))) = Completed)
                 /\ c_st (iget (s_img s) (OAct (ASeq b q j))) = Failed
                 /\ (forall i, j < i -> i < length rs -> iget (s_img s) (OAct (ASeq b q i)) = cell0)))
    /\ ist (s_img s) OPlan <> Stopped.
  Proof.
    intro H. destruct (run_Inv _ _ H) as [I1 _]. split; [|split].
    - intros a Hs NR. destruct (act_arel _ _ _ I1 Hs) as [x R].
      destruct x; simpl in R.
      + apply R.
      + destruct R as [E _]. rewrite E in NR. elim NR. reflexivity.
      + destruct R as [E _]. rewrite E in NR. elim NR. reflexivity.
      + destruct R as [E _]. rewrite E in NR. elim NR. reflexivity.
      + destruct R as (_ & E & _). rewrite E in NR. elim NR. reflexivity.
      + destruct R as (P & E & _). rewrite E. unfold settled. destruct v; simpl; auto.
    - intros b q rs Hq. unfold seq_of, block_of in Hq.
      destruct (nth_error (sh_blocks sh) b) as [bs|] eqn:Hb; [|discriminate].
      destruct (any_binv _ _ _ _ _ I1 Hb) as (b0 & _ & BL & BQ).
      destruct (nth_error (b_seqs b0) q) as [x|] eqn:Qx.
      2:{ apply nth_error_None in Qx. apply nth_error_some_lt in Hq. lia. }
      specialize (BQ q rs x Hq Qx). unfold qcf in BQ.
      destruct x as [|j y|v|v]; simpl in BQ.
      + destruct BQ as [E _]. rewrite E. split; discriminate.
      + destruct BQ as [E _]. rewrite E. split; discriminate.
      + destruct BQ as [E _]. rewrite E. split; discriminate.
      + destruct BQ as [E F]. rewrite E. destruct v; simpl in *; (split; [|]); try discriminate.
        * intros _ i Hi. apply (F i Hi).
        * intros _. destruct F as (j & Lj & F1 & F2 & F3). exists j. split; [exact Lj|]. split; [|split].
          -- intros i Hi. apply (F1 i Hi).
          -- apply F2.
          -- intros i Hi Hi'. apply (F3 i Hi Hi').
    - apply (i_plan _ _ _ I1).
  Qed.

  (* final_sound: on every image reachable at PEnd, what Final.final (the transcription of finalStates) returns -
     which is the only terminal plan write the automaton admits - is the status and reason the property asks for:
     the reason is the first stage, in the order pre, continuous, block, post, deferred, whose failure the trace
     shows (MonC04.shown_reason), and it is FRUnknown exactly when the status is Completed. *)
  Theorem final_sound tr s s0 fin :
    run sh init tr = Some s -> eps_star sh s s0 -> s_ph s0 = PEnd ->
    is_terminal (ist (s_img s0) OPlan) = true ->
    image_agrees (all_objs sh) (s_img s0) (s_reason s0) fin = true ->
    (ist (s_img s0) OPlan, s_reason s0) = final sh (ist (s_img s0))
    /\ snd (final sh (ist (s_img s0))) = shown_reason sh (m_t (mon_after tr)) fin
    /\ (fst (final sh (ist (s_img s0))) = Completed <-> snd (final sh (ist (s_img s0))) = FRUnknown).
  Proof.
    intros H Hs Hp Ht Ha. destruct (eps_star_Inv _ _ _ _ Hs (run_Inv _ _ H)) as [I1 I2].
    split; [|split].
    - eapply plan_is_final; eauto.
    - symmetry. eapply C04Release.final_sound; eauto.
    - apply final_completed_iff.
  Qed.
End Main.
