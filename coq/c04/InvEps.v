(* Inv1 is kept by the epsilon-moves (phase changes) of the automaton: they touch neither the image nor
   the monitor. *)
From Coq Require Import Lia.
From Coercion.Base Require Import Plan.
From Coercion.Engine Require Import Shape Event Action ChecksRun Seq Block Final PlanSM Auto Accept AutoLemmas.
From Coercion.C04 Require Import MonC04 Views InvDefs InvLocal InvGlobal InvLift InvOps InvHandle.

Local Arguments tlook : simpl never.
Local Arguments tput : simpl never.
Local Arguments iget : simpl never.
Local Arguments iset : simpl never.
Local Arguments ist : simpl never.

Lemma once_done_inv ors g img m sc gr x v :
  grp_inv ors g img m sc gr -> once_done (present ors) g (ist img (OChecks sc gr)) = Some (x, v) ->
  grp_inv ors x img m sc gr /\ g_is_idle x = true.
Proof.
  intros I H. unfold once_done in H. destruct ors as [rs|]; simpl in H.
  - destruct (g_settle g (ist img (OChecks sc gr))) as [y|] eqn:S; [|discriminate].
    destruct (grp_settle sc gr (Some rs) g img m y I S) as [I' Q].
    destruct y as [r l|]; [|discriminate]. destruct r; [discriminate|]. destruct l as [w|]; [|discriminate].
    injection H as <- <-. auto.
  - injection H as <- <-. split; [exact I|]. destruct I as [-> _]. reflexivity.
Qed.

Lemma inflight_zero_quiet b : inflight b = 0 -> forall q x, nth_error (b_seqs b) q = Some x -> s_quiet x = true.
Proof.
  unfold inflight, count. intros H q x Hx. apply nth_error_In in Hx.
  destruct (s_inflight x) eqn:E.
  - assert (In x (filter s_inflight (b_seqs b))) by (apply filter_In; auto).
    destruct (filter s_inflight (b_seqs b)); [contradiction|discriminate].
  - destruct x; simpl in *; auto; discriminate.
Qed.

(* ================= the block ================= *)
Section BlockEps.
  Variables (bs : bshape) (bi : nat) (img : dimg) (m : tmap).

  Lemma binv_settle b g x :
    binv bs bi b img m -> grp_inv (grp_get (bs_groups bs) g) x img m (SBlock bi) g ->
    binv bs bi (b_with_g b (tset (b_g b) g x)) img m.
  Proof.
    intros B G. eapply binv_set_group; eauto. intros a _. apply teq_refl.
  Qed.

  Lemma binv_ph b p : binv bs bi b img m -> binv bs bi (b_with_ph b p) img m.
  Proof. intros (A & B & C). split; [|split]; auto. Qed.
  Lemma binv_thr b t : binv bs bi b img m -> binv bs bi (b_with_thr b t) img m.
  Proof. intros (A & B & C). split; [|split]; auto. Qed.
  Lemma binv_cause b c : binv bs bi b img m -> binv bs bi (b_with_cause b c) img m.
  Proof. intros (A & B & C). split; [|split]; auto. Qed.

  Ltac winb := unfold b_windows in *; simpl in *;
               repeat match goal with H : _ /\ _ |- _ => destruct H end;
               repeat split; auto;
               try (intros; match goal with H : _ -> forall q x, _ |- _ => eapply H; eauto; discriminate end).

  Lemma b_eps_stay pvis b b' :
    binv bs bi b img m -> b_windows b -> b_eps bs img bi pvis b = Some (BStay b') ->
    binv bs bi b' img m /\ b_windows b'.
  Proof.
    intros B W H. unfold b_eps in H. destruct (b_ph b) eqn:Hp.
    - (* BEnter *)
      destruct (status_eqb (ist img (OBlock bi)) Running); [|discriminate]. injection H as <-.
      split; [apply binv_ph; auto|].
      destruct W as (W1 & W2 & W3 & W4 & W5 & W6). rewrite Hp in *. unfold b_windows. simpl.
      repeat split.
      + destruct W1 as [X|X]; [auto|discriminate X].
      + destruct W2 as [X|X]; [auto|discriminate X].
      + destruct W3 as [X|[X|X]]; [auto|discriminate X|auto].
      + destruct W4 as [X|X]; [auto|discriminate X].
      + destruct W5 as [X|X]; [auto|discriminate X].
      + intros _. apply W6. discriminate.
    - (* BBypass *)
      destruct W as (W1 & W2 & W3 & W4 & W5 & W6). rewrite Hp in *.
      assert (Q6 : forall q x, nth_error (b_seqs b) q = Some x -> s_quiet x = true) by (apply W6; discriminate).
      assert (I2 : g_is_idle (t_pre (b_g b)) = true) by (destruct W2 as [X|X]; [auto|discriminate X]).
      assert (I4 : g_is_idle (t_post (b_g b)) = true) by (destruct W4 as [X|X]; [auto|discriminate X]).
      assert (I5 : g_is_idle (t_deferred (b_g b)) = true) by (destruct W5 as [X|X]; [auto|discriminate X]).
      assert (I3 : g_is_idle (t_cont (b_g b)) = true \/ thr_live (b_thr b) = true)
        by (destruct W3 as [X|[X|X]]; [auto|discriminate X|auto]).
      destruct (g_bypass (bs_groups bs)) as [rs|] eqn:R.
      + destruct (once_done true (t_bypass (b_g b)) (ist img (OChecks (SBlock bi) GBypass))) as [[x v]|] eqn:O;
          [|discriminate].
        pose proof (proj1 B GBypass) as GI. simpl in GI. rewrite R in GI.
        destruct (once_done_inv (Some rs) _ _ _ _ _ x v GI O) as [GI' Qx].
        assert (B' : binv bs bi (b_with_g b (tset (b_g b) GBypass x)) img m).
        { apply binv_settle; auto. simpl. rewrite R. exact GI'. }
        destruct v; injection H as <-; (split; [apply binv_ph; exact B'|]);
          unfold b_windows; simpl; repeat split; auto;
          try (destruct I3; auto; fail); try (intros _; exact Q6).
      + injection H as <-. split; [apply binv_ph; auto|].
        pose proof (proj1 B GBypass) as GI. simpl in GI. rewrite R in GI. destruct GI as [G0 _].
        unfold b_windows; simpl; repeat split; auto;
          try (left; rewrite G0; reflexivity); try (destruct I3; auto; fail); try (intros _; exact Q6).
    - (* BPre *)
      destruct W as (W1 & W2 & W3 & W4 & W5 & W6). rewrite Hp in *.
      assert (Q6 : forall q x, nth_error (b_seqs b) q = Some x -> s_quiet x = true) by (apply W6; discriminate).
      assert (I1 : g_is_idle (t_bypass (b_g b)) = true) by (destruct W1 as [X|X]; [auto|discriminate X]).
      assert (I4 : g_is_idle (t_post (b_g b)) = true) by (destruct W4 as [X|X]; [auto|discriminate X]).
      assert (I5 : g_is_idle (t_deferred (b_g b)) = true) by (destruct W5 as [X|X]; [auto|discriminate X]).
      destruct (once_done (present (g_pre (bs_groups bs))) (t_pre (b_g b)) (ist img (OChecks (SBlock bi) GPre)))
        as [[x v1]|] eqn:O1; [|discriminate].
      destruct (once_done (present (g_cont (bs_groups bs))) (t_cont (b_g b)) (ist img (OChecks (SBlock bi) GCont)))
        as [[y v2]|] eqn:O2; [|discriminate].
      destruct (once_done_inv _ _ _ _ _ _ x v1 (proj1 B GPre) O1) as [GX Qx].
      destruct (once_done_inv _ _ _ _ _ _ y v2 (proj1 B GCont) O2) as [GY Qy].
      assert (B' : binv bs bi (b_with_g b (tset (tset (b_g b) GPre x) GCont y)) img m).
      { apply (binv_settle (b_with_g b (tset (b_g b) GPre x)) GCont y); [apply binv_settle; auto|exact GY]. }
      destruct (v1 && v2); injection H as <-.
      + split; [apply binv_ph; apply binv_thr; exact B'|].
        unfold b_windows; simpl; repeat split; auto; try (intro X; contradiction).
      + split; [apply binv_ph; apply binv_cause; exact B'|].
        unfold b_windows; simpl; repeat split; auto; try (intros _; exact Q6).
    - (* BSeqs *)
      destruct (Nat.eqb (inflight b) 0) eqn:IF; simpl in H; [|discriminate]. apply Nat.eqb_eq in IF.
      pose proof (inflight_zero_quiet b IF) as Q6.
      destruct W as (W1 & W2 & W3 & W4 & W5 & _). rewrite Hp in *.
      assert (I1 : g_is_idle (t_bypass (b_g b)) = true) by (destruct W1 as [X|X]; [auto|discriminate X]).
      assert (I2 : g_is_idle (t_pre (b_g b)) = true) by (destruct W2 as [X|X]; [auto|discriminate X]).
      assert (I4 : g_is_idle (t_post (b_g b)) = true) by (destruct W4 as [X|X]; [auto|discriminate X]).
      assert (I5 : g_is_idle (t_deferred (b_g b)) = true) by (destruct W5 as [X|X]; [auto|discriminate X]).
      assert (I3 : g_is_idle (t_cont (b_g b)) = true \/ thr_live (b_thr b) = true)
        by (destruct W3 as [X|[X|X]]; [auto|discriminate X|auto]).
      assert (K : forall b1, b_g b1 = b_g b -> b_thr b1 = b_thr b -> b_seqs b1 = b_seqs b ->
                  (b_ph b1 = BPost \/ b_ph b1 = BDeferred) -> b_windows b1).
      { intros b1 E1 E2 E3 E4. unfold b_windows. rewrite E1, E2, E3.
        repeat split; auto; try (destruct I3; auto; fail); try (intros _; exact Q6). }
      destruct (exceeded bs b).
      { injection H as <-. split; [apply binv_ph; apply binv_cause; auto|]. apply K; simpl; auto. }
      destruct (all_started b).
      { injection H as <-. split; [apply binv_ph; auto|]. apply K; simpl; auto. }
      destruct (pvis || thr_live (b_thr b) && g_dead (t_cont (b_g b))); [|discriminate].
      injection H as <-. split; [apply binv_ph; apply binv_cause; auto|]. apply K; simpl; auto.
    - (* BPost *)
      destruct W as (W1 & W2 & W3 & W4 & W5 & W6). rewrite Hp in *.
      assert (Q6 : forall q x, nth_error (b_seqs b) q = Some x -> s_quiet x = true) by (apply W6; discriminate).
      assert (I1 : g_is_idle (t_bypass (b_g b)) = true) by (destruct W1 as [X|X]; [auto|discriminate X]).
      assert (I2 : g_is_idle (t_pre (b_g b)) = true) by (destruct W2 as [X|X]; [auto|discriminate X]).
      assert (I5 : g_is_idle (t_deferred (b_g b)) = true) by (destruct W5 as [X|X]; [auto|discriminate X]).
      assert (I3 : g_is_idle (t_cont (b_g b)) = true \/ thr_live (b_thr b) = true)
        by (destruct W3 as [X|[X|X]]; [auto|discriminate X|auto]).
      destruct (once_done (present (g_post (bs_groups bs))) (t_post (b_g b)) (ist img (OChecks (SBlock bi) GPost)))
        as [[x v]|] eqn:O; [|discriminate]. injection H as <-.
      destruct (once_done_inv _ _ _ _ _ _ x v (proj1 B GPost) O) as [GX Qx].
      assert (B' : binv bs bi (b_with_g b (tset (b_g b) GPost x)) img m) by (apply binv_settle; auto).
      split; [apply binv_ph; apply binv_cause; exact B'|].
      unfold b_windows; simpl; repeat split; auto; try (destruct I3; auto; fail); try (intros _; exact Q6).
    - (* BDeferred *)
      destruct W as (W1 & W2 & W3 & W4 & W5 & W6). rewrite Hp in *.
      assert (Q6 : forall q x, nth_error (b_seqs b) q = Some x -> s_quiet x = true) by (apply W6; discriminate).
      assert (I1 : g_is_idle (t_bypass (b_g b)) = true) by (destruct W1 as [X|X]; [auto|discriminate X]).
      assert (I2 : g_is_idle (t_pre (b_g b)) = true) by (destruct W2 as [X|X]; [auto|discriminate X]).
      assert (I4 : g_is_idle (t_post (b_g b)) = true) by (destruct W4 as [X|X]; [auto|discriminate X]).
      assert (I3 : g_is_idle (t_cont (b_g b)) = true \/ thr_live (b_thr b) = true)
        by (destruct W3 as [X|[X|X]]; [auto|discriminate X|auto]).
      destruct (once_done (present (g_deferred (bs_groups bs))) (t_deferred (b_g b)) (ist img (OChecks (SBlock bi) GDeferred)))
        as [[x v]|] eqn:O; [|discriminate]. injection H as <-.
      destruct (once_done_inv _ _ _ _ _ _ x v (proj1 B GDeferred) O) as [GX Qx].
      assert (B' : binv bs bi (b_with_g b (tset (b_g b) GDeferred x)) img m) by (apply binv_settle; auto).
      split; [apply binv_ph; apply binv_cause; exact B'|].
      unfold b_windows; simpl; repeat split; auto; try (destruct I3; auto; fail); try (intros _; exact Q6).
    - (* BEnd *)
      destruct W as (W1 & W2 & W3 & W4 & W5 & W6). rewrite Hp in *.
      assert (Q6 : forall q x, nth_error (b_seqs b) q = Some x -> s_quiet x = true) by (apply W6; discriminate).
      assert (I1 : g_is_idle (t_bypass (b_g b)) = true) by (destruct W1 as [X|X]; [auto|discriminate X]).
      assert (I2 : g_is_idle (t_pre (b_g b)) = true) by (destruct W2 as [X|X]; [auto|discriminate X]).
      assert (I4 : g_is_idle (t_post (b_g b)) = true) by (destruct W4 as [X|X]; [auto|discriminate X]).
      assert (I5 : g_is_idle (t_deferred (b_g b)) = true) by (destruct W5 as [X|X]; [auto|discriminate X]).
      destruct (thr_live (b_thr b)) eqn:L.
      + destruct (g_settle (t_cont (b_g b)) (ist img (OChecks (SBlock bi) GCont))) as [x|] eqn:S; [|discriminate].
        injection H as <-.
        destruct (grp_settle (SBlock bi) GCont _ _ _ _ x (proj1 B GCont) S) as [GX Qx].
        assert (B' : binv bs bi (b_with_g b (tset (b_g b) GCont x)) img m) by (apply binv_settle; auto).
        split; [apply binv_cause; apply binv_thr; exact B'|].
        unfold b_windows; simpl; rewrite Hp; repeat split; auto; try (intros _; exact Q6).
      + destruct (status_eqb (ist img (OBlock bi)) (if b_cause b then Failed else Completed)); discriminate.
  Qed.

  Lemma b_eps_finished pvis b f :
    b_windows b -> b_eps bs img bi pvis b = Some (BFinished f) ->
    b_quiet b /\ ist img (OBlock bi) = (if f then Failed else Completed).
  Proof.
    intros W H. unfold b_eps in H. destruct (b_ph b) eqn:Hp.
    - destruct (status_eqb (ist img (OBlock bi)) Running); discriminate.
    - destruct (g_bypass (bs_groups bs)); [|discriminate].
      destruct (once_done true (t_bypass (b_g b)) (ist img (OChecks (SBlock bi) GBypass))) as [[x [|]]|]; discriminate.
    - destruct (once_done _ (t_pre (b_g b)) _) as [[x v1]|]; [|discriminate].
      destruct (once_done _ (t_cont (b_g b)) _) as [[y v2]|]; [|discriminate].
      destruct (v1 && v2); discriminate.
    - destruct (negb (Nat.eqb (inflight b) 0)); [discriminate|].
      destruct (exceeded bs b); [discriminate|]. destruct (all_started b); [discriminate|].
      destruct (pvis || thr_live (b_thr b) && g_dead (t_cont (b_g b))); discriminate.
    - destruct (once_done _ (t_post (b_g b)) _) as [[x v]|]; discriminate.
    - destruct (once_done _ (t_deferred (b_g b)) _) as [[x v]|]; discriminate.
    - destruct (thr_live (b_thr b)) eqn:L.
      + destruct (g_settle (t_cont (b_g b)) _); discriminate.
      + destruct (status_eqb (ist img (OBlock bi)) (if b_cause b then Failed else Completed)) eqn:E; [|discriminate].
        injection H as <-. apply status_eqb_eq in E. split; [|exact E].
        destruct W as (W1 & W2 & W3 & W4 & W5 & W6). rewrite Hp in *. split.
        * intros []; simpl.
          -- destruct W1 as [X|X]; [auto|discriminate X].
          -- destruct W2 as [X|X]; [auto|discriminate X].
          -- destruct W3 as [X|[X|X]]; [auto|discriminate X|congruence].
          -- destruct W4 as [X|X]; [auto|discriminate X].
          -- destruct W5 as [X|X]; [auto|discriminate X].
        * apply W6. discriminate.
  Qed.
End BlockEps.

(* ================= the plan ================= *)
Section PlanEps.
  Variable sh : shape.

  Lemma groups_set s m g x :
    (forall g', grp_inv (grp_get (sh_groups sh) g') (tget (s_g s) g') (s_img s) (m_t m) SPlan g') ->
    grp_inv (grp_get (sh_groups sh) g) x (s_img s) (m_t m) SPlan g ->
    forall g', grp_inv (grp_get (sh_groups sh) g') (tget (tset (s_g s) g x) g') (s_img s) (m_t m) SPlan g'.
  Proof.
    intros H Hx g'. destruct (grp_dec g g') as [<-|Hn].
    - rewrite tget_tset_same. exact Hx.
    - rewrite tget_tset_other by auto. apply H.
  Qed.

  (* blocks: the strong form (nothing entered yet) gives the weak form (after the blocks) *)
  Lemma blocks_strong_weak bs bi img m :
    binv bs bi (b_init bs) img m /\ ist img (OBlock bi) = NotStarted ->
    (exists b, b_quiet b /\ binv bs bi b img m) /\ blk_done (ist img (OBlock bi)).
  Proof.
    intros [B S]. split; [exists (b_init bs); split; [apply b_init_quiet|exact B]|]. left. exact S.
  Qed.

  Theorem eps_Inv1 s m s1 : Inv1 sh s m -> eps sh s = Some s1 -> Inv1 sh s1 m.
  Proof.
    intros I H. unfold eps, p_eps in H. destruct I as [Ig Iw Ib Il Ipw Ipl].
    destruct Iw as (W1 & W2 & W3 & W4 & W5 & W6).
    destruct (s_ph s) eqn:Hp.
    - (* PStart -> PBypass *)
      destruct (status_eqb (ist (s_img s) OPlan) Running); [|discriminate]. injection H as <-.
      assert (L : thr_live (s_thr s) = false).
      { destruct (thr_live (s_thr s)) eqn:L; auto. destruct (W6 eq_refl) as [X|[X|X]]; discriminate X. }
      constructor; simpl; auto.
      + unfold p_windows; simpl. repeat split.
        * destruct W1 as [X|X]; [auto|discriminate X].
        * destruct W2 as [X|X]; [auto|discriminate X].
        * destruct W3 as [X|[X|X]]; [auto|discriminate X|congruence].
        * destruct W4 as [X|[X _]]; [auto|discriminate X].
        * destruct W5 as [X|[X _]]; [auto|discriminate X].
        * intro X. congruence.
      + intros bi bs Hb. specialize (Ib bi bs Hb). rewrite Hp in Ib. simpl. exact Ib.
    - (* PBypass *)
      assert (L : thr_live (s_thr s) = false).
      { destruct (thr_live (s_thr s)) eqn:L; auto. destruct (W6 eq_refl) as [X|[X|X]]; discriminate X. }
      assert (I2 : g_is_idle (t_pre (s_g s)) = true) by (destruct W2 as [X|X]; [auto|discriminate X]).
      assert (I3 : g_is_idle (t_cont (s_g s)) = true) by (destruct W3 as [X|[X|X]]; [auto|discriminate X|congruence]).
      assert (I4 : g_is_idle (t_post (s_g s)) = true) by (destruct W4 as [X|[X _]]; [auto|discriminate X]).
      assert (I5 : g_is_idle (t_deferred (s_g s)) = true) by (destruct W5 as [X|[X _]]; [auto|discriminate X]).
      destruct (g_bypass (sh_groups sh)) as [rs|] eqn:R.
      + destruct (once_done true (t_bypass (s_g s)) (ist (s_img s) (OChecks SPlan GBypass))) as [[x v]|] eqn:O;
          [|discriminate].
        pose proof (Ig GBypass) as GI. simpl in GI. rewrite R in GI.
        destruct (once_done_inv (Some rs) _ _ _ _ _ x v GI O) as [GI' Qx].
        assert (G' : forall g', grp_inv (grp_get (sh_groups sh) g') (tget (tset (s_g s) GBypass x) g') (s_img s) (m_t m) SPlan g').
        { apply groups_set; auto. simpl. rewrite R. exact GI'. }
        destruct v; injection H as <-; constructor; simpl; auto.
        * unfold p_windows; simpl. repeat split; auto; try (intro X; congruence).
        * intros bi bs Hb. specialize (Ib bi bs Hb). rewrite Hp in Ib. simpl. apply blocks_strong_weak. exact Ib.
        * unfold p_windows; simpl. repeat split; auto; try (intro X; congruence).
        * intros bi bs Hb. specialize (Ib bi bs Hb). rewrite Hp in Ib. simpl. exact Ib.
      + injection H as <-.
        pose proof (Ig GBypass) as GI. simpl in GI. rewrite R in GI. destruct GI as [G0 _].
        constructor; simpl; auto.
        * unfold p_windows; simpl. repeat split; auto; try (left; rewrite G0; reflexivity); try (intro X; congruence).
        * intros bi bs Hb. specialize (Ib bi bs Hb). rewrite Hp in Ib. simpl. exact Ib.
    - (* PPre *)
      assert (L : thr_live (s_thr s) = false).
      { destruct (thr_live (s_thr s)) eqn:L; auto. destruct (W6 eq_refl) as [X|[X|X]]; discriminate X. }
      assert (I1 : g_is_idle (t_bypass (s_g s)) = true) by (destruct W1 as [X|X]; [auto|discriminate X]).
      assert (I4 : g_is_idle (t_post (s_g s)) = true) by (destruct W4 as [X|[X _]]; [auto|discriminate X]).
      assert (I5 : g_is_idle (t_deferred (s_g s)) = true) by (destruct W5 as [X|[X _]]; [auto|discriminate X]).
      destruct (once_done (present (g_pre (sh_groups sh))) (t_pre (s_g s)) (ist (s_img s) (OChecks SPlan GPre)))
        as [[x v1]|] eqn:O1; [|discriminate].
      destruct (once_done (present (g_cont (sh_groups sh))) (t_cont (s_g s)) (ist (s_img s) (OChecks SPlan GCont)))
        as [[y v2]|] eqn:O2; [|discriminate].
      destruct (once_done_inv _ _ _ _ _ _ x v1 (Ig GPre) O1) as [GX Qx].
      destruct (once_done_inv _ _ _ _ _ _ y v2 (Ig GCont) O2) as [GY Qy].
      assert (G' : forall g', grp_inv (grp_get (sh_groups sh) g') (tget (tset (tset (s_g s) GPre x) GCont y) g')
                                      (s_img s) (m_t m) SPlan g').
      { intro g'. destruct (grp_dec GCont g') as [<-|Hn].
        - rewrite tget_tset_same. exact GY.
        - rewrite tget_tset_other by auto. apply groups_set; auto. }
      destruct (v1 && v2); injection H as <-.
      + (* into the first block *)
        unfold enter_block. destruct (block_of sh 0) as [bs0|] eqn:B0; constructor; simpl; auto.
        * unfold p_windows; simpl. repeat split; auto.
        * intros bi bs Hb. specialize (Ib bi bs Hb). rewrite Hp in Ib. simpl.
          destruct bi as [|bi]; simpl.
          -- unfold block_of in B0. rewrite B0 in Hb. injection Hb as <-.
             split; [apply Ib|apply b_init_windows].
          -- exact Ib.
        * unfold p_windows; simpl. repeat split; auto.
        * intros bi bs Hb. unfold block_of in B0. apply nth_error_None in B0.
          apply nth_error_some_lt in Hb. lia.
      + constructor; simpl; auto.
        * unfold p_windows; simpl. repeat split; auto; try (intro X; congruence).
        * intros bi bs Hb. specialize (Ib bi bs Hb). rewrite Hp in Ib. simpl. apply blocks_strong_weak. exact Ib.
    - (* PBlocks *)
      assert (I1 : g_is_idle (t_bypass (s_g s)) = true) by (destruct W1 as [X|X]; [auto|discriminate X]).
      assert (I2 : g_is_idle (t_pre (s_g s)) = true) by (destruct W2 as [X|X]; [auto|discriminate X]).
      assert (I3 : g_is_idle (t_cont (s_g s)) = true \/ thr_live (s_thr s) = true)
        by (destruct W3 as [X|[X|X]]; [auto|discriminate X|auto]).
      assert (I4 : g_is_idle (t_post (s_g s)) = true) by (destruct W4 as [X|[X _]]; [auto|discriminate X]).
      assert (I5 : g_is_idle (t_deferred (s_g s)) = true) by (destruct W5 as [X|[X _]]; [auto|discriminate X]).
      destruct (block_of sh (s_cb s)) as [bs|] eqn:B0.
      + unfold block_of in B0.
        pose proof (Ib _ _ B0) as Icur. rewrite Hp, Nat.ltb_irrefl, Nat.eqb_refl in Icur. destruct Icur as [BI BW].
        destruct (b_eps bs (s_img s) (s_cb s) (p_visible s) (s_b s)) as [[b'|f]|] eqn:E; [| |discriminate].
        * (* the block moves on *)
          injection H as <-. destruct (b_eps_stay _ _ _ _ _ _ _ BI BW E) as [BI' BW'].
          constructor; simpl; auto.
          -- unfold p_windows; simpl. rewrite Hp. repeat split; auto; try (destruct I3; auto; fail).
          -- intros bi bs' Hb. specialize (Ib bi bs' Hb). rewrite Hp in Ib. simpl. rewrite Hp.
             destruct (bi <? s_cb s); [exact Ib|].
             destruct (Nat.eqb bi (s_cb s)) eqn:Q; [|exact Ib].
             apply Nat.eqb_eq in Q. subst bi. rewrite B0 in Hb. injection Hb as <-. auto.
        * (* the block is over *)
          destruct (b_eps_finished _ _ _ _ _ _ BW E) as [BQ BS].
          assert (Hweak : forall bi bs', nth_error (sh_blocks sh) bi = Some bs' ->
                    (exists b, b_quiet b /\ binv bs' bi b (s_img s) (m_t m)) /\ blk_done (ist (s_img s) (OBlock bi))).
          { intros bi bs' Hb. specialize (Ib bi bs' Hb). rewrite Hp in Ib.
            destruct (bi <? s_cb s).
            - destruct Ib as [X Y]. split; [exact X|]. right. left. exact Y.
            - destruct (Nat.eqb bi (s_cb s)) eqn:Q.
              + apply Nat.eqb_eq in Q. subst bi. rewrite B0 in Hb. injection Hb as <-.
                split; [exists (s_b s); split; [exact BQ|apply Ib]|]. rewrite BS. destruct f; [right; right|right; left]; reflexivity.
              + apply blocks_strong_weak. exact Ib. }
          destruct f.
          -- (* failed: to the deferred checks *)
             injection H as <-. constructor; simpl; auto.
             unfold p_windows; simpl. repeat split; auto; try (destruct I3; auto; fail).
          -- (* completed: into the next block *)
             injection H as <-. unfold enter_block.
             assert (Hnext : forall b1, blocks_inv sh (with_block s (S (s_cb s)) b1) (m_t m) ->
                       Inv1 sh (with_block s (S (s_cb s)) b1) m).
             { intros b1 Hb1. constructor; simpl; auto.
               unfold p_windows; simpl. rewrite Hp. repeat split; auto; try (destruct I3; auto; fail). }
             destruct (block_of sh (S (s_cb s))) as [bs1|] eqn:B1; apply Hnext; intros bi bs' Hb; simpl; rewrite Hp.
             ++ destruct (bi <? S (s_cb s)) eqn:LT.
                ** apply Nat.ltb_lt in LT. specialize (Ib bi bs' Hb). rewrite Hp in Ib.
                   destruct (bi <? s_cb s) eqn:LT'; [exact Ib|]. apply Nat.ltb_ge in LT'.
                   assert (bi = s_cb s) by lia. subst bi. rewrite Nat.eqb_refl in Ib.
                   rewrite B0 in Hb. injection Hb as <-.
                   split; [exists (s_b s); split; [exact BQ|apply Ib]|exact BS].
                ** apply Nat.ltb_ge in LT. specialize (Ib bi bs' Hb). rewrite Hp in Ib.
                   assert (LT' : bi <? s_cb s = false) by (apply Nat.ltb_ge; lia). rewrite LT' in Ib.
                   assert (NE : Nat.eqb bi (s_cb s) = false) by (apply Nat.eqb_neq; lia). rewrite NE in Ib.
                   destruct (Nat.eqb bi (S (s_cb s))) eqn:Q; [|exact Ib].
                   apply Nat.eqb_eq in Q. subst bi. unfold block_of in B1. rewrite B1 in Hb. injection Hb as <-.
                   split; [apply Ib|apply b_init_windows].
             ++ unfold block_of in B1. apply nth_error_None in B1. pose proof (nth_error_some_lt _ _ _ Hb) as LB.
                assert (LT : bi <? S (s_cb s) = true) by (apply Nat.ltb_lt; lia). rewrite LT.
                specialize (Ib bi bs' Hb). rewrite Hp in Ib.
                destruct (bi <? s_cb s) eqn:LT'; [exact Ib|]. apply Nat.ltb_ge in LT'.
                assert (bi = s_cb s) by lia. subst bi. rewrite Nat.eqb_refl in Ib.
                rewrite B0 in Hb. injection Hb as <-.
                split; [exists (s_b s); split; [exact BQ|apply Ib]|exact BS].
      + (* no more blocks: to the post checks *)
        injection H as <-. unfold block_of in B0. apply nth_error_None in B0.
        constructor; simpl; auto.
        * unfold p_windows; simpl. repeat split; auto; try (destruct I3; auto; fail).
        * intros bi bs' Hb. specialize (Ib bi bs' Hb). rewrite Hp in Ib. simpl.
          pose proof (nth_error_some_lt _ _ _ Hb) as LB.
          assert (LT : bi <? s_cb s = true) by (apply Nat.ltb_lt; lia). rewrite LT in Ib.
          destruct Ib as [X Y]. split; [exact X|]. right. left. exact Y.
    - (* PPost *)
      assert (I1 : g_is_idle (t_bypass (s_g s)) = true) by (destruct W1 as [X|X]; [auto|discriminate X]).
      assert (I2 : g_is_idle (t_pre (s_g s)) = true) by (destruct W2 as [X|X]; [auto|discriminate X]).
      assert (I5 : g_is_idle (t_deferred (s_g s)) = true) by (destruct W5 as [X|[X _]]; [auto|discriminate X]).
      assert (Bk : forall ph', match ph' with PPost | PDeferred => True | _ => False end ->
                   forall s', s_ph s' = ph' -> s_img s' = s_img s -> blocks_inv sh s' (m_t m)).
      { intros ph' Hph s' E1 E2 bi bs' Hb. specialize (Ib bi bs' Hb). rewrite Hp in Ib. rewrite E1, E2.
        destruct ph'; try contradiction; exact Ib. }
      destruct (thr_live (s_thr s)) eqn:L.
      + (* drain the continuous thread *)
        destruct (g_settle (t_cont (s_g s)) (ist (s_img s) (OChecks SPlan GCont))) as [x|] eqn:S; [|discriminate].
        injection H as <-.
        destruct (grp_settle SPlan GCont _ _ _ _ x (Ig GCont) S) as [GX Qx].
        assert (I4 : g_is_idle (t_post (s_g s)) = true) by (destruct W4 as [X|[_ X]]; [auto|congruence]).
        assert (G' := groups_set s m GCont x Ig GX).
        destruct (g_dead x); constructor; simpl; auto;
          try (unfold p_windows; simpl; repeat split; auto; intro X; discriminate X).
        all: try (apply (Bk PDeferred I); reflexivity); try (apply (Bk PPost I); simpl; auto).
      + destruct (once_done (present (g_post (sh_groups sh))) (t_post (s_g s)) (ist (s_img s) (OChecks SPlan GPost)))
          as [[x v]|] eqn:O; [|discriminate]. injection H as <-.
        destruct (once_done_inv _ _ _ _ _ _ x v (Ig GPost) O) as [GX Qx].
        assert (I3 : g_is_idle (t_cont (s_g s)) = true) by (destruct W3 as [X|[X|X]]; [auto|discriminate X|congruence]).
        assert (G' := groups_set s m GPost x Ig GX).
        constructor; simpl; auto.
        all: try (unfold p_windows; simpl; repeat split; auto; try (intro X; congruence); fail).
        all: try (apply (Bk PDeferred I); reflexivity).
    - (* PDeferred *)
      assert (I1 : g_is_idle (t_bypass (s_g s)) = true) by (destruct W1 as [X|X]; [auto|discriminate X]).
      assert (I2 : g_is_idle (t_pre (s_g s)) = true) by (destruct W2 as [X|X]; [auto|discriminate X]).
      assert (I4 : g_is_idle (t_post (s_g s)) = true) by (destruct W4 as [X|[X _]]; [auto|discriminate X]).
      assert (Bk : forall ph', match ph' with PDeferred | PEnd => True | _ => False end ->
                   forall s', s_ph s' = ph' -> s_img s' = s_img s -> blocks_inv sh s' (m_t m)).
      { intros ph' Hph s' E1 E2 bi bs' Hb. specialize (Ib bi bs' Hb). rewrite Hp in Ib. rewrite E1, E2.
        destruct ph'; try contradiction; exact Ib. }
      destruct (thr_live (s_thr s)) eqn:L.
      + destruct (g_settle (t_cont (s_g s)) (ist (s_img s) (OChecks SPlan GCont))) as [x|] eqn:S; [|discriminate].
        injection H as <-.
        destruct (grp_settle SPlan GCont _ _ _ _ x (Ig GCont) S) as [GX Qx].
        assert (I5 : g_is_idle (t_deferred (s_g s)) = true) by (destruct W5 as [X|[_ X]]; [auto|congruence]).
        assert (G' := groups_set s m GCont x Ig GX).
        constructor; simpl; auto.
        all: try (unfold p_windows; simpl; repeat split; auto; try (intro X; discriminate X); fail).
        all: try (apply (Bk PDeferred I); simpl; auto).
      + destruct (once_done (present (g_deferred (sh_groups sh))) (t_deferred (s_g s)) (ist (s_img s) (OChecks SPlan GDeferred)))
          as [[x v]|] eqn:O; [|discriminate]. injection H as <-.
        destruct (once_done_inv _ _ _ _ _ _ x v (Ig GDeferred) O) as [GX Qx].
        assert (I3 : g_is_idle (t_cont (s_g s)) = true) by (destruct W3 as [X|[X|X]]; [auto|discriminate X|congruence]).
        assert (G' := groups_set s m GDeferred x Ig GX).
        constructor; simpl; auto.
        all: try (unfold p_windows; simpl; repeat split; auto; try (intro X; congruence); fail).
        all: try (apply (Bk PEnd I); reflexivity).
    - discriminate.
    - discriminate.
  Qed.
End PlanEps.
