(* Lifting lemmas: how a step inside ONE component (a plan-level check group, the current block, the plan's
   own cell, or nothing but tallies) re-establishes the whole invariant Inv1. *)
From Coq Require Import Lia.
From Coercion.Base Require Import Plan.
From Coercion.Engine Require Import Shape Event Action ChecksRun Seq Block Final PlanSM Auto Accept AutoLemmas.
From Coercion.C04 Require Import MonC04 Views InvDefs InvLocal InvGlobal.

Lemma pphase_eqb_eq a b : pphase_eqb a b = true <-> a = b.
Proof. destruct a, b; simpl; split; intro H; try reflexivity; discriminate H. Qed.
Lemma bphase_eqb_eq a b : bphase_eqb a b = true <-> a = b.
Proof. destruct a, b; simpl; split; intro H; try reflexivity; discriminate H. Qed.

Lemma tget_tset_same t g x : tget (tset t g x) g = x.
Proof. destruct g; reflexivity. Qed.
Lemma tget_tset_other t g g' x : g <> g' -> tget (tset t g x) g' = tget t g'.
Proof. destruct g, g'; simpl; intro H; try reflexivity; contradiction. Qed.
Lemma grp_dec (g g' : grp) : {g = g'} + {g <> g'}.
Proof. decide equality. Qed.

(* ---- views after a write / a tally update ---- *)
Lemma gcf_iset img sc g i c n : upd_view n (gcf img sc g) (gcf (iset img (OAct (AChk sc g i)) c) sc g) i c.
Proof.
  intros j _. unfold gcf. destruct (Nat.eqb j i) eqn:E.
  - apply Nat.eqb_eq in E. subst. apply iget_iset_same.
  - apply Nat.eqb_neq in E. apply iget_iset_other. intro H. injection H as H. auto.
Qed.
Lemma gtf_tput m sc g i t n : upd_view n (gtf m sc g) (gtf (tput m (AChk sc g i) t) sc g) i t.
Proof.
  intros j _. unfold gtf. destruct (Nat.eqb j i) eqn:E.
  - apply Nat.eqb_eq in E. subst. apply tlook_tput_same.
  - apply Nat.eqb_neq in E. apply tlook_tput_other. intro H. injection H as H. auto.
Qed.
Lemma qcf_iset img b q i c n : upd_view n (qcf img b q) (qcf (iset img (OAct (ASeq b q i)) c) b q) i c.
Proof.
  intros j _. unfold qcf. destruct (Nat.eqb j i) eqn:E.
  - apply Nat.eqb_eq in E. subst. apply iget_iset_same.
  - apply Nat.eqb_neq in E. apply iget_iset_other. intro H. injection H as H. auto.
Qed.
Lemma qtf_tput m b q i t n : upd_view n (qtf m b q) (qtf (tput m (ASeq b q i) t) b q) i t.
Proof.
  intros j _. unfold qtf. destruct (Nat.eqb j i) eqn:E.
  - apply Nat.eqb_eq in E. subst. apply tlook_tput_same.
  - apply Nat.eqb_neq in E. apply tlook_tput_other. intro H. injection H as H. auto.
Qed.

(* a write / a tally update outside a component leaves the component's views alone *)
Lemma iget_iset_comp img o0 c o C : obj_comp o0 = C -> obj_comp o <> C -> iget (iset img o0 c) o = iget img o.
Proof. intros H0 H. apply iget_iset_other. intro E. subst o. contradiction. Qed.
Lemma tlook_tput_comp m a0 t a C : aref_comp a0 = C -> aref_comp a <> C -> teq (tlook m a) (tlook (tput m a0 t) a).
Proof. intros H0 H. rewrite tlook_tput_other; [apply teq_refl|]. intro E. subst a. contradiction. Qed.

(* ---- phase windows ---- *)
Definition window_open (s : st) (g : grp) : Prop :=
  match g with
  | GBypass => s_ph s = PBypass
  | GPre => s_ph s = PPre
  | GCont => s_ph s = PPre \/ thr_live (s_thr s) = true
  | GPost => s_ph s = PPost /\ thr_live (s_thr s) = false
  | GDeferred => s_ph s = PDeferred /\ thr_live (s_thr s) = false
  end.

Lemma p_windows_get s g : p_windows s -> g_is_idle (tget (s_g s) g) = true \/ window_open s g.
Proof. intros (H1 & H2 & H3 & H4 & H5 & _). destruct g; simpl; auto. Qed.

Lemma p_windows_set s s' g x :
  p_windows s -> (g_is_idle x = true \/ window_open s g) ->
  s_ph s' = s_ph s -> s_thr s' = s_thr s -> s_g s' = tset (s_g s) g x -> p_windows s'.
Proof.
  intros (H1 & H2 & H3 & H4 & H5 & H6) Hx Ep Et Eg. unfold p_windows. rewrite Ep, Et, Eg.
  destruct g; simpl in *; repeat split; auto.
Qed.

Lemma may_window s g : p_may_start s g = true -> window_open s g.
Proof.
  unfold p_may_start. destruct g; simpl; intro H.
  - apply andb_true_iff in H as [H _]. now apply pphase_eqb_eq.
  - apply andb_true_iff in H as [H _]. now apply pphase_eqb_eq.
  - apply orb_true_iff in H as [H|H].
    + apply andb_true_iff in H as [H _]. left. now apply pphase_eqb_eq.
    + apply andb_true_iff in H as [H _]. apply andb_true_iff in H as [H _]. auto.
  - apply andb_true_iff in H as [H _]. apply andb_true_iff in H as [H1 H2].
    apply pphase_eqb_eq in H1. apply negb_true_iff in H2. auto.
  - apply andb_true_iff in H as [H _]. apply andb_true_iff in H as [H1 H2].
    apply pphase_eqb_eq in H1. apply negb_true_iff in H2. auto.
Qed.

Lemma may_dead s g : p_may_start s g = true -> g_dead (tget (s_g s) g) = false \/ g_runs (tget (s_g s) g) = 0.
Proof.
  unfold p_may_start. destruct g; simpl; intro H.
  - apply andb_true_iff in H as [_ H]. right. now apply Nat.eqb_eq.
  - apply andb_true_iff in H as [_ H]. right. now apply Nat.eqb_eq.
  - apply orb_true_iff in H as [H|H].
    + apply andb_true_iff in H as [_ H]. right. now apply Nat.eqb_eq.
    + apply andb_true_iff in H as [H _]. apply andb_true_iff in H as [_ H]. left. now apply negb_true_iff.
  - apply andb_true_iff in H as [_ H]. right. now apply Nat.eqb_eq.
  - apply andb_true_iff in H as [_ H]. right. now apply Nat.eqb_eq.
Qed.

Definition b_window_open (b : bst) (g : grp) : Prop :=
  match g with
  | GBypass => b_ph b = BBypass
  | GPre => b_ph b = BPre
  | GCont => b_ph b = BPre \/ thr_live (b_thr b) = true
  | GPost => b_ph b = BPost
  | GDeferred => b_ph b = BDeferred
  end.

Lemma b_windows_get b g : b_windows b -> g_is_idle (tget (b_g b) g) = true \/ b_window_open b g.
Proof. intros (H1 & H2 & H3 & H4 & H5 & _). destruct g; simpl; auto. Qed.

Lemma b_windows_set b g x :
  b_windows b -> (g_is_idle x = true \/ b_window_open b g) -> b_windows (b_with_g b (tset (b_g b) g x)).
Proof.
  intros (H1 & H2 & H3 & H4 & H5 & H6) Hx. unfold b_windows.
  destruct g; simpl in *; repeat split; auto.
Qed.

Lemma b_may_window b g : b_may_start b g = true -> b_window_open b g.
Proof.
  unfold b_may_start. destruct g; simpl; intro H.
  - apply andb_true_iff in H as [H _]. now apply bphase_eqb_eq.
  - apply andb_true_iff in H as [H _]. now apply bphase_eqb_eq.
  - apply orb_true_iff in H as [H|H].
    + apply andb_true_iff in H as [H _]. left. now apply bphase_eqb_eq.
    + apply andb_true_iff in H as [H _]. apply andb_true_iff in H as [H _]. auto.
  - apply andb_true_iff in H as [H _]. now apply bphase_eqb_eq.
  - apply andb_true_iff in H as [H _]. now apply bphase_eqb_eq.
Qed.

Lemma b_may_dead b g : b_may_start b g = true -> g_dead (tget (b_g b) g) = false \/ g_runs (tget (b_g b) g) = 0.
Proof.
  unfold b_may_start. destruct g; simpl; intro H.
  - apply andb_true_iff in H as [_ H]. right. now apply Nat.eqb_eq.
  - apply andb_true_iff in H as [_ H]. right. now apply Nat.eqb_eq.
  - apply orb_true_iff in H as [H|H].
    + apply andb_true_iff in H as [_ H]. right. now apply Nat.eqb_eq.
    + apply andb_true_iff in H as [H _]. apply andb_true_iff in H as [_ H]. left. now apply negb_true_iff.
  - apply andb_true_iff in H as [_ H]. right. now apply Nat.eqb_eq.
  - apply andb_true_iff in H as [_ H]. right. now apply Nat.eqb_eq.
Qed.

(* ---- the blocks part under a change outside every block ---- *)
Lemma blocks_inv_frame sh s s' mt mt' :
  blocks_inv sh s mt -> s_ph s' = s_ph s -> s_cb s' = s_cb s -> s_b s' = s_b s ->
  (forall o b, obj_comp o = CB b -> iget (s_img s') o = iget (s_img s) o) ->
  (forall a b, aref_comp a = CB b -> teq (tlook mt a) (tlook mt' a)) ->
  blocks_inv sh s' mt'.
Proof.
  intros H Ep Ec Eb Hi Ht bi bs Hb. specialize (H bi bs Hb). rewrite Ep, Ec, Eb.
  assert (F : forall b, binv bs bi b (s_img s) mt -> binv bs bi b (s_img s') mt').
  { intro b. apply binv_frame; [intros o Ho; eapply Hi; eauto|intros a Ha; eapply Ht; eauto]. }
  assert (E : ist (s_img s') (OBlock bi) = ist (s_img s) (OBlock bi)).
  { unfold ist. rewrite (Hi (OBlock bi) bi eq_refl). reflexivity. }
  rewrite E.
  destruct (s_ph s).
  1-3: destruct H as [H1 H2]; split; auto.
  - destruct (bi <? s_cb s).
    + destruct H as [(b & Q & I) H2]. split; [exists b; auto|auto].
    + destruct (Nat.eqb bi (s_cb s)).
      * destruct H as [H1 H2]. split; auto.
      * destruct H as [H1 H2]. split; auto.
  - destruct H as [(b & Q & I) H2]. split; [exists b; auto|auto].
  - destruct H as [(b & Q & I) H2]. split; [exists b; auto|auto].
  - destruct H as [(b & Q & I) H2]. split; [exists b; auto|auto].
  - destruct H as [(b & Q & I) H2]. split; [exists b; auto|auto].
Qed.

(* ---- the blocks part under a change inside the current block ---- *)
Lemma blocks_inv_cur sh s s' mt mt' bs :
  blocks_inv sh s mt -> s_ph s = PBlocks -> s_ph s' = PBlocks -> s_cb s' = s_cb s ->
  nth_error (sh_blocks sh) (s_cb s) = Some bs ->
  (forall o, obj_comp o <> CB (s_cb s) -> iget (s_img s') o = iget (s_img s) o) ->
  (forall a, aref_comp a <> CB (s_cb s) -> teq (tlook mt a) (tlook mt' a)) ->
  binv bs (s_cb s) (s_b s') (s_img s') mt' -> b_windows (s_b s') ->
  blocks_inv sh s' mt'.
Proof.
  intros H Ep Ep' Ec Hcb Hi Ht Hnew Hw bi bs' Hb. specialize (H bi bs' Hb). rewrite Ep in H. rewrite Ep', Ec.
  destruct (Nat.eq_dec bi (s_cb s)) as [->|Hne].
  - rewrite Nat.ltb_irrefl, Nat.eqb_refl. rewrite Hcb in Hb. injection Hb as <-. split; auto.
  - assert (F : forall b, binv bs' bi b (s_img s) mt -> binv bs' bi b (s_img s') mt').
    { intro b. apply binv_frame.
      - intros o Ho. apply Hi. rewrite Ho. apply comp_CB_neq. auto.
      - intros a Ha. apply Ht. rewrite Ha. apply comp_CB_neq. auto. }
    assert (E : ist (s_img s') (OBlock bi) = ist (s_img s) (OBlock bi)).
    { unfold ist. rewrite Hi; [reflexivity|]. simpl. apply comp_CB_neq. auto. }
    rewrite E. destruct (bi <? s_cb s).
    + destruct H as [(b & Q & I) H2]. split; [exists b; auto|auto].
    + apply Nat.eqb_neq in Hne. rewrite Hne in *. destruct H as [H1 H2]. split; auto.
Qed.

(* ================= lifting ================= *)
Section Lift.
  Variable sh : shape.

  (* a step of plan-level check group g *)
  Lemma lift_pgroup s m s' g x mt' :
    Inv1 sh s m ->
    s_reason s' = s_reason s -> s_ph s' = s_ph s -> s_g s' = tset (s_g s) g x -> s_thr s' = s_thr s ->
    s_cb s' = s_cb s -> s_b s' = s_b s ->
    (forall o, obj_comp o <> CPG g -> iget (s_img s') o = iget (s_img s) o) ->
    (forall a, aref_comp a <> CPG g -> teq (tlook (m_t m) a) (tlook mt' a)) ->
    grp_inv (grp_get (sh_groups sh) g) x (s_img s') mt' SPlan g ->
    (g_is_idle x = true \/ window_open s g) ->
    late_ok sh mt' (s_late s') ->
    Inv1 sh s' {| m_t := mt'; m_pw := m_pw m |}.
  Proof.
    intros I Er Ep Eg Et Ec Eb Hi Ht Hg Hw Hl. destruct I as [Ig Iw Ib Il Ipw Ipl].
    assert (EP : ist (s_img s') OPlan = ist (s_img s) OPlan).
    { unfold ist. rewrite Hi; [reflexivity|discriminate]. }
    constructor; simpl.
    - intro g'. rewrite Eg. destruct (grp_dec g g') as [<-|Hn].
      + rewrite tget_tset_same. exact Hg.
      + rewrite tget_tset_other by auto. eapply grp_inv_frame; [| |apply Ig].
        * intros o Ho. apply Hi. rewrite (in_group_comp_plan _ _ Ho). intro E. injection E as E. auto.
        * intro i. apply Ht. simpl. intro E. injection E as E. auto.
    - eapply p_windows_set; eauto.
    - eapply blocks_inv_frame; eauto.
      + intros o b Ho. apply Hi. rewrite Ho. discriminate.
      + intros a b Ha. apply Ht. rewrite Ha. discriminate.
    - exact Hl.
    - rewrite EP, Er. exact Ipw.
    - rewrite EP. exact Ipl.
  Qed.

  (* a step inside the current block *)
  Lemma lift_block s m s' bs mt' :
    Inv1 sh s m -> s_ph s = PBlocks -> nth_error (sh_blocks sh) (s_cb s) = Some bs ->
    s_reason s' = s_reason s -> s_ph s' = s_ph s -> s_g s' = s_g s -> s_thr s' = s_thr s -> s_cb s' = s_cb s ->
    (forall o, obj_comp o <> CB (s_cb s) -> iget (s_img s') o = iget (s_img s) o) ->
    (forall a, aref_comp a <> CB (s_cb s) -> teq (tlook (m_t m) a) (tlook mt' a)) ->
    binv bs (s_cb s) (s_b s') (s_img s') mt' -> b_windows (s_b s') ->
    late_ok sh mt' (s_late s') ->
    Inv1 sh s' {| m_t := mt'; m_pw := m_pw m |}.
  Proof.
    intros I Hp Hcb Er Ep Eg Et Ec Hi Ht Hb Hw Hl. destruct I as [Ig Iw Ib Il Ipw Ipl].
    assert (EP : ist (s_img s') OPlan = ist (s_img s) OPlan).
    { unfold ist. rewrite Hi; [reflexivity|discriminate]. }
    constructor; simpl.
    - intro g'. rewrite Eg. eapply grp_inv_frame; [| |apply Ig].
      + intros o Ho. apply Hi. rewrite (in_group_comp_plan _ _ Ho). discriminate.
      + intro i. apply Ht. simpl. discriminate.
    - destruct Iw as (H1 & H2 & H3 & H4 & H5 & H6). unfold p_windows. rewrite Ep, Eg, Et. repeat split; auto.
    - eapply blocks_inv_cur; eauto. congruence.
    - exact Hl.
    - rewrite EP, Er. exact Ipw.
    - rewrite EP. exact Ipl.
  Qed.

  (* nothing changes but tallies, up to what the relations look at (a late End, a repeated write) *)
  Lemma lift_teq s m s' mt' :
    Inv1 sh s m ->
    s_img s' = s_img s -> s_reason s' = s_reason s -> s_ph s' = s_ph s -> s_g s' = s_g s -> s_thr s' = s_thr s ->
    s_cb s' = s_cb s -> s_b s' = s_b s ->
    (forall a, teq (tlook (m_t m) a) (tlook mt' a)) ->
    late_ok sh mt' (s_late s') ->
    Inv1 sh s' {| m_t := mt'; m_pw := m_pw m |}.
  Proof.
    intros I Ei Er Ep Eg Et Ec Eb Ht Hl. destruct I as [Ig Iw Ib Il Ipw Ipl].
    constructor; simpl; rewrite ?Ei.
    - intro g'. rewrite Eg. eapply grp_inv_frame; [| |apply Ig]; auto.
    - destruct Iw as (H1 & H2 & H3 & H4 & H5 & H6). unfold p_windows. rewrite Ep, Eg, Et. repeat split; auto.
    - eapply blocks_inv_frame; eauto. intros. now rewrite Ei.
    - exact Hl.
    - rewrite Er. exact Ipw.
    - exact Ipl.
  Qed.

  (* a write of the plan's own status / reason *)
  Lemma lift_plan s m s' c r :
    Inv1 sh s m ->
    s_img s' = iset (s_img s) OPlan c -> s_reason s' = r -> s_ph s' = s_ph s -> s_g s' = s_g s -> s_thr s' = s_thr s ->
    s_cb s' = s_cb s -> s_b s' = s_b s -> s_late s' = s_late s -> c_st c <> Stopped ->
    Inv1 sh s' {| m_t := m_t m; m_pw := (c_st c, r) |}.
  Proof.
    intros I Ei Er Ep Eg Et Ec Eb El Hc. destruct I as [Ig Iw Ib Il Ipw Ipl].
    constructor; simpl; rewrite ?Ei.
    - intro g'. rewrite Eg. eapply grp_inv_frame; [| |apply Ig].
      + intros o Ho. apply iget_iset_other. intro E. subst o. apply in_group_comp_plan in Ho. discriminate.
      + intro i. apply teq_refl.
    - destruct Iw as (H1 & H2 & H3 & H4 & H5 & H6). unfold p_windows. rewrite Ep, Eg, Et. repeat split; auto.
    - eapply blocks_inv_frame; eauto.
      + intros o b Ho. rewrite Ei. apply iget_iset_other. intro E. subst o. discriminate.
      + intros a b Ha. apply teq_refl.
    - rewrite El. exact Il.
    - rewrite ist_iset_same, Er. reflexivity.
    - rewrite ist_iset_same. exact Hc.
  Qed.
End Lift.
