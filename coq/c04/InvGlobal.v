(* The structural product invariant Inv1 of C04 between the automaton state (coq/engine PlanSM.st), its
   durable image and the monitor's tallies: every check group and every sequence is related to the cells
   and tallies of its actions (InvDefs.v), groups run only in their phase window, blocks before the current
   one are finished, blocks after it untouched.  Frame lemmas: a component's part of the invariant looks
   only at the cells / tallies of its own objects. *)
From Coq Require Import Lia.
From Coercion.Base Require Import Plan.
From Coercion.Engine Require Import Shape Event Action ChecksRun Seq Block Final PlanSM Auto Accept AutoLemmas.
From Coercion.C04 Require Import MonC04 Views InvDefs InvLocal.

(* ---- views of the image and of the tallies ---- *)
Definition gcf (img : dimg) (sc : scope) (g : grp) : nat -> cell := fun i => iget img (OAct (AChk sc g i)).
Definition gtf (m : tmap) (sc : scope) (g : grp) : nat -> tally := fun i => tlook m (AChk sc g i).
Definition qcf (img : dimg) (b q : nat) : nat -> cell := fun i => iget img (OAct (ASeq b q i)).
Definition qtf (m : tmap) (b q : nat) : nat -> tally := fun i => tlook m (ASeq b q i).

Definition grp_inv (ors : option (list nat)) (g : gst) (img : dimg) (m : tmap) (sc : scope) (gr : grp) : Prop :=
  ginv_opt ors g (ist img (OChecks sc gr)) (gcf img sc gr) (gtf m sc gr).

(* ---- one block ---- *)
Definition b_windows (b : bst) : Prop :=
  (g_is_idle (t_bypass (b_g b)) = true \/ b_ph b = BBypass) /\
  (g_is_idle (t_pre (b_g b)) = true \/ b_ph b = BPre) /\
  (g_is_idle (t_cont (b_g b)) = true \/ b_ph b = BPre \/ thr_live (b_thr b) = true) /\
  (g_is_idle (t_post (b_g b)) = true \/ b_ph b = BPost) /\
  (g_is_idle (t_deferred (b_g b)) = true \/ b_ph b = BDeferred) /\
  (b_ph b <> BSeqs -> forall q x, nth_error (b_seqs b) q = Some x -> s_quiet x = true).

Definition binv (bs : bshape) (bi : nat) (b : bst) (img : dimg) (m : tmap) : Prop :=
  (forall g, grp_inv (grp_get (bs_groups bs) g) (tget (b_g b) g) img m (SBlock bi) g) /\
  length (b_seqs b) = length (bs_seqs bs) /\
  (forall q rs x, nth_error (bs_seqs bs) q = Some rs -> nth_error (b_seqs b) q = Some x ->
      qinv rs x (ist img (OSeq bi q)) (qcf img bi q) (qtf m bi q)).

Definition b_quiet (b : bst) : Prop :=
  (forall g, g_is_idle (tget (b_g b) g) = true) /\
  (forall q x, nth_error (b_seqs b) q = Some x -> s_quiet x = true).

Definition blk_done (st : status) : Prop := st = NotStarted \/ st = Completed \/ st = Failed.

(* ---- the plan level ---- *)
Definition p_windows (s : st) : Prop :=
  (g_is_idle (t_bypass (s_g s)) = true \/ s_ph s = PBypass) /\
  (g_is_idle (t_pre (s_g s)) = true \/ s_ph s = PPre) /\
  (g_is_idle (t_cont (s_g s)) = true \/ s_ph s = PPre \/ thr_live (s_thr s) = true) /\
  (g_is_idle (t_post (s_g s)) = true \/ (s_ph s = PPost /\ thr_live (s_thr s) = false)) /\
  (g_is_idle (t_deferred (s_g s)) = true \/ (s_ph s = PDeferred /\ thr_live (s_thr s) = false)) /\
  (thr_live (s_thr s) = true -> s_ph s = PBlocks \/ s_ph s = PPost \/ s_ph s = PDeferred).

Definition blocks_inv (sh : shape) (s : st) (m : tmap) : Prop :=
  forall bi bs, nth_error (sh_blocks sh) bi = Some bs ->
    match s_ph s with
    | PStart | PBypass | PPre =>
        binv bs bi (b_init bs) (s_img s) m /\ ist (s_img s) (OBlock bi) = NotStarted
    | PBlocks =>
        if bi <? s_cb s
        then (exists b, b_quiet b /\ binv bs bi b (s_img s) m) /\ ist (s_img s) (OBlock bi) = Completed
        else if Nat.eqb bi (s_cb s) then binv bs bi (s_b s) (s_img s) m /\ b_windows (s_b s)
        else binv bs bi (b_init bs) (s_img s) m /\ ist (s_img s) (OBlock bi) = NotStarted
    | _ => (exists b, b_quiet b /\ binv bs bi b (s_img s) m) /\ blk_done (ist (s_img s) (OBlock bi))
    end.

Definition plan_status_ok (st : status) : Prop := st <> Stopped.

(* the automaton's late list = the monitor's owed counts; only actions of the plan are ever owed *)
Definition late_ok (sh : shape) (mt : tmap) (late : list aref) : Prop :=
  forall a, t_owed (tlook mt a) = lcount a late /\ (0 < lcount a late -> obj_in_shape sh (OAct a) = true).

Record Inv1 (sh : shape) (s : st) (m : mstate) : Prop := {
  i_groups : forall g, grp_inv (grp_get (sh_groups sh) g) (tget (s_g s) g) (s_img s) (m_t m) SPlan g;
  i_windows : p_windows s;
  i_blocks : blocks_inv sh s (m_t m);
  i_late : late_ok sh (m_t m) (s_late s);
  i_pw : m_pw m = (ist (s_img s) OPlan, s_reason s);
  i_plan : plan_status_ok (ist (s_img s) OPlan) }.

(* ================= frames ================= *)
(* the objects of check group (sc, gr) *)
Definition in_group (sc : scope) (gr : grp) (o : obj) : Prop :=
  o = OChecks sc gr \/ exists i, o = OAct (AChk sc gr i).

Lemma grp_inv_frame ors g img m img' m' sc gr :
  (forall o, in_group sc gr o -> iget img' o = iget img o) ->
  (forall i, teq (tlook m (AChk sc gr i)) (tlook m' (AChk sc gr i))) ->
  grp_inv ors g img m sc gr -> grp_inv ors g img' m' sc gr.
Proof.
  intros Hi Ht. unfold grp_inv, ginv_opt. destruct ors as [rs|].
  - assert (E : ist img' (OChecks sc gr) = ist img (OChecks sc gr)).
    { unfold ist. rewrite Hi; [reflexivity|left; reflexivity]. }
    rewrite E. apply ginv_ext.
    + intros j _. unfold gcf. apply Hi. right. eauto.
    + intros j _. unfold gtf. apply Ht.
  - intros [-> H]. split; [reflexivity|]. unfold ist. rewrite Hi; [exact H|left; reflexivity].
Qed.

Lemma in_group_comp_plan gr o : in_group SPlan gr o -> obj_comp o = CPG gr.
Proof. intros [->|[i ->]]; reflexivity. Qed.
Lemma in_group_comp_block b gr o : in_group (SBlock b) gr o -> obj_comp o = CB b.
Proof. intros [->|[i ->]]; reflexivity. Qed.

Lemma binv_frame bs bi b img m img' m' :
  (forall o, obj_comp o = CB bi -> iget img' o = iget img o) ->
  (forall a, aref_comp a = CB bi -> teq (tlook m a) (tlook m' a)) ->
  binv bs bi b img m -> binv bs bi b img' m'.
Proof.
  intros Hi Ht (Hg & Hl & Hq). split; [|split; [exact Hl|]].
  - intro g. eapply grp_inv_frame; [| |apply Hg].
    + intros o Ho. apply Hi. eapply in_group_comp_block; eauto.
    + intro i. apply Ht. reflexivity.
  - intros q rs x Er Ex. specialize (Hq q rs x Er Ex).
    assert (E : ist img' (OSeq bi q) = ist img (OSeq bi q)) by (unfold ist; rewrite Hi; reflexivity).
    rewrite E. eapply qinv_ext; [| |exact Hq].
    + intros j _. unfold qcf. apply Hi. reflexivity.
    + intros j _. unfold qtf. apply Ht. reflexivity.
Qed.

Lemma comp_CB_neq b b' : b <> b' -> CB b <> CB b'.
Proof. intros H E. injection E as E. contradiction. Qed.

(* b_init is quiet, with every window closed *)
Lemma b_init_quiet bs : b_quiet (b_init bs).
Proof.
  split.
  - intros []; reflexivity.
  - intros q x H. simpl in H. apply nth_error_repeat_inv in H as [-> _]. reflexivity.
Qed.
Lemma b_init_windows bs : b_windows (b_init bs).
Proof.
  unfold b_windows. simpl. repeat split; auto.
  intros _ q x H. apply nth_error_repeat_inv in H as [-> _]. reflexivity.
Qed.
