(* What the invariants give at the release and after it: every clause of mon_final_core. *)
From Coq Require Import Lia.
From Coercion.Base Require Import Plan.
From Coercion.Engine Require Import Shape Event Action ChecksRun Seq Block Final PlanSM Auto Accept AutoLemmas.
From Coercion.C04 Require Import MonC04 Views InvDefs InvLocal InvGlobal InvLift InvOps InvHandle InvWrite InvStep
     InvEps InvFoot InvPath AllObjs C04Run.

Local Arguments iget : simpl never.
Local Arguments iset : simpl never.
Local Arguments ist : simpl never.
Local Arguments tlook : simpl never.
Local Arguments tput : simpl never.
Local Arguments all_objs : simpl never.

Section AtEnd.
  Variable sh : shape.

  (* at PEnd / PReleased every plan-level group is idle and the continuous thread is gone *)
  Lemma end_idle s m :
    Inv1 sh s m -> s_ph s = PEnd \/ s_ph s = PReleased ->
    (forall g, g_is_idle (tget (s_g s) g) = true) /\ thr_live (s_thr s) = false.
  Proof.
    intros I Hp. destruct (i_windows _ _ _ I) as (W1 & W2 & W3 & W4 & W5 & W6).
    assert (L : thr_live (s_thr s) = false).
    { destruct (thr_live (s_thr s)) eqn:L; auto.
      destruct (W6 eq_refl) as [X|[X|X]]; destruct Hp as [Y|Y]; rewrite X in Y; discriminate Y. }
    split; [|exact L]. intros []; simpl.
    - destruct W1 as [X|X]; [auto|]. destruct Hp as [Y|Y]; rewrite X in Y; discriminate Y.
    - destruct W2 as [X|X]; [auto|]. destruct Hp as [Y|Y]; rewrite X in Y; discriminate Y.
    - destruct W3 as [X|[X|X]]; [auto| |congruence]. destruct Hp as [Y|Y]; rewrite X in Y; discriminate Y.
    - destruct W4 as [X|[X _]]; [auto|]. destruct Hp as [Y|Y]; rewrite X in Y; discriminate Y.
    - destruct W5 as [X|[X _]]; [auto|]. destruct Hp as [Y|Y]; rewrite X in Y; discriminate Y.
  Qed.

  Lemma end_blocks s m b bs :
    Inv1 sh s m -> s_ph s = PEnd \/ s_ph s = PReleased -> nth_error (sh_blocks sh) b = Some bs ->
    (exists b0, b_quiet b0 /\ binv bs b b0 (s_img s) (m_t m)) /\ blk_done (ist (s_img s) (OBlock b)).
  Proof.
    intros I Hp Hb. pose proof (i_blocks _ _ _ I _ _ Hb) as H. destruct Hp as [Hp|Hp]; rewrite Hp in H; exact H.
  Qed.

  Lemma end_no_cur s b : s_ph s = PEnd \/ s_ph s = PReleased -> cur_block sh s b = None.
  Proof. intros [Hp|Hp]; unfold cur_block; rewrite Hp; reflexivity. Qed.

  (* every action of the plan is quiet *)
  Lemma end_act_quiet s m a :
    Inv1 sh s m -> s_ph s = PEnd \/ s_ph s = PReleased -> obj_in_shape sh (OAct a) = true ->
    quiet_at (iget (s_img s) (OAct a)) (tlook (m_t m) a).
  Proof.
    intros I Hp Hs. destruct a as [[|b] g i|b q i]; simpl in Hs.
    - unfold group_of in Hs. simpl in Hs.
      destruct (grp_get (sh_groups sh) g) as [rs|] eqn:R; [|discriminate].
      destruct (nth_error rs i) eqn:N; [|discriminate]. apply nth_error_some_lt in N.
      pose proof (i_groups _ _ _ I g) as GI. rewrite R in GI. unfold grp_inv, ginv_opt in GI.
      pose proof (proj1 (end_idle _ _ I Hp) g) as Q.
      destruct (tget (s_g s) g) as [r l|]; [|discriminate Q].
      exact (ginv_idle_quiet rs r l _ _ _ GI i N).
    - unfold group_of, scope_groups, block_of in Hs.
      destruct (nth_error (sh_blocks sh) b) as [bs|] eqn:Hb; [|discriminate]. simpl in Hs.
      destruct (grp_get (bs_groups bs) g) as [rs|] eqn:R; [|discriminate].
      destruct (nth_error rs i) eqn:N; [|discriminate]. apply nth_error_some_lt in N.
      destruct (end_blocks _ _ _ _ I Hp Hb) as [(b0 & [Q _] & (BG & _)) _].
      specialize (BG g). rewrite R in BG. unfold grp_inv, ginv_opt in BG. specialize (Q g).
      destruct (tget (b_g b0) g) as [r l|]; [|discriminate Q].
      exact (ginv_idle_quiet rs r l _ _ _ BG i N).
    - unfold seq_of, block_of in Hs.
      destruct (nth_error (sh_blocks sh) b) as [bs|] eqn:Hb; [|discriminate].
      destruct (nth_error (bs_seqs bs) q) as [rs|] eqn:R; [|discriminate].
      destruct (nth_error rs i) eqn:N; [|discriminate]. apply nth_error_some_lt in N.
      destruct (end_blocks _ _ _ _ I Hp Hb) as [(b0 & [_ Q] & (_ & BL & BQ)) _].
      destruct (nth_error (b_seqs b0) q) as [x|] eqn:Qx.
      + exact (qinv_quiet rs x _ _ _ (BQ q rs x R Qx) (Q q x Qx) i N).
      + apply nth_error_None in Qx. apply nth_error_some_lt in R. lia.
  Qed.

  (* ---- after the release ---- *)
  Lemma after_ok fin : forall tr s m s',
    Inv1 sh s m -> released s = true -> s_fin s = Some fin -> run sh s tr = Some s' ->
    after_codes sh fin (m_t m) tr = [].
  Proof.
    induction tr as [|e tr IH]; intros s m s' I R F H; [reflexivity|].
    simpl in H. destruct (step sh s e) as [s1|] eqn:E; [|discriminate].
    pose proof (step_when_released _ _ _ _ R E) as HE.
    assert (Hp : s_ph s = PEnd \/ s_ph s = PReleased) by (right; unfold released in R; now apply pphase_eqb_eq).
    destruct e as [a|a o|o st n ok r|snap|fin']; simpl in HE.
    - rewrite R in HE. discriminate.
    - (* only the End of an invocation the engine had given up waiting for *)
      assert (SUB : h_end_sub sh s a o = None).
      { destruct a as [[|b] g i|b q i]; simpl.
        - unfold p_chk_end. rewrite g_end_idle; [reflexivity|]. apply (end_idle _ _ I Hp).
        - now rewrite (end_no_cur s b Hp).
        - now rewrite (end_no_cur s b Hp). }
      pose proof (handle_Inv1 sh s m (EvEnd a o) s1 I HE) as I'.
      unfold h_end in HE. rewrite SUB in HE. destruct o; try discriminate.
      destruct (remove_one a (s_late s)) as [l'|] eqn:RM; [|discriminate]. injection HE as <-.
      pose proof (remove_one_count _ _ _ RM a) as CNT. rewrite aref_eqb_refl in CNT.
      destruct (i_late _ _ _ I a) as [L1 L2].
      assert (Hs : obj_in_shape sh (OAct a) = true) by (apply L2; lia).
      pose proof (end_sub_none _ _ _ _ _ I SUB Hs) as Ho.
      cbn [after_codes]. rewrite Ho, L1.
      assert (Q : (0 <? lcount a (s_late s)) = true) by (apply Nat.ltb_lt; lia). rewrite Q. simpl.
      apply (IH _ _ s' I'); auto.
    - rewrite R in HE. discriminate.
    - unfold h_read in HE. rewrite F in HE.
      destruct (images_agree (all_objs sh) fin snap) eqn:A; [|discriminate]. injection HE as <-.
      cbn [after_codes]. rewrite A. simpl. eapply IH; eauto.
    - unfold h_release in HE. unfold released in R. apply pphase_eqb_eq in R. rewrite R in HE. discriminate.
  Qed.
End AtEnd.

(* ---- booleans over seq 0 n ---- *)
Lemma forallb_seq (p : nat -> bool) n : forallb p (seq 0 n) = true <-> forall i, i < n -> p i = true.
Proof.
  rewrite forallb_forall. split.
  - intros H i Hi. apply H. apply List.in_seq. lia.
  - intros H i Hi. apply List.in_seq in Hi. apply H. lia.
Qed.
Lemma existsb_seq (p : nat -> bool) n : existsb p (seq 0 n) = true <-> exists i, i < n /\ p i = true.
Proof.
  rewrite existsb_exists. split.
  - intros (i & Hi & H). apply List.in_seq in Hi. exists i. split; [lia|auto].
  - intros (i & Hi & H). exists i. split; [apply List.in_seq; lia|auto].
Qed.

(* ---- pure facts about Final.final ---- *)
Lemma final_completed_iff sh f : fst (final sh f) = Completed <-> snd (final sh f) = FRUnknown.
Proof.
  unfold final, final_blocks.
  destruct (examine_bypass sh f); [simpl; tauto|].
  assert (E : forall l, (forall g, In g l -> g <> GBypass) ->
              match examine sh f l with Some r => r <> FRUnknown | None => True end).
  { induction l as [|g l IH]; intro Hl; simpl; [exact I|].
    destruct (gpresent sh g && negb (status_eqb (f (OChecks SPlan g)) Completed)).
    - assert (g <> GBypass) by (apply Hl; left; reflexivity). destruct g; simpl; congruence.
    - apply IH. intros g' Hg. apply Hl. right. exact Hg. }
  pose proof (E [GPre; GCont]) as E1. pose proof (E [GPost; GDeferred]) as E2.
  destruct (examine sh f [GPre; GCont]) as [r|].
  - simpl. split; [discriminate|]. intro X. elim E1; auto. intros g [<-|[<-|[]]]; discriminate.
  - destruct (any_block_failed sh f).
    + destruct (all_blocks_completed sh f); simpl; split; auto; discriminate.
    + destruct (examine sh f [GPost; GDeferred]) as [r|].
      * simpl. split; [discriminate|]. intro X. elim E2; auto. intros g [<-|[<-|[]]]; discriminate.
      * destruct (all_blocks_completed sh f); simpl; split; auto; discriminate.
Qed.

Lemma final_completed sh f :
  fst (final sh f) = Completed ->
  (gpresent sh GBypass = true /\ f (OChecks SPlan GBypass) = Completed)
  \/ (all_blocks_completed sh f = true
      /\ forall g, In g [GPre; GCont; GPost; GDeferred] -> gpresent sh g = true -> f (OChecks SPlan g) = Completed).
Proof.
  unfold final, final_blocks.
  destruct (examine_bypass sh f) eqn:EB.
  - intros _. left. unfold examine_bypass in EB. apply andb_true_iff in EB as [A B]. apply status_eqb_eq in B. auto.
  - assert (EX : forall l, examine sh f l = None ->
                 forall g, In g l -> gpresent sh g = true -> f (OChecks SPlan g) = Completed).
    { induction l as [|g0 l IH]; intros H g Hg Hp; [contradiction|]. simpl in H.
      destruct (gpresent sh g0 && negb (status_eqb (f (OChecks SPlan g0)) Completed)) eqn:C; [discriminate|].
      destruct Hg as [<-|Hg]; [|eapply IH; eauto].
      rewrite Hp in C. simpl in C. apply negb_false_iff in C. now apply status_eqb_eq. }
    destruct (examine sh f [GPre; GCont]) as [r|] eqn:E1; [simpl; discriminate|].
    destruct (any_block_failed sh f) eqn:AB.
    + destruct (all_blocks_completed sh f) eqn:AC; simpl; [|discriminate]. intros _.
      (* a failed block and all blocks completed: impossible *)
      exfalso. unfold any_block_failed in AB. unfold all_blocks_completed in AC.
      apply existsb_exists in AB as (b & Hb & X). rewrite forallb_forall in AC. specialize (AC b Hb).
      apply status_eqb_eq in X. apply status_eqb_eq in AC. congruence.
    + destruct (examine sh f [GPost; GDeferred]) as [r|] eqn:E2; [simpl; discriminate|].
      destruct (all_blocks_completed sh f) eqn:AC; simpl; [|discriminate]. intros _. right. split; [reflexivity|].
      intros g [<-|[<-|[<-|[<-|[]]]]] Hp.
      * apply (EX _ E1 GPre); simpl; auto.
      * apply (EX _ E1 GCont); simpl; auto.
      * apply (EX _ E2 GPost); simpl; auto.
      * apply (EX _ E2 GDeferred); simpl; auto.
Qed.

Lemma nth_error_map_seq {A} (g : nat -> A) n : forall k i c,
  nth_error (map g (seq k n)) i = Some c -> i < n /\ c = g (k + i).
Proof.
  induction n as [|n IH]; intros k i c H; simpl in H.
  - destruct i; discriminate.
  - destruct i as [|i]; simpl in H.
    + injection H as <-. split; [lia|]. now rewrite Nat.add_0_r.
    + destruct (IH (S k) i c H) as [L E]. split; [lia|]. rewrite E. f_equal. lia.
Qed.

Lemma failed_pattern_intro : forall cs j,
  j < length cs ->
  (forall i c, i < j -> nth_error cs i = Some c -> oc_st c = Completed) ->
  (forall c, nth_error cs j = Some c -> oc_st c = Failed) ->
  (forall i c, j < i -> nth_error cs i = Some c -> untouched c = true) ->
  failed_pattern cs = true.
Proof.
  induction cs as [|c cs IH]; intros j Hj H1 H2 H3; simpl in *; [lia|].
  destruct j as [|j].
  - rewrite (H2 c eq_refl). apply forallb_forall. intros x Hx. apply In_nth_error in Hx as [i Hi].
    apply (H3 (S i) x); [lia|exact Hi].
  - rewrite (H1 0 c); [|lia|reflexivity]. apply (IH j); [lia| | |].
    + intros i c' Hi Hc. apply (H1 (S i) c'); [lia|exact Hc].
    + intros c' Hc. apply H2. exact Hc.
    + intros i c' Hi Hc. apply (H3 (S i) c'); [lia|exact Hc].
Qed.

Section AtRelease.
  Variables (sh : shape) (s : st) (m : mstate) (fin : image).
  Hypothesis I1 : Inv1 sh s m.
  Hypothesis I2 : Inv2 sh s m.
  Hypothesis Hp : s_ph s = PEnd.
  Hypothesis Hterm : is_terminal (ist (s_img s) OPlan) = true.
  Hypothesis Hagree : image_agrees (all_objs sh) (s_img s) (s_reason s) fin = true.

  Let HpE : s_ph s = PEnd \/ s_ph s = PReleased := or_introl Hp.
  Notation f := (ist (s_img s)).

  Lemma agree_lookup o :
    obj_in_shape sh o = true -> exists c, im_lookup fin o = Some c /\ iget (s_img s) o = ocell_cell c.
  Proof.
    intro Hs. unfold image_agrees in Hagree. apply andb_true_iff in Hagree as [_ H].
    rewrite forallb_forall in H. specialize (H o (proj2 (all_objs_spec sh o) Hs)).
    destruct (im_lookup fin o) as [c|]; [|discriminate]. exists c. split; [reflexivity|]. now apply cell_eqb_eq.
  Qed.

  Lemma agree_reason : im_reason fin = s_reason s.
  Proof.
    unfold image_agrees in Hagree. apply andb_true_iff in Hagree as [H _]. apply reason_eqb_eq in H. auto.
  Qed.

  Lemma agree_fst o : obj_in_shape sh o = true -> fst_ fin o = f o.
  Proof.
    intro Hs. destruct (agree_lookup o Hs) as (c & L & E). unfold fst_, fcell, ist. rewrite L, E. reflexivity.
  Qed.

  Lemma agree_is_st o x : obj_in_shape sh o = true -> is_st fin o x = status_eqb (f o) x.
  Proof. intro Hs. unfold is_st. now rewrite agree_fst. Qed.

  Lemma plan_in_shape : obj_in_shape sh OPlan = true. Proof. reflexivity. Qed.

  (* ---- the plan's status ---- *)
  Lemma plan_done : f OPlan = Completed \/ f OPlan = Failed.
  Proof.
    pose proof (i_plan _ _ _ I1) as X. unfold plan_status_ok in X.
    destruct (f OPlan); simpl in Hterm; try discriminate; auto. contradiction.
  Qed.

  Lemma plan_is_final : (f OPlan, s_reason s) = final sh f.
  Proof.
    unfold Inv2 in I2. rewrite Hp in I2. simpl in I2. destruct I2 as [_ [X|X]].
    - rewrite (i_pw _ _ _ I1) in X. simpl in X. destruct plan_done as [Y|Y]; rewrite Y in X; discriminate X.
    - rewrite <- X. symmetry. apply (i_pw _ _ _ I1).
  Qed.

  (* ---- nothing is Running ---- *)
  Lemma ginv_idle_status rs r l gs cf tf :
    ginv rs (GIdle r l) gs cf tf -> gs = NotStarted \/ gs = Completed \/ gs = Failed.
  Proof.
    simpl. destruct r, l as [v|]; try contradiction.
    - intros [-> _]. auto.
    - intros (-> & _). destruct v; simpl; auto.
  Qed.

  Lemma not_running o : obj_in_shape sh o = true -> f o <> Running.
  Proof.
    intro Hs. destruct o as [|sc g|b|b q|a].
    - destruct plan_done as [X|X]; rewrite X; discriminate.
    - destruct sc as [|b]; simpl in Hs; unfold group_of, scope_groups in Hs.
      + simpl in Hs. destruct (grp_get (sh_groups sh) g) as [rs|] eqn:R; [|discriminate].
        pose proof (i_groups _ _ _ I1 g) as GI. rewrite R in GI. unfold grp_inv, ginv_opt in GI.
        pose proof (proj1 (end_idle _ _ _ I1 HpE) g) as Q.
        destruct (tget (s_g s) g) as [r l|]; [|discriminate Q].
        destruct (ginv_idle_status _ _ _ _ _ _ GI) as [X|[X|X]]; rewrite X; discriminate.
      + unfold block_of in Hs. destruct (nth_error (sh_blocks sh) b) as [bs|] eqn:Hb; [|discriminate]. simpl in Hs.
        destruct (grp_get (bs_groups bs) g) as [rs|] eqn:R; [|discriminate].
        destruct (end_blocks _ _ _ _ _ I1 HpE Hb) as [(b0 & [Q _] & (BG & _)) _].
        specialize (BG g). rewrite R in BG. unfold grp_inv, ginv_opt in BG. specialize (Q g).
        destruct (tget (b_g b0) g) as [r l|]; [|discriminate Q].
        destruct (ginv_idle_status _ _ _ _ _ _ BG) as [X|[X|X]]; rewrite X; discriminate.
    - simpl in Hs. unfold block_of in Hs. destruct (nth_error (sh_blocks sh) b) as [bs|] eqn:Hb; [|discriminate].
      destruct (end_blocks _ _ _ _ _ I1 HpE Hb) as [_ [X|[X|X]]]; rewrite X; discriminate.
    - simpl in Hs. unfold seq_of, block_of in Hs.
      destruct (nth_error (sh_blocks sh) b) as [bs|] eqn:Hb; [|discriminate].
      destruct (nth_error (bs_seqs bs) q) as [rs|] eqn:R; [|discriminate].
      destruct (end_blocks _ _ _ _ _ I1 HpE Hb) as [(b0 & [_ Q] & (_ & BL & BQ)) _].
      destruct (nth_error (b_seqs b0) q) as [x|] eqn:Qx.
      + specialize (BQ q rs x R Qx). specialize (Q q x Qx).
        destruct x as [|j y|v|v]; try discriminate Q; simpl in BQ.
        * destruct BQ as [X _]. rewrite X. discriminate.
        * destruct BQ as [X _]. rewrite X. destruct v; discriminate.
      + apply nth_error_None in Qx. apply nth_error_some_lt in R. lia.
    - destruct (end_act_quiet _ _ _ _ I1 HpE Hs) as [S _]. unfold settled in S. unfold ist.
      destruct (c_st (iget (s_img s) (OAct a))); try contradiction; discriminate.
  Qed.

  (* ---- the clauses of one action ---- *)
  Lemma act_clauses a c :
    obj_in_shape sh (OAct a) = true -> im_lookup fin (OAct a) = Some c ->
    t_open (tlook (m_t m) a) = false /\ action_consistent c = true /\ truthful_cell (tlook (m_t m) a) c = true.
  Proof.
    intros Hs L. destruct (agree_lookup _ Hs) as (c' & L' & E). rewrite L in L'. injection L' as <-.
    destruct (end_act_quiet _ _ _ _ I1 HpE Hs) as [S (Tn & To & Tk & Td)]. rewrite E in S, Tn, Tk.
    unfold settled in S. simpl in S, Tn, Tk.
    split; [exact To|]. unfold action_consistent, truthful_cell, shown_status. rewrite Tn, Tk.
    rewrite Nat.eqb_refl, eqb_reflx. simpl.
    destruct (oc_st c) eqn:ST; try contradiction; destruct S as [Sn Sk]; rewrite Sk.
    - rewrite Sn. simpl. auto.
    - assert (X : Nat.eqb (oc_n c) 0 = false) by (apply Nat.eqb_neq; lia).
      assert (Y : (0 <? oc_n c) = true) by (apply Nat.ltb_lt; lia). rewrite X, Y. simpl. auto.
    - assert (X : Nat.eqb (oc_n c) 0 = false) by (apply Nat.eqb_neq; lia). rewrite X. simpl.
      rewrite andb_false_r. auto.
  Qed.

  (* ---- the clause of one sequence ---- *)
  Lemma seq_clause b q rs :
    seq_of sh b q = Some rs -> seq_consistent fin b q (length rs) = true.
  Proof.
    intro Hq. unfold seq_of, block_of in Hq.
    destruct (nth_error (sh_blocks sh) b) as [bs|] eqn:Hb; [|discriminate].
    assert (Hs : obj_in_shape sh (OSeq b q) = true) by (simpl; unfold seq_of, block_of; now rewrite Hb, Hq).
    assert (Ha : forall i, i < length rs -> obj_in_shape sh (OAct (ASeq b q i)) = true).
    { intros i Hi. simpl. unfold seq_of, block_of. rewrite Hb, Hq.
      destruct (nth_error rs i) eqn:N; [reflexivity|]. apply nth_error_None in N. lia. }
    assert (Hc : forall i, i < length rs ->
                 oc_st (fcell fin (OAct (ASeq b q i))) = c_st (qcf (s_img s) b q i)
                 /\ oc_n (fcell fin (OAct (ASeq b q i))) = c_n (qcf (s_img s) b q i)).
    { intros i Hi. destruct (agree_lookup _ (Ha i Hi)) as (c & L & E). unfold fcell, qcf. rewrite L, E. auto. }
    assert (Hn : forall i c, nth_error (seq_cells fin b q (length rs)) i = Some c ->
                 i < length rs /\ c = fcell fin (OAct (ASeq b q i))).
    { intros i c H. unfold seq_cells in H. apply (nth_error_map_seq _ _ 0) in H. exact H. }
    unfold seq_consistent. rewrite (agree_fst _ Hs).
    destruct (end_blocks _ _ _ _ _ I1 HpE Hb) as [(b0 & [_ Q] & (_ & BL & BQ)) _].
    destruct (nth_error (b_seqs b0) q) as [x|] eqn:Qx.
    2:{ apply nth_error_None in Qx. apply nth_error_some_lt in Hq. lia. }
    specialize (BQ q rs x Hq Qx). specialize (Q q x Qx).
    destruct x as [|j y|v|v]; try discriminate Q; simpl in BQ.
    - destruct BQ as [X _]. rewrite X. reflexivity.
    - destruct BQ as [X F]. rewrite X. destruct v; simpl in *.
      + apply forallb_forall. intros c Hin. apply In_nth_error in Hin as [i Hi].
        destruct (Hn i c Hi) as [Li ->]. rewrite (proj1 (Hc i Li)). rewrite (proj1 (F i Li)). reflexivity.
      + destruct F as (j & Lj & F1 & F2 & F3). apply (failed_pattern_intro _ j).
        * unfold seq_cells. now rewrite map_length, seq_length.
        * intros i c Hi Hci. destruct (Hn i c Hci) as [Li ->]. rewrite (proj1 (Hc i Li)). apply (F1 i Hi).
        * intros c Hcj. destruct (Hn j c Hcj) as [_ ->]. rewrite (proj1 (Hc j Lj)). apply F2.
        * intros i c Hi Hci. destruct (Hn i c Hci) as [Li ->]. unfold untouched.
          rewrite (proj1 (Hc i Li)), (proj2 (Hc i Li)). destruct (F3 i Hi Li) as [-> _]. reflexivity.
  Qed.

  (* ---- presence of plan-level groups, in the three vocabularies ---- *)
  Lemma present_eq g : grp_present sh g = gpresent sh g.
  Proof. unfold grp_present, gpresent, group_of. simpl. reflexivity. Qed.

  Lemma pgroup_in_shape g : gpresent sh g = true -> obj_in_shape sh (OChecks SPlan g) = true.
  Proof. unfold gpresent. simpl. unfold group_of. simpl. destruct (grp_get (sh_groups sh) g); auto. Qed.

  Lemma block_in_shape b : b < length (sh_blocks sh) -> obj_in_shape sh (OBlock b) = true.
  Proof.
    intro H. simpl. unfold block_of. destruct (nth_error (sh_blocks sh) b) eqn:E; [reflexivity|].
    apply nth_error_None in E. lia.
  Qed.

  Lemma blocks_completed_eq : blocks_completed sh fin = all_blocks_completed sh f.
  Proof.
    unfold blocks_completed, all_blocks_completed, block_indices.
    apply forallb_ext_in || idtac.
    assert (E : forall l, (forall b, In b l -> b < length (sh_blocks sh)) ->
                forallb (fun b => is_st fin (OBlock b) Completed) l
                = forallb (fun b => status_eqb (f (OBlock b)) Completed) l).
    { induction l as [|b l IH]; intro Hl; simpl; [reflexivity|].
      rewrite (agree_is_st _ _ (block_in_shape b (Hl b (or_introl eq_refl)))). rewrite IH; [reflexivity|].
      intros b' Hb'. apply Hl. right. exact Hb'. }
    apply E. intros b Hb. apply List.in_seq in Hb. lia.
  Qed.

  Lemma block_failed_eq : block_failed sh fin = any_block_failed sh f.
  Proof.
    unfold block_failed, any_block_failed, block_indices.
    assert (E : forall l, (forall b, In b l -> b < length (sh_blocks sh)) ->
                existsb (fun b => is_st fin (OBlock b) Failed) l
                = existsb (fun b => status_eqb (f (OBlock b)) Failed) l).
    { induction l as [|b l IH]; intro Hl; simpl; [reflexivity|].
      rewrite (agree_is_st _ _ (block_in_shape b (Hl b (or_introl eq_refl)))). rewrite IH; [reflexivity|].
      intros b' Hb'. apply Hl. right. exact Hb'. }
    apply E. intros b Hb. apply List.in_seq in Hb. lia.
  Qed.

  (* 6 *)
  Lemma plan_clause : plan_consistent sh fin = true.
  Proof.
    unfold plan_consistent. rewrite (agree_is_st _ _ plan_in_shape).
    destruct (status_eqb (f OPlan) Completed) eqn:PC; [|reflexivity]. apply status_eqb_eq in PC.
    assert (FC : fst (final sh f) = Completed) by (rewrite <- plan_is_final; exact PC).
    destruct (final_completed sh f FC) as [[BP BC]|[AC GC]].
    - rewrite present_eq, BP. rewrite (agree_is_st _ _ (pgroup_in_shape _ BP)), BC. reflexivity.
    - apply orb_true_iff. right. rewrite blocks_completed_eq, AC. simpl.
      assert (K : forall g, In g [GPre; GCont; GPost; GDeferred] ->
                  negb (grp_present sh g && is_st fin (OChecks SPlan g) Failed) = true).
      { intros g Hg. rewrite present_eq. destruct (gpresent sh g) eqn:P; [|reflexivity]. simpl.
        rewrite (agree_is_st _ _ (pgroup_in_shape _ P)), (GC g Hg P). reflexivity. }
      rewrite !K; simpl; auto 10.
  Qed.

  (* ---- what the tallies say of a plan-level group = what its durable status says ---- *)
  Lemma pgroup_idle_inv g rs :
    grp_get (sh_groups sh) g = Some rs ->
    exists r l, ginv rs (GIdle r l) (f (OChecks SPlan g)) (gcf (s_img s) SPlan g) (gtf (m_t m) SPlan g).
  Proof.
    intro R. pose proof (i_groups _ _ _ I1 g) as GI. rewrite R in GI. unfold grp_inv, ginv_opt in GI.
    pose proof (proj1 (end_idle _ _ _ I1 HpE) g) as Q.
    destruct (tget (s_g s) g) as [r l|]; [|discriminate Q]. eauto.
  Qed.

  Lemma terminal_failed_iff c t : terminal_at c t -> (((0 <? t_n t) && negb (t_ok t)) = true <-> c_st c = Failed).
  Proof.
    intros [NS [S (Tn & _ & Tk & _)]]. rewrite Tn, Tk. unfold settled in S.
    destruct (c_st c); try contradiction; destruct S as [Sn Sk]; rewrite Sk.
    - rewrite andb_false_r. split; discriminate.
    - assert (Y : (0 <? c_n c) = true) by (apply Nat.ltb_lt; lia). rewrite Y. simpl. tauto.
  Qed.
  Lemma terminal_passed_iff c t : terminal_at c t -> (((0 <? t_n t) && t_ok t) = true <-> c_st c = Completed).
  Proof.
    intros [NS [S (Tn & _ & Tk & _)]]. rewrite Tn, Tk. unfold settled in S.
    destruct (c_st c); try contradiction; destruct S as [Sn Sk]; rewrite Sk.
    - assert (Y : (0 <? c_n c) = true) by (apply Nat.ltb_lt; lia). rewrite Y. simpl. tauto.
    - rewrite andb_false_r. split; discriminate.
  Qed.
  Lemma terminal_cases c t : terminal_at c t -> c_st c = Completed \/ c_st c = Failed.
  Proof.
    intros [NS [S _]]. unfold settled in S. destruct (c_st c); try contradiction; auto.
  Qed.

  Lemma grp_failed_iff g : grp_failed sh (m_t m) g = true <-> f (OChecks SPlan g) = Failed.
  Proof.
    unfold grp_failed, group_of. simpl.
    destruct (grp_get (sh_groups sh) g) as [rs|] eqn:R.
    - destruct (pgroup_idle_inv g rs R) as (r & l & GI). simpl in GI. rewrite existsb_seq.
      destruct r, l as [v|]; try contradiction.
      + destruct GI as [-> U]. split; [|discriminate]. intros (i & Hi & X). exfalso.
        destruct (U i Hi) as [_ (Tn & _)]. unfold act_failed, gtf in *. simpl in Tn. rewrite Tn in X. discriminate.
      + destruct GI as (-> & T & V). split.
        * intros (i & Hi & X). destruct v; [|reflexivity]. exfalso.
          apply (terminal_failed_iff _ _ (T i Hi)) in X. rewrite (proj1 V eq_refl i Hi) in X. discriminate.
        * intro X. destruct v; [discriminate|].
          (* not all Completed: some action is Failed *)
          assert (NE : ~ (forall i, i < length rs -> c_st (gcf (s_img s) SPlan g i) = Completed)).
          { intro A. apply V in A. discriminate. }
          assert (EX : forall n, n <= length rs ->
                       (forall i, i < n -> c_st (gcf (s_img s) SPlan g i) = Completed)
                       \/ exists i, i < n /\ c_st (gcf (s_img s) SPlan g i) = Failed).
          { induction n as [|n IH]; intro Hn; [left; intros; lia|].
            destruct IH as [A|(i & Hi & A)]; [lia| |right; exists i; split; [lia|auto]].
            destruct (terminal_cases _ _ (T n ltac:(lia))) as [C|C].
            - left. intros i Hi. destruct (Nat.eq_dec i n) as [->|]; [exact C|apply A; lia].
            - right. exists n. split; [lia|exact C]. }
          destruct (EX (length rs) (le_n _)) as [A|(i & Hi & A)]; [contradiction|].
          exists i. split; [exact Hi|]. unfold act_failed. apply (terminal_failed_iff _ _ (T i Hi)). exact A.
    - split; [discriminate|]. pose proof (i_groups _ _ _ I1 g) as GI. rewrite R in GI.
      destruct GI as [_ X]. rewrite X. discriminate.
  Qed.

  Lemma grp_passed_iff :
    gpresent sh GBypass = true -> (f (OChecks SPlan GBypass) = Completed \/ f (OChecks SPlan GBypass) = Failed) ->
    (grp_passed sh (m_t m) GBypass = true <-> f (OChecks SPlan GBypass) = Completed).
  Proof.
    intros P ST. unfold grp_passed, group_of. simpl. unfold gpresent in P. simpl in P.
    destruct (g_bypass (sh_groups sh)) as [rs|] eqn:R; [|discriminate].
    destruct (pgroup_idle_inv GBypass rs R) as (r & l & GI). simpl in GI. rewrite forallb_seq.
    destruct r, l as [v|]; try contradiction.
    - destruct GI as [X _]. destruct ST as [Y|Y]; rewrite Y in X; discriminate X.
    - destruct GI as (E & T & V). rewrite E. split.
      + intro A. assert (v = true) as ->; [|reflexivity]. apply V. intros i Hi.
        apply (terminal_passed_iff _ _ (T i Hi)). apply (A i Hi).
      + intro X. assert (v = true) as -> by (destruct v; [reflexivity|discriminate X]).
        intros i Hi. unfold act_passed. apply (terminal_passed_iff _ _ (T i Hi)). apply (proj1 V eq_refl i Hi).
  Qed.

  Lemma absent_status g : gabsent sh g -> f (OChecks SPlan g) = NotStarted.
  Proof.
    intro A. pose proof (i_groups _ _ _ I1 g) as GI. unfold gabsent in A. rewrite A in GI. apply GI.
  Qed.
  Lemma gpresent_false g : gabsent sh g -> gpresent sh g = false.
  Proof. unfold gabsent, gpresent. intros ->. reflexivity. Qed.
  Lemma gpresent_true g : ~ gabsent sh g -> gpresent sh g = true.
  Proof. unfold gabsent, gpresent. destruct (grp_get (sh_groups sh) g); [reflexivity|intro H; elim H; reflexivity]. Qed.

  (* the test of examineChecks on a group that has run (or is absent) = the trace shows the group failing *)
  Lemma examine_test g :
    ran sh s g -> gpresent sh g && negb (status_eqb (f (OChecks SPlan g)) Completed) = grp_failed sh (m_t m) g.
  Proof.
    unfold ran, gstat. intros [A|[C|F]].
    - rewrite (gpresent_false g A). simpl. symmetry.
      destruct (grp_failed sh (m_t m) g) eqn:X; [|reflexivity].
      apply grp_failed_iff in X. rewrite (absent_status g A) in X. discriminate.
    - rewrite C. simpl. rewrite andb_false_r. symmetry.
      destruct (grp_failed sh (m_t m) g) eqn:X; [|reflexivity].
      apply grp_failed_iff in X. rewrite C in X. discriminate.
    - assert (P : gpresent sh g = true).
      { apply gpresent_true. intro A. rewrite (absent_status g A) in F. discriminate. }
      rewrite P, F. simpl. symmetry. apply grp_failed_iff. exact F.
  Qed.

  (* 11: the reason Final.final computes on this image is the first stage the trace shows failing *)
  Lemma final_sound : shown_reason sh (m_t m) fin = snd (final sh f).
  Proof.
    pose proof I2 as J. unfold Inv2 in J. rewrite Hp in J. simpl in J. destruct J as [[[BP BC]|(NB & RP & RC & RD & TL)] _].
    - (* bypassed as a whole *)
      unfold gstat in BC. pose proof (gpresent_true _ BP) as P.
      unfold shown_reason. rewrite (proj2 (grp_passed_iff P (or_introl BC)) BC).
      unfold final, examine_bypass. rewrite P, BC. reflexivity.
    - assert (GPF : grp_passed sh (m_t m) GBypass = false).
      { destruct NB as [A|F].
        - unfold grp_passed, group_of. simpl. unfold gabsent in A. simpl in A. now rewrite A.
        - unfold gstat in F. assert (P : gpresent sh GBypass = true).
          { apply gpresent_true. intro A. rewrite (absent_status _ A) in F. discriminate. }
          destruct (grp_passed sh (m_t m) GBypass) eqn:X; [|reflexivity].
          apply (grp_passed_iff P (or_intror F)) in X. rewrite F in X. discriminate. }
      assert (EBF : examine_bypass sh f = false).
      { unfold examine_bypass. destruct NB as [A|F].
        - now rewrite (gpresent_false _ A).
        - unfold gstat in F. rewrite F. simpl. apply andb_false_r. }
      unfold shown_reason. rewrite GPF. unfold final. rewrite EBF. cbn [examine reason_of].
      rewrite (examine_test GPre RP), (examine_test GCont RC), block_failed_eq.
      destruct (grp_failed sh (m_t m) GPre) eqn:FP; [reflexivity|].
      destruct (grp_failed sh (m_t m) GCont) eqn:FC; [reflexivity|].
      destruct (any_block_failed sh f) eqn:AB.
      + unfold final_blocks. destruct (all_blocks_completed sh f) eqn:AC; [|reflexivity].
        exfalso. unfold any_block_failed in AB. unfold all_blocks_completed in AC.
        apply existsb_exists in AB as (b & Hb & X). rewrite forallb_forall in AC. specialize (AC b Hb).
        apply status_eqb_eq in X. apply status_eqb_eq in AC. congruence.
      + (* no cause is evident: the post checks ran and every block completed *)
        assert (TL' : all_completed sh s /\ ran sh s GPost).
        { destruct TL as [X|[X|[X|(b & bs & Hb & X)]]]; [exact X| | |].
          - apply grp_failed_iff in X. congruence.
          - apply grp_failed_iff in X. congruence.
          - exfalso. unfold any_block_failed in AB.
            assert (Y : existsb (fun b => status_eqb (f (OBlock b)) Failed) (block_indices sh) = true).
            { apply existsb_exists. exists b. split.
              - unfold block_indices. apply List.in_seq. apply nth_error_some_lt in Hb. lia.
              - unfold bstat in X. rewrite X. reflexivity. }
            congruence. }
        destruct TL' as [ACs RPo].
        rewrite (examine_test GPost RPo), (examine_test GDeferred RD).
        destruct (grp_failed sh (m_t m) GPost) eqn:FPo; [reflexivity|].
        destruct (grp_failed sh (m_t m) GDeferred) eqn:FD; [reflexivity|].
        unfold final_blocks.
        assert (AC : all_blocks_completed sh f = true).
        { unfold all_blocks_completed. apply forallb_forall. intros b Hb. unfold block_indices in Hb.
          apply List.in_seq in Hb. destruct (nth_error (sh_blocks sh) b) as [bs|] eqn:E.
          - unfold all_completed, bstat in ACs. rewrite (ACs b bs E). reflexivity.
          - apply nth_error_None in E. lia. }
        rewrite AC. reflexivity.
  Qed.

  (* ================= every clause evaluated at the release holds ================= *)
  Lemma flat_map_nil {A B} (g : A -> list B) l : (forall x, In x l -> g x = []) -> flat_map g l = [].
  Proof.
    induction l as [|x l IH]; intro H; simpl; [reflexivity|].
    rewrite (H x (or_introl eq_refl)), IH; [reflexivity|]. intros y Hy. apply H. right. exact Hy.
  Qed.

  Theorem release_ok : release_codes sh m fin = [].
  Proof.
    unfold release_codes.
    assert (R1 : im_reason fin = snd (final sh f)) by (rewrite agree_reason, <- plan_is_final; reflexivity).
    assert (P1 : f OPlan = fst (final sh f)) by (rewrite <- plan_is_final; reflexivity).
    (* 2 *)
    rewrite !(agree_is_st _ _ plan_in_shape).
    assert (C2 : status_eqb (f OPlan) Completed || status_eqb (f OPlan) Failed = true).
    { destruct plan_done as [X|X]; rewrite X; reflexivity. }
    rewrite C2. cbn [negb when app].
    (* per object *)
    rewrite flat_map_nil.
    2:{ intros o Ho. apply all_objs_spec in Ho. destruct (agree_lookup o Ho) as (c & L & E).
        unfold obj_codes. rewrite L.
        assert (NR : status_eqb (oc_st c) Running = false).
        { pose proof (not_running o Ho) as X. unfold ist in X. rewrite E in X. simpl in X.
          destruct (oc_st c); try reflexivity. elim X. reflexivity. }
        rewrite NR. simpl. destruct o as [|sc g|b|b q|a]; try reflexivity.
        - destruct (seq_of sh b q) as [rs|] eqn:SQ; [|reflexivity]. rewrite (seq_clause b q rs SQ). reflexivity.
        - destruct (act_clauses a c Ho L) as (A1 & A2 & A3). rewrite A1, A2, A3. reflexivity. }
    cbn [app].
    (* 6 *)
    rewrite plan_clause. cbn [negb when app].
    (* 11 *)
    assert (C11 : reason_ok sh (m_t m) fin = true).
    { unfold reason_ok. rewrite (agree_is_st _ _ plan_in_shape), final_sound, R1, P1.
      rewrite (proj2 (reason_eqb_eq _ _) eq_refl). simpl.
      pose proof (final_completed_iff sh f) as X.
      destruct (status_eqb (fst (final sh f)) Completed) eqn:A; destruct (reason_eqb (snd (final sh f)) FRUnknown) eqn:B;
        try reflexivity; exfalso.
      - apply status_eqb_eq in A. apply X in A. rewrite A in B. discriminate.
      - apply reason_eqb_eq in B. apply X in B. rewrite B in A. discriminate. }
    rewrite C11. cbn [negb when app].
    (* 15, 16 *)
    unfold written_ok, written_reason_ok. rewrite (i_pw _ _ _ I1). simpl.
    rewrite (agree_fst _ plan_in_shape), agree_reason.
    rewrite (proj2 (status_eqb_eq _ _) eq_refl), (proj2 (reason_eqb_eq _ _) eq_refl). simpl.
    rewrite final_sound. rewrite <- plan_is_final. simpl.
    rewrite (proj2 (reason_eqb_eq _ _) eq_refl). simpl.
    (* 17 *)
    assert (C17 : group_truthful sh (m_t m) fin = true).
    { unfold group_truthful. apply forallb_forall. intros g _. rewrite present_eq.
      destruct (gpresent sh g) eqn:P; [|reflexivity]. simpl.
      rewrite (agree_is_st _ _ (pgroup_in_shape _ P)).
      pose proof (grp_failed_iff g) as X.
      destruct (status_eqb (f (OChecks SPlan g)) Failed) eqn:A; destruct (grp_failed sh (m_t m) g) eqn:B;
        try reflexivity; exfalso.
      - apply status_eqb_eq in A. apply X in A. discriminate.
      - assert (Y : f (OChecks SPlan g) = Failed) by (apply X; reflexivity). rewrite Y in A. discriminate. }
    rewrite C17. reflexivity.
  Qed.
End AtRelease.
