(* The product invariant of C04, bottom-up: what relates a sub-automaton of coq/engine (one action, one
   check group, one sequence) to the durable cells of its objects and to the monitor's tallies.
   Definitions only; the preservation lemmas are in InvLocal.v / InvBlock.v / InvPlan.v. *)
From Coq Require Import Lia.
From Coercion.Base Require Import Plan.
From Coercion.Engine Require Import Shape Event Action ChecksRun Seq Block Final PlanSM Auto Accept AutoLemmas.
From Coercion.C04 Require Import MonC04 Views.

Notation vs := verdict_status.

Definition tally_is (t : tally) (n : nat) (op ok dur : bool) : Prop :=
  t_n t = n /\ t_open t = op /\ t_ok t = ok /\ t_dur t = dur.

(* a cell nobody is working on: NotStarted and untouched, or finished with attempts *)
Definition settled (c : cell) : Prop :=
  match c_st c with
  | NotStarted => c_n c = 0 /\ c_ok c = false
  | Completed => 0 < c_n c /\ c_ok c = true
  | Failed => 0 < c_n c /\ c_ok c = false
  | _ => False
  end.
Definition tsettled (c : cell) (t : tally) : Prop := tally_is t (c_n c) false (c_ok c) false.
Definition quiet_at (c : cell) (t : tally) : Prop := settled c /\ tsettled c t.
Definition untouched_at (c : cell) (t : tally) : Prop := c = cell0 /\ tsettled cell0 t.
Definition done_at (c : cell) (t : tally) : Prop := c_st c = Completed /\ quiet_at c t.
Definition failed_at (c : cell) (t : tally) : Prop := c_st c = Failed /\ quiet_at c t.
Definition terminal_at (c : cell) (t : tally) : Prop := c_st c <> NotStarted /\ quiet_at c t.

(* one action: its automaton state, its durable cell, its tally *)
Definition arel (x : ast) (c : cell) (t : tally) : Prop :=
  match x with
  | AIdle => quiet_at c t
  | ARun k => c = mkc Running k false /\ tally_is t k false false (Nat.eqb k 0)
  | AFly k => c = mkc Running k false /\ tally_is t (S k) true false (Nat.eqb k 0)
  | ARet k o => c = mkc Running k false /\ tally_is t (S k) false (outcome_ok o) (Nat.eqb k 0)
  | APend v n => 0 < n /\ c = mkc Running n v /\ tally_is t n false v false
  | ADone v n => 0 < n /\ c = mkc (vs v) n v /\ tally_is t n false v false
  end.

(* ---- one check group: rs = retries of its actions, gs = durable status of the group,
        cf i / tf i = cell and tally of its action i ---- *)
Section Group.
  Variable rs : list nat.
  Definition ginv (g : gst) (gs : status) (cf : nat -> cell) (tf : nat -> tally) : Prop :=
    match g with
    | GIdle 0 None => gs = NotStarted /\ forall i, i < length rs -> untouched_at (cf i) (tf i)
    | GIdle (S _) (Some v) =>
        gs = vs v /\ (forall i, i < length rs -> terminal_at (cf i) (tf i))
        /\ (v = true <-> forall i, i < length rs -> c_st (cf i) = Completed)
    | GIdle _ _ => False
    | GRun _ acts =>
        length acts = length rs /\ gs <> Failed
        /\ forall i x, nth_error acts i = Some x -> arel x (cf i) (tf i)
    end.
End Group.

Definition ginv_opt (ors : option (list nat)) (g : gst) (gs : status) (cf : nat -> cell) (tf : nat -> tally) : Prop :=
  match ors with
  | Some rs => ginv rs g gs cf tf
  | None => g = g0 /\ gs = NotStarted
  end.

(* ---- one sequence ---- *)
Section Sequence.
  Variable rs : list nat.
  Definition qfinal (v : bool) (cf : nat -> cell) (tf : nat -> tally) : Prop :=
    if v then forall i, i < length rs -> done_at (cf i) (tf i)
    else exists j, j < length rs /\ (forall i, i < j -> done_at (cf i) (tf i)) /\ failed_at (cf j) (tf j)
                   /\ (forall i, j < i -> i < length rs -> untouched_at (cf i) (tf i)).
  Definition qinv (q : sst) (qs : status) (cf : nat -> cell) (tf : nat -> tally) : Prop :=
    match q with
    | SIdle => qs = NotStarted /\ forall i, i < length rs -> untouched_at (cf i) (tf i)
    | SRun j x =>
        qs = Running /\ (forall i, i < j -> done_at (cf i) (tf i))
        /\ (forall i, j < i -> i < length rs -> untouched_at (cf i) (tf i))
        /\ (j < length rs -> arel x (cf j) (tf j) /\ (x = AIdle -> untouched_at (cf j) (tf j)))
        /\ j <= length rs /\ (j = length rs -> x = AIdle)
    | SPend v => qs = Running /\ qfinal v cf tf
    | SDone v => qs = vs v /\ qfinal v cf tf
    end.
End Sequence.

Definition s_quiet (q : sst) : bool := match q with SIdle | SDone _ => true | _ => false end.
