(* C12 - proofs about ApiModel.v for the repaired configuration `fixed ms` (mutex + waiter check + Read of an
   unknown id is an error), for every reachable state, i.e. every interleaving of the small steps of any number
   of concurrent callers, engine goroutines, submissions, vault creations/deletions and clock ticks.

   One inductive invariant (Inv): per id, `good` ties executions, engine goroutines, the waiter entry and the
   stored status together; at most one Start is in progress (the mutex); and what the Start in progress has
   already established (waiter absent / plan read as NotStarted, valid and fresh at time tv) still holds,
   because nobody else can launch while it is in progress.  Everything else is a corollary. *)
From Coq Require Import List ZArith Bool Arith Lia.
From Coercion.Base Require Import Plan.
From Coercion.Api Require Import ApiModel.
Import ListNotations.
Local Open Scope Z_scope.

(* ---- the store as an association list ---- *)
Lemma get_set_same s id p : get (set s id p) id = p.
Proof. unfold get, set; simpl. rewrite Nat.eqb_refl. reflexivity. Qed.

Lemma get_set_other s id id' p : id <> id' -> get (set s id p) id' = get s id'.
Proof. intro H. unfold get, set; simpl. destruct (Nat.eqb id id') eqn:E; [apply Nat.eqb_eq in E; contradiction | reflexivity]. Qed.

Lemma get_set s id id' p : get (set s id p) id' = if Nat.eqb id id' then p else get s id'.
Proof. unfold get, set; simpl. reflexivity. Qed.

Lemma get_alloc s p id : get (alloc s p) id = if Nat.eqb (next s) id then p else get s id.
Proof. reflexivity. Qed.

Lemma get_with_inprog s l id : get (with_inprog s l) id = get s id.
Proof. reflexivity. Qed.

(* ---- invariant ---- *)
Definition unstartable (o : option pl) : Prop :=
  match o with Some p => pl_status p <> NotStarted | None => True end.

Definition good (p : pst) : Prop :=
  match engines p with
  | [] => waiter p = WNone /\ (execs p = 0%nat \/ (execs p = 1%nat /\ unstartable (stored p)))
  | [e] => execs p = 1%nat
           /\ waiter p = (match e with EClosed => WClosed | _ => WOpen end)
           /\ (e <> ESpawned -> unstartable (stored p))
  | _ => False
  end.

Definition entry_ok (ms : Z) (s : st) (e : nat * sstage) : Prop :=
  match snd e with
  | SLocked => True
  | SChecked => waiter (get s (fst e)) = WNone
  | SValidated tv =>
      waiter (get s (fst e)) = WNone /\ tv <= now s /\
      exists p t, stored (get s (fst e)) = Some p /\ pl_status p = NotStarted /\ pl_valid p = true
                  /\ pl_submit p = Some t /\ tv <= t + ms /\ ms <> 0
  end.

Record Inv (ms : Z) (s : st) : Prop := {
  inv_good : forall id, good (get s id);
  inv_fresh : forall id, (next s <= id)%nat -> get s id = absent;
  inv_lock : (length (inprog s) <= 1)%nat;
  inv_entries : forall e, In e (inprog s) -> entry_ok ms s e }.

Lemma good_absent : good absent.
Proof. unfold good; simpl. auto. Qed.

Lemma good_new p : good (new_pst p).
Proof. unfold good; simpl. auto. Qed.

Lemma inv_init ms t0 : Inv ms (init t0).
Proof.
  constructor; simpl; intros.
  - apply good_absent.
  - reflexivity.
  - lia.
  - contradiction.
Qed.

(* waiter None forces: no engine, and a plan still NotStarted has never been launched *)
Lemma good_wnone_noeng p : good p -> waiter p = WNone -> engines p = [].
Proof.
  unfold good. destruct (engines p) as [|e [|e' r]]; intros G W; auto.
  - destruct G as (_ & Hw & _). rewrite W in Hw. destruct e; discriminate.
  - contradiction.
Qed.

Lemma good_wnone_notstarted p x :
  good p -> waiter p = WNone -> stored p = Some x -> pl_status x = NotStarted -> execs p = 0%nat.
Proof.
  intros G W S N. pose proof (good_wnone_noeng _ G W) as E.
  unfold good in G. rewrite E in G. destruct G as (_ & [H | (H & U)]); auto.
  rewrite S in U. simpl in U. contradiction.
Qed.

Lemma good_execs_le1 p : good p -> (execs p <= 1)%nat.
Proof.
  unfold good. destruct (engines p) as [|e [|e' r]]; intros G.
  - destruct G as (_ & [H | (H & _)]); lia.
  - destruct G as (H & _); lia.
  - contradiction.
Qed.
(* ---- preservation ---- *)
Lemma entry_ok_set ms s id p e :
  entry_ok ms s e -> (fst e <> id \/ snd e = SLocked) -> entry_ok ms (set s id p) e.
Proof.
  intros H [Hne | Hl].
  - unfold entry_ok in *. rewrite get_set_other by congruence. exact H.
  - unfold entry_ok in *. rewrite Hl. exact I.
Qed.

Lemma entry_not_on_engine ms s e id :
  (forall i, good (get s i)) -> entry_ok ms s e -> engines (get s id) <> [] ->
  fst e <> id \/ snd e = SLocked.
Proof.
  intros G H Hne. destruct e as [i stg]; simpl in *. destruct stg as [| |tv]; auto; left; intro; subst i.
  - unfold entry_ok in H; simpl in H. apply Hne. apply good_wnone_noeng; auto.
  - unfold entry_ok in H; simpl in H. destruct H as (W & _). apply Hne. apply good_wnone_noeng; auto.
Qed.

Lemma inv_set_eng ms s id p :
  Inv ms s -> good p -> engines (get s id) <> [] -> Inv ms (set s id p).
Proof.
  intros [G F L E] Gp Hne. constructor.
  - intro i. rewrite get_set. destruct (Nat.eqb id i); auto.
  - intros i Hi. simpl in Hi. rewrite get_set. destruct (Nat.eqb id i) eqn:Ei.
    + apply Nat.eqb_eq in Ei. subst i. exfalso. apply Hne. rewrite (F id Hi). reflexivity.
    + auto.
  - exact L.
  - intros e He. simpl in He. apply entry_ok_set; auto. eapply entry_not_on_engine; eauto.
Qed.

Lemma inv_with_inprog ms s l :
  Inv ms s -> (length l <= 1)%nat -> (forall e, In e l -> entry_ok ms s e) -> Inv ms (with_inprog s l).
Proof.
  intros [G F L E] Hl He. constructor; auto.
Qed.

Lemma good_single p e :
  good p -> forall j, nth_error (engines p) j = Some e ->
  j = 0%nat /\ engines p = [e] /\ execs p = 1%nat
  /\ waiter p = (match e with EClosed => WClosed | _ => WOpen end)
  /\ (e <> ESpawned -> unstartable (stored p)).
Proof.
  unfold good. destruct (engines p) as [|e0 [|e1 r]]; intros G j Hj.
  - destruct j; discriminate.
  - destruct j as [|j]; simpl in Hj.
    + inversion Hj; subst. destruct G as (A & B & C). auto.
    + destruct j; discriminate.
  - contradiction.
Qed.

Lemma lock_single {A} (l : list A) k x :
  (length l <= 1)%nat -> nth_error l k = Some x -> k = 0%nat /\ l = [x].
Proof.
  destruct l as [|a [|b r]]; simpl; intros H Hk.
  - destruct k; discriminate.
  - destruct k as [|k]; simpl in Hk; [inversion Hk; auto | destruct k; discriminate].
  - lia.
Qed.

Lemma stored_in_range ms s id x : Inv ms s -> stored (get s id) = Some x -> (id < next s)%nat.
Proof.
  intros I H. destruct (Nat.lt_ge_cases id (next s)) as [Hl | Hg]; auto.
  rewrite (inv_fresh _ _ I id Hg) in H. discriminate.
Qed.

Lemma validate_true ms t p :
  validate (fixed ms) t p = true ->
  ms <> 0 /\ pl_status p = NotStarted /\ pl_valid p = true /\ exists sub, pl_submit p = Some sub /\ t <= sub + ms.
Proof.
  unfold validate; simpl. intro H.
  apply andb_prop in H; destruct H as (H & Hv).
  apply andb_prop in H; destruct H as (H & Hs).
  apply andb_prop in H; destruct H as (Hm & Hsub).
  split; [ intro; subst; discriminate |].
  split; [ apply status_eqb_eq; assumption |].
  split; [ assumption |].
  destruct (pl_submit p) as [sub|]; [| discriminate].
  exists sub. split; auto. apply negb_true_iff in Hsub. apply Z.ltb_ge in Hsub. lia.
Qed.

Lemma write_unstartable t o : t <> NotStarted -> unstartable (write_status t o).
Proof. destruct o; simpl; auto. Qed.

Lemma inv_alloc ms s p : Inv ms s -> Inv ms (alloc s (new_pst p)).
Proof.
  intros [G F L E]. constructor.
  - intro i. rewrite get_alloc. destruct (Nat.eqb (next s) i); [apply good_new | apply G].
  - intros i Hi. simpl in Hi. rewrite get_alloc.
    destruct (Nat.eqb (next s) i) eqn:Ei; [apply Nat.eqb_eq in Ei; lia | apply F; lia].
  - exact L.
  - intros e He. simpl in He. specialize (E e He). unfold entry_ok in *. rewrite get_alloc.
    destruct (Nat.eqb (next s) (fst e)) eqn:Ei; auto.
    apply Nat.eqb_eq in Ei. destruct (snd e) as [| |tv]; simpl; auto.
    destruct E as (_ & _ & x & t & Hs & _). rewrite (F (fst e)) in Hs by lia. discriminate.
Qed.

Theorem inv_step ms s l s' r :
  Inv ms s -> step (fixed ms) s l = Some (s', r) -> Inv ms s'.
Proof.
  intros HInv H. pose proof HInv as [G F L E].
  destruct l as [valid | p | id | d | id | k | k | k | id j | id j t | id j | id j | id c | id | id]; simpl in H.
  - (* Submit *)
    destruct valid; inversion H; subst; clear H; auto. apply inv_alloc; auto.
  - (* Create *)
    inversion H; subst; clear H. apply inv_alloc; auto.
  - (* Delete *)
    destruct (is_nil (engines (get s id)) && negb (existsb (on_id id) (inprog s))) eqn:C; [| discriminate].
    inversion H; subst; clear H. apply andb_prop in C. destruct C as (Cn & Cx).
    assert (En : engines (get s id) = []) by (destruct (engines (get s id)); [reflexivity | discriminate]).
    pose proof (G id) as Gid. unfold good in Gid. rewrite En in Gid. destruct Gid as (W & X).
    constructor; simpl.
    + intro i. rewrite get_set. destruct (Nat.eqb id i); auto.
      unfold good; simpl. rewrite En. split; auto. destruct X as [X | (X & _)]; auto.
    + intros i Hi. rewrite get_set. destruct (Nat.eqb id i) eqn:Ei; auto.
      apply Nat.eqb_eq in Ei. subst i. rewrite (F id Hi). reflexivity.
    + exact L.
    + intros e He. apply entry_ok_set; auto. left.
      apply negb_true_iff in Cx. intro Heq.
      assert (existsb (on_id id) (inprog s) = true) as Hx.
      { apply existsb_exists. exists e. split; auto. unfold on_id. apply Nat.eqb_eq. auto. }
      congruence.
  - (* Tick *)
    destruct (Z.leb 0 d) eqn:Hd; [| discriminate]. inversion H; subst; clear H. apply Z.leb_le in Hd.
    constructor; simpl; auto.
    intros e He. specialize (E e He). unfold entry_ok in *. unfold get in *; simpl.
    destruct (snd e) as [| |tv]; auto. destruct E as (A & B & C). split; auto. split; [lia | auto].
  - (* StartEnter *)
    destruct (inprog s) as [|e0 rest] eqn:HI; simpl in H; [| discriminate].
    inversion H; subst; clear H. apply inv_with_inprog; [assumption | simpl; lia |].
    intros e [He | []]. subst e. unfold entry_ok; simpl. trivial.
  - (* StartCheck *)
    destruct (nth_error (inprog s) k) as [[id stg]|] eqn:Hk; [| discriminate].
    destruct stg; try discriminate.
    destruct (lock_single _ _ _ L Hk) as (K0 & HI). subst k.
    destruct (negb (is_wnone (waiter (get s id)))) eqn:W; simpl in H; inversion H; subst; clear H.
    + apply inv_with_inprog; auto; rewrite HI; simpl; [lia | intros e []].
    + apply inv_with_inprog; auto; rewrite HI; simpl; [lia |].
      intros e [He | []]. subst e. unfold entry_ok; simpl.
      apply negb_false_iff in W. destruct (waiter (get s id)); [reflexivity | discriminate | discriminate].
  - (* StartRead *)
    destruct (nth_error (inprog s) k) as [[id stg]|] eqn:Hk; [| discriminate].
    destruct stg; try discriminate.
    destruct (lock_single _ _ _ L Hk) as (K0 & HI). subst k.
    assert (Wn : waiter (get s id) = WNone).
    { assert (In (id, SChecked) (inprog s)) as Hin by (rewrite HI; left; reflexivity). apply (E _ Hin). }
    destruct (stored (get s id)) as [p|] eqn:Hs.
    + destruct (validate (fixed ms) (now s) p) eqn:V; inversion H; subst; clear H.
      * apply inv_with_inprog; auto; rewrite HI; simpl; [lia |].
        intros e [He | []]. subst e. unfold entry_ok; simpl.
        destruct (validate_true _ _ _ V) as (M & N & Vd & sub & Hsub & Hle).
        split; auto. split; [lia |]. exists p, sub. auto 10.
      * apply inv_with_inprog; auto; rewrite HI; simpl; [lia | intros e []].
    + inversion H; subst; clear H. apply inv_with_inprog; auto; rewrite HI; simpl; [lia | intros e []].
  - (* StartLaunch *)
    destruct (nth_error (inprog s) k) as [[id stg]|] eqn:Hk; [| discriminate].
    destruct stg as [| |tv]; try discriminate.
    destruct (lock_single _ _ _ L Hk) as (K0 & HI). subst k.
    inversion H; subst; clear H.
    assert (Hin : In (id, SValidated tv) (inprog s)) by (rewrite HI; left; reflexivity).
    destruct (E _ Hin) as (Wn & Htv & p & t & Hs & Hn & _). simpl in Wn, Hs.
    pose proof (good_wnone_noeng _ (G id) Wn) as En.
    pose proof (good_wnone_notstarted _ _ (G id) Wn Hs Hn) as Ex.
    rewrite HI. simpl remove_nth.
    constructor.
    + intro i. rewrite get_with_inprog, get_set. destruct (Nat.eqb id i); auto.
      unfold good; simpl. rewrite En, Ex. simpl. split; auto. split; auto. intro C; contradiction.
    + intros i Hi. simpl in Hi. rewrite get_with_inprog, get_set. destruct (Nat.eqb id i) eqn:Ei; auto.
      apply Nat.eqb_eq in Ei. subst i. pose proof (stored_in_range _ _ _ _ HInv Hs). lia.
    + simpl. lia.
    + intros e [].
  - (* EngRunning *)
    destruct (nth_error (engines (get s id)) j) as [e|] eqn:Hj; [| discriminate].
    destruct e; try discriminate. inversion H; subst; clear H.
    destruct (good_single _ _ (G id) _ Hj) as (J0 & En & Ex & W & U). subst j.
    apply inv_set_eng; auto; [| rewrite En; discriminate].
    unfold good; simpl. rewrite En; simpl. split; auto. split; auto.
    intros _. apply write_unstartable. discriminate.
  - (* EngFinish *)
    destruct (nth_error (engines (get s id)) j) as [e|] eqn:Hj; [| discriminate].
    destruct e; try discriminate.
    destruct (is_terminal t) eqn:T; [| discriminate]. inversion H; subst; clear H.
    destruct (good_single _ _ (G id) _ Hj) as (J0 & En & Ex & W & U). subst j.
    apply inv_set_eng; auto; [| rewrite En; discriminate].
    unfold good; simpl. rewrite En; simpl. split; auto. split; auto.
    intros _. apply write_unstartable. destruct t; discriminate.
  - (* EngRelease *)
    destruct (nth_error (engines (get s id)) j) as [e|] eqn:Hj; [| discriminate].
    destruct e; try discriminate.
    destruct (good_single _ _ (G id) _ Hj) as (J0 & En & Ex & W & U). subst j.
    rewrite W in H. inversion H; subst; clear H.
    apply inv_set_eng; auto; [| rewrite En; discriminate].
    unfold good; simpl. rewrite En; simpl. split; auto. split; auto.
    intros _. apply U. discriminate.
  - (* EngCleanup *)
    destruct (nth_error (engines (get s id)) j) as [e|] eqn:Hj; [| discriminate].
    destruct e; try discriminate. inversion H; subst; clear H.
    destruct (good_single _ _ (G id) _ Hj) as (J0 & En & Ex & W & U). subst j.
    apply inv_set_eng; auto; [| rewrite En; discriminate].
    unfold good; simpl. rewrite En; simpl. split; auto. right. split; auto. apply U. discriminate.
  - (* Wait *)
    destruct (waiter (get s id)); [| destruct c |]; inversion H; subst; auto.
  - (* Status *)
    destruct (stored (get s id)); inversion H; subst; auto.
  - (* Plan *)
    inversion H; subst; auto.
Qed.

Theorem inv_reach ms s : reach (fixed ms) s -> Inv ms s.
Proof.
  induction 1 as [t0 | s l s' r Hr IH Hs].
  - apply inv_init.
  - eapply inv_step; eauto.
Qed.

(* ---- consequences of the invariant: the parts of c12_at_most_once ---- *)
Theorem execs_le1 ms s : reach (fixed ms) s -> forall id, (execs (get s id) <= 1)%nat.
Proof. intros R id. apply good_execs_le1. apply (inv_good _ _ (inv_reach _ _ R)). Qed.

Theorem mutual_exclusion ms s : reach (fixed ms) s -> (length (inprog s) <= 1)%nat.
Proof. intro R. apply (inv_lock _ _ (inv_reach _ _ R)). Qed.

Theorem no_panic ms s l s' r :
  reach (fixed ms) s -> step (fixed ms) s l = Some (s', r) -> r <> RPanic.
Proof.
  intros R H. pose proof (inv_reach _ _ R) as [G F L E].
  destruct l as [valid | p | id | d | id | k | k | k | id j | id j t | id j | id j | id c | id | id]; simpl in H.
  - destruct valid; inversion H; discriminate.
  - inversion H; discriminate.
  - destruct (is_nil (engines (get s id)) && negb (existsb (on_id id) (inprog s))); inversion H; discriminate.
  - destruct (Z.leb 0 d); inversion H; discriminate.
  - destruct (negb (is_nil (inprog s))); inversion H; discriminate.
  - destruct (nth_error (inprog s) k) as [[id stg]|]; [| discriminate].
    destruct stg; try discriminate.
    destruct (negb (is_wnone (waiter (get s id)))); inversion H; discriminate.
  - destruct (nth_error (inprog s) k) as [[id stg]|]; [| discriminate].
    destruct stg; try discriminate.
    destruct (stored (get s id)) as [p|]; [destruct (validate (fixed ms) (now s) p) |]; inversion H; discriminate.
  - destruct (nth_error (inprog s) k) as [[id stg]|]; [| discriminate].
    destruct stg; try discriminate. inversion H; discriminate.
  - destruct (nth_error (engines (get s id)) j) as [e|]; [| discriminate].
    destruct e; try discriminate. inversion H; discriminate.
  - destruct (nth_error (engines (get s id)) j) as [e|]; [| discriminate].
    destruct e; try discriminate. destruct (is_terminal t); inversion H; discriminate.
  - destruct (nth_error (engines (get s id)) j) as [e|] eqn:Hj; [| discriminate].
    destruct e; try discriminate.
    destruct (good_single _ _ (G id) _ Hj) as (_ & _ & _ & W & _).
    rewrite W in H. inversion H; discriminate.
  - destruct (nth_error (engines (get s id)) j) as [e|]; [| discriminate].
    destruct e; try discriminate. inversion H; discriminate.
  - unfold read_res in H; simpl in H.
    destruct (waiter (get s id)); [| destruct c |]; try discriminate;
      destruct (stored (get s id)); inversion H; discriminate.
  - destruct (stored (get s id)); inversion H; discriminate.
  - unfold read_res in H; simpl in H. destruct (stored (get s id)); inversion H; discriminate.
Qed.

(* A Start call in progress on an id that has been launched (whether the execution is still running or has
   finished): its waiter check and its read change no plan; the read ends the call with an error; it is
   never at the launch stage. *)
Theorem start_after_launch ms s k id stg :
  reach (fixed ms) s -> nth_error (inprog s) k = Some (id, stg) -> (1 <= execs (get s id))%nat ->
  (forall s' r, step (fixed ms) s (LStartCheck k) = Some (s', r) ->
     plans s' = plans s /\ next s' = next s /\ now s' = now s
     /\ ((r = RRejected /\ inprog s' = []) \/ (r = RNone /\ inprog s' = [(id, SChecked)])))
  /\ (forall s' r, step (fixed ms) s (LStartRead k) = Some (s', r) ->
     plans s' = plans s /\ next s' = next s /\ now s' = now s /\ inprog s' = []
     /\ (r = RRejected \/ r = RNotFound))
  /\ step (fixed ms) s (LStartLaunch k) = None.
Proof.
  intros R Hk Hx. pose proof (inv_reach _ _ R) as [G F L E].
  destruct (lock_single _ _ _ L Hk) as (K0 & HI).
  assert (Hin : In (id, stg) (inprog s)) by (rewrite HI; left; reflexivity).
  pose proof (E _ Hin) as Eo.
  split; [| split].
  - intros s' r H. simpl in H. rewrite Hk in H. destruct stg; try discriminate.
    destruct (negb (is_wnone (waiter (get s id)))); inversion H; subst s' r; clear H; rewrite K0, HI; simpl; auto 10.
  - intros s' r H. simpl in H. rewrite Hk in H. destruct stg; try discriminate.
    unfold entry_ok in Eo; simpl in Eo.
    destruct (stored (get s id)) as [p|] eqn:Hs.
    + destruct (validate (fixed ms) (now s) p) eqn:V.
      * exfalso. destruct (validate_true _ _ _ V) as (_ & N & _).
        pose proof (good_wnone_notstarted _ _ (G id) Eo Hs N). lia.
      * inversion H; subst s' r; clear H. rewrite K0, HI; simpl. auto 10.
    + inversion H; subst s' r; clear H. rewrite K0, HI; simpl. auto 10.
  - simpl. rewrite Hk. destruct stg as [| |tv]; auto.
    exfalso. unfold entry_ok in Eo; simpl in Eo. destruct Eo as (W & _ & p & t & Hs & N & _).
    pose proof (good_wnone_notstarted _ _ (G id) W Hs N). lia.
Qed.

(* A plan whose submission is older than maxSubmit is rejected by the read step (no reachability needed:
   it is what validateStartState computes). *)
Theorem stale_rejected ms s k id p t :
  nth_error (inprog s) k = Some (id, SChecked) -> stored (get s id) = Some p -> pl_submit p = Some t ->
  t + ms < now s ->
  step (fixed ms) s (LStartRead k) = Some (with_inprog s (remove_nth k (inprog s)), RRejected).
Proof.
  intros Hk Hs Ht Hlt. simpl. rewrite Hk, Hs.
  assert (V : validate (fixed ms) (now s) p = false).
  { unfold validate; simpl. rewrite Ht. apply Z.ltb_lt in Hlt. rewrite Hlt. simpl.
    rewrite andb_false_r. reflexivity. }
  rewrite V. reflexivity.
Qed.

(* Every launch is of a plan that the same call validated, under the lock, at a time tv at which it was
   fresh (tv <= submit + maxSubmit), NotStarted and never launched; it makes executions 1 and touches no
   other plan. *)
Theorem launch_validated ms s k s' r :
  reach (fixed ms) s -> step (fixed ms) s (LStartLaunch k) = Some (s', r) ->
  r = ROk /\ exists id tv p t,
    nth_error (inprog s) k = Some (id, SValidated tv) /\ stored (get s id) = Some p
    /\ pl_status p = NotStarted /\ pl_valid p = true /\ pl_submit p = Some t
    /\ tv <= now s /\ tv <= t + ms /\ ms <> 0
    /\ execs (get s id) = 0%nat /\ execs (get s' id) = 1%nat /\ waiter (get s' id) = WOpen
    /\ inprog s' = [] /\ (forall i, i <> id -> get s' i = get s i).
Proof.
  intros R H. pose proof (inv_reach _ _ R) as [G F L E]. simpl in H.
  destruct (nth_error (inprog s) k) as [[id stg]|] eqn:Hk; [| discriminate].
  destruct stg as [| |tv]; try discriminate.
  destruct (lock_single _ _ _ L Hk) as (K0 & HI). subst k.
  assert (Hin : In (id, SValidated tv) (inprog s)) by (rewrite HI; left; reflexivity).
  destruct (E _ Hin) as (W & Htv & p & t & Hs & N & V & Ht & Hle & M). simpl in W, Hs.
  pose proof (good_wnone_notstarted _ _ (G id) W Hs N) as Ex.
  inversion H; subst; clear H. split; auto.
  exists id, tv, p, t. rewrite get_with_inprog, get_set_same. simpl. rewrite Ex, HI. simpl.
  repeat (split; auto).
  intros i Hi. rewrite get_with_inprog, get_set_other; auto.
Qed.

(* the validated stage is produced only by a read that succeeded, and records the time of that read *)
Theorem validated_by_read ms s k s' :
  step (fixed ms) s (LStartRead k) = Some (s', RNone) ->
  exists id, nth_error (inprog s) k = Some (id, SChecked)
             /\ inprog s' = replace_nth k (id, SValidated (now s)) (inprog s).
Proof.
  simpl. intro H.
  destruct (nth_error (inprog s) k) as [[id stg]|] eqn:Hk; [| discriminate].
  destruct stg; try discriminate.
  destruct (stored (get s id)) as [p|]; [destruct (validate (fixed ms) (now s) p) eqn:V |];
    inversion H; subst.
  exists id. auto.
Qed.

(* executions never decrease: "launched or finished" is stable *)
Theorem execs_mono ms s l s' r id :
  reach (fixed ms) s -> step (fixed ms) s l = Some (s', r) -> (execs (get s id) <= execs (get s' id))%nat.
Proof.
  intros R H. pose proof (inv_reach _ _ R) as [G F L E].
  destruct l as [valid | p | i | d | i | k | k | k | i j | i j t | i j | i j | i c | i | i]; simpl in H.
  - destruct valid; inversion H; subst; auto. rewrite get_alloc.
    destruct (Nat.eqb (next s) id) eqn:Ei; auto. apply Nat.eqb_eq in Ei. rewrite (F id) by lia. simpl. lia.
  - inversion H; subst. rewrite get_alloc.
    destruct (Nat.eqb (next s) id) eqn:Ei; auto. apply Nat.eqb_eq in Ei. rewrite (F id) by lia. simpl. lia.
  - destruct (is_nil (engines (get s i)) && negb (existsb (on_id i) (inprog s))); inversion H; subst.
    rewrite get_set. destruct (Nat.eqb i id) eqn:Ei; auto. apply Nat.eqb_eq in Ei. subst. simpl. lia.
  - destruct (Z.leb 0 d); inversion H; subst. unfold get; simpl. lia.
  - destruct (negb (is_nil (inprog s))); inversion H; subst. rewrite get_with_inprog. lia.
  - destruct (nth_error (inprog s) k) as [[i stg]|]; [| discriminate]. destruct stg; try discriminate.
    destruct (negb (is_wnone (waiter (get s i)))); inversion H; subst; rewrite get_with_inprog; lia.
  - destruct (nth_error (inprog s) k) as [[i stg]|]; [| discriminate]. destruct stg; try discriminate.
    destruct (stored (get s i)) as [p|]; [destruct (validate (fixed ms) (now s) p) |];
      inversion H; subst; rewrite get_with_inprog; lia.
  - destruct (nth_error (inprog s) k) as [[i stg]|]; [| discriminate]. destruct stg; try discriminate.
    inversion H; subst. rewrite get_with_inprog, get_set.
    destruct (Nat.eqb i id) eqn:Ei; auto. apply Nat.eqb_eq in Ei. subst. simpl. lia.
  - destruct (nth_error (engines (get s i)) j) as [e|]; [| discriminate]. destruct e; try discriminate.
    inversion H; subst. rewrite get_set. destruct (Nat.eqb i id) eqn:Ei; auto. apply Nat.eqb_eq in Ei. subst. simpl. lia.
  - destruct (nth_error (engines (get s i)) j) as [e|]; [| discriminate]. destruct e; try discriminate.
    destruct (is_terminal t); inversion H; subst.
    rewrite get_set. destruct (Nat.eqb i id) eqn:Ei; auto. apply Nat.eqb_eq in Ei. subst. simpl. lia.
  - destruct (nth_error (engines (get s i)) j) as [e|]; [| discriminate]. destruct e; try discriminate.
    destruct (waiter (get s i)); inversion H; subst; auto.
    rewrite get_set. destruct (Nat.eqb i id) eqn:Ei; auto. apply Nat.eqb_eq in Ei. subst. simpl. lia.
  - destruct (nth_error (engines (get s i)) j) as [e|]; [| discriminate]. destruct e; try discriminate.
    inversion H; subst. rewrite get_set. destruct (Nat.eqb i id) eqn:Ei; auto. apply Nat.eqb_eq in Ei. subst. simpl. lia.
  - destruct (waiter (get s i)); [| destruct c |]; inversion H; subst; auto.
  - destruct (stored (get s i)); inversion H; subst; auto.
  - inversion H; subst; auto.
Qed.

(* ---- whole calls made by a sequential caller ---- *)
Lemma with_inprog_nil s : inprog s = [] -> with_inprog s [] = s.
Proof. destruct s; simpl; intro; subst; reflexivity. Qed.

(* what a whole Start call computes when nothing is interleaved with it *)
Lemma start_call_seq c s id :
  read_before_lock c = false -> inprog s = [] ->
  start_call c s id =
    if use_wcheck c && negb (is_wnone (waiter (get s id))) then Some (s, RRejected)
    else match stored (get s id) with
         | None => Some (s, if read_absent_empty c then RRejected else RNotFound)
         | Some p =>
             if validate c (now s) p
             then Some (with_inprog (set s id {| stored := stored (get s id); waiter := WOpen;
                                                  execs := S (execs (get s id));
                                                  engines := engines (get s id) ++ [ESpawned] |}) [], ROk)
             else Some (s, RRejected)
         end.
Proof.
  intro Hrb. destruct s as [pls nx ip nw]. simpl. intro; subst ip.
  unfold start_call, step, get, with_inprog, set; simpl. rewrite Hrb. rewrite !andb_false_r. simpl.
  destruct (lookup pls id) as [sto w ex en] eqn:Hq; simpl.
  destruct (use_wcheck c); destruct w; simpl; rewrite ?Hq; simpl; try reflexivity;
    (destruct sto as [p|]; simpl; rewrite ?Hq; simpl;
     [destruct (validate c nw p); simpl; rewrite ?Hq; reflexivity | destruct (read_absent_empty c); reflexivity]).
Qed.

Theorem start_call_after_launch ms s id :
  reach (fixed ms) s -> inprog s = [] -> (1 <= execs (get s id))%nat ->
  exists r, start_call (fixed ms) s id = Some (s, r) /\ (r = RRejected \/ r = RNotFound).
Proof.
  intros R HI Hx. pose proof (inv_reach _ _ R) as [G F L E].
  rewrite start_call_seq by (assumption || reflexivity). simpl.
  destruct (negb (is_wnone (waiter (get s id)))) eqn:W.
  - exists RRejected. auto.
  - apply negb_false_iff in W.
    assert (Wn : waiter (get s id) = WNone) by (destruct (waiter (get s id)); [reflexivity | discriminate | discriminate]).
    destruct (stored (get s id)) as [p|] eqn:Hs.
    + destruct (validate (fixed ms) (now s) p) eqn:V.
      * exfalso. destruct (validate_true _ _ _ V) as (_ & N & _).
        pose proof (good_wnone_notstarted _ _ (G id) Wn Hs N). lia.
      * exists RRejected. auto.
    + exists RNotFound. auto.
Qed.

Theorem start_call_stale ms s id p t :
  inprog s = [] -> stored (get s id) = Some p -> pl_submit p = Some t -> t + ms < now s ->
  start_call (fixed ms) s id = Some (s, RRejected).
Proof.
  intros HI Hs Ht Hlt. rewrite start_call_seq by (assumption || reflexivity). simpl.
  destruct (negb (is_wnone (waiter (get s id)))); [reflexivity |].
  rewrite Hs.
  assert (V : validate (fixed ms) (now s) p = false).
  { unfold validate; simpl. rewrite Ht. apply Z.ltb_lt in Hlt. rewrite Hlt. simpl.
    rewrite andb_false_r. reflexivity. }
  rewrite V. reflexivity.
Qed.

(* not vacuous the other way: a fresh, valid, NotStarted plan that nobody started IS launched, once *)
Theorem start_call_fresh ms s id p :
  reach (fixed ms) s -> inprog s = [] -> stored (get s id) = Some p -> waiter (get s id) = WNone ->
  validate (fixed ms) (now s) p = true ->
  exists s', start_call (fixed ms) s id = Some (s', ROk)
             /\ execs (get s id) = 0%nat /\ execs (get s' id) = 1%nat /\ waiter (get s' id) = WOpen
             /\ engines (get s' id) = [ESpawned] /\ inprog s' = [].
Proof.
  intros R HI Hs W V. pose proof (inv_reach _ _ R) as [G F L E].
  destruct (validate_true _ _ _ V) as (_ & N & _).
  pose proof (good_wnone_notstarted _ _ (G id) W Hs N) as Ex.
  pose proof (good_wnone_noeng _ (G id) W) as En.
  rewrite start_call_seq by (assumption || reflexivity). simpl. rewrite W, Hs, V. simpl.
  eexists. split; [reflexivity |].
  rewrite get_with_inprog, get_set_same. simpl. rewrite Ex, En. auto.
Qed.

(* ---- a rejected Start has no side effects ---- *)
(* whatever the reason of the rejection (already running, finished, stale, invalid, unknown id): the state
   after the call IS the state before it *)
Theorem start_call_error_unchanged ms s id s' r :
  inprog s = [] -> start_call (fixed ms) s id = Some (s', r) -> r <> ROk -> s' = s /\ (r = RRejected \/ r = RNotFound).
Proof.
  intros HI H Hr. rewrite start_call_seq in H by (assumption || reflexivity). simpl in H.
  destruct (negb (is_wnone (waiter (get s id)))); [inversion H; subst; auto |].
  destruct (stored (get s id)) as [p|]; [| inversion H; subst; auto].
  destruct (validate (fixed ms) (now s) p); inversion H; subst; auto. contradiction.
Qed.

(* the steps of a Start before the launch touch no plan, in any interleaving *)
Theorem start_steps_keep_plans ms s l s' r :
  (exists id, l = LStartEnter id) \/ (exists k, l = LStartCheck k) \/ (exists k, l = LStartRead k) ->
  step (fixed ms) s l = Some (s', r) -> plans s' = plans s /\ next s' = next s /\ now s' = now s.
Proof.
  intros [[id Hl] | [[k Hl] | [k Hl]]] H; subst l; simpl in H.
  - destruct (negb (is_nil (inprog s))); inversion H; subst; auto.
  - destruct (nth_error (inprog s) k) as [[id stg]|]; [| discriminate]. destruct stg; try discriminate.
    destruct (negb (is_wnone (waiter (get s id)))); inversion H; subst; auto.
  - destruct (nth_error (inprog s) k) as [[id stg]|]; [| discriminate]. destruct stg; try discriminate.
    destruct (stored (get s id)) as [p|]; [destruct (validate (fixed ms) (now s) p) |]; inversion H; subst; auto.
Qed.

(* Wait on a plan that is not executing never blocks: it answers with what the store has *)
Theorem wait_idle_not_blocked ms s id c :
  reach (fixed ms) s -> engines (get s id) = [] ->
  step (fixed ms) s (LWait id c) = Some (s, read_res (fixed ms) s id) /\ read_res (fixed ms) s id <> RCanceled.
Proof.
  intros R En. pose proof (inv_good _ _ (inv_reach _ _ R) id) as G. unfold good in G. rewrite En in G.
  destruct G as (W & _). simpl. rewrite W. split; auto.
  unfold read_res; simpl. destruct (stored (get s id)); discriminate.
Qed.

(* together: after a Start that returned an error on a plan that is not executing, Wait answers at once with
   the same result as before that Start, and a second Start is rejected with the same class *)
Theorem rejected_start_no_side_effect ms s id s' r :
  reach (fixed ms) s -> inprog s = [] -> engines (get s id) = [] ->
  start_call (fixed ms) s id = Some (s', r) -> r <> ROk ->
  s' = s
  /\ (forall c, step (fixed ms) s' (LWait id c) = Some (s', read_res (fixed ms) s id))
  /\ read_res (fixed ms) s id <> RCanceled
  /\ start_call (fixed ms) s' id = Some (s', r).
Proof.
  intros R HI En H Hr. destruct (start_call_error_unchanged _ _ _ _ _ HI H Hr) as (Hs & _). subst s'.
  split; auto. split; [| split; auto].
  - intro c. apply (wait_idle_not_blocked _ _ _ c R En).
  - apply (wait_idle_not_blocked _ _ _ false R En).
Qed.

(* ---- an accepted Start is followed by an execution ---- *)
(* a registered waiter always belongs to a live run goroutine: there is no waiter without a run *)
Theorem waiter_has_run ms s id :
  reach (fixed ms) s -> waiter (get s id) <> WNone ->
  exists e, engines (get s id) = [e] /\ execs (get s id) = 1%nat.
Proof.
  intros R W. pose proof (inv_good _ _ (inv_reach _ _ R) id) as G. unfold good in G.
  destruct (engines (get s id)) as [|e [|e' r]].
  - destruct G as (Wn & _). contradiction.
  - exists e. destruct G as (X & _). auto.
  - contradiction.
Qed.

(* the Start that returns nil has spawned the run (not merely registered it), and the spawned run can take
   its first step - the durable Running write - whatever else happens first *)
Theorem accepted_start_spawns_run ms s k s' :
  reach (fixed ms) s -> step (fixed ms) s (LStartLaunch k) = Some (s', ROk) ->
  exists id, engines (get s' id) = [ESpawned] /\ waiter (get s' id) = WOpen /\ execs (get s' id) = 1%nat
             /\ exists s'', step (fixed ms) s' (LEngRunning id 0) = Some (s'', RNone).
Proof.
  intros R H. pose proof (inv_reach _ _ R) as [G F L E]. simpl in H.
  destruct (nth_error (inprog s) k) as [[id stg]|] eqn:Hk; [| discriminate].
  destruct stg as [| |tv]; try discriminate.
  destruct (lock_single _ _ _ L Hk) as (K0 & HI).
  assert (Hin : In (id, SValidated tv) (inprog s)) by (rewrite HI; left; reflexivity).
  destruct (E _ Hin) as (W & Htv & p & t & Hs & N & _). simpl in W, Hs.
  pose proof (good_wnone_notstarted _ _ (G id) W Hs N) as Ex.
  pose proof (good_wnone_noeng _ (G id) W) as En.
  inversion H; subst s'; clear H. exists id.
  rewrite get_with_inprog, get_set_same. simpl. rewrite En, Ex. simpl.
  repeat (split; auto).
  eexists. unfold step. rewrite get_with_inprog, get_set_same. simpl. reflexivity.
Qed.

(* a run that exists is never stuck before its end: every stage but the gate-dependent one has its step *)
Theorem run_not_stuck ms s id e :
  reach (fixed ms) s -> engines (get s id) = [e] ->
  match e with
  | ESpawned => exists s', step (fixed ms) s (LEngRunning id 0) = Some (s', RNone)
  | ERunning => exists s', step (fixed ms) s (LEngFinish id 0 Completed) = Some (s', RNone)
  | ETerminal => exists s', step (fixed ms) s (LEngRelease id 0) = Some (s', RNone)
  | EClosed => exists s', step (fixed ms) s (LEngCleanup id 0) = Some (s', RNone)
  end.
Proof.
  intros R En. pose proof (inv_good _ _ (inv_reach _ _ R) id) as G. unfold good in G. rewrite En in G.
  destruct G as (_ & W & _).
  destruct e; unfold step; rewrite En; simpl; try (eexists; reflexivity).
  rewrite W. eexists; reflexivity.
Qed.

(* ---- traces ---- *)
Lemma run_reach c s tr s' rs : reach c s -> run c s tr = Some (s', rs) -> reach c s'.
Proof.
  revert s s' rs. induction tr as [|l tr IH]; intros s s' rs R H; simpl in H.
  - inversion H; subst; auto.
  - destruct (step c s l) as [[s1 x]|] eqn:Hs; [| discriminate].
    destruct (run c s1 tr) as [[s2 xs]|] eqn:Hr; [| discriminate].
    inversion H; subst. eapply IH; [| eassumption]. eapply reach_step; eauto.
Qed.

Theorem run_no_panic ms s tr s' rs :
  reach (fixed ms) s -> run (fixed ms) s tr = Some (s', rs) -> ~ In RPanic rs.
Proof.
  revert s s' rs. induction tr as [|l tr IH]; intros s s' rs R H; simpl in H.
  - inversion H; subst. intros [].
  - destruct (step (fixed ms) s l) as [[s1 x]|] eqn:Hs; [| discriminate].
    destruct (run (fixed ms) s1 tr) as [[s2 xs]|] eqn:Hr; [| discriminate].
    inversion H; subst. intros [Hx | Hx].
    + eapply no_panic; eauto.
    + eapply IH; [| eassumption | exact Hx]. eapply reach_step; eauto.
Qed.

(* ---- the whole statement ---- *)
Theorem c12_at_most_once_proof :
  forall ms s, reach (fixed ms) s ->
    (forall id, (execs (get s id) <= 1)%nat)
    /\ (length (inprog s) <= 1)%nat
    /\ (forall l s' r, step (fixed ms) s l = Some (s', r) ->
          r <> RPanic /\ forall id, (execs (get s id) <= execs (get s' id))%nat)
    /\ (forall k id stg, nth_error (inprog s) k = Some (id, stg) -> (1 <= execs (get s id))%nat ->
          (forall s' r, step (fixed ms) s (LStartCheck k) = Some (s', r) ->
             plans s' = plans s /\ next s' = next s /\ now s' = now s
             /\ ((r = RRejected /\ inprog s' = []) \/ (r = RNone /\ inprog s' = [(id, SChecked)])))
          /\ (forall s' r, step (fixed ms) s (LStartRead k) = Some (s', r) ->
             plans s' = plans s /\ next s' = next s /\ now s' = now s /\ inprog s' = []
             /\ (r = RRejected \/ r = RNotFound))
          /\ step (fixed ms) s (LStartLaunch k) = None)
    /\ (forall k id p t, nth_error (inprog s) k = Some (id, SChecked) -> stored (get s id) = Some p ->
          pl_submit p = Some t -> t + ms < now s ->
          step (fixed ms) s (LStartRead k) = Some (with_inprog s (remove_nth k (inprog s)), RRejected))
    /\ (forall k s' r, step (fixed ms) s (LStartLaunch k) = Some (s', r) ->
          r = ROk /\ exists id tv p t,
            nth_error (inprog s) k = Some (id, SValidated tv) /\ stored (get s id) = Some p
            /\ pl_status p = NotStarted /\ pl_valid p = true /\ pl_submit p = Some t
            /\ tv <= now s /\ tv <= t + ms /\ ms <> 0
            /\ execs (get s id) = 0%nat /\ execs (get s' id) = 1%nat /\ waiter (get s' id) = WOpen
            /\ inprog s' = [] /\ (forall i, i <> id -> get s' i = get s i)).
Proof.
  intros ms s R.
  split; [apply (execs_le1 _ _ R) |].
  split; [apply (mutual_exclusion _ _ R) |].
  split; [intros l s' r H; split; [eapply no_panic; eauto | intro id; eapply execs_mono; eauto] |].
  split; [intros k id stg Hk Hx; apply (start_after_launch _ _ _ _ _ R Hk Hx) |].
  split; [intros k id p t Hk Hs Ht Hlt; apply (stale_rejected _ _ _ _ _ _ Hk Hs Ht Hlt) |].
  intros k s' r H. apply (launch_validated _ _ _ _ _ R H).
Qed.
