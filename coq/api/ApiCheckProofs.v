(* C12 - facts about the checker and the monitor of ApiCheck.v:
   the monitor's declarative "may be started now" is exactly what the model's validateStartState computes, and
   the checker / monitor give the intended verdicts on hand-written observations (shapes of A1 and A2 included). *)
From Coq Require Import List ZArith Bool Arith Lia.
From Coercion.Base Require Import Plan.
From Coercion.Api Require Import ApiModel ApiCheck.
Import ListNotations.
Local Open Scope Z_scope.

Lemma spec_startable_is_validate ms t p : spec_startable ms t p = validate (fixed ms) t p.
Proof.
  unfold spec_startable, validate; simpl.
  destruct (pl_status p), (pl_submit p) as [sub|], (pl_valid p), (Z.eqb ms 0) eqn:M; simpl; try reflexivity;
    try (rewrite ?andb_false_r; reflexivity);
    (destruct (Z.leb t (sub + ms)) eqn:A, (Z.ltb (sub + ms) t) eqn:B; simpl; try reflexivity;
     [apply Z.leb_le in A; apply Z.ltb_lt in B; lia | apply Z.leb_gt in A; apply Z.ltb_ge in B; lia]).
Qed.

Definition hh : Z := 1800000.
Definition t0 : Z := 10000000.

(* a healthy history: Start, Start again (rejected), held Running by its gate, Wait blocks, gate opens, done *)
Example healthy_history_accepted :
  check_case (CHist {| h_max := hh; h_now := t0; h_pre := [];
    h_ops := [(HSubmit true false, ROk); (HStart 0, ROk); (HStart 0, RRejected); (HAwait 0, RStatus Running);
              (HStatus 0 [RStatus Running; RStatus Running] false, RStatus Running);
              (HWait 0, RCanceled); (HStart 0, RRejected); (HOpen 0, RNone); (HWait 0, RStatus Completed);
              (HStart 0, RRejected); (HStart 901, RNotFound); (HStatus 901 [] true, RNotFound);
              (HPlan 999, RNotFound); (HPlan 0, RStatus Completed)];
    h_execs := [1%nat] |}) = [0%nat].
Proof. vm_compute. reflexivity. Qed.

(* before the durable Running write the stored status may still be NotStarted: both are accepted *)
Example racing_read_accepted :
  forall s, In s [NotStarted; Running] ->
  check_case (CHist {| h_max := hh; h_now := t0; h_pre := [];
    h_ops := [(HSubmit true false, ROk); (HStart 0, ROk); (HPlan 0, RStatus s)]; h_execs := [1%nat] |}) = [0%nat].
Proof. intros s [H | [H | []]]; subst; vm_compute; reflexivity. Qed.

(* ... but not Completed while the gate is closed *)
Example impossible_read_rejected :
  check_case (CHist {| h_max := hh; h_now := t0; h_pre := [];
    h_ops := [(HSubmit true false, ROk); (HStart 0, ROk); (HPlan 0, RStatus Completed)]; h_execs := [1%nat] |})
  = [2%nat; 3%nat; 0%nat].
Proof. vm_compute. reflexivity. Qed.

(* A1: a second Start returns nil / two executions / panic *)
Example a1_second_start_ok_is_violation :
  check_case (CHist {| h_max := hh; h_now := t0; h_pre := [];
    h_ops := [(HSubmit true true, ROk); (HStart 0, ROk); (HStart 0, ROk)]; h_execs := [1%nat] |})
  = [1%nat; 3%nat; 3%nat].
Proof. vm_compute. reflexivity. Qed.

Example a1_two_executions_is_violation :
  check_case (CHist {| h_max := hh; h_now := t0; h_pre := [];
    h_ops := [(HSubmit true true, ROk); (HStart 0, ROk); (HStart 0, RRejected)]; h_execs := [2%nat] |})
  = [1%nat; 2%nat; 1%nat].
Proof. vm_compute. reflexivity. Qed.

(* A2: Status on an unknown id panics; Plan / Wait return an empty plan and no error *)
Example a2_status_panic_is_violation :
  check_case (CHist {| h_max := hh; h_now := t0; h_pre := [];
    h_ops := [(HStatus 901 [] true, RPanic)]; h_execs := [] |}) = [1%nat; 1%nat; 1%nat].
Proof. vm_compute. reflexivity. Qed.

Example a2_empty_plan_is_violation :
  check_case (CHist {| h_max := hh; h_now := t0; h_pre := [];
    h_ops := [(HWait 999, REmpty)]; h_execs := [] |}) = [1%nat; 5%nat; 1%nat].
Proof. vm_compute. reflexivity. Qed.

(* a stale image must not start; a fresh one must be followed by the model only as started *)
Example stale_started_is_violation :
  check_case (CHist {| h_max := hh; h_now := t0;
    h_pre := [({| pl_status := NotStarted; pl_submit := Some (t0 - hh - 120000); pl_valid := true |}, true)];
    h_ops := [(HStart 0, ROk)]; h_execs := [1%nat] |}) = [1%nat; 4%nat; 1%nat].
Proof. vm_compute. reflexivity. Qed.

Example fresh_rejected_is_broken_correspondence :
  check_case (CHist {| h_max := hh; h_now := t0;
    h_pre := [({| pl_status := NotStarted; pl_submit := Some (t0 - hh + 120000); pl_valid := true |}, true)];
    h_ops := [(HStart 0, RRejected)]; h_execs := [0%nat] |}) = [2%nat; 1%nat; 0%nat].
Proof. vm_compute. reflexivity. Qed.

(* bursts *)
Example burst_two_ok_is_violation :
  check_case (CBurst {| b_max := hh; b_now := t0;
    b_pl := Some {| pl_status := NotStarted; pl_submit := Some (t0 - 1000); pl_valid := true |};
    b_starts := [ROk; RRejected; ROk]; b_others := []; b_execs := 1; b_final := RStatus Completed |})
  = [1%nat; 3%nat; 0%nat].
Proof. vm_compute. reflexivity. Qed.

Example burst_one_ok_accepted :
  check_case (CBurst {| b_max := hh; b_now := t0;
    b_pl := Some {| pl_status := NotStarted; pl_submit := Some (t0 - 1000); pl_valid := true |};
    b_starts := [RRejected; RRejected; ROk; RRejected]; b_others := [RStatus NotStarted; RStatus Completed];
    b_execs := 1; b_final := RStatus Completed |}) = [0%nat].
Proof. vm_compute. reflexivity. Qed.

(* a rejected Start must leave nothing behind: Wait on the (stale, never started) plan blocked = violation;
   the same history with a prompt Wait is followed by the model *)
Example phantom_waiter_is_violation :
  check_case (CHist {| h_max := hh; h_now := t0;
    h_pre := [({| pl_status := NotStarted; pl_submit := Some (t0 - hh - 120000); pl_valid := true |}, true)];
    h_ops := [(HStart 0, RRejected); (HWait 0, RCanceled)]; h_execs := [0%nat] |}) = [1%nat; 9%nat; 2%nat].
Proof. vm_compute. reflexivity. Qed.

Example phantom_waiter_after_finish_is_violation :
  check_case (CHist {| h_max := hh; h_now := t0; h_pre := [];
    h_ops := [(HSubmit true true, ROk); (HStart 0, ROk); (HWait 0, RStatus Completed); (HStart 0, RRejected);
              (HWait 0, RCanceled)]; h_execs := [1%nat] |}) = [1%nat; 9%nat; 5%nat].
Proof. vm_compute. reflexivity. Qed.

Example prompt_wait_after_rejected_start_accepted :
  check_case (CHist {| h_max := hh; h_now := t0;
    h_pre := [({| pl_status := NotStarted; pl_submit := Some (t0 - hh - 120000); pl_valid := true |}, true)];
    h_ops := [(HStart 0, RRejected); (HWait 0, RStatus NotStarted); (HStart 0, RRejected)];
    h_execs := [0%nat] |}) = [0%nat].
Proof. vm_compute. reflexivity. Qed.

(* a Start that returned nil but was never followed by an execution (the run was dropped) *)
Example accepted_start_without_execution_is_violation :
  check_case (CHist {| h_max := hh; h_now := t0; h_pre := [];
    h_ops := [(HSubmit true true, ROk); (HStart 0, ROk); (HPlan 0, RStatus NotStarted)]; h_execs := [0%nat] |})
  = [1%nat; 7%nat; 1%nat]
  /\ check_case (CBurst {| b_max := hh; b_now := t0;
        b_pl := Some {| pl_status := NotStarted; pl_submit := Some (t0 - 1000); pl_valid := true |};
        b_starts := [ROk; RRejected]; b_others := []; b_execs := 0; b_final := RCanceled |})
     = [1%nat; 7%nat; 0%nat].
Proof. split; vm_compute; reflexivity. Qed.
