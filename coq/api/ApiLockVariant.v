(* C12 - the lock of Start, looked at on its own: why ONE mutex (what the code has, and what ApiModel.v models
   with "a Start may enter only when no Start is in progress") is not interchangeable with a per-plan mutex
   that is looked up in a map (LoadOrStore) and DELETED from the map when Start returns.

   Calls on one plan id.  A call first obtains a mutex: the one in the map, or a new one that it stores
   (KEnter); then locks it (KLock, possible only when that mutex is free); on return it unlocks it and - in
   the variant - deletes the map entry (KReturn).  A call that waits on the old mutex and a call that arrives
   after the deletion hold DIFFERENT mutexes: both are in the critical section, i.e. between waiter check
   and launch, at once - which is the configuration `use_lock := false` of ApiModel.v, for which
   ApiWitness.waiter_check_without_mutex_refuted shows two executions.

   Everything here is by computation on a small transition system; no part of the property theorems depends
   on it. *)
From Coq Require Import List Arith Bool.
Import ListNotations.

Inductive cstage := CWait (g : nat) | CHold (g : nat).          (* g: which mutex object *)
Record lst := { entry : option nat; fresh : nat; locked : list nat; calls : list cstage }.
Inductive klabel := KEnter | KLock (k : nat) | KReturn (k : nat).

Definition linit : lst := {| entry := None; fresh := 0; locked := []; calls := [] |}.

Fixpoint rm_nth {A} (k : nat) (l : list A) : list A :=
  match l, k with [], _ => [] | _ :: r, O => r | x :: r, S k' => x :: rm_nth k' r end.
Fixpoint set_nth {A} (k : nat) (y : A) (l : list A) : list A :=
  match l, k with [], _ => [] | _ :: r, O => y :: r | x :: r, S k' => x :: set_nth k' y r end.

Definition kstep (delete_on_return : bool) (s : lst) (l : klabel) : option lst :=
  match l with
  | KEnter =>
      match entry s with
      | Some g => Some {| entry := Some g; fresh := fresh s; locked := locked s; calls := calls s ++ [CWait g] |}
      | None => Some {| entry := Some (fresh s); fresh := S (fresh s); locked := locked s;
                        calls := calls s ++ [CWait (fresh s)] |}
      end
  | KLock k =>
      match nth_error (calls s) k with
      | Some (CWait g) =>
          if existsb (Nat.eqb g) (locked s) then None
          else Some {| entry := entry s; fresh := fresh s; locked := g :: locked s;
                       calls := set_nth k (CHold g) (calls s) |}
      | _ => None
      end
  | KReturn k =>
      match nth_error (calls s) k with
      | Some (CHold g) =>
          Some {| entry := if delete_on_return then None else entry s; fresh := fresh s;
                  locked := filter (fun x => negb (Nat.eqb x g)) (locked s); calls := rm_nth k (calls s) |}
      | _ => None
      end
  end.

Fixpoint krun (d : bool) (s : lst) (tr : list klabel) : option lst :=
  match tr with
  | [] => Some s
  | l :: r => match kstep d s l with Some s' => krun d s' r | None => None end
  end.

Definition holders (s : lst) : nat :=
  length (filter (fun c => match c with CHold _ => true | _ => false end) (calls s)).

(* A enters and locks; B enters and waits on A's mutex; A returns (entry deleted); B locks the old mutex;
   C enters, finds no entry, makes a new mutex and locks it: two calls in the critical section. *)
Definition tr_failing_holder : list klabel := [KEnter; KLock 0; KEnter; KReturn 0; KLock 0; KEnter; KLock 1].

Lemma per_plan_lock_deleted_on_return_refuted :
  match krun true linit tr_failing_holder with Some s => holders s = 2 | None => False end.
Proof. vm_compute. reflexivity. Qed.

(* two racing calls alone never show it: the second waits on the same mutex *)
Lemma per_plan_lock_two_calls_fine :
  krun true linit [KEnter; KEnter; KLock 0; KLock 1] = None
  /\ krun true linit [KEnter; KLock 0; KEnter; KLock 1] = None.
Proof. split; vm_compute; reflexivity. Qed.

(* with a mutex that stays (the single startMu, or a map entry that is never deleted) the same schedule
   is impossible: C gets the mutex B holds *)
Lemma lock_kept_blocks_third_call : krun false linit tr_failing_holder = None.
Proof. vm_compute. reflexivity. Qed.
