(* C12 - model of the Workstream API around Start (coercion.go, internal/execute/execute.go).

   What is transcribed (the code as of the `fix:` commits c931038 and 12fa98d):

     Plans.Start(id):   startMu.Lock                                     LStartEnter id
                        if waiters.Get(id) ok -> error                   LStartCheck k
                        plan, err := store.Read(id); err -> return err   LStartRead k   (read + validateStartState,
                        validateStartState(plan) err -> error                            which calls time.Now())
                        runPlan: waiters.Set(id, ch); pool.Submit(run)   LStartLaunch k
                        startMu.Unlock (deferred)                         (the step that ends the call)
     run (goroutine):   sm.Start: plan Running, UpdatePlan               LEngRunning id j
                        ... sm.End: writeEverything (terminal status)    LEngFinish id j t
                        deferred: waiter,_ := waiters.Get; close(waiter) LEngRelease id j  (close(nil)/close(closed) panics)
                                  waiters.Del(id)                        LEngCleanup id j
     Plans.Wait(id):    waiters.Get(id) !ok -> store.Read(id); else block on the channel / ctx, then store.Read
     Workstream.Plan:   store.Read(id)
     Workstream.Status: first tick: store.Read(id); err -> yield err; else yield plan, then plan.State.Status
                        (LStatus has no interval argument: what Status delivers does not depend on the interval;
                         a non-positive interval is clamped by the code (302ef19) and is exercised by the
                         correspondence with 0, -1 ns and -(1<<62) ns - a panic there is a violation)
     Workstream.Submit: validate, defaults (fresh v7 id, NotStarted), SubmitTime = now, store.Create

   A Start is four steps because the code is; calls in progress are kept in `inprog`, and the mutex is
   modelled explicitly: with `use_lock` a Start may only be entered when no other Start is in progress.
   Nothing here assumes that a Start is atomic.  The two repairs and the S5 repair are switches of `cfg`,
   so that the behaviour of the code before the fixes is the same model with the switches off.

   This file contains no proofs. *)
From Coq Require Import List ZArith Bool Arith.
From Coercion.Base Require Import Plan.
Import ListNotations.
Local Open Scope Z_scope.

(* ---- configuration -------------------------------------------------------------------------- *)
Record cfg := {
  use_lock : bool;           (* c931038: Start holds startMu from entry to return *)
  use_wcheck : bool;         (* c931038: Start rejects an id that has a registered waiter *)
  read_absent_empty : bool;  (* behaviour before 12fa98d: Read of an unknown id = empty plan, nil error (S5) *)
  read_before_lock : bool;   (* a DIFFERENT ordering of Start, not the code's: store.Read before startMu.Lock, the
                                snapshot is validated later under the lock (see the steps below) *)
  max_submit : Z             (* Plans.maxSubmit (default 30 min; WithMaxSubmit) *)
}.

Definition fixed (ms : Z) : cfg :=
  {| use_lock := true; use_wcheck := true; read_absent_empty := false; read_before_lock := false; max_submit := ms |}.
(* the code before the fix commits *)
Definition orig (ms : Z) : cfg :=
  {| use_lock := false; use_wcheck := false; read_absent_empty := true; read_before_lock := false; max_submit := ms |}.

(* ---- what the store holds about a plan, projected to what Start looks at --------------------- *)
Record pl := {
  pl_status : status;        (* Plan.State.Status as stored *)
  pl_submit : option Z;      (* Plan.SubmitTime; None = the zero time *)
  pl_valid : bool            (* every other validator passes: v7 ids, all nested states NotStarted with zero
                                times, no attempts, plugins registered and of the right kind, reason unknown *)
}.

Inductive wstate := WNone | WOpen | WClosed.            (* entry of the waiters map: absent / open chan / closed chan *)
Inductive estage := ESpawned | ERunning | ETerminal | EClosed.   (* progress of one run goroutine *)

Record pst := {
  stored : option pl;        (* None: the vault has no such plan (never created, or deleted) *)
  waiter : wstate;
  execs : nat;               (* executions launched for this id in this process *)
  engines : list estage      (* run goroutines alive for this id *)
}.

Definition absent : pst := {| stored := None; waiter := WNone; execs := 0; engines := [] |}.

Inductive sstage := SLocked | SChecked | SValidated (tv : Z).   (* tv: the time validateStartState saw *)

Record st := {
  plans : list (nat * pst);          (* association list, first match wins; ids not listed are `absent` *)
  next : nat;                        (* id supply: ids >= next have never been created *)
  inprog : list (nat * sstage);      (* Start calls in progress *)
  now : Z
}.

Fixpoint lookup (l : list (nat * pst)) (id : nat) : pst :=
  match l with
  | [] => absent
  | (k, p) :: r => if Nat.eqb k id then p else lookup r id
  end.

Definition get (s : st) (id : nat) : pst := lookup (plans s) id.
Definition set (s : st) (id : nat) (p : pst) : st :=
  {| plans := (id, p) :: plans s; next := next s; inprog := inprog s; now := now s |}.
Definition with_inprog (s : st) (l : list (nat * sstage)) : st :=
  {| plans := plans s; next := next s; inprog := l; now := now s |}.
Definition alloc (s : st) (p : pst) : st :=
  {| plans := (next s, p) :: plans s; next := S (next s); inprog := inprog s; now := now s |}.

Definition init (t0 : Z) : st := {| plans := []; next := 0%nat; inprog := []; now := t0 |}.

Fixpoint remove_nth {A} (k : nat) (l : list A) : list A :=
  match l, k with
  | [], _ => []
  | _ :: r, O => r
  | x :: r, S k' => x :: remove_nth k' r
  end.

Fixpoint replace_nth {A} (k : nat) (y : A) (l : list A) : list A :=
  match l, k with
  | [], _ => []
  | _ :: r, O => y :: r
  | x :: r, S k' => x :: replace_nth k' y r
  end.

(* ---- results --------------------------------------------------------------------------------- *)
Inductive res :=
| RNone                   (* internal step: the call has not returned *)
| ROk                     (* nil error *)
| RStatus (s : status)    (* nil error and a plan with this status *)
| REmpty                  (* nil error and an empty plan (only with read_absent_empty) *)
| RNotFound               (* the store's error for an id it does not have *)
| RRejected               (* a categorised error: validation failed / already running *)
| RCanceled               (* the caller's context ended while the call was blocked *)
| RPanic.                 (* the process panics or exits *)

Definition res_eqb (a b : res) : bool :=
  match a, b with
  | RNone, RNone | ROk, ROk | REmpty, REmpty | RNotFound, RNotFound
  | RRejected, RRejected | RCanceled, RCanceled | RPanic, RPanic => true
  | RStatus x, RStatus y => status_eqb x y
  | _, _ => false
  end.

(* ---- steps ----------------------------------------------------------------------------------- *)
Inductive label :=
| LSubmit (valid : bool)                 (* Workstream.Submit of a plan Validate accepts / rejects *)
| LCreate (p : pl)                       (* environment: vault.Create of any image under a fresh id *)
| LDelete (id : nat)                     (* environment: vault.Delete of a plan that is not executing *)
| LTick (d : Z)                          (* environment: time passes *)
| LStartEnter (id : nat)
| LStartCheck (k : nat)                  (* k: position of the call in inprog *)
| LStartRead (k : nat)
| LStartLaunch (k : nat)
| LEngRunning (id j : nat)               (* j: position of the goroutine in engines *)
| LEngFinish (id j : nat) (t : status)
| LEngRelease (id j : nat)
| LEngCleanup (id j : nat)
| LWait (id : nat) (cancelled : bool)
| LStatus (id : nat)
| LPlan (id : nat).

(* validateStartState on a plan that was read *)
Definition validate (c : cfg) (t : Z) (p : pl) : bool :=
  negb (Z.eqb (max_submit c) 0)
  && match pl_submit p with
     | None => false
     | Some sub => negb (Z.ltb (sub + max_submit c) t)      (* SubmitTime.Add(maxSubmit).Before(now) *)
     end
  && status_eqb (pl_status p) NotStarted
  && pl_valid p.

(* store.Read(id) as seen by Plan and Wait *)
Definition read_res (c : cfg) (s : st) (id : nat) : res :=
  match stored (get s id) with
  | Some p => RStatus (pl_status p)
  | None => if read_absent_empty c then REmpty else RNotFound
  end.

Definition write_status (t : status) (o : option pl) : option pl :=
  match o with
  | Some p => Some {| pl_status := t; pl_submit := pl_submit p; pl_valid := pl_valid p |}
  | None => None
  end.

Definition is_nil {A} (l : list A) : bool := match l with [] => true | _ => false end.
Definition is_wnone (w : wstate) : bool := match w with WNone => true | _ => false end.
Definition on_id (id : nat) (e : nat * sstage) : bool := Nat.eqb (fst e) id.

Definition new_pst (p : pl) : pst := {| stored := Some p; waiter := WNone; execs := 0; engines := [] |}.

Definition step (c : cfg) (s : st) (l : label) : option (st * res) :=
  match l with
  | LSubmit false => Some (s, RRejected)
  | LSubmit true =>
      Some (alloc s (new_pst {| pl_status := NotStarted; pl_submit := Some (now s); pl_valid := true |}), ROk)
  | LCreate p => Some (alloc s (new_pst p), RNone)
  | LDelete id =>
      let p := get s id in
      if is_nil (engines p) && negb (existsb (on_id id) (inprog s))
      then Some (set s id {| stored := None; waiter := waiter p; execs := execs p; engines := engines p |}, RNone)
      else None
  | LTick d =>
      if Z.leb 0 d
      then Some ({| plans := plans s; next := next s; inprog := inprog s; now := now s + d |}, RNone)
      else None
  | LStartEnter id =>
      (* with read_before_lock the call begins without the mutex (SLocked then only means "begun") *)
      if negb (read_before_lock c) && use_lock c && negb (is_nil (inprog s)) then None
      else Some (with_inprog s (inprog s ++ [(id, SLocked)]), RNone)
  | LStartCheck k =>
      match nth_error (inprog s) k with
      | Some (id, SLocked) =>
          if use_wcheck c && negb (is_wnone (waiter (get s id)))
          then Some (with_inprog s (remove_nth k (inprog s)), RRejected)
          else Some (with_inprog s (replace_nth k (id, SChecked) (inprog s)), RNone)
      | _ => None
      end
  | LStartRead k =>
      let read id :=
          match stored (get s id) with
          | None => Some (with_inprog s (remove_nth k (inprog s)),
                          if read_absent_empty c then RRejected else RNotFound)
          | Some p =>
              if validate c (now s) p
              then Some (with_inprog s (replace_nth k (id, SValidated (now s)) (inprog s)), RNone)
              else Some (with_inprog s (remove_nth k (inprog s)), RRejected)
          end in
      match nth_error (inprog s) k with
      | Some (id, SChecked) => read id
      | Some (id, SLocked) =>
          (* read_before_lock: the snapshot is taken first, outside the mutex (its verdict is fixed here; the
             code of that ordering would announce a rejection only after taking the mutex - same class) *)
          if read_before_lock c then read id else None
      | _ => None
      end
  | LStartLaunch k =>
      match nth_error (inprog s) k with
      | Some (id, SValidated _) =>
          let p := get s id in
          (* read_before_lock: the locked region (waiter check, launch) runs here in one piece *)
          if read_before_lock c && use_wcheck c && negb (is_wnone (waiter p))
          then Some (with_inprog s (remove_nth k (inprog s)), RRejected) else
          Some (with_inprog
                  (set s id {| stored := stored p; waiter := WOpen; execs := S (execs p);
                               engines := engines p ++ [ESpawned] |})
                  (remove_nth k (inprog s)), ROk)
      | _ => None
      end
  | LEngRunning id j =>
      let p := get s id in
      match nth_error (engines p) j with
      | Some ESpawned =>
          Some (set s id {| stored := write_status Running (stored p); waiter := waiter p; execs := execs p;
                            engines := replace_nth j ERunning (engines p) |}, RNone)
      | _ => None
      end
  | LEngFinish id j t =>
      let p := get s id in
      match nth_error (engines p) j with
      | Some ERunning =>
          if is_terminal t
          then Some (set s id {| stored := write_status t (stored p); waiter := waiter p; execs := execs p;
                                 engines := replace_nth j ETerminal (engines p) |}, RNone)
          else None
      | _ => None
      end
  | LEngRelease id j =>
      let p := get s id in
      match nth_error (engines p) j with
      | Some ETerminal =>
          match waiter p with
          | WOpen => Some (set s id {| stored := stored p; waiter := WClosed; execs := execs p;
                                       engines := replace_nth j EClosed (engines p) |}, RNone)
          | _ => Some (s, RPanic)       (* close of nil channel / close of closed channel *)
          end
      | _ => None
      end
  | LEngCleanup id j =>
      let p := get s id in
      match nth_error (engines p) j with
      | Some EClosed =>
          Some (set s id {| stored := stored p; waiter := WNone; execs := execs p;
                            engines := remove_nth j (engines p) |}, RNone)
      | _ => None
      end
  | LWait id cancelled =>
      match waiter (get s id) with
      | WOpen => if cancelled then Some (s, RCanceled) else None     (* blocked *)
      | _ => Some (s, read_res c s id)
      end
  | LStatus id =>
      match stored (get s id) with
      | Some p => Some (s, RStatus (pl_status p))
      | None => Some (s, if read_absent_empty c then RPanic else RNotFound)   (* nil State dereferenced *)
      end
  | LPlan id => Some (s, read_res c s id)
  end.

(* ---- traces ---------------------------------------------------------------------------------- *)
Fixpoint run (c : cfg) (s : st) (tr : list label) : option (st * list res) :=
  match tr with
  | [] => Some (s, [])
  | l :: r =>
      match step c s l with
      | None => None
      | Some (s', x) =>
          match run c s' r with
          | None => None
          | Some (s'', xs) => Some (s'', x :: xs)
          end
      end
  end.

Inductive reach (c : cfg) : st -> Prop :=
| reach_init : forall t0, reach c (init t0)
| reach_step : forall s l s' r, reach c s -> step c s l = Some (s', r) -> reach c s'.

(* A whole Start call made when its steps are not interleaved with anything (a sequential caller).
   The call enters at the end of inprog. *)
Definition start_call (c : cfg) (s : st) (id : nat) : option (st * res) :=
  let k := length (inprog s) in
  match step c s (LStartEnter id) with
  | Some (s1, _) =>
      match step c s1 (LStartCheck k) with
      | Some (s2, RNone) =>
          match step c s2 (LStartRead k) with
          | Some (s3, RNone) => step c s3 (LStartLaunch k)
          | x => x
          end
      | x => x
      end
  | None => None
  end.
