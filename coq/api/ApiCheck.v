(* C12 - correspondence checker and property monitor for observed API histories.

   A history is what one child process of the harness did: plans created directly in the vault, then a
   sequence of API calls (made one after the other by a single caller) with the class of each result, then
   the number of executions observed per plan (max plugin call count per action).  Engine goroutines run
   concurrently with the caller, so the checker does not predict one result: it keeps, per plan id, the SET
   of model states the plan can be in (closing under the engine steps the plan's gate allows before every
   step of a call) and accepts an observed result iff some state of the set produces it with the model's
   own `step`; the set is then narrowed to the states consistent with the observation.

   The monitor is the property itself, evaluated on the observation alone (it never runs the model). *)
From Coq Require Import List ZArith Bool Arith.
From Coercion.Base Require Import Plan.
From Coercion.Api Require Import ApiModel.
Import ListNotations.
Local Open Scope Z_scope.

(* ---- cases ------------------------------------------------------------------------------------ *)
Inductive hop :=
| HSubmit (valid gate_open : bool)
| HStart (id : nat)
| HWait (id : nat)
| HStatus (id : nat) (more : list res) (ended : bool)
                             (* the iterator: the pair's result is the first one delivered, `more` the following
                                ones (the consumer stops after 3), `ended`: the iteration stopped by itself *)
| HPlan (id : nat)
| HAwait (id : nat)          (* poll the stored status until it is Running or terminal *)
| HOpen (id : nat)           (* open the plan's gate: its plugins may now return *)
| HTick (d : Z)              (* the caller sleeps d ms *)
| HDelete (id : nat).        (* vault.Delete of a plan the caller knows is not executing *)

Record hist := {
  h_max : Z;                       (* maxSubmit (ms) *)
  h_now : Z;                       (* time of the first call (ms) *)
  h_pre : list (pl * bool);        (* images created in the vault beforehand, gate initially open? *)
  h_ops : list (hop * res);
  h_execs : list nat               (* executions observed per created id, at quiescence *)
}.

Record burst := {
  b_max : Z; b_now : Z;
  b_pl : option pl;                (* the image the burst targets; None = an id the vault does not have *)
  b_starts : list res;             (* results of the concurrent Start calls *)
  b_others : list res;             (* results of concurrent Wait / Plan / Status calls on the same id *)
  b_execs : nat;
  b_final : res                    (* Plan(id) at quiescence *)
}.

Inductive case := CHist (h : hist) | CBurst (b : burst).

(* ---- equality on per-plan states ---------------------------------------------------------------- *)
Definition wstate_eqb (a b : wstate) : bool :=
  match a, b with WNone, WNone | WOpen, WOpen | WClosed, WClosed => true | _, _ => false end.
Definition estage_eqb (a b : estage) : bool :=
  match a, b with
  | ESpawned, ESpawned | ERunning, ERunning | ETerminal, ETerminal | EClosed, EClosed => true
  | _, _ => false
  end.
Definition optz_eqb (a b : option Z) : bool :=
  match a, b with Some x, Some y => Z.eqb x y | None, None => true | _, _ => false end.
Definition pl_eqb (a b : pl) : bool :=
  status_eqb (pl_status a) (pl_status b) && optz_eqb (pl_submit a) (pl_submit b)
  && Bool.eqb (pl_valid a) (pl_valid b).
Definition optpl_eqb (a b : option pl) : bool :=
  match a, b with Some x, Some y => pl_eqb x y | None, None => true | _, _ => false end.
Fixpoint list_eqb {A} (eqb : A -> A -> bool) (a b : list A) : bool :=
  match a, b with
  | [], [] => true
  | x :: a', y :: b' => eqb x y && list_eqb eqb a' b'
  | _, _ => false
  end.
Definition pst_eqb (a b : pst) : bool :=
  optpl_eqb (stored a) (stored b) && wstate_eqb (waiter a) (waiter b)
  && Nat.eqb (execs a) (execs b) && list_eqb estage_eqb (engines a) (engines b).

Fixpoint dedupe {A} (eqb : A -> A -> bool) (l : list A) : list A :=
  match l with
  | [] => []
  | x :: r => let r' := dedupe eqb r in if existsb (eqb x) r' then r' else x :: r'
  end.

(* ---- the set of states reachable by engine steps alone ------------------------------------------ *)
Definition same_at (id : nat) (a b : st) : bool := pst_eqb (get a id) (get b id).

Definition eng_labels (gate : bool) (id : nat) (n : nat) : list label :=
  flat_map (fun j => [LEngRunning id j; LEngRelease id j; LEngCleanup id j]
                       ++ (if gate then [LEngFinish id j Completed] else [])) (seq 0 n).

Definition eng_succ (c : cfg) (gate : bool) (id : nat) (s : st) : list st :=
  flat_map (fun l => match step c s l with Some (s', RNone) => [s'] | _ => [] end)
           (eng_labels gate id (length (engines (get s id)))).

Fixpoint closure_fuel (fuel : nat) (c : cfg) (gate : bool) (id : nat) (front acc : list st) : list st :=
  match fuel with
  | O => acc
  | S f =>
      let nxt := dedupe (same_at id) (flat_map (eng_succ c gate id) front) in
      let fresh := filter (fun s => negb (existsb (same_at id s) acc)) nxt in
      match fresh with
      | [] => acc
      | _ => closure_fuel f c gate id fresh (acc ++ fresh)
      end
  end.

Definition closure (c : cfg) (gate : bool) (id : nat) (s : st) : list st :=
  closure_fuel 16 c gate id [s] [s].

Definition close_all (c : cfg) (gate : bool) (id : nat) (l : list st) : list st :=
  dedupe (same_at id) (flat_map (closure c gate id) l).

(* run the steps of one call, engine steps interleaved anywhere; returns (state, result) at return *)
Fixpoint explore (c : cfg) (gate : bool) (id : nat) (ls : list label) (front : list st) : list (st * res) :=
  match ls with
  | [] => []
  | l :: r =>
      let outs := map (fun s => step c s l) (close_all c gate id front) in
      let fin := flat_map (fun o => match o with
                                    | Some (s', RNone) => []
                                    | Some (s', x) => [(s', x)]
                                    | None => [] end) outs in
      let cont := flat_map (fun o => match o with Some (s', RNone) => [s'] | _ => [] end) outs in
      fin ++ explore c gate id r cont
  end.

(* Wait: a state in which the call is blocked yields Canceled when the gate is closed (the caller's
   context then ends first); when the gate is open the engine moves on and a later state answers. *)
Definition explore_wait (c : cfg) (gate : bool) (id : nat) (front : list st) : list (st * res) :=
  flat_map (fun s => match step c s (LWait id false) with
                     | Some o => [o]
                     | None => if gate then [] else [(s, RCanceled)]
                     end) (close_all c gate id front).

(* ---- checker state ------------------------------------------------------------------------------ *)
Record cst := { c_ids : list (list pst * bool); c_now : Z }.

Definition mk (t : Z) (id : nat) (p : pst) : st :=
  {| plans := [(id, p)]; next := S id; inprog := []; now := t |}.

Definition cands (cs : cst) (id : nat) : list pst * bool := nth id (c_ids cs) ([absent], false).

Fixpoint upd_nth {A} (k : nat) (y : A) (l : list A) : list A :=
  match l, k with
  | [], _ => []
  | _ :: r, O => y :: r
  | x :: r, S k' => x :: upd_nth k' y r
  end.

Definition set_cands (cs : cst) (id : nat) (ps : list pst) : cst :=
  {| c_ids := upd_nth id (ps, snd (cands cs id)) (c_ids cs); c_now := c_now cs |}.

Definition narrowed (id : nat) (outs : list (st * res)) (obs : res) : list pst :=
  dedupe pst_eqb (map (fun o => get (fst o) id) (filter (fun o => res_eqb (snd o) obs) outs)).

Definition status_of (p : pst) : option status :=
  match stored p with Some x => Some (pl_status x) | None => None end.

Definition is_running (r : res) : bool := res_eqb r (RStatus Running).

(* results delivered by the Status iterator, in order: each must be producible by a read of the model *)
Fixpoint status_iter (c : cfg) (gate : bool) (id : nat) (rs : list res) (front : list st) : option (list pst) :=
  match rs with
  | [] => Some (dedupe pst_eqb (map (fun s => get s id) front))
  | r :: rest =>
      match filter (fun o => res_eqb (snd o) r) (explore c gate id [LStatus id] front) with
      | [] => None
      | outs => status_iter c gate id rest (dedupe (same_at id) (map fst outs))
      end
  end.

(* every result but the last is "Running" (otherwise the loop would have returned), and when the loop ended
   by itself the last one is not *)
Fixpoint status_shape_ok (rs : list res) (ended : bool) : bool :=
  match rs with
  | [] => false
  | [r] => if ended then negb (is_running r) else true
  | r :: rest => is_running r && status_shape_ok rest ended
  end.

(* one observed op; None = the model has no state that does this *)
Definition check_op (c : cfg) (cs : cst) (o : hop * res) : option cst :=
  let '(op, obs) := o in
  let call id ls :=
    let '(ps, gate) := cands cs id in
    match narrowed id (explore c gate id ls (map (mk (c_now cs) id) ps)) obs with
    | [] => None
    | ps' => Some (set_cands cs id ps')
    end in
  match op with
  | HSubmit false _ => if res_eqb obs RRejected then Some cs else None
  | HSubmit true g =>
      let n := length (c_ids cs) in
      match step c {| plans := []; next := n; inprog := []; now := c_now cs |} (LSubmit true) with
      | Some (s', r) =>
          if res_eqb obs r
          then Some {| c_ids := c_ids cs ++ [([get s' n], g)]; c_now := c_now cs |}
          else None
      | None => None
      end
  | HStart id => call id [LStartEnter id; LStartCheck 0; LStartRead 0; LStartLaunch 0]
  | HStatus id more ended =>
      (* the loop of Workstream.Status: one read per tick; it goes on exactly while the plan read is Running *)
      let '(ps, gate) := cands cs id in
      match status_iter c gate id (obs :: more) (map (mk (c_now cs) id) ps) with
      | Some ps' =>
          if status_shape_ok (obs :: more) ended then Some (set_cands cs id ps') else None
      | None => None
      end
  | HPlan id => call id [LPlan id]
  | HWait id =>
      let '(ps, gate) := cands cs id in
      match narrowed id (explore_wait c gate id (map (mk (c_now cs) id) ps)) obs with
      | [] => None
      | ps' => Some (set_cands cs id ps')
      end
  | HAwait id =>
      let '(ps, gate) := cands cs id in
      let cl := close_all c gate id (map (mk (c_now cs) id) ps) in
      match dedupe pst_eqb (filter (fun p => match status_of p with
                                             | Some x => res_eqb obs (RStatus x)
                                             | None => false end)
                                   (map (fun s => get s id) cl)) with
      | [] => None
      | ps' => Some (set_cands cs id ps')
      end
  | HOpen id =>
      Some {| c_ids := upd_nth id (fst (cands cs id), true) (c_ids cs); c_now := c_now cs |}
  | HTick d => if Z.leb 0 d then Some {| c_ids := c_ids cs; c_now := c_now cs + d |} else None
  | HDelete id =>
      let '(ps, gate) := cands cs id in
      let cl := close_all c gate id (map (mk (c_now cs) id) ps) in
      match dedupe pst_eqb (flat_map (fun s => match step c s (LDelete id) with
                                               | Some (s', _) => [get s' id]
                                               | None => [] end) cl) with
      | [] => None
      | ps' => Some (set_cands cs id ps')
      end
  end.

(* index (from 1) of the first op the model cannot follow; 0 = all followed *)
Fixpoint check_ops (c : cfg) (cs : cst) (i : nat) (ops : list (hop * res)) : nat * cst :=
  match ops with
  | [] => (O, cs)
  | o :: r =>
      match check_op c cs o with
      | Some cs' => check_ops c cs' (S i) r
      | None => (S i, cs)
      end
  end.

(* executions: some candidate state of every id has the observed count; 0 = fine, S i = id i differs *)
Fixpoint check_execs (i : nat) (ids : list (list pst * bool)) (obs : list nat) : nat :=
  match ids, obs with
  | [], [] => O
  | (ps, _) :: r, n :: r' =>
      if existsb (fun p => Nat.eqb (execs p) n) ps then check_execs (S i) r r' else S i
  | _, _ => S i
  end.

Definition start_cst (h : hist) : cst :=
  {| c_ids := map (fun x => ([new_pst (fst x)], snd x)) (h_pre h); c_now := h_now h |}.

(* ---- the property monitor (on the observation only) --------------------------------------------- *)
(* the specification of "may be started now", written from the property text *)
Definition spec_startable (ms t : Z) (p : pl) : bool :=
  match pl_status p, pl_submit p with
  | NotStarted, Some sub => pl_valid p && negb (Z.eqb ms 0) && Z.leb t (sub + ms)
  | _, _ => false
  end.

Definition is_error (r : res) : bool :=
  match r with RNotFound | RRejected | RCanceled => true | _ => false end.
Definition is_panic (r : res) : bool := match r with RPanic => true | _ => false end.

(* per id: Some (image, phase) while the vault has it, None once deleted.
   phase 0: no Start has returned nil for it (it is not executing and never was, in this process);
   phase 1: a Start returned nil (it may be executing);
   phase 2: after that a call delivered it with a terminal status (its execution has finished). *)
Record mst := { m_ids : list (option (pl * nat)); m_now : Z }.

Definition m_get (m : mst) (id : nat) : option (pl * nat) := nth id (m_ids m) None.

Definition is_terminal_res (r : res) : bool :=
  match r with RStatus s => is_terminal s | _ => false end.
Definition is_canceled (r : res) : bool := match r with RCanceled => true | _ => false end.

(* a call delivered the plan: if it was started and is terminal now, its execution has finished *)
Definition note_seen (m : mst) (id : nat) (obs : res) : mst :=
  match m_get m id with
  | Some (p, 1%nat) =>
      if is_terminal_res obs then {| m_ids := upd_nth id (Some (p, 2%nat)) (m_ids m); m_now := m_now m |} else m
  | _ => m
  end.

(* verdict of one op: 0 fine, 1 panic, 3 a second Start succeeded, 4 Start succeeded on a plan that may
   not be started (stale, not NotStarted, invalid, maxSubmit 0), 5 a call on an id the vault does not have
   did not fail, 9 Wait blocked (until the caller's deadline) on a plan that is not executing - one no Start
   ever succeeded on, one whose execution has finished, or an id the vault does not have: something a
   rejected Start (or a finished run) left behind, i.e. the rejection was not free of side effects *)
Definition mon_op (ms : Z) (m : mst) (o : hop * res) : nat * mst :=
  let '(op, obs) := o in
  if is_panic obs then (1%nat, m) else
  match op with
  | HSubmit true _ =>
      match obs with
      | ROk => (O, {| m_ids := m_ids m ++ [Some ({| pl_status := NotStarted; pl_submit := Some (m_now m);
                                                   pl_valid := true |}, O)]; m_now := m_now m |})
      | _ => (O, m)
      end
  | HSubmit false _ => (O, m)
  | HStart id =>
      match m_get m id with
      | None => (if is_error obs then O else 5%nat, m)
      | Some (p, phase) =>
          match obs with
          | ROk => if negb (Nat.eqb phase 0) then (3%nat, m)
                   else if spec_startable ms (m_now m) p
                        then (O, {| m_ids := upd_nth id (Some (p, 1%nat)) (m_ids m); m_now := m_now m |})
                        else (4%nat, m)
          | _ => (O, m)
          end
      end
  | HWait id =>
      match m_get m id with
      | None => (if is_canceled obs then 9%nat else if is_error obs then O else 5%nat, m)
      | Some (_, phase) =>
          if is_canceled obs && negb (Nat.eqb phase 1) then (9%nat, m) else (O, note_seen m id obs)
      end
  | HPlan id =>
      match m_get m id with
      | None => (if is_error obs then O else 5%nat, m)
      | Some _ => (O, note_seen m id obs)
      end
  | HStatus id more _ =>
      if existsb is_panic more then (1%nat, m)
      else match m_get m id with
           | None => (if forallb is_error (obs :: more) then O else 5%nat, m)
           | Some _ => (O, note_seen m id (last more obs))
           end
  | HAwait id => (O, note_seen m id obs)
  | HOpen _ => (O, m)
  | HTick d => (O, {| m_ids := m_ids m; m_now := m_now m + d |})
  | HDelete id => (O, {| m_ids := upd_nth id None (m_ids m); m_now := m_now m |})
  end.

(* (kind, index from 1) of the first op that violates the property; (0,0) = none; and the monitor's final state *)
Fixpoint mon_ops (ms : Z) (m : mst) (i : nat) (ops : list (hop * res)) : nat * nat * mst :=
  match ops with
  | [] => (O, O, m)
  | o :: r =>
      match mon_op ms m o with
      | (O, m') => mon_ops ms m' (S i) r
      | (k, _) => (k, S i, m)
      end
  end.

Fixpoint first_over (i : nat) (l : list nat) : nat :=
  match l with
  | [] => O
  | n :: r => if Nat.ltb 1 n then S i else first_over (S i) r
  end.

(* at quiescence: a plan on which a Start returned nil has been executed (exactly once, given first_over),
   a plan on which no Start returned nil has not; S i = id i differs *)
Fixpoint exec_mismatch (i : nat) (ids : list (option (pl * nat))) (ex : list nat) : nat :=
  match ids, ex with
  | Some (_, phase) :: r, n :: r' =>
      if Nat.eqb n (if Nat.eqb phase 0 then 0 else 1) then exec_mismatch (S i) r r' else S i
  | None :: r, n :: r' => exec_mismatch (S i) r r'        (* deleted meanwhile: nothing to say *)
  | _, _ => O
  end.

(* kind 2: a plan executed more than once; kind 7: executions differ from the Starts that returned nil -
   a Start that returned nil was not followed by an execution, or a plan ran that nobody started *)
Definition hist_monitor (h : hist) : nat * nat :=
  match first_over 0 (h_execs h) with
  | S i => (2%nat, S i)
  | O =>
      match mon_ops (h_max h) {| m_ids := map (fun x => Some (fst x, O)) (h_pre h); m_now := h_now h |}
                    0 (h_ops h) with
      | (O, _, m) =>
          match exec_mismatch 0 (m_ids m) (h_execs h) with
          | O => (O, O)
          | i => (7%nat, i)
          end
      | (k, i, _) => (k, i)
      end
  end.

Definition count_ok (l : list res) : nat :=
  length (filter (fun r => res_eqb r ROk) l).

(* bursts: 0 fine, 1 panic, 2 more than one execution, 3 more than one Start succeeded,
   4 a Start succeeded on a plan that may not be started, 6 no Start succeeded on a startable plan,
   7 executions differ from successful Starts, 5 a call on a missing id did not fail,
   8 a failed Start returned something that is not an error,
   9 no Start succeeded, yet a concurrent Wait (or the final read) blocked until its deadline *)
Definition burst_monitor (b : burst) : nat :=
  let oks := count_ok (b_starts b) in
  let startable := match b_pl b with Some p => spec_startable (b_max b) (b_now b) p | None => false end in
  if existsb is_panic (b_starts b ++ b_others b ++ [b_final b]) then 1%nat
  else if Nat.ltb 1 (b_execs b) then 2%nat
  else if Nat.ltb 1 oks then 3%nat
  else if negb startable && Nat.ltb 0 oks then 4%nat
  else if startable && Nat.eqb oks 0 then 6%nat
  else if negb (Nat.eqb (b_execs b) oks) then 7%nat
  else if negb (forallb (fun r => res_eqb r ROk || is_error r) (b_starts b)) then 8%nat
  else if Nat.eqb oks 0 && existsb is_canceled (b_others b ++ [b_final b]) then 9%nat
  else match b_pl b with
       | None => if forallb is_error (b_others b ++ [b_final b]) then O else 5%nat
       | Some _ => O
       end.

(* ---- verdict of a case ---------------------------------------------------------------------------
   [0]            fine
   [1; kind; i]   the property monitor is false on the observation (op / id index i from 1)
   [2; i; 0]      the model cannot follow op i (monitor true): correspondence broken
   [2; 0; i]      the model cannot produce the execution count observed for id i-1 *)
Definition check_case (k : case) : list nat :=
  match k with
  | CHist h =>
      match hist_monitor h with
      | (O, _) =>
          match check_ops (fixed (h_max h)) (start_cst h) 0 (h_ops h) with
          | (O, cs) =>
              match check_execs 0 (c_ids cs) (h_execs h) with
              | O => [0%nat]
              | i => [2%nat; 0%nat; i]
              end
          | (i, _) => [2%nat; i; 0%nat]
          end
      | (kind, i) => [1%nat; kind; i]
      end
  | CBurst b =>
      match burst_monitor b with
      | O => [0%nat]
      | kind => [1%nat; kind; 0%nat]
      end
  end.

Definition case_ok (k : case) : bool :=
  match check_case k with
  | [O] => true
  | _ => false
  end.

(* does the model of the code before the fixes follow the history? (used only to label a finding) *)
Definition follows_orig (k : case) : bool :=
  match k with
  | CHist h => match check_ops (orig (h_max h)) (start_cst h) 0 (h_ops h) with (O, _) => true | _ => false end
  | CBurst _ => false
  end.
