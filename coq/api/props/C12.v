(* placeholder until ApiProofs.v lands *)
From Coercion.Api Require Import ApiModel.
Theorem c12_placeholder : True. Proof. exact I. Qed.
Print Assumptions c12_placeholder.
