(* C12 - A plan executes at most once; repeated or racing Start is rejected safely; the API never panics.
   Model: Coercion.Api.ApiModel (small-step: Start = enter(lock) / waiter check / read+validate / launch;
   engine = Running write / terminal write / close waiter / delete waiter; Submit, vault Create/Delete, clock).
   `fixed ms` is the code as it is now (mutex, waiter check, Read(unknown) is an error) with maxSubmit = ms;
   `reach c s`: s is reachable from the empty workstream by ANY sequence of steps (any interleaving of any
   number of concurrent callers and engine goroutines). Status has no interval argument in the model: its
   results do not depend on it, for any interval, positive or not (the harness calls it with 0 and negative
   intervals too). Only statements and `exact`; proofs in ApiProofs.v,
   computed witnesses in ApiWitness.v. *)
From Coq Require Import List ZArith Bool Arith.
From Coercion.Base Require Import Plan.
From Coercion.Api Require Import ApiModel ApiProofs ApiWitness ApiLockVariant.
Import ListNotations.
Local Open Scope Z_scope.

(* In every reachable state:
   1. every plan has been launched at most once;
   2. at most one Start call is between entry and return (mutual exclusion by startMu);
   3. no step of any call or goroutine panics, and executions never decrease (so "launched or finished" is stable);
   4. a Start call in progress on a plan that has been launched (still running, or finished): its waiter check
      and its read change no plan, the clock or the id supply; the read ends it with an error; it cannot launch;
   5. a plan with submit + maxSubmit < now is rejected by the read of any Start;
   6. a launch happens only for a plan that the same call read - while holding the mutex, at a time tv <= now -
      as NotStarted, valid, with tv <= submit + maxSubmit, maxSubmit <> 0, and never launched; it makes the
      plan's executions 1, registers its waiter, ends the call with nil and touches no other plan. *)
Theorem c12_at_most_once :
  forall ms s, reach (fixed ms) s ->
    (forall id, (execs (get s id) <= 1)%nat)
    /\ (length (inprog s) <= 1)%nat
    /\ (forall l s' r, step (fixed ms) s l = Some (s', r) ->
          r <> RPanic /\ forall id, (execs (get s id) <= execs (get s' id))%nat)
    /\ (forall k id stg, nth_error (inprog s) k = Some (id, stg) -> (1 <= execs (get s id))%nat ->
          (forall s' r, step (fixed ms) s (LStartCheck k) = Some (s', r) ->
             plans s' = plans s /\ next s' = next s /\ now s' = now s
             /\ ((r = RRejected /\ inprog s' = []) \/ (r = RNone /\ inprog s' = [(id, SChecked)])))
          /\ (forall s' r, step (fixed ms) s (LStartRead k) = Some (s', r) ->
             plans s' = plans s /\ next s' = next s /\ now s' = now s /\ inprog s' = []
             /\ (r = RRejected \/ r = RNotFound))
          /\ step (fixed ms) s (LStartLaunch k) = None)
    /\ (forall k id p t, nth_error (inprog s) k = Some (id, SChecked) -> stored (get s id) = Some p ->
          pl_submit p = Some t -> t + ms < now s ->
          step (fixed ms) s (LStartRead k) = Some (with_inprog s (remove_nth k (inprog s)), RRejected))
    /\ (forall k s' r, step (fixed ms) s (LStartLaunch k) = Some (s', r) ->
          r = ROk /\ exists id tv p t,
            nth_error (inprog s) k = Some (id, SValidated tv) /\ stored (get s id) = Some p
            /\ pl_status p = NotStarted /\ pl_valid p = true /\ pl_submit p = Some t
            /\ tv <= now s /\ tv <= t + ms /\ ms <> 0
            /\ execs (get s id) = 0%nat /\ execs (get s' id) = 1%nat /\ waiter (get s' id) = WOpen
            /\ inprog s' = [] /\ (forall i, i <> id -> get s' i = get s i)).
Proof. exact c12_at_most_once_proof. Qed.
Print Assumptions c12_at_most_once.

(* Whole calls of a sequential caller (no Start in progress when it calls): Start on a plan that was launched -
   running or finished - returns an error and the state afterwards is the state before. *)
Theorem c12_restart_rejected_unchanged :
  forall ms s id, reach (fixed ms) s -> inprog s = [] -> (1 <= execs (get s id))%nat ->
  exists r, start_call (fixed ms) s id = Some (s, r) /\ (r = RRejected \/ r = RNotFound).
Proof. exact start_call_after_launch. Qed.
Print Assumptions c12_restart_rejected_unchanged.

(* ... Start on a plan whose submission is older than maxSubmit returns an error and changes nothing
   (any state, reachable or not). *)
Theorem c12_stale_cannot_start :
  forall ms s id p t, inprog s = [] -> stored (get s id) = Some p -> pl_submit p = Some t -> t + ms < now s ->
  start_call (fixed ms) s id = Some (s, RRejected).
Proof. exact start_call_stale. Qed.
Print Assumptions c12_stale_cannot_start.

(* "Rejected without side effects", for every reason of rejection (already running, finished, stale, invalid,
   unknown id): a sequential Start that returns an error leaves the state literally unchanged; if the plan is
   not executing, a Wait after it does not block and answers exactly what it would have answered before, and
   a second Start gets the same answer. *)
Theorem c12_rejected_start_no_side_effect :
  forall ms s id s' r, reach (fixed ms) s -> inprog s = [] -> engines (get s id) = [] ->
  start_call (fixed ms) s id = Some (s', r) -> r <> ROk ->
  s' = s
  /\ (forall c, step (fixed ms) s' (LWait id c) = Some (s', read_res (fixed ms) s id))
  /\ read_res (fixed ms) s id <> RCanceled
  /\ start_call (fixed ms) s' id = Some (s', r).
Proof. exact rejected_start_no_side_effect. Qed.
Print Assumptions c12_rejected_start_no_side_effect.

(* ... in any interleaving, the steps of a Start before its launch touch no plan, the id supply or the clock *)
Theorem c12_start_steps_keep_plans :
  forall ms s l s' r,
  (exists id, l = LStartEnter id) \/ (exists k, l = LStartCheck k) \/ (exists k, l = LStartRead k) ->
  step (fixed ms) s l = Some (s', r) -> plans s' = plans s /\ next s' = next s /\ now s' = now s.
Proof. exact start_steps_keep_plans. Qed.
Print Assumptions c12_start_steps_keep_plans.

(* "Exactly one": a Start that returns nil has spawned the run, not merely registered a waiter; a registered
   waiter always belongs to a live run; and a run is never stuck (its next step is enabled at every stage), so
   Wait on it is released and the plan ends terminal.  (What 5e33fe2 repaired in the code: the pool could drop
   the run when the caller's context was cancelled, leaving a waiter without a run.) *)
Theorem c12_accepted_start_spawns_run :
  forall ms s k s', reach (fixed ms) s -> step (fixed ms) s (LStartLaunch k) = Some (s', ROk) ->
  exists id, engines (get s' id) = [ESpawned] /\ waiter (get s' id) = WOpen /\ execs (get s' id) = 1%nat
             /\ exists s'', step (fixed ms) s' (LEngRunning id 0) = Some (s'', RNone).
Proof. exact accepted_start_spawns_run. Qed.
Print Assumptions c12_accepted_start_spawns_run.

Theorem c12_waiter_has_run :
  forall ms s id, reach (fixed ms) s -> waiter (get s id) <> WNone ->
  exists e, engines (get s id) = [e] /\ execs (get s id) = 1%nat.
Proof. exact waiter_has_run. Qed.
Print Assumptions c12_waiter_has_run.

Theorem c12_run_not_stuck :
  forall ms s id e, reach (fixed ms) s -> engines (get s id) = [e] ->
  match e with
  | ESpawned => exists s', step (fixed ms) s (LEngRunning id 0) = Some (s', RNone)
  | ERunning => exists s', step (fixed ms) s (LEngFinish id 0 Completed) = Some (s', RNone)
  | ETerminal => exists s', step (fixed ms) s (LEngRelease id 0) = Some (s', RNone)
  | EClosed => exists s', step (fixed ms) s (LEngCleanup id 0) = Some (s', RNone)
  end.
Proof. exact run_not_stuck. Qed.
Print Assumptions c12_run_not_stuck.

(* ... and the property is not met by rejecting everything: Start on a plan that validates and has no waiter
   returns nil and launches it - it had 0 executions, now has exactly 1. *)
Theorem c12_startable_plan_starts_once :
  forall ms s id p, reach (fixed ms) s -> inprog s = [] -> stored (get s id) = Some p ->
  waiter (get s id) = WNone -> validate (fixed ms) (now s) p = true ->
  exists s', start_call (fixed ms) s id = Some (s', ROk)
             /\ execs (get s id) = 0%nat /\ execs (get s' id) = 1%nat /\ waiter (get s' id) = WOpen
             /\ engines (get s' id) = [ESpawned] /\ inprog s' = [].
Proof. exact start_call_fresh. Qed.
Print Assumptions c12_startable_plan_starts_once.

(* No trace of the repaired model contains a panic. *)
Theorem c12_no_trace_panics :
  forall ms s tr s' rs, reach (fixed ms) s -> run (fixed ms) s tr = Some (s', rs) -> ~ In RPanic rs.
Proof. exact run_no_panic. Qed.
Print Assumptions c12_no_trace_panics.

(* What the fix bought (and that the theorem is not vacuous): the SAME model with the repairs switched off -
   the code before c931038 / 12fa98d - executes a plan twice (two Start calls one after the other, the second
   before the first durable Running write), then panics on close of a nil channel; Status on an unknown id
   panics and Plan/Wait return an empty plan with a nil error.  Each half of the repair alone is refuted too. *)
Theorem c12_at_most_once_refuted_without_fix :
  exists tr s rs, run (orig 1800000) (init 1000) tr = Some (s, rs) /\ execs (get s 0) = 2%nat.
Proof. exact c12_refuted_without_fix. Qed.
Print Assumptions c12_at_most_once_refuted_without_fix.

Theorem c12_no_panic_refuted_without_fix :
  exists tr s rs, run (orig 1800000) (init 1000) tr = Some (s, rs) /\ In RPanic rs.
Proof. exact c12_refuted_without_fix_panics. Qed.
Print Assumptions c12_no_panic_refuted_without_fix.

Theorem c12_unknown_ids_refuted_without_fix :
  results_of (orig 1800000) [LStatus 7; LPlan 7; LWait 7 false; LStartEnter 7; LStartCheck 0; LStartRead 0]
  = Some [RPanic; REmpty; REmpty; RNone; RNone; RRejected].
Proof. exact c12_refuted_without_s5_fix. Qed.
Print Assumptions c12_unknown_ids_refuted_without_fix.

Theorem c12_refuted_with_mutex_only :
  execs_after {| use_lock := true; use_wcheck := false; read_absent_empty := false; read_before_lock := false;
                 max_submit := 1800000 |}
              tr_seq 0 = Some 2%nat.
Proof. exact mutex_without_waiter_check_refuted. Qed.
Print Assumptions c12_refuted_with_mutex_only.

Theorem c12_refuted_with_waiter_check_only :
  execs_after {| use_lock := false; use_wcheck := true; read_absent_empty := false; read_before_lock := false;
                 max_submit := 1800000 |}
              tr_race 0 = Some 2%nat.
Proof. exact waiter_check_without_mutex_refuted. Qed.
Print Assumptions c12_refuted_with_waiter_check_only.

(* The order inside Start matters, not only the presence of mutex and waiter check: with store.Read moved in
   front of startMu.Lock (everything else as it is) a call that read the plan as NotStarted, and is held up
   until the execution another call started has finished and removed its waiter, runs the plan a second time -
   both calls return nil.  While the first execution is still in flight the same interleaving is rejected. *)
Theorem c12_refuted_with_read_before_lock :
  execs_after {| use_lock := true; use_wcheck := true; read_absent_empty := false; read_before_lock := true;
                 max_submit := 1800000 |} tr_stale_read 0 = Some 2%nat
  /\ results_of {| use_lock := true; use_wcheck := true; read_absent_empty := false; read_before_lock := true;
                   max_submit := 1800000 |} tr_stale_read
     = Some [ROk; RNone; RNone; RNone; RNone; ROk; RNone; RNone; RNone; RNone; ROk].
Proof. exact read_before_lock_refuted. Qed.
Print Assumptions c12_refuted_with_read_before_lock.

(* The mutex must be ONE object for the plan's whole life (the code has a single startMu): with a per-plan mutex
   looked up in a map and deleted from it when Start returns, a call queued on the old mutex and a call that
   arrives after a failed holder returned are both in the critical section - the configuration without mutex,
   refuted above (c12_refuted_with_waiter_check_only).  Lock protocol on its own: ApiLockVariant.v. *)
Theorem c12_refuted_with_per_plan_lock_deleted_on_return :
  match krun true linit [KEnter; KLock 0; KEnter; KReturn 0; KLock 0; KEnter; KLock 1] with
  | Some s => holders s = 2%nat
  | None => False
  end.
Proof. exact per_plan_lock_deleted_on_return_refuted. Qed.
Print Assumptions c12_refuted_with_per_plan_lock_deleted_on_return.
