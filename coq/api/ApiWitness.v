(* C12 - witnesses, all by computation:
   (a) the same model with the repairs switched off (the code before c931038 / 12fa98d) DOES execute a plan
       twice, panics, and answers calls on unknown ids with an empty plan or a panic - so the theorems of
       ApiProofs.v are about the repairs and not vacuous;
   (b) each repair alone is not enough (mutex without waiter check, waiter check without mutex);
   (c) the hypotheses of the theorems are satisfiable in reachable states of the repaired model. *)
From Coq Require Import List ZArith Bool Arith Lia.
From Coercion.Base Require Import Plan.
From Coercion.Api Require Import ApiModel ApiProofs.
Import ListNotations.
Local Open Scope Z_scope.

Definition half_hour : Z := 1800000.

(* two callers, steps interleaved: both pass the read before either launches *)
Definition tr_race : list label :=
  [LSubmit true; LStartEnter 0; LStartEnter 0; LStartCheck 0; LStartCheck 1; LStartRead 0; LStartRead 1;
   LStartLaunch 0; LStartLaunch 0].

(* one caller, two Start calls one after the other, the second before the first durable Running write *)
Definition tr_seq : list label :=
  [LSubmit true; LStartEnter 0; LStartCheck 0; LStartRead 0; LStartLaunch 0;
                 LStartEnter 0; LStartCheck 0; LStartRead 0; LStartLaunch 0].

(* ... and then both executions run to their end *)
Definition tr_seq_to_end : list label :=
  tr_seq ++ [LEngRunning 0 0; LEngRunning 0 1; LEngFinish 0 0 Completed; LEngFinish 0 1 Completed;
             LEngRelease 0 0; LEngCleanup 0 0; LEngRelease 0 0].

Definition execs_after (c : cfg) (tr : list label) (id : nat) : option nat :=
  match run c (init 1000) tr with Some (s, _) => Some (execs (get s id)) | None => None end.

Definition results_of (c : cfg) (tr : list label) : option (list res) :=
  match run c (init 1000) tr with Some (_, rs) => Some rs | None => None end.

(* (a) A1 on the model of the original code *)
Lemma c12_refuted_without_fix_sequential : execs_after (orig half_hour) tr_seq 0 = Some 2%nat.
Proof. vm_compute. reflexivity. Qed.

Lemma c12_refuted_without_fix_race : execs_after (orig half_hour) tr_race 0 = Some 2%nat.
Proof. vm_compute. reflexivity. Qed.

Lemma c12_refuted_without_fix :
  exists tr s rs, run (orig half_hour) (init 1000) tr = Some (s, rs) /\ execs (get s 0) = 2%nat.
Proof. eexists tr_seq, _, _. split; [vm_compute; reflexivity | vm_compute; reflexivity]. Qed.

Lemma c12_refuted_without_fix_panics :
  exists tr s rs, run (orig half_hour) (init 1000) tr = Some (s, rs) /\ In RPanic rs.
Proof.
  eexists tr_seq_to_end, _, _. split; [vm_compute; reflexivity |].
  vm_compute. repeat (try (left; reflexivity); right).
Qed.

(* A2 on the model of the original code *)
Lemma c12_refuted_without_s5_fix :
  results_of (orig half_hour) [LStatus 7; LPlan 7; LWait 7 false; LStartEnter 7; LStartCheck 0; LStartRead 0]
  = Some [RPanic; REmpty; REmpty; RNone; RNone; RRejected].
Proof. vm_compute. reflexivity. Qed.

(* the repaired model on the same traces: the second Start is rejected by the waiter check, after which the
   trace cannot continue (there is no call left to read or launch); unknown ids are errors *)
Lemma fixed_rejects_second_start :
  results_of (fixed half_hour) (firstn 7 tr_seq) = Some [ROk; RNone; RNone; RNone; ROk; RNone; RRejected]
  /\ execs_after (fixed half_hour) (firstn 7 tr_seq) 0 = Some 1%nat
  /\ run (fixed half_hour) (init 1000) tr_seq = None
  /\ run (fixed half_hour) (init 1000) tr_race = None.
Proof. repeat split; vm_compute; reflexivity. Qed.

Lemma fixed_unknown_ids :
  results_of (fixed half_hour) [LStatus 7; LPlan 7; LWait 7 false; LStartEnter 7; LStartCheck 0; LStartRead 0]
  = Some [RNotFound; RNotFound; RNotFound; RNone; RNone; RNotFound].
Proof. vm_compute. reflexivity. Qed.

(* (b) each half of the repair alone still allows two executions *)
Definition lock_only : cfg :=
  {| use_lock := true; use_wcheck := false; read_absent_empty := false; read_before_lock := false; max_submit := half_hour |}.
Definition wcheck_only : cfg :=
  {| use_lock := false; use_wcheck := true; read_absent_empty := false; read_before_lock := false; max_submit := half_hour |}.

Lemma mutex_without_waiter_check_refuted : execs_after lock_only tr_seq 0 = Some 2%nat.
Proof. vm_compute. reflexivity. Qed.

Lemma waiter_check_without_mutex_refuted : execs_after wcheck_only tr_race 0 = Some 2%nat.
Proof. vm_compute. reflexivity. Qed.

(* the ordering "store.Read before startMu.Lock" (mutex and waiter check both kept): call B reads the plan as
   NotStarted and is held up; call A starts the plan and its execution runs to its very end (waiter deleted);
   B then takes the mutex, finds no waiter, validates its STALE snapshot and runs the finished plan again.
   A racing burst does not show this: while A's execution is in flight B is rejected by the waiter check. *)
Definition read_first : cfg :=
  {| use_lock := true; use_wcheck := true; read_absent_empty := false; read_before_lock := true;
     max_submit := half_hour |}.

Definition tr_stale_read : list label :=
  [LSubmit true;
   LStartEnter 0; LStartRead 0;                      (* B: snapshot NotStarted *)
   LStartEnter 0; LStartRead 1; LStartLaunch 1;      (* A: whole call *)
   LEngRunning 0 0; LEngFinish 0 0 Completed; LEngRelease 0 0; LEngCleanup 0 0;
   LStartLaunch 0].                                  (* B: lock, waiter check passes, launch *)

Definition tr_stale_read_in_flight : list label :=
  [LSubmit true; LStartEnter 0; LStartRead 0; LStartEnter 0; LStartRead 1; LStartLaunch 1;
   LEngRunning 0 0; LStartLaunch 0].

Lemma read_before_lock_refuted :
  execs_after read_first tr_stale_read 0 = Some 2%nat
  /\ results_of read_first tr_stale_read
     = Some [ROk; RNone; RNone; RNone; RNone; ROk; RNone; RNone; RNone; RNone; ROk].
Proof. split; vm_compute; reflexivity. Qed.

Lemma read_before_lock_hidden_while_in_flight :
  execs_after read_first tr_stale_read_in_flight 0 = Some 1%nat
  /\ results_of read_first tr_stale_read_in_flight = Some [ROk; RNone; RNone; RNone; RNone; ROk; RNone; RRejected].
Proof. split; vm_compute; reflexivity. Qed.

(* the code's own ordering cannot do that: the second call cannot even enter while the first is in progress *)
Lemma fixed_cannot_read_before_lock :
  run (fixed half_hour) (init 1000) (firstn 4 tr_stale_read) = None
  /\ run (fixed half_hour) (init 1000) [LSubmit true; LStartEnter 0; LStartRead 0] = None.
Proof. split; vm_compute; reflexivity. Qed.

(* the mutex does what it is there for: a second Start cannot even enter while one is in progress *)
Lemma mutex_blocks_second_enter :
  run (fixed half_hour) (init 1000) [LSubmit true; LStartEnter 0; LStartEnter 0] = None.
Proof. vm_compute. reflexivity. Qed.

(* (c) satisfiable hypotheses *)
Definition s_second_start_in_progress : st :=
  match run (fixed half_hour) (init 1000)
            [LSubmit true; LStartEnter 0; LStartCheck 0; LStartRead 0; LStartLaunch 0; LEngRunning 0 0; LStartEnter 0] with
  | Some (s, _) => s
  | None => init 0
  end.

Lemma run_reach_init c t0 tr s rs : run c (init t0) tr = Some (s, rs) -> reach c s.
Proof. intro H. eapply run_reach; [apply reach_init | exact H]. Qed.

Example second_start_in_progress_reachable :
  reach (fixed half_hour) s_second_start_in_progress
  /\ nth_error (inprog s_second_start_in_progress) 0 = Some (0%nat, SLocked)
  /\ execs (get s_second_start_in_progress 0) = 1%nat
  /\ step (fixed half_hour) s_second_start_in_progress (LStartCheck 0)
     = Some (with_inprog s_second_start_in_progress [], RRejected).
Proof.
  split; [| repeat split; vm_compute; reflexivity].
  eapply (run_reach_init _ 1000 [LSubmit true; LStartEnter 0; LStartCheck 0; LStartRead 0; LStartLaunch 0; LEngRunning 0 0; LStartEnter 0]).
  vm_compute. reflexivity.
Qed.

(* a finished plan: the waiter is gone, the read rejects *)
Definition tr_finished : list label :=
  [LSubmit true; LStartEnter 0; LStartCheck 0; LStartRead 0; LStartLaunch 0;
   LEngRunning 0 0; LEngFinish 0 0 Completed; LEngRelease 0 0; LEngCleanup 0 0].

Example start_on_finished_plan :
  match run (fixed half_hour) (init 1000) tr_finished with
  | Some (s, _) => start_call (fixed half_hour) s 0 = Some (s, RRejected)
                   /\ execs (get s 0) = 1%nat /\ waiter (get s 0) = WNone
  | None => False
  end.
Proof. vm_compute. repeat split; reflexivity. Qed.

(* an old submission: created 31 min ago with maxSubmit 30 min; 29 min ago is started *)
Example stale_submission :
  let old := {| pl_status := NotStarted; pl_submit := Some (10000000 - 31 * 60000); pl_valid := true |} in
  let young := {| pl_status := NotStarted; pl_submit := Some (10000000 - 29 * 60000); pl_valid := true |} in
  match run (fixed half_hour) (init 10000000) [LCreate old; LCreate young] with
  | Some (s, _) =>
      start_call (fixed half_hour) s 0 = Some (s, RRejected)
      /\ (exists s', start_call (fixed half_hour) s 1 = Some (s', ROk) /\ execs (get s' 1) = 1%nat)
  | None => False
  end.
Proof. vm_compute. split; [reflexivity | eexists; split; reflexivity]. Qed.

(* time passing makes a submitted plan stale *)
Example tick_makes_stale :
  results_of (fixed 6000) [LSubmit true; LTick 6400; LSubmit true; LStartEnter 0; LStartCheck 0; LStartRead 0;
                           LStartEnter 1; LStartCheck 0; LStartRead 0; LStartLaunch 0]
  = Some [ROk; RNone; ROk; RNone; RNone; RRejected; RNone; RNone; RNone; ROk].
Proof. vm_compute. reflexivity. Qed.
