(* The end of a plan: the terminal plan write (= Final.final of the durable image) and the release
   with a full read of the image. *)
From Coq Require Import Lia.
From Coercion.Base Require Import Plan.
From Coercion.Engine Require Import Shape Event Action ChecksRun Seq Block Final PlanSM Auto Accept AutoLemmas.
From Coercion.Gen Require Import Gen GenBase.

Lemma final_terminal sh st : is_terminal (fst (final sh st)) = true.
Proof.
  unfold final, final_blocks. destruct (examine_bypass sh st); [reflexivity|].
  destruct (examine sh st [GPre; GCont]); [reflexivity|].
  destruct (any_block_failed sh st).
  - now destruct (all_blocks_completed sh st).
  - destruct (examine sh st [GPost; GDeferred]); [reflexivity|]. now destruct (all_blocks_completed sh st).
Qed.

Lemma cell_eqb_refl c : cell_eqb c c = true.
Proof. unfold cell_eqb. now rewrite status_eqb_refl, Nat.eqb_refl, eqb_refl. Qed.

Lemma reason_eqb_refl r : reason_eqb r r = true.
Proof. now destruct r. Qed.

Lemma im_find_map (f : obj -> ocell) l o :
  In o l -> im_find (map (fun x => (x, f x)) l) o = Some (f o).
Proof.
  induction l as [|x l IH]; intro H; [contradiction|]. simpl.
  destruct (obj_eqb x o) eqn:E.
  - apply obj_eqb_eq in E. now subst.
  - destruct H as [->|H]; [now rewrite obj_eqb_refl in E|auto].
Qed.

Lemma image_agrees_render sh im r : image_agrees (all_objs sh) im r (render sh im r) = true.
Proof.
  unfold image_agrees, render. cbn [im_reason]. rewrite reason_eqb_refl. cbn [andb].
  apply forallb_forall. intros x Hx. unfold im_lookup. cbn [im_cells].
  rewrite (im_find_map (fun o => OC (c_st (iget im o)) (c_n (iget im o)) (c_ok (iget im o)) (TF false false true))) by assumption.
  unfold ocell_cell. cbn. destruct (iget im x). apply cell_eqb_refl.
Qed.

(* the last two events of a generated trace, for the image so far *)
Definition fin_events (sh : shape) (im : dimg) : list event :=
  let f := final sh (ist im) in
  let last := EvWrite OPlan (fst f) 0 false (snd f) in
  [last; EvRelease (render sh (img_of [last] im) (snd f))].

(* from PEnd with the plan durably not terminal: terminal write, then Wait returns *)
Lemma end_Acc sh pt pth im cb b k :
  is_terminal (ist im OPlan) = false -> Acc sh k (mkst PEnd pt pth im cb b []) (fin_events sh im).
Proof.
  intros Hn. unfold fin_events. set (f := final sh (ist im)). set (last := EvWrite OPlan (fst f) 0 false (snd f)).
  assert (Ht : is_terminal (fst f) = true) by apply final_terminal.
  set (s1 := put (with_reason (mkst PEnd pt pth im cb b []) (snd f)) OPlan (fst f) 0 false).
  assert (H1 : handle sh (mkst PEnd pt pth im cb b []) last = Some s1).
  { unfold last, handle, released, h_write, mkst. cbn [s_ph pphase_eqb obj_in_shape negb].
    unfold h_write_obj, p_write. cbn [s_ph s_img]. fold f.
    now rewrite Ht, Hn, status_eqb_refl, reason_eqb_refl. }
  set (fi := render sh (img_of [last] im) (snd f)).
  assert (H2 : handle sh s1 (EvRelease fi) = Some (with_fin (with_ph s1 PReleased) (Some fi))).
  { unfold handle, h_release, s1, put, with_reason, with_img, mkst. cbn [s_ph s_img s_reason pphase_eqb andb].
    unfold ist. rewrite iget_iset_same. cbn [c_st]. rewrite Ht. cbn [andb].
    unfold fi, last. cbn [img_of]. now rewrite image_agrees_render. }
  eapply Acc_cons; [exact H1|]. eexists. split.
  - now rewrite (run_cons_handle _ _ _ _ _ H2).
  - reflexivity.
Qed.
