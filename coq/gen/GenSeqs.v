(* All sequences of the current block, one after another (phase BSeqs), and what the loop leaves behind:
   nothing in flight, and either every sequence started or the tolerance exceeded (this is where
   shape_wf, concurrency >= 1, is needed). *)
From Coq Require Import Lia.
From Coercion.Base Require Import Plan.
From Coercion.Engine Require Import Shape Event Action ChecksRun Seq Block Final PlanSM Auto Accept AutoLemmas.
From Coercion.Gen Require Import Gen GenBase GenAct GenImg GenGroup GenHost GenSeq GenBlockEps.

Lemma count_app {A} (f : A -> bool) l1 l2 : count f (l1 ++ l2) = count f l1 + count f l2.
Proof. unfold count. now rewrite filter_app, app_length. Qed.

Lemma count_none {A} (f : A -> bool) l : forallb (fun x => negb (f x)) l = true -> count f l = 0.
Proof.
  unfold count. induction l as [|x l IH]; simpl; auto. intro H. apply andb_true_iff in H as [H1 H2].
  destruct (f x); [discriminate|auto].
Qed.

Lemma done_not_inflight l : forallb s_done l = true -> forallb (fun x => negb (s_inflight x)) l = true.
Proof.
  induction l as [|x l IH]; simpl; auto. intro H. apply andb_true_iff in H as [H1 H2].
  rewrite IH by assumption. now destruct x.
Qed.

Lemma done_started l : forallb s_done l = true -> forallb (fun s => negb (s_idle s)) l = true.
Proof.
  induction l as [|x l IH]; simpl; auto. intro H. apply andb_true_iff in H as [H1 H2].
  rewrite IH by assumption. now destruct x.
Qed.

Lemma inflight_settled ph bt bth c dones m :
  forallb s_done dones = true -> inflight (mkb ph bt bth c (dones ++ repeat SIdle m)) = 0.
Proof.
  intro H. unfold inflight, mkb. cbn [b_seqs]. rewrite count_app.
  rewrite (count_none _ dones) by now apply done_not_inflight.
  rewrite count_none; [reflexivity|]. now apply forallb_repeat.
Qed.

(* with nothing in flight and concurrency >= 1, a closed launch guard means the tolerance is exceeded *)
Lemma guard_closed_exceeded bs b :
  1 <= bs_conc bs -> inflight b = 0 -> launch_guard bs b = false -> exceeded bs b = true.
Proof.
  intros Hc Hi Hg. unfold launch_guard, exceeded in *. rewrite Hi in Hg. rewrite Nat.add_0_r in Hg.
  apply andb_false_iff in Hg as [Hg|Hg].
  - apply Nat.ltb_ge in Hg. lia.
  - apply orb_false_iff in Hg as [H1 H2]. apply Z.ltb_ge in H1. apply Z.leb_gt in H2.
    apply andb_true_iff. split; [now apply Z.leb_le|]. apply Z.ltb_lt. lia.
Qed.

(* ---- what seqs_run leaves behind ---- *)
Lemma seqs_post o bs b todo : forall dones,
  1 <= bs_conc bs -> forallb s_done dones = true ->
  exists dones' m,
    snd (seqs_run o bs b (length dones) todo (dones ++ repeat SIdle (length todo))) = dones' ++ repeat SIdle m /\
    forallb s_done dones' = true /\
    (m = 0 \/ exceeded bs (seqs_view bs (dones' ++ repeat SIdle m)) = true).
Proof.
  induction todo as [|rs todo IH]; intros dones Hc Hd.
  - exists dones, 0. simpl. auto.
  - cbn [seqs_run length repeat].
    set (qs := dones ++ SIdle :: repeat SIdle (length todo)).
    destruct (launch_guard bs (seqs_view bs qs) && negb (exceeded bs (seqs_view bs qs))) eqn:G.
    + destruct (seq_run o b (length dones) rs) as [tq v].
      assert (E : upd qs (length dones) (SDone v) = (dones ++ [SDone v]) ++ repeat SIdle (length todo)).
      { unfold qs. now rewrite upd_app_len, <- app_assoc. }
      rewrite E. assert (El : S (length dones) = length (dones ++ [SDone v])) by (rewrite app_length; simpl; lia).
      rewrite El. destruct (IH (dones ++ [SDone v]) Hc) as (dones' & m & H1 & H2 & H3).
      { rewrite forallb_app, Hd. reflexivity. }
      destruct (seqs_run o bs b (length (dones ++ [SDone v])) todo ((dones ++ [SDone v]) ++ repeat SIdle (length todo))) as [t' qs'].
      cbn [snd] in *. exists dones', m. auto.
    + cbn [snd]. exists dones, (S (length todo)). split; [reflexivity|]. split; [assumption|]. right.
      fold qs. apply andb_false_iff in G as [G|G].
      * apply guard_closed_exceeded; [assumption| |assumption].
        unfold seqs_view. apply (inflight_settled _ _ _ _ dones (S (length todo)) Hd).
      * now apply negb_false_iff in G.
Qed.

(* ---- the automaton along seqs_run ---- *)
Section SeqsRun.
  Variables (sh : shape) (o : oracle) (bi : nat) (bs : bshape) (t : gtab) (th : thr).
  Variables (bt : gtab) (bth : thr) (c : bool).
  Hypothesis Hb : block_of sh bi = Some bs.

  Lemma seqs_run_ok todo : forall pre dones im,
    bs_seqs bs = pre ++ todo -> length pre = length dones ->
    (forall rs, In rs todo -> rs <> []) ->
    run sh (BSt bi t th BSeqs bt bth c (dones ++ repeat SIdle (length todo)) im)
        (fst (seqs_run o bs bi (length dones) todo (dones ++ repeat SIdle (length todo))))
    = Some (BSt bi t th BSeqs bt bth c
              (snd (seqs_run o bs bi (length dones) todo (dones ++ repeat SIdle (length todo))))
              (img_of (fst (seqs_run o bs bi (length dones) todo (dones ++ repeat SIdle (length todo)))) im)).
  Proof.
    induction todo as [|rs todo IH]; intros pre dones im E L Hne.
    - reflexivity.
    - cbn [seqs_run length repeat].
      set (qs := dones ++ SIdle :: repeat SIdle (length todo)).
      destruct (launch_guard bs (seqs_view bs qs) && negb (exceeded bs (seqs_view bs qs))) eqn:G; [|reflexivity].
      apply andb_true_iff in G as [G _].
      assert (Hq : nth_error (bs_seqs bs) (length dones) = Some rs) by (rewrite E, <- L; apply nth_app_len).
      assert (Lq : length dones < length qs) by (unfold qs; rewrite app_length; simpl; lia).
      assert (Eu : upd qs (length dones) SIdle = qs) by (unfold qs; now rewrite upd_app_len).
      pose proof (seq_run_ok sh bi bs (length dones) rs t th bt bth c qs Hb Hq Lq o im) as H.
      unfold mkS in H. rewrite Eu in H. specialize (H (Hne rs (or_introl eq_refl))).
      rewrite (launch_guard_seqs bs _ (seqs_view bs qs)) in H by reflexivity. specialize (H G).
      destruct (seq_run o bi (length dones) rs) as [tq v]. cbn [fst snd] in H.
      assert (E2 : upd qs (length dones) (SDone v) = (dones ++ [SDone v]) ++ repeat SIdle (length todo)).
      { unfold qs. now rewrite upd_app_len, <- app_assoc. }
      rewrite E2 in *. assert (El : S (length dones) = length (dones ++ [SDone v])) by (rewrite app_length; simpl; lia).
      rewrite El.
      specialize (IH (pre ++ [rs]) (dones ++ [SDone v]) (img_of tq im)).
      rewrite <- app_assoc in IH. specialize (IH E).
      rewrite !app_length in IH. simpl in IH. specialize (IH ltac:(lia) (fun rs' Hin => Hne rs' (or_intror Hin))).
      rewrite !app_length. simpl.
      destruct (seqs_run o bs bi (length dones + 1) todo ((dones ++ [SDone v]) ++ repeat SIdle (length todo))) as [t' qs'].
      cbn [fst snd] in *. rewrite run_app. unfold BSt in *. rewrite H, img_of_app. exact IH.
  Qed.
End SeqsRun.
