(* The sequential reference scheduler of the engine: for a shape and an outcome oracle, the trace of ONE
   complete execution as the engine logs it when everything happens one at a time (Concurrency 1, no
   continuous re-run beyond the initial one, every plugin answer decided by the oracle).
   Model file: no proofs.  The generator only uses the engine model's own vocabulary (after_attempt,
   verdict_status, launch_guard, exceeded, present, final, iset/iget, all_objs), so it cannot drift from it.

   Order of one execution (sm.go: Start .. End):
     plan Running write; plan bypass run; [bypassed -> end]; pre run; initial continuous run;
     [one failed -> deferred]; blocks in order (stop after a failed block); post (not after a failed
     block); deferred; terminal plan write = Final.final of the image; EvRelease with the image.
   One block: Running write; bypass run; [bypassed -> Completed]; pre; initial continuous; [failed ->
     Failed write, deferred]; sequences one after another while the launch guard allows and the tolerance
     is not exceeded; [exceeded -> deferred, Failed write]; post; [failed -> Failed write, deferred];
     deferred; terminal write.
   One group run: the (Running,0) marks of ALL its actions, then action after action (Start, End, attempt
     write, again while retries remain; terminal write), then the verdict write of the group.
   One attempt whose outcome is OOverrun: the engine's deadline fires first: Start, attempt write, End. *)
From Coercion.Base Require Import Plan.
From Coercion.Engine Require Import Shape Event Action ChecksRun Seq Block Final PlanSM.

(* the plugin's answer to invocation number k (0-based, within this run) of an action *)
Definition oracle := aref -> nat -> outcome.

Definition W (o : obj) (st : status) (n : nat) (ok : bool) : event := EvWrite o st n ok FRUnknown.

(* ---- one action, from its (Running,0) mark on ---- *)
Definition attempt_events (a : aref) (k : nat) (o : outcome) : list event :=
  let w := W (OAct a) Running (S k) (outcome_ok o) in
  match o with
  | OOverrun => [EvStart a; w; EvEnd a o]
  | _ => [EvStart a; EvEnd a o; w]
  end.

(* attempts k, k+1, ... of action a with r retries; result: verdict and number of attempts *)
Fixpoint attempts (oc : nat -> outcome) (a : aref) (r k fuel : nat) : list event * (bool * nat) :=
  match fuel with
  | 0 => ([], (false, k))
  | S fuel' =>
      let evs := attempt_events a k (oc k) in
      match after_attempt r k (oc k) with
      | ARun k' => let (tr, res) := attempts oc a r k' fuel' in (evs ++ tr, res)
      | APend v n => (evs, (v, n))
      | _ => (evs, (false, S k))
      end
  end.

Definition act_run (o : oracle) (a : aref) (r : nat) : list event * bool :=
  let '(tr, (v, n)) := attempts (o a) a r 0 (S r) in
  (tr ++ [W (OAct a) (verdict_status v) n v], v).

(* ---- one run of a check group ---- *)
Definition marks (sc : scope) (g : grp) (n : nat) : list event :=
  map (fun i => W (OAct (AChk sc g i)) Running 0 false) (seq 0 n).

Fixpoint grp_acts (o : oracle) (sc : scope) (g : grp) (i : nat) (rs : list nat) : list event * bool :=
  match rs with
  | [] => ([], true)
  | r :: rs' =>
      let (t1, v1) := act_run o (AChk sc g i) r in
      let (t2, v2) := grp_acts o sc g (S i) rs' in
      (t1 ++ t2, v1 && v2)
  end.

Definition grp_run (o : oracle) (sc : scope) (g : grp) (rs : list nat) : list event * bool :=
  let (t, v) := grp_acts o sc g 0 rs in
  (marks sc g (length rs) ++ t ++ [W (OChecks sc g) (verdict_status v) 0 false], v).

(* an absent group has no events and counts as passed *)
Definition opt_grp_run (o : oracle) (sc : scope) (g : grp) (x : option (list nat)) : list event * bool :=
  match x with Some rs => grp_run o sc g rs | None => ([], true) end.

(* ---- one sequence: actions in order until one fails ---- *)
Fixpoint seq_acts (o : oracle) (b q i : nat) (rs : list nat) : list event * bool :=
  match rs with
  | [] => ([], true)
  | r :: rs' =>
      let (t1, v1) := act_run o (ASeq b q i) r in
      let t1' := W (OAct (ASeq b q i)) Running 0 false :: t1 in
      if v1 then let (t2, v2) := seq_acts o b q (S i) rs' in (t1' ++ t2, v2) else (t1', false)
  end.

Definition seq_run (o : oracle) (b q : nat) (rs : list nat) : list event * bool :=
  let (t, v) := seq_acts o b q 0 rs in
  (W (OSeq b q) Running 0 false :: t ++ [W (OSeq b q) (verdict_status v) 0 false], v).

(* the sequences of block b from number q on; qs = the states of all sequences of the block so far.
   A sequence is launched when the engine model's launch guard allows it and ExecuteSequences has not
   seen the tolerance exceeded. *)
Definition seqs_view (bs : bshape) (qs : list sst) : bst := b_with_seqs (b_init bs) qs.

Fixpoint seqs_run (o : oracle) (bs : bshape) (b q : nat) (todo : list (list nat)) (qs : list sst)
  : list event * list sst :=
  match todo with
  | [] => ([], qs)
  | rs :: todo' =>
      if launch_guard bs (seqs_view bs qs) && negb (exceeded bs (seqs_view bs qs)) then
        let (t, v) := seq_run o b q rs in
        let (t', qs') := seqs_run o bs b (S q) todo' (upd qs q (SDone v)) in
        (t ++ t', qs')
      else ([], qs)
  end.

(* ---- one block; result: its events and whether it ended Failed ----
   When the block is written Failed (every state function of sm.go ends with UpdateBlock): a failed pre /
   initial continuous run and a failed post run are persisted at once, BEFORE the deferred checks run; an
   exceeded tolerance (ExecuteSequences has no such write) and a failed deferred run after the deferred checks. *)
Definition block_run (o : oracle) (b : nat) (bs : bshape) : list event * bool :=
  let gs := bs_groups bs in
  let sc := SBlock b in
  let start := W (OBlock b) Running 0 false in
  let fin (c : bool) := W (OBlock b) (if c then Failed else Completed) 0 false in
  let (tb, vb) := opt_grp_run o sc GBypass (g_bypass gs) in
  if present (g_bypass gs) && vb then (start :: tb ++ [fin false], false)
  else
    let (tp, vp) := opt_grp_run o sc GPre (g_pre gs) in
    let (tc, vc) := opt_grp_run o sc GCont (g_cont gs) in
    let (td, vd) := opt_grp_run o sc GDeferred (g_deferred gs) in
    if vp && vc then
      let (ts, qs) := seqs_run o bs b 0 (bs_seqs bs) (b_seqs (b_init bs)) in
      if exceeded bs (seqs_view bs qs) then
        (start :: tb ++ tp ++ tc ++ ts ++ td ++ [fin true], true)
      else
        let (to, vo) := opt_grp_run o sc GPost (g_post gs) in
        if vo then (start :: tb ++ tp ++ tc ++ ts ++ to ++ td ++ [fin (negb vd)], negb vd)
        else (start :: tb ++ tp ++ tc ++ ts ++ to ++ fin true :: td, true)
    else (start :: tb ++ tp ++ tc ++ fin true :: td, true).

(* blocks b, b+1, ... in order; stop after a failed one *)
Fixpoint blocks_run (o : oracle) (b : nat) (bl : list bshape) : list event * bool :=
  match bl with
  | [] => ([], false)
  | bs :: bl' =>
      let (t, f) := block_run o b bs in
      if f then (t, true)
      else let (t', f') := blocks_run o (S b) bl' in (t ++ t', f')
  end.

(* ---- the plan, up to (not including) its terminal write ---- *)
Definition plan_body (o : oracle) (sh : shape) : list event :=
  let gs := sh_groups sh in
  let start := W OPlan Running 0 false in
  let (tb, vb) := opt_grp_run o SPlan GBypass (g_bypass gs) in
  if present (g_bypass gs) && vb then start :: tb
  else
    let (tp, vp) := opt_grp_run o SPlan GPre (g_pre gs) in
    let (tc, vc) := opt_grp_run o SPlan GCont (g_cont gs) in
    let (td, _) := opt_grp_run o SPlan GDeferred (g_deferred gs) in
    if vp && vc then
      let (tbl, failed) := blocks_run o 0 (sh_blocks sh) in
      if failed then start :: tb ++ tp ++ tc ++ tbl ++ td
      else
        let (to, _) := opt_grp_run o SPlan GPost (g_post gs) in
        start :: tb ++ tp ++ tc ++ tbl ++ to ++ td
    else start :: tb ++ tp ++ tc ++ td.

(* the durable image after a trace: every write becomes the durable value of its object *)
Fixpoint img_of (tr : list event) (im : dimg) : dimg :=
  match tr with
  | [] => im
  | EvWrite o st n ok _ :: tr' => img_of tr' (iset im o {| c_st := st; c_n := n; c_ok := ok |})
  | _ :: tr' => img_of tr' im
  end.

(* what Wait returns: a full read of the durable image *)
Definition render (sh : shape) (im : dimg) (r : reason) : image :=
  IM (map (fun o => let c := iget im o in (o, OC (c_st c) (c_n c) (c_ok c) (TF false false true)))
          (all_objs sh)) r.

Definition gen (sh : shape) (o : oracle) : list event :=
  let tr := plan_body o sh in
  let im := img_of tr [] in
  let f := final sh (ist im) in
  let last := EvWrite OPlan (fst f) 0 false (snd f) in
  tr ++ [last; EvRelease (render sh (img_of [last] im) (snd f))].

(* the shapes on which an execution can complete at all: a check group that is present has an action,
   a sequence has an action (workflow validation requires both; the automaton, like the engine, cannot
   close a run of an empty group or finish an empty sequence) *)
Definition groups_ne (gs : groups) : bool :=
  forallb (fun g => match grp_get gs g with Some [] => false | _ => true end) all_grps.
Definition bshape_ne (bs : bshape) : bool :=
  groups_ne (bs_groups bs) && forallb (fun rs => negb (Nat.eqb (length rs) 0)) (bs_seqs bs).
Definition shape_ne (sh : shape) : bool :=
  groups_ne (sh_groups sh) && forallb bshape_ne (sh_blocks sh).
