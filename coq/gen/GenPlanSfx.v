(* The plan's trace cut into the suffixes that start at its positions (bypass, pre, blocks, post,
   deferred), each with the last events [rest] appended; heads of later suffixes are not taken earlier. *)
From Coq Require Import Lia.
From Coercion.Base Require Import Plan.
From Coercion.Engine Require Import Shape Event Action ChecksRun Seq Block Final PlanSM Auto Accept AutoLemmas.
From Coercion.Gen Require Import Gen GenBase GenAct GenImg GenGroup GenHost GenBlockEps GenBlockSfx GenPlanEps.

Section PlanSfx.
  Variables (sh : shape) (o : oracle).
  Hypothesis Hne : shape_ne sh = true.
  Notation gs := (sh_groups sh).

  Definition Rp (g : grp) : list event * bool := opt_grp_run o SPlan g (grp_get gs g).
  Definition blocksR : list event * bool := blocks_run o 0 (sh_blocks sh).
  Definition pbypassed : bool := present (g_bypass gs) && snd (Rp GBypass).

  Definition pTailD (rest : list event) : list event := fst (Rp GDeferred) ++ rest.
  Definition pSfxPost (rest : list event) : list event := fst (Rp GPost) ++ pTailD rest.
  Definition pAfterBlocks (failed : bool) (rest : list event) : list event :=
    if failed then pTailD rest else pSfxPost rest.
  Definition pSfxBlocks (rest : list event) : list event := fst blocksR ++ pAfterBlocks (snd blocksR) rest.
  Definition pSfxPre (rest : list event) : list event :=
    fst (Rp GPre) ++ fst (Rp GCont) ++ (if snd (Rp GPre) && snd (Rp GCont) then pSfxBlocks rest else pTailD rest).
  Definition pSfxByp (rest : list event) : list event :=
    fst (Rp GBypass) ++ (if pbypassed then rest else pSfxPre rest).

  Lemma pTailD_app rest : pTailD rest = pTailD [] ++ rest.
  Proof. unfold pTailD. now rewrite app_nil_r. Qed.
  Lemma pSfxPost_app rest : pSfxPost rest = pSfxPost [] ++ rest.
  Proof. unfold pSfxPost. now rewrite (pTailD_app rest), app_assoc. Qed.
  Lemma pAfterBlocks_app f rest : pAfterBlocks f rest = pAfterBlocks f [] ++ rest.
  Proof. destruct f; [apply pTailD_app|apply pSfxPost_app]. Qed.
  Lemma pSfxBlocks_app rest : pSfxBlocks rest = pSfxBlocks [] ++ rest.
  Proof. unfold pSfxBlocks. now rewrite (pAfterBlocks_app _ rest), app_assoc. Qed.
  Lemma pSfxPre_app rest : pSfxPre rest = pSfxPre [] ++ rest.
  Proof.
    unfold pSfxPre. rewrite <- !app_assoc. do 2 f_equal.
    destruct (snd (Rp GPre) && snd (Rp GCont)); [apply pSfxBlocks_app|apply pTailD_app].
  Qed.
  Lemma pSfxByp_app rest : pSfxByp rest = pSfxByp [] ++ rest.
  Proof. unfold pSfxByp. rewrite <- app_assoc. f_equal. destruct pbypassed; [reflexivity|apply pSfxPre_app]. Qed.

  Lemma plan_body_sfx : plan_body o sh = W OPlan Running 0 false :: pSfxByp [].
  Proof.
    unfold plan_body, pSfxByp, pbypassed, pSfxPre, pSfxBlocks, pAfterBlocks, blocksR, pSfxPost, pTailD, Rp.
    cbn [grp_get].
    destruct (opt_grp_run o SPlan GBypass (g_bypass gs)) as [tb vb]. cbn [fst snd].
    destruct (present (g_bypass gs) && vb); [now rewrite app_nil_r|].
    destruct (opt_grp_run o SPlan GPre (g_pre gs)) as [tp vp]. destruct (opt_grp_run o SPlan GCont (g_cont gs)) as [tc vc].
    destruct (opt_grp_run o SPlan GDeferred (g_deferred gs)) as [td vd]. cbn [fst snd].
    destruct (vp && vc); [|now rewrite app_nil_r].
    destruct (blocks_run o 0 (sh_blocks sh)) as [tbl failed]. cbn [fst snd].
    destruct failed; [now rewrite app_nil_r|].
    destruct (opt_grp_run o SPlan GPost (g_post gs)) as [to vo]. cbn [fst]. now rewrite app_nil_r.
  Qed.

  (* ---- present plan groups are not empty ---- *)
  Lemma pgrp_ne g rs : grp_get gs g = Some rs -> rs <> [].
  Proof.
    intro H. unfold shape_ne in Hne. apply andb_true_iff in Hne as [H1 _]. unfold groups_ne in H1.
    rewrite forallb_forall in H1. specialize (H1 g). rewrite H in H1.
    destruct rs; [|congruence]. assert (In g all_grps) by (destruct g; simpl; tauto). now apply H1 in H0.
  Qed.

  (* ---- heads of later suffixes are not taken in earlier states ---- *)
  Variable rest : list event.
  Hypothesis Hrest : exists stt r tl, rest = EvWrite OPlan stt 0 false r :: tl /\ is_terminal stt = true.

  Lemma Blocked_rest s : pphase_eqb (s_ph s) PEnd = false -> Blocked sh s rest.
  Proof. intro H. destruct Hrest as (stt & r & tl & -> & Ht). apply Blocked_cons. now apply FP_term. Qed.

  Lemma Blocked_Rp s g more :
    tget (s_g s) g = g0 -> p_may_start s g = false -> Blocked sh s more -> Blocked sh s (fst (Rp g) ++ more).
  Proof.
    intros H0 Hm HB. apply Blocked_app; [|assumption]. unfold Rp, opt_grp_run.
    destruct (grp_get gs g) as [rs|] eqn:E; [right|now left].
    destruct (grp_run_head o SPlan g rs (pgrp_ne g rs E)) as [tr' ->]. apply Blocked_cons. now apply FP_mark.
  Qed.

  Lemma Blocked_pTailD s :
    tget (s_g s) GDeferred = g0 -> p_may_start s GDeferred = false -> pphase_eqb (s_ph s) PEnd = false ->
    Blocked sh s (pTailD rest).
  Proof. intros. unfold pTailD. apply Blocked_Rp; auto. now apply Blocked_rest. Qed.

  Lemma Blocked_pSfxPost s :
    tget (s_g s) GPost = g0 -> p_may_start s GPost = false ->
    tget (s_g s) GDeferred = g0 -> p_may_start s GDeferred = false -> pphase_eqb (s_ph s) PEnd = false ->
    Blocked sh s (pSfxPost rest).
  Proof. intros. unfold pSfxPost. apply Blocked_Rp; auto. now apply Blocked_pTailD. Qed.

  Lemma Blocked_pAfterBlocks s f :
    tget (s_g s) GPost = g0 -> p_may_start s GPost = false ->
    tget (s_g s) GDeferred = g0 -> p_may_start s GDeferred = false -> pphase_eqb (s_ph s) PEnd = false ->
    Blocked sh s (pAfterBlocks f rest).
  Proof. intros. destruct f; [now apply Blocked_pTailD|now apply Blocked_pSfxPost]. Qed.
End PlanSfx.
