(* Which objects a generated fragment writes, and what the durable image shows of the others. *)
From Coq Require Import Lia.
From Coercion.Base Require Import Plan.
From Coercion.Engine Require Import Shape Event Action ChecksRun Seq Block Final PlanSM Auto Accept AutoLemmas.
From Coercion.Gen Require Import Gen GenBase.

Fixpoint wobjs (tr : list event) : list obj :=
  match tr with
  | [] => []
  | EvWrite o _ _ _ _ :: tr' => o :: wobjs tr'
  | _ :: tr' => wobjs tr'
  end.

Lemma wobjs_app tr1 tr2 : wobjs (tr1 ++ tr2) = wobjs tr1 ++ wobjs tr2.
Proof. induction tr1 as [|e tr IH]; simpl; auto. destruct e; simpl; now rewrite ?IH. Qed.

Lemma iget_img_of_other tr : forall im o, ~ In o (wobjs tr) -> iget (img_of tr im) o = iget im o.
Proof.
  induction tr as [|e tr IH]; intros im o H; simpl; auto.
  destruct e; simpl in H; auto.
  rewrite IH by tauto. apply iget_iset_other. tauto.
Qed.

(* every write of the fragment is to an object satisfying P *)
Definition writes_only (P : obj -> Prop) (tr : list event) : Prop := forall x, In x (wobjs tr) -> P x.

Lemma writes_only_app P tr1 tr2 : writes_only P tr1 -> writes_only P tr2 -> writes_only P (tr1 ++ tr2).
Proof. intros H1 H2 x Hx. rewrite wobjs_app in Hx. apply in_app_or in Hx as [Hx|Hx]; auto. Qed.

Lemma writes_only_weaken (P Q : obj -> Prop) tr : (forall x, P x -> Q x) -> writes_only P tr -> writes_only Q tr.
Proof. intros H H1 x Hx. auto. Qed.

Lemma iget_img_of_only P tr im o : writes_only P tr -> ~ P o -> iget (img_of tr im) o = iget im o.
Proof. intros H N. apply iget_img_of_other. intro Hx. apply N. now apply H. Qed.

Lemma wo_attempt_events a k o : writes_only (eq (OAct a)) (attempt_events a k o).
Proof. intros x Hx. destruct o; simpl in Hx; intuition. Qed.

Lemma wo_attempts oc a r fuel : forall k, writes_only (eq (OAct a)) (fst (attempts oc a r k fuel)).
Proof.
  induction fuel as [|fuel IH]; intro k; cbn [attempts].
  - intros x [].
  - pose proof (wo_attempt_events a k (oc k)) as H0.
    destruct (after_attempt r k (oc k)); try exact H0.
    specialize (IH k0). destruct (attempts oc a r k0 fuel) as [tr res]. cbn [fst] in *.
    now apply writes_only_app.
Qed.

Lemma wo_act_run o a r : writes_only (eq (OAct a)) (fst (act_run o a r)).
Proof.
  unfold act_run. pose proof (wo_attempts (o a) a r (S r) 0) as H.
  destruct (attempts (o a) a r 0 (S r)) as [tr [v n]]. cbn [fst] in *.
  apply writes_only_app; [assumption|]. intros x Hx. simpl in Hx. intuition.
Qed.

(* the actions of one check group / of one sequence *)
Definition is_chk_act (sc : scope) (g : grp) (x : obj) : Prop := exists i, x = OAct (AChk sc g i).
Definition is_seq_act (b q : nat) (x : obj) : Prop := exists i, x = OAct (ASeq b q i).

Definition mark_ev (sc : scope) (g : grp) (i : nat) : event := W (OAct (AChk sc g i)) Running 0 false.

Lemma wo_marks_from sc g n : forall j,
  writes_only (fun x => exists i, j <= i /\ x = OAct (AChk sc g i)) (map (mark_ev sc g) (seq j n)).
Proof.
  induction n as [|n IH]; intros j x Hx; simpl in Hx; [contradiction|].
  destruct Hx as [<-|Hx]; [now exists j|]. destruct (IH (S j) x Hx) as (i & L & ->). exists i. split; [lia|reflexivity].
Qed.

Lemma wo_marks sc g n : writes_only (is_chk_act sc g) (marks sc g n).
Proof. intros x Hx. destruct (wo_marks_from sc g n 0 x Hx) as (i & _ & ->). now exists i. Qed.

Lemma wo_grp_acts o sc g rs : forall i, writes_only (is_chk_act sc g) (fst (grp_acts o sc g i rs)).
Proof.
  induction rs as [|r rs IH]; intro i; cbn [grp_acts].
  - intros x [].
  - pose proof (wo_act_run o (AChk sc g i) r) as H. specialize (IH (S i)).
    destruct (act_run o (AChk sc g i) r) as [t1 v1]. destruct (grp_acts o sc g (S i) rs) as [t2 v2].
    cbn [fst] in *. apply writes_only_app; [|assumption].
    eapply writes_only_weaken; [|exact H]. intros x <-. now exists i.
Qed.

(* the image after the marks: every action of the group is durably (Running, 0) *)
Lemma iget_marks_from sc g n : forall im j i,
  j <= i < j + n -> iget (img_of (map (mark_ev sc g) (seq j n)) im) (OAct (AChk sc g i)) = cellv Running 0 false.
Proof.
  induction n as [|n IH]; intros im j i H; [lia|]. simpl.
  destruct (Nat.eq_dec i j) as [->|N].
  - rewrite iget_img_of_only with (P := fun x => exists i, S j <= i /\ x = OAct (AChk sc g i)).
    + apply iget_iset_same.
    + apply wo_marks_from.
    + intros (i & Li & E). injection E as E. lia.
  - apply IH. lia.
Qed.

Lemma iget_marks sc g n im i :
  i < n -> iget (img_of (marks sc g n) im) (OAct (AChk sc g i)) = cellv Running 0 false.
Proof. intro L. apply iget_marks_from. lia. Qed.
