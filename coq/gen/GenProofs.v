(* gen_accepted: for every well-formed shape whose groups and sequences are not empty and for EVERY oracle,
   the automaton accepts the generated trace and ends released. *)
From Coq Require Import Lia.
From Coercion.Base Require Import Plan.
From Coercion.Engine Require Import Shape Event Action ChecksRun Seq Block Final PlanSM Auto Accept AutoLemmas.
From Coercion.Gen Require Import Gen GenBase GenEnd GenWrites GenPlan.

Lemma gen_split sh o : gen sh o = plan_body o sh ++ fin_events sh (img_of (plan_body o sh) []).
Proof. reflexivity. Qed.

Theorem gen_accepted sh o :
  shape_wf sh = true -> shape_ne sh = true ->
  exists s, run sh init (gen sh o) = Some s /\ released s = true.
Proof.
  intros Hwf Hne. rewrite gen_split.
  apply (Acc_AccR sh eps_fuel); [lia|].
  apply (plan_ok sh o Hwf Hne).
  - unfold fin_events. do 3 eexists. split; [reflexivity|]. apply final_terminal.
  - intros pt pth cb b k. apply end_Acc. now rewrite plan_body_plan_running.
Qed.

(* in the vocabulary of Accept.v *)
Corollary gen_accepts sh o : shape_wf sh = true -> shape_ne sh = true -> accepts sh (gen sh o) = true.
Proof.
  intros Hwf Hne. destruct (gen_accepted sh o Hwf Hne) as (s & Hr & Hs).
  unfold accepts. now rewrite Hwf, Hr.
Qed.


(* hence no theorem of the form "every accepted trace satisfies ..." is vacuous on such a shape *)
Corollary engine_nonvacuous sh :
  shape_wf sh = true -> shape_ne sh = true ->
  exists (tr : list event) (s : st), run sh init tr = Some s /\ released s = true.
Proof.
  intros Hwf Hne. destruct (gen_accepted sh (fun _ _ => OOk) Hwf Hne) as (s & H).
  exists (gen sh (fun _ _ => OOk)), s. exact H.
Qed.
