(* The composition works: the property monitors of C03 and C04 hold on every generated trace BY THEIR MAIN
   THEOREMS (one-line instantiations with gen_accepted) - so those theorems are not about an empty set of
   traces on any well-formed shape with non-empty groups and sequences, whatever the plugins answer. *)
From Coercion.Base Require Import Plan.
From Coercion.Engine Require Import Shape Event PlanSM Auto Accept.
From Coercion.C03 Require Import MonC03 MonC03Proofs.
From Coercion.C04 Require Import MonC04 C04Proofs.
From Coercion.Gen Require Import Gen GenProofs.

Theorem gen_mon_tol sh o :
  shape_wf sh = true -> shape_ne sh = true -> mon_tol (sh, gen sh o) = true.
Proof.
  intros Hwf Hne. destruct (gen_accepted sh o Hwf Hne) as (s & Hr & _). exact (c03_tolerance_wf sh (gen sh o) s Hwf Hr).
Qed.

Theorem gen_mon_final sh o :
  shape_wf sh = true -> shape_ne sh = true -> mon_final_core (sh, gen sh o) = true.
Proof.
  intros Hwf Hne. destruct (gen_accepted sh o Hwf Hne) as (s & Hr & Hs). exact (c04_final_released sh (gen sh o) s Hr Hs).
Qed.
