(* The trace of one block cut into the suffixes that start at its positions (bypass, pre, sequences,
   post, deferred+terminal write), each with the rest of the plan's trace appended; the head of a later
   suffix is not taken in an earlier phase. *)
From Coq Require Import Lia.
From Coercion.Base Require Import Plan.
From Coercion.Engine Require Import Shape Event Action ChecksRun Seq Block Final PlanSM Auto Accept AutoLemmas.
From Coercion.Gen Require Import Gen GenBase GenAct GenImg GenGroup GenHost GenSeq GenBlockEps GenSeqs.

Lemma grp_run_head o sc g rs : rs <> [] -> exists tr', fst (grp_run o sc g rs) = mark_ev sc g 0 :: tr'.
Proof.
  intro H. unfold grp_run. destruct (grp_acts o sc g 0 rs) as [ta v]. cbn [fst].
  destruct rs as [|r rs]; [congruence|]. unfold marks. cbn [length seq map]. eexists. reflexivity.
Qed.

Lemma seqs_run_head o bs b q todo qs :
  fst (seqs_run o bs b q todo qs) = [] \/ exists tr', fst (seqs_run o bs b q todo qs) = W (OSeq b q) Running 0 false :: tr'.
Proof.
  destruct todo as [|rs todo]; [now left|]. cbn [seqs_run].
  destruct (launch_guard bs (seqs_view bs qs) && negb (exceeded bs (seqs_view bs qs))); [|now left]. right.
  unfold seq_run. destruct (seq_acts o b q 0 rs) as [ta v].
  destruct (seqs_run o bs b (S q) todo (upd qs q (SDone v))) as [t' qs']. cbn [fst]. eexists. reflexivity.
Qed.

Definition fin_st (c : bool) : status := if c then Failed else Completed.

Section BlockSfx.
  Variables (sh : shape) (o : oracle) (bi : nat) (bs : bshape) (t : gtab) (th : thr).
  Hypothesis Hb : block_of sh bi = Some bs.
  Hypothesis Hne : bshape_ne bs = true.

  Let gs := bs_groups bs.
  Let sc := SBlock bi.
  Definition Wb (st : status) : event := W (OBlock bi) st 0 false.
  Definition Rg (g : grp) : list event * bool := opt_grp_run o sc g (grp_get gs g).
  Definition seqsR : list event * list sst := seqs_run o bs bi 0 (bs_seqs bs) (b_seqs (b_init bs)).
  Definition exc : bool := exceeded bs (seqs_view bs (snd seqsR)).
  Definition bypassed : bool := present (g_bypass gs) && snd (Rg GBypass).

  Definition tailD (c : bool) (rest : list event) : list event :=
    fst (Rg GDeferred) ++ Wb (fin_st (c || negb (snd (Rg GDeferred)))) :: rest.
  (* the cause is persisted at once, before the deferred checks *)
  Definition tailE (rest : list event) : list event := Wb Failed :: fst (Rg GDeferred) ++ rest.
  Definition sfxPost (rest : list event) : list event :=
    fst (Rg GPost) ++ (if snd (Rg GPost) then tailD false rest else tailE rest).
  Definition sfxSeqs (rest : list event) : list event := fst seqsR ++ (if exc then tailD true rest else sfxPost rest).
  Definition sfxPre (rest : list event) : list event :=
    fst (Rg GPre) ++ fst (Rg GCont) ++ (if snd (Rg GPre) && snd (Rg GCont) then sfxSeqs rest else tailE rest).
  Definition sfxByp (rest : list event) : list event :=
    fst (Rg GBypass) ++ (if bypassed then Wb Completed :: rest else sfxPre rest).

  Definition failD (c : bool) : bool := c || negb (snd (Rg GDeferred)).
  Definition failPost : bool := if snd (Rg GPost) then failD false else true.
  Definition failSeqs : bool := if exc then true else failPost.
  Definition failPre : bool := if snd (Rg GPre) && snd (Rg GCont) then failSeqs else true.
  Definition failByp : bool := if bypassed then false else failPre.

  (* the suffixes with the rest appended *)
  Lemma tailD_app c rest : tailD c rest = tailD c [] ++ rest.
  Proof. unfold tailD. now rewrite <- app_assoc. Qed.
  Lemma tailE_app rest : tailE rest = tailE [] ++ rest.
  Proof. unfold tailE. cbn [app]. now rewrite app_nil_r. Qed.
  Lemma sfxPost_app rest : sfxPost rest = sfxPost [] ++ rest.
  Proof. unfold sfxPost. rewrite <- app_assoc. f_equal. destruct (snd (Rg GPost)); [apply tailD_app|apply tailE_app]. Qed.
  Lemma sfxSeqs_app rest : sfxSeqs rest = sfxSeqs [] ++ rest.
  Proof. unfold sfxSeqs. rewrite <- app_assoc. f_equal. destruct exc; [apply tailD_app|apply sfxPost_app]. Qed.
  Lemma sfxPre_app rest : sfxPre rest = sfxPre [] ++ rest.
  Proof.
    unfold sfxPre. rewrite <- !app_assoc. do 2 f_equal.
    destruct (snd (Rg GPre) && snd (Rg GCont)); [apply sfxSeqs_app|apply tailE_app].
  Qed.
  Lemma sfxByp_app rest : sfxByp rest = sfxByp [] ++ rest.
  Proof. unfold sfxByp. rewrite <- app_assoc. f_equal. destruct bypassed; [reflexivity|apply sfxPre_app]. Qed.

  (* block_run is the Running write followed by the bypass suffix *)
  Lemma block_run_sfx : fst (block_run o bi bs) = Wb Running :: sfxByp [] /\ snd (block_run o bi bs) = failByp.
  Proof.
    unfold block_run, sfxByp, failByp, bypassed, sfxPre, failPre, sfxSeqs, failSeqs, exc, seqsR, sfxPost, failPost,
      tailD, tailE, failD, Rg, Wb. fold gs. fold sc. cbn [grp_get].
    destruct (opt_grp_run o sc GBypass (g_bypass gs)) as [tb vb]. cbn [fst snd].
    destruct (present (g_bypass gs) && vb); [split; reflexivity|].
    destruct (opt_grp_run o sc GPre (g_pre gs)) as [tp vp]. destruct (opt_grp_run o sc GCont (g_cont gs)) as [tc vc].
    destruct (opt_grp_run o sc GDeferred (g_deferred gs)) as [td vd]. cbn [fst snd].
    destruct (vp && vc); [|rewrite app_nil_r; split; reflexivity].
    destruct (seqs_run o bs bi 0 (bs_seqs bs) (b_seqs (b_init bs))) as [ts qs]. cbn [fst snd].
    destruct (exceeded bs (seqs_view bs qs)); [split; reflexivity|].
    destruct (opt_grp_run o sc GPost (g_post gs)) as [to vo]. cbn [fst snd].
    destruct vo; [split; reflexivity|]. rewrite app_nil_r. split; reflexivity.
  Qed.

  (* ---- present groups and sequences are not empty ---- *)
  Lemma grp_ne g rs : grp_get gs g = Some rs -> rs <> [].
  Proof.
    intro H. unfold bshape_ne in Hne. apply andb_true_iff in Hne as [H1 _]. unfold groups_ne in H1.
    fold gs in H1. rewrite forallb_forall in H1. specialize (H1 g). rewrite H in H1.
    destruct rs; [|congruence]. assert (In g all_grps) by (destruct g; simpl; tauto). now apply H1 in H0.
  Qed.

  Lemma seqs_ne rs : In rs (bs_seqs bs) -> rs <> [].
  Proof.
    intro H. unfold bshape_ne in Hne. apply andb_true_iff in Hne as [_ H1]. rewrite forallb_forall in H1.
    specialize (H1 rs H). destruct rs; [discriminate|congruence].
  Qed.

  (* ---- heads of later suffixes are not taken in earlier phases ---- *)
  Notation S_ := (BSt bi t th).

  Lemma Blocked_Rg g ph bt bth c qs im more :
    tget bt g = g0 -> bphase_eqb ph (gphase g) = false ->
    Blocked sh (S_ ph bt bth c qs im) more -> Blocked sh (S_ ph bt bth c qs im) (fst (Rg g) ++ more).
  Proof.
    intros H0 Hp Hm. apply Blocked_app; [|assumption]. unfold Rg, opt_grp_run.
    destruct (grp_get gs g) as [rs|] eqn:E; [right|now left].
    destruct (grp_run_head o sc g rs (grp_ne g rs E)) as [tr' ->]. apply Blocked_cons. now apply (F_mark sh bi bs).
  Qed.

  Lemma Blocked_Wb ph bt bth qs im c' more :
    bphase_eqb ph BEnd = false -> Blocked sh (S_ ph bt bth false qs im) (Wb (fin_st c') :: more).
  Proof.
    intro Hp. apply Blocked_cons. destruct c'; cbn [fin_st].
    - apply (F_failed sh bi bs); assumption.
    - apply (F_completed sh bi bs); [assumption|]. now rewrite Hp.
  Qed.

  Lemma Blocked_tailD ph bt bth qs im c' rest :
    tget bt GDeferred = g0 -> bphase_eqb ph BDeferred = false -> bphase_eqb ph BEnd = false ->
    Blocked sh (S_ ph bt bth false qs im) (tailD c' rest).
  Proof. intros H0 H1 H2. unfold tailD. apply Blocked_Rg; auto. now apply Blocked_Wb. Qed.

  Lemma Blocked_tailE ph bt bth qs im rest : Blocked sh (S_ ph bt bth false qs im) (tailE rest).
  Proof. unfold tailE. apply Blocked_cons. apply (F_failed sh bi bs); assumption. Qed.

  Lemma Blocked_sfxPost ph bt bth qs im rest :
    tget bt GPost = g0 -> tget bt GDeferred = g0 ->
    bphase_eqb ph BPost = false -> bphase_eqb ph BDeferred = false -> bphase_eqb ph BEnd = false ->
    Blocked sh (S_ ph bt bth false qs im) (sfxPost rest).
  Proof.
    intros. unfold sfxPost. apply Blocked_Rg; auto.
    destruct (snd (Rg GPost)); [now apply Blocked_tailD|apply Blocked_tailE].
  Qed.

  Lemma Blocked_sfxSeqs ph bt bth qs im rest :
    tget bt GPost = g0 -> tget bt GDeferred = g0 -> bphase_eqb ph BSeqs = false ->
    bphase_eqb ph BPost = false -> bphase_eqb ph BDeferred = false -> bphase_eqb ph BEnd = false ->
    Blocked sh (S_ ph bt bth false qs im) (sfxSeqs rest).
  Proof.
    intros. unfold sfxSeqs. apply Blocked_app.
    - unfold seqsR. destruct (seqs_run_head o bs bi 0 (bs_seqs bs) (b_seqs (b_init bs))) as [E|[tr' E]]; [now left|right].
      rewrite E. apply Blocked_cons. now apply (F_launch sh bi bs).
    - destruct exc; [now apply Blocked_tailD|now apply Blocked_sfxPost].
  Qed.

  Lemma Blocked_sfxPre ph bt bth qs im rest :
    tget bt GPre = g0 -> tget bt GCont = g0 -> tget bt GPost = g0 -> tget bt GDeferred = g0 ->
    bphase_eqb ph BPre = false -> bphase_eqb ph BSeqs = false ->
    bphase_eqb ph BPost = false -> bphase_eqb ph BDeferred = false -> bphase_eqb ph BEnd = false ->
    Blocked sh (S_ ph bt bth false qs im) (sfxPre rest).
  Proof.
    intros. unfold sfxPre. apply Blocked_Rg; auto. apply Blocked_Rg; auto.
    destruct (snd (Rg GPre) && snd (Rg GCont)); [now apply Blocked_sfxSeqs|apply Blocked_tailE].
  Qed.

  Lemma Blocked_sfxByp bt bth qs im rest :
    bt = gtab0 -> Blocked sh (S_ BEnter bt bth false qs im) (sfxByp rest).
  Proof.
    intros ->. unfold sfxByp. apply Blocked_Rg; auto.
    destruct bypassed; [now apply (Blocked_Wb BEnter gtab0 bth qs im false)|now apply Blocked_sfxPre].
  Qed.
End BlockSfx.
