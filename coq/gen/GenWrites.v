(* No fragment below the plan's own writes writes the plan object: at the end the durable image still
   shows the plan Running. *)
From Coq Require Import Lia.
From Coercion.Base Require Import Plan.
From Coercion.Engine Require Import Shape Event Action ChecksRun Seq Block Final PlanSM Auto Accept AutoLemmas.
From Coercion.Gen Require Import Gen GenBase GenImg.

Definition np (x : obj) : Prop := x <> OPlan.

Lemma wo_single (P : obj -> Prop) ob st n ok : P ob -> writes_only P [W ob st n ok].
Proof. intros H x [<-|[]]. exact H. Qed.

Lemma wo_cons (P : obj -> Prop) ob st n ok tr : P ob -> writes_only P tr -> writes_only P (W ob st n ok :: tr).
Proof. intros H H1 x [<-|Hx]; auto. Qed.

Lemma wo_nil (P : obj -> Prop) : writes_only P [].
Proof. intros x []. Qed.

Lemma wo_grp_run_gen (P : obj -> Prop) o sc g rs :
  (forall i, P (OAct (AChk sc g i))) -> P (OChecks sc g) -> writes_only P (fst (grp_run o sc g rs)).
Proof.
  intros Ha Hc. unfold grp_run. pose proof (wo_grp_acts o sc g rs 0) as H. destruct (grp_acts o sc g 0 rs) as [t v]. cbn [fst] in *.
  apply writes_only_app; [|apply writes_only_app].
  - eapply writes_only_weaken; [|apply wo_marks]. intros x [i ->]. apply Ha.
  - eapply writes_only_weaken; [|exact H]. intros x [i ->]. apply Ha.
  - now apply wo_single.
Qed.

Lemma wo_grp_run o sc g rs : writes_only np (fst (grp_run o sc g rs)).
Proof.
  unfold grp_run. pose proof (wo_grp_acts o sc g rs 0) as H. destruct (grp_acts o sc g 0 rs) as [t v]. cbn [fst] in *.
  apply writes_only_app; [|apply writes_only_app].
  - eapply writes_only_weaken; [|apply wo_marks]. intros x [i ->]. discriminate.
  - eapply writes_only_weaken; [|exact H]. intros x [i ->]. discriminate.
  - apply wo_single. discriminate.
Qed.

Lemma wo_opt_grp_run o sc g x : writes_only np (fst (opt_grp_run o sc g x)).
Proof. destruct x; [apply wo_grp_run|apply wo_nil]. Qed.

Lemma wo_seq_acts o b q rs : forall i, writes_only np (fst (seq_acts o b q i rs)).
Proof.
  induction rs as [|r rs IH]; intro i; cbn [seq_acts]; [apply wo_nil|].
  pose proof (wo_act_run o (ASeq b q i) r) as H. specialize (IH (S i)).
  destruct (act_run o (ASeq b q i) r) as [t1 v1]. cbn [fst] in H.
  assert (H1 : writes_only np (W (OAct (ASeq b q i)) Running 0 false :: t1)).
  { apply wo_cons; [discriminate|]. eapply writes_only_weaken; [|exact H]. intros x <-. discriminate. }
  destruct v1; [|exact H1]. destruct (seq_acts o b q (S i) rs) as [t2 v2]. cbn [fst] in *. now apply writes_only_app.
Qed.

Lemma wo_seq_run o b q rs : writes_only np (fst (seq_run o b q rs)).
Proof.
  unfold seq_run. pose proof (wo_seq_acts o b q rs 0) as H. destruct (seq_acts o b q 0 rs) as [t v]. cbn [fst] in *.
  apply wo_cons; [discriminate|]. apply writes_only_app; [exact H|]. apply wo_single. discriminate.
Qed.

Lemma wo_seqs_run o bs b todo : forall q qs, writes_only np (fst (seqs_run o bs b q todo qs)).
Proof.
  induction todo as [|rs todo IH]; intros q qs; cbn [seqs_run]; [apply wo_nil|].
  destruct (launch_guard bs (seqs_view bs qs) && negb (exceeded bs (seqs_view bs qs))); [|apply wo_nil].
  pose proof (wo_seq_run o b q rs) as H. destruct (seq_run o b q rs) as [t v].
  specialize (IH (S q) (upd qs q (SDone v))). destruct (seqs_run o bs b (S q) todo (upd qs q (SDone v))) as [t' qs'].
  cbn [fst] in *. now apply writes_only_app.
Qed.

Lemma wo_block_run o b bs : writes_only np (fst (block_run o b bs)).
Proof.
  unfold block_run.
  pose proof (wo_opt_grp_run o (SBlock b) GBypass (g_bypass (bs_groups bs))) as Hb.
  pose proof (wo_opt_grp_run o (SBlock b) GPre (g_pre (bs_groups bs))) as Hp.
  pose proof (wo_opt_grp_run o (SBlock b) GCont (g_cont (bs_groups bs))) as Hc.
  pose proof (wo_opt_grp_run o (SBlock b) GDeferred (g_deferred (bs_groups bs))) as Hd.
  pose proof (wo_opt_grp_run o (SBlock b) GPost (g_post (bs_groups bs))) as Ho.
  pose proof (wo_seqs_run o bs b (bs_seqs bs) 0 (b_seqs (b_init bs))) as Hs.
  destruct (opt_grp_run o (SBlock b) GBypass (g_bypass (bs_groups bs))) as [tb vb].
  destruct (opt_grp_run o (SBlock b) GPre (g_pre (bs_groups bs))) as [tp vp].
  destruct (opt_grp_run o (SBlock b) GCont (g_cont (bs_groups bs))) as [tc vc].
  destruct (opt_grp_run o (SBlock b) GDeferred (g_deferred (bs_groups bs))) as [td vd].
  destruct (opt_grp_run o (SBlock b) GPost (g_post (bs_groups bs))) as [to vo].
  destruct (seqs_run o bs b 0 (bs_seqs bs) (b_seqs (b_init bs))) as [ts qs]. cbn [fst] in *.
  assert (Hw : forall st, writes_only np [W (OBlock b) st 0 false]) by (intro; apply wo_single; discriminate).
  assert (Hcons : forall st tr, writes_only np tr -> writes_only np (W (OBlock b) st 0 false :: tr))
    by (intros; apply wo_cons; [discriminate|assumption]).
  destruct (present (g_bypass (bs_groups bs)) && vb);
    [|destruct (vp && vc); [destruct (exceeded bs (seqs_view bs qs)); [|destruct vo]|]];
    cbn [fst]; (apply wo_cons; [discriminate|]); repeat (apply writes_only_app; auto).
Qed.

Lemma wo_blocks_run o bl : forall b, writes_only np (fst (blocks_run o b bl)).
Proof.
  induction bl as [|bs bl IH]; intro b; cbn [blocks_run]; [apply wo_nil|].
  pose proof (wo_block_run o b bs) as H. destruct (block_run o b bs) as [t f]. cbn [fst] in H.
  destruct f; [exact H|]. specialize (IH (S b)). destruct (blocks_run o (S b) bl) as [t' f']. cbn [fst] in *.
  now apply writes_only_app.
Qed.

(* the plan's trace after its Running write *)
Lemma plan_body_writes o sh :
  exists tr, plan_body o sh = W OPlan Running 0 false :: tr /\ writes_only np tr.
Proof.
  unfold plan_body.
  pose proof (wo_opt_grp_run o SPlan GBypass (g_bypass (sh_groups sh))) as Hb.
  pose proof (wo_opt_grp_run o SPlan GPre (g_pre (sh_groups sh))) as Hp.
  pose proof (wo_opt_grp_run o SPlan GCont (g_cont (sh_groups sh))) as Hc.
  pose proof (wo_opt_grp_run o SPlan GDeferred (g_deferred (sh_groups sh))) as Hd.
  pose proof (wo_opt_grp_run o SPlan GPost (g_post (sh_groups sh))) as Ho.
  pose proof (wo_blocks_run o (sh_blocks sh) 0) as Hs.
  destruct (opt_grp_run o SPlan GBypass (g_bypass (sh_groups sh))) as [tb vb].
  destruct (opt_grp_run o SPlan GPre (g_pre (sh_groups sh))) as [tp vp].
  destruct (opt_grp_run o SPlan GCont (g_cont (sh_groups sh))) as [tc vc].
  destruct (opt_grp_run o SPlan GDeferred (g_deferred (sh_groups sh))) as [td vd].
  destruct (opt_grp_run o SPlan GPost (g_post (sh_groups sh))) as [to vo].
  destruct (blocks_run o 0 (sh_blocks sh)) as [tbl failed]. cbn [fst] in *.
  destruct (present (g_bypass (sh_groups sh)) && vb); [|destruct (vp && vc); [destruct failed|]];
    eexists; (split; [reflexivity|]); repeat (apply writes_only_app; auto); auto.
Qed.

Lemma plan_body_plan_running o sh : ist (img_of (plan_body o sh) []) OPlan = Running.
Proof.
  destruct (plan_body_writes o sh) as (tr & -> & Hw). cbn [img_of W]. unfold ist.
  rewrite (iget_img_of_only np tr _ OPlan Hw); [now rewrite iget_iset_same|]. intro H. now apply H.
Qed.
