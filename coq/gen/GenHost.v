(* The two hosts of a check group: the plan and the current block.  For each, the handlers of the
   automaton act on the explicit state [mk x im late] (group in state x) through the g_* functions:
   exactly the hypotheses of GenGroup.GroupRun. *)
From Coq Require Import Lia.
From Coercion.Base Require Import Plan.
From Coercion.Engine Require Import Shape Event Action ChecksRun Seq Block Final PlanSM Auto Accept AutoLemmas.
From Coercion.Gen Require Import Gen GenBase GenAct GenImg GenGroup.

Lemma tget_tset t g x : tget (tset t g x) g = x.
Proof. now destruct g. Qed.
Lemma tset_tset t g x y : tset (tset t g x) g y = tset t g y.
Proof. now destruct g. Qed.
Lemma tget_tset_other t g g' x : g <> g' -> tget (tset t g x) g' = tget t g'.
Proof. destruct g, g'; simpl; congruence. Qed.
Lemma tset_tget t g : tset t g (tget t g) = t.
Proof. now destruct t, g. Qed.

Lemma remove_one_head a l : remove_one a (a :: l) = Some l.
Proof. simpl. now rewrite aref_eqb_refl. Qed.

Ltac crunch_handle :=
  unfold handle, released, h_write, h_start, h_end, h_end_sub, mkst; cbn [s_ph s_late s_img s_g s_b s_cb owes existsb].

(* ---------------------------------------------------------------- the plan *)
Section PlanHost.
  Variables (sh : shape) (g : grp) (rs : list nat).
  Variables (ph : pphase) (t : gtab) (th : thr) (cb : nat) (b : bst).
  Hypothesis Hg : grp_get (sh_groups sh) g = Some rs.
  Hypothesis Hph : pphase_eqb ph PReleased = false.

  Definition mkP (x : gst) (im : dimg) (late : list aref) : st := mkst ph (tset t g x) th im cb b late.

  Lemma P_in_shape i : i < length rs -> obj_in_shape sh (OAct (AChk SPlan g i)) = true.
  Proof.
    intro L. unfold obj_in_shape, retries_of, group_of. cbn [scope_groups]. rewrite Hg.
    destruct (nth_error rs i) eqn:E; [reflexivity|]. apply nth_error_None in E. lia.
  Qed.

  Lemma P_grp_in_shape : obj_in_shape sh (OChecks SPlan g) = true.
  Proof. unfold obj_in_shape, group_of. cbn [scope_groups]. now rewrite Hg. Qed.

  Lemma P_open im :
    0 < length rs -> p_may_start (mkP g0 im []) g = true ->
    handle sh (mkP g0 im []) (mark_ev SPlan g 0)
    = Some (mkP (GRun 0 (upd (repeat AIdle (length rs)) 0 (ARun 0))) (iset im (OAct (AChk SPlan g 0)) (cellv Running 0 false)) []).
  Proof.
    intros L May. unfold mark_ev, W. unfold mkP in *. crunch_handle. rewrite Hph, (P_in_shape 0 L). cbn [negb].
    unfold h_write_obj, h_write_act, p_chk_mark. rewrite Hg. fold (mkst ph (tset t g g0) th im cb b []). rewrite May.
    unfold mkst. cbn [s_g s_img]. rewrite tget_tset. unfold g_mark, g0. cbn [g_act andb].
    apply Nat.ltb_lt in L. rewrite L. cbn [option_map]. unfold put, with_g, with_img. cbn. now rewrite tset_tset.
  Qed.

  Lemma P_mark ru acts im i :
    i < length rs -> nth_error acts i = Some AIdle ->
    handle sh (mkP (GRun ru acts) im []) (mark_ev SPlan g i)
    = Some (mkP (GRun ru (upd acts i (ARun 0))) (iset im (OAct (AChk SPlan g i)) (cellv Running 0 false)) []).
  Proof.
    intros L E. unfold mark_ev, W, mkP. crunch_handle. rewrite Hph, (P_in_shape i L). cbn [negb].
    unfold h_write_obj, h_write_act, p_chk_mark. rewrite Hg. cbn [s_g s_img]. rewrite tget_tset.
    unfold g_mark. cbn [g_act]. rewrite E. cbn [a_mark g_set option_map].
    unfold put, with_g, with_img. cbn. now rewrite tset_tset.
  Qed.

  Lemma P_start x x' im i :
    g_start x i (iget im (OAct (AChk SPlan g i))) = Some x' ->
    handle sh (mkP x im []) (EvStart (AChk SPlan g i)) = Some (mkP x' im []).
  Proof.
    intro H. unfold mkP. crunch_handle. rewrite Hph. unfold p_chk_start. cbn [s_g s_img]. rewrite tget_tset, H.
    unfold with_g. cbn. now rewrite tset_tset.
  Qed.

  Lemma P_end x x' im i oc :
    g_end x i oc = Some x' -> handle sh (mkP x im []) (EvEnd (AChk SPlan g i) oc) = Some (mkP x' im []).
  Proof.
    intro H. unfold mkP. crunch_handle. unfold p_chk_end. cbn [s_g]. rewrite tget_tset, H.
    unfold with_g. cbn. now rewrite tset_tset.
  Qed.

  Lemma P_att x x' im i m ok owed :
    g_attempt rs x i (S m) ok = Some (x', owed) ->
    handle sh (mkP x im []) (W (OAct (AChk SPlan g i)) Running (S m) ok)
    = Some (mkP x' (iset im (OAct (AChk SPlan g i)) (cellv Running (S m) ok)) (if owed then [AChk SPlan g i] else [])).
  Proof.
    intro H. assert (L : i < length rs).
    { unfold g_attempt in H. destruct (g_act x i); [|discriminate]. destruct (nth_error rs i) eqn:E; [|discriminate].
      apply nth_error_Some. congruence. }
    unfold W, mkP. crunch_handle. rewrite Hph, (P_in_shape i L). cbn [negb].
    unfold h_write_obj, h_write_act, p_chk_attempt. rewrite Hg. cbn [s_g]. rewrite tget_tset, H.
    unfold owe, put, with_g, with_img, with_late. destruct owed; cbn; now rewrite tset_tset.
  Qed.

  Lemma P_late x im i :
    g_end x i OOverrun = None ->
    handle sh (mkP x im [AChk SPlan g i]) (EvEnd (AChk SPlan g i) OOverrun) = Some (mkP x im []).
  Proof.
    intro H. unfold mkP. crunch_handle. unfold p_chk_end. cbn [s_g]. rewrite tget_tset, H.
    cbn [s_late]. now rewrite remove_one_head.
  Qed.

  Lemma P_fin x x' im i v n :
    i < length rs -> g_final x i (verdict_status v) n v = Some x' ->
    handle sh (mkP x im []) (W (OAct (AChk SPlan g i)) (verdict_status v) n v)
    = Some (mkP x' (iset im (OAct (AChk SPlan g i)) (cellv (verdict_status v) n v)) []).
  Proof.
    intros L H. unfold W, mkP. crunch_handle. rewrite Hph, (P_in_shape i L). cbn [negb].
    unfold h_write_obj, h_write_act.
    assert (E : p_chk_final (mkst ph (tset t g x) th im cb b []) g i (verdict_status v) n v
                = Some (mkst ph (tset t g x') th im cb b [])).
    { unfold p_chk_final, mkst. cbn [s_g]. rewrite tget_tset, H. unfold with_g. cbn. now rewrite tset_tset. }
    unfold mkst in E. destruct v; cbn [verdict_status] in *; rewrite E; reflexivity.
  Qed.

  Lemma P_verd x x' im v :
    g_verdict x (verdict_status v) = Some x' ->
    handle sh (mkP x im []) (W (OChecks SPlan g) (verdict_status v) 0 false)
    = Some (mkP x' (iset im (OChecks SPlan g) (cellv (verdict_status v) 0 false)) []).
  Proof.
    intro H. unfold W, mkP. crunch_handle. rewrite Hph, P_grp_in_shape. cbn [negb].
    unfold h_write_obj.
    assert (E : p_chk_verdict (mkst ph (tset t g x) th im cb b []) g (verdict_status v)
                = Some (mkst ph (tset t g x') th im cb b [])).
    { unfold p_chk_verdict, mkst. cbn [s_g]. rewrite tget_tset, H. unfold with_g. cbn. now rewrite tset_tset. }
    unfold mkst in E. destruct v; cbn [verdict_status] in *; rewrite E; reflexivity.
  Qed.
End PlanHost.

(* the run of a plan group *)
Lemma plan_grp_run sh o g rs ph t th cb b im :
  grp_get (sh_groups sh) g = Some rs -> rs <> [] -> pphase_eqb ph PReleased = false ->
  (forall im, p_may_start (mkP g ph t th cb b g0 im []) g = true) ->
  run sh (mkP g ph t th cb b g0 im []) (fst (grp_run o SPlan g rs))
  = Some (mkP g ph t th cb b (GIdle 1 (Some (snd (grp_run o SPlan g rs)))) (img_of (fst (grp_run o SPlan g rs)) im) []).
Proof.
  intros Hg Hne Hph May.
  assert (L : 0 < length rs) by (destruct rs; [congruence|simpl; lia]).
  apply grp_run_ok; auto.
  - intro im0. eapply P_open; eauto.
  - intros. eapply P_mark; eauto.
  - intros. eapply P_start; eauto.
  - intros. eapply P_end; eauto.
  - intros. eapply P_att; eauto.
  - intros. eapply P_late; eauto.
  - intros. eapply P_fin; eauto.
  - intros. eapply P_verd; eauto.
Qed.

(* ---------------------------------------------------------------- the current block *)
Section BlockHost.
  Variables (sh : shape) (bi : nat) (bs : bshape) (g : grp) (rs : list nat).
  Variables (t : gtab) (th : thr) (bph : bphase) (bt : gtab) (bth : thr) (c : bool) (qs : list sst).
  Hypothesis Hb : block_of sh bi = Some bs.
  Hypothesis Hg : grp_get (bs_groups bs) g = Some rs.

  Definition mkB (x : gst) (im : dimg) (late : list aref) : st :=
    mkst PBlocks t th im bi (mkb bph (tset bt g x) bth c qs) late.

  Lemma B_cur x im late : cur_block sh (mkB x im late) bi = Some bs.
  Proof. unfold cur_block, mkB, mkst. cbn [s_ph s_cb pphase_eqb]. now rewrite Nat.eqb_refl. Qed.

  Lemma B_in_shape i : i < length rs -> obj_in_shape sh (OAct (AChk (SBlock bi) g i)) = true.
  Proof.
    intro L. unfold obj_in_shape, retries_of, group_of. cbn [scope_groups]. rewrite Hb. cbn [option_map]. rewrite Hg.
    destruct (nth_error rs i) eqn:E; [reflexivity|]. apply nth_error_None in E. lia.
  Qed.

  Lemma B_grp_in_shape : obj_in_shape sh (OChecks (SBlock bi) g) = true.
  Proof. unfold obj_in_shape, group_of. cbn [scope_groups]. rewrite Hb. cbn [option_map]. now rewrite Hg. Qed.

  Ltac bcur := rewrite B_cur; unfold mkB, mkst, mkb; cbn [s_b s_img b_g].

  Lemma B_open im :
    0 < length rs -> b_may_start (mkb bph (tset bt g g0) bth c qs) g = true ->
    handle sh (mkB g0 im []) (mark_ev (SBlock bi) g 0)
    = Some (mkB (GRun 0 (upd (repeat AIdle (length rs)) 0 (ARun 0))) (iset im (OAct (AChk (SBlock bi) g 0)) (cellv Running 0 false)) []).
  Proof.
    intros L May. unfold mark_ev, W. unfold handle, released, h_write. rewrite (B_in_shape 0 L). cbn [negb].
    unfold h_write_obj, h_write_act. bcur. unfold b_chk_mark. rewrite Hg.
    fold (mkb bph (tset bt g g0) bth c qs). rewrite May. unfold mkb. cbn [b_g]. rewrite tget_tset.
    unfold g_mark, g0. cbn [g_act andb]. apply Nat.ltb_lt in L. rewrite L. cbn [option_map s_ph pphase_eqb].
    unfold put, with_b, with_block, with_img, b_with_g. cbn. now rewrite tset_tset.
  Qed.

  Lemma B_mark ru acts im i :
    i < length rs -> nth_error acts i = Some AIdle ->
    handle sh (mkB (GRun ru acts) im []) (mark_ev (SBlock bi) g i)
    = Some (mkB (GRun ru (upd acts i (ARun 0))) (iset im (OAct (AChk (SBlock bi) g i)) (cellv Running 0 false)) []).
  Proof.
    intros L E. unfold mark_ev, W. unfold handle, released, h_write. rewrite (B_in_shape i L). cbn [negb].
    unfold h_write_obj, h_write_act. bcur. unfold b_chk_mark. rewrite Hg. cbn [b_g]. rewrite tget_tset.
    unfold g_mark. cbn [g_act]. rewrite E. cbn [a_mark g_set option_map s_ph pphase_eqb].
    unfold put, with_b, with_block, with_img, b_with_g. cbn. now rewrite tset_tset.
  Qed.

  Lemma B_start x x' im i :
    g_start x i (iget im (OAct (AChk (SBlock bi) g i))) = Some x' ->
    handle sh (mkB x im []) (EvStart (AChk (SBlock bi) g i)) = Some (mkB x' im []).
  Proof.
    intro H. unfold handle, released, h_start. bcur. cbn [s_ph pphase_eqb s_late owes existsb].
    unfold b_chk_start. cbn [b_g]. rewrite tget_tset, H. cbn [option_map].
    unfold with_b, with_block, b_with_g. cbn. now rewrite tset_tset.
  Qed.

  Lemma B_end x x' im i oc :
    g_end x i oc = Some x' -> handle sh (mkB x im []) (EvEnd (AChk (SBlock bi) g i) oc) = Some (mkB x' im []).
  Proof.
    intro H. unfold handle, h_end, h_end_sub. bcur. unfold b_chk_end. cbn [b_g]. rewrite tget_tset, H. cbn [option_map].
    unfold with_b, with_block, b_with_g. cbn. now rewrite tset_tset.
  Qed.

  Lemma B_att x x' im i m ok owed :
    g_attempt rs x i (S m) ok = Some (x', owed) ->
    handle sh (mkB x im []) (W (OAct (AChk (SBlock bi) g i)) Running (S m) ok)
    = Some (mkB x' (iset im (OAct (AChk (SBlock bi) g i)) (cellv Running (S m) ok))
                (if owed then [AChk (SBlock bi) g i] else [])).
  Proof.
    intro H. assert (L : i < length rs).
    { unfold g_attempt in H. destruct (g_act x i); [|discriminate]. destruct (nth_error rs i) eqn:E; [|discriminate].
      apply nth_error_Some. congruence. }
    unfold W. unfold handle, released, h_write. rewrite (B_in_shape i L). cbn [negb].
    unfold h_write_obj, h_write_act. bcur. unfold b_chk_attempt. rewrite Hg. cbn [b_g]. rewrite tget_tset, H.
    cbn [s_ph pphase_eqb option_map].
    unfold owe, put, with_b, with_block, with_img, with_late, b_with_g. destruct owed; cbn; now rewrite tset_tset.
  Qed.

  Lemma B_late x im i :
    g_end x i OOverrun = None ->
    handle sh (mkB x im [AChk (SBlock bi) g i]) (EvEnd (AChk (SBlock bi) g i) OOverrun) = Some (mkB x im []).
  Proof.
    intro H. unfold handle, h_end, h_end_sub. bcur. unfold b_chk_end. cbn [b_g]. rewrite tget_tset, H. cbn [option_map s_late].
    now rewrite remove_one_head.
  Qed.

  Lemma B_fin x x' im i v n :
    i < length rs -> g_final x i (verdict_status v) n v = Some x' ->
    handle sh (mkB x im []) (W (OAct (AChk (SBlock bi) g i)) (verdict_status v) n v)
    = Some (mkB x' (iset im (OAct (AChk (SBlock bi) g i)) (cellv (verdict_status v) n v)) []).
  Proof.
    intros L H. unfold W. unfold handle, released, h_write. rewrite (B_in_shape i L). cbn [negb].
    unfold h_write_obj, h_write_act. rewrite B_cur.
    assert (E : b_chk_final (s_b (mkB x im [])) g i (verdict_status v) n v = Some (mkb bph (tset bt g x') bth c qs)).
    { unfold mkB, mkst, mkb. cbn [s_b]. unfold b_chk_final. cbn [b_g]. rewrite tget_tset, H.
      unfold b_with_g. cbn. now rewrite tset_tset. }
    destruct v; cbn [verdict_status] in *; rewrite E; reflexivity.
  Qed.

  Lemma B_verd x x' im v :
    g_verdict x (verdict_status v) = Some x' ->
    handle sh (mkB x im []) (W (OChecks (SBlock bi) g) (verdict_status v) 0 false)
    = Some (mkB x' (iset im (OChecks (SBlock bi) g) (cellv (verdict_status v) 0 false)) []).
  Proof.
    intro H. unfold W. unfold handle, released, h_write. rewrite B_grp_in_shape. cbn [negb].
    unfold h_write_obj. rewrite B_cur.
    assert (E : b_chk_verdict (s_b (mkB x im [])) g (verdict_status v) = Some (mkb bph (tset bt g x') bth c qs)).
    { unfold mkB, mkst, mkb. cbn [s_b]. unfold b_chk_verdict. cbn [b_g]. rewrite tget_tset, H.
      unfold b_with_g. cbn. now rewrite tset_tset. }
    destruct v; cbn [verdict_status] in *; rewrite E; reflexivity.
  Qed.
End BlockHost.

(* the run of a group of the current block *)
Lemma block_grp_run sh o bi bs g rs t th bph bt bth c qs im :
  block_of sh bi = Some bs -> grp_get (bs_groups bs) g = Some rs -> rs <> [] ->
  b_may_start (mkb bph (tset bt g g0) bth c qs) g = true ->
  run sh (mkB bi g t th bph bt bth c qs g0 im []) (fst (grp_run o (SBlock bi) g rs))
  = Some (mkB bi g t th bph bt bth c qs (GIdle 1 (Some (snd (grp_run o (SBlock bi) g rs))))
              (img_of (fst (grp_run o (SBlock bi) g rs)) im) []).
Proof.
  intros Hb Hg Hne May.
  assert (L : 0 < length rs) by (destruct rs; [congruence|simpl; lia]).
  apply grp_run_ok; auto.
  - intro im0. eapply B_open; eauto.
  - intros. eapply B_mark; eauto.
  - intros. eapply B_start; eauto.
  - intros. eapply B_end; eauto.
  - intros. eapply B_att; eauto.
  - intros. eapply B_late; eauto.
  - intros. eapply B_fin; eauto.
  - intros. eapply B_verd; eauto.
Qed.
