(* The plan level as explicit states: epsilon-moves, plan-level events that are not taken (yet), the
   plan's own writes and the release. *)
From Coq Require Import Lia.
From Coercion.Base Require Import Plan.
From Coercion.Engine Require Import Shape Event Action ChecksRun Seq Block Final PlanSM Auto Accept AutoLemmas.
From Coercion.Gen Require Import Gen GenBase GenAct GenImg GenGroup GenHost GenBlockEps.

(* the phase in which plan group g has its run *)
Definition pgphase (g : grp) : pphase :=
  match g with GBypass => PBypass | GPre | GCont => PPre | GPost => PPost | GDeferred => PDeferred end.

Lemma p_may_start_g0 s g :
  tget (s_g s) g = g0 -> pphase_eqb (s_ph s) (pgphase g) = false -> p_may_start s g = false.
Proof.
  intros H Hp. unfold p_may_start. rewrite H. destruct g; cbn [pgphase] in Hp; rewrite Hp; cbn [andb g_runs g0]; try reflexivity.
  change (t_cont (s_g s)) with (tget (s_g s) GCont). rewrite H. cbn. now rewrite andb_false_r.
Qed.

Lemma p_may_start_live s g :
  tget (s_g s) g = g0 -> g = GPost \/ g = GDeferred -> thr_live (s_thr s) = true -> p_may_start s g = false.
Proof. intros H [->| ->] Hl; unfold p_may_start; rewrite Hl; cbn [negb andb]; now rewrite andb_false_r. Qed.

Section PlanEps.
  Variable sh : shape.
  Notation gs := (sh_groups sh).

  (* ---- events that are not taken ---- *)
  Lemma FP_mark s g i :
    tget (s_g s) g = g0 -> p_may_start s g = false -> handle sh s (mark_ev SPlan g i) = None.
  Proof.
    intros H0 Hm. unfold mark_ev, W, handle. destruct (released s); [reflexivity|]. unfold h_write.
    destruct (obj_in_shape sh (OAct (AChk SPlan g i))); [|reflexivity]. cbn [negb].
    unfold h_write_obj, h_write_act, p_chk_mark. destruct (grp_get gs g); [|reflexivity].
    rewrite Hm, H0. reflexivity.
  Qed.

  Lemma FP_term s stt r :
    is_terminal stt = true -> pphase_eqb (s_ph s) PEnd = false -> handle sh s (EvWrite OPlan stt 0 false r) = None.
  Proof.
    intros Ht Hp. unfold handle. destruct (released s); [reflexivity|]. unfold h_write. cbn [obj_in_shape negb].
    unfold h_write_obj, p_write. destruct (s_ph s); try reflexivity; try discriminate.
    destruct stt; try discriminate; reflexivity.
  Qed.

  Lemma FP_block_running s b :
    cur_block sh s b = None -> handle sh s (W (OBlock b) Running 0 false) = None.
  Proof.
    intro H. unfold W, handle. destruct (released s); [reflexivity|]. unfold h_write.
    destruct (obj_in_shape sh (OBlock b)); [|reflexivity]. cbn [negb]. unfold h_write_obj. now rewrite H.
  Qed.

  Lemma FP_block_running_ph s b :
    pphase_eqb (s_ph s) PBlocks = true -> s_cb s = b -> bphase_eqb (b_ph (s_b s)) BEnter = false ->
    handle sh s (W (OBlock b) Running 0 false) = None.
  Proof.
    intros H1 H2 H3. unfold W, handle. destruct (released s); [reflexivity|]. unfold h_write.
    destruct (obj_in_shape sh (OBlock b)); [|reflexivity]. cbn [negb]. unfold h_write_obj.
    destruct (cur_block sh s b); [|reflexivity]. unfold b_write. now rewrite H3.
  Qed.

  (* ---- epsilon-moves ---- *)
  Notation P_ := (fun ph pt pth im cb b => mkst ph pt pth im cb b []).

  Lemma EP_start pt pth im cb b :
    ist im OPlan = Running -> eps sh (P_ PStart pt pth im cb b) = Some (P_ PBypass pt pth im cb b).
  Proof. intro H. unfold eps, p_eps, mkst. cbn [s_ph s_img]. now rewrite H. Qed.

  Lemma EP_bypass_absent pt pth im cb b :
    g_bypass gs = None -> eps sh (P_ PBypass pt pth im cb b) = Some (P_ PPre pt pth im cb b).
  Proof. intro H. unfold eps, p_eps, mkst. cbn [s_ph]. now rewrite H. Qed.

  Lemma EP_bypass_done pt pth im cb b rs v :
    g_bypass gs = Some rs -> t_bypass pt = GIdle 1 (Some v) ->
    eps sh (P_ PBypass pt pth im cb b) = Some (P_ (if v then PEnd else PPre) pt pth im cb b).
  Proof.
    intros H Hc. unfold eps, p_eps, mkst. cbn [s_ph s_g]. rewrite H, Hc. cbn [once_done g_settle].
    unfold with_ph, with_g. cbn. rewrite <- Hc. destruct pt, v; reflexivity.
  Qed.

  Lemma EP_pre pt pth im cb b v1 v2 :
    closed_as (g_pre gs) (t_pre pt) v1 -> closed_as (g_cont gs) (t_cont pt) v2 ->
    eps sh (P_ PPre pt pth im cb b)
    = Some (if v1 && v2
            then mkst PBlocks pt (if present (g_cont gs) then TLive else TNone) im 0
                      (match block_of sh 0 with Some bs => b_init bs | None => b_none end) []
            else P_ PDeferred pt pth im cb b).
  Proof.
    intros H1 H2. unfold eps, p_eps, mkst. cbn [s_ph s_g].
    rewrite (once_done_closed _ _ _ _ H1), (once_done_closed _ _ _ _ H2).
    change (t_pre pt) with (tget pt GPre). rewrite tset_tget.
    change (t_cont pt) with (tget pt GCont). rewrite tset_tget.
    destruct (v1 && v2); [|reflexivity]. unfold enter_block. destruct (block_of sh 0); reflexivity.
  Qed.

  Lemma EP_blocks_none pt pth im cb b :
    block_of sh cb = None -> eps sh (P_ PBlocks pt pth im cb b) = Some (P_ PPost pt pth im cb b).
  Proof. intro H. unfold eps, p_eps, mkst. cbn [s_ph s_cb]. now rewrite H. Qed.

  Lemma EP_post_drain pt im cb b :
    t_cont pt = GIdle 1 (Some true) ->
    eps sh (P_ PPost pt TLive im cb b) = Some (P_ PPost pt TDrained im cb b).
  Proof.
    intro H. unfold eps, p_eps, mkst. cbn [s_ph s_thr thr_live s_g]. rewrite H. cbn [g_settle g_dead].
    unfold with_thr, with_g. cbn. rewrite <- H. destruct pt; reflexivity.
  Qed.

  Lemma EP_post pt pth im cb b v :
    thr_live pth = false -> closed_as (g_post gs) (t_post pt) v ->
    eps sh (P_ PPost pt pth im cb b) = Some (P_ PDeferred pt pth im cb b).
  Proof.
    intros Hl H. unfold eps, p_eps, mkst. cbn [s_ph s_thr s_g]. rewrite Hl, (once_done_closed _ _ _ _ H).
    unfold with_ph, with_g. cbn. destruct pt; reflexivity.
  Qed.

  Lemma EP_deferred_drain pt im cb b :
    t_cont pt = GIdle 1 (Some true) ->
    eps sh (P_ PDeferred pt TLive im cb b) = Some (P_ PDeferred pt TDrained im cb b).
  Proof.
    intro H. unfold eps, p_eps, mkst. cbn [s_ph s_thr thr_live s_g]. rewrite H. cbn [g_settle].
    unfold with_thr, with_g. cbn. rewrite <- H. destruct pt; reflexivity.
  Qed.

  Lemma EP_deferred pt pth im cb b v :
    thr_live pth = false -> closed_as (g_deferred gs) (t_deferred pt) v ->
    eps sh (P_ PDeferred pt pth im cb b) = Some (P_ PEnd pt pth im cb b).
  Proof.
    intros Hl H. unfold eps, p_eps, mkst. cbn [s_ph s_thr s_g]. rewrite Hl, (once_done_closed _ _ _ _ H).
    unfold with_ph, with_g. cbn. destruct pt; reflexivity.
  Qed.
End PlanEps.
