(* The current block as an explicit state [BSt ph bt bth c qs im]: its epsilon-moves, which block-level
   events are NOT taken in which phase (so that step's lazy search moves on), and the block writes. *)
From Coq Require Import Lia.
From Coercion.Base Require Import Plan.
From Coercion.Engine Require Import Shape Event Action ChecksRun Seq Block Final PlanSM Auto Accept AutoLemmas.
From Coercion.Gen Require Import Gen GenBase GenAct GenImg GenGroup GenHost.

(* the single run of a once-per-scope group is over with verdict v (an absent group counts as passed) *)
Definition closed_as (x : option (list nat)) (gs : gst) (v : bool) : Prop :=
  match x with None => v = true | Some _ => gs = GIdle 1 (Some v) end.

Lemma once_done_closed x gs v dst : closed_as x gs v -> once_done (present x) gs dst = Some (gs, v).
Proof. destruct x; simpl; intro H; subst; reflexivity. Qed.

(* the phase in which group g of a block has its run *)
Definition gphase (g : grp) : bphase :=
  match g with GBypass => BBypass | GPre | GCont => BPre | GPost => BPost | GDeferred => BDeferred end.

Lemma b_may_start_g0 b g : tget (b_g b) g = g0 -> b_may_start b g = bphase_eqb (b_ph b) (gphase g).
Proof.
  intro H. unfold b_may_start. rewrite H. destruct g; cbn [g_runs g0 Nat.eqb gphase]; rewrite ?andb_true_r; try reflexivity.
  cbn. now rewrite andb_false_r, orb_false_r.
Qed.

Section BlockEps.
  Variables (sh : shape) (bi : nat) (bs : bshape) (t : gtab) (th : thr).
  Hypothesis Hb : block_of sh bi = Some bs.

  Definition BSt (ph : bphase) (bt : gtab) (bth : thr) (c : bool) (qs : list sst) (im : dimg) : st :=
    mkst PBlocks t th im bi (mkb ph bt bth c qs) [].

  Lemma BSt_cur ph bt bth c qs im : cur_block sh (BSt ph bt bth c qs im) bi = Some bs.
  Proof. unfold cur_block, BSt, mkst. cbn [s_ph s_cb pphase_eqb]. now rewrite Nat.eqb_refl. Qed.

  Lemma eps_BSt ph bt bth c qs im :
    eps sh (BSt ph bt bth c qs im)
    = match b_eps bs im bi (p_visible (BSt ph bt bth c qs im)) (mkb ph bt bth c qs) with
      | Some (BStay b') => Some (mkst PBlocks t th im bi b' [])
      | Some (BFinished true) => Some (mkst PDeferred t th im bi (mkb ph bt bth c qs) [])
      | Some (BFinished false) => Some (enter_block sh (BSt ph bt bth c qs im) (S bi))
      | None => None
      end.
  Proof. unfold eps, p_eps, BSt, mkst. cbn [s_ph s_cb s_img s_b]. rewrite Hb. reflexivity. Qed.

  (* ---- epsilon-moves ---- *)
  Lemma E_enter bt bth c qs im :
    ist im (OBlock bi) = Running ->
    eps sh (BSt BEnter bt bth c qs im) = Some (BSt BBypass bt bth c qs im).
  Proof. intro H. rewrite eps_BSt. unfold b_eps, mkb. cbn [b_ph]. now rewrite H. Qed.

  Lemma E_bypass_absent bt bth c qs im :
    g_bypass (bs_groups bs) = None ->
    eps sh (BSt BBypass bt bth c qs im) = Some (BSt BPre bt bth c qs im).
  Proof. intro H. rewrite eps_BSt. unfold b_eps, mkb. cbn [b_ph]. now rewrite H. Qed.

  Lemma E_bypass_done bt bth c qs im rs v :
    g_bypass (bs_groups bs) = Some rs -> t_bypass bt = GIdle 1 (Some v) ->
    eps sh (BSt BBypass bt bth c qs im) = Some (BSt (if v then BEnd else BPre) bt bth c qs im).
  Proof.
    intros H Hc. rewrite eps_BSt. unfold b_eps, mkb. cbn [b_ph b_g]. rewrite H, Hc. cbn [once_done g_settle].
    rewrite <- Hc. change (t_bypass bt) with (tget bt GBypass). rewrite tset_tget. now destruct v.
  Qed.

  Lemma E_pre bt bth c qs im v1 v2 :
    closed_as (g_pre (bs_groups bs)) (t_pre bt) v1 -> closed_as (g_cont (bs_groups bs)) (t_cont bt) v2 ->
    eps sh (BSt BPre bt bth c qs im)
    = Some (if v1 && v2 then BSt BSeqs bt (if present (g_cont (bs_groups bs)) then TLive else TNone) c qs im
            else BSt BDeferred bt bth true qs im).
  Proof.
    intros H1 H2. rewrite eps_BSt. unfold b_eps, mkb. cbn [b_ph b_g].
    rewrite (once_done_closed _ _ _ _ H1), (once_done_closed _ _ _ _ H2).
    change (t_pre bt) with (tget bt GPre). rewrite tset_tget.
    change (t_cont bt) with (tget bt GCont). rewrite tset_tget. now destruct (v1 && v2).
  Qed.

  Lemma E_seqs_exceeded bt bth c qs im :
    inflight (mkb BSeqs bt bth c qs) = 0 -> exceeded bs (mkb BSeqs bt bth c qs) = true ->
    eps sh (BSt BSeqs bt bth c qs im) = Some (BSt BDeferred bt bth true qs im).
  Proof. intros H1 H2. rewrite eps_BSt. unfold b_eps. cbn [b_ph mkb]. fold (mkb BSeqs bt bth c qs). now rewrite H1, H2. Qed.

  Lemma E_seqs_done bt bth c qs im :
    inflight (mkb BSeqs bt bth c qs) = 0 -> exceeded bs (mkb BSeqs bt bth c qs) = false ->
    all_started (mkb BSeqs bt bth c qs) = true ->
    eps sh (BSt BSeqs bt bth c qs im) = Some (BSt BPost bt bth c qs im).
  Proof.
    intros H1 H2 H3. rewrite eps_BSt. unfold b_eps. cbn [b_ph mkb]. fold (mkb BSeqs bt bth c qs). now rewrite H1, H2, H3.
  Qed.

  Lemma E_post bt bth c qs im v :
    closed_as (g_post (bs_groups bs)) (t_post bt) v ->
    eps sh (BSt BPost bt bth c qs im) = Some (BSt BDeferred bt bth (c || negb v) qs im).
  Proof.
    intro H. rewrite eps_BSt. unfold b_eps, mkb. cbn [b_ph b_g]. rewrite (once_done_closed _ _ _ _ H).
    change (t_post bt) with (tget bt GPost). now rewrite tset_tget.
  Qed.

  Lemma E_deferred bt bth c qs im v :
    closed_as (g_deferred (bs_groups bs)) (t_deferred bt) v ->
    eps sh (BSt BDeferred bt bth c qs im) = Some (BSt BEnd bt bth (c || negb v) qs im).
  Proof.
    intro H. rewrite eps_BSt. unfold b_eps, mkb. cbn [b_ph b_g]. rewrite (once_done_closed _ _ _ _ H).
    change (t_deferred bt) with (tget bt GDeferred). now rewrite tset_tget.
  Qed.

  Lemma E_drain bt c qs im :
    t_cont bt = GIdle 1 (Some true) ->
    eps sh (BSt BEnd bt TLive c qs im) = Some (BSt BEnd bt TDrained c qs im).
  Proof.
    intro H. rewrite eps_BSt. unfold b_eps, mkb. cbn [b_ph b_g b_thr thr_live]. rewrite H. cbn [g_settle g_dead].
    rewrite <- H. change (t_cont bt) with (tget bt GCont). rewrite tset_tget.
    unfold b_with_cause, b_with_thr, b_with_g. cbn. now rewrite orb_false_r.
  Qed.

  Lemma E_finish_failed bt bth qs im :
    thr_live bth = false -> ist im (OBlock bi) = Failed ->
    eps sh (BSt BEnd bt bth true qs im) = Some (mkst PDeferred t th im bi (mkb BEnd bt bth true qs) []).
  Proof. intros H1 H2. rewrite eps_BSt. unfold b_eps, mkb. cbn [b_ph b_thr b_cause]. now rewrite H1, H2. Qed.

  Lemma E_finish_ok bt bth qs im :
    thr_live bth = false -> ist im (OBlock bi) = Completed ->
    eps sh (BSt BEnd bt bth false qs im) = Some (enter_block sh (BSt BEnd bt bth false qs im) (S bi)).
  Proof. intros H1 H2. rewrite eps_BSt. unfold b_eps, mkb. cbn [b_ph b_thr b_cause]. now rewrite H1, H2. Qed.

  (* ---- block-level events that are not taken (yet) ---- *)
  Lemma F_mark ph bt bth c qs im g i :
    tget bt g = g0 -> bphase_eqb ph (gphase g) = false ->
    handle sh (BSt ph bt bth c qs im) (mark_ev (SBlock bi) g i) = None.
  Proof.
    intros H0 Hp. unfold mark_ev, W. unfold handle, released, h_write. cbn [BSt mkst s_ph pphase_eqb].
    destruct (obj_in_shape sh (OAct (AChk (SBlock bi) g i))); [|reflexivity]. cbn [negb].
    unfold h_write_obj, h_write_act. fold (mkst PBlocks t th im bi (mkb ph bt bth c qs) []). fold (BSt ph bt bth c qs im).
    rewrite BSt_cur. unfold BSt, mkst. cbn [s_b s_img]. unfold b_chk_mark.
    destruct (grp_get (bs_groups bs) g); [|reflexivity].
    rewrite b_may_start_g0 by exact H0. cbn [mkb b_ph b_g]. rewrite Hp, H0. reflexivity.
  Qed.

  Lemma F_launch ph bt bth c qs im q :
    bphase_eqb ph BSeqs = false ->
    handle sh (BSt ph bt bth c qs im) (W (OSeq bi q) Running 0 false) = None.
  Proof.
    intro Hp. unfold W. unfold handle, released, h_write. cbn [BSt mkst s_ph pphase_eqb].
    destruct (obj_in_shape sh (OSeq bi q)); [|reflexivity]. cbn [negb].
    unfold h_write_obj. fold (mkst PBlocks t th im bi (mkb ph bt bth c qs) []). fold (BSt ph bt bth c qs im).
    rewrite BSt_cur. unfold BSt, mkst. cbn [s_b]. unfold b_seq_launch. cbn [mkb b_ph]. now rewrite Hp.
  Qed.

  Lemma F_completed ph bt bth c qs im :
    bphase_eqb ph BEnd && negb c && negb (thr_live bth) = false ->
    handle sh (BSt ph bt bth c qs im) (W (OBlock bi) Completed 0 false) = None.
  Proof.
    intro Hp. unfold W. unfold handle, released, h_write. cbn [BSt mkst s_ph pphase_eqb].
    destruct (obj_in_shape sh (OBlock bi)); [|reflexivity]. cbn [negb].
    unfold h_write_obj. fold (mkst PBlocks t th im bi (mkb ph bt bth c qs) []). fold (BSt ph bt bth c qs im).
    rewrite BSt_cur. unfold BSt, mkst. cbn [s_b]. unfold b_write. cbn [mkb b_ph b_cause b_thr]. now rewrite Hp.
  Qed.

  Lemma F_failed ph bt bth qs im :
    handle sh (BSt ph bt bth false qs im) (W (OBlock bi) Failed 0 false) = None.
  Proof.
    unfold W. unfold handle, released, h_write. cbn [BSt mkst s_ph pphase_eqb].
    destruct (obj_in_shape sh (OBlock bi)); [|reflexivity]. cbn [negb].
    unfold h_write_obj. fold (mkst PBlocks t th im bi (mkb ph bt bth false qs) []). fold (BSt ph bt bth false qs im).
    rewrite BSt_cur. reflexivity.
  Qed.

  (* ---- the block's own writes ---- *)
  Lemma B_obj_in_shape : obj_in_shape sh (OBlock bi) = true.
  Proof. unfold obj_in_shape. now rewrite Hb. Qed.

  Lemma H_running bt bth c qs im :
    handle sh (BSt BEnter bt bth c qs im) (W (OBlock bi) Running 0 false)
    = Some (BSt BEnter bt bth c qs (iset im (OBlock bi) (cellv Running 0 false))).
  Proof.
    unfold W. unfold handle, released, h_write. rewrite B_obj_in_shape. cbn [BSt mkst s_ph pphase_eqb negb].
    unfold h_write_obj. fold (mkst PBlocks t th im bi (mkb BEnter bt bth c qs) []). fold (BSt BEnter bt bth c qs im).
    rewrite BSt_cur. reflexivity.
  Qed.

  Lemma H_failed ph bt bth qs im :
    handle sh (BSt ph bt bth true qs im) (W (OBlock bi) Failed 0 false)
    = Some (BSt ph bt bth true qs (iset im (OBlock bi) (cellv Failed 0 false))).
  Proof.
    unfold W. unfold handle, released, h_write. rewrite B_obj_in_shape. cbn [BSt mkst s_ph pphase_eqb negb].
    unfold h_write_obj. fold (mkst PBlocks t th im bi (mkb ph bt bth true qs) []). fold (BSt ph bt bth true qs im).
    rewrite BSt_cur. reflexivity.
  Qed.

  Lemma H_completed bt bth qs im :
    thr_live bth = false ->
    handle sh (BSt BEnd bt bth false qs im) (W (OBlock bi) Completed 0 false)
    = Some (BSt BEnd bt bth false qs (iset im (OBlock bi) (cellv Completed 0 false))).
  Proof.
    intro Ht. unfold W. unfold handle, released, h_write. rewrite B_obj_in_shape. cbn [BSt mkst s_ph pphase_eqb negb].
    unfold h_write_obj. fold (mkst PBlocks t th im bi (mkb BEnd bt bth false qs) []). fold (BSt BEnd bt bth false qs im).
    rewrite BSt_cur. unfold BSt, mkst. cbn [s_b]. unfold b_write. cbn [mkb b_ph b_cause b_thr bphase_eqb negb andb].
    rewrite Ht. reflexivity.
  Qed.
End BlockEps.
