(* Correspondence of the GENERATOR with the real engine: on a plan the engine executes sequentially
   (no continuous groups, concurrency 1 wherever a block has several sequences) the engine's logged trace,
   with its redundant writes removed, must be the generator's trace for the same shape and the oracle
   given by the plugins' scripts.  Checker only (no proofs); evaluated by vm_compute on real traces.

   norm        drops what carries no information: writes equal to the durable value (the engine re-writes
               objects), polls, and the End of an invocation the engine had timed out (it comes whenever
               the plugin returns; the generator puts it right after the attempt write).
   gen_corr    [0]            the traces agree
               [1; i]         (every group has one action: the execution is totally ordered) the normalised
                              traces differ at position i
               [2; i]         the writes of plan / groups / blocks / sequences and the release differ at i
               [3; k; i]      the events of the k-th action of the shape differ at position i
               [4]            the plan is not sequential (not comparable) *)
From Coercion.Base Require Import Plan.
From Coercion.Engine Require Import Shape Event Action ChecksRun Seq Block Final PlanSM Auto Accept.
From Coercion.Gen Require Import Gen.

Definition gcase := (shape * list event * oracle)%type.

Fixpoint norm_from (im : dimg) (r : reason) (tr : list event) : list event :=
  match tr with
  | [] => []
  | EvWrite o st n ok rr :: tr' =>
      let c := {| c_st := st; c_n := n; c_ok := ok |} in
      match o with
      | OPlan =>
          if cell_eqb (iget im o) c && reason_eqb rr r then norm_from im r tr'
          else EvWrite o st n ok rr :: norm_from (iset im o c) rr tr'
      | _ =>
          if cell_eqb (iget im o) c then norm_from im r tr'
          else EvWrite o st n ok FRUnknown :: norm_from (iset im o c) r tr'
      end
  | EvRead _ :: tr' => norm_from im r tr'
  | EvEnd _ OOverrun :: tr' => norm_from im r tr'
  | e :: tr' => e :: norm_from im r tr'
  end.
Definition norm (tr : list event) : list event := norm_from [] FRUnknown tr.

Definition outcome_eqb (a b : outcome) : bool :=
  match a, b with
  | OOk, OOk | OErr, OErr | OPerm, OPerm | OWrongType, OWrongType | OOverrun, OOverrun => true
  | _, _ => false
  end.

Definition ev_eqb (sh : shape) (a b : event) : bool :=
  match a, b with
  | EvStart x, EvStart y => aref_eqb x y
  | EvEnd x o, EvEnd y p => aref_eqb x y && outcome_eqb o p
  | EvWrite o st n ok r, EvWrite o' st' n' ok' r' =>
      obj_eqb o o' && status_eqb st st' && Nat.eqb n n' && Bool.eqb ok ok' && reason_eqb r r'
  | EvRead x, EvRead y => images_agree (all_objs sh) x y
  | EvRelease x, EvRelease y => images_agree (all_objs sh) x y
  | _, _ => false
  end.

(* index of the first difference; None = equal *)
Fixpoint first_diff (sh : shape) (i : nat) (a b : list event) : option nat :=
  match a, b with
  | [], [] => None
  | x :: a', y :: b' => if ev_eqb sh x y then first_diff sh (S i) a' b' else Some i
  | _, _ => Some i
  end.

Definition is_ctl (e : event) : bool :=
  match e with
  | EvWrite (OAct _) _ _ _ _ => false
  | EvWrite _ _ _ _ _ | EvRelease _ => true
  | _ => false
  end.

Definition about (a : aref) (e : event) : bool :=
  match e with
  | EvStart x | EvEnd x _ | EvWrite (OAct x) _ _ _ _ => aref_eqb a x
  | _ => false
  end.

Definition actions_of (sh : shape) : list aref :=
  flat_map (fun o => match o with OAct a => [a] | _ => [] end) (all_objs sh).

(* every present group has at most one action: nothing in the plan runs in parallel *)
Definition single_groups (gs : groups) : bool :=
  forallb (fun g => match grp_get gs g with Some rs => length rs <=? 1 | None => true end) all_grps.
Definition strict (sh : shape) : bool :=
  single_groups (sh_groups sh) && forallb (fun bs => single_groups (bs_groups bs)) (sh_blocks sh).

(* the engine executes the plan sequentially (up to the parallel actions of one check group) *)
Definition no_cont (gs : groups) : bool := match g_cont gs with None => true | Some _ => false end.
Definition sequential (sh : shape) : bool :=
  no_cont (sh_groups sh) &&
  forallb (fun bs => no_cont (bs_groups bs) && (Nat.eqb (bs_conc bs) 1 || (length (bs_seqs bs) <=? 1))) (sh_blocks sh).

Fixpoint first_action_diff (sh : shape) (k : nat) (acts : list aref) (r g : list event) : list nat :=
  match acts with
  | [] => [0]
  | a :: acts' =>
      match first_diff sh 0 (filter (about a) r) (filter (about a) g) with
      | Some i => [3; k; i]
      | None => first_action_diff sh (S k) acts' r g
      end
  end.

Definition gen_corr (c : gcase) : list nat :=
  let '(sh, tr, o) := c in
  if negb (sequential sh && shape_wf sh && shape_ne sh) then [4] else
  let r := norm tr in
  let g := norm (gen sh o) in
  match first_diff sh 0 (filter is_ctl r) (filter is_ctl g) with
  | Some i => [2; i]
  | None =>
      match first_action_diff sh 0 (actions_of sh) r g with
      | [0] => if strict sh then match first_diff sh 0 r g with Some i => [1; i] | None => [0] end else [0]
      | x => x
      end
  end.

Definition gen_corr_ok (c : gcase) : bool := match gen_corr c with [0] => true | _ => false end.
