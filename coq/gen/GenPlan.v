(* The plan, position by position (deferred, post, blocks, pre, bypass, start), in continuation-passing
   style: [rest] = the terminal plan write and the release; KEnd = they are accepted from PEnd. *)
From Coq Require Import Lia.
From Coercion.Base Require Import Plan.
From Coercion.Engine Require Import Shape Event Action ChecksRun Seq Block Final PlanSM Auto Accept AutoLemmas.
From Coercion.Gen Require Import Gen GenBase GenAct GenImg GenGroup GenHost GenBlockEps GenBlockSfx GenBlock
  GenPlanEps GenPlanSfx.

Lemma p_may_start_ok ph pt pth im cb b late g :
  pphase_eqb ph (pgphase g) = true -> thr_live pth = false ->
  p_may_start (mkst ph (tset pt g g0) pth im cb b late) g = true.
Proof.
  intros H Hl. unfold p_may_start, mkst. cbn [s_g s_ph s_thr]. rewrite tget_tset.
  destruct g; cbn [pgphase] in H; rewrite H; rewrite ?Hl; reflexivity.
Qed.

Section PlanRun.
  Variables (sh : shape) (o : oracle).
  Hypothesis Hwf : shape_wf sh = true.
  Hypothesis Hne : shape_ne sh = true.
  Variable rest : list event.
  Hypothesis Hrest : exists stt r tl, rest = EvWrite OPlan stt 0 false r :: tl /\ is_terminal stt = true.

  Notation gs := (sh_groups sh).
  Notation P_ := (fun ph pt pth im cb b => mkst ph pt pth im cb b []).

  Definition KEnd (im : dimg) : Prop := forall pt pth cb b k, Acc sh k (mkst PEnd pt pth im cb b []) rest.

  (* a present plan group runs in its phase *)
  Lemma pgrp_Acc g rs ph pt pth im cb b more f :
    grp_get gs g = Some rs -> tget pt g = g0 -> pphase_eqb ph (pgphase g) = true -> thr_live pth = false ->
    AccR sh (P_ ph (tset pt g (GIdle 1 (Some (snd (grp_run o SPlan g rs))))) pth
                (img_of (fst (grp_run o SPlan g rs)) im) cb b) more ->
    Acc sh f (P_ ph pt pth im cb b) (fst (grp_run o SPlan g rs) ++ more).
  Proof.
    intros Hg H0 Hp Hl HA. pose proof (pgrp_ne sh Hne g rs Hg) as Hn.
    assert (Hrel : pphase_eqb ph PReleased = false) by (destruct ph, g; try discriminate; reflexivity).
    assert (May : forall im0, p_may_start (mkP g ph pt pth cb b g0 im0 []) g = true).
    { intro im0. unfold mkP. now apply p_may_start_ok. }
    pose proof (plan_grp_run sh o g rs ph pt pth cb b im Hg Hn Hrel May) as Hrun.
    assert (E0 : P_ ph pt pth im cb b = mkP g ph pt pth cb b g0 im []).
    { unfold mkP. now rewrite <- H0, tset_tget. }
    destruct (grp_run_head o SPlan g rs Hn) as [tr' Eh].
    assert (AR : AccR sh (P_ ph pt pth im cb b) (fst (grp_run o SPlan g rs) ++ more)).
    { rewrite E0. eapply AccR_app; [exact Hrun|exact HA]. }
    rewrite Eh in *. cbn [app] in *. eapply Acc_direct; [|exact AR].
    rewrite E0. apply (P_open sh g rs); auto. destruct rs; [congruence|simpl; lia].
  Qed.

  (* ---- deferred group, then the end ---- *)
  Lemma ppos_deferred pt pth im cb b :
    ThrOK pt pth -> tget pt GDeferred = g0 ->
    KEnd (img_of (pTailD sh o []) im) ->
    Acc sh 3 (P_ PDeferred pt pth im cb b) (pTailD sh o rest).
  Proof.
    intros Ht H0 HK.
    assert (Go : forall pth', thr_live pth' = false -> Acc sh 2 (P_ PDeferred pt pth' im cb b) (pTailD sh o rest)).
    { intros pth' Hl. unfold pTailD in *. destruct (grp_get gs GDeferred) as [rs|] eqn:Eg.
      - assert (ER : Rp sh o GDeferred = grp_run o SPlan GDeferred rs) by (unfold Rp, opt_grp_run; now rewrite Eg).
        rewrite ER in *. apply pgrp_Acc; auto. apply AccR_of_Acc.
        eapply Acc_skip'; [now apply Blocked_rest|eapply EP_deferred; [exact Hl|]|].
        + cbn [grp_get] in Eg. rewrite Eg. cbn [closed_as]. apply (tget_tset pt GDeferred).
        + rewrite app_nil_r in HK. apply HK.
      - assert (ER : Rp sh o GDeferred = ([], true)) by (unfold Rp, opt_grp_run; now rewrite Eg).
        rewrite ER in *. cbn [fst app img_of] in *.
        eapply Acc_skip'; [now apply Blocked_rest|eapply (EP_deferred sh _ _ _ _ _ true); [exact Hl|]|].
        + cbn [grp_get] in Eg. rewrite Eg. reflexivity.
        + apply HK. }
    destruct Ht as [->|[->|[-> Hc]]].
    - eapply Acc_mono; [|apply Go; reflexivity]. lia.
    - eapply Acc_mono; [|apply Go; reflexivity]. lia.
    - eapply Acc_skip'; [|now apply EP_deferred_drain|now apply Go].
      apply Blocked_pTailD; auto.
  Qed.

  (* ---- post group, then deferred ... ---- *)
  Lemma ppos_post pt pth im cb b :
    ThrOK pt pth -> tget pt GPost = g0 -> tget pt GDeferred = g0 ->
    KEnd (img_of (pSfxPost sh o []) im) ->
    Acc sh 5 (P_ PPost pt pth im cb b) (pSfxPost sh o rest).
  Proof.
    intros Ht H0 H1 HK.
    assert (Out : forall pt' pth' im' v, thr_live pth' = false -> ThrOK pt' pth' -> tget pt' GDeferred = g0 ->
              closed_as (g_post gs) (t_post pt') v -> KEnd (img_of (pTailD sh o []) im') ->
              Acc sh 4 (P_ PPost pt' pth' im' cb b) (pTailD sh o rest)).
    { intros pt' pth' im' v Hl Ht' H1' Hc HK'.
      eapply Acc_skip'; [|eapply EP_post; eauto|now apply ppos_deferred].
      apply Blocked_pTailD; auto. }
    assert (Go : forall pth', thr_live pth' = false -> ThrOK pt pth' -> Acc sh 4 (P_ PPost pt pth' im cb b) (pSfxPost sh o rest)).
    { intros pth' Hl Ht'. unfold pSfxPost in *. rewrite img_of_app in HK.
      destruct (grp_get gs GPost) as [rs|] eqn:Eg.
      - assert (ER : Rp sh o GPost = grp_run o SPlan GPost rs) by (unfold Rp, opt_grp_run; now rewrite Eg).
        rewrite ER in *. apply pgrp_Acc; auto. apply AccR_of_Acc. apply Acc_mono with (f := 4); [unfold eps_fuel; lia|].
        apply (Out _ _ _ (snd (grp_run o SPlan GPost rs))).
        + exact Hl.
        + destruct Ht' as [->|[->|[-> Hc]]]; [now left|right; now left|discriminate].
        + rewrite tget_tset_other by discriminate. assumption.
        + cbn [grp_get] in Eg. rewrite Eg. cbn [closed_as]. apply (tget_tset pt GPost).
        + exact HK.
      - assert (ER : Rp sh o GPost = ([], true)) by (unfold Rp, opt_grp_run; now rewrite Eg).
        rewrite ER in *. cbn [fst app img_of] in *. eapply (Out _ _ _ true); eauto.
        cbn [grp_get] in Eg. rewrite Eg. reflexivity. }
    destruct Ht as [->|[->|[-> Hc]]].
    - eapply Acc_mono; [|apply Go; [reflexivity|now left]]. lia.
    - eapply Acc_mono; [|apply Go; [reflexivity|right; now left]]. lia.
    - eapply Acc_skip'; [|now apply EP_post_drain|apply Go; [reflexivity|right; now left]].
      apply Blocked_pSfxPost; auto.
  Qed.

  (* ---- the blocks ---- *)
  Lemma blocks_run_cons b bs bl :
    fst (blocks_run o b (bs :: bl))
    = fst (block_run o b bs) ++ (if snd (block_run o b bs) then [] else fst (blocks_run o (S b) bl)) /\
    snd (blocks_run o b (bs :: bl)) = (if snd (block_run o b bs) then true else snd (blocks_run o (S b) bl)).
  Proof.
    cbn [blocks_run]. destruct (block_run o b bs) as [t f]. cbn [fst snd]. destruct f.
    - now rewrite app_nil_r.
    - now destruct (blocks_run o (S b) bl).
  Qed.

  Lemma block_facts bs : In bs (sh_blocks sh) -> 1 <= bs_conc bs /\ bshape_ne bs = true.
  Proof.
    intro H. split.
    - unfold shape_wf in Hwf. rewrite forallb_forall in Hwf. apply Hwf in H. now apply Nat.leb_le.
    - unfold shape_ne in Hne. apply andb_true_iff in Hne as [_ H1]. rewrite forallb_forall in H1. now apply H1.
  Qed.

  Lemma eqb_succ b : Nat.eqb (S b) b = false.
  Proof. apply Nat.eqb_neq. lia. Qed.

  Lemma blocks_ok bl : forall b pre im pt pth,
    sh_blocks sh = pre ++ bl -> length pre = b ->
    ThrOK pt pth -> tget pt GPost = g0 -> tget pt GDeferred = g0 ->
    KEnd (img_of (fst (blocks_run o b bl) ++ pAfterBlocks sh o (snd (blocks_run o b bl)) []) im) ->
    Acc sh 8 (mkst PBlocks pt pth im b (match block_of sh b with Some bs => b_init bs | None => b_none end) [])
        (fst (blocks_run o b bl) ++ pAfterBlocks sh o (snd (blocks_run o b bl)) rest).
  Proof.
    induction bl as [|bs bl IH]; intros b pre im pt pth E L Ht H0 H1 HK.
    - (* no block left: on to the plan's post checks *)
      assert (Hb : block_of sh b = None).
      { unfold block_of. apply nth_error_None. rewrite E, app_nil_r. lia. }
      rewrite Hb. cbn [blocks_run fst snd app pAfterBlocks] in *.
      eapply Acc_mono with (f := 6); [lia|].
      eapply Acc_skip'; [apply Blocked_pSfxPost; auto|now apply EP_blocks_none|now apply ppos_post].
    - assert (Hb : block_of sh b = Some bs) by (unfold block_of; rewrite E, <- L; apply nth_app_len).
      assert (Hin : In bs (sh_blocks sh)) by (rewrite E; apply in_or_app; right; now left).
      destruct (block_facts bs Hin) as [Hconc Hbne].
      destruct (blocks_run_cons b bs bl) as [E1 E2]. rewrite E1, E2 in *. rewrite Hb.
      rewrite <- app_assoc in *. rewrite img_of_app in HK.
      change (mkst PBlocks pt pth im b (b_init bs) [])
        with (BSt b pt pth BEnter gtab0 TNone false (b_seqs (b_init bs)) im).
      apply (block_ok sh o b bs pt pth Hb Hbne Hconc).
      + (* the head of what follows is not taken in any state of this block *)
        intros ph bt bth c qs im0. destruct (snd (block_run o b bs)).
        * cbn [app]. apply Blocked_pTailD; auto.
        * destruct bl as [|bs' bl'].
          -- cbn [blocks_run fst snd app]. apply Blocked_pSfxPost; auto.
          -- destruct (blocks_run_cons (S b) bs' bl') as [E3 _]. rewrite E3.
             destruct (block_run_sfx o (S b) bs') as [E4 _]. rewrite E4. cbn [app]. apply Blocked_cons.
             apply FP_block_running. unfold cur_block, BSt, mkst. cbn [s_ph s_cb pphase_eqb andb]. now rewrite eqb_succ.
      + (* what follows is accepted from the state the block leaves *)
        unfold K. destruct (snd (block_run o b bs)).
        * intro b'. cbn [app] in *. eapply Acc_mono with (f := 3); [lia|]. now apply ppos_deferred.
        * unfold NextB. apply (IH (S b) (pre ++ [bs])); auto.
          -- now rewrite <- app_assoc.
          -- rewrite app_length. simpl. lia.
  Qed.

  (* ---- heads of the block suffix and of the pre suffix ---- *)
  Lemma Blocked_pSfxBlocks s :
    cur_block sh s 0 = None ->
    tget (s_g s) GPost = g0 -> p_may_start s GPost = false ->
    tget (s_g s) GDeferred = g0 -> p_may_start s GDeferred = false -> pphase_eqb (s_ph s) PEnd = false ->
    Blocked sh s (pSfxBlocks sh o rest).
  Proof.
    intros Hc H0 H1 H2 H3 H4. unfold pSfxBlocks, blocksR. destruct (sh_blocks sh) as [|bs bl].
    - cbn [blocks_run fst snd app pAfterBlocks]. now apply Blocked_pSfxPost.
    - destruct (blocks_run_cons 0 bs bl) as [E1 _]. rewrite E1.
      destruct (block_run_sfx o 0 bs) as [E2 _]. rewrite E2. cbn [app]. apply Blocked_cons. now apply FP_block_running.
  Qed.

  Lemma Blocked_pSfxPre s :
    cur_block sh s 0 = None ->
    tget (s_g s) GPre = g0 -> p_may_start s GPre = false ->
    tget (s_g s) GCont = g0 -> p_may_start s GCont = false ->
    tget (s_g s) GPost = g0 -> p_may_start s GPost = false ->
    tget (s_g s) GDeferred = g0 -> p_may_start s GDeferred = false -> pphase_eqb (s_ph s) PEnd = false ->
    Blocked sh s (pSfxPre sh o rest).
  Proof.
    intros. unfold pSfxPre. apply Blocked_Rp; auto. apply Blocked_Rp; auto.
    destruct (snd (Rp sh o GPre) && snd (Rp sh o GCont)); [now apply Blocked_pSfxBlocks|now apply Blocked_pTailD].
  Qed.

  (* ---- out of PPre, both initial runs over ---- *)
  Lemma ppre_out pt im cb b vp vc :
    closed_as (g_pre gs) (t_pre pt) vp -> closed_as (g_cont gs) (t_cont pt) vc ->
    tget pt GPost = g0 -> tget pt GDeferred = g0 ->
    KEnd (img_of (if vp && vc then pSfxBlocks sh o [] else pTailD sh o []) im) ->
    Acc sh 9 (P_ PPre pt TNone im cb b) (if vp && vc then pSfxBlocks sh o rest else pTailD sh o rest).
  Proof.
    intros Hp Hc H0 H1 HK. pose proof (EP_pre sh pt TNone im cb b vp vc Hp Hc) as HE.
    destruct (vp && vc) eqn:V.
    - eapply Acc_skip'; [apply Blocked_pSfxBlocks; auto|exact HE|].
      unfold pSfxBlocks, blocksR in *. apply (blocks_ok (sh_blocks sh) 0 []); auto.
      apply andb_true_iff in V as [_ ->]. unfold ThrOK. destruct (g_cont gs); cbn [present closed_as] in *; auto.
    - eapply Acc_skip'; [apply Blocked_pTailD; auto|exact HE|].
      eapply Acc_mono with (f := 3); [lia|]. apply ppos_deferred; auto. now left.
  Qed.

  (* ---- pre and the initial continuous run ---- *)
  Lemma ppos_pre pt im cb b :
    tget pt GPre = g0 -> tget pt GCont = g0 -> tget pt GPost = g0 -> tget pt GDeferred = g0 ->
    KEnd (img_of (pSfxPre sh o []) im) ->
    Acc sh 9 (P_ PPre pt TNone im cb b) (pSfxPre sh o rest).
  Proof.
    intros Hp0 Hc0 H0 H1 HK. unfold pSfxPre in *. rewrite !img_of_app in HK.
    assert (StepB : forall pt1 im1, closed_as (g_pre gs) (t_pre pt1) (snd (Rp sh o GPre)) ->
              tget pt1 GCont = g0 -> tget pt1 GPost = g0 -> tget pt1 GDeferred = g0 ->
              KEnd (img_of (if snd (Rp sh o GPre) && snd (Rp sh o GCont) then pSfxBlocks sh o [] else pTailD sh o [])
                           (img_of (fst (Rp sh o GCont)) im1)) ->
              Acc sh 9 (P_ PPre pt1 TNone im1 cb b)
                (fst (Rp sh o GCont) ++ (if snd (Rp sh o GPre) && snd (Rp sh o GCont) then pSfxBlocks sh o rest else pTailD sh o rest))).
    { intros pt1 im1 Hp1 Hc1 H01 H11 HK1.
      destruct (grp_get gs GCont) as [rs|] eqn:Eg.
      - assert (ER : Rp sh o GCont = grp_run o SPlan GCont rs) by (unfold Rp, opt_grp_run; now rewrite Eg).
        rewrite ER in *.
        apply pgrp_Acc; auto. apply AccR_of_Acc. apply Acc_mono with (f := 9); [unfold eps_fuel; lia|].
        apply ppre_out.
        + change (t_pre (tset pt1 GCont (GIdle 1 (Some (snd (grp_run o SPlan GCont rs))))))
            with (tget (tset pt1 GCont (GIdle 1 (Some (snd (grp_run o SPlan GCont rs))))) GPre).
          rewrite tget_tset_other by discriminate. exact Hp1.
        + cbn [grp_get] in Eg. rewrite Eg. cbn [closed_as]. apply (tget_tset pt1 GCont).
        + rewrite tget_tset_other by discriminate. assumption.
        + rewrite tget_tset_other by discriminate. assumption.
        + exact HK1.
      - assert (ER : Rp sh o GCont = ([], true)) by (unfold Rp, opt_grp_run; now rewrite Eg).
        rewrite ER in *. cbn [fst snd app img_of] in *.
        apply ppre_out; auto. cbn [grp_get] in Eg. rewrite Eg. reflexivity. }
    destruct (grp_get gs GPre) as [rs|] eqn:Eg.
    - assert (ER : Rp sh o GPre = grp_run o SPlan GPre rs) by (unfold Rp, opt_grp_run; now rewrite Eg).
      rewrite ER in HK. rewrite ER at 1.
      apply pgrp_Acc; auto. apply AccR_of_Acc. apply Acc_mono with (f := 9); [unfold eps_fuel; lia|]. apply StepB.
      + rewrite ER. cbn [grp_get] in Eg. rewrite Eg. cbn [closed_as]. apply (tget_tset pt GPre).
      + rewrite tget_tset_other by discriminate. assumption.
      + rewrite tget_tset_other by discriminate. assumption.
      + rewrite tget_tset_other by discriminate. assumption.
      + rewrite ER. exact HK.
    - assert (ER : Rp sh o GPre = ([], true)) by (unfold Rp, opt_grp_run; now rewrite Eg).
      rewrite ER at 1. cbn [fst app]. apply StepB; auto.
      + rewrite ER. cbn [grp_get] in Eg. rewrite Eg. reflexivity.
      + assert (Ei : img_of (fst (Rp sh o GPre)) im = im) by (rewrite ER; reflexivity).
        rewrite Ei in HK. exact HK.
  Qed.

  (* ---- bypass group ---- *)
  Lemma ppos_byp im cb b :
    KEnd (img_of (pSfxByp sh o []) im) ->
    Acc sh 10 (P_ PBypass gtab0 TNone im cb b) (pSfxByp sh o rest).
  Proof.
    intro HK. unfold pSfxByp, pbypassed in *. rewrite img_of_app in HK.
    destruct (grp_get gs GBypass) as [rs|] eqn:Eg.
    - assert (ER : Rp sh o GBypass = grp_run o SPlan GBypass rs) by (unfold Rp, opt_grp_run; now rewrite Eg).
      assert (Eg' : g_bypass gs = Some rs) by exact Eg.
      rewrite ER, Eg' in *. cbn [present andb] in *.
      apply pgrp_Acc; auto. apply AccR_of_Acc. apply Acc_mono with (f := 10); [unfold eps_fuel; lia|].
      set (pt1 := tset gtab0 GBypass (GIdle 1 (Some (snd (grp_run o SPlan GBypass rs))))).
      set (im1 := img_of (fst (grp_run o SPlan GBypass rs)) im) in *.
      pose proof (EP_bypass_done sh pt1 TNone im1 cb b rs _ Eg' eq_refl) as HE.
      destruct (snd (grp_run o SPlan GBypass rs)).
      + (* bypassed: straight to the end *)
        eapply Acc_skip'; [now apply Blocked_rest|exact HE|]. cbn [img_of] in HK. apply HK.
      + eapply Acc_skip'; [apply Blocked_pSfxPre; auto|exact HE|]. now apply ppos_pre.
    - assert (ER : Rp sh o GBypass = ([], true)) by (unfold Rp, opt_grp_run; now rewrite Eg).
      assert (Eg' : g_bypass gs = None) by exact Eg.
      rewrite ER, Eg' in *. cbn [present andb fst app img_of] in *.
      eapply Acc_skip'; [apply Blocked_pSfxPre; auto|now apply EP_bypass_absent|]. now apply ppos_pre.
  Qed.

  (* ---- the whole plan, from init ---- *)
  Lemma plan_ok k :
    KEnd (img_of (plan_body o sh) []) -> Acc sh k init (plan_body o sh ++ rest).
  Proof.
    rewrite plan_body_sfx. intro HK. cbn [app]. rewrite <- pSfxByp_app. cbn [img_of W] in HK.
    assert (H1 : handle sh init (W OPlan Running 0 false)
                 = Some (P_ PStart gtab0 TNone (iset [] OPlan (cellv Running 0 false)) 0 b_none)).
    { reflexivity. }
    eapply Acc_cons; [exact H1|]. apply AccR_of_Acc.
    eapply Acc_skip'; [|apply EP_start; unfold ist; now rewrite iget_iset_same|].
    - unfold pSfxByp. apply Blocked_Rp; auto. destruct (pbypassed sh o); [now apply Blocked_rest|].
      now apply Blocked_pSfxPre.
    - eapply Acc_mono; [|apply ppos_byp; exact HK]. lia.
  Qed.
End PlanRun.
