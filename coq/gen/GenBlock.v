(* One block, position by position, in continuation-passing style: [rest] is the plan's trace after the
   block (its head is not taken in any state of this block: HBl), K says that the automaton accepts it
   from the state the block leaves behind.  *)
From Coq Require Import Lia.
From Coercion.Base Require Import Plan.
From Coercion.Engine Require Import Shape Event Action ChecksRun Seq Block Final PlanSM Auto Accept AutoLemmas.
From Coercion.Gen Require Import Gen GenBase GenAct GenImg GenGroup GenHost GenSeq GenBlockEps GenSeqs GenBlockSfx GenWrites.

Lemma enter_block_mkst sh ph t th im cb b late cb' :
  enter_block sh (mkst ph t th im cb b late) cb'
  = mkst ph t th im cb' (match block_of sh cb' with Some bs => b_init bs | None => b_none end) late.
Proof. unfold enter_block. now destruct (block_of sh cb'). Qed.

Section BlockRun.
  Variables (sh : shape) (o : oracle) (bi : nat) (bs : bshape) (t : gtab) (th : thr).
  Hypothesis Hb : block_of sh bi = Some bs.
  Hypothesis Hne : bshape_ne bs = true.
  Hypothesis Hconc : 1 <= bs_conc bs.
  Variable rest : list event.

  Notation S_ := (BSt bi t th).
  Notation gs := (bs_groups bs).
  Notation sc := (SBlock bi).

  Hypothesis HBl : forall ph bt bth c qs im, Blocked sh (S_ ph bt bth c qs im) rest.

  (* the state after the block *)
  Definition NextB (im : dimg) : st :=
    mkst PBlocks t th im (S bi) (match block_of sh (S bi) with Some bs' => b_init bs' | None => b_none end) [].
  Definition K (failed : bool) (im : dimg) : Prop :=
    if failed then forall b', Acc sh 8 (mkst PDeferred t th im bi b' []) rest
    else Acc sh 8 (NextB im) rest.

  (* the block's continuous thread: none, or live with its initial run passed *)
  Definition ThrOK (bt : gtab) (bth : thr) : Prop :=
    bth = TNone \/ bth = TDrained \/ (bth = TLive /\ t_cont bt = GIdle 1 (Some true)).

  Lemma L_end bt bth cf qs im :
    ThrOK bt bth -> ist im (OBlock bi) = fin_st cf -> K cf im -> Acc sh 10 (S_ BEnd bt bth cf qs im) rest.
  Proof.
    intros Ht Hi HK.
    assert (Fin : forall bth', thr_live bth' = false -> Acc sh 9 (S_ BEnd bt bth' cf qs im) rest).
    { intros bth' Hl. destruct cf; cbn [fin_st K] in *.
      - eapply Acc_skip'; [apply HBl|apply (E_finish_failed sh bi bs); eauto|apply HK].
      - eapply Acc_skip'; [apply HBl|apply (E_finish_ok sh bi bs); eauto|]. unfold BSt. rewrite enter_block_mkst. exact HK. }
    destruct Ht as [->|[->|[-> Hc]]].
    - eapply Acc_mono; [|apply Fin; reflexivity]. lia.
    - eapply Acc_mono; [|apply Fin; reflexivity]. lia.
    - eapply Acc_skip'; [apply HBl|apply (E_drain sh bi bs); eauto|]. now apply Fin.
  Qed.

  Lemma L_deferred_done bt bth c qs im vd :
    ThrOK bt bth -> closed_as (g_deferred gs) (t_deferred bt) vd ->
    ist im (OBlock bi) = fin_st (c || negb vd) -> K (c || negb vd) im ->
    Acc sh 11 (S_ BDeferred bt bth c qs im) rest.
  Proof.
    intros Ht Hc Hi HK. eapply Acc_skip'; [apply HBl|apply (E_deferred sh bi bs); eauto|]. now apply L_end.
  Qed.

  Lemma ist_iset im ob st n ok : ist (iset im ob (cellv st n ok)) ob = st.
  Proof. unfold ist. now rewrite iget_iset_same. Qed.

  (* the terminal write, from BDeferred with the deferred group over *)
  Lemma pos_tail bt bth c qs im vd :
    ThrOK bt bth -> closed_as (g_deferred gs) (t_deferred bt) vd ->
    K (c || negb vd) (iset im (OBlock bi) (cellv (fin_st (c || negb vd)) 0 false)) ->
    Acc sh 3 (S_ BDeferred bt bth c qs im) (Wb bi (fin_st (c || negb vd)) :: rest).
  Proof.
    intros Ht Hc HK. destruct c; cbn [orb] in *.
    - (* cause already there: the write is taken at once *)
      cbn [fin_st] in *. eapply Acc_cons; [apply (H_failed sh bi bs); eauto|]. apply AccR_of_Acc.
      eapply Acc_mono; [|eapply (L_deferred_done bt bth true qs _ vd); eauto]; [unfold eps_fuel; lia|apply ist_iset].
    - destruct vd; cbn [negb fin_st] in *.
      + (* Completed: in BEnd, after the drain *)
        eapply Acc_skip'; [apply Blocked_cons, (F_completed sh bi bs); eauto|apply (E_deferred sh bi bs); eauto|].
        cbn [negb orb].
        assert (Fin : forall bth', ThrOK bt bth' -> thr_live bth' = false ->
                  Acc sh 1 (S_ BEnd bt bth' false qs im) (Wb bi Completed :: rest)).
        { intros bth' Ht' Hl. eapply Acc_cons; [apply (H_completed sh bi bs); eauto|]. apply AccR_of_Acc.
          eapply Acc_mono; [|apply (L_end bt bth' false)]; auto; [unfold eps_fuel; lia|apply ist_iset]. }
        destruct Ht as [->|[->|[-> Hcont]]].
        * eapply Acc_mono; [|apply Fin]; [lia|now left|reflexivity].
        * eapply Acc_mono; [|apply Fin]; [lia|right; now left|reflexivity].
        * eapply Acc_skip'; [apply Blocked_cons, (F_completed sh bi bs); eauto|apply (E_drain sh bi bs); eauto|].
          apply Fin; [right; now left|reflexivity].
      + (* the deferred group failed: the cause appears with the move to BEnd *)
        eapply Acc_skip'; [apply Blocked_cons, (F_failed sh bi bs); eauto|apply (E_deferred sh bi bs); eauto|].
        cbn [negb orb]. eapply Acc_cons; [apply (H_failed sh bi bs); eauto|]. apply AccR_of_Acc.
        eapply Acc_mono; [|apply (L_end bt bth true)]; auto; [unfold eps_fuel; lia|apply ist_iset].
  Qed.

  (* a present group of this block runs in its phase *)
  Lemma bgrp_Acc g rs bph bt bth c qs im more f :
    grp_get gs g = Some rs -> tget bt g = g0 -> bphase_eqb bph (gphase g) = true ->
    AccR sh (S_ bph (tset bt g (GIdle 1 (Some (snd (grp_run o sc g rs))))) bth c qs
                (img_of (fst (grp_run o sc g rs)) im)) more ->
    Acc sh f (S_ bph bt bth c qs im) (fst (grp_run o sc g rs) ++ more).
  Proof.
    intros Hg H0 Hp HA. pose proof (grp_ne bs Hne g rs Hg) as Hn.
    assert (May : b_may_start (mkb bph (tset bt g g0) bth c qs) g = true).
    { rewrite b_may_start_g0 by (cbn [mkb b_g]; apply tget_tset). exact Hp. }
    pose proof (block_grp_run sh o bi bs g rs t th bph bt bth c qs im Hb Hg Hn May) as Hrun.
    assert (E0 : S_ bph bt bth c qs im = mkB bi g t th bph bt bth c qs g0 im []).
    { unfold BSt, mkB. now rewrite <- H0, tset_tget. }
    destruct (grp_run_head o sc g rs Hn) as [tr' Eh].
    assert (AR : AccR sh (S_ bph bt bth c qs im) (fst (grp_run o sc g rs) ++ more)).
    { rewrite E0. eapply AccR_app; [exact Hrun|exact HA]. }
    rewrite Eh in *. cbn [app] in *. eapply Acc_direct; [|exact AR].
    rewrite E0. apply (B_open sh bi bs g rs); auto. destruct rs; [congruence|simpl; lia].
  Qed.

  Lemma ThrOK_tset bt bth g x : g <> GCont -> ThrOK bt bth -> ThrOK (tset bt g x) bth.
  Proof.
    intros Hg [H|[H|[H1 H2]]]; [now left|right; now left|right; right]. split; [assumption|].
    change (t_cont (tset bt g x)) with (tget (tset bt g x) GCont). now rewrite tget_tset_other.
  Qed.

  (* deferred group, then the terminal write *)
  Lemma pos_deferred bt bth c qs im :
    ThrOK bt bth -> tget bt GDeferred = g0 ->
    K (failD o bi bs c) (img_of (tailD o bi bs c []) im) ->
    Acc sh 3 (S_ BDeferred bt bth c qs im) (tailD o bi bs c rest).
  Proof.
    intros Ht H0 HK. unfold tailD, failD, Rg, opt_grp_run in *. fold gs in *.
    destruct (grp_get gs GDeferred) as [rs|] eqn:Eg; cbn [fst snd app] in *.
    - apply bgrp_Acc; auto. apply AccR_of_Acc. eapply Acc_mono; [|apply pos_tail].
      + unfold eps_fuel. lia.
      + apply ThrOK_tset; [discriminate|assumption].
      + cbn [grp_get] in Eg. rewrite Eg. cbn [closed_as]. apply (tget_tset bt GDeferred).
      + rewrite img_of_app in HK. exact HK.
    - apply (pos_tail bt bth c qs im true); auto.
      cbn [grp_get] in Eg. rewrite Eg. reflexivity.
  Qed.

  (* a cause that is persisted at once: Failed write, then the deferred group *)
  Lemma pos_early bt bth qs im :
    ThrOK bt bth -> tget bt GDeferred = g0 ->
    K true (img_of (tailE o bi bs []) im) ->
    Acc sh 1 (S_ BDeferred bt bth true qs im) (tailE o bi bs rest).
  Proof.
    intros Ht H0 HK. unfold tailE, Rg, opt_grp_run in *. fold gs in *.
    eapply Acc_cons; [apply (H_failed sh bi bs); eauto|].
    set (im1 := iset im (OBlock bi) (cellv Failed 0 false)) in *.
    destruct (grp_get gs GDeferred) as [rs|] eqn:Eg; cbn [fst snd app] in *.
    - apply AccR_of_Acc. apply bgrp_Acc; auto. apply AccR_of_Acc.
      eapply Acc_mono; [|eapply (L_deferred_done _ bth true qs _ (snd (grp_run o sc GDeferred rs)))].
      + unfold eps_fuel. lia.
      + apply ThrOK_tset; [discriminate|assumption].
      + cbn [grp_get] in Eg. rewrite Eg. cbn [closed_as]. apply (tget_tset bt GDeferred).
      + cbn [orb fin_st]. unfold ist.
        rewrite (iget_img_of_only (fun x => x <> OBlock bi) _ im1 (OBlock bi)).
        * unfold im1. now rewrite iget_iset_same.
        * apply wo_grp_run_gen; discriminate.
        * intro H. now apply H.
      + cbn [orb K]. cbn [img_of Wb W] in HK. fold im1 in HK. rewrite app_nil_r in HK. exact HK.
    - apply AccR_of_Acc. eapply Acc_mono; [|eapply (L_deferred_done bt bth true qs im1 true)]; auto.
      + unfold eps_fuel. lia.
      + cbn [grp_get] in Eg. rewrite Eg. reflexivity.
      + apply ist_iset.
  Qed.

  (* post group, then deferred + terminal write (a failed post run is persisted before the deferred group) *)
  Lemma pos_post bt bth qs im :
    ThrOK bt bth -> tget bt GPost = g0 -> tget bt GDeferred = g0 ->
    K (failPost o bi bs) (img_of (sfxPost o bi bs []) im) ->
    Acc sh 4 (S_ BPost bt bth false qs im) (sfxPost o bi bs rest).
  Proof.
    intros Ht H0 H1 HK. unfold sfxPost, failPost in *. rewrite img_of_app in HK.
    assert (Go : forall bt' im' vo, ThrOK bt' bth -> tget bt' GDeferred = g0 ->
              closed_as (g_post gs) (t_post bt') vo ->
              K (if vo then failD o bi bs false else true)
                (img_of (if vo then tailD o bi bs false [] else tailE o bi bs []) im') ->
              Acc sh 4 (S_ BPost bt' bth false qs im') (if vo then tailD o bi bs false rest else tailE o bi bs rest)).
    { intros bt' im' vo Ht' H1' Hc HK'. destruct vo.
      - eapply Acc_skip'; [apply Blocked_tailD; auto|apply (E_post sh bi bs); eauto|].
        cbn [orb negb]. now apply pos_deferred.
      - eapply Acc_skip'; [apply Blocked_tailE; auto|apply (E_post sh bi bs); eauto|].
        cbn [orb negb]. eapply Acc_mono; [|apply pos_early; auto]. lia. }
    destruct (grp_get gs GPost) as [rs|] eqn:Eg.
    - assert (ER : Rg o bi bs GPost = grp_run o sc GPost rs) by (unfold Rg, opt_grp_run; now rewrite Eg).
      rewrite ER in *. apply bgrp_Acc; auto. apply AccR_of_Acc. apply Acc_mono with (f := 4); [unfold eps_fuel; lia|].
      apply Go.
      + apply ThrOK_tset; [discriminate|assumption].
      + rewrite tget_tset_other by discriminate. assumption.
      + cbn [grp_get] in Eg. rewrite Eg. cbn [closed_as]. apply (tget_tset bt GPost).
      + exact HK.
    - assert (ER : Rg o bi bs GPost = ([], true)) by (unfold Rg, opt_grp_run; now rewrite Eg).
      rewrite ER in *. cbn [fst snd app img_of] in *. apply (Go bt im true); auto.
      cbn [grp_get] in Eg. rewrite Eg. reflexivity.
  Qed.

  (* the sequences, then post ... or, tolerance exceeded, deferred ... *)
  Lemma pos_seqs bt bth im :
    ThrOK bt bth -> tget bt GPost = g0 -> tget bt GDeferred = g0 ->
    K (failSeqs o bi bs) (img_of (sfxSeqs o bi bs []) im) ->
    Acc sh 5 (S_ BSeqs bt bth false (b_seqs (b_init bs)) im) (sfxSeqs o bi bs rest).
  Proof.
    intros Ht H0 H1 HK. unfold sfxSeqs, failSeqs in *. rewrite img_of_app in HK.
    assert (Hrun : run sh (S_ BSeqs bt bth false (b_seqs (b_init bs)) im) (fst (seqsR o bi bs))
                   = Some (S_ BSeqs bt bth false (snd (seqsR o bi bs)) (img_of (fst (seqsR o bi bs)) im))).
    { apply (seqs_run_ok sh o bi bs t th bt bth false Hb (bs_seqs bs) [] [] im); auto.
      intros rs Hin. now apply (seqs_ne bs Hne). }
    destruct (seqs_post o bs bi (bs_seqs bs) [] Hconc eq_refl) as (dones & m & Eq & Hd & Hm).
    change (snd (seqs_run o bs bi (length []) (bs_seqs bs) ([] ++ repeat SIdle (length (bs_seqs bs)))))
      with (snd (seqsR o bi bs)) in Eq.
    set (im1 := img_of (fst (seqsR o bi bs)) im) in *.
    (* after the loop: one epsilon-move out of BSeqs *)
    assert (After : Acc sh 5 (S_ BSeqs bt bth false (snd (seqsR o bi bs)) im1)
                      (if exc o bi bs then tailD o bi bs true rest else sfxPost o bi bs rest)).
    { assert (Hi : inflight (mkb BSeqs bt bth false (snd (seqsR o bi bs))) = 0).
      { rewrite Eq. now apply inflight_settled. }
      unfold exc in *. destruct (exceeded bs (seqs_view bs (snd (seqsR o bi bs)))) eqn:Ex.
      - assert (Ex' : exceeded bs (mkb BSeqs bt bth false (snd (seqsR o bi bs))) = true).
        { rewrite <- Ex. now apply exceeded_seqs. }
        eapply Acc_skip'; [apply Blocked_tailD; auto|exact (E_seqs_exceeded sh bi bs t th Hb _ _ _ _ im1 Hi Ex')|].
        eapply Acc_mono; [|apply pos_deferred; eauto]. lia.
      - assert (Ex' : exceeded bs (mkb BSeqs bt bth false (snd (seqsR o bi bs))) = false).
        { rewrite <- Ex. now apply exceeded_seqs. }
        assert (Hall : all_started (mkb BSeqs bt bth false (snd (seqsR o bi bs))) = true).
        { destruct Hm as [->|Hm]; [|rewrite <- Eq in Hm; congruence].
          unfold all_started, mkb. cbn [b_seqs]. rewrite Eq. cbn [repeat]. rewrite app_nil_r. now apply done_started. }
        eapply Acc_skip'; [apply Blocked_sfxPost; auto|exact (E_seqs_done sh bi bs t th Hb _ _ _ _ im1 Hi Ex' Hall)|].
        now apply pos_post. }
    destruct (fst (seqsR o bi bs)) as [|e tr'] eqn:Ef.
    - (* no sequence was launched: the block has none *)
      cbn [app]. cbn [run] in Hrun. injection Hrun as Hq.
      rewrite <- Hq in After. unfold im1 in After. cbn [img_of] in After. exact After.
    - cbn [app].
      assert (Hh : exists s1, handle sh (S_ BSeqs bt bth false (b_seqs (b_init bs)) im) e = Some s1).
      { unfold seqsR in Ef. destruct (bs_seqs bs) as [|rs todo] eqn:Es; [discriminate|]. cbn [seqs_run] in Ef.
        destruct (launch_guard bs (seqs_view bs (b_seqs (b_init bs))) && negb (exceeded bs (seqs_view bs (b_seqs (b_init bs))))) eqn:G;
          [|discriminate].
        apply andb_true_iff in G as [G _].
        unfold seq_run in Ef. destruct (seq_acts o bi 0 0 rs) as [ta v].
        destruct (seqs_run o bs bi 1 todo (upd (b_seqs (b_init bs)) 0 (SDone v))) as [t' qs']. cbn [fst] in Ef.
        injection Ef as <- _. eexists.
        assert (Lq : 0 < length (b_seqs (b_init bs))).
        { unfold b_init. cbn [b_seqs]. rewrite repeat_length, Es. simpl. lia. }
        assert (Eu : upd (b_seqs (b_init bs)) 0 SIdle = b_seqs (b_init bs)).
        { unfold b_init. cbn [b_seqs]. rewrite Es. reflexivity. }
        pose proof (S_launch sh bi bs 0 rs t th bt bth false (b_seqs (b_init bs)) Hb) as HL.
        rewrite Es in HL. specialize (HL eq_refl Lq im). unfold mkS in HL. rewrite Eu in HL.
        apply HL. rewrite <- G. now apply launch_guard_seqs. }
      destruct Hh as [s1 Hh]. eapply Acc_direct; [exact Hh|].
      change (e :: tr' ++ (if exc o bi bs then tailD o bi bs true rest else sfxPost o bi bs rest))
        with ((e :: tr') ++ (if exc o bi bs then tailD o bi bs true rest else sfxPost o bi bs rest)).
      eapply AccR_app; [exact Hrun|]. apply AccR_of_Acc. eapply Acc_mono; [|exact After]. unfold eps_fuel. lia.
  Qed.

  (* out of BPre, both initial runs over *)
  Lemma pre_out bt im vp vc more :
    closed_as (g_pre gs) (t_pre bt) vp -> closed_as (g_cont gs) (t_cont bt) vc ->
    tget bt GPost = g0 -> tget bt GDeferred = g0 ->
    more = (if vp && vc then sfxSeqs o bi bs rest else tailE o bi bs rest) ->
    K (if vp && vc then failSeqs o bi bs else true)
      (img_of (if vp && vc then sfxSeqs o bi bs [] else tailE o bi bs []) im) ->
    Acc sh 6 (S_ BPre bt TNone false (b_seqs (b_init bs)) im) more.
  Proof.
    intros Hp Hc H0 H1 -> HK.
    pose proof (E_pre sh bi bs t th Hb bt TNone false (b_seqs (b_init bs)) im vp vc Hp Hc) as HE.
    destruct (vp && vc) eqn:V.
    - eapply Acc_skip'; [apply Blocked_sfxSeqs; auto|exact HE|]. apply pos_seqs; auto.
      apply andb_true_iff in V as [_ ->]. unfold ThrOK. destruct (g_cont gs); cbn [present closed_as] in *; auto.
    - eapply Acc_skip'; [apply Blocked_tailE; auto|exact HE|]. eapply Acc_mono; [|apply pos_early; auto].
      + lia.
      + now left.
  Qed.

  (* pre and the initial continuous run, then the sequences ... or deferred ... *)
  Lemma pos_pre bt im :
    tget bt GPre = g0 -> tget bt GCont = g0 -> tget bt GPost = g0 -> tget bt GDeferred = g0 ->
    K (failPre o bi bs) (img_of (sfxPre o bi bs []) im) ->
    Acc sh 6 (S_ BPre bt TNone false (b_seqs (b_init bs)) im) (sfxPre o bi bs rest).
  Proof.
    intros Hp0 Hc0 H0 H1 HK. unfold sfxPre, failPre in *. rewrite !img_of_app in HK.
    set (more := if snd (Rg o bi bs GPre) && snd (Rg o bi bs GCont) then sfxSeqs o bi bs rest else tailE o bi bs rest) in *.
    (* the continuous group, with pre over *)
    assert (StepB : forall bt1 im1, closed_as (g_pre gs) (t_pre bt1) (snd (Rg o bi bs GPre)) ->
              tget bt1 GCont = g0 -> tget bt1 GPost = g0 -> tget bt1 GDeferred = g0 ->
              K (if snd (Rg o bi bs GPre) && snd (Rg o bi bs GCont) then failSeqs o bi bs else true)
                (img_of (if snd (Rg o bi bs GPre) && snd (Rg o bi bs GCont) then sfxSeqs o bi bs [] else tailE o bi bs [])
                        (img_of (fst (Rg o bi bs GCont)) im1)) ->
              Acc sh 6 (S_ BPre bt1 TNone false (b_seqs (b_init bs)) im1) (fst (Rg o bi bs GCont) ++ more)).
    { intros bt1 im1 Hp1 Hc1 H01 H11 HK1.
      destruct (grp_get gs GCont) as [rs|] eqn:Eg.
      - assert (ER : Rg o bi bs GCont = grp_run o sc GCont rs) by (unfold Rg, opt_grp_run; now rewrite Eg).
        unfold more. rewrite ER in *.
        apply bgrp_Acc; auto. apply AccR_of_Acc. apply Acc_mono with (f := 6); [unfold eps_fuel; lia|].
        apply (pre_out _ _ (snd (Rg o bi bs GPre)) (snd (grp_run o sc GCont rs))).
        + change (t_pre (tset bt1 GCont (GIdle 1 (Some (snd (grp_run o sc GCont rs))))))
            with (tget (tset bt1 GCont (GIdle 1 (Some (snd (grp_run o sc GCont rs))))) GPre).
          rewrite tget_tset_other by discriminate. exact Hp1.
        + cbn [grp_get] in Eg. rewrite Eg. cbn [closed_as]. apply (tget_tset bt1 GCont).
        + rewrite tget_tset_other by discriminate. assumption.
        + rewrite tget_tset_other by discriminate. assumption.
        + reflexivity.
        + exact HK1.
      - assert (ER : Rg o bi bs GCont = ([], true)) by (unfold Rg, opt_grp_run; now rewrite Eg).
        unfold more. rewrite ER in *. cbn [fst snd app img_of] in *.
        apply (pre_out _ _ (snd (Rg o bi bs GPre)) true); auto.
        cbn [grp_get] in Eg. rewrite Eg. reflexivity. }
    destruct (grp_get gs GPre) as [rs|] eqn:Eg.
    - assert (ER : Rg o bi bs GPre = grp_run o sc GPre rs) by (unfold Rg, opt_grp_run; now rewrite Eg).
      rewrite ER in HK. rewrite ER at 1.
      apply bgrp_Acc; auto. apply AccR_of_Acc. apply Acc_mono with (f := 6); [unfold eps_fuel; lia|]. apply StepB.
      + rewrite ER. cbn [grp_get] in Eg. rewrite Eg. cbn [closed_as]. apply (tget_tset bt GPre).
      + rewrite tget_tset_other by discriminate. assumption.
      + rewrite tget_tset_other by discriminate. assumption.
      + rewrite tget_tset_other by discriminate. assumption.
      + rewrite ER. exact HK.
    - assert (ER : Rg o bi bs GPre = ([], true)) by (unfold Rg, opt_grp_run; now rewrite Eg).
      rewrite ER at 1. cbn [fst app]. apply StepB; auto.
      + rewrite ER. cbn [grp_get] in Eg. rewrite Eg. reflexivity.
      + assert (Ei : img_of (fst (Rg o bi bs GPre)) im = im) by (rewrite ER; reflexivity).
        rewrite Ei in HK. exact HK.
  Qed.

  (* bypass group, then Completed at once ... or pre ... *)
  Lemma pos_byp im :
    K (failByp o bi bs) (img_of (sfxByp o bi bs []) im) ->
    Acc sh 7 (S_ BBypass gtab0 TNone false (b_seqs (b_init bs)) im) (sfxByp o bi bs rest).
  Proof.
    intro HK. unfold sfxByp, failByp, bypassed in *. rewrite img_of_app in HK.
    destruct (grp_get gs GBypass) as [rs|] eqn:Eg.
    - assert (ER : Rg o bi bs GBypass = grp_run o sc GBypass rs) by (unfold Rg, opt_grp_run; now rewrite Eg).
      assert (Eg' : g_bypass gs = Some rs) by exact Eg.
      rewrite ER, Eg' in *. cbn [present andb] in *.
      apply bgrp_Acc; auto. apply AccR_of_Acc. apply Acc_mono with (f := 7); [unfold eps_fuel; lia|].
      set (bt1 := tset gtab0 GBypass (GIdle 1 (Some (snd (grp_run o sc GBypass rs))))).
      set (im1 := img_of (fst (grp_run o sc GBypass rs)) im) in *.
      pose proof (E_bypass_done sh bi bs t th Hb bt1 TNone false (b_seqs (b_init bs)) im1 rs _ Eg' eq_refl) as HE.
      destruct (snd (grp_run o sc GBypass rs)).
      + (* bypassed: the block is Completed *)
        eapply Acc_skip'; [apply Blocked_cons, (F_completed sh bi bs); auto|exact HE|].
        eapply Acc_cons; [apply (H_completed sh bi bs); auto|]. apply AccR_of_Acc.
        eapply Acc_mono; [|apply (L_end bt1 TNone false)]; [unfold eps_fuel; lia|now left|apply ist_iset|exact HK].
      + eapply Acc_skip'; [apply Blocked_sfxPre; auto|exact HE|]. now apply pos_pre.
    - assert (ER : Rg o bi bs GBypass = ([], true)) by (unfold Rg, opt_grp_run; now rewrite Eg).
      assert (Eg' : g_bypass gs = None) by exact Eg.
      rewrite ER, Eg' in *. cbn [present andb fst app img_of] in *.
      eapply Acc_skip'; [apply Blocked_sfxPre; auto|apply (E_bypass_absent sh bi bs); auto|]. now apply pos_pre.
  Qed.

  (* the whole block, from the state enter_block leaves *)
  Theorem block_ok im f :
    K (snd (block_run o bi bs)) (img_of (fst (block_run o bi bs)) im) ->
    Acc sh f (S_ BEnter gtab0 TNone false (b_seqs (b_init bs)) im) (fst (block_run o bi bs) ++ rest).
  Proof.
    destruct (block_run_sfx o bi bs) as [E1 E2]. rewrite E1, E2. intro HK.
    cbn [app]. rewrite <- sfxByp_app. cbn [img_of Wb W] in HK.
    eapply Acc_cons; [apply (H_running sh bi bs); auto|]. apply AccR_of_Acc.
    eapply Acc_skip'; [now apply Blocked_sfxByp|apply (E_enter sh bi bs); auto; apply ist_iset|].
    eapply Acc_mono; [|apply pos_byp; exact HK]. lia.
  Qed.
End BlockRun.
