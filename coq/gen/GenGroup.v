(* One run of a check group, wherever the group lives (plan or block): [mk x im late] is the state of
   the automaton with the group in state x; the host shows how the handlers act on mk through the g_*
   functions (hypotheses); the run is proved once. *)
From Coq Require Import Lia.
From Coercion.Base Require Import Plan.
From Coercion.Engine Require Import Shape Event Action ChecksRun Seq Block Final PlanSM Auto Accept AutoLemmas.
From Coercion.Gen Require Import Gen GenBase GenAct GenImg.

(* ---- lists: the element after a prefix ---- *)
Lemma nth_app_len {A} (pre : list A) x rest : nth_error (pre ++ x :: rest) (length pre) = Some x.
Proof. induction pre; simpl; auto. Qed.

Lemma upd_app_len {A} (pre : list A) x y rest : upd (pre ++ x :: rest) (length pre) y = pre ++ y :: rest.
Proof. induction pre; simpl; auto. now rewrite IHpre. Qed.

Lemma forallb_repeat {A} (p : A -> bool) x n : p x = true -> forallb p (repeat x n) = true.
Proof. intro H. induction n; simpl; auto. now rewrite H. Qed.

Definition a_marked (a : ast) : bool := negb (a_is_idle a).

(* ---- the g_* functions at the action after a prefix ---- *)
Section AtPrefix.
  Variables (ru : nat) (pre rest : list ast).
  Let i := length pre.
  Hypothesis Hpre : forallb a_marked pre = true.
  Hypothesis Hrest : forallb a_marked rest = true.

  Lemma marked_at x : a_marked x = true -> acts_marked (pre ++ x :: rest) = true.
  Proof. intro H. unfold acts_marked. change (fun a => negb (a_is_idle a)) with a_marked. rewrite forallb_app. cbn [forallb].
    now rewrite Hpre, H, Hrest. Qed.

  Lemma g_start_at k d :
    c_st d = Running -> c_n d = k ->
    g_start (GRun ru (pre ++ ARun k :: rest)) i d = Some (GRun ru (pre ++ AFly k :: rest)).
  Proof.
    intros H1 H2. unfold g_start, i. rewrite nth_app_len. unfold a_start. rewrite H1, H2, Nat.eqb_refl. simpl.
    rewrite marked_at by reflexivity. now rewrite upd_app_len.
  Qed.

  Lemma g_end_at k o :
    g_end (GRun ru (pre ++ AFly k :: rest)) i o = Some (GRun ru (pre ++ ARet k o :: rest)).
  Proof. unfold g_end, g_act, g_set, i. rewrite nth_app_len. simpl. now rewrite upd_app_len. Qed.

  Lemma g_attempt_ret rs r k o :
    nth_error rs i = Some r ->
    g_attempt rs (GRun ru (pre ++ ARet k o :: rest)) i (S k) (outcome_ok o)
    = Some (GRun ru (pre ++ after_attempt r k o :: rest), false).
  Proof.
    intro H. unfold g_attempt, g_act, g_set. fold i. rewrite H. unfold i. rewrite nth_app_len. unfold a_attempt.
    rewrite Nat.eqb_refl, eqb_refl. simpl. now rewrite upd_app_len.
  Qed.

  Lemma g_attempt_fly rs r k :
    nth_error rs i = Some r ->
    g_attempt rs (GRun ru (pre ++ AFly k :: rest)) i (S k) false
    = Some (GRun ru (pre ++ after_attempt r k OOverrun :: rest), true).
  Proof.
    intro H. unfold g_attempt, g_act, g_set. fold i. rewrite H. unfold i. rewrite nth_app_len. unfold a_attempt.
    rewrite Nat.eqb_refl. simpl. now rewrite upd_app_len.
  Qed.

  Lemma g_end_owed r k o :
    g_end (GRun ru (pre ++ after_attempt r k OOverrun :: rest)) i o = None.
  Proof.
    unfold g_end, g_act, i. rewrite nth_app_len. unfold after_attempt. now destruct (S k <=? r).
  Qed.

  Lemma g_final_at v n :
    g_final (GRun ru (pre ++ APend v n :: rest)) i (verdict_status v) n v
    = Some (GRun ru (pre ++ ADone v n :: rest)).
  Proof.
    unfold g_final, g_act, g_set, i. rewrite nth_app_len. unfold a_final.
    rewrite Nat.eqb_refl, eqb_refl. destruct v; simpl; now rewrite upd_app_len.
  Qed.
End AtPrefix.

Lemma g_verdict_done ru acts :
  acts_complete acts = true ->
  g_verdict (GRun ru acts) (verdict_status (acts_verdict acts)) = Some (GIdle (S ru) (Some (acts_verdict acts))).
Proof. intro H. unfold g_verdict, g_close. now rewrite H, status_eqb_refl. Qed.

Lemma verdict_status_cases v : verdict_status v = Completed \/ verdict_status v = Failed.
Proof. destruct v; auto. Qed.

Lemma done_marked l : forallb a_is_done l = true -> forallb a_marked l = true.
Proof.
  induction l as [|x l IH]; simpl; auto. intro H. apply andb_true_iff in H as [H1 H2].
  rewrite IH by assumption. now destruct x.
Qed.

Lemma repeat_snoc {A} (x : A) j l : repeat x j ++ x :: l = repeat x (S j) ++ l.
Proof. induction j; simpl; auto. simpl in IHj. now rewrite IHj. Qed.

Section GroupRun.
  Variables (sh : shape) (o : oracle) (sc : scope) (g : grp) (rs : list nat).
  Variable mk : gst -> dimg -> list aref -> st.
  Let act (i : nat) : aref := AChk sc g i.

  Hypothesis Hne : rs <> [].
  Hypothesis Hopen : forall im,
    handle sh (mk g0 im []) (mark_ev sc g 0)
    = Some (mk (GRun 0 (upd (repeat AIdle (length rs)) 0 (ARun 0))) (iset im (OAct (act 0)) (cellv Running 0 false)) []).
  Hypothesis Hmark : forall ru acts im i,
    i < length rs -> nth_error acts i = Some AIdle ->
    handle sh (mk (GRun ru acts) im []) (mark_ev sc g i)
    = Some (mk (GRun ru (upd acts i (ARun 0))) (iset im (OAct (act i)) (cellv Running 0 false)) []).
  Hypothesis Hstart : forall x x' im i,
    g_start x i (iget im (OAct (act i))) = Some x' ->
    handle sh (mk x im []) (EvStart (act i)) = Some (mk x' im []).
  Hypothesis Hend : forall x x' im i oc,
    g_end x i oc = Some x' -> handle sh (mk x im []) (EvEnd (act i) oc) = Some (mk x' im []).
  Hypothesis Hatt : forall x x' im i m ok owed,
    g_attempt rs x i (S m) ok = Some (x', owed) ->
    handle sh (mk x im []) (W (OAct (act i)) Running (S m) ok)
    = Some (mk x' (iset im (OAct (act i)) (cellv Running (S m) ok)) (if owed then [act i] else [])).
  Hypothesis Hlate : forall x im i,
    g_end x i OOverrun = None -> handle sh (mk x im [act i]) (EvEnd (act i) OOverrun) = Some (mk x im []).
  Hypothesis Hfin : forall x x' im i v n,
    i < length rs -> g_final x i (verdict_status v) n v = Some x' ->
    handle sh (mk x im []) (W (OAct (act i)) (verdict_status v) n v)
    = Some (mk x' (iset im (OAct (act i)) (cellv (verdict_status v) n v)) []).
  Hypothesis Hverd : forall x x' im v,
    g_verdict x (verdict_status v) = Some x' ->
    handle sh (mk x im []) (W (OChecks sc g) (verdict_status v) 0 false)
    = Some (mk x' (iset im (OChecks sc g) (cellv (verdict_status v) 0 false)) []).

  Lemma marks_from m : forall j im,
    j + m <= length rs ->
    run sh (mk (GRun 0 (repeat (ARun 0) j ++ repeat AIdle m)) im []) (map (mark_ev sc g) (seq j m))
    = Some (mk (GRun 0 (repeat (ARun 0) (j + m))) (img_of (map (mark_ev sc g) (seq j m)) im) []).
  Proof.
    induction m as [|m IH]; intros j im Lm.
    - simpl. now rewrite app_nil_r, Nat.add_0_r.
    - cbn [repeat seq map].
      assert (E : nth_error (repeat (ARun 0) j ++ AIdle :: repeat AIdle m) j = Some AIdle).
      { rewrite <- (repeat_length (ARun 0) j) at 2. apply nth_app_len. }
      rewrite (run_cons_handle _ _ _ _ _ (Hmark 0 _ im j ltac:(lia) E)).
      rewrite <- (repeat_length (ARun 0) j) at 2. rewrite upd_app_len, repeat_snoc, IH by lia.
      now rewrite Nat.add_succ_r.
  Qed.

  Lemma grp_marks im :
    run sh (mk g0 im []) (marks sc g (length rs))
    = Some (mk (GRun 0 (repeat (ARun 0) (length rs))) (img_of (marks sc g (length rs)) im) []).
  Proof.
    assert (L : exists m, length rs = S m).
    { destruct rs as [|r rs']; [congruence|]. now exists (length rs'). }
    destruct L as [m L]. pose proof (Hopen im) as H. rewrite L in H |- *. unfold marks. cbn [length seq map repeat upd] in H |- *.
    rewrite (run_cons_handle _ _ _ _ _ H). apply (marks_from m 1). lia.
  Qed.

  Lemma one_act pre rest r im :
    nth_error rs (length pre) = Some r ->
    forallb a_is_done pre = true -> forallb a_marked rest = true ->
    iget im (OAct (act (length pre))) = cellv Running 0 false ->
    exists n,
      run sh (mk (GRun 0 (pre ++ ARun 0 :: rest)) im []) (fst (act_run o (act (length pre)) r))
      = Some (mk (GRun 0 (pre ++ ADone (snd (act_run o (act (length pre)) r)) n :: rest))
                 (img_of (fst (act_run o (act (length pre)) r)) im) []).
  Proof.
    intros Hr Hpre Hrest Him. pose proof (done_marked _ Hpre) as Hpm.
    assert (Li : length pre < length rs) by (apply nth_error_Some; congruence).
    set (i := length pre) in *.
    destruct (act_attempts sh (act i) r (o (act i)) (fun x im late => mk (GRun 0 (pre ++ x :: rest)) im late))
      with (im := im) as (v & n & Hs & Hrun).
    - intros k im0 H1 H2. apply Hstart. now apply g_start_at.
    - intros k oc im0. apply Hend. apply g_end_at.
    - intros k oc im0. apply (Hatt _ _ im0 i k (outcome_ok oc) false). now apply g_attempt_ret.
    - intros k im0. apply (Hatt _ _ im0 i k false true). now apply g_attempt_fly.
    - intros k im0. apply Hlate. apply g_end_owed.
    - now rewrite Him.
    - now rewrite Him.
    - unfold act_run. destruct (attempts (o (act i)) (act i) r 0 (S r)) as [tr [v' n']]. cbn [fst snd] in *.
      injection Hs as -> ->. exists n. rewrite run_app, Hrun, img_of_app. cbn [run img_of].
      rewrite (step_handle _ _ _ _ (Hfin _ _ _ i v n Li (g_final_at 0 pre rest v n))). reflexivity.
  Qed.

  Lemma acts_run rs' : forall rs0 pre im,
    rs = rs0 ++ rs' -> length rs0 = length pre ->
    forallb a_is_done pre = true ->
    (forall j, length pre <= j < length rs -> iget im (OAct (act j)) = cellv Running 0 false) ->
    exists post, forallb a_is_done post = true /\
      forallb a_done_ok post = snd (grp_acts o sc g (length pre) rs') /\
      run sh (mk (GRun 0 (pre ++ repeat (ARun 0) (length rs'))) im []) (fst (grp_acts o sc g (length pre) rs'))
      = Some (mk (GRun 0 (pre ++ post)) (img_of (fst (grp_acts o sc g (length pre) rs')) im) []).
  Proof.
    induction rs' as [|r rs'' IH]; intros rs0 pre im E L Hpre Him.
    - exists []. simpl. auto.
    - assert (Hr : nth_error rs (length pre) = Some r) by (rewrite E, <- L; apply nth_app_len).
      assert (Ll : length pre < length rs) by (apply nth_error_Some; congruence).
      destruct (one_act pre (repeat (ARun 0) (length rs'')) r im Hr Hpre) as [n Hrun].
      { now apply forallb_repeat. } { apply Him. lia. }
      cbn [grp_acts length repeat]. fold (act (length pre)).
      pose proof (wo_act_run o (act (length pre)) r) as Hwo.
      destruct (act_run o (act (length pre)) r) as [t1 v1]. cbn [fst snd] in *.
      destruct (IH (rs0 ++ [r]) (pre ++ [ADone v1 n]) (img_of t1 im)) as (post & Hd & Hv & Hrun2).
      + now rewrite <- app_assoc.
      + rewrite !app_length. simpl. lia.
      + rewrite forallb_app, Hpre. reflexivity.
      + intros j Lj. rewrite app_length in Lj. simpl in Lj.
        rewrite (iget_img_of_only _ _ _ _ Hwo); [apply Him; lia|].
        intro Q. injection Q as Q. lia.
      + assert (El : length (pre ++ [ADone v1 n]) = S (length pre)) by (rewrite app_length; simpl; lia).
        rewrite El in *. destruct (grp_acts o sc g (S (length pre)) rs'') as [t2 v2]. cbn [fst snd] in *.
        exists (ADone v1 n :: post). split; [|split].
        * simpl. exact Hd.
        * cbn [forallb]. rewrite Hv. now destruct v1.
        * rewrite run_app, Hrun, img_of_app. rewrite <- !app_assoc in Hrun2. exact Hrun2.
  Qed.

  (* the whole run: marks, every action, verdict write *)
  Lemma grp_run_ok im :
    run sh (mk g0 im []) (fst (grp_run o sc g rs))
    = Some (mk (GIdle 1 (Some (snd (grp_run o sc g rs)))) (img_of (fst (grp_run o sc g rs)) im) []).
  Proof.
    unfold grp_run.
    destruct (acts_run rs [] [] (img_of (marks sc g (length rs)) im) eq_refl eq_refl eq_refl) as (post & Hd & Hv & Hrun).
    { intros j Lj. apply iget_marks. lia. }
    cbn [length app] in *. destruct (grp_acts o sc g 0 rs) as [t v]. cbn [fst snd] in *.
    rewrite run_app, grp_marks, run_app, Hrun, !img_of_app. cbn [run img_of].
    pose proof (g_verdict_done 0 post Hd) as Hg. unfold acts_verdict in Hg. rewrite Hv in Hg.
    rewrite (step_handle _ _ _ _ (Hverd _ _ _ v Hg)). reflexivity.
  Qed.
End GroupRun.
