(* Concrete runs of the generator (vm_compute): every way a plan can end is reached by some oracle on one
   two-block shape, and the automaton accepts each of these traces (computed, independently of gen_accepted). *)
From Coercion.Base Require Import Plan.
From Coercion.Engine Require Import Shape Event Action ChecksRun Seq Block Final PlanSM Auto Accept.
From Coercion.Gen Require Import Gen.

(* what the engine wrote last for the plan *)
Fixpoint plan_verdict_from (acc : option (status * reason)) (tr : list event) : option (status * reason) :=
  match tr with
  | [] => acc
  | EvWrite OPlan st _ _ r :: tr' => plan_verdict_from (Some (st, r)) tr'
  | _ :: tr' => plan_verdict_from acc tr'
  end.
Definition plan_verdict (tr : list event) : option (status * reason) := plan_verdict_from None tr.

Definition touches_block (e : event) : bool :=
  match e with
  | EvWrite (OBlock _) _ _ _ _ | EvWrite (OSeq _ _) _ _ _ _ | EvWrite (OChecks (SBlock _) _) _ _ _ _ => true
  | EvStart (ASeq _ _ _) | EvStart (AChk (SBlock _) _ _) => true
  | _ => false
  end.

Definition all5 : groups := Build_groups (Some [1]) (Some [0; 1]) (Some [0]) (Some [2]) (Some [0]).
Definition ex_sh : shape :=
  Build_shape all5
    [Build_bshape all5 [[1; 0]; [0]] 1 1%Z;
     Build_bshape (Build_groups None None (Some [1]) None None) [[0]; [2]; [0]] 2 0%Z].

(* oracles: everything succeeds except ... (the bypass groups always fail, i.e. nothing is bypassed) *)
Definition base (a : aref) : outcome := match a with AChk _ GBypass _ => OErr | _ => OOk end.
Definition o_ok : oracle := fun a _ => base a.
Definition o_pre : oracle := fun a _ => match a with AChk SPlan GPre 1 => OPerm | _ => base a end.
Definition o_cont : oracle := fun a _ => match a with AChk SPlan GCont _ => OWrongType | _ => base a end.
Definition o_block : oracle := fun a _ => match a with ASeq 1 1 _ => OErr | _ => base a end.
Definition o_post : oracle := fun a _ => match a with AChk SPlan GPost _ => OErr | _ => base a end.
Definition o_deferred : oracle := fun a _ => match a with AChk SPlan GDeferred _ => OOverrun | _ => base a end.
Definition o_bypass : oracle := fun _ _ => OOk.
(* a flaky plugin: first invocation times out (overrun), second fails, third succeeds *)
Definition o_flaky : oracle := fun a k => match a, k with ASeq 1 1 _, 0 => OOverrun | ASeq 1 1 _, 1 => OErr | _, _ => base a end.

Definition outcome_of (o : oracle) := (accepts ex_sh (gen ex_sh o), plan_verdict (gen ex_sh o)).

Example ex_completed : outcome_of o_ok = (true, Some (Completed, FRUnknown)).
Proof. vm_compute. reflexivity. Qed.
Example ex_precheck : outcome_of o_pre = (true, Some (Failed, FRPreCheck)).
Proof. vm_compute. reflexivity. Qed.
Example ex_contcheck : outcome_of o_cont = (true, Some (Failed, FRContCheck)).
Proof. vm_compute. reflexivity. Qed.
Example ex_block : outcome_of o_block = (true, Some (Failed, FRBlock)).
Proof. vm_compute. reflexivity. Qed.
Example ex_postcheck : outcome_of o_post = (true, Some (Failed, FRPostCheck)).
Proof. vm_compute. reflexivity. Qed.
Example ex_deferredcheck : outcome_of o_deferred = (true, Some (Failed, FRDeferredCheck)).
Proof. vm_compute. reflexivity. Qed.
Example ex_bypassed :
  outcome_of o_bypass = (true, Some (Completed, FRUnknown)) /\ existsb touches_block (gen ex_sh o_bypass) = false.
Proof. vm_compute. split; reflexivity. Qed.
(* retries: the flaky action needs its two retries; the plan completes, after 3 invocations of that action *)
Example ex_flaky :
  outcome_of o_flaky = (true, Some (Completed, FRUnknown)) /\
  length (filter (fun e => match e with EvStart (ASeq 1 1 0) => true | _ => false end) (gen ex_sh o_flaky)) = 3.
Proof. vm_compute. split; reflexivity. Qed.
(* the failed block stops the plan: block 1 failed => the plan's post group never runs, the deferred group does *)
Example ex_block_skips_post :
  existsb (fun e => match e with EvStart (AChk SPlan GPost _) => true | _ => false end) (gen ex_sh o_block) = false /\
  existsb (fun e => match e with EvStart (AChk SPlan GDeferred _) => true | _ => false end) (gen ex_sh o_block) = true.
Proof. vm_compute. split; reflexivity. Qed.

(* the generator is not the constant function: different oracles, different traces *)
Example ex_lengths :
  map (fun o => length (gen ex_sh o)) [o_ok; o_pre; o_cont; o_block; o_post; o_deferred; o_bypass; o_flaky]
  = [129; 35; 35; 122; 135; 129; 9; 135].
Proof. vm_compute. reflexivity. Qed.

Theorem every_verdict_reachable :
  forall v : status * reason,
    In v [(Completed, FRUnknown); (Failed, FRPreCheck); (Failed, FRContCheck); (Failed, FRBlock);
          (Failed, FRPostCheck); (Failed, FRDeferredCheck)] ->
    exists o : oracle, accepts ex_sh (gen ex_sh o) = true /\ plan_verdict (gen ex_sh o) = Some v.
Proof.
  intros v Hv. cbn [In] in Hv.
  destruct Hv as [<-|[<-|[<-|[<-|[<-|[<-|[]]]]]]];
    [exists o_ok|exists o_pre|exists o_cont|exists o_block|exists o_post|exists o_deferred];
    vm_compute; (split; reflexivity).
Qed.

Theorem bypassed_plan_reachable :
  accepts ex_sh (gen ex_sh o_bypass) = true /\ plan_verdict (gen ex_sh o_bypass) = Some (Completed, FRUnknown) /\
  existsb touches_block (gen ex_sh o_bypass) = false.
Proof. vm_compute. repeat split; reflexivity. Qed.
