(* GEN - non-vacuity of the engine theorems C01-C08 (DESIGN.md section 6, "Non-vacuity").

   C01-C08 are proved in the form "every trace ACCEPTED by the observable automaton satisfies the monitor".
   That says nothing for a shape on which no complete trace is accepted.  Here: for EVERY well-formed shape
   whose present check groups and whose sequences have at least one action (what workflow validation
   requires) and for EVERY outcome oracle (which plugin invocation answers what: ok, error, permanent error,
   wrong type, overrun of the deadline; per action AND per invocation, so retries that later succeed are
   covered), the automaton accepts a complete trace that ends with the release: the trace of the sequential
   reference scheduler Gen.gen (read Gen.v: it is the definition; no proofs there).

   Only statements, `exact`, Print Assumptions. *)
From Coercion.Base Require Import Plan.
From Coercion.Engine Require Import Shape Event PlanSM Auto Accept.
From Coercion.C03 Require Import MonC03.
From Coercion.C04 Require Import MonC04.
From Coercion.Gen Require Import Gen GenProofs NeNeeded Examples Compose.

(* the generated trace is accepted from the initial state and ends released, for every oracle *)
Theorem gen_accepted :
  forall (sh : shape) (o : oracle),
    shape_wf sh = true -> shape_ne sh = true ->
    exists s : st, run sh init (gen sh o) = Some s /\ released s = true.
Proof. exact gen_accepted. Qed.
Print Assumptions gen_accepted.

(* in the vocabulary of the correspondence checker (Accept.accepts) *)
Theorem gen_accepts :
  forall (sh : shape) (o : oracle), shape_wf sh = true -> shape_ne sh = true -> accepts sh (gen sh o) = true.
Proof. exact gen_accepts. Qed.
Print Assumptions gen_accepts.

(* hence: no engine theorem is vacuous on such a shape *)
Theorem engine_nonvacuous :
  forall sh : shape, shape_wf sh = true -> shape_ne sh = true ->
    exists (tr : list event) (s : st), run sh init tr = Some s /\ released s = true.
Proof. exact engine_nonvacuous. Qed.
Print Assumptions engine_nonvacuous.

(* shape_ne cannot be dropped: with a present but empty check group (shape_wf holds) NO accepted trace is
   ever released - the automaton, like the engine, cannot close a run of a group without actions *)
Theorem shape_ne_needed :
  shape_wf sh_empty_group = true /\ shape_ne sh_empty_group = false /\
  forall (tr : list event) (s : st), run sh_empty_group init tr = Some s -> released s = false.
Proof. exact shape_ne_needed. Qed.
Print Assumptions shape_ne_needed.

(* every way a plan can end is reached: on ONE two-block shape with all five groups at both levels, oracles
   that make the engine write Completed, Failed/PreCheck, Failed/ContCheck, Failed/Block, Failed/PostCheck,
   Failed/DeferredCheck, and the bypassed plan (Completed with no block touched); each trace accepted
   (computed by vm_compute, independently of gen_accepted) *)
Theorem every_verdict_reachable :
  forall v : status * reason,
    In v [(Completed, FRUnknown); (Failed, FRPreCheck); (Failed, FRContCheck); (Failed, FRBlock);
          (Failed, FRPostCheck); (Failed, FRDeferredCheck)] ->
    exists o : oracle, accepts ex_sh (gen ex_sh o) = true /\ plan_verdict (gen ex_sh o) = Some v.
Proof. exact every_verdict_reachable. Qed.
Print Assumptions every_verdict_reachable.

Theorem bypassed_plan_reachable :
  accepts ex_sh (gen ex_sh o_bypass) = true /\ plan_verdict (gen ex_sh o_bypass) = Some (Completed, FRUnknown) /\
  existsb touches_block (gen ex_sh o_bypass) = false.
Proof. exact bypassed_plan_reachable. Qed.
Print Assumptions bypassed_plan_reachable.

(* the composition with the property theorems works: the monitors of C03 and C04 are TRUE on every generated
   trace, by c03_tolerance / c04_final_released applied to gen_accepted *)
Theorem gen_mon_tol :
  forall (sh : shape) (o : oracle), shape_wf sh = true -> shape_ne sh = true -> mon_tol (sh, gen sh o) = true.
Proof. exact gen_mon_tol. Qed.
Print Assumptions gen_mon_tol.

Theorem gen_mon_final :
  forall (sh : shape) (o : oracle), shape_wf sh = true -> shape_ne sh = true -> mon_final_core (sh, gen sh o) = true.
Proof. exact gen_mon_final. Qed.
Print Assumptions gen_mon_final.
