(* One sequence of the current block, in phase BSeqs: launch write, its actions in order until one
   fails, terminal write. *)
From Coq Require Import Lia.
From Coercion.Base Require Import Plan.
From Coercion.Engine Require Import Shape Event Action ChecksRun Seq Block Final PlanSM Auto Accept AutoLemmas.
From Coercion.Gen Require Import Gen GenBase GenAct GenImg GenGroup GenHost.

Lemma launch_guard_seqs bs b b' : b_seqs b = b_seqs b' -> launch_guard bs b = launch_guard bs b'.
Proof. intro H. unfold launch_guard, inflight, failed_seqs. now rewrite H. Qed.

Lemma exceeded_seqs bs b b' : b_seqs b = b_seqs b' -> exceeded bs b = exceeded bs b'.
Proof. intro H. unfold exceeded, failed_seqs. now rewrite H. Qed.

Section SeqHost.
  Variables (sh : shape) (bi : nat) (bs : bshape) (q : nat) (rs : list nat).
  Variables (t : gtab) (th : thr) (bt : gtab) (bth : thr) (c : bool) (qs : list sst).
  Hypothesis Hb : block_of sh bi = Some bs.
  Hypothesis Hq : nth_error (bs_seqs bs) q = Some rs.
  Hypothesis Lq : q < length qs.

  Definition mkS (x : sst) (im : dimg) (late : list aref) : st :=
    mkst PBlocks t th im bi (mkb BSeqs bt bth c (upd qs q x)) late.

  Lemma S_cur x im late : cur_block sh (mkS x im late) bi = Some bs.
  Proof. unfold cur_block, mkS, mkst. cbn [s_ph s_cb pphase_eqb]. now rewrite Nat.eqb_refl. Qed.

  Lemma S_seq_of : seq_of sh bi q = Some rs.
  Proof. unfold seq_of. now rewrite Hb. Qed.

  Lemma S_in_shape i : i < length rs -> obj_in_shape sh (OAct (ASeq bi q i)) = true.
  Proof.
    intro L. unfold obj_in_shape, retries_of. rewrite S_seq_of.
    destruct (nth_error rs i) eqn:E; [reflexivity|]. apply nth_error_None in E. lia.
  Qed.

  Lemma S_seq_in_shape : obj_in_shape sh (OSeq bi q) = true.
  Proof. unfold obj_in_shape. now rewrite S_seq_of. Qed.

  (* b_seq_upd on the explicit state *)
  Lemma S_upd x x' f :
    f x = Some x' ->
    b_seq_upd (mkb BSeqs bt bth c (upd qs q x)) q f = Some (mkb BSeqs bt bth c (upd qs q x')).
  Proof.
    intro H. unfold b_seq_upd, mkb. cbn [b_seqs]. rewrite nth_upd_same by assumption. rewrite H.
    unfold b_with_seqs. cbn. now rewrite upd_upd.
  Qed.

  Lemma S_b x im late : s_b (mkS x im late) = mkb BSeqs bt bth c (upd qs q x).
  Proof. reflexivity. Qed.
  Lemma S_img x im late : s_img (mkS x im late) = im.
  Proof. reflexivity. Qed.
  Lemma S_late_ x im late : s_late (mkS x im late) = late.
  Proof. reflexivity. Qed.
  Lemma S_ph x im late : s_ph (mkS x im late) = PBlocks.
  Proof. reflexivity. Qed.
  Lemma S_with_b x x' im late : with_b (mkS x im late) (mkb BSeqs bt bth c (upd qs q x')) = mkS x' im late.
  Proof. reflexivity. Qed.
  Lemma S_put x im late o st n ok : put (mkS x im late) o st n ok = mkS x (iset im o (cellv st n ok)) late.
  Proof. reflexivity. Qed.
  Lemma S_with_late x im late l : with_late (mkS x im late) l = mkS x im l.
  Proof. reflexivity. Qed.

  Ltac scur := rewrite S_cur, ?S_b, ?S_img, ?S_late_, ?S_ph.

  Lemma S_start i k im :
    c_st (iget im (OAct (ASeq bi q i))) = Running -> c_n (iget im (OAct (ASeq bi q i))) = k ->
    handle sh (mkS (SRun i (ARun k)) im []) (EvStart (ASeq bi q i)) = Some (mkS (SRun i (AFly k)) im []).
  Proof.
    intros H1 H2. unfold handle, released, h_start. scur. cbn [s_ph pphase_eqb s_late owes existsb].
    unfold b_act_start. erewrite S_upd; [reflexivity|].
    unfold s_start, a_start. now rewrite Nat.eqb_refl, H1, H2, Nat.eqb_refl.
  Qed.

  Lemma S_end i k o im :
    handle sh (mkS (SRun i (AFly k)) im []) (EvEnd (ASeq bi q i) o) = Some (mkS (SRun i (ARet k o)) im []).
  Proof.
    unfold handle, h_end, h_end_sub. scur. unfold b_act_end. erewrite S_upd; [reflexivity|].
    unfold s_end. now rewrite Nat.eqb_refl.
  Qed.

  Lemma S_att i r k o im :
    nth_error rs i = Some r ->
    handle sh (mkS (SRun i (ARet k o)) im []) (W (OAct (ASeq bi q i)) Running (S k) (outcome_ok o))
    = Some (mkS (SRun i (after_attempt r k o)) (iset im (OAct (ASeq bi q i)) (cellv Running (S k) (outcome_ok o))) []).
  Proof.
    intro Hr. assert (L : i < length rs) by (apply nth_error_Some; congruence).
    unfold W. unfold handle, released, h_write. rewrite (S_in_shape i L). cbn [negb].
    unfold h_write_obj, h_write_act. scur. unfold b_act_attempt, mkb. cbn [b_seqs]. rewrite nth_upd_same, Hq by assumption.
    unfold s_attempt. rewrite Hr, Nat.eqb_refl. unfold a_attempt. rewrite Nat.eqb_refl, eqb_refl. cbn [andb].
    unfold b_with_seqs. cbn. now rewrite upd_upd.
  Qed.

  Lemma S_over i r k im :
    nth_error rs i = Some r ->
    handle sh (mkS (SRun i (AFly k)) im []) (W (OAct (ASeq bi q i)) Running (S k) false)
    = Some (mkS (SRun i (after_attempt r k OOverrun)) (iset im (OAct (ASeq bi q i)) (cellv Running (S k) false)) [ASeq bi q i]).
  Proof.
    intro Hr. assert (L : i < length rs) by (apply nth_error_Some; congruence).
    unfold W. unfold handle, released, h_write. rewrite (S_in_shape i L). cbn [negb].
    unfold h_write_obj, h_write_act. scur. unfold b_act_attempt, mkb. cbn [b_seqs]. rewrite nth_upd_same, Hq by assumption.
    unfold s_attempt. rewrite Hr, Nat.eqb_refl. unfold a_attempt. rewrite Nat.eqb_refl. cbn [andb negb].
    unfold b_with_seqs. cbn. now rewrite upd_upd.
  Qed.

  Lemma S_late i r k im :
    handle sh (mkS (SRun i (after_attempt r k OOverrun)) im [ASeq bi q i]) (EvEnd (ASeq bi q i) OOverrun)
    = Some (mkS (SRun i (after_attempt r k OOverrun)) im []).
  Proof.
    unfold handle, h_end, h_end_sub. scur. unfold b_act_end, b_seq_upd, mkb. cbn [b_seqs].
    rewrite nth_upd_same by assumption. unfold s_end. rewrite Nat.eqb_refl.
    assert (E : a_end (after_attempt r k OOverrun) OOverrun = None).
    { unfold after_attempt. now destruct (S k <=? r). }
    rewrite E. cbn [option_map s_late]. now rewrite remove_one_head.
  Qed.

  Lemma S_mark i im :
    i < length rs ->
    handle sh (mkS (SRun i AIdle) im []) (W (OAct (ASeq bi q i)) Running 0 false)
    = Some (mkS (SRun i (ARun 0)) (iset im (OAct (ASeq bi q i)) (cellv Running 0 false)) []).
  Proof.
    intro L. unfold W. unfold handle, released, h_write. rewrite (S_in_shape i L). cbn [negb].
    unfold h_write_obj, h_write_act. scur. unfold b_act_mark. erewrite S_upd; [reflexivity|].
    unfold s_mark. now rewrite Nat.eqb_refl.
  Qed.

  Definition seq_next (i : nat) (v : bool) : sst :=
    if v then (if S i <? length rs then SRun (S i) AIdle else SPend true) else SPend false.

  Lemma S_final i v n im :
    i < length rs ->
    handle sh (mkS (SRun i (APend v n)) im []) (W (OAct (ASeq bi q i)) (verdict_status v) n v)
    = Some (mkS (seq_next i v) (iset im (OAct (ASeq bi q i)) (cellv (verdict_status v) n v)) []).
  Proof.
    intro L. unfold W. unfold handle, released, h_write. rewrite (S_in_shape i L). cbn [negb].
    unfold h_write_obj, h_write_act. rewrite S_cur.
    assert (E : b_act_final bs (s_b (mkS (SRun i (APend v n)) im [])) q i (verdict_status v) n v
                = Some (mkb BSeqs bt bth c (upd qs q (seq_next i v)))).
    { rewrite S_b. unfold b_act_final. rewrite Hq. apply S_upd. unfold s_final, a_final.
      rewrite !Nat.eqb_refl, eqb_refl. unfold seq_next. destruct v; cbn [verdict_status status_eqb andb]; [destruct (S i <? length rs)|]; reflexivity. }
    destruct v; cbn [verdict_status] in *; rewrite E; reflexivity.
  Qed.

  Lemma S_launch im :
    launch_guard bs (mkb BSeqs bt bth c (upd qs q SIdle)) = true ->
    handle sh (mkS SIdle im []) (W (OSeq bi q) Running 0 false)
    = Some (mkS (SRun 0 AIdle) (iset im (OSeq bi q) (cellv Running 0 false)) []).
  Proof.
    intro G. unfold W. unfold handle, released, h_write. rewrite S_seq_in_shape. cbn [negb].
    unfold h_write_obj. scur. unfold b_seq_launch. rewrite G. cbn [mkb b_ph bphase_eqb andb].
    fold (mkb BSeqs bt bth c (upd qs q SIdle)). erewrite S_upd; reflexivity.
  Qed.

  Lemma S_term v im :
    handle sh (mkS (SPend v) im []) (W (OSeq bi q) (verdict_status v) 0 false)
    = Some (mkS (SDone v) (iset im (OSeq bi q) (cellv (verdict_status v) 0 false)) []).
  Proof.
    unfold W. unfold handle, released, h_write. rewrite S_seq_in_shape. cbn [negb].
    unfold h_write_obj. rewrite S_cur.
    assert (E : b_seq_terminal (s_b (mkS (SPend v) im [])) q (verdict_status v)
                = Some (mkb BSeqs bt bth c (upd qs q (SDone v)))).
    { rewrite S_b. unfold b_seq_terminal. apply S_upd. unfold s_terminal. now rewrite status_eqb_refl. }
    destruct v; cbn [verdict_status] in *; rewrite E; reflexivity.
  Qed.

  Variable o : oracle.

  (* one action of the sequence: mark, attempts, terminal write *)
  Lemma seq_one_act i r im :
    nth_error rs i = Some r ->
    run sh (mkS (SRun i AIdle) im []) (W (OAct (ASeq bi q i)) Running 0 false :: fst (act_run o (ASeq bi q i) r))
    = Some (mkS (seq_next i (snd (act_run o (ASeq bi q i) r)))
                (img_of (W (OAct (ASeq bi q i)) Running 0 false :: fst (act_run o (ASeq bi q i) r)) im) []).
  Proof.
    intro Hr. assert (L : i < length rs) by (apply nth_error_Some; congruence).
    rewrite (run_cons_handle _ _ _ _ _ (S_mark i im L)). cbn [img_of W].
    set (im1 := iset im (OAct (ASeq bi q i)) (cellv Running 0 false)).
    destruct (act_attempts sh (ASeq bi q i) r (o (ASeq bi q i)) (fun x im late => mkS (SRun i x) im late))
      with (im := im1) as (v & n & Hs & Hrun).
    - intros. now apply S_start.
    - intros. apply S_end.
    - intros. now apply S_att.
    - intros. now apply S_over.
    - intros. apply S_late.
    - unfold im1. now rewrite iget_iset_same.
    - unfold im1. now rewrite iget_iset_same.
    - unfold act_run. destruct (attempts (o (ASeq bi q i)) (ASeq bi q i) r 0 (S r)) as [tr [v' n']]. cbn [fst snd] in *.
      injection Hs as -> ->. rewrite run_app, Hrun, img_of_app. cbn [run img_of W].
      unfold W in *. rewrite (step_handle _ _ _ _ (S_final i v n _ L)). reflexivity.
  Qed.

  Lemma seq_acts_run rs' : forall rs0 im,
    rs = rs0 ++ rs' -> rs' <> [] ->
    run sh (mkS (SRun (length rs0) AIdle) im []) (fst (seq_acts o bi q (length rs0) rs'))
    = Some (mkS (SPend (snd (seq_acts o bi q (length rs0) rs'))) (img_of (fst (seq_acts o bi q (length rs0) rs')) im) []).
  Proof.
    induction rs' as [|r rs'' IH]; intros rs0 im E Hne; [congruence|].
    assert (Hr : nth_error rs (length rs0) = Some r) by (rewrite E; apply nth_app_len).
    pose proof (seq_one_act (length rs0) r im Hr) as H1.
    cbn [seq_acts]. destruct (act_run o (ASeq bi q (length rs0)) r) as [t1 v1]. cbn [fst snd] in *.
    unfold seq_next in H1. destruct v1.
    - destruct rs'' as [|r2 rs3].
      + cbn [seq_acts fst snd]. rewrite app_nil_r.
        assert (F : S (length rs0) <? length rs = false).
        { apply Nat.ltb_ge. rewrite E, app_length. simpl. lia. }
        rewrite F in H1. exact H1.
      + assert (T : S (length rs0) <? length rs = true).
        { apply Nat.ltb_lt. rewrite E, app_length. simpl. lia. }
        rewrite T in H1.
        specialize (IH (rs0 ++ [r]) (img_of (W (OAct (ASeq bi q (length rs0))) Running 0 false :: t1) im)).
        assert (El : length (rs0 ++ [r]) = S (length rs0)) by (rewrite app_length; simpl; lia).
        rewrite El in IH. rewrite <- app_assoc in IH. specialize (IH E ltac:(congruence)).
        destruct (seq_acts o bi q (S (length rs0)) (r2 :: rs3)) as [t2 v2]. cbn [fst snd] in *.
        rewrite run_app, H1, img_of_app. exact IH.
    - cbn [fst snd]. exact H1.
  Qed.

  (* the whole sequence *)
  Lemma seq_run_ok im :
    rs <> [] -> launch_guard bs (mkb BSeqs bt bth c (upd qs q SIdle)) = true ->
    run sh (mkS SIdle im []) (fst (seq_run o bi q rs))
    = Some (mkS (SDone (snd (seq_run o bi q rs))) (img_of (fst (seq_run o bi q rs)) im) []).
  Proof.
    intros Hne G. unfold seq_run.
    pose proof (seq_acts_run rs [] (iset im (OSeq bi q) (cellv Running 0 false)) eq_refl Hne) as H.
    cbn [length] in H. destruct (seq_acts o bi q 0 rs) as [t0 v]. cbn [fst snd] in *.
    rewrite (run_cons_handle _ _ _ _ _ (S_launch im G)). cbn [img_of W].
    rewrite run_app, H, img_of_app. cbn [run img_of W].
    unfold W in *. rewrite (step_handle _ _ _ _ (S_term v _)). reflexivity.
  Qed.
End SeqHost.
