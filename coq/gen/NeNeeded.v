(* Why gen_accepted needs shape_ne: on a shape with a PRESENT but EMPTY check group the automaton (like the
   engine, whose validation rejects such plans) never releases - no trace at all is accepted up to a
   release, so "every accepted trace satisfies the monitor" would be vacuous there. *)
From Coercion.Base Require Import Plan.
From Coercion.Engine Require Import Shape Event Action ChecksRun Seq Block Final PlanSM Auto Accept AutoLemmas.
From Coercion.Gen Require Import Gen.

Definition sh_empty_group : shape := Build_shape (Build_groups (Some []) None None None None) [].

Definition stuck (s : st) : Prop := (s_ph s = PStart \/ s_ph s = PBypass) /\ s_g s = gtab0.

Lemma stuck_eps s s1 : stuck s -> eps sh_empty_group s = Some s1 -> stuck s1.
Proof.
  intros [[Hp|Hp] Hg] H; unfold eps, p_eps in H; rewrite Hp in H.
  - destruct (status_eqb (ist (s_img s) OPlan) Running); [|discriminate]. injection H as <-. split; [now right|exact Hg].
  - cbn [sh_empty_group sh_groups g_bypass] in H. rewrite Hg in H. discriminate.
Qed.

Lemma no_cur_block s b : stuck s -> cur_block sh_empty_group s b = None.
Proof. intros [[Hp|Hp] _]; unfold cur_block; now rewrite Hp. Qed.

Lemma tget_gtab0 g : tget gtab0 g = g0.
Proof. now destruct g. Qed.

Lemma stuck_handle s e s' : stuck s -> handle sh_empty_group s e = Some s' -> stuck s'.
Proof.
  intros Hs H. pose proof Hs as [Hp Hg]. destruct e as [a|a o|ob stt n ok r|snap|fin]; unfold handle in H.
  - (* Start: no group run is open, no block is current *)
    destruct (released s); [discriminate|]. unfold h_start in H. destruct (owes (s_late s) a); [discriminate|].
    destruct a as [[|b] g i|b q i]; rewrite ?(no_cur_block s _ Hs) in H; try discriminate.
    unfold p_chk_start in H. rewrite Hg, tget_gtab0 in H. discriminate.
  - (* End: only an owed End, which changes neither phase nor groups *)
    unfold h_end in H.
    assert (E : h_end_sub sh_empty_group s a o = None).
    { unfold h_end_sub. destruct a as [[|b] g i|b q i]; rewrite ?(no_cur_block s _ Hs); try reflexivity.
      unfold p_chk_end. now rewrite Hg, tget_gtab0. }
    rewrite E in H. destruct o; try discriminate.
    destruct (remove_one a (s_late s)); [|discriminate]. injection H as <-. exact Hs.
  - (* Write: only the plan's Running write *)
    destruct (released s); [discriminate|]. unfold h_write in H.
    destruct (negb (obj_in_shape sh_empty_group ob)); [discriminate|].
    assert (E : forall x, h_write_obj sh_empty_group s ob stt n ok r = Some x -> stuck x).
    { intros x Hx. unfold h_write_obj in Hx. destruct ob as [|[|b] g|b|b q|a].
      - unfold p_write in Hx. destruct Hp as [Hp|Hp]; rewrite Hp in Hx; [|discriminate].
        destruct (status_eqb stt Running && reason_eqb r FRUnknown); [|discriminate]. injection Hx as <-.
        split; [now left|exact Hg].
      - unfold p_chk_verdict in Hx. rewrite Hg, tget_gtab0 in Hx. destruct stt; discriminate.
      - rewrite (no_cur_block s _ Hs) in Hx. destruct stt; discriminate.
      - rewrite (no_cur_block s _ Hs) in Hx. discriminate.
      - rewrite (no_cur_block s _ Hs) in Hx. discriminate.
      - unfold h_write_act in Hx.
        destruct a as [[|b] g i|b q i]; rewrite ?(no_cur_block s _ Hs) in Hx;
          try (destruct stt, n; try destruct ok; discriminate).
        assert (Hm : p_chk_mark sh_empty_group s g i = None).
        { unfold p_chk_mark. rewrite Hg, tget_gtab0. destruct g; cbn [sh_empty_group sh_groups grp_get g_bypass g_pre g_cont g_post g_deferred]; try reflexivity.
          unfold g_mark, g0. cbn [g_act length]. assert (L : (i <? 0) = false) by (apply Nat.ltb_ge; apply Nat.le_0_l).
          now rewrite L, andb_false_r. }
        assert (Ha : p_chk_attempt sh_empty_group s g i n ok = None).
        { unfold p_chk_attempt. rewrite Hg, tget_gtab0. destruct g; reflexivity. }
        assert (Hf : p_chk_final s g i stt n ok = None).
        { unfold p_chk_final. now rewrite Hg, tget_gtab0. }
        rewrite Hm, Ha, Hf in Hx. destruct stt, n; try destruct ok; discriminate. }
    destruct ob; destruct n; try destruct ok; try discriminate;
      (destruct (h_write_obj sh_empty_group s _ stt _ _ r) as [x|] eqn:Ex; [|discriminate]);
      injection H as <-; exact (E _ eq_refl).
  - unfold h_read in H. destruct (s_fin s); [destruct (images_agree _ _ _)|]; try discriminate; now injection H as <-.
  - unfold h_release in H. destruct Hp as [Hp|Hp]; rewrite Hp in H; discriminate.
Qed.

Theorem empty_group_never_released tr s :
  run sh_empty_group init tr = Some s -> released s = false.
Proof.
  intro H. assert (Hs : stuck s).
  { apply (run_inv stuck sh_empty_group) with (tr := tr) (s := init); [|split; [now left|reflexivity]|exact H].
    apply step_inv; [apply stuck_eps|apply stuck_handle]. }
  destruct Hs as [[Hp|Hp] _]; unfold released; now rewrite Hp.
Qed.

(* the shape is well-formed in the sense of shape_wf, and only shape_ne excludes it *)
Example sh_empty_group_wf : shape_wf sh_empty_group = true /\ shape_ne sh_empty_group = false.
Proof. split; reflexivity. Qed.

Theorem shape_ne_needed :
  shape_wf sh_empty_group = true /\ shape_ne sh_empty_group = false /\
  forall (tr : list event) (s : st), run sh_empty_group init tr = Some s -> released s = false.
Proof. exact (conj (proj1 sh_empty_group_wf) (conj (proj2 sh_empty_group_wf) empty_group_never_released)). Qed.
