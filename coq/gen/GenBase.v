(* Basic lemmas for simulating the automaton along a generated trace: how [step] finds its epsilon-moves
   (lazily: handler first, else one move and again), runs whose FIRST event may use a given number of
   moves, explicit states. *)
From Coq Require Import Lia.
From Coercion.Base Require Import Plan.
From Coercion.Engine Require Import Shape Event Action ChecksRun Seq Block Final PlanSM Auto Accept AutoLemmas.
From Coercion.Gen Require Import Gen.

(* ---- explicit states (reason FRUnknown, nothing released) ---- *)
Definition mkb (ph : bphase) (t : gtab) (th : thr) (c : bool) (qs : list sst) : bst :=
  {| b_ph := ph; b_g := t; b_thr := th; b_cause := c; b_seqs := qs |}.

Definition mkst (ph : pphase) (t : gtab) (th : thr) (im : dimg) (cb : nat) (b : bst) (late : list aref) : st :=
  {| s_img := im; s_reason := FRUnknown; s_ph := ph; s_g := t; s_thr := th; s_cb := cb; s_b := b;
     s_late := late; s_fin := None |}.

(* ---- step: the handler, or the handler after epsilon-moves ---- *)
Lemma heps_here sh f s e s' : handle sh s e = Some s' -> handle_eps sh f s e = Some s'.
Proof. intro H. destruct f; simpl; now rewrite H. Qed.

Lemma heps_next sh f s s1 e :
  handle sh s e = None -> eps sh s = Some s1 -> handle_eps sh (S f) s e = handle_eps sh f s1 e.
Proof. intros H E. simpl. now rewrite H, E. Qed.

Lemma heps_mono sh f f' s e s' : handle_eps sh f s e = Some s' -> f <= f' -> handle_eps sh f' s e = Some s'.
Proof.
  revert f' s. induction f as [|f IH]; intros f' s H L; simpl in H.
  - destruct (handle sh s e) eqn:E; [|discriminate]. injection H as <-. now apply heps_here.
  - destruct (handle sh s e) eqn:E.
    + injection H as <-. now apply heps_here.
    + destruct (eps sh s) as [s1|] eqn:E1; [|discriminate].
      destruct f' as [|f']; [lia|]. rewrite (heps_next _ _ _ _ _ E E1). apply IH; [assumption|lia].
Qed.

Lemma step_heps sh f s e s' : handle_eps sh f s e = Some s' -> f <= eps_fuel -> step sh s e = Some s'.
Proof. intros H L. unfold step. now rewrite (heps_mono _ _ _ _ _ _ H L). Qed.

Lemma step_handle sh s e s' : handle sh s e = Some s' -> step sh s e = Some s'.
Proof. intro H. unfold step. now rewrite (heps_here sh eps_fuel _ _ _ H). Qed.

Lemma run_cons_handle sh s e s1 tr : handle sh s e = Some s1 -> run sh s (e :: tr) = run sh s1 tr.
Proof. intro H. simpl. now rewrite (step_handle _ _ _ _ H). Qed.

(* ---- acceptance up to the release ---- *)
(* the automaton runs [tr] from [s] and ends released *)
Definition AccR (sh : shape) (s : st) (tr : list event) : Prop :=
  exists fin, run sh s tr = Some fin /\ released fin = true.

(* the same, the first event being found within [f] epsilon-moves *)
Definition runf (sh : shape) (f : nat) (s : st) (tr : list event) : option st :=
  match tr with
  | [] => Some s
  | e :: tr' => match handle_eps sh f s e with Some s' => run sh s' tr' | None => None end
  end.

Definition Acc (sh : shape) (f : nat) (s : st) (tr : list event) : Prop :=
  exists fin, runf sh f s tr = Some fin /\ released fin = true.

Lemma Acc_AccR sh f s tr : f <= eps_fuel -> Acc sh f s tr -> AccR sh s tr.
Proof.
  intros L (fin & H & R). exists fin. split; [|assumption]. destruct tr as [|e tr]; simpl in *; [assumption|].
  destruct (handle_eps sh f s e) as [s'|] eqn:E; [|discriminate]. now rewrite (step_heps _ _ _ _ _ E L).
Qed.

Lemma Acc_mono sh f f' s tr : f <= f' -> Acc sh f s tr -> Acc sh f' s tr.
Proof.
  intros L (fin & H & R). exists fin. split; [|assumption]. destruct tr as [|e tr]; simpl in *; [assumption|].
  destruct (handle_eps sh f s e) as [s'|] eqn:E; [|discriminate]. now rewrite (heps_mono _ _ _ _ _ _ E L).
Qed.

(* the first event is taken by the handler in [s] itself *)
Lemma Acc_cons sh f s e s1 tr : handle sh s e = Some s1 -> AccR sh s1 tr -> Acc sh f s (e :: tr).
Proof. intros H (fin & Hr & R). exists fin. split; [|assumption]. simpl. now rewrite (heps_here _ f _ _ _ H). Qed.

(* the first event is not taken in [s]; one epsilon-move *)
Lemma Acc_skip sh f s s1 e tr :
  handle sh s e = None -> eps sh s = Some s1 -> Acc sh f s1 (e :: tr) -> Acc sh (S f) s (e :: tr).
Proof.
  intros H E (fin & Hr & R). exists fin. split; [|assumption]. unfold runf in *.
  now rewrite (heps_next _ _ _ _ _ H E).
Qed.

Lemma AccR_app sh s s1 tr1 tr2 : run sh s tr1 = Some s1 -> AccR sh s1 tr2 -> AccR sh s (tr1 ++ tr2).
Proof. intros H (fin & Hr & R). exists fin. split; [|assumption]. now rewrite run_app, H. Qed.

Lemma AccR_cons sh s e s1 tr : handle sh s e = Some s1 -> AccR sh s1 tr -> AccR sh s (e :: tr).
Proof. intros H (fin & Hr & R). exists fin. split; [|assumption]. now rewrite (run_cons_handle _ _ _ _ _ H). Qed.

(* ---- the image of a trace ---- *)
Lemma img_of_app tr1 tr2 im : img_of (tr1 ++ tr2) im = img_of tr2 (img_of tr1 im).
Proof. revert im; induction tr1 as [|e tr IH]; intro im; simpl; auto. destruct e; auto. Qed.

Definition cellv (st : status) (n : nat) (ok : bool) : cell := {| c_st := st; c_n := n; c_ok := ok |}.

(* ---- small facts ---- *)
Lemma aref_eqb_refl a : aref_eqb a a = true.
Proof. now apply aref_eqb_eq. Qed.
Lemma obj_eqb_refl o : obj_eqb o o = true.
Proof. now apply obj_eqb_eq. Qed.
Lemma status_eqb_refl x : status_eqb x x = true.
Proof. now destruct x. Qed.
Lemma eqb_refl b : Bool.eqb b b = true.
Proof. now destruct b. Qed.

Lemma upd_upd {A} (l : list A) i x y : upd (upd l i x) i y = upd l i y.
Proof. revert i; induction l as [|z l IH]; intros [|i]; simpl; auto. now rewrite IH. Qed.

(* ---- the head of a trace is not taken by the handler in s (step's lazy search moves on) ---- *)
Definition Blocked (sh : shape) (s : st) (tr : list event) : Prop :=
  exists e tr', tr = e :: tr' /\ handle sh s e = None.

Lemma Blocked_cons sh s e tr : handle sh s e = None -> Blocked sh s (e :: tr).
Proof. intro H. now exists e, tr. Qed.

(* a fragment that is empty or starts with an event that is not taken *)
Lemma Blocked_app sh s fr tr :
  (fr = [] \/ Blocked sh s fr) -> Blocked sh s tr -> Blocked sh s (fr ++ tr).
Proof.
  intros [->|(e & fr' & -> & H)] B; [exact B|]. exists e, (fr' ++ tr). split; [reflexivity|assumption].
Qed.

Lemma Acc_skip' sh f s s1 tr :
  Blocked sh s tr -> eps sh s = Some s1 -> Acc sh f s1 tr -> Acc sh (S f) s tr.
Proof. intros (e & tr' & -> & H) E A. eapply Acc_skip; eauto. Qed.

(* a run whose first event is taken by the handler in s itself *)
Lemma Acc_direct sh f s e s1 tr : handle sh s e = Some s1 -> AccR sh s (e :: tr) -> Acc sh f s (e :: tr).
Proof.
  intros H (fin & Hr & R). rewrite (run_cons_handle _ _ _ _ _ H) in Hr.
  eapply Acc_cons; eauto. now exists fin.
Qed.

Lemma AccR_of_Acc sh s tr : Acc sh eps_fuel s tr -> AccR sh s tr.
Proof. apply Acc_AccR. lia. Qed.
