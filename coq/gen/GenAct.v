(* One action's attempts, wherever the action lives (a check group of the plan or of a block, a sequence):
   [mk x im late] is the state of the automaton with the action in state x, durable image im and owed
   Ends late; the host shows how the four handlers act on mk (hypotheses), the loop is proved once. *)
From Coq Require Import Lia.
From Coercion.Base Require Import Plan.
From Coercion.Engine Require Import Shape Event Action ChecksRun Seq Block Final PlanSM Auto Accept AutoLemmas.
From Coercion.Gen Require Import Gen GenBase.

Section ActRun.
  Variables (sh : shape) (a : aref) (r : nat) (oc : nat -> outcome).
  Variable mk : ast -> dimg -> list aref -> st.

  Hypothesis Hstart : forall k im,
    c_st (iget im (OAct a)) = Running -> c_n (iget im (OAct a)) = k ->
    handle sh (mk (ARun k) im []) (EvStart a) = Some (mk (AFly k) im []).
  Hypothesis Hend : forall k o im,
    handle sh (mk (AFly k) im []) (EvEnd a o) = Some (mk (ARet k o) im []).
  Hypothesis Hatt : forall k o im,
    handle sh (mk (ARet k o) im []) (W (OAct a) Running (S k) (outcome_ok o))
    = Some (mk (after_attempt r k o) (iset im (OAct a) (cellv Running (S k) (outcome_ok o))) []).
  (* the engine's deadline fires while the plugin is in flight: the End is owed ... *)
  Hypothesis Hover : forall k im,
    handle sh (mk (AFly k) im []) (W (OAct a) Running (S k) false)
    = Some (mk (after_attempt r k OOverrun) (iset im (OAct a) (cellv Running (S k) false)) [a]).
  (* ... and accepted late *)
  Hypothesis Hlate : forall k im,
    handle sh (mk (after_attempt r k OOverrun) im [a]) (EvEnd a OOverrun)
    = Some (mk (after_attempt r k OOverrun) im []).

  Lemma attempt_run k im :
    c_st (iget im (OAct a)) = Running -> c_n (iget im (OAct a)) = k ->
    run sh (mk (ARun k) im []) (attempt_events a k (oc k))
    = Some (mk (after_attempt r k (oc k)) (iset im (OAct a) (cellv Running (S k) (outcome_ok (oc k)))) []).
  Proof.
    intros H1 H2. unfold attempt_events.
    destruct (oc k) eqn:E;
      try (rewrite (run_cons_handle _ _ _ _ _ (Hstart k im H1 H2)), (run_cons_handle _ _ _ _ _ (Hend k _ im)),
             (run_cons_handle _ _ _ _ _ (Hatt k _ im)); reflexivity).
    rewrite (run_cons_handle _ _ _ _ _ (Hstart k im H1 H2)). simpl outcome_ok.
    rewrite (run_cons_handle _ _ _ _ _ (Hover k im)), (run_cons_handle _ _ _ _ _ (Hlate k _)). reflexivity.
  Qed.

  Lemma img_attempt_events k o im :
    img_of (attempt_events a k o) im = iset im (OAct a) (cellv Running (S k) (outcome_ok o)).
  Proof. destruct o; reflexivity. Qed.

  Lemma after_attempt_cases k o :
    (after_attempt r k o = ARun (S k) /\ S k <= r) \/ (exists v, after_attempt r k o = APend v (S k)).
  Proof.
    unfold after_attempt. destruct o; try (right; eexists; reflexivity);
      (destruct (S k <=? r) eqn:LE; [left; split; [reflexivity|now apply Nat.leb_le]|right; eexists; reflexivity]).
  Qed.

  Lemma attempts_run fuel : forall k im,
    S r <= fuel + k -> k <= r ->
    c_st (iget im (OAct a)) = Running -> c_n (iget im (OAct a)) = k ->
    exists v n, snd (attempts oc a r k fuel) = (v, n) /\
      run sh (mk (ARun k) im []) (fst (attempts oc a r k fuel))
      = Some (mk (APend v n) (img_of (fst (attempts oc a r k fuel)) im) []).
  Proof.
    induction fuel as [|fuel IH]; intros k im L Lk H1 H2.
    - exfalso. lia.
    - cbn [attempts]. pose proof (attempt_run k im H1 H2) as Hr.
      pose proof (img_attempt_events k (oc k) im) as Hi.
      destruct (after_attempt_cases k (oc k)) as [[EA LE]|[v EA]]; rewrite EA in *.
      + destruct (IH (S k) (iset im (OAct a) (cellv Running (S k) (outcome_ok (oc k))))) as (v & n & Hs & Hrun).
        { lia. } { lia. } { now rewrite iget_iset_same. } { now rewrite iget_iset_same. }
        exists v, n. destruct (attempts oc a r (S k) fuel) as [tr res]. cbn [fst snd] in *. split; [assumption|].
        now rewrite run_app, Hr, img_of_app, Hi.
      + exists v, (S k). cbn [fst snd]. split; [reflexivity|]. now rewrite Hr, Hi.
  Qed.

  (* the whole action from its mark (durable (Running,0)) to the state before its terminal write *)
  Lemma act_attempts im :
    c_st (iget im (OAct a)) = Running -> c_n (iget im (OAct a)) = 0 ->
    exists v n, snd (attempts oc a r 0 (S r)) = (v, n) /\
      run sh (mk (ARun 0) im []) (fst (attempts oc a r 0 (S r)))
      = Some (mk (APend v n) (img_of (fst (attempts oc a r 0 (S r))) im) []).
  Proof. intros. apply attempts_run; auto; lia. Qed.
End ActRun.
