(* Reference specification for C20, written without reference to the cursor machine:

   - [parse_plan]: a recursive-descent reading of a list of builder calls as a bracketed pre-order
     serialisation of a plan (AddChecks / AddBlock / AddSequence open an element, Up closes it, the end
     of the list closes everything still open).  It yields the tree "directly constructing the same
     hierarchy" gives, or the first call that does not fit, with the class of that misuse.
   - [spec_session]: what every call of a session must return: nothing but `ok` while the calls parse;
     from the first misuse on, that one error, from every call and from Plan(), and no tree; after a
     successful Plan() the use-after-emit error; Reset starts afresh.
   - [monitor]: the stickiness part of the property as a boolean function of the calls and of what they
     returned alone (it is evaluated on the implementation's observations too).
   No proofs here. *)
From Coercion.Base Require Import Plan.
From Coercion.Builder Require Import Model.

(* ---- which arguments are unusable, whatever the position ---- *)
Definition bad_action (a : option aarg) : option eclass :=
  match a with
  | None => Some ENilArg
  | Some a => if nm_empty (aa_name a) || nm_empty (aa_descr a) || nm_empty (aa_plugin a)
              then Some EMissingName else None
  end.
Definition bad_checks (k : option karg) : option eclass :=
  match k with
  | None => Some ENilArg
  | Some k => if forallb (fun a => match a with Some _ => true | None => false end) (ka_acts k)
              then None else Some ENilArg
  end.
Definition bad_seq (q : option sarg) : option eclass :=
  match q with
  | None => Some ENilArg
  | Some q => if nm_empty (sa_name q) || nm_empty (sa_descr q) then Some EMissingName else None
  end.
Definition bad_block (b : barg) : option eclass :=
  if nm_empty (ba_name b) || nm_empty (ba_descr b) then Some EMissingName else None.
Definition bad_plan (a : parg) : option eclass :=
  if nm_blank (pa_name a) || nm_blank (pa_descr a) then Some EMissingName
  else match pa_gid a with GNil => Some ENilGroup | _ => None end.

(* a usable argument in a place where this kind of element cannot go *)
Definition misfit (arg : option eclass) : eclass := match arg with Some e => e | None => EWrongLevel end.

(* ---- recursive descent ---- *)
Inductive stop := SUp               (* the element was closed by its Up *)
                | SEnd              (* the input ended (or Plan() / Reset came) with the element still open *)
                | SBad (e : eclass) (* the next call is a misuse of this class *)
                | SFuel.            (* never returned when fuel > length of the input (Proofs: parse_plan_fuel) *)
Record pr (A : Type) := { p_val : A;             (* the element as far as it was built *)
                          p_n : nat;             (* number of calls consumed *)
                          p_stop : stop;
                          p_rest : list call }.  (* what follows the consumed calls *)
Arguments p_val {A}. Arguments p_n {A}. Arguments p_stop {A}. Arguments p_rest {A}.
Arguments Build_pr {A}.

Definition addn {A} (n : nat) (p : pr A) : pr A := Build_pr (p_val p) (n + p_n p) (p_stop p) (p_rest p).

(* actions ::= AddAction*  (Up | end) *)
Fixpoint parse_acts (acts : list (option nat)) (l : list call) : pr (list (option nat)) :=
  match l with
  | [] => Build_pr acts 0 SEnd []
  | c :: r =>
    match c with
    | CAddAction a => match bad_action a, a with
                      | None, Some a => addn 1 (parse_acts (acts ++ [Some (aa_lab a)]) r)
                      | Some e, _ => Build_pr acts 0 (SBad e) l
                      | None, None => Build_pr acts 0 (SBad ENilArg) l
                      end
    | CUp => Build_pr acts 1 SUp r
    | CPlan | CReset _ => Build_pr acts 0 SEnd l
    | CAddChecks _ k => Build_pr acts 0 (SBad (misfit (bad_checks k))) l
    | CAddBlock b => Build_pr acts 0 (SBad (misfit (bad_block b))) l
    | CAddSeq q => Build_pr acts 0 (SBad (misfit (bad_seq q))) l
    end
  end.

(* after an inner element: go on with the enclosing one if it was closed, otherwise stop where it stopped *)
Definition resume {A B} (p : pr A) (v : B) (k : list call -> pr B) : pr B :=
  match p_stop p with
  | SUp => addn (S (p_n p)) (k (p_rest p))
  | s => Build_pr v (S (p_n p)) s (p_rest p)
  end.

(* block_body ::= (AddChecks actions | AddSequence actions)*  (Up | end) *)
Fixpoint parse_block (fuel : nat) (b : tblock) (l : list call) : pr tblock :=
  match fuel with
  | 0 => Build_pr b 0 SFuel l
  | S fuel =>
    match l with
    | [] => Build_pr b 0 SEnd []
    | c :: r =>
      match c with
      | CUp => Build_pr b 1 SUp r
      | CPlan | CReset _ => Build_pr b 0 SEnd l
      | CAddChecks t k =>
        match bad_checks k, k with
        | None, Some k =>
          match t with
          | CTBad => Build_pr b 0 (SBad EUnknownType) l
          | CT g =>
            match bget g b with
            | Some _ => Build_pr b 0 (SBad EDuplicate) l
            | None =>
              let p := parse_acts (ka_acts k) r in
              let b' := bset g (Some {| tk_lab := ka_lab k; tk_acts := p_val p |}) b in
              resume p b' (parse_block fuel b')
            end
          end
        | Some e, _ => Build_pr b 0 (SBad e) l
        | None, None => Build_pr b 0 (SBad ENilArg) l
        end
      | CAddSeq q =>
        match bad_seq q, q with
        | None, Some q =>
          let p := parse_acts (sa_acts q) r in
          let b' := bset_seqs (tb_seqs b ++ [{| tq_lab := sa_lab q; tq_acts := p_val p |}]) b in
          resume p b' (parse_block fuel b')
        | Some e, _ => Build_pr b 0 (SBad e) l
        | None, None => Build_pr b 0 (SBad ENilArg) l
        end
      | CAddAction a => Build_pr b 0 (SBad (misfit (bad_action a))) l
      | CAddBlock a => Build_pr b 0 (SBad (misfit (bad_block a))) l
      end
    end
  end.

(* plan_body ::= (AddChecks actions | AddBlock block_body)*  end *)
Fixpoint parse_plan (fuel : nat) (t : tplan) (l : list call) : pr tplan :=
  match fuel with
  | 0 => Build_pr t 0 SFuel l
  | S fuel =>
    match l with
    | [] => Build_pr t 0 SEnd []
    | c :: r =>
      match c with
      | CUp => Build_pr t 0 (SBad EUpFromRoot) l
      | CPlan | CReset _ => Build_pr t 0 SEnd l
      | CAddChecks ty k =>
        match bad_checks k, k with
        | None, Some k =>
          match ty with
          | CTBad => Build_pr t 0 (SBad EUnknownType) l
          | CT g =>
            match pget g t with
            | Some _ => Build_pr t 0 (SBad EDuplicate) l
            | None =>
              let p := parse_acts (ka_acts k) r in
              let t' := pset g (Some {| tk_lab := ka_lab k; tk_acts := p_val p |}) t in
              resume p t' (parse_plan fuel t')
            end
          end
        | Some e, _ => Build_pr t 0 (SBad e) l
        | None, None => Build_pr t 0 (SBad ENilArg) l
        end
      | CAddBlock a =>
        match bad_block a with
        | Some e => Build_pr t 0 (SBad e) l
        | None =>
          let p := parse_block fuel (new_block (ba_lab a)) r in
          let t' := pset_blocks (tp_blocks t ++ [p_val p]) t in
          resume p t' (parse_plan fuel t')
        end
      | CAddSeq q => Build_pr t 0 (SBad (misfit (bad_seq q))) l
      | CAddAction a => Build_pr t 0 (SBad (misfit (bad_action a))) l
      end
    end
  end.

(* the reading of a whole list: enough fuel for any list (Proofs: parse_fuel) *)
Definition parse (t : tplan) (l : list call) : pr tplan := parse_plan (S (length l)) t l.

(* ---- what every call must return ---- *)
Definition ok_res : res := {| r_ret := ROk; r_plan := None; r_after := None |}.
Definition stuck_res (e : error) : res := {| r_ret := RErr e; r_plan := None; r_after := Some e |}.
Definition emit_res (t : tplan) : res := {| r_ret := ROk; r_plan := Some t; r_after := None |}.

Definition is_reset (c : call) : bool := match c with CReset _ => true | _ => false end.

(* after a successful Plan(): the first call, whatever it is, is a misuse (use after emit); its error is
   recorded and it is what that call and every later call, Plan() included, return - until Reset *)
Definition done_results (i : nat) (l : list call) : list res :=
  map (fun _ => stuck_res (EUseAfterEmit, i)) l.

(* how a parse that stopped goes on (the list holds no Reset) *)
Definition finish (s : stop) (t : tplan) (j : nat) (rest : list call) : list res :=
  match s with
  | SBad e => map (fun _ => stuck_res (e, j)) rest          (* the first misuse, from every later call *)
  | SEnd => match rest with
            | CPlan :: r => emit_res t :: done_results (S j) r
            | _ => []
            end
  | _ => []
  end.

(* the calls that follow a successful New/Reset at index i-1, up to the next Reset *)
Definition body_results (i : nat) (t : tplan) (l : list call) : list res :=
  let p := parse t l in
  repeat ok_res (p_n p) ++ finish (p_stop p) (p_val p) (i + p_n p) (p_rest p).

Definition fresh (a : parg) : tplan :=
  match pa_gid a with GSome n => pset_gid (Some n) (new_plan (pa_lab a)) | _ => new_plan (pa_lab a) end.

(* a Reset at index i followed by the calls up to the next Reset *)
Definition epoch_results (i : nat) (a : parg) (body : list call) : list res :=
  match bad_plan a with
  | Some e => stuck_res (e, i) :: map (fun _ => stuck_res (e, i)) body
  | None => ok_res :: body_results (S i) (fresh a) body
  end.

(* cut the list at its Resets *)
Fixpoint split (l : list call) : list call * list (parg * list call) :=
  match l with
  | [] => ([], [])
  | CReset a :: r => let (h, t) := split r in ([], (a, h) :: t)
  | c :: r => let (h, t) := split r in (c :: h, t)
  end.

Fixpoint epochs_results (i : nat) (es : list (parg * list call)) : list res :=
  match es with
  | [] => []
  | (a, body) :: r => epoch_results i a body ++ epochs_results (S (i + length body)) r
  end.

Definition spec_session (x : session) : list res :=
  let (a, l) := x in
  match bad_plan a with
  | Some e => [{| r_ret := RErr (e, 0); r_plan := None; r_after := None |}]     (* New failed: there is no builder *)
  | None => let (h, t) := split l in
            ok_res :: body_results 1 (fresh a) h ++ epochs_results (S (length h)) t
  end.

(* ---- the stickiness monitor: a function of the calls and their results alone ----
   state: the error in force (None = none), whether a plan has been emitted since the last Reset *)
Definition eclass_eqb (a b : eclass) : bool :=
  match a, b with
  | EMissingName, EMissingName | ENilArg, ENilArg | EWrongLevel, EWrongLevel | EDuplicate, EDuplicate
  | EUnknownType, EUnknownType | EUpFromRoot, EUpFromRoot | EUseAfterEmit, EUseAfterEmit
  | ENilGroup, ENilGroup | EOther, EOther => true
  | _, _ => false
  end.
Definition error_eqb (a b : error) : bool := eclass_eqb (fst a) (fst b) && Nat.eqb (snd a) (snd b).
Definition oerror_eqb (a b : option error) : bool :=
  match a, b with Some a, Some b => error_eqb a b | None, None => true | _, _ => false end.
Definition rclass_eqb (a b : rclass) : bool :=
  match a, b with
  | ROk, ROk | RPanic, RPanic => true
  | RErr a, RErr b => error_eqb a b
  | _, _ => false
  end.
Definition is_uae (r : rclass) : bool :=
  match r with RErr (EUseAfterEmit, _) => true | _ => false end.

Record mon := { m_cur : option error; m_emitted : bool }.

(* one call; None = the property is violated here.  There is no exemption for use after emit: once an
   error is in force EVERY call but Reset returns exactly that error value, and no tree. *)
Definition mon_step (m : mon) (c : call) (r : res) : option mon :=
  match r_ret r with
  | RPanic => None                                                          (* never panics *)
  | ret =>
    match c with
    | CReset _ =>
      (* Reset reports its own failure, and that is the error in force from now on *)
      if rclass_eqb ret (of_err (r_after r)) && is_none (r_plan r)
      then Some {| m_cur := r_after r; m_emitted := false |} else None
    | _ =>
      match m_cur m with
      | Some e => (* the first misuse, again; no tree *)
                  if rclass_eqb ret (RErr e) && is_none (r_plan r) && oerror_eqb (r_after r) (Some e)
                  then Some m else None
      | None =>
        if m_emitted m then
          (* the first call after the plan was emitted is a misuse: a use-after-emit error, in force from now on *)
          if is_uae ret && is_none (r_plan r) && rclass_eqb ret (of_err (r_after r))
          then Some {| m_cur := r_after r; m_emitted := true |} else None
        else match c with
             | CPlan => (* no misuse so far: a tree, no error *)
                        if rclass_eqb ret ROk && negb (is_none (r_plan r)) && is_none (r_after r)
                        then Some {| m_cur := None; m_emitted := true |} else None
             | _ => (* either fine, or this call is the first misuse and its error is in force from now on *)
                    if rclass_eqb ret (of_err (r_after r)) && is_none (r_plan r)
                    then Some {| m_cur := r_after r; m_emitted := false |} else None
             end
      end
    end
  end.

Fixpoint mon_run (m : mon) (l : list call) (rs : list res) : bool :=
  match l, rs with
  | [], [] => true
  | c :: l', r :: rs' => match mon_step m c r with Some m' => mon_run m' l' rs' | None => false end
  | _, _ => false                                     (* one result per call *)
  end.

(* a session: New behaves as Reset on a new builder; if it fails there is nothing else *)
Definition monitor (x : session) (rs : list res) : bool :=
  match rs with
  | [] => false
  | r0 :: rs' =>
    match r_ret r0 with
    | ROk => is_none (r_plan r0) && is_none (r_after r0)
             && mon_run {| m_cur := None; m_emitted := false |} (snd x) rs'
    | RErr _ => is_none (r_plan r0) && match rs' with [] => true | _ => false end
    | RPanic => false
    end
  end.
