(* The builder as it was BEFORE the fix 496ee11 (B3): setErr overwrote the recorded error, the
   "after Plan()" branches ran before the sticky-error check, Plan() returned an unrecorded error when
   called twice, Reset cleared the error only at its end.  Kept to show (ProofsMonitor.pre_B3_refuted) that
   this behaviour violates the stickiness monitor.  No proofs here. *)
From Coercion.Base Require Import Plan.
From Coercion.Builder Require Import Model.

Module PreB3.
Definition set_err (e : error) (s : st) : st := with_err (Some e) s.          (* b.setErr *)





(* `if b.emitted { setErr(...after Plan()...); return b }; if b.err != nil { return b }` *)
Definition guarded (i : nat) (s : st) (body : st -> out) : out :=
  if emitted s then Next (set_err (EUseAfterEmit, i) s)
  else match err s with Some _ => Next s | None => body s end.

Definition fail (c : eclass) (i : nat) (s : st) : out := Next (set_err (c, i) s).

Definition up (i : nat) (s : st) : out :=
  guarded i s (fun s =>
    match chain s with
    | _ :: ((_ :: _) as c') => Next (with_chain c' s)      (* b.chain = b.chain[:len(b.chain)-1] *)
    | _ => fail EUpFromRoot i s                      (* len(b.chain) < 2 *)
    end).

Definition is_none {A} (o : option A) : bool := match o with None => true | Some _ => false end.

Definition add_checks (i : nat) (t : ctype) (k : option karg) (s : st) : out :=
  guarded i s (fun s =>
    match k with
    | None => fail ENilArg i s
    | Some ka =>
      if existsb is_none (ka_acts ka) then fail ENilArg i s else
      let new := {| tk_lab := ka_lab ka; tk_acts := ka_acts ka |} in
      match chain s with
      | [] => Boom                                   (* current() panics on an empty chain *)
      | FPlan :: _ =>
        match t with
        | CTBad => fail EUnknownType i s
        | CT g => if is_none (pget g (tree s))
                  then Next (with_chain (FChecks g :: chain s) (with_tree (pset g (Some new) (tree s)) s))
                  else fail EDuplicate i s
        end
      | FBlock :: _ =>
        match last_block (tree s) with
        | None => Boom                               (* unreachable: the chain holds a pointer to the block *)
        | Some b =>
          match t with
          | CTBad => fail EUnknownType i s
          | CT g => if is_none (bget g b)
                    then Next (with_chain (FChecks g :: chain s)
                                 (with_tree (in_last_block (bset g (Some new)) (tree s)) s))
                    else fail EDuplicate i s
          end
        end
      | _ => fail EWrongLevel i s
      end
    end).

Definition add_block (i : nat) (a : barg) (s : st) : out :=
  guarded i s (fun s =>
    if nm_empty (ba_name a) then fail EMissingName i s else
    if nm_empty (ba_descr a) then fail EMissingName i s else
    match chain s with
    | [] => Boom
    | FPlan :: _ => Next (with_chain (FBlock :: chain s)
                            (with_tree (pset_blocks (tp_blocks (tree s) ++ [new_block (ba_lab a)]) (tree s)) s))
    | _ => fail EWrongLevel i s
    end).

Definition add_seq (i : nat) (q : option sarg) (s : st) : out :=
  guarded i s (fun s =>
    match q with
    | None => fail ENilArg i s
    | Some a =>
      if nm_empty (sa_name a) then fail EMissingName i s else
      if nm_empty (sa_descr a) then fail EMissingName i s else
      match chain s with
      | [] => Boom
      | FBlock :: _ =>
        Next (with_chain (FSeq :: chain s)
                (with_tree (in_last_block (fun b => bset_seqs (tb_seqs b ++ [{| tq_lab := sa_lab a; tq_acts := sa_acts a |}]) b)
                                          (tree s)) s))
      | _ => fail EWrongLevel i s
      end
    end).

Definition add_action (i : nat) (a : option aarg) (s : st) : out :=
  guarded i s (fun s =>
    match a with
    | None => fail ENilArg i s
    | Some a =>
      if nm_empty (aa_name a) then fail EMissingName i s else
      if nm_empty (aa_descr a) then fail EMissingName i s else
      if nm_empty (aa_plugin a) then fail EMissingName i s else
      match chain s with
      | [] => Boom
      | FSeq :: _ => Next (with_tree (in_last_block (in_last_seq (qadd (aa_lab a))) (tree s)) s)
      | FChecks g :: FBlock :: _ => Next (with_tree (in_last_block (in_bgrp g (kadd (aa_lab a))) (tree s)) s)
      | FChecks g :: _ => Next (with_tree (in_pgrp g (kadd (aa_lab a)) (tree s)) s)
      | _ => fail EWrongLevel i s
      end
    end).

(* Reset: returns its error; (state, returned error) *)
Definition reset (d : dev) (i : nat) (a : parg) (s : st) : st * option error :=
  let s := with_chain [] (with_emitted false s) in                    (* b.emitted = false; b.chain = b.chain[:0] *)
  if nm_blank (pa_name a) || nm_blank (pa_descr a)
  then (set_err (EMissingName, i) s, Some (EMissingName, i))
  else
    let s := with_chain [FPlan] (with_tree (new_plan (pa_lab a)) s) in
    match pa_gid a with
    | GNone => (with_err None s, None)
    | GSome n => (with_err None (with_tree (pset_gid (Some n) (tree s)) s), None)
    | GNil => if dev_B2 d
              then (s, Some (ENilGroup, i))                          (* `return err`: b.err keeps its old value *)
              else (set_err (ENilGroup, i) s, Some (ENilGroup, i))
    end.

(* Plan(): (state, returned plan, returned error), or a panic *)

Definition emit (i : nat) (s : st) : pout :=
  if emitted s then PNext s None (Some (EUseAfterEmit, i))            (* does not call setErr *)
  else match err s with
       | Some e => PNext s None (Some e)
       | None => match chain s with
                 | [] => PBoom                                        (* b.chain[0] *)
                 | _ => PNext (with_emitted true s) (Some (tree s)) None
                 end
       end.

(* ---- results ---- *)


Definition of_err (e : option error) : rclass := match e with Some e => RErr e | None => ROk end.
Definition panic_res (s : st) : res := {| r_ret := RPanic; r_plan := None; r_after := err s |}.

Definition mut (o : out) (s : st) : st * res :=
  match o with
  | Next s' => (s', {| r_ret := of_err (err s'); r_plan := None; r_after := err s' |})
  | Boom => (s, panic_res s)
  end.

Definition step (d : dev) (i : nat) (s : st) (c : call) : st * res :=
  match c with
  | CUp => mut (up i s) s
  | CAddChecks t k => mut (add_checks i t k s) s
  | CAddBlock a => mut (add_block i a s) s
  | CAddSeq q => mut (add_seq i q s) s
  | CAddAction a => mut (add_action i a s) s
  | CReset a => let (s', e) := reset d i a s in (s', {| r_ret := of_err e; r_plan := None; r_after := err s' |})
  | CPlan => match emit i s with
             | PNext s' p e => (s', {| r_ret := of_err e; r_plan := p; r_after := err s' |})
             | PBoom => (s, panic_res s)
             end
  end.

Fixpoint run (d : dev) (i : nat) (s : st) (l : list call) : list res :=
  match l with
  | [] => []
  | c :: r => let (s', x) := step d i s c in x :: run d (S i) s' r
  end.

(* New(name, descr, options...): Reset on the zero builder; a failing Reset means no builder is returned
   (the options are applied a second time by New, which changes nothing).  Call 0 is New, the calls of
   the list are numbered from 1. *)
Definition zero : st := {| tree := new_plan 0; chain := []; err := None; emitted := false |}.

Definition run_session (d : dev) (x : session) : list res :=
  let (s, e) := reset d 0 (fst x) zero in
  match e with
  | Some e => [{| r_ret := RErr e; r_plan := None; r_after := None |}]
  | None => {| r_ret := ROk; r_plan := None; r_after := None |} :: run d 1 s (snd x)
  end.
End PreB3.
