From Coq Require Import Lia.
From Coercion.Base Require Import Plan.
From Coercion.Builder Require Import Model Spec Proofs ProofsPhases ProofsSteps.

(* what the machine returns from a state, given how the parser read the calls from there:
   `ok` for the calls consumed, then: the enclosing element goes on (the element was closed), or the
   run finishes as [finish] says *)
Definition follow {A} (d : dev) (i : nat) (p : pr A) (closed : A -> st) (built : A -> tplan) : list res :=
  repeat ok_res (p_n p) ++
  match p_stop p with
  | SUp => run d (i + p_n p) (closed (p_val p)) (p_rest p)
  | s => finish s (built (p_val p)) (i + p_n p) (p_rest p)
  end.

Lemma follow_addn {A} d i n (p : pr A) closed built :
  follow d i (addn n p) closed built = repeat ok_res n ++ follow d (i + n) p closed built.
Proof.
  unfold follow, addn. cbn [p_n p_stop p_val p_rest]. rewrite repeat_plus, <- app_assoc.
  now replace (i + (n + p_n p)) with (i + n + p_n p) by lia.
Qed.

(* ------------------------------------------------------------------ inside a group or a sequence *)
Section ActsLevel.
  Variable d : dev.
  Variables ctx parent : list (option nat) -> st.
  Hypothesis Hlive : forall acts, err (ctx acts) = None /\ emitted (ctx acts) = false.
  Hypothesis Hchain : forall acts, match chain (ctx acts) with FChecks _ :: _ | FSeq :: _ => True | _ => False end.
  Hypothesis Hadd : forall acts a i, bad_action (Some a) = None ->
                                     add_action i (Some a) (ctx acts) = Next (ctx (acts ++ [Some (aa_lab a)])).
  Hypothesis Hup : forall acts i, up i (ctx acts) = Next (parent acts).
  Hypothesis Hparent : forall acts, err (parent acts) = None.

  Lemma ctx_open acts : open (ctx acts).
  Proof.
    destruct (Hlive acts) as [He Hm]. repeat split; try assumption.
    pose proof (Hchain acts) as H. destruct (chain (ctx acts)); [contradiction|discriminate].
  Qed.

  Lemma ctx_not_block acts : match chain (ctx acts) with [] | FBlock :: _ => False | _ => True end.
  Proof. pose proof (Hchain acts) as H. destruct (chain (ctx acts)) as [|[|g| |] c]; tauto. Qed.
  Lemma ctx_not_plan acts : match chain (ctx acts) with [] | FPlan :: _ => False | _ => True end.
  Proof. pose proof (Hchain acts) as H. destruct (chain (ctx acts)) as [|[|g| |] c]; tauto. Qed.

  Lemma acts_bad acts i c r e :
    no_reset (c :: r) = true ->
    step d i (ctx acts) c = (set_err (e, i) (ctx acts), stuck_res (e, i)) ->
    run d i (ctx acts) (c :: r) = follow d i (Build_pr acts 0 (SBad e) (c :: r)) parent (fun a => tree (ctx a)).
  Proof.
    intros Hr Hs. unfold follow. cbn [p_n p_stop p_val p_rest repeat app]. rewrite Nat.add_0_r.
    apply run_finish; [apply ctx_open|exact Hr| |discriminate].
    exists c, r. split; [reflexivity|exact Hs].
  Qed.

  Lemma acts_level l : forall acts i,
    no_reset l = true ->
    run d i (ctx acts) l = follow d i (parse_acts acts l) parent (fun a => tree (ctx a)).
  Proof.
    induction l as [|c r IH]; intros acts i Hr; [reflexivity|].
    destruct (Hlive acts) as [He Hm].
    destruct c as [a| |t k|a|q|a|]; cbn [parse_acts].
    - discriminate Hr.
    - (* Up *)
      unfold follow. cbn [p_n p_stop p_val p_rest repeat app run step].
      rewrite Hup, mut_next by apply Hparent. now rewrite Nat.add_1_r.
    - apply acts_bad; [exact Hr|]. cbn [step].
      rewrite misfit_checks; [apply mut_fail; try reflexivity; try exact He|exact He|exact Hm|apply Hchain].
    - apply acts_bad; [exact Hr|]. cbn [step].
      rewrite misfit_block; [apply mut_fail; try reflexivity; try exact He|exact He|exact Hm|apply ctx_not_plan].
    - apply acts_bad; [exact Hr|]. cbn [step].
      rewrite misfit_seq; [apply mut_fail; try reflexivity; try exact He|exact He|exact Hm|apply ctx_not_block].
    - destruct (bad_action a) as [e|] eqn:Hb.
      + apply acts_bad; [exact Hr|]. cbn [step].
        rewrite (add_action_bad i _ a e He Hm Hb). apply mut_fail; try reflexivity; try exact He.
      + destruct a as [a|]; [|discriminate Hb].
        rewrite follow_addn. cbn [run step repeat app].
        rewrite (Hadd acts a i Hb), mut_next by apply Hlive.
        f_equal. rewrite Nat.add_1_r. apply IH.
        cbn [no_reset forallb] in Hr. now apply andb_true_iff in Hr.
    - (* Plan() *)
      unfold follow. cbn [p_n p_stop p_val p_rest repeat app]. rewrite Nat.add_0_r.
      apply run_finish; [apply ctx_open|exact Hr|exact I|]. intros _. right. now exists r.
  Qed.
End ActsLevel.

(* the three places where actions are added *)
Lemma acts_level_SPK d t g lab l acts i :
  no_reset l = true ->
  run d i (SPK t g lab acts) l =
  follow d i (parse_acts acts l) (fun a => SP (pset g (Some (K lab a)) t)) (fun a => pset g (Some (K lab a)) t).
Proof.
  intros Hr.
  apply (acts_level d (SPK t g lab) (fun a => SP (pset g (Some (K lab a)) t))); try exact Hr.
  - intros a. split; reflexivity.
  - intros a. exact I.
  - intros a x j Hb. rewrite add_action_good by (try reflexivity; exact Hb).
    cbn [chain SPK mk]. unfold SPK, mk, with_tree. cbn [tree chain err emitted].
    now rewrite in_pgrp_pset.
  - intros a j. reflexivity.
  - intros a. reflexivity.
Qed.

Lemma acts_level_SBK d t b g lab l acts i :
  no_reset l = true ->
  run d i (SBK t b g lab acts) l =
  follow d i (parse_acts acts l) (fun a => SB t (bset g (Some (K lab a)) b))
         (fun a => addb t (bset g (Some (K lab a)) b)).
Proof.
  intros Hr.
  apply (acts_level d (SBK t b g lab) (fun a => SB t (bset g (Some (K lab a)) b))); try exact Hr.
  - intros a. split; reflexivity.
  - intros a. exact I.
  - intros a x j Hb. rewrite add_action_good by (try reflexivity; exact Hb).
    cbn [chain SBK mk]. unfold SBK, mk, with_tree. cbn [tree chain err emitted].
    now rewrite in_last_block_addb, in_bgrp_bset.
  - intros a j. reflexivity.
  - intros a. reflexivity.
Qed.

Lemma acts_level_SQ d t b lab l acts i :
  no_reset l = true ->
  run d i (SQ t b lab acts) l =
  follow d i (parse_acts acts l) (fun a => SB t (addq b (Q lab a))) (fun a => addb t (addq b (Q lab a))).
Proof.
  intros Hr.
  apply (acts_level d (SQ t b lab) (fun a => SB t (addq b (Q lab a)))); try exact Hr.
  - intros a. split; reflexivity.
  - intros a. exact I.
  - intros a x j Hb. rewrite add_action_good by (try reflexivity; exact Hb).
    cbn [chain SQ mk]. unfold SQ, mk, with_tree. cbn [tree chain err emitted].
    now rewrite in_last_block_addb, in_last_seq_addq.
  - intros a j. reflexivity.
  - intros a. reflexivity.
Qed.
