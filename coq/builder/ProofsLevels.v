From Coq Require Import Lia.
From Coercion.Base Require Import Plan.
From Coercion.Builder Require Import Model Spec Proofs ProofsPhases ProofsSteps ProofsActs.

(* gluing an inner element to the enclosing one *)
Lemma resume_follow {A B} d i (p : pr A) (bv : A -> B) (k : list call -> pr B)
      (closed1 : A -> st) (closedO : B -> st) (builtO : B -> tplan) :
  (p_stop p = SUp ->
   run d (S i + p_n p) (closed1 (p_val p)) (p_rest p) = follow d (S i + p_n p) (k (p_rest p)) closedO builtO) ->
  ok_res :: follow d (S i) p closed1 (fun a => builtO (bv a)) =
  follow d i (resume p (bv (p_val p)) k) closedO builtO.
Proof.
  intros H. destruct (p_stop p) eqn:E.
  - rewrite resume_up by exact E. rewrite follow_addn. cbn [repeat app]. f_equal.
    unfold follow at 1. rewrite E. rewrite (H eq_refl).
    now replace (i + S (p_n p)) with (S i + p_n p) by lia.
  - rewrite resume_other by congruence. unfold follow. cbn [p_n p_stop p_val p_rest repeat app]. rewrite E.
    now replace (i + S (p_n p)) with (S i + p_n p) by lia.
  - rewrite resume_other by congruence. unfold follow. cbn [p_n p_stop p_val p_rest repeat app]. rewrite E.
    now replace (i + S (p_n p)) with (S i + p_n p) by lia.
  - rewrite resume_other by congruence. unfold follow. cbn [p_n p_stop p_val p_rest repeat app]. rewrite E.
    now replace (i + S (p_n p)) with (S i + p_n p) by lia.
Qed.

Lemma no_reset_tail c r : no_reset (c :: r) = true -> no_reset r = true.
Proof. cbn [no_reset forallb]. intros H. now apply andb_true_iff in H. Qed.

Lemma open_mk t f c : open (mk t (f :: c)).
Proof. repeat split. discriminate. Qed.

Lemma bad_here {A} d i s c r e (v : A) closed built :
  open s -> no_reset (c :: r) = true ->
  step d i s c = (set_err (e, i) s, stuck_res (e, i)) ->
  built v = tree s ->
  run d i s (c :: r) = follow d i (Build_pr v 0 (SBad e) (c :: r)) closed built.
Proof.
  intros Ho Hr Hs Hb. unfold follow. cbn [p_n p_stop p_val p_rest repeat app]. rewrite Nat.add_0_r, Hb.
  apply run_finish; [exact Ho|exact Hr| |discriminate].
  exists c, r. split; [reflexivity|exact Hs].
Qed.

(* ------------------------------------------------------------------ inside a block *)
Lemma block_level d fuel : forall l t b i,
  length l < fuel -> no_reset l = true ->
  run d i (SB t b) l = follow d i (parse_block fuel b l) (fun b' => SP (addb t b')) (fun b' => addb t b').
Proof.
  induction fuel as [|fuel IH]; intros l t b i Hl Hr; [lia|].
  destruct l as [|c r]; [reflexivity|]. cbn [length] in Hl.
  assert (Ho : open (SB t b)) by apply open_mk.
  destruct c as [a| |ty k|a|q|a|]; cbn [parse_block].
  - discriminate Hr.
  - (* Up *)
    unfold follow. cbn [p_n p_stop p_val p_rest repeat app run step]. now rewrite Nat.add_1_r.
  - (* AddChecks *)
    destruct (bad_checks k) as [e|] eqn:Hb.
    + apply bad_here; [exact Ho|exact Hr| |reflexivity]. cbn [step].
      rewrite (add_checks_bad i (SB t b) ty k e eq_refl eq_refl Hb). apply mut_fail; try reflexivity; try exact He.
    + destruct k as [k|]; [|discriminate Hb].
      assert (Hg : add_checks i ty (Some k) (SB t b) =
                   match ty with
                   | CTBad => fail EUnknownType i (SB t b)
                   | CT g => if is_none (bget g b)
                             then Next (SBK t b g (ka_lab k) (ka_acts k))
                             else fail EDuplicate i (SB t b)
                   end).
      { rewrite add_checks_good by (try reflexivity; exact Hb).
        cbn [chain SB mk tree]. rewrite last_block_addb.
        destruct ty as [g|]; [|reflexivity]. destruct (is_none (bget g b)); [|reflexivity].
        now rewrite in_last_block_addb. }
      destruct ty as [g|].
      * destruct (bget g b) as [k0|] eqn:Hgb; cbn [is_none] in Hg.
        -- apply bad_here; [exact Ho|exact Hr| |reflexivity]. cbn [step]. rewrite Hg. apply mut_fail; try reflexivity; try exact He.
        -- cbn [run step]. rewrite Hg, mut_next by reflexivity.
           rewrite acts_level_SBK by (eapply no_reset_tail; exact Hr).
           apply (resume_follow d i (parse_acts (ka_acts k) r) (fun a => bset g (Some (K (ka_lab k) a)) b)
                                (parse_block fuel _) _ (fun b' => SP (addb t b')) (fun b' => addb t b')).
           intros _. apply IH.
           ++ pose proof (suffix_length _ _ (parse_acts_suffix r (ka_acts k))). lia.
           ++ eapply suffix_no_reset; [apply parse_acts_suffix|eapply no_reset_tail; exact Hr].
      * apply bad_here; [exact Ho|exact Hr| |reflexivity]. cbn [step]. rewrite Hg. apply mut_fail; try reflexivity; try exact He.
  - (* AddBlock *)
    apply bad_here; [exact Ho|exact Hr| |reflexivity]. cbn [step].
    rewrite misfit_block; [apply mut_fail; try reflexivity; try exact He|reflexivity|reflexivity|exact I].
  - (* AddSequence *)
    destruct (bad_seq q) as [e|] eqn:Hb.
    + apply bad_here; [exact Ho|exact Hr| |reflexivity]. cbn [step].
      rewrite (add_seq_bad i (SB t b) q e eq_refl eq_refl Hb). apply mut_fail; try reflexivity; try exact He.
    + destruct q as [q|]; [|discriminate Hb].
      cbn [run step]. rewrite add_seq_good by (try reflexivity; exact Hb).
      cbn [chain SB mk tree]. rewrite in_last_block_addb.
      rewrite mut_next by reflexivity.
      match goal with |- context [run d (S i) ?s r] => change s with (SQ t b (sa_lab q) (sa_acts q)) end.
      rewrite acts_level_SQ by (eapply no_reset_tail; exact Hr).
      apply (resume_follow d i (parse_acts (sa_acts q) r) (fun a => addq b (Q (sa_lab q) a))
                           (parse_block fuel _) _ (fun b' => SP (addb t b')) (fun b' => addb t b')).
      intros _. apply IH.
      * pose proof (suffix_length _ _ (parse_acts_suffix r (sa_acts q))). lia.
      * eapply suffix_no_reset; [apply parse_acts_suffix|eapply no_reset_tail; exact Hr].
  - (* AddAction *)
    apply bad_here; [exact Ho|exact Hr| |reflexivity]. cbn [step].
    rewrite misfit_action; [apply mut_fail; try reflexivity; try exact He|reflexivity|reflexivity|exact I].
  - (* Plan() *)
    unfold follow. cbn [p_n p_stop p_val p_rest repeat app]. rewrite Nat.add_0_r.
    apply run_finish; [exact Ho|exact Hr|exact I|]. intros _. right. now exists r.
Qed.

(* ------------------------------------------------------------------ at the plan *)
Lemma plan_level d fuel : forall l t i,
  length l < fuel -> no_reset l = true ->
  run d i (SP t) l = follow d i (parse_plan fuel t l) (fun t' => SP t') (fun t' => t').
Proof.
  induction fuel as [|fuel IH]; intros l t i Hl Hr; [lia|].
  destruct l as [|c r]; [reflexivity|]. cbn [length] in Hl.
  assert (Ho : open (SP t)) by apply open_mk.
  destruct c as [a| |ty k|a|q|a|]; cbn [parse_plan].
  - discriminate Hr.
  - (* Up from the root *)
    apply bad_here; [exact Ho|exact Hr| |reflexivity]. reflexivity.
  - (* AddChecks *)
    destruct (bad_checks k) as [e|] eqn:Hb.
    + apply bad_here; [exact Ho|exact Hr| |reflexivity]. cbn [step].
      rewrite (add_checks_bad i (SP t) ty k e eq_refl eq_refl Hb). apply mut_fail; try reflexivity; try exact He.
    + destruct k as [k|]; [|discriminate Hb].
      assert (Hg : add_checks i ty (Some k) (SP t) =
                   match ty with
                   | CTBad => fail EUnknownType i (SP t)
                   | CT g => if is_none (pget g t)
                             then Next (SPK t g (ka_lab k) (ka_acts k))
                             else fail EDuplicate i (SP t)
                   end).
      { rewrite add_checks_good by (try reflexivity; exact Hb). reflexivity. }
      destruct ty as [g|].
      * destruct (pget g t) as [k0|] eqn:Hgb; cbn [is_none] in Hg.
        -- apply bad_here; [exact Ho|exact Hr| |reflexivity]. cbn [step]. rewrite Hg. apply mut_fail; try reflexivity; try exact He.
        -- cbn [run step]. rewrite Hg, mut_next by reflexivity.
           rewrite acts_level_SPK by (eapply no_reset_tail; exact Hr).
           apply (resume_follow d i (parse_acts (ka_acts k) r) (fun a => pset g (Some (K (ka_lab k) a)) t)
                                (parse_plan fuel _) _ (fun t' => SP t') (fun t' => t')).
           intros _. apply IH.
           ++ pose proof (suffix_length _ _ (parse_acts_suffix r (ka_acts k))). lia.
           ++ eapply suffix_no_reset; [apply parse_acts_suffix|eapply no_reset_tail; exact Hr].
      * apply bad_here; [exact Ho|exact Hr| |reflexivity]. cbn [step]. rewrite Hg. apply mut_fail; try reflexivity; try exact He.
  - (* AddBlock *)
    destruct (bad_block a) as [e|] eqn:Hb.
    + apply bad_here; [exact Ho|exact Hr| |reflexivity]. cbn [step].
      rewrite (add_block_bad i (SP t) a e eq_refl eq_refl Hb). apply mut_fail; try reflexivity; try exact He.
    + cbn [run step]. rewrite add_block_good by (try reflexivity; exact Hb).
      cbn [chain SP mk tree].
      rewrite mut_next by reflexivity.
      match goal with |- context [run d (S i) ?s r] => change s with (SB t (new_block (ba_lab a))) end.
      rewrite (block_level d fuel) by (try lia; eapply no_reset_tail; exact Hr).
      apply (resume_follow d i (parse_block fuel (new_block (ba_lab a)) r) (fun b' => addb t b')
                           (parse_plan fuel _) _ (fun t' => SP t') (fun t' => t')).
      intros _. apply IH.
      * pose proof (suffix_length _ _ (parse_block_suffix fuel (new_block (ba_lab a)) r)). lia.
      * eapply suffix_no_reset; [apply parse_block_suffix|eapply no_reset_tail; exact Hr].
  - (* AddSequence *)
    apply bad_here; [exact Ho|exact Hr| |reflexivity]. cbn [step].
    rewrite misfit_seq; [apply mut_fail; try reflexivity; try exact He|reflexivity|reflexivity|exact I].
  - (* AddAction *)
    apply bad_here; [exact Ho|exact Hr| |reflexivity]. cbn [step].
    rewrite misfit_action; [apply mut_fail; try reflexivity; try exact He|reflexivity|reflexivity|exact I].
  - (* Plan() *)
    unfold follow. cbn [p_n p_stop p_val p_rest repeat app]. rewrite Nat.add_0_r.
    apply run_finish; [exact Ho|exact Hr|exact I|]. intros _. right. now exists r.
Qed.
