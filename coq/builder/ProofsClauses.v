From Coq Require Import Lia.
From Coercion.Base Require Import Plan.
From Coercion.Builder Require Import Model Spec Proofs ProofsPhases ProofsSteps ProofsActs ProofsLevels ProofsSession ProofsMonitor.

(* ------------------------------------------------------------------ the clauses of the property, one by one *)
Lemma split_no_reset l : no_reset l = true -> split l = (l, []).
Proof.
  induction l as [|c l IH]; intros H; [reflexivity|].
  cbn [no_reset forallb] in H. apply andb_true_iff in H as [Hc Hl]. cbn [split]. rewrite (IH Hl).
  destruct c; try reflexivity. discriminate Hc.
Qed.

Lemma one_epoch a body :
  bad_plan a = None -> no_reset body = true ->
  run_session dev_none (a, body) = ok_res :: body_results 1 (fresh a) body.
Proof.
  intros Ha Hr. rewrite session_spec. unfold spec_session. rewrite Ha, (split_no_reset body Hr).
  cbn [epochs_results]. now rewrite app_nil_r.
Qed.

(* no misuse before the first Plan(): every call returns ok, Plan() returns the tree the parser built,
   and from then on every call fails with a use-after-emit error *)
Theorem valid_calls_emit_parse a body r :
  bad_plan a = None -> no_reset body = true ->
  p_stop (parse (fresh a) body) = SEnd -> p_rest (parse (fresh a) body) = CPlan :: r ->
  run_session dev_none (a, body) =
  ok_res :: repeat ok_res (p_n (parse (fresh a) body))
         ++ emit_res (p_val (parse (fresh a) body))
         :: done_results (S (S (p_n (parse (fresh a) body)))) r.
Proof.
  intros Ha Hr Hs Hrest. rewrite (one_epoch a body Ha Hr). unfold body_results. rewrite Hs, Hrest.
  reflexivity.
Qed.

(* the first misuse: every call before it returns ok; it and every later call, Plan() included, return
   that one error value, and no tree *)
Theorem first_misuse_sticky a body e :
  bad_plan a = None -> no_reset body = true ->
  p_stop (parse (fresh a) body) = SBad e ->
  run_session dev_none (a, body) =
  ok_res :: repeat ok_res (p_n (parse (fresh a) body))
         ++ map (fun _ => stuck_res (e, S (p_n (parse (fresh a) body)))) (p_rest (parse (fresh a) body)).
Proof.
  intros Ha Hr Hs. rewrite (one_epoch a body Ha Hr). unfold body_results. rewrite Hs. reflexivity.
Qed.

(* the calls consumed and the calls left are the whole list *)
Theorem parse_partition t l : exists pre, l = pre ++ p_rest (parse t l).
Proof. destruct (parse_plan_suffix (S (length l)) t l) as [pre H]. now exists pre. Qed.

Theorem parse_total t l : p_stop (parse t l) <> SFuel /\ exists pre, l = pre ++ p_rest (parse t l).
Proof. split; [apply parse_fuel|apply parse_partition]. Qed.

(* Reset forgets everything: what follows a Reset does not depend on what came before *)
Theorem reset_starts_afresh i s1 s2 a l :
  run dev_none i s1 (CReset a :: l) = run dev_none i s2 (CReset a :: l).
Proof.
  cbn [run step]. destruct (bad_plan a) as [e|] eqn:Hb.
  - destruct (reset_bad i a s1 e Hb) as [s1' [H1 [E1 M1]]]. destruct (reset_bad i a s2 e Hb) as [s2' [H2 [E2 M2]]].
    rewrite H1, H2, E1, E2. f_equal.
    destruct (split l) as [h t] eqn:E. destruct (split_spec l h t E) as [-> [Hh Ht]].
    rewrite !run_app. f_equal.
    + rewrite (run_stuck dev_none h (S i) s1' _ E1 Hh), (run_stuck dev_none h (S i) s2' _ E2 Hh). reflexivity.
    + destruct t as [|[a' b'] t']; [reflexivity|].
      unfold flatten. cbn [map concat fst snd]. fold (flatten t').
      change (CReset a' :: b' ++ flatten t') with ((CReset a' :: b') ++ flatten t').
      inversion Ht as [|? ? Hb' Ht']; subst. cbn [snd] in Hb'.
      rewrite !run_app, !epoch_run by exact Hb'. f_equal.
      rewrite !epochs_run by exact Ht'. reflexivity.
  - now rewrite !(reset_ok i a _ Hb).
Qed.
