(* Correspondence check for C20: the harness hands over a session (the arguments of New, the call list)
   and what the real builder returned for every call, in the vocabulary of [res]. *)
From Coercion.Base Require Import Plan.
From Coercion.Builder Require Import Model Spec.

Fixpoint list_eqb {A} (eqb : A -> A -> bool) (a b : list A) : bool :=
  match a, b with
  | [], [] => true
  | x :: a', y :: b' => eqb x y && list_eqb eqb a' b'
  | _, _ => false
  end.
Definition opt_eqb {A} (eqb : A -> A -> bool) (a b : option A) : bool :=
  match a, b with Some x, Some y => eqb x y | None, None => true | _, _ => false end.

Definition acts_eqb := list_eqb (opt_eqb Nat.eqb).
Definition tchecks_eqb (a b : tchecks) : bool := Nat.eqb (tk_lab a) (tk_lab b) && acts_eqb (tk_acts a) (tk_acts b).
Definition tseq_eqb (a b : tseq) : bool := Nat.eqb (tq_lab a) (tq_lab b) && acts_eqb (tq_acts a) (tq_acts b).
Definition tblock_eqb (a b : tblock) : bool :=
  Nat.eqb (tb_lab a) (tb_lab b)
  && opt_eqb tchecks_eqb (tb_bypass a) (tb_bypass b) && opt_eqb tchecks_eqb (tb_pre a) (tb_pre b)
  && opt_eqb tchecks_eqb (tb_cont a) (tb_cont b) && opt_eqb tchecks_eqb (tb_post a) (tb_post b)
  && opt_eqb tchecks_eqb (tb_deferred a) (tb_deferred b)
  && list_eqb tseq_eqb (tb_seqs a) (tb_seqs b).
Definition tplan_eqb (a b : tplan) : bool :=
  Nat.eqb (tp_lab a) (tp_lab b) && opt_eqb Nat.eqb (tp_gid a) (tp_gid b)
  && opt_eqb tchecks_eqb (tp_bypass a) (tp_bypass b) && opt_eqb tchecks_eqb (tp_pre a) (tp_pre b)
  && opt_eqb tchecks_eqb (tp_cont a) (tp_cont b) && opt_eqb tchecks_eqb (tp_post a) (tp_post b)
  && opt_eqb tchecks_eqb (tp_deferred a) (tp_deferred b)
  && list_eqb tblock_eqb (tp_blocks a) (tp_blocks b).

Definition res_eqb (a b : res) : bool :=
  rclass_eqb (r_ret a) (r_ret b) && opt_eqb tplan_eqb (r_plan a) (r_plan b) && oerror_eqb (r_after a) (r_after b).

(* the same with the error classes erased: who failed, with which error VALUE (its origin), which tree *)
Definition noclass (e : error) : error := (EOther, snd e).
Definition rclass_nc (r : rclass) : rclass := match r with RErr e => RErr (noclass e) | r => r end.
Definition res_nc (r : res) : res :=
  {| r_ret := rclass_nc (r_ret r); r_plan := r_plan r;
     r_after := match r_after r with Some e => Some (noclass e) | None => None end |}.

(* 0 = equal; 1 = the implementation panicked; 2 = different outcome (error or not, which error value,
   which tree); 3 = the same but for the class of an error *)
Definition res_cmp (obs exp : res) : nat :=
  if res_eqb obs exp then 0
  else match r_ret obs with
       | RPanic => 1
       | _ => if res_eqb (res_nc obs) (res_nc exp) then 3 else 2
       end.

Fixpoint first_diff (i : nat) (obs exp : list res) : nat * nat :=
  match obs, exp with
  | [], [] => (0, 0)
  | o :: obs', e :: exp' => match res_cmp o e with 0 => first_diff (S i) obs' exp' | c => (c, i) end
  | o :: _, [] => (match r_ret o with RPanic => 1 | _ => 2 end, i)
  | [], _ :: _ => (2, i)
  end.

Definition case := (session * list res)%type.

Definition against (d : dev) (c : case) : nat * nat := first_diff 0 (snd c) (run_session d (fst c)).

(* [code vs the model without deviation; index of the call; code vs the model with B2; index;
    stickiness monitor on the OBSERVATION (1 = holds); reference = model on this input (1 = yes)] *)
Definition check_case (c : case) : list nat :=
  let (a, i) := against dev_none c in
  let (b, j) := against dev_only_B2 c in
  [a; i; b; j;
   if monitor (fst c) (snd c) then 1 else 0;
   if list_eqb res_eqb (run_session dev_none (fst c)) (spec_session (fst c)) then 1 else 0].

Definition case_ok_with (d : dev) (c : case) : bool := Nat.eqb (fst (against d c)) 0.
