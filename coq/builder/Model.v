(* Model of workflow/builder/builder.go: the cursor machine.  No proofs here.

   Abstraction of the arguments (done by the harness with Go's own ==, strings.TrimSpace, pointer
   identity; independent of the code under test):
   - every object the caller creates for one call (a *workflow.Checks, *workflow.Sequence,
     *workflow.Action, a BlockArgs value, the name/description pair of New/Reset) carries a label
     (a small number, unique within the case); the emitted *workflow.Plan is read back as a tree of
     labels (a block is recognised by ALL the fields AddBlock has to copy from its BlockArgs);
   - a string argument is an [nm]: fine, whitespace only, or empty (the builder compares some names
     with "" and some with TrimSpace);
   - an error is an [eclass] together with the index of the call that created the error value
     (so "the same error" is observable as Go's == on the error value, not through its text). *)
From Coercion.Base Require Import Plan.

Inductive nm := NOk | NWhite | NEmpty.
Definition nm_empty (n : nm) : bool := match n with NEmpty => true | _ => false end.   (* s == "" *)
Definition nm_blank (n : nm) : bool := match n with NOk => false | _ => true end.      (* strings.TrimSpace(s) == "" *)

(* ChecksType: the five declared kinds, or anything else (CTUnknown = 0, 6, -1, ...) *)
Inductive ctype := CT (g : grp) | CTBad.

(* the options of New/Reset: none, WithGroupID(uuid.Nil), WithGroupID(id) *)
Inductive gid := GNone | GNil | GSome (n : nat).

Inductive eclass :=
| EMissingName | ENilArg | EWrongLevel | EDuplicate | EUnknownType | EUpFromRoot | EUseAfterEmit | ENilGroup
| EOther.      (* observation only: an error text the harness could not classify; never produced by the model *)
Definition error := (eclass * nat)%type.      (* class, index of the call that created the value *)

Record aarg := { aa_lab : nat; aa_name : nm; aa_descr : nm; aa_plugin : nm }.
Record karg := { ka_lab : nat; ka_acts : list (option nat) }.     (* Actions already in the Checks; None = nil element *)
Record sarg := { sa_lab : nat; sa_name : nm; sa_descr : nm; sa_acts : list (option nat) }.
Record barg := { ba_lab : nat; ba_name : nm; ba_descr : nm }.
Record parg := { pa_lab : nat; pa_name : nm; pa_descr : nm; pa_gid : gid }.

Inductive call :=
| CReset (a : parg)
| CUp
| CAddChecks (t : ctype) (k : option karg)       (* None = nil pointer *)
| CAddBlock (b : barg)
| CAddSeq (s : option sarg)
| CAddAction (a : option aarg)
| CPlan.
(* Err() is a pure read of the sticky error; the harness calls it after every call and the model
   reports it in [r_after], so it is not a [call]. *)

(* ---- the tree under construction (what Plan() emits), as labels ---- *)
Record tchecks := { tk_lab : nat; tk_acts : list (option nat) }.
Record tseq := { tq_lab : nat; tq_acts : list (option nat) }.
Record tblock := { tb_lab : nat;
                   tb_bypass : option tchecks; tb_pre : option tchecks; tb_cont : option tchecks;
                   tb_post : option tchecks; tb_deferred : option tchecks;
                   tb_seqs : list tseq }.
Record tplan := { tp_lab : nat; tp_gid : option nat;
                  tp_bypass : option tchecks; tp_pre : option tchecks; tp_cont : option tchecks;
                  tp_post : option tchecks; tp_deferred : option tchecks;
                  tp_blocks : list tblock }.

Definition new_plan (lab : nat) : tplan :=
  {| tp_lab := lab; tp_gid := None; tp_bypass := None; tp_pre := None; tp_cont := None;
     tp_post := None; tp_deferred := None; tp_blocks := [] |}.
Definition new_block (lab : nat) : tblock :=
  {| tb_lab := lab; tb_bypass := None; tb_pre := None; tb_cont := None; tb_post := None;
     tb_deferred := None; tb_seqs := [] |}.

Definition pget (g : grp) (t : tplan) : option tchecks :=
  match g with
  | GBypass => tp_bypass t | GPre => tp_pre t | GCont => tp_cont t
  | GPost => tp_post t | GDeferred => tp_deferred t
  end.
Definition pset (g : grp) (k : option tchecks) (t : tplan) : tplan :=
  match g with
  | GBypass => {| tp_lab := tp_lab t; tp_gid := tp_gid t; tp_bypass := k; tp_pre := tp_pre t; tp_cont := tp_cont t;
                  tp_post := tp_post t; tp_deferred := tp_deferred t; tp_blocks := tp_blocks t |}
  | GPre => {| tp_lab := tp_lab t; tp_gid := tp_gid t; tp_bypass := tp_bypass t; tp_pre := k; tp_cont := tp_cont t;
               tp_post := tp_post t; tp_deferred := tp_deferred t; tp_blocks := tp_blocks t |}
  | GCont => {| tp_lab := tp_lab t; tp_gid := tp_gid t; tp_bypass := tp_bypass t; tp_pre := tp_pre t; tp_cont := k;
                tp_post := tp_post t; tp_deferred := tp_deferred t; tp_blocks := tp_blocks t |}
  | GPost => {| tp_lab := tp_lab t; tp_gid := tp_gid t; tp_bypass := tp_bypass t; tp_pre := tp_pre t; tp_cont := tp_cont t;
                tp_post := k; tp_deferred := tp_deferred t; tp_blocks := tp_blocks t |}
  | GDeferred => {| tp_lab := tp_lab t; tp_gid := tp_gid t; tp_bypass := tp_bypass t; tp_pre := tp_pre t; tp_cont := tp_cont t;
                    tp_post := tp_post t; tp_deferred := k; tp_blocks := tp_blocks t |}
  end.
Definition pset_blocks (bs : list tblock) (t : tplan) : tplan :=
  {| tp_lab := tp_lab t; tp_gid := tp_gid t; tp_bypass := tp_bypass t; tp_pre := tp_pre t; tp_cont := tp_cont t;
     tp_post := tp_post t; tp_deferred := tp_deferred t; tp_blocks := bs |}.
Definition pset_gid (n : option nat) (t : tplan) : tplan :=
  {| tp_lab := tp_lab t; tp_gid := n; tp_bypass := tp_bypass t; tp_pre := tp_pre t; tp_cont := tp_cont t;
     tp_post := tp_post t; tp_deferred := tp_deferred t; tp_blocks := tp_blocks t |}.

Definition bget (g : grp) (b : tblock) : option tchecks :=
  match g with
  | GBypass => tb_bypass b | GPre => tb_pre b | GCont => tb_cont b
  | GPost => tb_post b | GDeferred => tb_deferred b
  end.
Definition bset (g : grp) (k : option tchecks) (b : tblock) : tblock :=
  match g with
  | GBypass => {| tb_lab := tb_lab b; tb_bypass := k; tb_pre := tb_pre b; tb_cont := tb_cont b;
                  tb_post := tb_post b; tb_deferred := tb_deferred b; tb_seqs := tb_seqs b |}
  | GPre => {| tb_lab := tb_lab b; tb_bypass := tb_bypass b; tb_pre := k; tb_cont := tb_cont b;
               tb_post := tb_post b; tb_deferred := tb_deferred b; tb_seqs := tb_seqs b |}
  | GCont => {| tb_lab := tb_lab b; tb_bypass := tb_bypass b; tb_pre := tb_pre b; tb_cont := k;
                tb_post := tb_post b; tb_deferred := tb_deferred b; tb_seqs := tb_seqs b |}
  | GPost => {| tb_lab := tb_lab b; tb_bypass := tb_bypass b; tb_pre := tb_pre b; tb_cont := tb_cont b;
                tb_post := k; tb_deferred := tb_deferred b; tb_seqs := tb_seqs b |}
  | GDeferred => {| tb_lab := tb_lab b; tb_bypass := tb_bypass b; tb_pre := tb_pre b; tb_cont := tb_cont b;
                    tb_post := tb_post b; tb_deferred := k; tb_seqs := tb_seqs b |}
  end.
Definition bset_seqs (qs : list tseq) (b : tblock) : tblock :=
  {| tb_lab := tb_lab b; tb_bypass := tb_bypass b; tb_pre := tb_pre b; tb_cont := tb_cont b;
     tb_post := tb_post b; tb_deferred := tb_deferred b; tb_seqs := qs |}.

Definition kadd (a : nat) (k : tchecks) : tchecks := {| tk_lab := tk_lab k; tk_acts := tk_acts k ++ [Some a] |}.
Definition qadd (a : nat) (q : tseq) : tseq := {| tq_lab := tq_lab q; tq_acts := tq_acts q ++ [Some a] |}.

(* ---- mutation through the pointers held in the chain ----
   chain[i+1] is always the child of chain[i] that was appended last, so the object a chain entry
   points to is found by "the last block" / "the last sequence of the last block" / "group g of ..." *)
Fixpoint upd_last {A} (f : A -> A) (l : list A) : list A :=
  match l with
  | [] => []
  | [x] => [f x]
  | x :: r => x :: upd_last f r
  end.
Definition omap {A} (f : A -> A) (o : option A) : option A :=
  match o with Some x => Some (f x) | None => None end.

Definition in_last_block (f : tblock -> tblock) (t : tplan) : tplan := pset_blocks (upd_last f (tp_blocks t)) t.
Definition in_last_seq (f : tseq -> tseq) (b : tblock) : tblock := bset_seqs (upd_last f (tb_seqs b)) b.
Definition in_pgrp (g : grp) (f : tchecks -> tchecks) (t : tplan) : tplan := pset g (omap f (pget g t)) t.
Definition in_bgrp (g : grp) (f : tchecks -> tchecks) (b : tblock) : tblock := bset g (omap f (bget g b)) b.
Definition last_block (t : tplan) : option tblock := last (map Some (tp_blocks t)) None.

(* ---- the builder ---- *)
Inductive frame := FPlan | FChecks (g : grp) | FBlock | FSeq.
Record st := { tree : tplan;               (* the object chain[0] points to (meaningless while the chain is empty) *)
               chain : list frame;         (* head = current() *)
               err : option error;
               emitted : bool }.

Definition with_tree (t : tplan) (s : st) : st := {| tree := t; chain := chain s; err := err s; emitted := emitted s |}.
Definition with_chain (c : list frame) (s : st) : st := {| tree := tree s; chain := c; err := err s; emitted := emitted s |}.
Definition with_err (e : option error) (s : st) : st := {| tree := tree s; chain := chain s; err := e; emitted := emitted s |}.
Definition with_emitted (b : bool) (s : st) : st := {| tree := tree s; chain := chain s; err := err s; emitted := b |}.
(* b.setErr: records the error unless an earlier one is recorded (the first error sticks until Reset) *)
Definition set_err (e : error) (s : st) : st := match err s with Some _ => s | None => with_err (Some e) s end.

(* known deviations of the code from the property (DESIGN section 4); theorems are for [dev_none] *)
Record dev := { dev_B2 : bool }.   (* B2: Reset returns a failing option's error without recording it *)
Definition dev_none : dev := {| dev_B2 := false |}.
Definition dev_only_B2 : dev := {| dev_B2 := true |}.

Inductive out := Next (s : st) | Boom.      (* Boom = the call panics *)

(* `if b.emitted { setErr(...after Plan()...); return b }; if b.err != nil { return b }` *)
Definition guarded (i : nat) (s : st) (body : st -> out) : out :=
  if emitted s then Next (set_err (EUseAfterEmit, i) s)
  else match err s with Some _ => Next s | None => body s end.

Definition fail (c : eclass) (i : nat) (s : st) : out := Next (set_err (c, i) s).

Definition up (i : nat) (s : st) : out :=
  guarded i s (fun s =>
    match chain s with
    | _ :: ((_ :: _) as c') => Next (with_chain c' s)      (* b.chain = b.chain[:len(b.chain)-1] *)
    | _ => fail EUpFromRoot i s                      (* len(b.chain) < 2 *)
    end).

Definition is_none {A} (o : option A) : bool := match o with None => true | Some _ => false end.

Definition add_checks (i : nat) (t : ctype) (k : option karg) (s : st) : out :=
  guarded i s (fun s =>
    match k with
    | None => fail ENilArg i s
    | Some ka =>
      if existsb is_none (ka_acts ka) then fail ENilArg i s else
      let new := {| tk_lab := ka_lab ka; tk_acts := ka_acts ka |} in
      match chain s with
      | [] => Boom                                   (* current() panics on an empty chain *)
      | FPlan :: _ =>
        match t with
        | CTBad => fail EUnknownType i s
        | CT g => if is_none (pget g (tree s))
                  then Next (with_chain (FChecks g :: chain s) (with_tree (pset g (Some new) (tree s)) s))
                  else fail EDuplicate i s
        end
      | FBlock :: _ =>
        match last_block (tree s) with
        | None => Boom                               (* unreachable: the chain holds a pointer to the block *)
        | Some b =>
          match t with
          | CTBad => fail EUnknownType i s
          | CT g => if is_none (bget g b)
                    then Next (with_chain (FChecks g :: chain s)
                                 (with_tree (in_last_block (bset g (Some new)) (tree s)) s))
                    else fail EDuplicate i s
          end
        end
      | _ => fail EWrongLevel i s
      end
    end).

Definition add_block (i : nat) (a : barg) (s : st) : out :=
  guarded i s (fun s =>
    if nm_empty (ba_name a) then fail EMissingName i s else
    if nm_empty (ba_descr a) then fail EMissingName i s else
    match chain s with
    | [] => Boom
    | FPlan :: _ => Next (with_chain (FBlock :: chain s)
                            (with_tree (pset_blocks (tp_blocks (tree s) ++ [new_block (ba_lab a)]) (tree s)) s))
    | _ => fail EWrongLevel i s
    end).

Definition add_seq (i : nat) (q : option sarg) (s : st) : out :=
  guarded i s (fun s =>
    match q with
    | None => fail ENilArg i s
    | Some a =>
      if nm_empty (sa_name a) then fail EMissingName i s else
      if nm_empty (sa_descr a) then fail EMissingName i s else
      match chain s with
      | [] => Boom
      | FBlock :: _ =>
        Next (with_chain (FSeq :: chain s)
                (with_tree (in_last_block (fun b => bset_seqs (tb_seqs b ++ [{| tq_lab := sa_lab a; tq_acts := sa_acts a |}]) b)
                                          (tree s)) s))
      | _ => fail EWrongLevel i s
      end
    end).

Definition add_action (i : nat) (a : option aarg) (s : st) : out :=
  guarded i s (fun s =>
    match a with
    | None => fail ENilArg i s
    | Some a =>
      if nm_empty (aa_name a) then fail EMissingName i s else
      if nm_empty (aa_descr a) then fail EMissingName i s else
      if nm_empty (aa_plugin a) then fail EMissingName i s else
      match chain s with
      | [] => Boom
      | FSeq :: _ => Next (with_tree (in_last_block (in_last_seq (qadd (aa_lab a))) (tree s)) s)
      | FChecks g :: FBlock :: _ => Next (with_tree (in_last_block (in_bgrp g (kadd (aa_lab a))) (tree s)) s)
      | FChecks g :: _ => Next (with_tree (in_pgrp g (kadd (aa_lab a)) (tree s)) s)
      | _ => fail EWrongLevel i s
      end
    end).

(* Reset: returns its error; (state, returned error) *)
Definition reset (d : dev) (i : nat) (a : parg) (s : st) : st * option error :=
  let s := with_chain [] (with_err None (with_emitted false s)) in    (* b.emitted = false; b.err = nil; b.chain = b.chain[:0] *)
  if nm_blank (pa_name a) || nm_blank (pa_descr a)
  then (set_err (EMissingName, i) s, Some (EMissingName, i))
  else
    let s := with_chain [FPlan] (with_tree (new_plan (pa_lab a)) s) in
    match pa_gid a with
    | GNone => (with_err None s, None)
    | GSome n => (with_err None (with_tree (pset_gid (Some n) (tree s)) s), None)
    | GNil => if dev_B2 d
              then (s, Some (ENilGroup, i))                          (* `return err`: b.err keeps its old value *)
              else (set_err (ENilGroup, i) s, Some (ENilGroup, i))
    end.

(* Plan(): (state, returned plan, returned error), or a panic *)
Inductive pout := PNext (s : st) (p : option tplan) (e : option error) | PBoom.
Definition emit (i : nat) (s : st) : pout :=
  match err s with
  | Some e => PNext s None (Some e)
  | None =>
    if emitted s then let s' := set_err (EUseAfterEmit, i) s in PNext s' None (err s')   (* return nil, b.setErr(...) *)
    else match chain s with
         | [] => PBoom                                                (* b.chain[0] *)
         | _ => PNext (with_emitted true s) (Some (tree s)) None
         end
  end.

(* ---- results ---- *)
Inductive rclass := ROk | RErr (e : error) | RPanic.
Record res := { r_ret : rclass;             (* what the call returned: Reset's / Plan()'s error; for the fluent
                                               mutators (which return the builder) Err() right after the call *)
                r_plan : option tplan;      (* the plan Plan() returned *)
                r_after : option error }.   (* Err() after the call *)

Definition of_err (e : option error) : rclass := match e with Some e => RErr e | None => ROk end.
Definition panic_res (s : st) : res := {| r_ret := RPanic; r_plan := None; r_after := err s |}.

Definition mut (o : out) (s : st) : st * res :=
  match o with
  | Next s' => (s', {| r_ret := of_err (err s'); r_plan := None; r_after := err s' |})
  | Boom => (s, panic_res s)
  end.

Definition step (d : dev) (i : nat) (s : st) (c : call) : st * res :=
  match c with
  | CUp => mut (up i s) s
  | CAddChecks t k => mut (add_checks i t k s) s
  | CAddBlock a => mut (add_block i a s) s
  | CAddSeq q => mut (add_seq i q s) s
  | CAddAction a => mut (add_action i a s) s
  | CReset a => let (s', e) := reset d i a s in (s', {| r_ret := of_err e; r_plan := None; r_after := err s' |})
  | CPlan => match emit i s with
             | PNext s' p e => (s', {| r_ret := of_err e; r_plan := p; r_after := err s' |})
             | PBoom => (s, panic_res s)
             end
  end.

Fixpoint run (d : dev) (i : nat) (s : st) (l : list call) : list res :=
  match l with
  | [] => []
  | c :: r => let (s', x) := step d i s c in x :: run d (S i) s' r
  end.

(* New(name, descr, options...): Reset on the zero builder; a failing Reset means no builder is returned
   (the options are applied a second time by New, which changes nothing).  Call 0 is New, the calls of
   the list are numbered from 1. *)
Definition zero : st := {| tree := new_plan 0; chain := []; err := None; emitted := false |}.
Definition session := (parg * list call)%type.
Definition run_session (d : dev) (x : session) : list res :=
  let (s, e) := reset d 0 (fst x) zero in
  match e with
  | Some e => [{| r_ret := RErr e; r_plan := None; r_after := None |}]
  | None => {| r_ret := ROk; r_plan := None; r_after := None |} :: run d 1 s (snd x)
  end.
