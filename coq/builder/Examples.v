(* Concrete sessions for the `Example`s of props/C20.v.  No proofs here. *)
From Coercion.Base Require Import Plan.
From Coercion.Builder Require Import Model Spec.

Definition exP n := {| pa_lab := n; pa_name := NOk; pa_descr := NOk; pa_gid := GNone |}.
Definition exA n := CAddAction (Some {| aa_lab := n; aa_name := NOk; aa_descr := NOk; aa_plugin := NOk |}).
Definition exK g n l := CAddChecks (CT g) (Some {| ka_lab := n; ka_acts := l |}).
Definition exB n := CAddBlock {| ba_lab := n; ba_name := NOk; ba_descr := NWhite |}.
Definition exQ n l := CAddSeq (Some {| sa_lab := n; sa_name := NOk; sa_descr := NOk; sa_acts := l |}).

(* a valid list: a plan-level group with an action, a block with a group and two sequences (the second
   left open), Plan() with the cursor three levels deep *)
Definition ex_calls : list call :=
  [exK GPre 2 [Some 3]; exA 4; CUp; exB 5; exK GCont 6 []; exA 7; CUp; exQ 8 [None]; exA 9; CUp; exQ 10 []; exA 11].

Definition ex_tree : tplan :=
  {| tp_lab := 1; tp_gid := None; tp_bypass := None;
     tp_pre := Some {| tk_lab := 2; tk_acts := [Some 3; Some 4] |};
     tp_cont := None; tp_post := None; tp_deferred := None;
     tp_blocks := [{| tb_lab := 5; tb_bypass := None; tb_pre := None;
                      tb_cont := Some {| tk_lab := 6; tk_acts := [Some 7] |};
                      tb_post := None; tb_deferred := None;
                      tb_seqs := [{| tq_lab := 8; tq_acts := [None; Some 9] |};
                                  {| tq_lab := 10; tq_acts := [Some 11] |}] |}] |}.

(* after Plan(): two calls (use after emit), Reset, a second plan with a duplicate group in it *)
Definition ex_session : session :=
  (exP 1, ex_calls ++ [CPlan; exA 12; CPlan;
                       CReset (exP 13); exB 14; exK GPost 15 []; CUp; exK GPost 16 []; exA 17; CPlan]).

Definition ex_results : list res :=
  repeat ok_res 13
  ++ [emit_res ex_tree;
      stuck_res (EUseAfterEmit, 14);
      stuck_res (EUseAfterEmit, 14);
      ok_res; ok_res; ok_res; ok_res;
      stuck_res (EDuplicate, 20); stuck_res (EDuplicate, 20); stuck_res (EDuplicate, 20)].
