(* Proofs for C20: the cursor machine (Model.v) returns, call by call, what the reference built on the
   recursive-descent parser (Spec.v) says; it never panics; the stickiness monitor holds. *)
From Coq Require Import Lia.
From Coercion.Base Require Import Plan.
From Coercion.Builder Require Import Model Spec.

(* ------------------------------------------------------------------ records and lists *)
Lemma upd_last_app {A} (f : A -> A) (l : list A) (x : A) : upd_last f (l ++ [x]) = l ++ [f x].
Proof.
  induction l as [|a l IH]; [reflexivity|].
  change ((a :: l) ++ [x]) with (a :: (l ++ [x])).
  destruct (l ++ [x]) as [|y r] eqn:E; [destruct l; discriminate E|].
  cbn [upd_last]. cbn [upd_last] in IH. rewrite IH. reflexivity.
Qed.

Lemma last_block_app bs b t : last_block (pset_blocks (bs ++ [b]) t) = Some b.
Proof. unfold last_block. cbn [tp_blocks pset_blocks]. rewrite map_app. cbn [map]. apply last_last. Qed.

Lemma bget_bset g k b : bget g (bset g k b) = k.
Proof. destruct g; reflexivity. Qed.
Lemma bset_bset g k k' b : bset g k' (bset g k b) = bset g k' b.
Proof. destruct g; reflexivity. Qed.
Lemma pget_pset g k t : pget g (pset g k t) = k.
Proof. destruct g; reflexivity. Qed.
Lemma pset_pset g k k' t : pset g k' (pset g k t) = pset g k' t.
Proof. destruct g; reflexivity. Qed.
Lemma tb_seqs_bset g k b : tb_seqs (bset g k b) = tb_seqs b.
Proof. destruct g; reflexivity. Qed.
Lemma tp_blocks_pset g k t : tp_blocks (pset g k t) = tp_blocks t.
Proof. destruct g; reflexivity. Qed.
Lemma pset_blocks_pset g k bs t : pset_blocks bs (pset g k t) = pset g k (pset_blocks bs t).
Proof. destruct g; reflexivity. Qed.

Lemma repeat_plus {A} (x : A) n m : repeat x (n + m) = repeat x n ++ repeat x m.
Proof. induction n as [|n IH]; cbn; [reflexivity|]. now rewrite IH. Qed.

Lemma error_eqb_refl e : error_eqb e e = true.
Proof. destruct e as [c n]. unfold error_eqb. cbn. rewrite Nat.eqb_refl. destruct c; reflexivity. Qed.
Lemma oerror_eqb_refl e : oerror_eqb e e = true.
Proof. destruct e; cbn; [apply error_eqb_refl|reflexivity]. Qed.
Lemma rclass_eqb_refl r : rclass_eqb r r = true.
Proof. destruct r; cbn; try reflexivity. apply error_eqb_refl. Qed.

(* ------------------------------------------------------------------ lists without Reset; suffixes *)
Definition no_reset (l : list call) : bool := forallb (fun c => negb (is_reset c)) l.
Definition suffix (r l : list call) : Prop := exists pre, l = pre ++ r.

Lemma suffix_refl l : suffix l l.
Proof. now exists []. Qed.
Lemma suffix_cons c r l : suffix r l -> suffix r (c :: l).
Proof. intros [pre ->]. now exists (c :: pre). Qed.
Lemma suffix_trans a b c : suffix a b -> suffix b c -> suffix a c.
Proof. intros [p ->] [q ->]. exists (q ++ p). now rewrite app_assoc. Qed.
Lemma suffix_length r l : suffix r l -> length r <= length l.
Proof. intros [pre ->]. rewrite app_length. lia. Qed.
Lemma suffix_no_reset r l : suffix r l -> no_reset l = true -> no_reset r = true.
Proof. intros [pre ->]. unfold no_reset. rewrite forallb_app. intros H. now apply andb_true_iff in H. Qed.
Lemma suffix_nil_l l : suffix [] l.
Proof. exists l. now rewrite app_nil_r. Qed.

(* ------------------------------------------------------------------ the parser: where it stops *)
Lemma parse_acts_suffix l acts : suffix (p_rest (parse_acts acts l)) l.
Proof.
  revert acts. induction l as [|c r IH]; intros acts; cbn [parse_acts]; [apply suffix_refl|].
  destruct c as [a| |t k|b|q|a|]; cbn [p_rest]; try apply suffix_refl.
  - apply suffix_cons, suffix_refl.
  - destruct (bad_action a) as [e|]; [apply suffix_refl|].
    destruct a as [a|]; [|apply suffix_refl]. cbn [addn p_rest]. apply suffix_cons, IH.
Qed.

Lemma parse_acts_fuel l acts : p_stop (parse_acts acts l) <> SFuel.
Proof.
  revert acts. induction l as [|c r IH]; intros acts; cbn [parse_acts]; [discriminate|].
  destruct c as [a| |t k|b|q|a|]; cbn [p_stop]; try discriminate.
  destruct (bad_action a) as [e|]; [discriminate|].
  destruct a as [a|]; [|discriminate]. cbn [addn p_stop]. apply IH.
Qed.

Lemma resume_up {A B} (p : pr A) (v : B) k :
  p_stop p = SUp -> resume p v k = addn (S (p_n p)) (k (p_rest p)).
Proof. unfold resume. now intros ->. Qed.
Lemma resume_other {A B} (p : pr A) (v : B) k :
  p_stop p <> SUp -> resume p v k = Build_pr v (S (p_n p)) (p_stop p) (p_rest p).
Proof. unfold resume. destruct (p_stop p); congruence. Qed.

Lemma resume_suffix {A B} (p : pr A) (v : B) k r c :
  suffix (p_rest p) r -> (forall l, suffix (p_rest (k l)) l) -> suffix (p_rest (resume p v k)) (c :: r).
Proof.
  intros Hp Hk. apply suffix_cons. destruct (p_stop p) eqn:E.
  - rewrite resume_up by exact E. cbn [addn p_rest]. eapply suffix_trans; [apply Hk|exact Hp].
  - rewrite resume_other by congruence. exact Hp.
  - rewrite resume_other by congruence. exact Hp.
  - rewrite resume_other by congruence. exact Hp.
Qed.

Lemma parse_block_suffix fuel : forall b l, suffix (p_rest (parse_block fuel b l)) l.
Proof.
  induction fuel as [|fuel IH]; intros b l; cbn [parse_block]; [apply suffix_refl|].
  destruct l as [|c r]; [apply suffix_refl|].
  destruct c as [a| |t k|a|q|a|]; cbn [p_rest]; try apply suffix_refl.
  - apply suffix_cons, suffix_refl.
  - destruct (bad_checks k) as [e|]; [apply suffix_refl|].
    destruct k as [k|]; [|apply suffix_refl].
    destruct t as [g|]; [|apply suffix_refl].
    destruct (bget g b); [apply suffix_refl|].
    apply resume_suffix; [apply parse_acts_suffix|intros l; apply IH].
  - destruct (bad_seq q) as [e|]; [apply suffix_refl|].
    destruct q as [q|]; [|apply suffix_refl].
    apply resume_suffix; [apply parse_acts_suffix|intros l; apply IH].
Qed.

Lemma parse_plan_suffix fuel : forall t l, suffix (p_rest (parse_plan fuel t l)) l.
Proof.
  induction fuel as [|fuel IH]; intros t l; cbn [parse_plan]; [apply suffix_refl|].
  destruct l as [|c r]; [apply suffix_refl|].
  destruct c as [a| |ty k|a|q|a|]; cbn [p_rest]; try apply suffix_refl.
  - destruct (bad_checks k) as [e|]; [apply suffix_refl|].
    destruct k as [k|]; [|apply suffix_refl].
    destruct ty as [g|]; [|apply suffix_refl].
    destruct (pget g t); [apply suffix_refl|].
    apply resume_suffix; [apply parse_acts_suffix|intros l; apply IH].
  - destruct (bad_block a) as [e|]; [apply suffix_refl|].
    apply resume_suffix; [apply parse_block_suffix|intros l; apply IH].
Qed.

Lemma resume_fuel {A B} (p : pr A) (v : B) k :
  p_stop p <> SFuel -> p_stop (k (p_rest p)) <> SFuel -> p_stop (resume p v k) <> SFuel.
Proof.
  intros Hp Hk. destruct (p_stop p) eqn:E.
  - rewrite resume_up by exact E. exact Hk.
  - rewrite resume_other by congruence. cbn. congruence.
  - rewrite resume_other by congruence. cbn. congruence.
  - congruence.
Qed.

Lemma parse_block_fuel fuel : forall b l, length l < fuel -> p_stop (parse_block fuel b l) <> SFuel.
Proof.
  induction fuel as [|fuel IH]; intros b l Hl; [lia|]. cbn [parse_block].
  destruct l as [|c r]; [discriminate|]. cbn [length] in Hl.
  destruct c as [a| |t k|a|q|a|]; cbn [p_stop]; try discriminate.
  - destruct (bad_checks k) as [e|]; [discriminate|].
    destruct k as [k|]; [|discriminate].
    destruct t as [g|]; [|discriminate].
    destruct (bget g b); [discriminate|].
    apply resume_fuel; [apply parse_acts_fuel|].
    apply IH. pose proof (suffix_length _ _ (parse_acts_suffix r (ka_acts k))). lia.
  - destruct (bad_seq q) as [e|]; [discriminate|].
    destruct q as [q|]; [|discriminate].
    apply resume_fuel; [apply parse_acts_fuel|].
    apply IH. pose proof (suffix_length _ _ (parse_acts_suffix r (sa_acts q))). lia.
Qed.

Lemma parse_plan_fuel fuel : forall t l, length l < fuel -> p_stop (parse_plan fuel t l) <> SFuel.
Proof.
  induction fuel as [|fuel IH]; intros t l Hl; [lia|]. cbn [parse_plan].
  destruct l as [|c r]; [discriminate|]. cbn [length] in Hl.
  destruct c as [a| |ty k|a|q|a|]; cbn [p_stop]; try discriminate.
  - destruct (bad_checks k) as [e|]; [discriminate|].
    destruct k as [k|]; [|discriminate].
    destruct ty as [g|]; [|discriminate].
    destruct (pget g t); [discriminate|].
    apply resume_fuel; [apply parse_acts_fuel|].
    apply IH. pose proof (suffix_length _ _ (parse_acts_suffix r (ka_acts k))). lia.
  - destruct (bad_block a) as [e|]; [discriminate|].
    apply resume_fuel; [apply parse_block_fuel; lia|].
    apply IH. pose proof (suffix_length _ _ (parse_block_suffix fuel (new_block (ba_lab a)) r)). lia.
Qed.

Lemma parse_fuel t l : p_stop (parse t l) <> SFuel.
Proof. apply parse_plan_fuel. lia. Qed.

(* at plan level nothing closes: the parser never reports an Up *)
Lemma parse_plan_not_up fuel : forall t l, p_stop (parse_plan fuel t l) <> SUp.
Proof.
  induction fuel as [|fuel IH]; intros t l; cbn [parse_plan]; [discriminate|].
  destruct l as [|c r]; [discriminate|].
  assert (R : forall {A} (p : pr A) (v : tplan) t', p_stop (resume p v (parse_plan fuel t')) <> SUp).
  { intros A p v t'. destruct (p_stop p) eqn:E.
    - rewrite resume_up by exact E. apply IH.
    - rewrite resume_other by congruence. cbn. congruence.
    - rewrite resume_other by congruence. cbn. congruence.
    - rewrite resume_other by congruence. cbn. congruence. }
  destruct c as [a| |ty k|a|q|a|]; cbn [p_stop]; try discriminate.
  - destruct (bad_checks k) as [e|]; [discriminate|].
    destruct k as [k|]; [|discriminate].
    destruct ty as [g|]; [|discriminate].
    destruct (pget g t); [discriminate|]. apply R.
  - destruct (bad_block a) as [e|]; [discriminate|]. apply R.
Qed.
