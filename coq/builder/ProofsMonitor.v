From Coq Require Import Lia.
From Coercion.Base Require Import Plan.
From Coercion.Builder Require Import Model ModelPreB3 Spec Proofs ProofsPhases ProofsSteps ProofsActs ProofsLevels ProofsSession.

(* ------------------------------------------------------------------ the stickiness monitor *)
Definition mon_of (s : st) : mon := {| m_cur := err s; m_emitted := emitted s |}.

(* what every mutator has in common *)
Definition mutator_like (i : nat) (s : st) (o : out) : Prop :=
  (emitted s = true -> o = Next (set_err (EUseAfterEmit, i) s))
  /\ (forall e, emitted s = false -> err s = Some e -> o = Next s)
  /\ (forall s', o = Next s' -> emitted s' = emitted s).

Lemma guarded_like i s body :
  (forall s', body s = Next s' -> emitted s' = emitted s) -> mutator_like i s (guarded i s body).
Proof.
  intros Hb. unfold mutator_like, guarded. repeat split.
  - now intros ->.
  - intros e -> ->. reflexivity.
  - intros s'. destruct (emitted s) eqn:Hm.
    + intros H. injection H as <-. unfold set_err. destruct (err s); exact Hm.
    + destruct (err s) eqn:He.
      * intros H. injection H as <-. exact Hm.
      * intros H. now apply Hb.
Qed.

Lemma emitted_set_err e s : emitted (set_err e s) = emitted s.
Proof. unfold set_err. now destruct (err s). Qed.

Ltac crush_body :=
  unfold fail;
  repeat match goal with
         | |- context [match ?x with _ => _ end] => destruct x
         end;
  intros H; try discriminate H; injection H as <-; rewrite ?emitted_set_err; reflexivity.

Lemma up_like i s : mutator_like i s (up i s).
Proof. apply guarded_like. intros s'. crush_body. Qed.
Lemma add_checks_like i t k s : mutator_like i s (add_checks i t k s).
Proof. apply guarded_like. intros s'. unfold fail. crush_body. Qed.
Lemma add_block_like i a s : mutator_like i s (add_block i a s).
Proof. apply guarded_like. intros s'. unfold fail. crush_body. Qed.
Lemma add_seq_like i q s : mutator_like i s (add_seq i q s).
Proof. apply guarded_like. intros s'. unfold fail. crush_body. Qed.
Lemma add_action_like i a s : mutator_like i s (add_action i a s).
Proof. apply guarded_like. intros s'. unfold fail. crush_body. Qed.

Definition is_mutator (c : call) : bool := match c with CReset _ | CPlan => false | _ => true end.

Lemma mon_mut i s o c :
  is_mutator c = true -> mutator_like i s o -> r_ret (snd (mut o s)) <> RPanic ->
  mon_step (mon_of s) c (snd (mut o s)) = Some (mon_of (fst (mut o s))).
Proof.
  intros Hc [F1 [F2 F3]] Hp. destruct o as [s'|]; [|cbn in Hp; congruence].
  cbn [mut fst snd]. specialize (F3 s' eq_refl).
  assert (G : forall r, r = {| r_ret := of_err (err s'); r_plan := None; r_after := err s' |} ->
              match m_cur (mon_of s) with
              | Some e => if rclass_eqb (r_ret r) (RErr e) && is_none (r_plan r) && oerror_eqb (r_after r) (Some e)
                          then Some (mon_of s) else None
              | None =>
                if m_emitted (mon_of s) then
                  if is_uae (r_ret r) && is_none (r_plan r) && rclass_eqb (r_ret r) (of_err (r_after r))
                  then Some {| m_cur := r_after r; m_emitted := true |} else None
                else if rclass_eqb (r_ret r) (of_err (r_after r)) && is_none (r_plan r)
                     then Some {| m_cur := r_after r; m_emitted := false |} else None
              end = Some (mon_of s')).
  { intros r ->. cbn [r_ret r_plan r_after mon_of m_emitted m_cur is_none].
    destruct (err s) as [e|] eqn:He.
    - (* an error is in force: nothing changes *)
      assert (s' = s) as ->.
      { destruct (emitted s) eqn:Hm.
        - specialize (F1 eq_refl). rewrite (set_err_stuck _ e s He) in F1. now injection F1.
        - specialize (F2 e eq_refl eq_refl). now injection F2. }
      rewrite He. cbn [of_err rclass_eqb oerror_eqb]. rewrite error_eqb_refl. unfold mon_of. now rewrite He.
    - destruct (emitted s) eqn:Hm.
      + specialize (F1 eq_refl). injection F1 as ->.
        assert (E : err (set_err (EUseAfterEmit, i) s) = Some (EUseAfterEmit, i)) by (unfold set_err; now rewrite He).
        rewrite E. cbn [of_err is_uae andb rclass_eqb]. rewrite error_eqb_refl. unfold mon_of. now rewrite E, F3.
      + rewrite rclass_eqb_refl. unfold mon_of. now rewrite F3. }
  specialize (G _ eq_refl).
  unfold mon_step. cbn [r_ret].
  destruct c as [a| |t k|a|q|a|]; try discriminate Hc; destruct (err s') as [e'|]; cbn [of_err] in *;
    destruct (m_cur (mon_of s)); try exact G; destruct (m_emitted (mon_of s)); exact G.
Qed.

Lemma mon_step_ok i s c :
  r_ret (snd (step dev_none i s c)) <> RPanic ->
  mon_step (mon_of s) c (snd (step dev_none i s c)) = Some (mon_of (fst (step dev_none i s c))).
Proof.
  intros Hp. destruct c as [a| |t k|a|q|a|]; cbn [step] in *.
  - (* Reset *)
    destruct (bad_plan a) as [e|] eqn:Hb.
    + destruct (reset_bad i a s e Hb) as [s' [H1 [H2 H3]]]. rewrite H1. cbn [fst snd].
      unfold mon_step. cbn [r_ret r_plan r_after of_err]. rewrite H2. cbn [of_err rclass_eqb is_none].
      rewrite error_eqb_refl. unfold mon_of. now rewrite H2, H3.
    + rewrite (reset_ok i a s Hb). reflexivity.
  - exact (mon_mut i s _ CUp eq_refl (up_like i s) Hp).
  - exact (mon_mut i s _ (CAddChecks t k) eq_refl (add_checks_like i t k s) Hp).
  - exact (mon_mut i s _ (CAddBlock a) eq_refl (add_block_like i a s) Hp).
  - exact (mon_mut i s _ (CAddSeq q) eq_refl (add_seq_like i q s) Hp).
  - exact (mon_mut i s _ (CAddAction a) eq_refl (add_action_like i a s) Hp).
  - (* Plan() *)
    unfold emit in *. unfold mon_step, mon_of.
    destruct (err s) as [e|] eqn:He.
    + cbn [fst snd r_ret r_plan r_after of_err is_none andb m_emitted m_cur rclass_eqb]. rewrite ?He.
      cbn [oerror_eqb]. rewrite error_eqb_refl. cbn [andb]. now rewrite ?He.
    + destruct (emitted s) eqn:Hm.
      * assert (E : err (set_err (EUseAfterEmit, i) s) = Some (EUseAfterEmit, i)) by (unfold set_err; now rewrite He).
        assert (M : emitted (set_err (EUseAfterEmit, i) s) = true) by (unfold set_err; now rewrite He).
        cbv zeta. cbn [fst snd r_ret r_plan r_after m_emitted m_cur]. rewrite ?E, ?He, ?Hm.
        cbn [of_err is_uae is_none andb rclass_eqb]. rewrite ?E. cbn [of_err rclass_eqb].
        rewrite error_eqb_refl. now rewrite ?E, ?M.
      * destruct (chain s) as [|f c]; [cbn in Hp; congruence|].
        cbn [fst snd r_ret r_plan r_after of_err is_none andb negb m_emitted m_cur rclass_eqb err emitted with_emitted].
        rewrite ?He, ?Hm. cbn [is_none andb]. now rewrite ?Hm, ?He.
Qed.

Lemma mon_run_ok l : forall i s,
  Forall (fun r => r_ret r <> RPanic) (run dev_none i s l) ->
  mon_run (mon_of s) l (run dev_none i s l) = true.
Proof.
  induction l as [|c l IH]; intros i s H; [reflexivity|].
  cbn [run] in *. pose proof (mon_step_ok i s c) as Hs.
  destruct (step dev_none i s c) as [s' x]. cbn [fst snd] in Hs.
  inversion H as [|? ? Hx Hl]; subst. cbn [mon_run]. rewrite (Hs Hx). now apply IH.
Qed.

Theorem monitor_holds x : monitor x (run_session dev_none x) = true.
Proof.
  pose proof (never_panics x) as Hp. destruct x as [a l]. unfold run_session, monitor in *. cbn [fst snd] in *.
  destruct (bad_plan a) as [e|] eqn:Hb.
  - destruct (reset_bad 0 a zero e Hb) as [s' [H1 _]]. rewrite H1. reflexivity.
  - rewrite (reset_ok 0 a zero Hb) in *. cbn [r_ret r_plan r_after is_none andb].
    inversion Hp as [|? ? _ Hl]; subst. apply (mon_run_ok l 1 (SP (fresh a)) Hl).
Qed.

(* B2 (Reset does not record a failing option's error) breaks the property: a witness *)
Definition b2_witness : session :=
  ({| pa_lab := 1; pa_name := NOk; pa_descr := NOk; pa_gid := GNone |},
   [CReset {| pa_lab := 2; pa_name := NOk; pa_descr := NOk; pa_gid := GNil |};
    CAddBlock {| ba_lab := 3; ba_name := NOk; ba_descr := NOk |};
    CPlan]).
Lemma dev_B2_refutes : monitor b2_witness (run_session dev_only_B2 b2_witness) = false.
Proof. vm_compute. reflexivity. Qed.

(* B3: the builder as it was before 496ee11 breaks the property: New; Plan(); AddBlock("") ; Up(); Plan() -
   three different errors, none of them kept *)
Definition b3_witness : session :=
  ({| pa_lab := 1; pa_name := NOk; pa_descr := NOk; pa_gid := GNone |},
   [CPlan; CAddBlock {| ba_lab := 2; ba_name := NEmpty; ba_descr := NOk |}; CUp; CPlan]).
Lemma pre_B3_refuted : monitor b3_witness (PreB3.run_session dev_none b3_witness) = false.
Proof. vm_compute. reflexivity. Qed.
Lemma post_B3_holds : monitor b3_witness (run_session dev_none b3_witness) = true.
Proof. vm_compute. reflexivity. Qed.
