From Coq Require Import Lia.
From Coercion.Base Require Import Plan.
From Coercion.Builder Require Import Model Spec Proofs ProofsPhases ProofsSteps ProofsActs ProofsLevels.

(* ------------------------------------------------------------------ one epoch *)
Lemma body_run d i t l : no_reset l = true -> run d i (SP t) l = body_results i t l.
Proof.
  intros Hr. unfold body_results, parse.
  rewrite (plan_level d (S (length l))) by (try lia; exact Hr).
  unfold follow. pose proof (parse_plan_not_up (S (length l)) t l) as Hu.
  destruct (p_stop (parse_plan (S (length l)) t l)); [congruence|reflexivity|reflexivity|reflexivity].
Qed.

Lemma reset_ok i a s : bad_plan a = None -> reset dev_none i a s = (SP (fresh a), None).
Proof.
  unfold bad_plan, reset, fresh. destruct (nm_blank (pa_name a) || nm_blank (pa_descr a)); [discriminate|].
  destruct (pa_gid a); [reflexivity|discriminate|reflexivity].
Qed.

Lemma reset_bad i a s e :
  bad_plan a = Some e ->
  exists s', reset dev_none i a s = (s', Some (e, i)) /\ err s' = Some (e, i) /\ emitted s' = false.
Proof.
  unfold bad_plan, reset. destruct (nm_blank (pa_name a) || nm_blank (pa_descr a)).
  - intros H. injection H as <-. eexists. repeat split.
  - destruct (pa_gid a); try discriminate. intros H. injection H as <-. cbn [dev_B2 dev_none].
    eexists. repeat split.
Qed.

Lemma epoch_run i a body s :
  no_reset body = true -> run dev_none i s (CReset a :: body) = epoch_results i a body.
Proof.
  intros Hr. unfold epoch_results. cbn [run step]. destruct (bad_plan a) as [e|] eqn:Hb.
  - destruct (reset_bad i a s e Hb) as [s' [H1 [H2 H3]]]. rewrite H1, H2. cbn [of_err]. f_equal.
    now apply run_stuck.
  - rewrite (reset_ok i a s Hb). cbn [of_err err SP mk]. f_equal. now apply body_run.
Qed.

Definition flatten (es : list (parg * list call)) : list call :=
  concat (map (fun e => CReset (fst e) :: snd e) es).

Lemma epochs_run es : forall i s,
  Forall (fun e => no_reset (snd e) = true) es ->
  run dev_none i s (flatten es) = epochs_results i es.
Proof.
  induction es as [|[a body] es IH]; intros i s H; [reflexivity|].
  inversion H as [|? ? H1 H2]; subst. cbn [snd] in H1.
  unfold flatten. cbn [map concat fst snd]. fold (flatten es).
  change (CReset a :: body ++ flatten es) with ((CReset a :: body) ++ flatten es).
  rewrite run_app, (epoch_run i a body s H1). cbn [epochs_results length]. f_equal.
  replace (i + S (length body)) with (S (i + length body)) by lia. now apply IH.
Qed.

Lemma split_spec l : forall h t,
  split l = (h, t) ->
  l = h ++ flatten t /\ no_reset h = true /\ Forall (fun e => no_reset (snd e) = true) t.
Proof.
  induction l as [|c l IH]; intros h t H; cbn [split] in H.
  - injection H as <- <-. repeat split. constructor.
  - destruct (split l) as [h' t'] eqn:E. destruct (IH h' t' eq_refl) as [H1 [H2 H3]].
    destruct c as [a| |ty k|a|q|a|]; injection H as <- <-;
      try (repeat split; [cbn [app]; now f_equal|cbn [no_reset forallb is_reset negb andb]; exact H2|exact H3]).
    repeat split; [unfold flatten; cbn [map concat fst snd app]; now f_equal|].
    constructor; [exact H2|exact H3].
Qed.

(* ------------------------------------------------------------------ the session *)
Theorem session_spec x : run_session dev_none x = spec_session x.
Proof.
  destruct x as [a l]. unfold run_session, spec_session. cbn [fst snd].
  destruct (bad_plan a) as [e|] eqn:Hb.
  - destruct (reset_bad 0 a zero e Hb) as [s' [H1 _]]. now rewrite H1.
  - rewrite (reset_ok 0 a zero Hb). unfold ok_res. f_equal.
    destruct (split l) as [h t] eqn:E. destruct (split_spec l h t E) as [-> [H2 H3]].
    rewrite run_app, (body_run dev_none 1 (fresh a) h H2). f_equal. f_equal.
    cbn [Nat.add]. now apply epochs_run.
Qed.

(* ------------------------------------------------------------------ never a panic *)
Definition calm (r : res) : Prop := r_ret r <> RPanic.

Lemma calm_repeat n : Forall calm (repeat ok_res n).
Proof. induction n; cbn; constructor; [discriminate|assumption]. Qed.
Lemma calm_stuck {A} e (l : list A) : Forall calm (map (fun _ => stuck_res e) l).
Proof. induction l; cbn; constructor; [discriminate|assumption]. Qed.
Lemma calm_done l i : Forall calm (done_results i l).
Proof. apply calm_stuck. Qed.
Lemma calm_finish s t j rest : Forall calm (finish s t j rest).
Proof.
  destruct s; cbn [finish]; try constructor.
  - destruct rest as [|c r]; [constructor|]. destruct c; try constructor. discriminate. apply calm_done.
  - apply calm_stuck.
Qed.
Lemma calm_body i t l : Forall calm (body_results i t l).
Proof. unfold body_results. apply Forall_app. split; [apply calm_repeat|apply calm_finish]. Qed.
Lemma calm_epoch i a body : Forall calm (epoch_results i a body).
Proof.
  unfold epoch_results. destruct (bad_plan a).
  - constructor; [discriminate|apply calm_stuck].
  - constructor; [discriminate|apply calm_body].
Qed.
Lemma calm_epochs es : forall i, Forall calm (epochs_results i es).
Proof.
  induction es as [|[a body] es IH]; intros i; cbn [epochs_results]; [constructor|].
  apply Forall_app. split; [apply calm_epoch|apply IH].
Qed.
Lemma calm_spec x : Forall calm (spec_session x).
Proof.
  destruct x as [a l]. unfold spec_session. destruct (bad_plan a).
  - constructor; [discriminate|constructor].
  - destruct (split l) as [h t]. constructor; [discriminate|].
    apply Forall_app. split; [apply calm_body|apply calm_epochs].
Qed.

Theorem never_panics x : Forall (fun r => r_ret r <> RPanic) (run_session dev_none x).
Proof. rewrite session_spec. apply calm_spec. Qed.
