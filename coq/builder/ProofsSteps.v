From Coq Require Import Lia.
From Coercion.Base Require Import Plan.
From Coercion.Builder Require Import Model Spec Proofs ProofsPhases.

(* ------------------------------------------------------------------ the states of a building machine *)
Definition mk (t : tplan) (c : list frame) : st := {| tree := t; chain := c; err := None; emitted := false |}.
Definition addb (t : tplan) (b : tblock) : tplan := pset_blocks (tp_blocks t ++ [b]) t.
Definition addq (b : tblock) (q : tseq) : tblock := bset_seqs (tb_seqs b ++ [q]) b.
Definition K (lab : nat) (acts : list (option nat)) : tchecks := {| tk_lab := lab; tk_acts := acts |}.
Definition Q (lab : nat) (acts : list (option nat)) : tseq := {| tq_lab := lab; tq_acts := acts |}.

Definition SP t := mk t [FPlan].                                                        (* at the plan *)
Definition SPK t g lab acts := mk (pset g (Some (K lab acts)) t) [FChecks g; FPlan].     (* in a group of the plan *)
Definition SB t b := mk (addb t b) [FBlock; FPlan].                                      (* in the last block *)
Definition SBK t b g lab acts := mk (addb t (bset g (Some (K lab acts)) b)) [FChecks g; FBlock; FPlan].
Definition SQ t b lab acts := mk (addb t (addq b (Q lab acts))) [FSeq; FBlock; FPlan].

Lemma in_last_block_addb f t b : in_last_block f (addb t b) = addb t (f b).
Proof. unfold in_last_block, addb. cbn [tp_blocks pset_blocks]. now rewrite upd_last_app. Qed.
Lemma in_last_seq_addq f b q : in_last_seq f (addq b q) = addq b (f q).
Proof. unfold in_last_seq, addq. cbn [tb_seqs bset_seqs]. now rewrite upd_last_app. Qed.
Lemma last_block_addb t b : last_block (addb t b) = Some b.
Proof. apply last_block_app. Qed.
Lemma in_bgrp_bset g f k b : in_bgrp g f (bset g (Some k) b) = bset g (Some (f k)) b.
Proof. unfold in_bgrp. now rewrite bget_bset, bset_bset. Qed.
Lemma in_pgrp_pset g f k t : in_pgrp g f (pset g (Some k) t) = pset g (Some (f k)) t.
Proof. unfold in_pgrp. now rewrite pget_pset, pset_pset. Qed.

Lemma existsb_none l :
  existsb is_none l = negb (forallb (fun a : option nat => match a with Some _ => true | None => false end) l).
Proof. induction l as [|[x|] l IH]; cbn; [reflexivity|exact IH|reflexivity]. Qed.

Lemma mut_fail e i s : err s = None -> mut (fail e i s) s = (set_err (e, i) s, stuck_res (e, i)).
Proof. intros He. unfold fail, set_err. rewrite He. reflexivity. Qed.
Lemma mut_next s' s : err s' = None -> mut (Next s') s = (s', ok_res).
Proof. intros H. cbn [mut]. now rewrite H. Qed.

(* the argument checks every mutator makes first, whatever the position *)
Lemma add_action_bad i s a e :
  err s = None -> emitted s = false -> bad_action a = Some e -> add_action i a s = fail e i s.
Proof.
  intros He Hm Hb. unfold add_action, guarded. rewrite Hm, He.
  destruct a as [a|]; cbn [bad_action] in Hb; [|now injection Hb as <-].
  destruct (nm_empty (aa_name a)); [now injection Hb as <-|].
  destruct (nm_empty (aa_descr a)); [now injection Hb as <-|].
  destruct (nm_empty (aa_plugin a)); [now injection Hb as <-|discriminate Hb].
Qed.
Lemma add_action_good i s a :
  err s = None -> emitted s = false -> bad_action (Some a) = None ->
  add_action i (Some a) s =
  match chain s with
  | [] => Boom
  | FSeq :: _ => Next (with_tree (in_last_block (in_last_seq (qadd (aa_lab a))) (tree s)) s)
  | FChecks g :: FBlock :: _ => Next (with_tree (in_last_block (in_bgrp g (kadd (aa_lab a))) (tree s)) s)
  | FChecks g :: _ => Next (with_tree (in_pgrp g (kadd (aa_lab a)) (tree s)) s)
  | _ => fail EWrongLevel i s
  end.
Proof.
  intros He Hm Hb. unfold add_action, guarded. rewrite Hm, He. cbn [bad_action] in Hb.
  destruct (nm_empty (aa_name a)); [discriminate Hb|].
  destruct (nm_empty (aa_descr a)); [discriminate Hb|].
  destruct (nm_empty (aa_plugin a)); [discriminate Hb|reflexivity].
Qed.

Lemma add_checks_bad i s t k e :
  err s = None -> emitted s = false -> bad_checks k = Some e -> add_checks i t k s = fail e i s.
Proof.
  intros He Hm Hb. unfold add_checks, guarded. rewrite Hm, He.
  destruct k as [k|]; cbn [bad_checks] in Hb; [|now injection Hb as <-].
  rewrite existsb_none. destruct (forallb _ (ka_acts k)); [discriminate Hb|]. now injection Hb as <-.
Qed.
Lemma add_checks_good i s t k :
  err s = None -> emitted s = false -> bad_checks (Some k) = None ->
  add_checks i t (Some k) s =
  let new := K (ka_lab k) (ka_acts k) in
  match chain s with
  | [] => Boom
  | FPlan :: _ =>
    match t with
    | CTBad => fail EUnknownType i s
    | CT g => if is_none (pget g (tree s))
              then Next (with_chain (FChecks g :: chain s) (with_tree (pset g (Some new) (tree s)) s))
              else fail EDuplicate i s
    end
  | FBlock :: _ =>
    match last_block (tree s) with
    | None => Boom
    | Some b =>
      match t with
      | CTBad => fail EUnknownType i s
      | CT g => if is_none (bget g b)
                then Next (with_chain (FChecks g :: chain s) (with_tree (in_last_block (bset g (Some new)) (tree s)) s))
                else fail EDuplicate i s
      end
    end
  | _ => fail EWrongLevel i s
  end.
Proof.
  intros He Hm Hb. unfold add_checks, guarded. rewrite Hm, He. cbn [bad_checks] in Hb.
  rewrite existsb_none. destruct (forallb _ (ka_acts k)); [reflexivity|discriminate Hb].
Qed.

Lemma add_block_bad i s a e :
  err s = None -> emitted s = false -> bad_block a = Some e -> add_block i a s = fail e i s.
Proof.
  intros He Hm Hb. unfold add_block, guarded. rewrite Hm, He. unfold bad_block in Hb.
  destruct (nm_empty (ba_name a)); [now injection Hb as <-|].
  destruct (nm_empty (ba_descr a)); [now injection Hb as <-|discriminate Hb].
Qed.
Lemma add_block_good i s a :
  err s = None -> emitted s = false -> bad_block a = None ->
  add_block i a s =
  match chain s with
  | [] => Boom
  | FPlan :: _ => Next (with_chain (FBlock :: chain s)
                          (with_tree (pset_blocks (tp_blocks (tree s) ++ [new_block (ba_lab a)]) (tree s)) s))
  | _ => fail EWrongLevel i s
  end.
Proof.
  intros He Hm Hb. unfold add_block, guarded. rewrite Hm, He. unfold bad_block in Hb.
  destruct (nm_empty (ba_name a)); [discriminate Hb|].
  destruct (nm_empty (ba_descr a)); [discriminate Hb|reflexivity].
Qed.

Lemma add_seq_bad i s q e :
  err s = None -> emitted s = false -> bad_seq q = Some e -> add_seq i q s = fail e i s.
Proof.
  intros He Hm Hb. unfold add_seq, guarded. rewrite Hm, He.
  destruct q as [q|]; cbn [bad_seq] in Hb; [|now injection Hb as <-].
  destruct (nm_empty (sa_name q)); [now injection Hb as <-|].
  destruct (nm_empty (sa_descr q)); [now injection Hb as <-|discriminate Hb].
Qed.
Lemma add_seq_good i s q :
  err s = None -> emitted s = false -> bad_seq (Some q) = None ->
  add_seq i (Some q) s =
  match chain s with
  | [] => Boom
  | FBlock :: _ =>
    Next (with_chain (FSeq :: chain s)
            (with_tree (in_last_block (fun b => bset_seqs (tb_seqs b ++ [Q (sa_lab q) (sa_acts q)]) b) (tree s)) s))
  | _ => fail EWrongLevel i s
  end.
Proof.
  intros He Hm Hb. unfold add_seq, guarded. rewrite Hm, He. cbn [bad_seq] in Hb.
  destruct (nm_empty (sa_name q)); [discriminate Hb|].
  destruct (nm_empty (sa_descr q)); [discriminate Hb|reflexivity].
Qed.

(* a usable argument where the element cannot go: the machine says what the reference calls a misfit *)
Lemma misfit_action i s a :
  err s = None -> emitted s = false ->
  match chain s with FPlan :: _ | FBlock :: _ => True | _ => False end ->
  add_action i a s = fail (misfit (bad_action a)) i s.
Proof.
  intros He Hm Hc. destruct (bad_action a) as [e|] eqn:Hb; cbn [misfit].
  - now apply add_action_bad.
  - destruct a as [a|]; [|discriminate Hb]. rewrite add_action_good by assumption.
    destruct (chain s) as [|[|g| |] c]; try contradiction; reflexivity.
Qed.
Lemma misfit_checks i s t k :
  err s = None -> emitted s = false ->
  match chain s with FChecks _ :: _ | FSeq :: _ => True | _ => False end ->
  add_checks i t k s = fail (misfit (bad_checks k)) i s.
Proof.
  intros He Hm Hc. destruct (bad_checks k) as [e|] eqn:Hb; cbn [misfit].
  - now apply add_checks_bad.
  - destruct k as [k|]; [|discriminate Hb]. rewrite add_checks_good by assumption.
    destruct (chain s) as [|[|g| |] c]; try contradiction; reflexivity.
Qed.
Lemma misfit_block i s a :
  err s = None -> emitted s = false ->
  match chain s with [] | FPlan :: _ => False | _ => True end ->
  add_block i a s = fail (misfit (bad_block a)) i s.
Proof.
  intros He Hm Hc. destruct (bad_block a) as [e|] eqn:Hb; cbn [misfit].
  - now apply add_block_bad.
  - rewrite add_block_good by assumption.
    destruct (chain s) as [|[|g| |] c]; try contradiction; reflexivity.
Qed.
Lemma misfit_seq i s q :
  err s = None -> emitted s = false ->
  match chain s with [] | FBlock :: _ => False | _ => True end ->
  add_seq i q s = fail (misfit (bad_seq q)) i s.
Proof.
  intros He Hm Hc. destruct (bad_seq q) as [e|] eqn:Hb; cbn [misfit].
  - now apply add_seq_bad.
  - destruct q as [q|]; [|discriminate Hb]. rewrite add_seq_good by assumption.
    destruct (chain s) as [|[|g| |] c]; try contradiction; reflexivity.
Qed.
