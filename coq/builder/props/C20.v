(* placeholder until Proofs.v lands: the correspondence check (Check.v) already runs *)
From Coercion.Builder Require Import Model Spec.
Theorem c20_placeholder : True. Proof. exact I. Qed.
Print Assumptions c20_placeholder.
