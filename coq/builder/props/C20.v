(* C20 - any sequence of builder calls either yields exactly the plan that directly constructing the
   same hierarchy would yield, or reports the first misuse as an error that every later call and
   Plan() keep returning until Reset; it never panics and never drops or misplaces an object.

   Model: Coercion.Builder.Model - the cursor machine of workflow/builder/builder.go (tree under
   construction, chain of frames, sticky error, emitted flag; one function per public method; result
   Ok | Err (class, identity of the error value) | Panic).  [run_session dev_none (a, calls)] is what
   New(a) followed by [calls] returns, call by call (call 0 is New).
   Reference: Coercion.Builder.Spec - [parse], a recursive-descent reading of the call list as a
   bracketed pre-order serialisation (AddChecks/AddBlock/AddSequence open, Up closes, the end closes
   what is open), giving the tree or the first call that does not fit with the class of that misuse;
   [spec_session], what every call must return according to that reading; [monitor], stickiness as a
   function of calls and results alone.

   All theorems are for [dev_none], the model of the code as it is after the fixes B1, B2 (fc92270) and B3
   (496ee11: setErr keeps the first error, Plan() checks the sticky error first and records its own
   use-after-emit error, Reset clears the error first).  [c20_dev_B2_refutes] and [c20_pre_B3_refuted] show
   that the earlier behaviours break the property. *)
From Coercion.Base Require Import Plan.
From Coercion.Builder Require Import Model ModelPreB3 Spec Proofs ProofsSession ProofsMonitor ProofsClauses Examples.

(* no call ever panics *)
Theorem c20_never_panics :
  forall x : session, Forall (fun r : res => r_ret r <> RPanic) (run_session dev_none x).
Proof. exact never_panics. Qed.
Print Assumptions c20_never_panics.

(* the builder returns, call by call, what the reference reading of the call list says: ok while the
   calls parse; at Plan() the parsed tree; from the first misuse on that error and no tree, until Reset;
   after a successful Plan() the use-after-emit error, until Reset *)
Theorem c20_builder :
  forall x : session, run_session dev_none x = spec_session x.
Proof. exact session_spec. Qed.
Print Assumptions c20_builder.

(* the reference is total: the fuel of the parser never runs out, and it consumes a prefix of the list *)
Theorem c20_parse_total :
  forall (t : tplan) (l : list call),
    p_stop (parse t l) <> SFuel /\ exists pre, l = pre ++ p_rest (parse t l).
Proof. exact parse_total. Qed.
Print Assumptions c20_parse_total.

(* clause 1, written out: if the calls up to the first Plan() contain no misuse, each returns ok, Plan()
   returns exactly the tree the parser built from them; the call after it is then the first misuse (use after
   emit) and its error value is what it and every later call, Plan() included, return *)
Theorem c20_valid_calls_emit_parse :
  forall (a : parg) (body r : list call),
    bad_plan a = None -> no_reset body = true ->
    p_stop (parse (fresh a) body) = SEnd -> p_rest (parse (fresh a) body) = CPlan :: r ->
    run_session dev_none (a, body) =
    ok_res :: repeat ok_res (p_n (parse (fresh a) body))
           ++ emit_res (p_val (parse (fresh a) body))
           :: done_results (S (S (p_n (parse (fresh a) body)))) r.
Proof. exact valid_calls_emit_parse. Qed.
Print Assumptions c20_valid_calls_emit_parse.

(* clause 2, written out: the calls before the first misuse return ok; the misuse and every later call,
   Plan() included, return that one error value (class e, created by that call) and no tree *)
Theorem c20_first_misuse_is_sticky :
  forall (a : parg) (body : list call) (e : eclass),
    bad_plan a = None -> no_reset body = true ->
    p_stop (parse (fresh a) body) = SBad e ->
    run_session dev_none (a, body) =
    ok_res :: repeat ok_res (p_n (parse (fresh a) body))
           ++ map (fun _ => stuck_res (e, S (p_n (parse (fresh a) body)))) (p_rest (parse (fresh a) body)).
Proof. exact first_misuse_sticky. Qed.
Print Assumptions c20_first_misuse_is_sticky.

(* "until Reset": what follows a Reset does not depend on anything that came before it *)
Theorem c20_reset_starts_afresh :
  forall (i : nat) (s1 s2 : st) (a : parg) (l : list call),
    run dev_none i s1 (CReset a :: l) = run dev_none i s2 (CReset a :: l).
Proof. exact reset_starts_afresh. Qed.
Print Assumptions c20_reset_starts_afresh.

(* stickiness as a monitor over calls and results alone (the same function is evaluated on what the
   real builder returned), with NO exemption for use after emit: no panic; the first misuse - a call after
   the plan was emitted included - is the error value that every later call and Plan() return, with no
   tree, until Reset; a Reset that fails leaves its own error in force *)
Theorem c20_sticky_monitor :
  forall x : session, monitor x (run_session dev_none x) = true.
Proof. exact monitor_holds. Qed.
Print Assumptions c20_sticky_monitor.

(* the deviation the code needs today is a violation of the property, not a loosening of the check:
   New; Reset(ok, ok, WithGroupID(uuid.Nil)) returns an error; AddBlock; Plan() returns a plan *)
Theorem c20_dev_B2_refutes :
  monitor b2_witness (run_session dev_only_B2 b2_witness) = false.
Proof. exact dev_B2_refutes. Qed.
Print Assumptions c20_dev_B2_refutes.

(* B3: the builder before 496ee11 (Model PreB3: setErr overwrites, "after Plan()" branches first, Plan() twice
   returns an unrecorded error) violates the monitor on New; Plan(); AddBlock(""); Up(); Plan() - the fixed one does not *)
Theorem c20_pre_B3_refuted :
  monitor b3_witness (PreB3.run_session dev_none b3_witness) = false
  /\ monitor b3_witness (run_session dev_none b3_witness) = true.
Proof. exact (conj pre_B3_refuted post_B3_holds). Qed.
Print Assumptions c20_pre_B3_refuted.

(* ---- not vacuous ---- *)
Example c20_ex_parse :
  parse (new_plan 1) (ex_calls ++ [CPlan; exA 12]) =
  {| p_val := ex_tree; p_n := 12; p_stop := SEnd; p_rest := [CPlan; exA 12] |}.
Proof. vm_compute. reflexivity. Qed.
Example c20_ex_session : run_session dev_none ex_session = ex_results.
Proof. vm_compute. reflexivity. Qed.
Example c20_ex_hypotheses_1 :
  bad_plan (exP 1) = None /\ no_reset (ex_calls ++ [CPlan; exA 12]) = true
  /\ p_stop (parse (fresh (exP 1)) (ex_calls ++ [CPlan; exA 12])) = SEnd.
Proof. vm_compute. auto. Qed.
Example c20_ex_hypotheses_2 :
  p_stop (parse (fresh (exP 13)) [exB 14; exK GPost 15 []; CUp; exK GPost 16 []; exA 17; CPlan]) = SBad EDuplicate
  /\ p_n (parse (fresh (exP 13)) [exB 14; exK GPost 15 []; CUp; exK GPost 16 []; exA 17; CPlan]) = 3.
Proof. vm_compute. auto. Qed.
Example c20_ex_monitor_rejects :        (* a run in which the error goes away without a Reset *)
  monitor (exP 1, [CUp; exB 2]) [ok_res; stuck_res (EUpFromRoot, 1); ok_res] = false.
Proof. vm_compute. reflexivity. Qed.
