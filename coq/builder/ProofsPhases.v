From Coq Require Import Lia.
From Coercion.Base Require Import Plan.
From Coercion.Builder Require Import Model Spec Proofs.

(* ------------------------------------------------------------------ the machine: phases *)
Section Machine.
  Variable d : dev.

  (* the state after a list of calls *)
  Fixpoint exec (i : nat) (s : st) (l : list call) : st :=
    match l with
    | [] => s
    | c :: r => exec (S i) (fst (step d i s c)) r
    end.

  Lemma run_app i s l1 l2 :
    run d i s (l1 ++ l2) = run d i s l1 ++ run d (i + length l1) (exec i s l1) l2.
  Proof.
    revert i s. induction l1 as [|c l1 IH]; intros i s; cbn [app run exec length].
    - now rewrite Nat.add_0_r.
    - destruct (step d i s c) as [s' x]. cbn [fst]. rewrite IH. cbn [app].
      now replace (S i + length l1) with (i + S (length l1)) by lia.
  Qed.

  Lemma run_length i s l : length (run d i s l) = length l.
  Proof.
    revert i s. induction l as [|c l IH]; intros i s; cbn [run length]; [reflexivity|].
    destruct (step d i s c) as [s' x]. cbn [length]. now rewrite IH.
  Qed.

  (* a sticky error: every call but Reset returns it and changes nothing *)
  Lemma step_stuck i s c e :
    err s = Some e -> emitted s = false -> is_reset c = false -> step d i s c = (s, stuck_res e).
  Proof.
    intros He Hm Hc. destruct c as [a| |t k|a|q|a|]; try discriminate Hc; cbn [step].
    - unfold up, guarded. rewrite Hm, He. cbn [mut]. now rewrite He.
    - unfold add_checks, guarded. rewrite Hm, He. cbn [mut]. now rewrite He.
    - unfold add_block, guarded. rewrite Hm, He. cbn [mut]. now rewrite He.
    - unfold add_seq, guarded. rewrite Hm, He. cbn [mut]. now rewrite He.
    - unfold add_action, guarded. rewrite Hm, He. cbn [mut]. now rewrite He.
    - unfold emit. rewrite Hm, He. cbn [of_err]. now rewrite He.
  Qed.

  Lemma run_stuck l : forall i s e,
    err s = Some e -> emitted s = false -> no_reset l = true ->
    run d i s l = map (fun _ => stuck_res e) l.
  Proof.
    induction l as [|c l IH]; intros i s e He Hm Hl; [reflexivity|].
    cbn [no_reset forallb] in Hl. apply andb_true_iff in Hl as [Hc Hl].
    apply negb_true_iff in Hc. cbn [run map].
    rewrite (step_stuck i s c e He Hm Hc). f_equal. now apply IH.
  Qed.

  (* after a successful Plan() *)
  Lemma run_done l : forall i s,
    emitted s = true -> no_reset l = true -> run d i s l = done_results (err s) i l.
  Proof.
    induction l as [|c l IH]; intros i s Hm Hl; [reflexivity|].
    cbn [no_reset forallb] in Hl. apply andb_true_iff in Hl as [Hc Hl].
    apply negb_true_iff in Hc.
    assert (Hmut : forall o, o = Next (set_err (EUseAfterEmit, i) s) ->
              run d (S i) (fst (mut o s)) l = done_results (Some (EUseAfterEmit, i)) (S i) l
              /\ snd (mut o s) = stuck_res (EUseAfterEmit, i)).
    { intros o ->. cbn [mut fst snd]. split; [|reflexivity]. rewrite IH; [reflexivity|exact Hm|exact Hl]. }
    destruct c as [a| |t k|a|q|a|]; try discriminate Hc; cbn [run step done_results].
    - destruct (Hmut (up i s)) as [H1 H2]; [unfold up, guarded; now rewrite Hm|].
      destruct (mut (up i s) s) as [s' x]. cbn [fst snd] in H1, H2. now rewrite H1, H2.
    - destruct (Hmut (add_checks i t k s)) as [H1 H2]; [unfold add_checks, guarded; now rewrite Hm|].
      destruct (mut (add_checks i t k s) s) as [s' x]. cbn [fst snd] in H1, H2. now rewrite H1, H2.
    - destruct (Hmut (add_block i a s)) as [H1 H2]; [unfold add_block, guarded; now rewrite Hm|].
      destruct (mut (add_block i a s) s) as [s' x]. cbn [fst snd] in H1, H2. now rewrite H1, H2.
    - destruct (Hmut (add_seq i q s)) as [H1 H2]; [unfold add_seq, guarded; now rewrite Hm|].
      destruct (mut (add_seq i q s) s) as [s' x]. cbn [fst snd] in H1, H2. now rewrite H1, H2.
    - destruct (Hmut (add_action i a s)) as [H1 H2]; [unfold add_action, guarded; now rewrite Hm|].
      destruct (mut (add_action i a s) s) as [s' x]. cbn [fst snd] in H1, H2. now rewrite H1, H2.
    - unfold emit. rewrite Hm. cbn [of_err]. f_equal. now apply IH.
  Qed.

  (* a state in which building goes on *)
  Definition open (s : st) : Prop := err s = None /\ emitted s = false /\ chain s <> [].

  (* how a run goes on where the parser stopped *)
  Lemma run_finish s stop_ j rest :
    open s -> no_reset rest = true ->
    match stop_ with
    | SEnd => True
    | SBad e => exists c r, rest = c :: r /\ step d j s c = (set_err (e, j) s, stuck_res (e, j))
    | _ => False
    end ->
    (stop_ = SEnd -> rest = [] \/ exists r, rest = CPlan :: r) ->
    run d j s rest = finish stop_ (tree s) j rest.
  Proof.
    intros [He [Hm Hc]] Hr Hs Hend. destruct stop_ as [| |e|]; try contradiction.
    - destruct (Hend eq_refl) as [->|[r ->]]; [reflexivity|].
      cbn [run step finish]. unfold emit. rewrite Hm, He.
      destruct (chain s) as [|f c] eqn:E; [congruence|].
      cbn [of_err err with_emitted]. rewrite He. unfold emit_res. f_equal.
      rewrite run_done; [cbn [err with_emitted]; now rewrite He|reflexivity|].
      cbn [no_reset forallb is_reset negb andb] in Hr. exact Hr.
    - destruct Hs as [c [r [-> Hstep]]]. cbn [run finish map]. rewrite Hstep. f_equal.
      cbn [no_reset forallb] in Hr. apply andb_true_iff in Hr as [_ Hr].
      apply run_stuck; [reflexivity|exact Hm|exact Hr].
  Qed.
End Machine.
