From Coq Require Import Lia.
From Coercion.Base Require Import Plan.
From Coercion.Builder Require Import Model Spec Proofs.

(* ------------------------------------------------------------------ the machine: phases *)
Section Machine.
  Variable d : dev.

  (* the state after a list of calls *)
  Fixpoint exec (i : nat) (s : st) (l : list call) : st :=
    match l with
    | [] => s
    | c :: r => exec (S i) (fst (step d i s c)) r
    end.

  Lemma run_app i s l1 l2 :
    run d i s (l1 ++ l2) = run d i s l1 ++ run d (i + length l1) (exec i s l1) l2.
  Proof.
    revert i s. induction l1 as [|c l1 IH]; intros i s; cbn [app run exec length].
    - now rewrite Nat.add_0_r.
    - destruct (step d i s c) as [s' x]. cbn [fst]. rewrite IH. cbn [app].
      now replace (S i + length l1) with (i + S (length l1)) by lia.
  Qed.

  Lemma run_length i s l : length (run d i s l) = length l.
  Proof.
    revert i s. induction l as [|c l IH]; intros i s; cbn [run length]; [reflexivity|].
    destruct (step d i s c) as [s' x]. cbn [length]. now rewrite IH.
  Qed.

  (* a sticky error: every call but Reset returns it and changes nothing (emitted or not) *)
  Lemma set_err_stuck e' e s : err s = Some e -> set_err e' s = s.
  Proof. unfold set_err. now intros ->. Qed.

  Lemma step_stuck i s c e :
    err s = Some e -> is_reset c = false -> step d i s c = (s, stuck_res e).
  Proof.
    intros He Hc.
    assert (G : forall body, mut (guarded i s body) s = (s, stuck_res e)).
    { intros body. unfold guarded. destruct (emitted s).
      - rewrite (set_err_stuck _ e s He). cbn [mut]. now rewrite He.
      - rewrite He. cbn [mut]. now rewrite He. }
    destruct c as [a| |t k|a|q|a|]; try discriminate Hc; cbn [step]; try apply G.
    unfold emit. rewrite He. cbn [of_err]. now rewrite He.
  Qed.

  Lemma run_stuck l : forall i s e,
    err s = Some e -> no_reset l = true ->
    run d i s l = map (fun _ => stuck_res e) l.
  Proof.
    induction l as [|c l IH]; intros i s e He Hl; [reflexivity|].
    cbn [no_reset forallb] in Hl. apply andb_true_iff in Hl as [Hc Hl].
    apply negb_true_iff in Hc. cbn [run map].
    rewrite (step_stuck i s c e He Hc). f_equal. now apply IH.
  Qed.

  (* after a successful Plan(): the first call records a use-after-emit error, which then sticks *)
  Lemma step_done i s c :
    emitted s = true -> err s = None -> is_reset c = false ->
    step d i s c = (set_err (EUseAfterEmit, i) s, stuck_res (EUseAfterEmit, i)).
  Proof.
    intros Hm He Hc.
    assert (E : err (set_err (EUseAfterEmit, i) s) = Some (EUseAfterEmit, i)).
    { unfold set_err. now rewrite He. }
    assert (G : forall body, mut (guarded i s body) s = (set_err (EUseAfterEmit, i) s, stuck_res (EUseAfterEmit, i))).
    { intros body. unfold guarded. rewrite Hm. cbn [mut]. now rewrite E. }
    destruct c as [a| |t k|a|q|a|]; try discriminate Hc; cbn [step]; try apply G.
    unfold emit. rewrite He, Hm. cbv beta iota zeta. rewrite E. cbn [of_err]. reflexivity.
  Qed.

  Lemma run_done l : forall i s,
    emitted s = true -> err s = None -> no_reset l = true -> run d i s l = done_results i l.
  Proof.
    intros i s Hm He Hl. destruct l as [|c l]; [reflexivity|].
    cbn [no_reset forallb] in Hl. apply andb_true_iff in Hl as [Hc Hl]. apply negb_true_iff in Hc.
    unfold done_results. cbn [run map]. rewrite (step_done i s c Hm He Hc). f_equal.
    apply run_stuck; [|exact Hl]. unfold set_err. now rewrite He.
  Qed.

  (* a state in which building goes on *)
  Definition open (s : st) : Prop := err s = None /\ emitted s = false /\ chain s <> [].

  (* how a run goes on where the parser stopped *)
  Lemma run_finish s stop_ j rest :
    open s -> no_reset rest = true ->
    match stop_ with
    | SEnd => True
    | SBad e => exists c r, rest = c :: r /\ step d j s c = (set_err (e, j) s, stuck_res (e, j))
    | _ => False
    end ->
    (stop_ = SEnd -> rest = [] \/ exists r, rest = CPlan :: r) ->
    run d j s rest = finish stop_ (tree s) j rest.
  Proof.
    intros [He [Hm Hc]] Hr Hs Hend. destruct stop_ as [| |e|]; try contradiction.
    - destruct (Hend eq_refl) as [->|[r ->]]; [reflexivity|].
      cbn [run step finish]. unfold emit. rewrite He, Hm.
      destruct (chain s) as [|f c] eqn:E; [congruence|].
      cbn [of_err err with_emitted]. rewrite He. unfold emit_res. f_equal.
      rewrite run_done; [reflexivity|reflexivity|exact He|].
      cbn [no_reset forallb is_reset negb andb] in Hr. exact Hr.
    - destruct Hs as [c [r [-> Hstep]]]. cbn [run finish map]. rewrite Hstep. f_equal.
      cbn [no_reset forallb] in Hr. apply andb_true_iff in Hr as [_ Hr].
      apply run_stuck; [|exact Hr]. unfold set_err. now rewrite He.
  Qed.
End Machine.
