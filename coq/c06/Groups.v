(* Groups - facts about ONE check group of the automaton (ChecksRun.v), independent of the scope it
   belongs to: every event that concerns a group is one [gop]; [g_apply] is the corresponding function of
   ChecksRun.v.  Invariants proved here for one operation:
     gimg   the group state determines the durable status of the group object;
     gshape a group that runs once per scope is GIdle 0 None | GRun 0 _ | GIdle 1 (Some _);
     gfl    the monitor's per-action flags ("the plugin has returned OOk") against the group state. *)
From Coq Require Import Lia.
From Coercion.Base Require Import Plan.
From Coercion.Engine Require Import Shape Event Action ChecksRun AutoLemmas.
From Coercion.C06 Require Import MonC06.

Inductive gop :=
| OpMark (i : nat)
| OpStart (i : nat)
| OpEnd (i : nat) (o : outcome)
| OpAttempt (i n : nat) (lastok : bool)
| OpFinal (i : nat) (st : status) (n : nat) (lastok : bool)
| OpVerdict (st : status).

(* ors = the retries of the group's actions (None = the shape has no such group); may = a run may start now;
   dst = durable status of the group; d = durable cell of the action the operation concerns *)
Definition g_apply (ors : option (list nat)) (may : bool) (dst : status) (d : cell) (g : gst) (op : gop)
  : option (gst * bool) :=
  match op with
  | OpMark i => match ors with
                | Some rs => option_map (fun x => (x, false)) (g_mark rs may dst g i)
                | None => None end
  | OpStart i => option_map (fun x => (x, false)) (g_start g i d)
  | OpEnd i o => option_map (fun x => (x, false)) (g_end g i o)
  | OpAttempt i n lastok => match ors with Some rs => g_attempt rs g i n lastok | None => None end
  | OpFinal i st n lastok => option_map (fun x => (x, false)) (g_final g i st n lastok)
  | OpVerdict st => option_map (fun x => (x, false)) (g_verdict g st)
  end.

(* the durable status of the group object after the operation (only a verdict write changes it) *)
Definition dst_after (dst : status) (op : gop) : status :=
  match op with OpVerdict st => st | _ => dst end.

(* ---- the durable status of a group is a function of its state ---- *)
Definition gimg (g : gst) (dst : status) : Prop :=
  match g with
  | GIdle 0 None => dst = NotStarted
  | GIdle (S _) (Some v) => dst = verdict_status v
  | GRun 0 _ => dst = NotStarted
  | GRun (S _) _ => dst = Completed
  | _ => False
  end.

(* a group that runs once *)
Definition gonce (g : gst) : Prop :=
  match g with
  | GIdle 0 None | GRun 0 _ | GIdle 1 (Some _) => True
  | _ => False
  end.

(* the plugin of an action has returned OOk in the open run *)
Definition okish (a : ast) : bool :=
  match a with ARet _ OOk | APend true _ | ADone true _ => true | _ => false end.
(* the states of an action whose plugin End is still owed (the engine timed the attempt out) *)
Definition quiet (a : ast) : bool :=
  match a with ARun _ | APend false _ | ADone false _ => true | _ => false end.


(* fl = the monitor's flags of the group's n actions *)
Definition gfl (n : nat) (g : gst) (fl : list bool) : Prop :=
  length fl = n /\
  match g with
  | GIdle 0 None => fl = repeat false n
  | GRun 0 acts => length acts = n /\ fl = map okish acts /\ 0 < n
  | GIdle 1 (Some v) => v = all_true fl /\ 0 < n
  | GIdle (S (S _)) (Some _) => all_true fl = true /\ 0 < n
  | GRun (S _) acts => length acts = n /\ all_true fl = true /\ 0 < n
  | _ => False
  end.

(* the flag update the monitor makes for the operation *)
Definition fl_after (fl : list bool) (op : gop) : list bool :=
  match op with
  | OpEnd i o => if outcome_ok o then upd fl i true else fl
  | _ => fl
  end.

(* ---- small list facts ---- *)
Lemma upd_same {A} (l : list A) i x : nth_error l i = Some x -> upd l i x = l.
Proof.
  revert i; induction l as [|y l IH]; intros [|i] H; simpl in *; try discriminate; auto.
  - now injection H as ->.
  - now rewrite IH.
Qed.

Lemma map_upd_same {A B} (f : A -> B) (l : list A) i a a' :
  nth_error l i = Some a -> f a' = f a -> map f (upd l i a') = map f l.
Proof.
  intros H E. rewrite map_upd, E. apply upd_same. now rewrite nth_error_map, H.
Qed.

Lemma upd_out {A} (l : list A) i x : length l <= i -> upd l i x = l.
Proof.
  revert i; induction l as [|y l IH]; intros [|i] H; simpl in *; auto; try lia.
  rewrite IH; auto. lia.
Qed.

Lemma all_true_upd (l : list bool) i : all_true l = true -> all_true (upd l i true) = true.
Proof. intro H. unfold all_true. apply forallb_upd; auto. Qed.

Lemma map_okish_fresh n i : map okish (upd (repeat AIdle n) i (ARun 0)) = repeat false n.
Proof.
  revert i; induction n as [|n IH]; intros [|i]; simpl; auto.
  - f_equal. clear. induction n; simpl; congruence.
  - now rewrite IH.
Qed.

Lemma all_true_repeat_false n : 0 < n -> all_true (repeat false n) = false.
Proof. destruct n; [lia|reflexivity]. Qed.

Lemma verdict_is_all_okish acts :
  acts_complete acts = true -> acts_verdict acts = all_true (map okish acts).
Proof.
  unfold acts_complete, acts_verdict, all_true. induction acts as [|a l IH]; simpl; auto.
  intro H. apply andb_true_iff in H as [Ha Hl]. rewrite (IH Hl).
  destruct a; try discriminate Ha. destruct v; reflexivity.
Qed.

(* ---- a_* functions and okish ---- *)
Ltac dif := match goal with |- context[if ?c then _ else _] => destruct c end.

Lemma after_attempt_okish r k o : okish (after_attempt r k o) = outcome_ok o.
Proof. destruct o; unfold after_attempt; auto; dif; reflexivity. Qed.

Lemma a_attempt_okish r a n ok a' owed :
  a_attempt r a n ok = Some (a', owed) -> okish a' = okish a.
Proof.
  destruct a; try (simpl; discriminate); unfold a_attempt.
  - destruct (Nat.eqb n (S k) && negb ok); [|discriminate]. intro H. injection H as <- _.
    dif; reflexivity.
  - destruct (Nat.eqb n (S k) && Bool.eqb ok (outcome_ok o)); [|discriminate]. intro H. injection H as <- _.
    rewrite after_attempt_okish. destruct o; reflexivity.
Qed.

Lemma a_attempt_owed r a n ok a' :
  a_attempt r a n ok = Some (a', true) -> okish a = false /\ quiet a' = true.
Proof.
  destruct a; try (simpl; discriminate); unfold a_attempt.
  - destruct (Nat.eqb n (S k) && negb ok); [|discriminate]. intro H. injection H as <-.
    split; [reflexivity|]. dif; reflexivity.
  - destruct (Nat.eqb n (S k) && Bool.eqb ok (outcome_ok o)); discriminate.
Qed.

Lemma a_final_okish a st n ok a' : a_final a st n ok = Some a' -> okish a' = okish a.
Proof.
  destruct a; simpl; try discriminate.
  destruct (Nat.eqb n0 n && status_eqb st (if v then Completed else Failed) && Bool.eqb ok v); [|discriminate].
  intro H. injection H as <-. reflexivity.
Qed.

Lemma a_mark_okish a a' : a_mark a = Some a' -> okish a' = okish a.
Proof. destruct a; simpl; try discriminate. intro H. injection H as <-. reflexivity. Qed.

Lemma a_start_okish a d a' : a_start a d = Some a' -> okish a' = okish a.
Proof.
  destruct a; simpl; try discriminate.
  destruct (status_eqb (c_st d) Running && Nat.eqb (c_n d) k); [|discriminate]. intro H. injection H as <-. reflexivity.
Qed.

Lemma a_end_okish a o a' : a_end a o = Some a' -> okish a = false /\ okish a' = outcome_ok o.
Proof. destruct a; simpl; try discriminate. intro H. injection H as <-. destruct o; auto. Qed.

(* quiet states take no Start, End, attempt or mark; a final keeps them quiet *)
Lemma quiet_no_start a d : quiet a = true -> a_start a d <> None -> exists k, a = ARun k.
Proof. destruct a; simpl; try discriminate; eauto; intros _ H; now elim H. Qed.
Lemma quiet_no_end a o : quiet a = true -> a_end a o = None.
Proof. destruct a; simpl; auto; discriminate. Qed.
Lemma quiet_no_attempt r a n ok : quiet a = true -> a_attempt r a n ok = None.
Proof. destruct a; simpl; auto; discriminate. Qed.
Lemma quiet_no_mark a : quiet a = true -> a_mark a = None.
Proof. destruct a; simpl; auto; discriminate. Qed.
Lemma quiet_final a st n ok a' : quiet a = true -> a_final a st n ok = Some a' -> quiet a' = true.
Proof.
  destruct a; simpl; try discriminate. destruct v; [discriminate|]. intros _.
  destruct (Nat.eqb n0 n && status_eqb st Failed && Bool.eqb ok false); [|discriminate].
  intro H. injection H as <-. reflexivity.
Qed.

(* ---- g_close ---- *)
Lemma g_close_spec g st g' :
  g_close g st = Some g' ->
  exists runs acts, g = GRun runs acts /\ acts_complete acts = true
                    /\ st = verdict_status (acts_verdict acts) /\ g' = GIdle (S runs) (Some (acts_verdict acts)).
Proof.
  destruct g as [r l|runs acts]; simpl; [discriminate|].
  destruct (acts_complete acts) eqn:C; simpl; [|discriminate].
  destruct (status_eqb st (verdict_status (acts_verdict acts))) eqn:E; [|discriminate].
  intro H. injection H as <-. apply status_eqb_eq in E. exists runs, acts. auto.
Qed.

(* with the image invariant a silent closure happens only for a re-run (runs >= 1) that succeeded *)
Lemma g_close_silent g dst g' :
  gimg g dst -> g_close g dst = Some g' ->
  exists r acts, g = GRun (S r) acts /\ acts_complete acts = true /\ acts_verdict acts = true
                 /\ g' = GIdle (S (S r)) (Some true) /\ dst = Completed.
Proof.
  intros I H. destruct (g_close_spec _ _ _ H) as (runs & acts & -> & C & E & ->).
  destruct runs as [|r]; simpl in I.
  - subst dst. destruct (acts_verdict acts); discriminate E.
  - subst dst. destruct (acts_verdict acts) eqn:V; [|discriminate E]. exists r, acts. auto.
Qed.

(* ---- what a mark does ---- *)
Lemma g_mark_spec rs may dst g i g' :
  gimg g dst -> g_mark rs may dst g i = Some g' ->
  (exists r acts a a', g = GRun r acts /\ nth_error acts i = Some a /\ a_mark a = Some a' /\ g' = GRun r (upd acts i a'))
  \/ (may = true /\ i < length rs /\
      exists r, g' = GRun r (upd (repeat AIdle (length rs)) i (ARun 0)) /\
                ((exists l, g = GIdle r l) \/
                 (exists r0 acts, r = S (S r0) /\ g = GRun (S r0) acts /\ dst = Completed))).
Proof.
  intros I H. unfold g_mark in H.
  destruct (g_act g i) as [a|] eqn:Ea.
  - destruct g as [r l|r acts]; simpl in Ea; [discriminate|].
    destruct (a_mark a) as [a'|] eqn:Em.
    + injection H as <-. left. exists r, acts, a, a'. auto.
    + destruct (g_settle (GRun r acts) dst) as [g1|] eqn:Es; [|discriminate].
      simpl in Es. destruct (g_close_silent _ _ _ I Es) as (r0 & acts0 & E & _ & _ & -> & D).
      injection E as E1 E2. subst r acts0.
      destruct may; simpl in H; [|discriminate]. destruct (i <? length rs) eqn:Li; [|discriminate].
      injection H as <-. right. apply Nat.ltb_lt in Li. repeat split; auto.
      exists (S (S r0)). split; [reflexivity|]. right. exists r0, acts. auto.
  - destruct g as [r l|r acts]; [|discriminate].
    destruct may; simpl in H; [|discriminate]. destruct (i <? length rs) eqn:Li; [|discriminate].
    injection H as <-. right. apply Nat.ltb_lt in Li. repeat split; auto.
    exists r. split; [reflexivity|]. left. exists l. reflexivity.
Qed.

(* an operation on action i of an open run: the run stays open, only action i changes *)
Definition act_step (g g' : gst) (i : nat) (P : ast -> ast -> Prop) : Prop :=
  exists r acts a a', g = GRun r acts /\ nth_error acts i = Some a /\ g' = GRun r (upd acts i a') /\ P a a'.

Lemma g_start_spec g i d g' :
  g_start g i d = Some g' -> act_step g g' i (fun a a' => a_start a d = Some a').
Proof.
  destruct g as [r l|r acts]; simpl; [discriminate|].
  destruct (nth_error acts i) as [a|] eqn:E; [|discriminate].
  destruct (a_start a d) as [a'|] eqn:S; [|discriminate].
  destruct (acts_marked acts); [|discriminate]. intro H. injection H as <-.
  exists r, acts, a, a'. auto.
Qed.

Lemma g_end_spec g i o g' :
  g_end g i o = Some g' -> act_step g g' i (fun a a' => a_end a o = Some a').
Proof.
  unfold g_end. destruct g as [r l|r acts]; simpl; [discriminate|].
  destruct (nth_error acts i) as [a|] eqn:E; [|discriminate].
  destruct (a_end a o) as [a'|] eqn:S; [|discriminate]. intro H. injection H as <-.
  exists r, acts, a, a'. auto.
Qed.

Lemma g_attempt_spec rs g i n ok g' owed :
  g_attempt rs g i n ok = Some (g', owed) ->
  act_step g g' i (fun a a' => exists r, nth_error rs i = Some r /\ a_attempt r a n ok = Some (a', owed)).
Proof.
  unfold g_attempt. destruct g as [r l|r acts]; simpl; [discriminate|].
  destruct (nth_error acts i) as [a|] eqn:E; [|discriminate].
  destruct (nth_error rs i) as [r0|] eqn:R; [|discriminate].
  destruct (a_attempt r0 a n ok) as [[a' ow]|] eqn:S; [|discriminate]. intro H. injection H as <- <-.
  exists r, acts, a, a'. repeat split; auto. exists r0. auto.
Qed.

Lemma g_final_spec g i st n ok g' :
  g_final g i st n ok = Some g' -> act_step g g' i (fun a a' => a_final a st n ok = Some a').
Proof.
  unfold g_final. destruct g as [r l|r acts]; simpl; [discriminate|].
  destruct (nth_error acts i) as [a|] eqn:E; [|discriminate].
  destruct (a_final a st n ok) as [a'|] eqn:S; [|discriminate]. intro H. injection H as <-.
  exists r, acts, a, a'. auto.
Qed.

(* ---- gimg is kept by every operation ---- *)
Lemma act_step_gimg g g' i (P : ast -> ast -> Prop) dst : act_step g g' i P -> gimg g dst -> gimg g' dst.
Proof. intros (r & acts & a & a' & -> & _ & -> & _). destruct r; auto. Qed.

Lemma g_apply_gimg ors may dst d g op g' owed :
  gimg g dst -> (may = true -> g_runs g = 0 \/ g_dead g = false) ->
  g_apply ors may dst d g op = Some (g', owed) -> gimg g' (dst_after dst op).
Proof.
  intros I M H. destruct op as [i|i|i o|i n ok|i st n ok|st]; simpl in *.
  - destruct ors as [rs|]; [|discriminate].
    destruct (g_mark rs may dst g i) as [x|] eqn:E; [|discriminate]. injection H as <- _.
    destruct (g_mark_spec _ _ _ _ _ _ I E) as [(r & acts & a & a' & -> & _ & _ & ->)|(Mt & _ & r & -> & [[l ->]|(r0 & acts & -> & -> & D)])].
    + destruct r; auto.
    + destruct r as [|r]; simpl in *.
      * destruct l; [contradiction|auto].
      * destruct l as [v|]; [|contradiction]. destruct (M Mt) as [Z|Z]; [discriminate|].
        destruct v; [exact I|discriminate].
    + simpl. exact D.
  - destruct (g_start g i d) as [x|] eqn:E; [|discriminate]. injection H as <- _.
    eapply act_step_gimg; eauto using g_start_spec.
  - destruct (g_end g i o) as [x|] eqn:E; [|discriminate]. injection H as <- _.
    eapply act_step_gimg; eauto using g_end_spec.
  - destruct ors as [rs|]; [|discriminate].
    eapply act_step_gimg; eauto using g_attempt_spec.
  - destruct (g_final g i st n ok) as [x|] eqn:E; [|discriminate]. injection H as <- _.
    eapply act_step_gimg; eauto using g_final_spec.
  - destruct (g_verdict g st) as [x|] eqn:E; [|discriminate]. injection H as <- _.
    unfold g_verdict in E. destruct (g_close_spec _ _ _ E) as (runs & acts & -> & _ & -> & ->). reflexivity.
Qed.

(* ---- shapes ---- *)
Lemma g_apply_not_fresh ors may dst d g op g' owed :
  g_apply ors may dst d g op = Some (g', owed) -> g' <> GIdle 0 None.
Proof.
  intro H. destruct op as [i|i|i o|i n ok|i st n ok|st]; simpl in H.
  - destruct ors as [rs|]; [|discriminate].
    destruct (g_mark rs may dst g i) as [x|] eqn:E; [|discriminate]. injection H as <- _.
    unfold g_mark in E. destruct (g_act g i) as [a|] eqn:Ea.
    + destruct (a_mark a).
      * injection E as <-. destruct g; [discriminate Ea|discriminate].
      * destruct (g_settle g dst) as [[r l|]|]; try discriminate.
        destruct (may && (i <? length rs)); [|discriminate]. injection E as <-. discriminate.
    + destruct g; [|discriminate]. destruct (may && (i <? length rs)); [|discriminate]. injection E as <-. discriminate.
  - destruct (g_start g i d) as [x|] eqn:E; [|discriminate]. injection H as <- _.
    destruct (g_start_spec _ _ _ _ E) as (r & acts & a & a' & _ & _ & -> & _). discriminate.
  - destruct (g_end g i o) as [x|] eqn:E; [|discriminate]. injection H as <- _.
    destruct (g_end_spec _ _ _ _ E) as (r & acts & a & a' & _ & _ & -> & _). discriminate.
  - destruct ors as [rs|]; [|discriminate].
    destruct (g_attempt_spec _ _ _ _ _ _ _ H) as (r & acts & a & a' & _ & _ & -> & _). discriminate.
  - destruct (g_final g i st n ok) as [x|] eqn:E; [|discriminate]. injection H as <- _.
    destruct (g_final_spec _ _ _ _ _ _ E) as (r & acts & a & a' & _ & _ & -> & _). discriminate.
  - destruct (g_verdict g st) as [x|] eqn:E; [|discriminate]. injection H as <- _.
    destruct (g_close_spec _ _ _ E) as (runs & acts & _ & _ & _ & ->). discriminate.
Qed.

(* a group with no run open takes no operation unless a run may start *)
Lemma g_apply_idle ors dst d r l op :
  g_apply ors false dst d (GIdle r l) op = None.
Proof.
  destruct op as [i|i|i o|i n ok|i st n ok|st]; simpl; auto.
  - destruct ors; reflexivity.
  - destruct ors; reflexivity.
Qed.

(* only a mark opens a run *)
Lemma g_apply_idle_mark ors may dst d r l op g' owed :
  g_apply ors may dst d (GIdle r l) op = Some (g', owed) ->
  may = true /\ exists i rs, op = OpMark i /\ ors = Some rs /\ i < length rs
                             /\ g' = GRun r (upd (repeat AIdle (length rs)) i (ARun 0)) /\ owed = false.
Proof.
  destruct op as [i|i|i o|i n ok|i st n ok|st]; simpl; try discriminate.
  - destruct ors as [rs|]; [|discriminate]. unfold g_mark; simpl. destruct may; simpl; [|discriminate].
    destruct (i <? length rs) eqn:L; simpl; [|discriminate]. intro H. injection H as <- <-.
    apply Nat.ltb_lt in L. split; auto. exists i, rs. auto.
  - destruct ors; discriminate.
Qed.

Lemma g_apply_gonce ors may dst d g op g' owed :
  gimg g dst -> (may = true -> g_runs g = 0) -> gonce g ->
  g_apply ors may dst d g op = Some (g', owed) -> gonce g'.
Proof.
  intros I M O H. destruct op as [i|i|i o|i n ok|i st n ok|st]; simpl in H.
  - destruct ors as [rs|]; [|discriminate].
    destruct (g_mark rs may dst g i) as [x|] eqn:E; [|discriminate]. injection H as <- _.
    destruct (g_mark_spec _ _ _ _ _ _ I E) as [(r & acts & a & a' & -> & _ & _ & ->)|(Mt & _ & r & -> & [[l ->]|(r0 & acts & -> & -> & D)])].
    + exact O.
    + simpl in M. rewrite (M Mt). exact Logic.I.
    + destruct O.
  - destruct (g_start g i d) as [x|] eqn:E; [|discriminate]. injection H as <- _.
    destruct (g_start_spec _ _ _ _ E) as (r & acts & a & a' & -> & _ & -> & _). exact O.
  - destruct (g_end g i o) as [x|] eqn:E; [|discriminate]. injection H as <- _.
    destruct (g_end_spec _ _ _ _ E) as (r & acts & a & a' & -> & _ & -> & _). exact O.
  - destruct ors as [rs|]; [|discriminate].
    destruct (g_attempt_spec _ _ _ _ _ _ _ H) as (r & acts & a & a' & -> & _ & -> & _). exact O.
  - destruct (g_final g i st n ok) as [x|] eqn:E; [|discriminate]. injection H as <- _.
    destruct (g_final_spec _ _ _ _ _ _ E) as (r & acts & a & a' & -> & _ & -> & _). exact O.
  - destruct (g_verdict g st) as [x|] eqn:E; [|discriminate]. injection H as <- _.
    destruct (g_close_spec _ _ _ E) as (runs & acts & -> & _ & _ & ->). destruct runs; [exact Logic.I|destruct O].
Qed.

(* ---- the flags ---- *)
Lemma gfl_length n g fl : gfl n g fl -> length fl = n.
Proof. now intros [H _]. Qed.

Lemma act_step_gfl n g g' i (P : ast -> ast -> Prop) fl :
  (forall a a', P a a' -> okish a' = okish a) ->
  act_step g g' i P -> gfl n g fl -> gfl n g' fl.
Proof.
  intros HP (r & acts & a & a' & -> & Ea & -> & Pa) [L F]. split; [exact L|].
  destruct r as [|r].
  - destruct F as (La & -> & Z). rewrite upd_length. repeat split; auto.
    symmetry. eapply map_upd_same; eauto.
  - destruct F as (La & T & Z). rewrite upd_length. auto.
Qed.

Lemma g_apply_gfl ors may dst d g op g' owed n fl :
  gimg g dst -> (forall rs, ors = Some rs -> length rs = n) ->
  (may = true -> g_runs g = 0 \/ g_dead g = false) ->
  gfl n g fl -> g_apply ors may dst d g op = Some (g', owed) -> gfl n g' (fl_after fl op).
Proof.
  intros I Hn M F H. destruct op as [i|i|i o|i k ok|i st k ok|st]; simpl in H; cbn [fl_after].
  - destruct ors as [rs|]; [|discriminate]. specialize (Hn rs eq_refl).
    destruct (g_mark rs may dst g i) as [x|] eqn:E; [|discriminate]. injection H as <- _.
    destruct (g_mark_spec _ _ _ _ _ _ I E) as [(r & acts & a & a' & -> & Ea & Em & ->)|(Mt & Li & r & -> & [[l ->]|(r0 & acts & -> & -> & D)])].
    + eapply (act_step_gfl _ _ _ i (fun x y => a_mark x = Some y)); [| |exact F].
      * intros u w Q. exact (a_mark_okish _ _ Q).
      * exists r, acts, a, a'. auto.
    + destruct F as [L F]. split; [exact L|]. rewrite Hn in *.
      destruct r as [|[|r]].
      * destruct l; [contradiction|]. rewrite upd_length, repeat_length. repeat split; auto; [|lia].
        rewrite map_okish_fresh. exact F.
      * destruct l as [v|]; [|contradiction]. destruct F as [-> Z].
        destruct (M Mt) as [Q|Q]; [discriminate|]. simpl in Q.
        rewrite upd_length, repeat_length. repeat split; auto.
        destruct (all_true fl); [reflexivity|discriminate].
      * destruct l as [v|]; [|contradiction]. destruct F as [T Z].
        rewrite upd_length, repeat_length. auto.
    + destruct F as [L (La & T & Z)]. split; [exact L|]. rewrite Hn in *.
      rewrite upd_length, repeat_length. auto.
  - destruct (g_start g i d) as [x|] eqn:E; [|discriminate]. injection H as <- _.
    eapply act_step_gfl; [|exact (g_start_spec _ _ _ _ E)|exact F].
    intros u w Q. exact (a_start_okish _ _ _ Q).
  - destruct (g_end g i o) as [x|] eqn:E; [|discriminate]. injection H as <- _.
    destruct (g_end_spec _ _ _ _ E) as (r & acts & a & a' & -> & Ea & -> & Pa).
    destruct (a_end_okish _ _ _ Pa) as [O1 O2]. destruct F as [L F].
    assert (Li : i < length acts) by (eapply nth_error_some_lt; eauto).
    destruct r as [|r].
    + destruct F as (La & -> & Z). split.
      * destruct (outcome_ok o); [rewrite upd_length|]; exact L.
      * rewrite upd_length. repeat split; auto. rewrite map_upd, O2.
        destruct (outcome_ok o); [reflexivity|].
        symmetry. apply upd_same. rewrite nth_error_map, Ea. simpl. now rewrite O1.
    + destruct F as (La & T & Z). split.
      * destruct (outcome_ok o); [rewrite upd_length|]; exact L.
      * rewrite upd_length. repeat split; auto. destruct (outcome_ok o); [now apply all_true_upd|exact T].
  - destruct ors as [rs|]; [|discriminate].
    eapply act_step_gfl; [|exact (g_attempt_spec _ _ _ _ _ _ _ H)|exact F].
    intros u w (r & _ & Q). exact (a_attempt_okish _ _ _ _ _ _ Q).
  - destruct (g_final g i st k ok) as [x|] eqn:E; [|discriminate]. injection H as <- _.
    eapply act_step_gfl; [|exact (g_final_spec _ _ _ _ _ _ E)|exact F].
    intros u w Q. exact (a_final_okish _ _ _ _ _ Q).
  - destruct (g_verdict g st) as [x|] eqn:E; [|discriminate]. injection H as <- _.
    destruct (g_close_spec _ _ _ E) as (runs & acts & -> & C & _ & ->).
    destruct F as [L F]. split; [exact L|]. destruct runs as [|r].
    + destruct F as (La & -> & Z). split; [|exact Z]. now apply verdict_is_all_okish.
    + destruct F as (La & T & Z). auto.
Qed.

(* ---- an action whose End is owed stays quiet while the initial run is open ---- *)
Definition quiet_at (g : gst) (j : nat) : Prop :=
  forall acts, g = GRun 0 acts -> exists a, nth_error acts j = Some a /\ quiet a = true.

Lemma g_apply_quiet ors may dst d g op g' owed j :
  gimg g dst -> gonce g -> quiet_at g j -> (forall i, op = OpStart i -> i <> j) ->
  g <> GIdle 0 None ->
  g_apply ors may dst d g op = Some (g', owed) ->
  quiet_at g' j /\ (forall o, op <> OpEnd j o).
Proof.
  intros I O Q NS NF H.
  destruct g as [r l|r acts].
  { destruct r as [|[|r]]; destruct l as [v|]; simpl in O, I; try contradiction.
    destruct (g_apply_idle_mark _ _ _ _ _ _ _ _ _ H) as (_ & i & rs & -> & _ & _ & -> & _).
    split; [|discriminate]. intros acts E. discriminate E. }
  destruct r as [|r]; [|destruct O].
  destruct (Q acts eq_refl) as (a & Ea & Qa).
  assert (Keep : forall i acts' P, act_step (GRun 0 acts) (GRun 0 acts') i P ->
                   (i = j -> forall x y, P x y -> quiet x = true -> quiet y = true) -> quiet_at (GRun 0 acts') j).
  { intros i acts' P (r0 & l0 & x & y & E0 & Ex & E1 & Pxy) Hq acts2 E2.
    injection E0 as <- <-. injection E1 as ->. injection E2 as <-.
    destruct (Nat.eq_dec i j) as [->|Ne].
    - rewrite Ea in Ex. injection Ex as <-. exists y. split.
      + apply nth_upd_same. eapply nth_error_some_lt; eauto.
      + eapply Hq; eauto.
    - exists a. split; [|exact Qa]. now rewrite nth_upd_other. }
  destruct op as [i|i|i o|i k ok|i st k ok|st]; cbn [g_apply] in H.
  - destruct ors as [rs|]; [|discriminate].
    destruct (g_mark rs may dst (GRun 0 acts) i) as [gx|] eqn:E; [|discriminate]. injection H as <- _.
    destruct (g_mark_spec _ _ _ _ _ _ I E) as [(r & l0 & x & y & E0 & Ex & Em & ->)|(Mt & Li & r & -> & [[l E0]|(r0 & l0 & _ & E0 & _)])];
      try discriminate E0.
    injection E0 as <- <-. split; [|discriminate].
    eapply (Keep i _ (fun x y => a_mark x = Some y)).
    + exists 0, acts, x, y. auto.
    + intros -> x' y' Pm Qx. rewrite (quiet_no_mark _ Qx) in Pm. discriminate.
  - destruct (g_start (GRun 0 acts) i d) as [gx|] eqn:E; [|discriminate]. injection H as <- _.
    destruct (g_start_spec _ _ _ _ E) as (r0 & l0 & x' & y' & E0 & Ex & -> & Pxy). injection E0 as <- <-.
    split; [|discriminate]. eapply (Keep i _ (fun x y => a_start x d = Some y)).
    + exists 0, acts, x', y'. auto.
    + intros ->. now elim (NS j eq_refl).
  - destruct (g_end (GRun 0 acts) i o) as [gx|] eqn:E; [|discriminate]. injection H as <- _.
    destruct (g_end_spec _ _ _ _ E) as (r0 & l0 & x' & y' & E0 & Ex & -> & Pxy). injection E0 as <- <-.
    assert (Ne : i <> j).
    { intros ->. rewrite Ea in Ex. injection Ex as <-. rewrite (quiet_no_end _ o Qa) in Pxy. discriminate. }
    split.
    + eapply (Keep i _ (fun x y => a_end x o = Some y)); [exists 0, acts, x', y'; auto|]. intros ->. now elim Ne.
    + intros o' Eo. injection Eo as -> _. now elim Ne.
  - destruct ors as [rs|]; [|discriminate].
    destruct (g_attempt_spec _ _ _ _ _ _ _ H) as (r0 & l0 & x' & y' & E0 & Ex & -> & (rr & Er & Pxy)). injection E0 as <- <-.
    split; [|discriminate].
    eapply (Keep i _ (fun x y => a_attempt rr x k ok = Some (y, owed))); [exists 0, acts, x', y'; auto|].
    intros -> x2 y2 Pa Qx. rewrite (quiet_no_attempt _ _ _ _ Qx) in Pa. discriminate.
  - destruct (g_final (GRun 0 acts) i st k ok) as [gx|] eqn:E; [|discriminate]. injection H as <- _.
    destruct (g_final_spec _ _ _ _ _ _ E) as (r0 & l0 & x' & y' & E0 & Ex & -> & Pxy). injection E0 as <- <-.
    split; [|discriminate].
    eapply (Keep i _ (fun x y => a_final x st k ok = Some y)); [exists 0, acts, x', y'; auto|].
    intros -> x2 y2 Pa Qx. eapply quiet_final; eauto.
  - destruct (g_verdict (GRun 0 acts) st) as [gx|] eqn:E; [|discriminate]. injection H as <- _.
    destruct (g_close_spec _ _ _ E) as (runs & l0 & _ & _ & _ & ->).
    split; [|discriminate]. intros acts2 E2. discriminate E2.
Qed.

(* an attempt recorded while the plugin is still inside: the action becomes quiet, its flag is false *)
Lemma g_apply_owed ors may dst d g op g' n fl :
  gonce g -> gfl n g fl -> g_apply ors may dst d g op = Some (g', true) ->
  exists i k ok, op = OpAttempt i k ok /\ nth_error fl i = Some false /\ quiet_at g' i.
Proof.
  intros O F H. destruct op as [i|i|i o|i k ok|i st k ok|st]; simpl in H.
  - destruct ors; [|discriminate]. destruct (g_mark l may dst g i); discriminate.
  - destruct (g_start g i d); discriminate.
  - destruct (g_end g i o); discriminate.
  - destruct ors as [rs|]; [|discriminate].
    destruct (g_attempt_spec _ _ _ _ _ _ _ H) as (r & acts & a & a' & -> & Ea & -> & (rr & Er & Pa)).
    destruct (a_attempt_owed _ _ _ _ _ Pa) as [O1 Q1].
    exists i, k, ok. split; [reflexivity|]. destruct r as [|r]; [|destruct O].
    destruct F as [L (La & -> & Z)]. split.
    + rewrite nth_error_map, Ea. simpl. now rewrite O1.
    + intros acts2 E2. injection E2 as <-. exists a'. split; [|exact Q1].
      apply nth_upd_same. eapply nth_error_some_lt; eauto.
  - destruct (g_final g i st k ok); discriminate.
  - destruct (g_verdict g st); discriminate.
Qed.
