(* Facts about the monitor itself (no automaton here): they spell out how the fold MonC06.mon_gate_scope
   reads as the sentences of the property text.

     gate_never        if, at the end of a trace the monitor accepts, a pre check or a check of the initial
                       continuous run has NOT returned OOk (the gate is not open), then NO sequence action of
                       the scope was invoked anywhere in the trace - before or after the failure;
     bypass_silences   once the bypass of the scope has passed, an accepted trace contains no further plugin
                       event of the scope;
     released_verdict  at the release of an accepted trace the clauses 4-8 hold of the released plan. *)
From Coq Require Import Lia.
From Coercion.Base Require Import Plan.
From Coercion.Engine Require Import Shape Event ChecksRun Accept AutoLemmas.
From Coercion.C06 Require Import MonC06.

Lemma all_true_upd l i : all_true l = true -> all_true (upd l i true) = true.
Proof. intro H. unfold all_true. apply forallb_upd; auto. Qed.

Lemma note_start_gate sc m a : gate_open (note_start sc m a) = gate_open m.
Proof. unfold gate_open, note_start. destruct (own_check sc a) as [[g i]|]; [destruct g|]; reflexivity. Qed.

Lemma note_ok_gate_mono sc m a : gate_open m = true -> gate_open (note_ok sc m a) = true.
Proof.
  unfold gate_open, note_ok. intro H. apply andb_true_iff in H as [H1 H2].
  destruct (own_check sc a) as [[g i]|]; [destruct g|]; cbn [m_pre m_cont]; rewrite ?H1, ?H2, ?all_true_upd; auto.
Qed.

Lemma mstep_gate_mono sh sc m e m' :
  mstep sh sc m e = Some m' -> gate_open m = true -> gate_open m' = true.
Proof.
  unfold mstep, mstep_d. intros H G. destruct e as [a|a o|o stt n ok r|snap|fin].
  - destruct (negb (in_scope sc a)); [injection H as <-; exact G|].
    destruct (passed m); [discriminate|].
    destruct (is_seq a && negb (gate_open m)); [discriminate|].
    injection H as <-. now rewrite note_start_gate.
  - destruct (negb (in_scope sc a)); [injection H as <-; exact G|].
    destruct (passed m); [discriminate|].
    destruct (negb (outcome_ok o)); [injection H as <-; exact G|].
    destruct (passed (note_ok sc m a) && m_other (note_ok sc m a)); [discriminate|].
    injection H as <-. now apply note_ok_gate_mono.
  - injection H as <-. exact G.
  - injection H as <-. exact G.
  - destruct (final_code sh (fin_st fin) sc m); [|discriminate]. injection H as <-. exact G.
Qed.

Lemma mfold_gate_mono sh sc tr : forall m m',
  mfold sh sc m tr = Some m' -> gate_open m = true -> gate_open m' = true.
Proof.
  induction tr as [|e tr IH]; intros m m' H G; simpl in H.
  - injection H as <-. exact G.
  - destruct (mstep sh sc m e) as [m1|] eqn:E; [|discriminate].
    eapply IH; eauto. eapply mstep_gate_mono; eauto.
Qed.

Lemma gate_never_from sh sc tr : forall m m',
  mfold sh sc m tr = Some m' -> gate_open m' = false ->
  forall a, In (EvStart a) tr -> in_scope sc a = true -> is_seq a = false.
Proof.
  induction tr as [|e tr IH]; intros m m' H G a Hin Hsc; simpl in H.
  - destruct Hin.
  - destruct (mstep sh sc m e) as [m1|] eqn:E; [|discriminate].
    destruct Hin as [->|Hin]; [|eapply IH; eauto].
    destruct (is_seq a) eqn:Hq; [|reflexivity]. exfalso.
    unfold mstep, mstep_d in E. rewrite Hsc in E. simpl in E.
    destruct (passed m); [discriminate|]. rewrite Hq in E. simpl in E.
    destruct (gate_open m) eqn:Go; simpl in E; [|discriminate].
    injection E as <-.
    assert (G1 : gate_open (note_start sc m a) = true) by now rewrite note_start_gate.
    rewrite (mfold_gate_mono _ _ _ _ _ H G1) in G. discriminate.
Qed.

Theorem gate_never sh sc tr m :
  mfold sh sc (m_init sh sc) tr = Some m -> gate_open m = false ->
  forall a, In (EvStart a) tr -> in_scope sc a = true -> is_seq a = false.
Proof. apply gate_never_from. Qed.

Lemma bypass_silences_from sh sc tr : forall m m',
  mfold sh sc m tr = Some m' -> passed m = true ->
  passed m' = true /\
  forall a, (In (EvStart a) tr \/ exists o, In (EvEnd a o) tr) -> in_scope sc a = false.
Proof.
  induction tr as [|e tr IH]; intros m m' H P; simpl in H.
  - injection H as <-. split; [exact P|]. intros a [[]|[o []]].
  - destruct (mstep sh sc m e) as [m1|] eqn:E; [|discriminate].
    assert (E1 : m1 = m /\ forall a, (e = EvStart a \/ exists o, e = EvEnd a o) -> in_scope sc a = false).
    { unfold mstep, mstep_d in E. destruct e as [a|a o|o stt n ok r|snap|fin].
      - destruct (in_scope sc a) eqn:S; simpl in E; [rewrite P in E; discriminate|].
        injection E as <-. split; [reflexivity|]. intros a' [Q|[o Q]]; [injection Q as <-; exact S|discriminate].
      - destruct (in_scope sc a) eqn:S; simpl in E; [rewrite P in E; discriminate|].
        injection E as <-. split; [reflexivity|]. intros a' [Q|[o' Q]]; [discriminate|injection Q as <- _; exact S].
      - injection E as <-. split; [reflexivity|]. intros a' [Q|[o' Q]]; discriminate.
      - injection E as <-. split; [reflexivity|]. intros a' [Q|[o' Q]]; discriminate.
      - destruct (final_code sh (fin_st fin) sc m); [|discriminate]. injection E as <-.
        split; [reflexivity|]. intros a' [Q|[o' Q]]; discriminate. }
    destruct E1 as [-> E1]. destruct (IH _ _ H P) as [P' IH'].
    split; [exact P'|]. intros a [[Q|Q]|[o [Q|Q]]].
    + apply E1. left. exact Q.
    + apply IH'. left. exact Q.
    + apply E1. right. exists o. exact Q.
    + apply IH'. right. exists o. exact Q.
Qed.

Theorem bypass_silences sh sc tr1 tr2 m1 m2 :
  mfold sh sc (m_init sh sc) tr1 = Some m1 -> passed m1 = true ->
  mfold sh sc m1 tr2 = Some m2 ->
  forall a, (In (EvStart a) tr2 \/ exists o, In (EvEnd a o) tr2) -> in_scope sc a = false.
Proof. intros _ P H. exact (proj2 (bypass_silences_from _ _ _ _ _ H P)). Qed.

Theorem released_verdict sh sc m fin m' :
  mstep sh sc m (EvRelease fin) = Some m' ->
  let st := fin_st fin (scope_obj sc) in
  (passed m = true -> st = Completed) /\
  (passed m = false -> gate_failed m = true -> st = Failed) /\
  (passed m = false -> st = Failed -> cause sh (fin_st fin) sc = true) /\
  (passed m = false -> st = Completed -> work sh (fin_st fin) sc = true) /\
  (ran_any m = true -> st = Completed \/ st = Failed).
Proof.
  unfold mstep, mstep_d. intro H.
  destruct (final_code sh (fin_st fin) sc m) eqn:F; [|discriminate]. clear H.
  unfold final_code in F. cbv zeta.
  set (st := fin_st fin (scope_obj sc)) in *.
  destruct (passed m) eqn:P.
  - destruct (status_eqb st Completed) eqn:C; [|discriminate].
    apply status_eqb_eq in C. repeat split; try discriminate; auto.
  - destruct (gate_failed m && negb (status_eqb st Failed)) eqn:G; [discriminate|].
    destruct (status_eqb st Failed && negb (cause sh (fin_st fin) sc)) eqn:Cz; [discriminate|].
    destruct (status_eqb st Completed && negb (work sh (fin_st fin) sc)) eqn:W; [discriminate|].
    destruct (ran_any m && negb (is_done st)) eqn:A; [discriminate|].
    repeat split; try discriminate.
    + intros _ Gf. rewrite Gf in G. simpl in G. apply negb_false_iff in G. now apply status_eqb_eq.
    + intros _ Sf. rewrite Sf in Cz. simpl in Cz. now apply negb_false_iff in Cz.
    + intros _ Sc. rewrite Sc in W. simpl in W. now apply negb_false_iff in W.
    + intro R. rewrite R in A. simpl in A. apply negb_false_iff in A. unfold is_done in A.
      apply orb_true_iff in A as [A|A]; apply status_eqb_eq in A; auto.
Qed.
