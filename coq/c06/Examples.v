(* Examples - non-vacuity of the C06 theorems and teeth of the monitor, all by vm_compute.
   ex1  REAL trace of /repo (harness case gate-4, seed 1): two blocks; block 0 has pre, continuous and deferred
        groups; its pre check fails while the continuous group is present - the shape on which the pre-fix
        engine hung (E2).  The trace is accepted, it is RELEASED, and the monitor holds: no sequence action of
        block 0, block 0 Failed, block 1 never touched.
   ex4  REAL trace (gate-0): block 0's bypass check FAILS (err, then perm): the block is entered; the initial run of
        its continuous group fails: no sequence action, block Failed with the continuous group as the cause.
   ex2  REAL trace (gate-32): block 0's bypass passes: nothing else of block 0 runs, block 0 Completed, block 1 runs.
   ex3  REAL trace (gate-15): the plan's bypass passes: nothing at all runs, the plan is Completed.
   bad1 REAL trace of the PRE-FIX engine (/tmp/wt_orig, gate-1, E1): continuous group without pre group - the
        sequence action starts although the initial continuous run has not happened: clause 2.
   bad2 ex2 with one forged event: a continuous check of block 0 invoked after its bypass passed: clause 1. *)
From Coercion.Base Require Import Plan.
From Coercion.Engine Require Import Shape Event Accept.
From Coercion.C06 Require Import MonC06.

Definition ex1 : case :=
  ((Build_shape (Build_groups None None None None None) [(Build_bshape (Build_groups None (Some [0]) (Some [0; 0]) None (Some [1; 0])) [[0]] 1 (1)%Z); (Build_bshape (Build_groups None None None None None) [[1]] 1 (-1)%Z)]), [(EvWrite OPlan Running 0 false FRUnknown);
   (EvWrite OPlan Running 0 false FRUnknown);
   (EvWrite OPlan Running 0 false FRUnknown);
   (EvWrite (OBlock 0) Running 0 false FRUnknown);
   (EvWrite (OBlock 0) Running 0 false FRUnknown);
   (EvWrite (OChecks (SBlock 0) GCont) NotStarted 0 false FRUnknown);
   (EvWrite (OAct (AChk (SBlock 0) GCont 0)) Running 0 false FRUnknown);
   (EvWrite (OAct (AChk (SBlock 0) GCont 1)) Running 0 false FRUnknown);
   (EvStart (AChk (SBlock 0) GCont 1));
   (EvEnd (AChk (SBlock 0) GCont 1) OOk);
   (EvWrite (OAct (AChk (SBlock 0) GCont 1)) Running 1 true FRUnknown);
   (EvWrite (OAct (AChk (SBlock 0) GCont 1)) Completed 1 true FRUnknown);
   (EvWrite (OAct (AChk (SBlock 0) GCont 1)) Completed 1 true FRUnknown);
   (EvWrite (OChecks (SBlock 0) GPre) NotStarted 0 false FRUnknown);
   (EvWrite (OAct (AChk (SBlock 0) GPre 0)) Running 0 false FRUnknown);
   (EvStart (AChk (SBlock 0) GPre 0));
   (EvEnd (AChk (SBlock 0) GPre 0) OPerm);
   (EvWrite (OAct (AChk (SBlock 0) GPre 0)) Running 1 false FRUnknown);
   (EvWrite (OAct (AChk (SBlock 0) GPre 0)) Failed 1 false FRUnknown);
   (EvWrite (OAct (AChk (SBlock 0) GPre 0)) Failed 1 false FRUnknown);
   (EvWrite (OChecks (SBlock 0) GPre) Failed 0 false FRUnknown);
   (EvStart (AChk (SBlock 0) GCont 0));
   (EvEnd (AChk (SBlock 0) GCont 0) OOk);
   (EvWrite (OAct (AChk (SBlock 0) GCont 0)) Running 1 true FRUnknown);
   (EvWrite (OAct (AChk (SBlock 0) GCont 0)) Completed 1 true FRUnknown);
   (EvWrite (OAct (AChk (SBlock 0) GCont 0)) Completed 1 true FRUnknown);
   (EvWrite (OChecks (SBlock 0) GCont) Completed 0 false FRUnknown);
   (EvWrite (OBlock 0) Failed 0 false FRUnknown);
   (EvWrite (OChecks (SBlock 0) GDeferred) NotStarted 0 false FRUnknown);
   (EvWrite (OAct (AChk (SBlock 0) GDeferred 0)) Running 0 false FRUnknown);
   (EvWrite (OAct (AChk (SBlock 0) GDeferred 1)) Running 0 false FRUnknown);
   (EvStart (AChk (SBlock 0) GDeferred 1));
   (EvEnd (AChk (SBlock 0) GDeferred 1) OOk);
   (EvWrite (OAct (AChk (SBlock 0) GDeferred 1)) Running 1 true FRUnknown);
   (EvWrite (OAct (AChk (SBlock 0) GDeferred 1)) Completed 1 true FRUnknown);
   (EvWrite (OAct (AChk (SBlock 0) GDeferred 1)) Completed 1 true FRUnknown);
   (EvStart (AChk (SBlock 0) GDeferred 0));
   (EvEnd (AChk (SBlock 0) GDeferred 0) OOk);
   (EvWrite (OAct (AChk (SBlock 0) GDeferred 0)) Running 1 true FRUnknown);
   (EvWrite (OAct (AChk (SBlock 0) GDeferred 0)) Completed 1 true FRUnknown);
   (EvWrite (OAct (AChk (SBlock 0) GDeferred 0)) Completed 1 true FRUnknown);
   (EvWrite (OChecks (SBlock 0) GDeferred) Completed 0 false FRUnknown);
   (EvWrite (OBlock 0) Failed 0 false FRUnknown);
   (EvWrite (OBlock 0) Failed 0 false FRUnknown);
   (EvWrite OPlan Running 0 false FRUnknown);
   (EvWrite OPlan Failed 0 false FRBlock);
   (EvWrite (OBlock 0) Failed 0 false FRUnknown);
   (EvWrite (OChecks (SBlock 0) GPre) Failed 0 false FRUnknown);
   (EvWrite (OAct (AChk (SBlock 0) GPre 0)) Failed 1 false FRUnknown);
   (EvWrite (OChecks (SBlock 0) GCont) Completed 0 false FRUnknown);
   (EvWrite (OAct (AChk (SBlock 0) GCont 0)) Completed 1 true FRUnknown);
   (EvWrite (OAct (AChk (SBlock 0) GCont 1)) Completed 1 true FRUnknown);
   (EvWrite (OSeq 0 0) NotStarted 0 false FRUnknown);
   (EvWrite (OAct (ASeq 0 0 0)) NotStarted 0 false FRUnknown);
   (EvWrite (OChecks (SBlock 0) GDeferred) Completed 0 false FRUnknown);
   (EvWrite (OAct (AChk (SBlock 0) GDeferred 0)) Completed 1 true FRUnknown);
   (EvWrite (OAct (AChk (SBlock 0) GDeferred 1)) Completed 1 true FRUnknown);
   (EvWrite (OBlock 1) NotStarted 0 false FRUnknown);
   (EvWrite (OSeq 1 0) NotStarted 0 false FRUnknown);
   (EvWrite (OAct (ASeq 1 0 0)) NotStarted 0 false FRUnknown);
   (EvRelease (IM [(OPlan, (OC Failed 0 false (TF false false true))); ((OBlock 0), (OC Failed 0 false (TF false false true))); ((OChecks (SBlock 0) GPre), (OC Failed 0 false (TF false false true))); ((OAct (AChk (SBlock 0) GPre 0)), (OC Failed 1 false (TF false false true))); ((OChecks (SBlock 0) GCont), (OC Completed 0 false (TF false false true))); ((OAct (AChk (SBlock 0) GCont 0)), (OC Completed 1 true (TF false false true))); ((OAct (AChk (SBlock 0) GCont 1)), (OC Completed 1 true (TF false false true))); ((OChecks (SBlock 0) GDeferred), (OC Completed 0 false (TF false false true))); ((OAct (AChk (SBlock 0) GDeferred 0)), (OC Completed 1 true (TF false false true))); ((OAct (AChk (SBlock 0) GDeferred 1)), (OC Completed 1 true (TF false false true))); ((OSeq 0 0), (OC NotStarted 0 false (TF true true true))); ((OAct (ASeq 0 0 0)), (OC NotStarted 0 false (TF true true true))); ((OBlock 1), (OC NotStarted 0 false (TF true true true))); ((OSeq 1 0), (OC NotStarted 0 false (TF true true true))); ((OAct (ASeq 1 0 0)), (OC NotStarted 0 false (TF true true true)))] FRBlock));
   (EvRead (IM [(OPlan, (OC Failed 0 false (TF false false true))); ((OBlock 0), (OC Failed 0 false (TF false false true))); ((OChecks (SBlock 0) GPre), (OC Failed 0 false (TF false false true))); ((OAct (AChk (SBlock 0) GPre 0)), (OC Failed 1 false (TF false false true))); ((OChecks (SBlock 0) GCont), (OC Completed 0 false (TF false false true))); ((OAct (AChk (SBlock 0) GCont 0)), (OC Completed 1 true (TF false false true))); ((OAct (AChk (SBlock 0) GCont 1)), (OC Completed 1 true (TF false false true))); ((OChecks (SBlock 0) GDeferred), (OC Completed 0 false (TF false false true))); ((OAct (AChk (SBlock 0) GDeferred 0)), (OC Completed 1 true (TF false false true))); ((OAct (AChk (SBlock 0) GDeferred 1)), (OC Completed 1 true (TF false false true))); ((OSeq 0 0), (OC NotStarted 0 false (TF true true true))); ((OAct (ASeq 0 0 0)), (OC NotStarted 0 false (TF true true true))); ((OBlock 1), (OC NotStarted 0 false (TF true true true))); ((OSeq 1 0), (OC NotStarted 0 false (TF true true true))); ((OAct (ASeq 1 0 0)), (OC NotStarted 0 false (TF true true true)))] FRBlock))]).

Definition ex2 : case :=
  ((Build_shape (Build_groups None None None None (Some [0; 0])) [(Build_bshape (Build_groups (Some [1]) None (Some [0]) None (Some [1])) [[0; 0]; [0]] 2 (0)%Z); (Build_bshape (Build_groups None None None None None) [[1; 1]] 3 (1)%Z)]), [(EvWrite OPlan Running 0 false FRUnknown);
   (EvWrite OPlan Running 0 false FRUnknown);
   (EvWrite OPlan Running 0 false FRUnknown);
   (EvWrite (OBlock 0) Running 0 false FRUnknown);
   (EvWrite (OChecks (SBlock 0) GBypass) NotStarted 0 false FRUnknown);
   (EvWrite (OAct (AChk (SBlock 0) GBypass 0)) Running 0 false FRUnknown);
   (EvStart (AChk (SBlock 0) GBypass 0));
   (EvEnd (AChk (SBlock 0) GBypass 0) OOk);
   (EvWrite (OAct (AChk (SBlock 0) GBypass 0)) Running 1 true FRUnknown);
   (EvWrite (OAct (AChk (SBlock 0) GBypass 0)) Completed 1 true FRUnknown);
   (EvWrite (OAct (AChk (SBlock 0) GBypass 0)) Completed 1 true FRUnknown);
   (EvWrite (OChecks (SBlock 0) GBypass) Completed 0 false FRUnknown);
   (EvWrite (OBlock 0) Running 0 false FRUnknown);
   (EvWrite (OBlock 0) Completed 0 false FRUnknown);
   (EvWrite (OBlock 1) Running 0 false FRUnknown);
   (EvWrite (OBlock 1) Running 0 false FRUnknown);
   (EvWrite (OBlock 1) Running 0 false FRUnknown);
   (EvWrite (OBlock 1) Running 0 false FRUnknown);
   (EvWrite (OSeq 1 0) Running 0 false FRUnknown);
   (EvWrite (OAct (ASeq 1 0 0)) Running 0 false FRUnknown);
   (EvStart (ASeq 1 0 0));
   (EvEnd (ASeq 1 0 0) OOk);
   (EvWrite (OAct (ASeq 1 0 0)) Running 1 true FRUnknown);
   (EvWrite (OAct (ASeq 1 0 0)) Completed 1 true FRUnknown);
   (EvWrite (OAct (ASeq 1 0 0)) Completed 1 true FRUnknown);
   (EvWrite (OAct (ASeq 1 0 1)) Running 0 false FRUnknown);
   (EvStart (ASeq 1 0 1));
   (EvEnd (ASeq 1 0 1) OOk);
   (EvWrite (OAct (ASeq 1 0 1)) Running 1 true FRUnknown);
   (EvWrite (OAct (ASeq 1 0 1)) Completed 1 true FRUnknown);
   (EvWrite (OAct (ASeq 1 0 1)) Completed 1 true FRUnknown);
   (EvWrite (OSeq 1 0) Completed 0 false FRUnknown);
   (EvWrite (OBlock 1) Running 0 false FRUnknown);
   (EvWrite (OBlock 1) Running 0 false FRUnknown);
   (EvWrite (OBlock 1) Completed 0 false FRUnknown);
   (EvWrite OPlan Running 0 false FRUnknown);
   (EvWrite (OChecks SPlan GDeferred) NotStarted 0 false FRUnknown);
   (EvWrite (OAct (AChk SPlan GDeferred 0)) Running 0 false FRUnknown);
   (EvWrite (OAct (AChk SPlan GDeferred 1)) Running 0 false FRUnknown);
   (EvStart (AChk SPlan GDeferred 1));
   (EvEnd (AChk SPlan GDeferred 1) OOk);
   (EvWrite (OAct (AChk SPlan GDeferred 1)) Running 1 true FRUnknown);
   (EvWrite (OAct (AChk SPlan GDeferred 1)) Completed 1 true FRUnknown);
   (EvWrite (OAct (AChk SPlan GDeferred 1)) Completed 1 true FRUnknown);
   (EvStart (AChk SPlan GDeferred 0));
   (EvEnd (AChk SPlan GDeferred 0) OOk);
   (EvWrite (OAct (AChk SPlan GDeferred 0)) Running 1 true FRUnknown);
   (EvWrite (OAct (AChk SPlan GDeferred 0)) Completed 1 true FRUnknown);
   (EvWrite (OAct (AChk SPlan GDeferred 0)) Completed 1 true FRUnknown);
   (EvWrite (OChecks SPlan GDeferred) Completed 0 false FRUnknown);
   (EvWrite OPlan Running 0 false FRUnknown);
   (EvWrite OPlan Completed 0 false FRUnknown);
   (EvWrite (OBlock 0) Completed 0 false FRUnknown);
   (EvWrite (OChecks (SBlock 0) GBypass) Completed 0 false FRUnknown);
   (EvWrite (OAct (AChk (SBlock 0) GBypass 0)) Completed 1 true FRUnknown);
   (EvWrite (OChecks (SBlock 0) GCont) NotStarted 0 false FRUnknown);
   (EvWrite (OAct (AChk (SBlock 0) GCont 0)) NotStarted 0 false FRUnknown);
   (EvWrite (OSeq 0 0) NotStarted 0 false FRUnknown);
   (EvWrite (OAct (ASeq 0 0 0)) NotStarted 0 false FRUnknown);
   (EvWrite (OAct (ASeq 0 0 1)) NotStarted 0 false FRUnknown);
   (EvWrite (OSeq 0 1) NotStarted 0 false FRUnknown);
   (EvWrite (OAct (ASeq 0 1 0)) NotStarted 0 false FRUnknown);
   (EvWrite (OChecks (SBlock 0) GDeferred) NotStarted 0 false FRUnknown);
   (EvWrite (OAct (AChk (SBlock 0) GDeferred 0)) NotStarted 0 false FRUnknown);
   (EvWrite (OBlock 1) Completed 0 false FRUnknown);
   (EvWrite (OSeq 1 0) Completed 0 false FRUnknown);
   (EvWrite (OAct (ASeq 1 0 0)) Completed 1 true FRUnknown);
   (EvWrite (OAct (ASeq 1 0 1)) Completed 1 true FRUnknown);
   (EvWrite (OChecks SPlan GDeferred) Completed 0 false FRUnknown);
   (EvWrite (OAct (AChk SPlan GDeferred 0)) Completed 1 true FRUnknown);
   (EvWrite (OAct (AChk SPlan GDeferred 1)) Completed 1 true FRUnknown);
   (EvRelease (IM [(OPlan, (OC Completed 0 false (TF false false true))); ((OChecks SPlan GDeferred), (OC Completed 0 false (TF false false true))); ((OAct (AChk SPlan GDeferred 0)), (OC Completed 1 true (TF false false true))); ((OAct (AChk SPlan GDeferred 1)), (OC Completed 1 true (TF false false true))); ((OBlock 0), (OC Completed 0 false (TF false false true))); ((OChecks (SBlock 0) GBypass), (OC Completed 0 false (TF false false true))); ((OAct (AChk (SBlock 0) GBypass 0)), (OC Completed 1 true (TF false false true))); ((OChecks (SBlock 0) GCont), (OC NotStarted 0 false (TF true true true))); ((OAct (AChk (SBlock 0) GCont 0)), (OC NotStarted 0 false (TF true true true))); ((OChecks (SBlock 0) GDeferred), (OC NotStarted 0 false (TF true true true))); ((OAct (AChk (SBlock 0) GDeferred 0)), (OC NotStarted 0 false (TF true true true))); ((OSeq 0 0), (OC NotStarted 0 false (TF true true true))); ((OAct (ASeq 0 0 0)), (OC NotStarted 0 false (TF true true true))); ((OAct (ASeq 0 0 1)), (OC NotStarted 0 false (TF true true true))); ((OSeq 0 1), (OC NotStarted 0 false (TF true true true))); ((OAct (ASeq 0 1 0)), (OC NotStarted 0 false (TF true true true))); ((OBlock 1), (OC Completed 0 false (TF false false true))); ((OSeq 1 0), (OC Completed 0 false (TF false false true))); ((OAct (ASeq 1 0 0)), (OC Completed 1 true (TF false false true))); ((OAct (ASeq 1 0 1)), (OC Completed 1 true (TF false false true)))] FRUnknown));
   (EvRead (IM [(OPlan, (OC Completed 0 false (TF false false true))); ((OChecks SPlan GDeferred), (OC Completed 0 false (TF false false true))); ((OAct (AChk SPlan GDeferred 0)), (OC Completed 1 true (TF false false true))); ((OAct (AChk SPlan GDeferred 1)), (OC Completed 1 true (TF false false true))); ((OBlock 0), (OC Completed 0 false (TF false false true))); ((OChecks (SBlock 0) GBypass), (OC Completed 0 false (TF false false true))); ((OAct (AChk (SBlock 0) GBypass 0)), (OC Completed 1 true (TF false false true))); ((OChecks (SBlock 0) GCont), (OC NotStarted 0 false (TF true true true))); ((OAct (AChk (SBlock 0) GCont 0)), (OC NotStarted 0 false (TF true true true))); ((OChecks (SBlock 0) GDeferred), (OC NotStarted 0 false (TF true true true))); ((OAct (AChk (SBlock 0) GDeferred 0)), (OC NotStarted 0 false (TF true true true))); ((OSeq 0 0), (OC NotStarted 0 false (TF true true true))); ((OAct (ASeq 0 0 0)), (OC NotStarted 0 false (TF true true true))); ((OAct (ASeq 0 0 1)), (OC NotStarted 0 false (TF true true true))); ((OSeq 0 1), (OC NotStarted 0 false (TF true true true))); ((OAct (ASeq 0 1 0)), (OC NotStarted 0 false (TF true true true))); ((OBlock 1), (OC Completed 0 false (TF false false true))); ((OSeq 1 0), (OC Completed 0 false (TF false false true))); ((OAct (ASeq 1 0 0)), (OC Completed 1 true (TF false false true))); ((OAct (ASeq 1 0 1)), (OC Completed 1 true (TF false false true)))] FRUnknown))]).

Definition ex3 : case :=
  ((Build_shape (Build_groups (Some [0; 0]) (Some [1]) (Some [1; 0]) None (Some [0])) [(Build_bshape (Build_groups None None None None None) [[1; 1]] 2 (-1)%Z)]), [(EvWrite OPlan Running 0 false FRUnknown);
   (EvWrite (OChecks SPlan GBypass) NotStarted 0 false FRUnknown);
   (EvWrite (OAct (AChk SPlan GBypass 0)) Running 0 false FRUnknown);
   (EvWrite (OAct (AChk SPlan GBypass 1)) Running 0 false FRUnknown);
   (EvStart (AChk SPlan GBypass 1));
   (EvEnd (AChk SPlan GBypass 1) OOk);
   (EvStart (AChk SPlan GBypass 0));
   (EvEnd (AChk SPlan GBypass 0) OOk);
   (EvWrite (OAct (AChk SPlan GBypass 1)) Running 1 true FRUnknown);
   (EvWrite (OAct (AChk SPlan GBypass 1)) Completed 1 true FRUnknown);
   (EvWrite (OAct (AChk SPlan GBypass 1)) Completed 1 true FRUnknown);
   (EvWrite (OAct (AChk SPlan GBypass 0)) Running 1 true FRUnknown);
   (EvWrite (OAct (AChk SPlan GBypass 0)) Completed 1 true FRUnknown);
   (EvWrite (OAct (AChk SPlan GBypass 0)) Completed 1 true FRUnknown);
   (EvWrite (OChecks SPlan GBypass) Completed 0 false FRUnknown);
   (EvWrite OPlan Running 0 false FRUnknown);
   (EvWrite OPlan Completed 0 false FRUnknown);
   (EvWrite (OChecks SPlan GBypass) Completed 0 false FRUnknown);
   (EvWrite (OAct (AChk SPlan GBypass 0)) Completed 1 true FRUnknown);
   (EvWrite (OAct (AChk SPlan GBypass 1)) Completed 1 true FRUnknown);
   (EvWrite (OChecks SPlan GPre) NotStarted 0 false FRUnknown);
   (EvWrite (OAct (AChk SPlan GPre 0)) NotStarted 0 false FRUnknown);
   (EvWrite (OChecks SPlan GCont) NotStarted 0 false FRUnknown);
   (EvWrite (OAct (AChk SPlan GCont 0)) NotStarted 0 false FRUnknown);
   (EvWrite (OAct (AChk SPlan GCont 1)) NotStarted 0 false FRUnknown);
   (EvWrite (OBlock 0) NotStarted 0 false FRUnknown);
   (EvWrite (OSeq 0 0) NotStarted 0 false FRUnknown);
   (EvWrite (OAct (ASeq 0 0 0)) NotStarted 0 false FRUnknown);
   (EvWrite (OAct (ASeq 0 0 1)) NotStarted 0 false FRUnknown);
   (EvWrite (OChecks SPlan GDeferred) NotStarted 0 false FRUnknown);
   (EvWrite (OAct (AChk SPlan GDeferred 0)) NotStarted 0 false FRUnknown);
   (EvRelease (IM [(OPlan, (OC Completed 0 false (TF false false true))); ((OChecks SPlan GBypass), (OC Completed 0 false (TF false false true))); ((OAct (AChk SPlan GBypass 0)), (OC Completed 1 true (TF false false true))); ((OAct (AChk SPlan GBypass 1)), (OC Completed 1 true (TF false false true))); ((OChecks SPlan GPre), (OC NotStarted 0 false (TF true true true))); ((OAct (AChk SPlan GPre 0)), (OC NotStarted 0 false (TF true true true))); ((OChecks SPlan GCont), (OC NotStarted 0 false (TF true true true))); ((OAct (AChk SPlan GCont 0)), (OC NotStarted 0 false (TF true true true))); ((OAct (AChk SPlan GCont 1)), (OC NotStarted 0 false (TF true true true))); ((OChecks SPlan GDeferred), (OC NotStarted 0 false (TF true true true))); ((OAct (AChk SPlan GDeferred 0)), (OC NotStarted 0 false (TF true true true))); ((OBlock 0), (OC NotStarted 0 false (TF true true true))); ((OSeq 0 0), (OC NotStarted 0 false (TF true true true))); ((OAct (ASeq 0 0 0)), (OC NotStarted 0 false (TF true true true))); ((OAct (ASeq 0 0 1)), (OC NotStarted 0 false (TF true true true)))] FRUnknown));
   (EvRead (IM [(OPlan, (OC Completed 0 false (TF false false true))); ((OChecks SPlan GBypass), (OC Completed 0 false (TF false false true))); ((OAct (AChk SPlan GBypass 0)), (OC Completed 1 true (TF false false true))); ((OAct (AChk SPlan GBypass 1)), (OC Completed 1 true (TF false false true))); ((OChecks SPlan GPre), (OC NotStarted 0 false (TF true true true))); ((OAct (AChk SPlan GPre 0)), (OC NotStarted 0 false (TF true true true))); ((OChecks SPlan GCont), (OC NotStarted 0 false (TF true true true))); ((OAct (AChk SPlan GCont 0)), (OC NotStarted 0 false (TF true true true))); ((OAct (AChk SPlan GCont 1)), (OC NotStarted 0 false (TF true true true))); ((OChecks SPlan GDeferred), (OC NotStarted 0 false (TF true true true))); ((OAct (AChk SPlan GDeferred 0)), (OC NotStarted 0 false (TF true true true))); ((OBlock 0), (OC NotStarted 0 false (TF true true true))); ((OSeq 0 0), (OC NotStarted 0 false (TF true true true))); ((OAct (ASeq 0 0 0)), (OC NotStarted 0 false (TF true true true))); ((OAct (ASeq 0 0 1)), (OC NotStarted 0 false (TF true true true)))] FRUnknown))]).

Definition bad1 : case :=
  ((Build_shape (Build_groups None None None None None) [(Build_bshape (Build_groups (Some [1]) None (Some [1]) None None) [[0; 0]; [1; 0]] 2 (1)%Z)]), [(EvWrite OPlan Running 0 false FRUnknown);
   (EvWrite OPlan Running 0 false FRUnknown);
   (EvWrite OPlan Running 0 false FRUnknown);
   (EvWrite (OBlock 0) Running 0 false FRUnknown);
   (EvWrite (OChecks (SBlock 0) GBypass) NotStarted 0 false FRUnknown);
   (EvWrite (OAct (AChk (SBlock 0) GBypass 0)) Running 0 false FRUnknown);
   (EvStart (AChk (SBlock 0) GBypass 0));
   (EvEnd (AChk (SBlock 0) GBypass 0) OErr);
   (EvWrite (OAct (AChk (SBlock 0) GBypass 0)) Running 1 false FRUnknown);
   (EvStart (AChk (SBlock 0) GBypass 0));
   (EvEnd (AChk (SBlock 0) GBypass 0) OErr);
   (EvWrite (OAct (AChk (SBlock 0) GBypass 0)) Running 2 false FRUnknown);
   (EvWrite (OAct (AChk (SBlock 0) GBypass 0)) Failed 2 false FRUnknown);
   (EvWrite (OAct (AChk (SBlock 0) GBypass 0)) Failed 2 false FRUnknown);
   (EvWrite (OChecks (SBlock 0) GBypass) Failed 0 false FRUnknown);
   (EvWrite (OBlock 0) Running 0 false FRUnknown);
   (EvWrite (OBlock 0) Running 0 false FRUnknown);
   (EvWrite (OBlock 0) Running 0 false FRUnknown);
   (EvWrite (OSeq 0 1) Running 0 false FRUnknown);
   (EvWrite (OAct (ASeq 0 1 0)) Running 0 false FRUnknown);
   (EvStart (ASeq 0 1 0));
   (EvEnd (ASeq 0 1 0) OOk);
   (EvWrite (OAct (ASeq 0 1 0)) Running 1 true FRUnknown);
   (EvWrite (OAct (ASeq 0 1 0)) Completed 1 true FRUnknown);
   (EvWrite (OAct (ASeq 0 1 0)) Completed 1 true FRUnknown);
   (EvWrite (OAct (ASeq 0 1 1)) Running 0 false FRUnknown);
   (EvStart (ASeq 0 1 1));
   (EvEnd (ASeq 0 1 1) OOk);
   (EvWrite (OAct (ASeq 0 1 1)) Running 1 true FRUnknown);
   (EvWrite (OAct (ASeq 0 1 1)) Completed 1 true FRUnknown);
   (EvWrite (OAct (ASeq 0 1 1)) Completed 1 true FRUnknown);
   (EvWrite (OSeq 0 1) Completed 0 false FRUnknown);
   (EvWrite (OSeq 0 0) Running 0 false FRUnknown);
   (EvWrite (OAct (ASeq 0 0 0)) Running 0 false FRUnknown);
   (EvStart (ASeq 0 0 0));
   (EvEnd (ASeq 0 0 0) OOk);
   (EvWrite (OAct (ASeq 0 0 0)) Running 1 true FRUnknown);
   (EvWrite (OAct (ASeq 0 0 0)) Completed 1 true FRUnknown);
   (EvWrite (OAct (ASeq 0 0 0)) Completed 1 true FRUnknown);
   (EvWrite (OAct (ASeq 0 0 1)) Running 0 false FRUnknown);
   (EvStart (ASeq 0 0 1));
   (EvEnd (ASeq 0 0 1) OOk);
   (EvWrite (OChecks (SBlock 0) GCont) NotStarted 0 false FRUnknown);
   (EvWrite (OAct (ASeq 0 0 1)) Running 1 true FRUnknown);
   (EvWrite (OAct (AChk (SBlock 0) GCont 0)) Running 0 false FRUnknown);
   (EvStart (AChk (SBlock 0) GCont 0));
   (EvEnd (AChk (SBlock 0) GCont 0) OPerm);
   (EvWrite (OAct (ASeq 0 0 1)) Completed 1 true FRUnknown);
   (EvWrite (OAct (ASeq 0 0 1)) Completed 1 true FRUnknown);
   (EvWrite (OSeq 0 0) Completed 0 false FRUnknown);
   (EvWrite (OBlock 0) Running 0 false FRUnknown);
   (EvWrite (OBlock 0) Running 0 false FRUnknown);
   (EvWrite (OAct (AChk (SBlock 0) GCont 0)) Running 1 false FRUnknown);
   (EvWrite (OAct (AChk (SBlock 0) GCont 0)) Failed 1 false FRUnknown);
   (EvWrite (OAct (AChk (SBlock 0) GCont 0)) Failed 1 false FRUnknown);
   (EvWrite (OChecks (SBlock 0) GCont) Failed 0 false FRUnknown);
   (EvWrite (OBlock 0) Failed 0 false FRUnknown);
   (EvWrite OPlan Running 0 false FRUnknown);
   (EvWrite OPlan Failed 0 false FRBlock);
   (EvWrite (OBlock 0) Failed 0 false FRUnknown);
   (EvWrite (OChecks (SBlock 0) GBypass) Failed 0 false FRUnknown);
   (EvWrite (OAct (AChk (SBlock 0) GBypass 0)) Failed 2 false FRUnknown);
   (EvWrite (OChecks (SBlock 0) GCont) Failed 0 false FRUnknown);
   (EvWrite (OAct (AChk (SBlock 0) GCont 0)) Failed 1 false FRUnknown);
   (EvWrite (OSeq 0 0) Completed 0 false FRUnknown);
   (EvWrite (OAct (ASeq 0 0 0)) Completed 1 true FRUnknown);
   (EvWrite (OAct (ASeq 0 0 1)) Completed 1 true FRUnknown);
   (EvWrite (OSeq 0 1) Completed 0 false FRUnknown);
   (EvWrite (OAct (ASeq 0 1 0)) Completed 1 true FRUnknown);
   (EvWrite (OAct (ASeq 0 1 1)) Completed 1 true FRUnknown);
   (EvRelease (IM [(OPlan, (OC Failed 0 false (TF false false true))); ((OBlock 0), (OC Failed 0 false (TF false false true))); ((OChecks (SBlock 0) GBypass), (OC Failed 0 false (TF false false true))); ((OAct (AChk (SBlock 0) GBypass 0)), (OC Failed 2 false (TF false false true))); ((OChecks (SBlock 0) GCont), (OC Failed 0 false (TF false false true))); ((OAct (AChk (SBlock 0) GCont 0)), (OC Failed 1 false (TF false false true))); ((OSeq 0 0), (OC Completed 0 false (TF false false true))); ((OAct (ASeq 0 0 0)), (OC Completed 1 true (TF false false true))); ((OAct (ASeq 0 0 1)), (OC Completed 1 true (TF false false true))); ((OSeq 0 1), (OC Completed 0 false (TF false false true))); ((OAct (ASeq 0 1 0)), (OC Completed 1 true (TF false false true))); ((OAct (ASeq 0 1 1)), (OC Completed 1 true (TF false false true)))] FRUnknown));
   (EvRead (IM [(OPlan, (OC Failed 0 false (TF false false true))); ((OBlock 0), (OC Failed 0 false (TF false false true))); ((OChecks (SBlock 0) GBypass), (OC Failed 0 false (TF false false true))); ((OAct (AChk (SBlock 0) GBypass 0)), (OC Failed 2 false (TF false false true))); ((OChecks (SBlock 0) GCont), (OC Failed 0 false (TF false false true))); ((OAct (AChk (SBlock 0) GCont 0)), (OC Failed 1 false (TF false false true))); ((OSeq 0 0), (OC Completed 0 false (TF false false true))); ((OAct (ASeq 0 0 0)), (OC Completed 1 true (TF false false true))); ((OAct (ASeq 0 0 1)), (OC Completed 1 true (TF false false true))); ((OSeq 0 1), (OC Completed 0 false (TF false false true))); ((OAct (ASeq 0 1 0)), (OC Completed 1 true (TF false false true))); ((OAct (ASeq 0 1 1)), (OC Completed 1 true (TF false false true)))] FRUnknown))]).

Definition ex4 : case :=
  ((Build_shape (Build_groups None None None None None) [(Build_bshape (Build_groups (Some [1]) None (Some [1]) None (Some [0])) [[0; 0]] 1 (1)%Z); (Build_bshape (Build_groups None None None None None) [[1]] 2 (-1)%Z)]), [(EvWrite OPlan Running 0 false FRUnknown);
   (EvWrite OPlan Running 0 false FRUnknown);
   (EvWrite OPlan Running 0 false FRUnknown);
   (EvWrite (OBlock 0) Running 0 false FRUnknown);
   (EvWrite (OChecks (SBlock 0) GBypass) NotStarted 0 false FRUnknown);
   (EvWrite (OAct (AChk (SBlock 0) GBypass 0)) Running 0 false FRUnknown);
   (EvStart (AChk (SBlock 0) GBypass 0));
   (EvEnd (AChk (SBlock 0) GBypass 0) OErr);
   (EvWrite (OAct (AChk (SBlock 0) GBypass 0)) Running 1 false FRUnknown);
   (EvStart (AChk (SBlock 0) GBypass 0));
   (EvEnd (AChk (SBlock 0) GBypass 0) OPerm);
   (EvWrite (OAct (AChk (SBlock 0) GBypass 0)) Running 2 false FRUnknown);
   (EvWrite (OAct (AChk (SBlock 0) GBypass 0)) Failed 2 false FRUnknown);
   (EvWrite (OAct (AChk (SBlock 0) GBypass 0)) Failed 2 false FRUnknown);
   (EvWrite (OChecks (SBlock 0) GBypass) Failed 0 false FRUnknown);
   (EvWrite (OBlock 0) Running 0 false FRUnknown);
   (EvWrite (OChecks (SBlock 0) GCont) NotStarted 0 false FRUnknown);
   (EvWrite (OAct (AChk (SBlock 0) GCont 0)) Running 0 false FRUnknown);
   (EvStart (AChk (SBlock 0) GCont 0));
   (EvEnd (AChk (SBlock 0) GCont 0) OWrongType);
   (EvWrite (OAct (AChk (SBlock 0) GCont 0)) Running 1 false FRUnknown);
   (EvWrite (OAct (AChk (SBlock 0) GCont 0)) Failed 1 false FRUnknown);
   (EvWrite (OAct (AChk (SBlock 0) GCont 0)) Failed 1 false FRUnknown);
   (EvWrite (OChecks (SBlock 0) GCont) Failed 0 false FRUnknown);
   (EvWrite (OBlock 0) Failed 0 false FRUnknown);
   (EvWrite (OChecks (SBlock 0) GDeferred) NotStarted 0 false FRUnknown);
   (EvWrite (OAct (AChk (SBlock 0) GDeferred 0)) Running 0 false FRUnknown);
   (EvStart (AChk (SBlock 0) GDeferred 0));
   (EvEnd (AChk (SBlock 0) GDeferred 0) OOk);
   (EvWrite (OAct (AChk (SBlock 0) GDeferred 0)) Running 1 true FRUnknown);
   (EvWrite (OAct (AChk (SBlock 0) GDeferred 0)) Completed 1 true FRUnknown);
   (EvWrite (OAct (AChk (SBlock 0) GDeferred 0)) Completed 1 true FRUnknown);
   (EvWrite (OChecks (SBlock 0) GDeferred) Completed 0 false FRUnknown);
   (EvWrite (OBlock 0) Failed 0 false FRUnknown);
   (EvWrite (OBlock 0) Failed 0 false FRUnknown);
   (EvWrite OPlan Running 0 false FRUnknown);
   (EvWrite OPlan Failed 0 false FRBlock);
   (EvWrite (OBlock 0) Failed 0 false FRUnknown);
   (EvWrite (OChecks (SBlock 0) GBypass) Failed 0 false FRUnknown);
   (EvWrite (OAct (AChk (SBlock 0) GBypass 0)) Failed 2 false FRUnknown);
   (EvWrite (OChecks (SBlock 0) GCont) Failed 0 false FRUnknown);
   (EvWrite (OAct (AChk (SBlock 0) GCont 0)) Failed 1 false FRUnknown);
   (EvWrite (OSeq 0 0) NotStarted 0 false FRUnknown);
   (EvWrite (OAct (ASeq 0 0 0)) NotStarted 0 false FRUnknown);
   (EvWrite (OAct (ASeq 0 0 1)) NotStarted 0 false FRUnknown);
   (EvWrite (OChecks (SBlock 0) GDeferred) Completed 0 false FRUnknown);
   (EvWrite (OAct (AChk (SBlock 0) GDeferred 0)) Completed 1 true FRUnknown);
   (EvWrite (OBlock 1) NotStarted 0 false FRUnknown);
   (EvWrite (OSeq 1 0) NotStarted 0 false FRUnknown);
   (EvWrite (OAct (ASeq 1 0 0)) NotStarted 0 false FRUnknown);
   (EvRelease (IM [(OPlan, (OC Failed 0 false (TF false false true))); ((OBlock 0), (OC Failed 0 false (TF false false true))); ((OChecks (SBlock 0) GBypass), (OC Failed 0 false (TF false false true))); ((OAct (AChk (SBlock 0) GBypass 0)), (OC Failed 2 false (TF false false true))); ((OChecks (SBlock 0) GCont), (OC Failed 0 false (TF false false true))); ((OAct (AChk (SBlock 0) GCont 0)), (OC Failed 1 false (TF false false true))); ((OChecks (SBlock 0) GDeferred), (OC Completed 0 false (TF false false true))); ((OAct (AChk (SBlock 0) GDeferred 0)), (OC Completed 1 true (TF false false true))); ((OSeq 0 0), (OC NotStarted 0 false (TF true true true))); ((OAct (ASeq 0 0 0)), (OC NotStarted 0 false (TF true true true))); ((OAct (ASeq 0 0 1)), (OC NotStarted 0 false (TF true true true))); ((OBlock 1), (OC NotStarted 0 false (TF true true true))); ((OSeq 1 0), (OC NotStarted 0 false (TF true true true))); ((OAct (ASeq 1 0 0)), (OC NotStarted 0 false (TF true true true)))] FRBlock));
   (EvRead (IM [(OPlan, (OC Failed 0 false (TF false false true))); ((OBlock 0), (OC Failed 0 false (TF false false true))); ((OChecks (SBlock 0) GBypass), (OC Failed 0 false (TF false false true))); ((OAct (AChk (SBlock 0) GBypass 0)), (OC Failed 2 false (TF false false true))); ((OChecks (SBlock 0) GCont), (OC Failed 0 false (TF false false true))); ((OAct (AChk (SBlock 0) GCont 0)), (OC Failed 1 false (TF false false true))); ((OChecks (SBlock 0) GDeferred), (OC Completed 0 false (TF false false true))); ((OAct (AChk (SBlock 0) GDeferred 0)), (OC Completed 1 true (TF false false true))); ((OSeq 0 0), (OC NotStarted 0 false (TF true true true))); ((OAct (ASeq 0 0 0)), (OC NotStarted 0 false (TF true true true))); ((OAct (ASeq 0 0 1)), (OC NotStarted 0 false (TF true true true))); ((OBlock 1), (OC NotStarted 0 false (TF true true true))); ((OSeq 1 0), (OC NotStarted 0 false (TF true true true))); ((OAct (ASeq 1 0 0)), (OC NotStarted 0 false (TF true true true)))] FRBlock))]).

(* bad2: ex2 with a forged invocation of block 0's continuous check right after its bypass passed (event #8) *)
Definition forge (tr : list event) : list event :=
  firstn 8 tr ++ [EvStart (AChk (SBlock 0) GCont 0); EvEnd (AChk (SBlock 0) GCont 0) OOk] ++ skipn 8 tr.
Definition bad2 : case := (fst ex2, forge (snd ex2)).

(* ---- the hypotheses of c06_gating are satisfiable on non-trivial traces, and the conclusion holds there ---- *)
Example ex1_wf : shape_wf (fst ex1) = true. Proof. vm_compute. reflexivity. Qed.
Example ex1_accepted_and_released : accepts (fst ex1) (snd ex1) = true. Proof. vm_compute. reflexivity. Qed.
Example ex1_run : exists s, run (fst ex1) PlanSM.init (snd ex1) = Some s.
Proof. destruct (run (fst ex1) PlanSM.init (snd ex1)) as [s|] eqn:E; [eauto|]. exfalso. vm_compute in E. discriminate E. Qed.
Example ex1_monitor : mon_gate ex1 = true /\ mon_gate_diag ex1 = [0]. Proof. vm_compute. auto. Qed.
(* it has two blocks, a failed pre check next to a continuous group, no sequence action of block 0, and ends released *)
Example ex1_nontrivial :
  length (sh_blocks (fst ex1)) = 2
  /\ In (EvEnd (AChk (SBlock 0) GPre 0) OPerm) (snd ex1)
  /\ In (EvEnd (AChk (SBlock 0) GCont 0) OOk) (snd ex1)
  /\ (forall q i, ~ In (EvStart (ASeq 0 q i)) (snd ex1)).
Proof.
  refine (conj eq_refl (conj _ (conj _ _))).
  - vm_compute. tauto.
  - vm_compute. tauto.
  - intros q i H. vm_compute in H. repeat (destruct H as [H|H]; [discriminate H|]). exact H.
Qed.

Example ex2_accepted_and_released : accepts (fst ex2) (snd ex2) = true. Proof. vm_compute. reflexivity. Qed.
Example ex2_monitor : mon_gate ex2 = true. Proof. vm_compute. reflexivity. Qed.
Example ex4_accepted_and_released : accepts (fst ex4) (snd ex4) = true. Proof. vm_compute. reflexivity. Qed.
Example ex4_monitor : mon_gate ex4 = true. Proof. vm_compute. reflexivity. Qed.
Example ex4_bypass_failed_block_entered :
  In (EvEnd (AChk (SBlock 0) GBypass 0) OPerm) (snd ex4) /\ In (EvStart (AChk (SBlock 0) GCont 0)) (snd ex4).
Proof. split; vm_compute; tauto. Qed.
Example ex3_accepted_and_released : accepts (fst ex3) (snd ex3) = true. Proof. vm_compute. reflexivity. Qed.
Example ex3_monitor : mon_gate ex3 = true. Proof. vm_compute. reflexivity. Qed.

(* ---- the monitor is not trivially true ---- *)
(* E1 on the pre-fix engine: clause 2 (a sequence action behind a gate that is not open), scope = block 0 *)
Example bad1_monitor : mon_gate bad1 = false /\ exists i, mon_gate_diag bad1 = [2; i; 1].
Proof. split; [vm_compute; reflexivity|]. eexists. vm_compute. reflexivity. Qed.
Example bad1_not_accepted : accepts (fst bad1) (snd bad1) = false. Proof. vm_compute. reflexivity. Qed.
(* a check of a bypassed block invoked after the bypass passed: clause 1 at the forged event, scope = block 0 *)
Example bad2_monitor : mon_gate bad2 = false /\ mon_gate_diag bad2 = [1; 8; 1]. Proof. vm_compute. auto. Qed.
Example bad2_not_accepted : accepts (fst bad2) (snd bad2) = false. Proof. vm_compute. reflexivity. Qed.
