(* MonC06 - the monitor of property C06, "Bypass and pre-check gating: what must not run does not run".
   Model file: NO proofs.  It is written over the observed trace only (plugin Start/End events and the plan
   Wait returned); it does not mention the automaton of coq/engine and uses the shape only for what the
   plan declares (which groups a scope has, how many actions / sequences, the tolerated failures).

   ONE SCOPE AT A TIME.  A scope is the plan (SPlan) or a block (SBlock b).  [mon_gate] runs the same small
   fold once per scope of the plan and requires all of them to hold.

   What the fold remembers about its scope (record [mst]):
     m_byp / m_pre / m_cont   per action of the scope's bypass / pre / continuous group: has the plugin
                              returned OOk for it (flags only go from false to true);
     m_bran / m_pran / m_cran the group RAN: one of its actions has been invoked (EvStart);
     m_other                  an invocation (EvStart) of the scope that is not of its bypass group has been seen.
   Derived:
     passed m      = the bypass group has actions and every one of them has returned OOk
                     ("every bypass check of the scope succeeded");
     gate_open m   = every pre action and every continuous action has returned OOk (for the continuous group
                     this is its INITIAL run: an action can only return OOk in a later run if the first run
                     succeeded; an absent group has no action and is open);
     gate_failed m = the pre group ran and is not all-ok, or the continuous group ran and is not all-ok
                     (judged at the release, where every run is over).

   THE CLAUSES (numbers = violation codes of mon_gate_diag):
     1  after the scope's bypass passed NO plugin event of the scope happens: no check action of any group
        of the scope (the bypass group included), no sequence action; for the plan scope nothing at all
        (the blocks belong to the plan's scope);
     2  a sequence action of the scope is invoked only when the gate is open: every pre action and every
        action of the initial continuous run has returned OOk.  Flags never go back, so if a pre check or a
        check of the initial continuous run fails NO sequence action of the scope is invoked EVER, before
        or after the failure (lemma gate_never in MonC06Facts.v);
     3  the bypass passes although something else of the scope has already run (nothing else may run
        beside a bypass group that is going to pass either);
   and when Wait returns the plan [fin], with st = the status of the scope's object in fin:
     4  passed            => st = Completed;
     5  not passed, gate_failed                     => st = Failed   (and, release obligation, the run DOES
        get here: a trace without EvRelease is reported by the driver; E2 was a hang);
     6  not passed, st = Failed  => [cause]: the bypass failure alone never fails the scope.  A stage other
        than the bypass is Failed in fin: one of the scope's pre/continuous/post/deferred groups; for a
        block also the plan's continuous group (seen while the block ran) or more Failed sequences than
        the block tolerates; for the plan also a Failed block;
     7  not passed, st = Completed => [work]: the scope was entered and ran normally to its end: every
        pre/continuous/post/deferred group it has is Completed in fin, and every sequence of the block is
        Completed or Failed (all were run) / every block of the plan is Completed;
     8  something of the scope ran (its bypass group or anything else) => st is Completed or Failed
        (the scope does end).
   Clauses of the property text that are left to other checks: the order of stages inside an entered scope
   (C01), the tolerance arithmetic that decides Failed vs Completed for an entered block (C03: here only
   "Failed needs a cause other than the bypass"), attempts and retries inside one action (C05), that fin is
   the durable, quiescent, truthful final plan (C04). *)
From Coercion.Base Require Import Plan.
From Coercion.Engine Require Import Shape Event ChecksRun Accept.

(* ---- which plugin invocations belong to a scope ---- *)
Definition in_scope (sc : scope) (a : aref) : bool :=
  match sc with
  | SPlan => true                      (* everything: the plan's own groups and all of its blocks *)
  | SBlock b =>
      match a with
      | AChk (SBlock b') _ _ => Nat.eqb b b'
      | AChk SPlan _ _ => false
      | ASeq b' _ _ => Nat.eqb b b'
      end
  end.

Definition is_seq (a : aref) : bool := match a with ASeq _ _ _ => true | AChk _ _ _ => false end.

(* a is check action (g, i) of the scope's OWN groups *)
Definition own_check (sc : scope) (a : aref) : option (grp * nat) :=
  match a with
  | AChk sc' g i => if scope_eqb sc sc' then Some (g, i) else None
  | ASeq _ _ _ => None
  end.

Definition scope_obj (sc : scope) : obj := match sc with SPlan => OPlan | SBlock b => OBlock b end.

(* ---- the monitor state of one scope ---- *)
Record mst := {
  m_byp : list bool; m_pre : list bool; m_cont : list bool;
  m_bran : bool; m_pran : bool; m_cran : bool;
  m_other : bool }.

Definition group_size (sh : shape) (sc : scope) (g : grp) : nat :=
  match group_of sh sc g with Some rs => length rs | None => 0 end.

Definition m_init (sh : shape) (sc : scope) : mst :=
  {| m_byp := repeat false (group_size sh sc GBypass);
     m_pre := repeat false (group_size sh sc GPre);
     m_cont := repeat false (group_size sh sc GCont);
     m_bran := false; m_pran := false; m_cran := false; m_other := false |}.

Definition all_true (l : list bool) : bool := forallb (fun x => x) l.
Definition nonempty {A} (l : list A) : bool := match l with [] => false | _ :: _ => true end.

Definition passed (m : mst) : bool := nonempty (m_byp m) && all_true (m_byp m).
Definition gate_open (m : mst) : bool := all_true (m_pre m) && all_true (m_cont m).
Definition gate_failed (m : mst) : bool :=
  (m_pran m && negb (all_true (m_pre m))) || (m_cran m && negb (all_true (m_cont m))).
Definition ran_any (m : mst) : bool := m_bran m || m_other m.

(* EvStart a, a of the scope: which group ran *)
Definition note_start (sc : scope) (m : mst) (a : aref) : mst :=
  match own_check sc a with
  | Some (GBypass, _) =>
      {| m_byp := m_byp m; m_pre := m_pre m; m_cont := m_cont m;
         m_bran := true; m_pran := m_pran m; m_cran := m_cran m; m_other := m_other m |}
  | Some (GPre, _) =>
      {| m_byp := m_byp m; m_pre := m_pre m; m_cont := m_cont m;
         m_bran := m_bran m; m_pran := true; m_cran := m_cran m; m_other := true |}
  | Some (GCont, _) =>
      {| m_byp := m_byp m; m_pre := m_pre m; m_cont := m_cont m;
         m_bran := m_bran m; m_pran := m_pran m; m_cran := true; m_other := true |}
  | _ =>
      {| m_byp := m_byp m; m_pre := m_pre m; m_cont := m_cont m;
         m_bran := m_bran m; m_pran := m_pran m; m_cran := m_cran m; m_other := true |}
  end.

(* EvEnd a OOk, a of the scope: the flag of the action (an End with another outcome changes nothing) *)
Definition note_ok (sc : scope) (m : mst) (a : aref) : mst :=
  match own_check sc a with
  | Some (GBypass, i) =>
      {| m_byp := upd (m_byp m) i true; m_pre := m_pre m; m_cont := m_cont m;
         m_bran := m_bran m; m_pran := m_pran m; m_cran := m_cran m; m_other := m_other m |}
  | Some (GPre, i) =>
      {| m_byp := m_byp m; m_pre := upd (m_pre m) i true; m_cont := m_cont m;
         m_bran := m_bran m; m_pran := m_pran m; m_cran := m_cran m; m_other := m_other m |}
  | Some (GCont, i) =>
      {| m_byp := m_byp m; m_pre := m_pre m; m_cont := upd (m_cont m) i true;
         m_bran := m_bran m; m_pran := m_pran m; m_cran := m_cran m; m_other := m_other m |}
  | _ => m
  end.

(* ---- what the released plan must show: over any status reading f of the objects ---- *)
Section Verdict.
  Variable sh : shape.
  Variable f : obj -> status.

  Definition has (sc : scope) (g : grp) : bool :=
    match group_of sh sc g with Some _ => true | None => false end.
  Definition grp_failed (sc : scope) (g : grp) : bool := has sc g && status_eqb (f (OChecks sc g)) Failed.
  Definition grp_fine (sc : scope) (g : grp) : bool := negb (has sc g) || status_eqb (f (OChecks sc g)) Completed.
  (* the stages of a scope other than its bypass *)
  Definition stages : list grp := [GPre; GCont; GPost; GDeferred].

  Definition nblocks : nat := length (sh_blocks sh).
  Definition nseqs (b : nat) : nat :=
    match block_of sh b with Some bs => length (bs_seqs bs) | None => 0 end.
  Definition is_done (s : status) : bool := status_eqb s Completed || status_eqb s Failed.
  Definition failed_seqs_of (b : nat) : nat :=
    length (filter (fun s => status_eqb (f (OSeq b s)) Failed) (seq 0 (nseqs b))).
  Definition tol_exceeded (b : nat) : bool :=
    match block_of sh b with
    | Some bs => (0 <=? bs_tol bs)%Z && (bs_tol bs <? Z.of_nat (failed_seqs_of b))%Z
    | None => false
    end.

  (* a failed stage other than the bypass *)
  Definition cause (sc : scope) : bool :=
    match sc with
    | SPlan => existsb (grp_failed SPlan) stages
               || existsb (fun b => status_eqb (f (OBlock b)) Failed) (seq 0 nblocks)
    | SBlock b => existsb (grp_failed (SBlock b)) stages || grp_failed SPlan GCont || tol_exceeded b
    end.

  (* the scope was entered and ran to its end *)
  Definition work (sc : scope) : bool :=
    match sc with
    | SPlan => forallb (grp_fine SPlan) stages
               && forallb (fun b => status_eqb (f (OBlock b)) Completed) (seq 0 nblocks)
    | SBlock b => forallb (grp_fine (SBlock b)) stages
                  && forallb (fun s => is_done (f (OSeq b s))) (seq 0 (nseqs b))
    end.

  (* clauses 4-8; 0 = all hold *)
  Definition final_code (sc : scope) (m : mst) : nat :=
    let st := f (scope_obj sc) in
    if passed m then (if status_eqb st Completed then 0 else 4)
    else if gate_failed m && negb (status_eqb st Failed) then 5
    else if status_eqb st Failed && negb (cause sc) then 6
    else if status_eqb st Completed && negb (work sc) then 7
    else if ran_any m && negb (is_done st) then 8
    else 0.
End Verdict.

(* the status of an object in the plan Wait returned *)
Definition fin_st (fin : image) (o : obj) : status :=
  match im_lookup fin o with Some c => oc_st c | None => NotStarted end.

(* ---- one step of the monitor of scope sc: inl = goes on, inr code = clause [code] is violated ---- *)
Definition mstep_d (sh : shape) (sc : scope) (m : mst) (e : event) : mst + nat :=
  match e with
  | EvStart a =>
      if negb (in_scope sc a) then inl m
      else if passed m then inr 1
      else if is_seq a && negb (gate_open m) then inr 2
      else inl (note_start sc m a)
  | EvEnd a o =>
      if negb (in_scope sc a) then inl m
      else if passed m then inr 1
      else if negb (outcome_ok o) then inl m
      else let m' := note_ok sc m a in
           if passed m' && m_other m' then inr 3 else inl m'
  | EvRelease fin =>
      match final_code sh (fin_st fin) sc m with 0 => inl m | c => inr c end
  | EvWrite _ _ _ _ _ | EvRead _ => inl m
  end.

Definition mstep (sh : shape) (sc : scope) (m : mst) (e : event) : option mst :=
  match mstep_d sh sc m e with inl m' => Some m' | inr _ => None end.

Fixpoint mfold (sh : shape) (sc : scope) (m : mst) (tr : list event) : option mst :=
  match tr with
  | [] => Some m
  | e :: tr' => match mstep sh sc m e with Some m' => mfold sh sc m' tr' | None => None end
  end.

(* [0] = holds; [code; i] = clause [code] violated at event i (0-based) *)
Fixpoint mfold_d (sh : shape) (sc : scope) (m : mst) (tr : list event) (i : nat) : list nat :=
  match tr with
  | [] => [0]
  | e :: tr' => match mstep_d sh sc m e with
                | inl m' => mfold_d sh sc m' tr' (S i)
                | inr c => [c; i]
                end
  end.

Definition scopes (sh : shape) : list scope := SPlan :: map SBlock (seq 0 (length (sh_blocks sh))).

Definition mon_gate_scope (sh : shape) (sc : scope) (tr : list event) : bool :=
  match mfold sh sc (m_init sh sc) tr with Some _ => true | None => false end.

(* THE MONITOR *)
Definition mon_gate (c : case) : bool :=
  forallb (fun sc => mon_gate_scope (fst c) sc (snd c)) (scopes (fst c)).

(* [0] = holds; [code; event index; scope] with scope 0 = the plan, b+1 = block b: the first scope that fails *)
Definition scope_code (sc : scope) : nat := match sc with SPlan => 0 | SBlock b => S b end.
Fixpoint first_bad (sh : shape) (tr : list event) (scs : list scope) : list nat :=
  match scs with
  | [] => [0]
  | sc :: scs' =>
      match mfold_d sh sc (m_init sh sc) tr 0 with
      | 0 :: _ => first_bad sh tr scs'
      | r => r ++ [scope_code sc]
      end
  end.
Definition mon_gate_diag (c : case) : list nat := first_bad (fst c) (snd c) (scopes (fst c)).
