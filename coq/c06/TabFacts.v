(* TabFacts - consequences of the stage table used by the block-scope relation. *)
From Coq Require Import Lia.
From Coercion.Base Require Import Plan.
From Coercion.Engine Require Import Shape Event Action ChecksRun AutoLemmas.
From Coercion.C06 Require Import MonC06 Groups Steps Tab Inv.

Lemma stage_eq_dec (a b : stage) : {a = b} + {a <> b}.
Proof. decide equality. Defined.

Section TabFacts.
  Variable pres : grp -> bool.
  Variables (stg : stage) (t : gtab) (th : thr).
  Hypothesis T : tab pres stg t th.

  Lemma tab_bypass_gonce : gonce (t_bypass t).
  Proof.
    destruct T as [_ T0]. destruct stg; cbn zeta in T0.
    - destruct T0 as [-> _]. exact I.
    - apply T0.
    - destruct T0 as (Nb & _). unfold not_taken in Nb. destruct (pres GBypass); rewrite Nb; exact I.
    - destruct T0 as (Nb & _). unfold not_taken in Nb. destruct (pres GBypass); rewrite Nb; exact I.
    - destruct T0 as (Nb & _). unfold not_taken in Nb. destruct (pres GBypass); rewrite Nb; exact I.
    - destruct T0 as (Nb & _). unfold not_taken in Nb. destruct (pres GBypass); rewrite Nb; exact I.
    - destruct T0 as [(-> & _)|(Nb & _)]; [exact I|]. unfold not_taken in Nb. destruct (pres GBypass); rewrite Nb; exact I.
  Qed.

  Lemma tab_entered_bypass :
    stg <> SgInit -> stg <> SgBypass -> t_bypass t <> GIdle 1 (Some true) -> not_taken (pres GBypass) (t_bypass t).
  Proof.
    intros N1 N2 Nt. destruct T as [_ T0]. destruct stg; cbn zeta in T0; try contradiction; try (apply T0).
    destruct T0 as [(E & _)|(Nb & _)]; [contradiction|exact Nb].
  Qed.

  Lemma tab_group_running g :
    g <> GBypass -> g_is_idle (tget t g) = false ->
    stg <> SgInit /\ stg <> SgBypass /\ t_bypass t <> GIdle 1 (Some true).
  Proof.
    intros Ng Hr. destruct T as [_ T0].
    assert (G0 : tget t g = g0 -> False) by (intro E; rewrite E in Hr; discriminate).
    destruct stg; cbn zeta in T0.
    - destruct T0 as [E _]. exfalso. apply G0. rewrite E. destruct g; reflexivity.
    - destruct T0 as (_ & Ep & Ec & Eo & Ed & _). exfalso. destruct g; cbn [tget] in G0; auto.
    - destruct T0 as (Nb & _). repeat split; try discriminate. now apply not_taken_not_taken in Nb.
    - destruct T0 as (Nb & _). repeat split; try discriminate. now apply not_taken_not_taken in Nb.
    - destruct T0 as (Nb & _). repeat split; try discriminate. now apply not_taken_not_taken in Nb.
    - destruct T0 as (Nb & _). repeat split; try discriminate. now apply not_taken_not_taken in Nb.
    - destruct T0 as [(_ & Ep & Ec & Eo & Ed & _)|(Nb & _)].
      + exfalso. destruct g; cbn [tget] in G0; auto.
      + repeat split; try discriminate. now apply not_taken_not_taken in Nb.
  Qed.

  Lemma tab_bypass_idle_unless_bypass : stg <> SgBypass -> g_is_idle (t_bypass t) = true.
  Proof.
    intro N. destruct T as [_ T0]. destruct stg; cbn zeta in T0; try contradiction.
    - destruct T0 as [-> _]. reflexivity.
    - destruct T0 as (Nb & _). eapply not_taken_idle; eauto.
    - destruct T0 as (Nb & _). eapply not_taken_idle; eauto.
    - destruct T0 as (Nb & _). eapply not_taken_idle; eauto.
    - destruct T0 as (Nb & _). eapply not_taken_idle; eauto.
    - destruct T0 as [(-> & _)|(Nb & _)]; [reflexivity|eapply not_taken_idle; eauto].
  Qed.

  Lemma tab_bypass_op ors may dst d op x owed :
    (may = true -> allowed stg th t GBypass) ->
    g_apply ors may dst d (tget t GBypass) op = Some (x, owed) -> stg = SgBypass.
  Proof.
    intros Hm Ha. destruct (stage_eq_dec stg SgBypass) as [E|N]; [exact E|exfalso].
    pose proof (tab_bypass_idle_unless_bypass N) as Hi.
    destruct (Hm (op_on_idle _ _ _ _ _ _ _ _ Ha Hi)) as [Q _]. contradiction.
  Qed.
End TabFacts.
