(* C06Proofs - the property theorems in the form props/C06.v states them. *)
From Coq Require Import Lia.
From Coercion.Base Require Import Plan.
From Coercion.Engine Require Import Shape Event PlanSM Auto Accept AutoLemmas.
From Coercion.C06 Require Import MonC06 MonC06Facts RelBlock.

Lemma gating sh tr s :
  shape_wf sh = true -> run sh init tr = Some s -> mon_gate (sh, tr) = true.
Proof. intros _. apply gating_all_scopes. Qed.

Lemma mfold_app sh sc tr1 tr2 m :
  mfold sh sc m (tr1 ++ tr2) = match mfold sh sc m tr1 with Some m1 => mfold sh sc m1 tr2 | None => None end.
Proof. revert m; induction tr1 as [|e tr IH]; intro m; simpl; auto. destruct (mstep sh sc m e); auto. Qed.

Lemma gating_scope sh tr s sc :
  shape_wf sh = true -> run sh init tr = Some s -> In sc (scopes sh) ->
  exists m, mfold sh sc (m_init sh sc) tr = Some m.
Proof.
  intros W H Hs. pose proof (gating sh tr s W H) as G. unfold mon_gate in G. cbn [fst snd] in G.
  rewrite forallb_forall in G. specialize (G sc Hs). unfold mon_gate_scope in G.
  destruct (mfold sh sc (m_init sh sc) tr) as [m|]; [eauto|discriminate].
Qed.

Lemma gating_at_release sh tr fin s sc :
  shape_wf sh = true -> run sh init (tr ++ [EvRelease fin]) = Some s -> In sc (scopes sh) ->
  exists m, mfold sh sc (m_init sh sc) tr = Some m /\
    let st := fin_st fin (scope_obj sc) in
    (passed m = true -> st = Completed) /\
    (passed m = false -> gate_failed m = true -> st = Failed) /\
    (passed m = false -> st = Failed -> cause sh (fin_st fin) sc = true) /\
    (passed m = false -> st = Completed -> work sh (fin_st fin) sc = true) /\
    (ran_any m = true -> st = Completed \/ st = Failed).
Proof.
  intros W H Hs. destruct (gating_scope _ _ _ _ W H Hs) as [m' Hm]. rewrite mfold_app in Hm.
  destruct (mfold sh sc (m_init sh sc) tr) as [m|] eqn:E; [|discriminate]. exists m. split; [reflexivity|].
  simpl in Hm. destruct (mstep sh sc m (EvRelease fin)) as [m1|] eqn:E1; [|discriminate].
  exact (released_verdict _ _ _ _ _ E1).
Qed.

Lemma gating_never sh tr s sc :
  shape_wf sh = true -> run sh init tr = Some s -> In sc (scopes sh) ->
  exists m, mfold sh sc (m_init sh sc) tr = Some m /\
    (gate_open m = false -> forall a, In (EvStart a) tr -> in_scope sc a = true -> is_seq a = false).
Proof.
  intros W H Hs. destruct (gating_scope _ _ _ _ W H Hs) as [m Hm]. exists m. split; [exact Hm|].
  intro G. eapply gate_never; eauto.
Qed.

Lemma gating_silence sh tr1 tr2 s sc m1 :
  shape_wf sh = true -> run sh init (tr1 ++ tr2) = Some s -> In sc (scopes sh) ->
  mfold sh sc (m_init sh sc) tr1 = Some m1 -> passed m1 = true ->
  forall a, (In (EvStart a) tr2 \/ exists o, In (EvEnd a o) tr2) -> in_scope sc a = false.
Proof.
  intros W H Hs H1 P. destruct (gating_scope _ _ _ _ W H Hs) as [m Hm]. rewrite mfold_app, H1 in Hm.
  eapply bypass_silences; eauto.
Qed.
