(* Rel - generic facts relating the monitor state of a scope (MonC06.mst) to the group table of that scope:
   used by the plan-scope and block-scope product relations. *)
From Coq Require Import Lia.
From Coercion.Base Require Import Plan.
From Coercion.Engine Require Import Shape Event Action ChecksRun Seq Block Final PlanSM Auto Accept AutoLemmas.
From Coercion.C06 Require Import MonC06 Groups Steps Tab Inv.

(* the monitor's flags against the three groups it watches *)
Definition flags_rel (size : grp -> nat) (t : gtab) (m : mst) : Prop :=
  gfl (size GBypass) (t_bypass t) (m_byp m) /\ gfl (size GPre) (t_pre t) (m_pre m)
  /\ gfl (size GCont) (t_cont t) (m_cont m).

(* m' has the flags of m after operation op on group g *)
Definition flags_after (g : grp) (op : gop) (m m' : mst) : Prop :=
  m_byp m' = (match g with GBypass => fl_after (m_byp m) op | _ => m_byp m end)
  /\ m_pre m' = (match g with GPre => fl_after (m_pre m) op | _ => m_pre m end)
  /\ m_cont m' = (match g with GCont => fl_after (m_cont m) op | _ => m_cont m end).

Lemma flags_rel_op size t m m' g ors may dst d op x owed :
  flags_rel size t m -> gimg (tget t g) dst ->
  (forall rs, ors = Some rs -> length rs = size g) ->
  (may = true -> g_runs (tget t g) = 0 \/ g_dead (tget t g) = false) ->
  g_apply ors may dst d (tget t g) op = Some (x, owed) ->
  flags_after g op m m' -> flags_rel size (tset t g x) m'.
Proof.
  intros (Fb & Fp & Fc) I Hn M H (Eb & Ep & Ec).
  unfold flags_rel. rewrite Eb, Ep, Ec.
  destruct g; cbn [tset tget t_bypass t_pre t_cont] in *; refine (conj _ (conj _ _)); try assumption;
    eapply g_apply_gfl; eauto.
Qed.

Lemma flags_same g op m : (forall i o, op <> OpEnd i o) -> flags_after g op m m.
Proof.
  intro N. unfold flags_after.
  assert (E : forall fl, fl_after fl op = fl) by (intro fl; destruct op; try reflexivity; now elim (N i o)).
  destruct g; rewrite ?E; auto.
Qed.

Lemma flags_end_fail g i o m : outcome_ok o = false -> flags_after g (OpEnd i o) m m.
Proof. intro F. unfold flags_after, fl_after. rewrite F. destruct g; auto. Qed.

(* ---- reading the flags ---- *)
Definition mpassed (fl : list bool) : bool := nonempty fl && all_true fl.

Lemma passed_is m : passed m = mpassed (m_byp m).
Proof. reflexivity. Qed.

Lemma all_true_repeat_false' n : all_true (repeat false n) = true -> n = 0.
Proof. destruct n; [reflexivity|discriminate]. Qed.

(* the bypass passed: every action of its open run has returned ok, or the run is closed with verdict ok *)
Lemma passed_state n gb fl :
  gfl n gb fl -> gonce gb -> mpassed fl = true ->
  (exists acts, gb = GRun 0 acts /\ fl = map okish acts) \/ gb = GIdle 1 (Some true).
Proof.
  intros [L F] O P. unfold mpassed in P. apply andb_true_iff in P as [Ne At].
  destruct gb as [[|[|r]] [v|]|[|r] acts]; simpl in O, F; try contradiction.
  - subst fl. apply all_true_repeat_false' in At. subst n. discriminate Ne.
  - destruct F as [-> _]. right. now rewrite At.
  - left. exists acts. split; [reflexivity|apply F].
Qed.

Lemma not_taken_not_passed p n gb fl : gfl n gb fl -> not_taken p gb -> mpassed fl = false.
Proof.
  intros [L F] N. unfold mpassed, not_taken in *. destruct p; subst gb; simpl in F.
  - destruct F as [E _]. rewrite <- E. apply andb_false_r.
  - subst fl. destruct n; reflexivity.
Qed.

Lemma taken_passed n fl : gfl n (GIdle 1 (Some true)) fl -> mpassed fl = true.
Proof.
  intros [L [E Z]]. unfold mpassed. rewrite <- E, andb_true_r. destruct fl; [simpl in L; lia|reflexivity].
Qed.

Lemma closed_ok_all_true p n g fl : closed_ok p g -> gfl n g fl -> (p = false -> n = 0) -> all_true fl = true.
Proof.
  intros C [L F] Hn. unfold closed_ok in C. destruct p; subst g; simpl in F.
  - destruct F as [E _]. now rewrite <- E.
  - rewrite (Hn eq_refl) in F. subst fl. reflexivity.
Qed.

Lemma cont_ok_all_true n g fl : cont_ok g -> gfl n g fl -> all_true fl = true.
Proof.
  intros [R N] [L F]. destruct g as [[|[|r]] [v|]|[|r] acts]; simpl in R, F; try contradiction; try lia.
  - destruct F as [E _]. destruct v; [now rewrite <- E|now elim N].
  - apply F.
  - apply F.
Qed.

Lemma absent_all_true n fl : gfl n g0 fl -> n = 0 -> all_true fl = true.
Proof. intros [L F] ->. simpl in F. subst fl. reflexivity. Qed.

(* a closed once-group that failed: its flags are not all true *)
Lemma closed_false_flags n fl : gfl n (GIdle 1 (Some false)) fl -> all_true fl = false.
Proof. intros [L [E _]]. now rewrite <- E. Qed.

(* a passing bypass group takes no Start and no End *)
Lemma okish_no_start a d : okish a = true -> a_start a d = None.
Proof. destruct a; simpl; try discriminate; auto. Qed.
Lemma okish_no_end a o : okish a = true -> a_end a o = None.
Proof. destruct a; simpl; try discriminate; auto. Qed.

Lemma all_true_nth l i x : all_true l = true -> nth_error l i = Some x -> x = true.
Proof. intros A E. exact (forallb_nth _ _ _ _ A E). Qed.

Lemma passed_no_plugin_op n gb fl ors may dst d op x owed :
  gfl n gb fl -> gonce gb -> mpassed fl = true ->
  g_apply ors may dst d gb op = Some (x, owed) ->
  (forall i, op <> OpStart i) /\ (forall i o, op <> OpEnd i o).
Proof.
  intros F O P H. pose proof P as P0. unfold mpassed in P. apply andb_true_iff in P as [_ At].
  destruct (passed_state _ _ _ F O P0) as [(acts & -> & Efl)| ->].
  - split.
    + intros i ->. cbn [g_apply] in H. destruct (g_start (GRun 0 acts) i d) as [y|] eqn:E; [|discriminate].
      destruct (g_start_spec _ _ _ _ E) as (r0 & l0 & a & a' & E0 & Ea & _ & Pa). injection E0 as <- <-.
      assert (Ok : okish a = true).
      { apply (all_true_nth (map okish acts) i); [now rewrite <- Efl|]. now rewrite nth_error_map, Ea. }
      rewrite (okish_no_start _ _ Ok) in Pa. discriminate.
    + intros i o ->. cbn [g_apply] in H. destruct (g_end (GRun 0 acts) i o) as [y|] eqn:E; [|discriminate].
      destruct (g_end_spec _ _ _ _ E) as (r0 & l0 & a & a' & E0 & Ea & _ & Pa). injection E0 as <- <-.
      assert (Ok : okish a = true).
      { apply (all_true_nth (map okish acts) i); [now rewrite <- Efl|]. now rewrite nth_error_map, Ea. }
      rewrite (okish_no_end _ _ Ok) in Pa. discriminate.
  - split; intros; intros ->; cbn [g_apply] in H; simpl in H; discriminate.
Qed.
