(* RelPlan - the product relation automaton x monitor for the PLAN scope. *)
From Coq Require Import Lia.
From Coercion.Base Require Import Plan.
From Coercion.Engine Require Import Shape Event Action ChecksRun Seq Block Final PlanSM Auto Accept AutoLemmas.
From Coercion.C06 Require Import MonC06 Groups Steps Tab Inv FinalFacts InvPlan Rel Objs.

Definition psize (sh : shape) (g : grp) : nat := group_size sh SPlan g.

Record rplan (sh : shape) (s : st) (m : mst) : Prop := {
  rp_flags : flags_rel (psize sh) (s_g s) m;
  rp_pran : m_pran m = true -> t_pre (s_g s) <> g0;
  rp_cran : m_cran m = true -> t_cont (s_g s) <> g0;
  rp_other : m_other m = true -> pstage (s_ph s) <> SgInit /\ pstage (s_ph s) <> SgBypass /\ ~ ptaken s;
  rp_late_a : forall a, In a (s_late s) ->
              pstage (s_ph s) = SgInit \/ pstage (s_ph s) = SgBypass \/ ptaken s -> exists i, a = AChk SPlan GBypass i;
  rp_late_b : forall i, In (AChk SPlan GBypass i) (s_late s) ->
              nth_error (m_byp m) i = Some false /\ quiet_at (t_bypass (s_g s)) i /\ t_bypass (s_g s) <> g0 }.

Lemma psize_spec sh g rs : grp_get (sh_groups sh) g = Some rs -> length rs = psize sh g.
Proof. unfold psize, group_size, group_of. simpl. now intros ->. Qed.

Lemma psize_absent sh g : ppres sh g = false -> psize sh g = 0.
Proof.
  unfold ppres, present, psize, group_size, group_of. simpl. destruct (grp_get (sh_groups sh) g); [discriminate|reflexivity].
Qed.

(* the table when the bypass group is passing / has passed *)
Lemma tab_passing pres stg t th :
  tab pres stg t th ->
  (exists acts, t_bypass t = GRun 0 acts) \/ t_bypass t = GIdle 1 (Some true) ->
  (stg = SgBypass \/ stg = SgEnd) /\ t_pre t = g0 /\ t_cont t = g0 /\ t_post t = g0 /\ t_deferred t = g0.
Proof.
  intros [A T] Hb.
  assert (N : forall p, not_taken p (t_bypass t) -> False).
  { intros p Nt. unfold not_taken in Nt. destruct Hb as [[acts E]|E]; rewrite E in Nt; destruct p; discriminate. }
  destruct stg; cbn zeta in T.
  - destruct T as [-> _]. destruct Hb as [[acts E]|E]; discriminate.
  - destruct T as (_ & Ep & Ec & Eo & Ed & _). auto 10.
  - destruct T as (Nb & _). now elim (N _ Nb).
  - destruct T as (Nb & _). now elim (N _ Nb).
  - destruct T as (Nb & _). now elim (N _ Nb).
  - destruct T as (Nb & _). now elim (N _ Nb).
  - destruct T as [(_ & Ep & Ec & Eo & Ed & _)|(Nb & _)]; [auto 10|now elim (N _ Nb)].
Qed.

Lemma remove_one_in a l l' : remove_one a l = Some l' -> In a l.
Proof.
  revert l'; induction l as [|y l IH]; simpl; intros l' H; [discriminate|].
  destruct (aref_eqb y a) eqn:E.
  - apply aref_eqb_eq in E. now left.
  - destruct (remove_one a l) as [r|]; [|discriminate]. right. eauto.
Qed.

Lemma owes_in l a : owes l a = false -> ~ In a l.
Proof.
  unfold owes. intros H Hin. assert (existsb (aref_eqb a) l = true); [|congruence].
  apply existsb_exists. exists a. split; auto. now apply aref_eqb_eq.
Qed.

Section PlanRel.
  Variable sh : shape.

  Lemma passed_plan_state s m :
    pinv sh s -> rplan sh s m -> passed m = true ->
    ((exists acts, t_bypass (s_g s) = GRun 0 acts) \/ t_bypass (s_g s) = GIdle 1 (Some true))
    /\ (s_ph s = PBypass \/ ended s) /\ t_pre (s_g s) = g0 /\ t_cont (s_g s) = g0
    /\ t_post (s_g s) = g0 /\ t_deferred (s_g s) = g0.
  Proof.
    intros P R Hp. destruct (rp_flags _ _ _ R) as (Fb & _ & _).
    assert (Ob : gonce (t_bypass (s_g s))).
    { destruct (pi_tab _ _ P) as [_ T]. destruct (pstage (s_ph s)); cbn zeta in T.
      - destruct T as [-> _]. exact I.
      - apply T.
      - destruct T as (Nb & _). unfold not_taken in Nb. destruct (ppres sh GBypass); rewrite Nb; exact I.
      - destruct T as (Nb & _). unfold not_taken in Nb. destruct (ppres sh GBypass); rewrite Nb; exact I.
      - destruct T as (Nb & _). unfold not_taken in Nb. destruct (ppres sh GBypass); rewrite Nb; exact I.
      - destruct T as (Nb & _). unfold not_taken in Nb. destruct (ppres sh GBypass); rewrite Nb; exact I.
      - destruct T as [(-> & _)|(Nb & _)]; [exact I|]. unfold not_taken in Nb. destruct (ppres sh GBypass); rewrite Nb; exact I. }
    assert (Hb : (exists acts, t_bypass (s_g s) = GRun 0 acts) \/ t_bypass (s_g s) = GIdle 1 (Some true)).
    { destruct (passed_state _ _ _ Fb Ob Hp) as [(acts & E & _)|E]; eauto. }
    destruct (tab_passing _ _ _ _ (pi_tab _ _ P) Hb) as (St & Ep & Ec & Eo & Ed).
    refine (conj Hb (conj _ (conj Ep (conj Ec (conj Eo Ed))))).
    unfold ended. destruct (s_ph s); cbn in St; destruct St as [Q|Q]; try discriminate Q; auto.
  Qed.

  (* once the bypass passed no plugin event of the plan is possible *)
  Lemma plan_silent s m e s' :
    pinv sh s -> rplan sh s m -> passed m = true -> handle sh s e = Some s' ->
    (forall a, e <> EvStart a) /\ (forall a o, e <> EvEnd a o).
  Proof.
    intros P R Hp H.
    destruct (passed_plan_state _ _ P R Hp) as (Hb & Phs & Ep & Ec & Eo & Ed).
    destruct (rp_flags _ _ _ R) as (Fb & _ & _).
    assert (NoBlock : forall b bs, cur_block sh s b = Some bs -> False).
    { intros b bs C. destruct (cur_block_spec _ _ _ _ C) as (Ph & _). unfold ended in Phs. rewrite Ph in Phs.
      destruct Phs as [Q|[Q|Q]]; discriminate. }
    destruct (handle_cases _ _ _ _ H) as
      [g op x owed Hc Ha _ U _|b bs g op x owed Hc Cb Ha _ U _|b bs q sq sq' owed Cb Hq Ht U _
      |b bs stt r -> Cb Hw U _|stt r -> Hw U Hr|a l -> Hl E1 E2 E3 E4 E5 E6 _ _ _|snap -> ->
      |fin -> Ph Tm Ag E1 E2 E3 E4 E5 E6 _ _]; try (split; intros; discriminate);
      try (exfalso; eapply NoBlock; eauto; fail).
    - (* a plan group *)
      assert (Ops : (forall i, op <> OpStart i) /\ (forall i o, op <> OpEnd i o)).
      { destruct g.
        - cbn [tget] in Ha. eapply passed_no_plugin_op; eauto.
          destruct Hb as [[acts ->]| ->]; exact I.
        - cbn [tget] in Ha. rewrite Ep in Ha. split; intros; intros ->; cbn [g_apply] in Ha; discriminate Ha.
        - cbn [tget] in Ha. rewrite Ec in Ha. split; intros; intros ->; cbn [g_apply] in Ha; discriminate Ha.
        - cbn [tget] in Ha. rewrite Eo in Ha. split; intros; intros ->; cbn [g_apply] in Ha; discriminate Ha.
        - cbn [tget] in Ha. rewrite Ed in Ha. split; intros; intros ->; cbn [g_apply] in Ha; discriminate Ha. }
      destruct Ops as [Os Oe]. split.
      + intros a ->. simpl in Hc. destruct a; [|discriminate]. injection Hc as _ _ <-. now elim (Os i).
      + intros a o ->. simpl in Hc. destruct a; [|discriminate]. injection Hc as _ _ <-. now elim (Oe i o).
    - (* a late End *)
      exfalso. pose proof (remove_one_in _ _ _ Hl) as Hin.
      assert (Prem : pstage (s_ph s) = SgInit \/ pstage (s_ph s) = SgBypass \/ ptaken s).
      { destruct Hb as [[acts E]|E].
        - destruct Phs as [Q|Q]; [rewrite Q; auto|]. exfalso.
          destruct (pi_tab _ _ P) as [_ T]. assert (St : pstage (s_ph s) = SgEnd) by (destruct Q as [-> | ->]; reflexivity).
          rewrite St in T. cbn zeta in T. destruct T as [(Q1 & _)|(Nb & _)]; [congruence|].
          unfold not_taken in Nb. rewrite E in Nb. destruct (ppres sh GBypass); discriminate.
        - right. right. exact E. }
      destruct (rp_late_a _ _ _ R a Hin Prem) as [i ->].
      destruct (rp_late_b _ _ _ R i Hin) as (Fl & _ & _).
      unfold passed in Hp. apply andb_true_iff in Hp as [_ At].
      pose proof (all_true_nth _ _ _ At Fl). discriminate.
  Qed.

  Lemma plan_bypass_gonce s : pinv sh s -> gonce (t_bypass (s_g s)).
  Proof.
    intro P. destruct (pi_tab _ _ P) as [_ T]. destruct (pstage (s_ph s)); cbn zeta in T.
    - destruct T as [-> _]. exact I.
    - apply T.
    - destruct T as (Nb & _). unfold not_taken in Nb. destruct (ppres sh GBypass); rewrite Nb; exact I.
    - destruct T as (Nb & _). unfold not_taken in Nb. destruct (ppres sh GBypass); rewrite Nb; exact I.
    - destruct T as (Nb & _). unfold not_taken in Nb. destruct (ppres sh GBypass); rewrite Nb; exact I.
    - destruct T as (Nb & _). unfold not_taken in Nb. destruct (ppres sh GBypass); rewrite Nb; exact I.
    - destruct T as [(-> & _)|(Nb & _)]; [exact I|]. unfold not_taken in Nb. destruct (ppres sh GBypass); rewrite Nb; exact I.
  Qed.

  (* in an entered plan (a stage after the bypass, bypass not taken) the bypass group is closed for good *)
  Lemma plan_entered_bypass_idle s :
    pinv sh s -> pstage (s_ph s) <> SgInit -> pstage (s_ph s) <> SgBypass -> ~ ptaken s ->
    not_taken (ppres sh GBypass) (t_bypass (s_g s)).
  Proof.
    intros P N1 N2 Nt. destruct (pi_tab _ _ P) as [_ T]. destruct (pstage (s_ph s)); cbn zeta in T; try contradiction;
      try (apply T). destruct T as [(E & _)|(Nb & _)]; [contradiction|exact Nb].
  Qed.

  (* a group other than the bypass runs only in an entered plan *)
  Lemma plan_group_running_entered s g :
    pinv sh s -> g <> GBypass -> g_is_idle (tget (s_g s) g) = false ->
    pstage (s_ph s) <> SgInit /\ pstage (s_ph s) <> SgBypass /\ ~ ptaken s.
  Proof.
    intros P Ng Hr. destruct (pi_tab _ _ P) as [_ T].
    assert (G0 : tget (s_g s) g = g0 -> False) by (intro E; rewrite E in Hr; discriminate).
    destruct (pstage (s_ph s)) eqn:St; cbn zeta in T.
    - destruct T as [E _]. exfalso. apply G0. rewrite E. destruct g; reflexivity.
    - destruct T as (_ & Ep & Ec & Eo & Ed & _). exfalso. destruct g; cbn [tget] in G0; auto.
    - destruct T as (Nb & _). repeat split; try discriminate. now apply not_taken_not_taken in Nb.
    - destruct T as (Nb & _). repeat split; try discriminate. now apply not_taken_not_taken in Nb.
    - destruct T as (Nb & _). repeat split; try discriminate. now apply not_taken_not_taken in Nb.
    - destruct T as (Nb & _). repeat split; try discriminate. now apply not_taken_not_taken in Nb.
    - destruct T as [(_ & Ep & Ec & Eo & Ed & _)|(Nb & _)].
      + exfalso. destruct g; cbn [tget] in G0; auto.
      + repeat split; try discriminate. now apply not_taken_not_taken in Nb.
  Qed.

  Lemma note_start_flags sc m a :
    m_byp (note_start sc m a) = m_byp m /\ m_pre (note_start sc m a) = m_pre m /\ m_cont (note_start sc m a) = m_cont m.
  Proof. unfold note_start. destruct (own_check sc a) as [[g i]|]; [destruct g|]; auto. Qed.

  Lemma late_after_false l e : late_after l e false = l.
  Proof. unfold late_after. destruct (ev_aref e); reflexivity. Qed.

  Definition op_idx (op : gop) (i : nat) : Prop :=
    match op with
    | OpMark j | OpStart j | OpEnd j _ | OpAttempt j _ _ | OpFinal j _ _ _ => i = j
    | OpVerdict _ => True
    end.

  Lemma chk_op_aref e sc g op a :
    chk_op e = Some (sc, g, op) -> ev_aref e = Some a -> exists i, a = AChk sc g i /\ op_idx op i.
  Proof.
    destruct e as [a0|a0 o|o stt n ok r|snap|fin]; simpl; try discriminate.
    - destruct a0; [|discriminate]. intros H E. injection H as <- <- <-. injection E as <-. simpl; eauto.
    - destruct a0; [|discriminate]. intros H E. injection H as <- <- <-. injection E as <-. simpl; eauto.
    - destruct o as [|sc' g'|b|b q|a0]; try discriminate.
      destruct a0 as [sc' g' i|]; [|discriminate]. intros H E. injection E as <-.
      destruct stt; try discriminate.
      + destruct n; [destruct ok; [discriminate|]|]; injection H as <- <- <-; simpl; eauto.
      + injection H as <- <- <-; simpl; eauto.
      + injection H as <- <- <-; simpl; eauto.
  Qed.

  Lemma chk_op_shape e sc g op :
    chk_op e = Some (sc, g, op) ->
    match op with
    | OpStart i => e = EvStart (AChk sc g i)
    | OpEnd i o => e = EvEnd (AChk sc g i) o
    | _ => exists o stt n ok r, e = EvWrite o stt n ok r
    end.
  Proof.
    destruct e as [a|a o|o stt n ok r|snap|fin]; simpl; try discriminate.
    - destruct a; [|discriminate]. intro H. injection H as <- <- <-. reflexivity.
    - destruct a; [|discriminate]. intro H. injection H as <- <- <-. reflexivity.
    - intro H. assert (W : exists o0 stt0 n0 ok0 r0, EvWrite o stt n ok r = EvWrite o0 stt0 n0 ok0 r0) by eauto 10.
      destruct o as [|sc' g'|b|b q|a]; try discriminate.
      + destruct stt; try discriminate; destruct n; try discriminate; destruct ok; try discriminate;
          injection H as _ _ <-; exact W.
      + destruct a as [sc' g' i|]; [|discriminate]. destruct stt; try discriminate.
        * destruct n; [destruct ok; [discriminate|]|]; injection H as _ _ <-; exact W.
        * injection H as _ _ <-; exact W.
        * injection H as _ _ <-; exact W.
  Qed.

  Lemma owed_running ors may dst d g op x : g_apply ors may dst d g op = Some (x, true) -> g_is_idle g = false.
  Proof.
    destruct op as [i|i|i o|i k ok|i st k ok|st]; simpl.
    - destruct ors; [|discriminate]. destruct (g_mark l may dst g i); discriminate.
    - destruct (g_start g i d); discriminate.
    - destruct (g_end g i o); discriminate.
    - destruct ors as [rs|]; [|discriminate]. intro H.
      destruct (g_attempt_spec _ _ _ _ _ _ _ H) as (r & acts & a & a' & -> & _). reflexivity.
    - destruct (g_final g i st k ok); discriminate.
    - destruct (g_verdict g st); discriminate.
  Qed.

  (* an operation on the plan's bypass group happens in the bypass stage *)
  Lemma plan_bypass_op_stage s d op x owed :
    pinv sh s ->
    g_apply (grp_get (sh_groups sh) GBypass) (p_may_start s GBypass) (ist (s_img s) (OChecks SPlan GBypass)) d
            (tget (s_g s) GBypass) op = Some (x, owed) ->
    pstage (s_ph s) = SgBypass.
  Proof.
    intros P Ha. destruct (pstage (s_ph s)) eqn:St; auto; exfalso;
      (assert (Hi : g_is_idle (tget (s_g s) GBypass) = true);
       [destruct (pi_tab _ _ P) as [_ T]; rewrite St in T; cbn zeta in T; cbn [tget]|
        pose proof (plan_not_idle _ _ _ _ _ _ _ Ha Hi) as Al; rewrite St in Al; destruct Al as [Q _]; discriminate Q]).
    - destruct T as [-> _]. reflexivity.
    - destruct T as (Nb & _). eapply not_taken_idle; eauto.
    - destruct T as (Nb & _). eapply not_taken_idle; eauto.
    - destruct T as (Nb & _). eapply not_taken_idle; eauto.
    - destruct T as (Nb & _). eapply not_taken_idle; eauto.
    - destruct T as [(-> & _)|(Nb & _)]; [reflexivity|eapply not_taken_idle; eauto].
  Qed.

  (* an operation on a group of the plan *)
  Lemma rplan_plan_chk s m e s' g op x owed :
    pinv sh s -> rplan sh s m -> handle sh s e = Some s' ->
    chk_op e = Some (SPlan, g, op) ->
    g_apply (grp_get (sh_groups sh) g) (p_may_start s g) (ist (s_img s) (OChecks SPlan g)) (ev_cell s e)
            (tget (s_g s) g) op = Some (x, owed) ->
    (forall a, e = EvStart a -> owes (s_late s) a = false) ->
    upd_spec s s' e (tset (s_g s) g x) (s_b s) owed ->
    exists m', mstep sh SPlan m e = Some m' /\ rplan sh s' m'.
  Proof.
    intros P R H Hc Ha Hs [Ui Up Ug Ut Uc Ub Ul Uf].
    pose proof R as [Rf Rp Rc Ro La Lb].
    assert (Hm : p_may_start s g = true -> allowed (pstage (s_ph s)) (s_thr s) (s_g s) g) by apply p_may_start_spec.
    assert (Xn : x <> g0) by (eapply g_apply_not_fresh; eauto).
    pose proof (chk_op_shape _ _ _ _ Hc) as Shape.
    (* the common part: any m' whose flags follow the operation and whose other facts are kept *)
    assert (Build : forall m',
              flags_after g op m m' ->
              (m_pran m' = true -> m_pran m = true \/ g = GPre) ->
              (m_cran m' = true -> m_cran m = true \/ g = GCont) ->
              (m_other m' = true -> m_other m = true \/ (g <> GBypass /\ g_is_idle (tget (s_g s) g) = false)) ->
              rplan sh s' m').
    { intros m' Fa Hp' Hc' Ho'.
      assert (Byp_entered : m_other m = true -> g <> GBypass).
      { intros Om ->. destruct (Ro Om) as (N1 & N2 & Nt). now pose proof (plan_bypass_op_stage _ _ _ _ _ P Ha). }
      assert (Prem_back : pstage (s_ph s) = SgInit \/ pstage (s_ph s) = SgBypass \/ t_bypass (tset (s_g s) g x) = GIdle 1 (Some true) ->
                          pstage (s_ph s) = SgInit \/ pstage (s_ph s) = SgBypass \/ ptaken s).
      { intros [Q|[Q|Q]]; auto. destruct g; cbn [tset t_bypass] in Q; auto.
        right. left. eapply plan_bypass_op_stage; eauto. }
      constructor; unfold ptaken; rewrite ?Up, ?Ug, ?Ul.
      - eapply flags_rel_op; eauto.
        + apply (pi_img _ _ P).
        + intros rs E. now apply psize_spec.
        + intro M. eapply allowed_may; eauto.
      - intro Q. destruct (Hp' Q) as [Q1| ->]; [|cbn [tset t_pre]; exact Xn].
        destruct g; cbn [tset t_pre]; auto.
      - intro Q. destruct (Hc' Q) as [Q1| ->]; [|cbn [tset t_cont]; exact Xn].
        destruct g; cbn [tset t_cont]; auto.
      - intro Q. destruct (Ho' Q) as [Q1|[Ng Hr]].
        + destruct (Ro Q1) as (N1 & N2 & Nt). pose proof (Byp_entered Q1) as Ng.
          refine (conj N1 (conj N2 _)). destruct g; cbn [tset t_bypass]; auto; now elim Ng.
        + destruct (plan_group_running_entered _ _ P Ng Hr) as (N1 & N2 & Nt).
          refine (conj N1 (conj N2 _)). destruct g; cbn [tset t_bypass]; auto; now elim Ng.
      - (* late: only bypass actions before the plan is entered *)
        intros a Hin Prem. pose proof (Prem_back Prem) as Prem0.
        assert (New : forall i, owed = true -> a = AChk SPlan g i -> exists i0, a = AChk SPlan GBypass i0).
        { intros i Ow ->. subst owed. pose proof (owed_running _ _ _ _ _ _ _ Ha) as Hr.
          destruct (grp_eqb g GBypass) eqn:E.
          - apply grp_eqb_eq in E. subst g. eauto.
          - exfalso. assert (Ng : g <> GBypass) by (intro Q; subst g; discriminate E).
            destruct (plan_group_running_entered _ _ P Ng Hr) as (N1 & N2 & Nt).
            destruct Prem0 as [Q|[Q|Q]]; contradiction. }
        unfold late_after in Hin. destruct (ev_aref e) as [a0|] eqn:Ea; [|now apply La].
        destruct (chk_op_aref _ _ _ _ _ Hc Ea) as (i & -> & Ix).
        destruct owed; [|now apply La]. destruct Hin as [<-|Hin]; [eapply New; eauto|now apply La].
      - (* late: the owed bypass actions are quiet and their flag is false *)
        intros j Hin.
        assert (Old : In (AChk SPlan GBypass j) (s_late s) ->
                      nth_error (m_byp m') j = Some false /\ quiet_at (t_bypass (tset (s_g s) g x)) j
                      /\ t_bypass (tset (s_g s) g x) <> g0).
        { intro Hi. destruct (Lb j Hi) as (Fl & Qa & Ng0). destruct Fa as (Eb & _ & _).
          destruct g; cbn [tset t_bypass]; rewrite Eb; auto.
          cbn [tget] in Ha.
          assert (NS : forall i0, op = OpStart i0 -> i0 <> j).
          { intros i0 ->. cbn in Shape. subst e. pose proof (owes_in _ _ (Hs _ eq_refl)) as Ni.
            intros ->. now apply Ni. }
          destruct (g_apply_quiet _ _ _ _ _ _ _ _ j (pi_img _ _ P GBypass) (plan_bypass_gonce _ P) Qa NS Ng0 Ha) as [Q1 Q2].
          refine (conj _ (conj Q1 Xn)).
          unfold fl_after. destruct op as [i0|i0|i0 o|i0 k ok|i0 st k ok|st]; auto.
          destruct (outcome_ok o); auto. rewrite nth_upd_other; auto. intros ->. now elim (Q2 o). }
        unfold late_after in Hin. destruct (ev_aref e) as [a0|] eqn:Ea; [|now apply Old].
        destruct (chk_op_aref _ _ _ _ _ Hc Ea) as (i & -> & Ix).
        destruct owed eqn:Ow; [|now apply Old]. destruct Hin as [Q|Hin]; [|now apply Old].
        injection Q as -> ->. cbn [tget] in Ha. destruct Rf as (Fb & _ & _).
        destruct (g_apply_owed _ _ _ _ _ _ _ _ _ (plan_bypass_gonce _ P) Fb Ha) as (i0 & k & ok & -> & Fl & Qa).
        cbn in Shape. destruct Fa as (Eb & _ & _). cbn [tset t_bypass]. rewrite Eb. cbn [fl_after].
        cbn in Ix. subst i0.
        exact (conj Fl (conj Qa Xn)). }
    assert (Pm : (exists a, e = EvStart a) \/ (exists a o, e = EvEnd a o) -> passed m = false).
    { intro He. destruct (passed m) eqn:Pm; auto. exfalso.
      destruct (plan_silent _ _ _ _ P R Pm H) as [N1 N2]. destruct He as [[a ->]|(a & o & ->)]; [now elim (N1 a)|now elim (N2 a o)]. }
    destruct op as [i|i|i o|i k ok|i st k ok|st].
    - (* a write that marks *) destruct Shape as (o & stt & n & ok' & r & ->). exists m. split; [reflexivity|].
      apply Build; auto. apply flags_same. discriminate.
    - (* Start *) subst e. unfold mstep, mstep_d. cbn [in_scope negb]. rewrite (Pm (or_introl (ex_intro _ _ eq_refl))).
      cbn [is_seq andb]. eexists. split; [reflexivity|].
      destruct (note_start_flags SPlan m (AChk SPlan g i)) as (E1 & E2 & E3).
      apply Build.
      + unfold flags_after. cbn [fl_after]. rewrite E1, E2, E3. destruct g; auto.
      + unfold note_start. cbn [own_check scope_eqb]. destruct g; cbn; auto.
      + unfold note_start. cbn [own_check scope_eqb]. destruct g; cbn; auto.
      + unfold note_start. cbn [own_check scope_eqb]. intro Q.
        assert (Hr : g_is_idle (tget (s_g s) g) = false).
        { cbn [g_apply] in Ha. destruct (g_start (tget (s_g s) g) i (ev_cell s (EvStart (AChk SPlan g i)))) as [y|] eqn:E; [|discriminate].
          destruct (g_start_spec _ _ _ _ E) as (r0 & l0 & a & a' & -> & _). reflexivity. }
        destruct g; cbn in Q; auto; right; (split; [discriminate|exact Hr]).
    - (* End *) subst e. unfold mstep, mstep_d. cbn [in_scope negb].
      rewrite (Pm (or_intror (ex_intro _ _ (ex_intro _ _ eq_refl)))).
      destruct (outcome_ok o) eqn:Ok; cbn [negb].
      + assert (Ne : passed (note_ok SPlan m (AChk SPlan g i)) && m_other (note_ok SPlan m (AChk SPlan g i)) = false).
        { destruct (m_other (note_ok SPlan m (AChk SPlan g i))) eqn:Om; [|apply andb_false_r]. rewrite andb_true_r.
          assert (Om0 : m_other m = true) by (unfold note_ok in Om; cbn [own_check scope_eqb] in Om; destruct g; exact Om).
          destruct (Ro Om0) as (N1 & N2 & Nt).
          assert (Ng : g <> GBypass) by (intros ->; now pose proof (plan_bypass_op_stage _ _ _ _ _ P Ha)).
          transitivity (passed m); [|exact (Pm (or_intror (ex_intro _ _ (ex_intro _ _ eq_refl))))].
          unfold passed, note_ok. cbn [own_check scope_eqb]. destruct g; try reflexivity. now elim Ng. }
        rewrite Ne. eexists. split; [reflexivity|]. apply Build.
        * unfold flags_after, note_ok. cbn [own_check scope_eqb fl_after]. rewrite Ok. destruct g; cbn; auto.
        * unfold note_ok. cbn [own_check scope_eqb]. destruct g; cbn; auto.
        * unfold note_ok. cbn [own_check scope_eqb]. destruct g; cbn; auto.
        * unfold note_ok. cbn [own_check scope_eqb]. destruct g; cbn; auto.
      + exists m. split; [reflexivity|]. apply Build; auto. now apply flags_end_fail.
    - destruct Shape as (o & stt & n & ok' & r & ->). exists m. split; [reflexivity|].
      apply Build; auto. apply flags_same. discriminate.
    - destruct Shape as (o & stt & n & ok' & r & ->). exists m. split; [reflexivity|].
      apply Build; auto. apply flags_same. discriminate.
    - destruct Shape as (o & stt & n & ok' & r & ->). exists m. split; [reflexivity|].
      apply Build; auto. apply flags_same. discriminate.
  Qed.

  (* rplan reads s_g, s_ph and the late list only *)
  Lemma rplan_same s s' m :
    s_g s' = s_g s -> pstage (s_ph s') = pstage (s_ph s) -> (forall a, In a (s_late s') -> In a (s_late s)) ->
    rplan sh s m -> rplan sh s' m.
  Proof.
    intros E1 E2 E3 [Rf Rp Rc Ro La Lb]. constructor; unfold ptaken in *; rewrite ?E1, ?E2; auto.
  Qed.

  (* while the blocks run the bypass did not pass and the gate is open *)
  Lemma plan_in_blocks s m :
    pinv sh s -> rplan sh s m -> s_ph s = PBlocks ->
    passed m = false /\ gate_open m = true /\ ~ ptaken s.
  Proof.
    intros P R Ph. destruct (pi_tab _ _ P) as [A T]. rewrite Ph in T. cbn [pstage] in T. cbn zeta in T.
    destruct T as (Nb & Cp & Lc & _). destruct (rp_flags _ _ _ R) as (Fb & Fp & Fc).
    refine (conj (not_taken_not_passed _ _ _ _ Fb Nb) (conj _ (not_taken_not_taken _ _ Nb))).
    unfold gate_open. rewrite (closed_ok_all_true _ _ _ _ Cp Fp (psize_absent sh GPre)). simpl.
    unfold cont_live in Lc. destruct (ppres sh GCont) eqn:Pc.
    - destruct Lc as [Ok _]. eapply cont_ok_all_true; eauto.
    - destruct Lc as [E _]. rewrite E in Fc. eapply absent_all_true; eauto. now apply psize_absent.
  Qed.

  (* an event inside the current block *)
  Lemma rplan_in_block s m e s' b bs b' owed :
    pinv sh s -> rplan sh s m -> cur_block sh s b = Some bs ->
    upd_spec s s' e (s_g s) b' owed ->
    (forall a, ev_aref e = Some a -> in_scope (SBlock b) a = true) ->
    (forall fin, e <> EvRelease fin) ->
    exists m', mstep sh SPlan m e = Some m' /\ rplan sh s' m'.
  Proof.
    intros P R Cb [Ui Up Ug Ut Uc Ub Ul Uf] Hsc He.
    destruct (cur_block_spec _ _ _ _ Cb) as (Ph & _ & _).
    destruct (plan_in_blocks _ _ P R Ph) as (Pm & Go & Nt).
    assert (Keep : forall m', m_byp m' = m_byp m -> m_pre m' = m_pre m -> m_cont m' = m_cont m ->
                   m_pran m' = m_pran m -> m_cran m' = m_cran m -> rplan sh s' m').
    { intros m' E1 E2 E3 E4 E5. destruct R as [Rf Rp Rc Ro La Lb].
      constructor; unfold ptaken in *; rewrite ?Ug, ?Up, ?Ul, ?E4, ?E5; auto.
      - unfold flags_rel in *. now rewrite E1, E2, E3.
      - intros _. rewrite Ph. cbn. repeat split; try discriminate. exact Nt.
      - intros a _ [Q|[Q|Q]]; [rewrite Ph in Q; discriminate|rewrite Ph in Q; discriminate|contradiction].
      - intros j Hin. rewrite E1. apply Lb. unfold late_after in Hin.
        destruct (ev_aref e) as [a0|] eqn:Ea; auto. destruct owed; auto. destruct Hin as [Q|Hin]; auto.
        subst a0. specialize (Hsc _ eq_refl). discriminate Hsc. }
    destruct e as [a|a o|o stt n ok r|snap|fin].
    - unfold mstep, mstep_d. cbn [in_scope negb]. rewrite Pm, Go. cbn [negb andb]. rewrite andb_false_r.
      eexists. split; [reflexivity|]. specialize (Hsc a eq_refl).
      assert (Oc : own_check SPlan a = None) by (destruct a as [[|b0] g i|]; try reflexivity; discriminate Hsc).
      unfold note_start. rewrite Oc. apply Keep; reflexivity.
    - unfold mstep, mstep_d. cbn [in_scope negb]. rewrite Pm. specialize (Hsc a eq_refl).
      assert (Oc : own_check SPlan a = None) by (destruct a as [[|b0] g i|]; try reflexivity; discriminate Hsc).
      destruct (outcome_ok o); cbn [negb].
      + unfold note_ok. rewrite Oc. rewrite Pm. cbn [andb]. eexists. split; [reflexivity|]. apply Keep; reflexivity.
      + eexists. split; [reflexivity|]. apply Keep; reflexivity.
    - exists m. split; [reflexivity|]. apply Keep; reflexivity.
    - exists m. split; [reflexivity|]. apply Keep; reflexivity.
    - now elim (He fin).
  Qed.

  (* ---- the release ---- *)
  Lemma dead_failed g dst : gimg g dst -> g_dead g = true -> dst = Failed.
  Proof. destruct g as [[|r] [[|]|]|]; simpl; try discriminate; try contradiction; auto. Qed.

  Lemma gpresent_ppres g : gpresent sh g = ppres sh g.
  Proof. reflexivity. Qed.
  Lemma has_ppres g : has sh SPlan g = ppres sh g.
  Proof. reflexivity. Qed.

  Lemma plan_release s m :
    pinv sh s -> rplan sh s m -> s_ph s = PEnd -> is_terminal (ist (s_img s) OPlan) = true ->
    final_code sh (ist (s_img s)) SPlan m = 0.
  Proof.
    intros P R Ph Tm. pose proof P as [P1 P2 P3 P4 P4' P5 P6 P7 P8 P9 P10 P11].
    pose proof R as [(Fb & Fp & Fc) Rp Rc Ro La Lb].
    assert (En : ended s) by now left.
    pose proof (P8 En Tm) as Fin. set (f := ist (s_img s)) in *.
    destruct P2 as [A T]. rewrite Ph in T. cbn [pstage] in T. cbn zeta in T.
    unfold final_code. cbn [scope_obj]. fold f. rewrite Fin.
    destruct T as [(Eb & Ep & Ec & Eo & Ed & Et)|(Nb & Cp & Lc & Io & Id)].
    - (* bypassed *)
      rewrite Eb in Fb. rewrite (taken_passed _ _ Fb : passed m = true).
      assert (Pb : ppres sh GBypass = true).
      { destruct (ppres sh GBypass) eqn:Q; auto. pose proof (A GBypass Q) as Z. cbn [tget] in Z. rewrite Eb in Z. discriminate. }
      rewrite (final_taken sh f); auto. pose proof (P1 GBypass) as Ig. cbn [tget] in Ig. rewrite Eb in Ig. exact Ig.
    - rewrite (not_taken_not_passed _ _ _ _ Fb Nb : passed m = false).
      assert (NB : not_bypassed sh f).
      { unfold not_bypassed. rewrite gpresent_ppres. unfold not_taken in Nb. destruct (ppres sh GBypass); [right|now left].
        pose proof (P1 GBypass) as Ig. cbn [tget] in Ig. rewrite Nb in Ig. simpl in Ig. rewrite Ig. discriminate. }
      assert (Nl : s_thr s <> TLive) by now apply P3.
      (* 5: a failed gate fails the plan *)
      assert (C5 : gate_failed m = true -> fst (final sh f) = Failed).
      { intro Gf. apply final_gate; auto. unfold gate_failed in Gf. apply orb_true_iff in Gf as [Gf|Gf];
          apply andb_true_iff in Gf as [Rn Na]; apply negb_true_iff in Na.
        - left. rewrite gpresent_ppres. specialize (Rp Rn). unfold closed in Cp. destruct (ppres sh GPre); [|contradiction].
          destruct Cp as [v E]. split; auto. rewrite E in Fp. destruct Fp as [_ [Ev _]].
          pose proof (P1 GPre) as Ig. cbn [tget] in Ig. rewrite E in Ig. simpl in Ig. rewrite Ig.
          rewrite Ev, Na. reflexivity.
        - right. rewrite gpresent_ppres. specialize (Rc Rn). unfold cont_late in Lc. destruct (ppres sh GCont); [|destruct Lc; contradiction].
          split; auto. destruct Lc as (Rr & Hn & Hd).
          assert (Hi : g_is_idle (t_cont (s_g s)) = true).
          { destruct (s_thr s); [destruct (Hn eq_refl) as [v ->]; reflexivity|now elim Nl|now apply Hd]. }
          pose proof (P1 GCont) as Ig. cbn [tget] in Ig.
          destruct (t_cont (s_g s)) as [[|[|r]] [v|]|]; simpl in Rr, Ig, Fc; try discriminate Hi; try contradiction; try lia.
          + destruct Fc as [_ [Ev _]]. rewrite Ig, Ev, Na. reflexivity.
          + destruct Fc as [_ [Ev _]]. congruence. }
      (* 6 / 7 *)
      assert (Nt : ~ ptaken s) by (unfold ptaken; now apply not_taken_not_taken in Nb).
      destruct (P7 (or_intror En) Nt) as [Bad|(F1 & F2 & F3 & F4 & F5 & F6)].
      + (* something failed: that is a cause *)
        assert (Cz : cause sh f SPlan = true).
        { unfold cause. apply orb_true_iff. destruct Bad as [(g & In0 & Pg & D0)|(b & Hb & Fbk)].
          - left. apply existsb_exists. exists g. split; [exact In0|]. unfold grp_failed. rewrite has_ppres, Pg.
            simpl. rewrite (dead_failed _ _ (P1 g) D0). reflexivity.
          - right. apply existsb_exists. exists b. split; [apply in_seq; unfold MonC06.nblocks; unfold Inv.nblocks in Hb; lia|].
            unfold f. rewrite Fbk. reflexivity. }
        rewrite Cz. cbn [negb andb]. rewrite (andb_false_r (status_eqb (fst (final sh f)) Failed)).
        destruct (final_status sh f) as [E|E]; rewrite E; cbn [status_eqb andb negb].
        * (* Completed while something failed is impossible: final reads the same image *)
          exfalso. destruct (final_completed sh f NB E) as (G1 & G2 & G3 & G4 & G5).
          destruct Bad as [(g & In0 & Pg & D0)|(b & Hb & Fbk)].
          -- assert (Fg : fine sh f g) by (destruct In0 as [<-|[<-|[<-|[<-|[]]]]]; assumption).
             destruct Fg as [Q|Q]; [rewrite gpresent_ppres in Q; congruence|].
             rewrite (dead_failed _ _ (P1 g) D0) in Q. discriminate.
          -- unfold Inv.nblocks in Hb. pose proof (G5 b Hb) as Q. unfold f in Q. rewrite Q in Fbk. discriminate.
        * rewrite andb_false_r. unfold is_done. cbn. rewrite andb_false_r. reflexivity.
      + (* everything fine: the plan is Completed and did its work *)
        assert (Fine : forall g p gs, closed_ok p gs -> p = ppres sh g -> gs = tget (s_g s) g -> fine sh f g).
        { intros g p gs C -> ->. unfold fine. rewrite gpresent_ppres. unfold closed_ok in C. destruct (ppres sh g); [right|now left].
          pose proof (P1 g) as Ig. rewrite C in Ig. exact Ig. }
        assert (E : fst (final sh f) = Completed).
        { apply final_fine; auto.
          - exact (Fine GPre _ _ F1 eq_refl eq_refl).
          - unfold fine. rewrite gpresent_ppres. destruct (ppres sh GCont) eqn:Pc; [right|now left].
            destruct (F2 eq_refl) as [r Er]. pose proof (P1 GCont) as Ig. cbn [tget] in Ig. rewrite Er in Ig. exact Ig.
          - exact (Fine GPost _ _ F3 eq_refl eq_refl).
          - refine (Fine GDeferred _ _ (F5 _) eq_refl eq_refl). rewrite Ph; discriminate. }
        assert (Gf : gate_failed m = false).
        { destruct (gate_failed m) eqn:Gf; auto. rewrite (C5 eq_refl) in E. discriminate. }
        rewrite E, Gf. cbn [status_eqb andb].
        destruct (final_completed sh f NB E) as (G1 & G2 & G3 & G4 & G5).
        assert (W : work sh f SPlan = true).
        { unfold work. apply andb_true_iff. split.
          - apply forallb_forall. intros g In0. unfold grp_fine. rewrite has_ppres.
            assert (Fg : fine sh f g) by (destruct In0 as [<-|[<-|[<-|[<-|[]]]]]; assumption).
            destruct Fg as [Q|Q]; [rewrite gpresent_ppres in Q; rewrite Q; reflexivity|].
            rewrite Q. simpl. apply orb_true_r.
          - apply forallb_forall. intros b Hb. apply in_seq in Hb. rewrite G5; [reflexivity|]. unfold MonC06.nblocks in Hb. lia. }
        rewrite W. cbn [negb andb]. unfold is_done. cbn. rewrite andb_false_r. reflexivity.
  Qed.

  (* what an epsilon-move of the plan does to the groups the monitor watches *)
  Ltac shape_done Ph :=
    cbn; rewrite ?Ph; cbn;
    refine (conj eq_refl (conj eq_refl (conj eq_refl (conj (or_introl eq_refl) (conj _ _)))));
    [let Q := fresh "Q" in let Q' := fresh "Q" in intros Q Q'; try (now elim Q); try (now elim Q'); split; discriminate
    |let Q := fresh "Q" in intros [Q|Q]; try discriminate Q; auto].

  Lemma p_eps_shape s s1 :
    pinv sh s -> eps sh s = Some s1 ->
    s_late s1 = s_late s /\ t_bypass (s_g s1) = t_bypass (s_g s) /\ t_pre (s_g s1) = t_pre (s_g s)
    /\ (t_cont (s_g s1) = t_cont (s_g s)
        \/ exists r acts, t_cont (s_g s) = GRun (S r) acts /\ t_cont (s_g s1) = GIdle (S (S r)) (Some true))
    /\ (pstage (s_ph s) <> SgInit -> pstage (s_ph s) <> SgBypass ->
        pstage (s_ph s1) <> SgInit /\ pstage (s_ph s1) <> SgBypass)
    /\ (pstage (s_ph s1) = SgInit \/ pstage (s_ph s1) = SgBypass ->
        pstage (s_ph s) = SgInit \/ pstage (s_ph s) = SgBypass).
  Proof.
    intros P H. pose proof P as [P1 P2 P3 P4 P4' P5 P6 P7 P8 P9 P10 P11].
    assert (OD : forall g x v, gonce (tget (s_g s) g) ->
              once_done (ppres sh g) (tget (s_g s) g) (ist (s_img s) (OChecks SPlan g)) = Some (x, v) ->
              x = tget (s_g s) g).
    { intros g x v O Hd. destruct (ppres sh g) eqn:Pg.
      - destruct (once_done_gonce _ _ _ _ (P1 g) O Hd) as [E ->]. auto.
      - destruct (once_done_absent _ _ _ _ Hd) as [-> ->]. auto. }
    assert (Settle : forall x, g_settle (t_cont (s_g s)) (ist (s_img s) (OChecks SPlan GCont)) = Some x ->
              x = t_cont (s_g s) \/ exists r acts, t_cont (s_g s) = GRun (S r) acts /\ x = GIdle (S (S r)) (Some true)).
    { intros x Gs. destruct (g_settle_spec _ _ _ (P1 GCont) Gs) as [[_ ->]|(r & acts & E & -> & _)]; [now left|right; eauto]. }
    unfold eps, p_eps in H. destruct (s_ph s) eqn:Ph; cbn [pstage] in *.
    - destruct (status_eqb (ist (s_img s) OPlan) Running); [|discriminate]. injection H as <-. shape_done Ph.
    - destruct P2 as [A (Ob & _)]. destruct (g_bypass (sh_groups sh)) as [rs|] eqn:Gb.
      + assert (Pb : ppres sh GBypass = true) by (unfold ppres; cbn; now rewrite Gb).
        destruct (once_done true (t_bypass (s_g s)) (ist (s_img s) (OChecks SPlan GBypass))) as [[x v]|] eqn:Od; [|discriminate].
        rewrite <- Pb in Od. pose proof (OD GBypass x v Ob Od) as ->. cbn [tget] in H. rewrite tset_same_b in H.
        destruct v; injection H as <-; shape_done Ph.
      + injection H as <-. shape_done Ph.
    - destruct P2 as [A (Nb & Op & Oc & _)].
      change (present (g_pre (sh_groups sh))) with (ppres sh GPre) in H.
      change (present (g_cont (sh_groups sh))) with (ppres sh GCont) in H.
      destruct (once_done (ppres sh GPre) (t_pre (s_g s)) (ist (s_img s) (OChecks SPlan GPre))) as [[x v1]|] eqn:O1; [|discriminate].
      destruct (once_done (ppres sh GCont) (t_cont (s_g s)) (ist (s_img s) (OChecks SPlan GCont))) as [[y v2]|] eqn:O2; [|discriminate].
      pose proof (OD GPre x v1 Op O1) as ->. pose proof (OD GCont y v2 Oc O2) as ->. cbn [tget] in H.
      rewrite tset_same_p, tset_same_c in H.
      destruct (v1 && v2); injection H as <-.
      + destruct (enter_block_fields sh (with_thr (with_g s (s_g s)) (if ppres sh GCont then TLive else TNone)) 0)
          as (F1 & F2 & F3 & F4 & F5 & F6).
        unfold enter_block. destruct (block_of sh 0); shape_done Ph.
      + shape_done Ph.
    - destruct (block_of sh (s_cb s)) as [bs|] eqn:Hb.
      + destruct (b_eps bs (s_img s) (s_cb s) (p_visible s) (s_b s)) as [[b'|[|]]|]; try discriminate; injection H as <-.
        * shape_done Ph.
        * shape_done Ph.
        * unfold enter_block. destruct (block_of sh (S (s_cb s))); shape_done Ph.
      + injection H as <-. shape_done Ph.
    - destruct P2 as [A (Nb & Cp & Lc & Oo & Ed)]. destruct (thr_live (s_thr s)).
      + destruct (g_settle (t_cont (s_g s)) (ist (s_img s) (OChecks SPlan GCont))) as [x|] eqn:Gs; [|discriminate].
        pose proof (Settle x eq_refl) as Sx.
        destruct (g_dead x); injection H as <-; cbn; rewrite ?Ph; cbn;
          (refine (conj eq_refl (conj eq_refl (conj eq_refl (conj Sx (conj _ _))))); [intros; split; discriminate|intros [Q|Q]; discriminate]).
      + change (present (g_post (sh_groups sh))) with (ppres sh GPost) in H.
        destruct (once_done (ppres sh GPost) (t_post (s_g s)) (ist (s_img s) (OChecks SPlan GPost))) as [[x v]|] eqn:O1; [|discriminate].
        pose proof (OD GPost x v Oo O1) as ->. cbn [tget] in H. rewrite tset_same_o in H. injection H as <-.
        shape_done Ph.
    - destruct P2 as [A (Nb & Cp & Lc & Io & Od)]. destruct (thr_live (s_thr s)).
      + destruct (g_settle (t_cont (s_g s)) (ist (s_img s) (OChecks SPlan GCont))) as [x|] eqn:Gs; [|discriminate].
        pose proof (Settle x eq_refl) as Sx. injection H as <-. cbn. rewrite Ph. cbn.
        refine (conj eq_refl (conj eq_refl (conj eq_refl (conj Sx (conj _ _))))); [intros; split; discriminate|intros [Q|Q]; discriminate].
      + change (present (g_deferred (sh_groups sh))) with (ppres sh GDeferred) in H.
        destruct (once_done (ppres sh GDeferred) (t_deferred (s_g s)) (ist (s_img s) (OChecks SPlan GDeferred))) as [[x v]|] eqn:O1; [|discriminate].
        pose proof (OD GDeferred x v Od O1) as ->. cbn [tget] in H. rewrite tset_same_d in H. injection H as <-.
        shape_done Ph.
    - discriminate.
    - discriminate.
  Qed.

  Lemma rplan_eps s s1 m : pinv sh s -> rplan sh s m -> eps sh s = Some s1 -> rplan sh s1 m.
  Proof.
    intros P [(Fb & Fp & Fc) Rp Rc Ro La Lb] H.
    destruct (p_eps_shape _ _ P H) as (El & Eb & Ep & Ec & Fw & Bw).
    constructor; unfold ptaken; rewrite ?El, ?Eb, ?Ep.
    - unfold flags_rel. rewrite Eb, Ep. refine (conj Fb (conj Fp _)).
      destruct Ec as [-> |(r & acts & E0 & ->)]; [exact Fc|]. rewrite E0 in Fc.
      destruct Fc as [L (La' & T & Z)]. split; [exact L|]. simpl. auto.
    - exact Rp.
    - intro Q. specialize (Rc Q). destruct Ec as [-> |(r & acts & E0 & ->)]; [exact Rc|discriminate].
    - intro Q. destruct (Ro Q) as (N1 & N2 & Nt). destruct (Fw N1 N2) as [M1 M2]. auto.
    - intros a Hin [Q|[Q|Q]]; apply La; auto.
      + destruct (Bw (or_introl Q)); auto.
      + destruct (Bw (or_intror Q)); auto.
    - exact Lb.
  Qed.

  Lemma seq_trans_aref bs b e bi q sq sq' a :
    seq_trans bs b e bi q sq sq' -> ev_aref e = Some a -> in_scope (SBlock bi) a = true.
  Proof.
    intros [r -> _ _|st r v -> ->|j a0 x i Ha _ _] E; try discriminate E.
    rewrite Ha in E. injection E as <-. simpl. apply Nat.eqb_refl.
  Qed.

  Lemma seq_trans_not_release bs b e bi q sq sq' fin : seq_trans bs b e bi q sq sq' -> e <> EvRelease fin.
  Proof. intros [r -> _ _|st r v -> ->|j a0 x i Ha _ _]; try discriminate. intros ->. discriminate Ha. Qed.

  (* every handler is matched by a monitor step *)
  Lemma rplan_handle s m e s' :
    pinv sh s -> rplan sh s m -> handle sh s e = Some s' ->
    exists m', mstep sh SPlan m e = Some m' /\ rplan sh s' m'.
  Proof.
    intros P R H.
    destruct (handle_cases _ _ _ _ H) as
      [g op x owed Hc Ha Hs U _|b bs g op x owed Hc Cb Ha _ U _|b bs q sq sq' owed Cb Hq Ht U _
      |b bs stt r -> Cb Hw U _|stt r -> Hw U Hr|a l -> Hl E1 E2 E3 E4 E5 E6 E7 _ _|snap -> ->
      |fin -> Ph Tm Ag E1 E2 E3 E4 E5 E6 E7 _].
    - eapply rplan_plan_chk; eauto.
    - eapply rplan_in_block; eauto.
      + intros a Ea. destruct (chk_op_aref _ _ _ _ _ Hc Ea) as (i & -> & _). simpl. apply Nat.eqb_refl.
      + intros fin ->. discriminate Hc.
    - eapply rplan_in_block; eauto.
      + intros a Ea. eapply seq_trans_aref; eauto.
      + intro fin. eapply seq_trans_not_release; eauto.
    - eapply rplan_in_block; eauto; [intros a Ea; discriminate Ea|discriminate].
    - exists m. split; [reflexivity|]. destruct U as [Ui Up Ug Ut Uc Ub Ul Uf].
      eapply rplan_same; eauto; [now rewrite Up|]. rewrite Ul. cbn. auto.
    - (* a late End *)
      assert (Pm : passed m = false).
      { destruct (passed m) eqn:Pm; auto. exfalso. destruct (plan_silent _ _ _ _ P R Pm H) as [_ N]. now elim (N a OOverrun). }
      exists m. split; [unfold mstep, mstep_d; cbn [in_scope negb]; rewrite Pm; reflexivity|].
      eapply rplan_same; eauto; [now rewrite E2|]. rewrite E7. eapply remove_one_incl; eauto.
    - exists m. split; [reflexivity|exact R].
    - (* the release *)
      assert (Fc : final_code sh (fin_st fin) SPlan m = 0).
      { rewrite (final_code_ext sh (fin_st fin) (ist (s_img s))).
        - apply plan_release; auto.
        - intros o Ho. eapply agrees_st; eauto.
        - unfold scopes. now left. }
      exists m. split; [unfold mstep, mstep_d; rewrite Fc; reflexivity|].
      eapply rplan_same; eauto. rewrite E2, Ph. reflexivity. rewrite E7. auto.
  Qed.

  Lemma rplan_stutter s m e :
    stutter sh s e = true -> exists m', mstep sh SPlan m e = Some m' /\ m' = m.
  Proof.
    destruct e as [a|a o|o stt n ok r|snap|fin]; simpl; try discriminate. intros _. exists m. auto.
  Qed.

  Lemma rplan_init : rplan sh init (m_init sh SPlan).
  Proof.
    constructor; cbn.
    - unfold flags_rel, psize. cbn. repeat split; try apply repeat_length; reflexivity.
    - discriminate.
    - discriminate.
    - discriminate.
    - intros a [].
    - intros i [].
  Qed.

  (* THE PLAN SCOPE: every accepted trace satisfies the monitor of the plan scope *)
  Theorem plan_scope_holds tr s :
    run sh init tr = Some s -> mon_gate_scope sh SPlan tr = true.
  Proof.
    intro H.
    destruct (product_run mst (mstep sh SPlan) sh (fun s m => pinv sh s /\ rplan sh s m)) with (tr := tr) (s := init)
      (m := m_init sh SPlan) (s' := s) as (m' & Hm & _).
    - intros s0 m0 s1 [P R] E. split; [eapply pinv_eps; eauto|eapply rplan_eps; eauto].
    - intros s0 m0 e s1 [P R] E. destruct (rplan_handle _ _ _ _ P R E) as (m1 & M1 & R1).
      exists m1. split; [exact M1|]. split; [eapply pinv_handle; eauto|exact R1].
    - intros s0 m0 e [P R] E. destruct (rplan_stutter s0 m0 e E) as (m1 & M1 & ->). exists m0. auto.
    - split; [apply pinv_init|apply rplan_init].
    - exact H.
    - unfold mon_gate_scope.
      assert (E : forall m tr, mfold sh SPlan m tr = mrun mst (mstep sh SPlan) m tr).
      { intros m0 tr0. revert m0. induction tr0 as [|e tr0 IH]; intro m0; simpl; auto.
        destruct (mstep sh SPlan m0 e); auto. }
      rewrite E, Hm. reflexivity.
  Qed.
End PlanRel.
