(* Objs - the released image agrees with the durable image on every object of the shape, hence the verdict
   clauses of the monitor can be evaluated on the durable image. *)
From Coq Require Import Lia.
From Coercion.Base Require Import Plan.
From Coercion.Engine Require Import Shape Event Action ChecksRun Seq Block Final PlanSM Auto Accept AutoLemmas.
From Coercion.C06 Require Import MonC06.

Lemma agrees_st objs im r fin o :
  image_agrees objs im r fin = true -> In o objs -> fin_st fin o = ist im o.
Proof.
  unfold image_agrees. intros H Hin. apply andb_true_iff in H as [_ H].
  rewrite forallb_forall in H. specialize (H o Hin). unfold fin_st, ist.
  destruct (im_lookup fin o) as [c|]; [|discriminate].
  unfold cell_eqb in H. apply andb_true_iff in H as [H _]. apply andb_true_iff in H as [H _].
  apply status_eqb_eq in H. simpl in H. now symmetry.
Qed.

Lemma in_group_objs sc gs g rs : grp_get gs g = Some rs -> In (OChecks sc g) (group_objs sc gs).
Proof.
  intro H. unfold group_objs. apply in_flat_map. exists g. split.
  - destruct g; simpl; auto 6.
  - rewrite H. now left.
Qed.

Lemma in_seqs_objs b q0 qs q : q < length qs -> In (OSeq b (q0 + q)) (seqs_objs b q0 qs).
Proof.
  revert q0 q; induction qs as [|rs qs IH]; intros q0 q H; simpl in *; [lia|].
  destruct q as [|q].
  - left. f_equal. lia.
  - right. apply in_or_app. right. replace (q0 + S q) with (S q0 + q) by lia. apply IH. lia.
Qed.

Lemma in_blocks_objs b0 bl b bs o :
  nth_error bl b = Some bs -> In o (block_objs (b0 + b) bs) -> In o (blocks_objs b0 bl).
Proof.
  revert b0 b; induction bl as [|x bl IH]; intros b0 b H Hin; destruct b as [|b]; cbn [blocks_objs nth_error] in *; try discriminate.
  - injection H as ->. apply in_or_app. left. now rewrite Nat.add_0_r in Hin.
  - apply in_or_app. right. apply (IH (S b0) b H). now replace (S b0 + b) with (b0 + S b) by lia.
Qed.

Section Objs.
  Variable sh : shape.

  Lemma in_all_plan : In OPlan (all_objs sh).
  Proof. now left. Qed.

  Lemma in_all_plan_group g rs : group_of sh SPlan g = Some rs -> In (OChecks SPlan g) (all_objs sh).
  Proof.
    unfold group_of. simpl. intro H. right. apply in_or_app. left. eapply in_group_objs; eauto.
  Qed.

  Lemma in_all_block b bs o : block_of sh b = Some bs -> In o (block_objs b bs) -> In o (all_objs sh).
  Proof.
    intros H Hin. right. apply in_or_app. right. eapply (in_blocks_objs 0); eauto.
  Qed.

  Lemma in_all_block_obj b bs : block_of sh b = Some bs -> In (OBlock b) (all_objs sh).
  Proof. intro H. eapply in_all_block; eauto. now left. Qed.

  Lemma in_all_block_group b bs g rs :
    block_of sh b = Some bs -> grp_get (bs_groups bs) g = Some rs -> In (OChecks (SBlock b) g) (all_objs sh).
  Proof.
    intros H G. eapply in_all_block; eauto. right. apply in_or_app. left. eapply in_group_objs; eauto.
  Qed.

  Lemma in_all_seq b bs q : block_of sh b = Some bs -> q < length (bs_seqs bs) -> In (OSeq b q) (all_objs sh).
  Proof.
    intros H L. eapply in_all_block; eauto. right. apply in_or_app. right. apply (in_seqs_objs b 0). exact L.
  Qed.

  (* ---- the verdict clauses read only objects of the shape ---- *)
  Variables f f' : obj -> status.
  Hypothesis agree : forall o, In o (all_objs sh) -> f o = f' o.

  Lemma grp_failed_ext sc g : (sc = SPlan \/ exists b bs, sc = SBlock b /\ block_of sh b = Some bs) ->
    grp_failed sh f sc g = grp_failed sh f' sc g.
  Proof.
    intro Hs. unfold grp_failed, has. destruct (group_of sh sc g) as [rs|] eqn:G; [|reflexivity]. simpl.
    rewrite agree; [reflexivity|]. destruct Hs as [-> |(b & bs & -> & Hb)].
    - eapply in_all_plan_group; eauto.
    - unfold group_of in G. simpl in G. rewrite Hb in G. simpl in G. eapply in_all_block_group; eauto.
  Qed.

  Lemma grp_fine_ext sc g : (sc = SPlan \/ exists b bs, sc = SBlock b /\ block_of sh b = Some bs) ->
    grp_fine sh f sc g = grp_fine sh f' sc g.
  Proof.
    intro Hs. unfold grp_fine, has. destruct (group_of sh sc g) as [rs|] eqn:G; [|reflexivity]. simpl.
    rewrite agree; [reflexivity|]. destruct Hs as [-> |(b & bs & -> & Hb)].
    - eapply in_all_plan_group; eauto.
    - unfold group_of in G. simpl in G. rewrite Hb in G. simpl in G. eapply in_all_block_group; eauto.
  Qed.

  Lemma existsb_ext' {A} (p q : A -> bool) l : (forall x, In x l -> p x = q x) -> existsb p l = existsb q l.
  Proof. induction l as [|x l IH]; simpl; auto. intro H. rewrite H by auto. rewrite IH; auto. Qed.
  Lemma forallb_ext' {A} (p q : A -> bool) l : (forall x, In x l -> p x = q x) -> forallb p l = forallb q l.
  Proof. induction l as [|x l IH]; simpl; auto. intro H. rewrite H by auto. rewrite IH; auto. Qed.
  Lemma filter_ext' {A} (p q : A -> bool) l : (forall x, In x l -> p x = q x) -> filter p l = filter q l.
  Proof. induction l as [|x l IH]; simpl; auto. intro H. rewrite H by auto. rewrite IH; auto. Qed.

  Lemma block_lt b : b < length (sh_blocks sh) -> exists bs, block_of sh b = Some bs.
  Proof. intro H. unfold block_of. destruct (nth_error (sh_blocks sh) b) eqn:E; eauto. apply nth_error_None in E. lia. Qed.

  Lemma cause_ext sc : In sc (scopes sh) -> cause sh f sc = cause sh f' sc.
  Proof.
    intro Hs. unfold scopes in Hs. destruct Hs as [<-|Hs].
    - unfold cause. f_equal.
      + apply existsb_ext'. intros g _. apply grp_failed_ext. now left.
      + apply existsb_ext'. intros b Hb. apply in_seq in Hb. destruct (block_lt b) as [bs Eb]; [unfold nblocks in Hb; lia|].
        rewrite agree; [reflexivity|]. eapply in_all_block_obj; eauto.
    - apply in_map_iff in Hs as (b & <- & Hb). apply in_seq in Hb. destruct (block_lt b) as [bs Eb]; [lia|].
      unfold cause. f_equal; [f_equal|].
      + apply existsb_ext'. intros g _. apply grp_failed_ext. right. eauto.
      + apply grp_failed_ext. now left.
      + unfold tol_exceeded. rewrite Eb. f_equal. f_equal. f_equal. unfold failed_seqs_of. f_equal.
        apply filter_ext'. intros q Hq. apply in_seq in Hq. unfold nseqs in Hq. rewrite Eb in Hq.
        rewrite agree; [reflexivity|]. eapply in_all_seq; eauto. lia.
  Qed.

  Lemma work_ext sc : In sc (scopes sh) -> work sh f sc = work sh f' sc.
  Proof.
    intro Hs. unfold scopes in Hs. destruct Hs as [<-|Hs].
    - unfold work. f_equal.
      + apply forallb_ext'. intros g _. apply grp_fine_ext. now left.
      + apply forallb_ext'. intros b Hb. apply in_seq in Hb. destruct (block_lt b) as [bs Eb]; [unfold nblocks in Hb; lia|].
        rewrite agree; [reflexivity|]. eapply in_all_block_obj; eauto.
    - apply in_map_iff in Hs as (b & <- & Hb). apply in_seq in Hb. destruct (block_lt b) as [bs Eb]; [lia|].
      unfold work. f_equal.
      + apply forallb_ext'. intros g _. apply grp_fine_ext. right. eauto.
      + apply forallb_ext'. intros q Hq. apply in_seq in Hq. unfold nseqs in Hq. rewrite Eb in Hq.
        rewrite agree; [reflexivity|]. eapply in_all_seq; eauto. lia.
  Qed.

  Lemma final_code_ext sc m : In sc (scopes sh) -> final_code sh f sc m = final_code sh f' sc m.
  Proof.
    intro Hs. unfold final_code. rewrite (cause_ext sc Hs), (work_ext sc Hs).
    assert (E : f (scope_obj sc) = f' (scope_obj sc)).
    { apply agree. unfold scopes in Hs. destruct Hs as [<-|Hs]; [apply in_all_plan|].
      apply in_map_iff in Hs as (b & <- & Hb). apply in_seq in Hb. destruct (block_lt b) as [bs Eb]; [lia|].
      simpl. eapply in_all_block_obj; eauto. }
    now rewrite E.
  Qed.
End Objs.
