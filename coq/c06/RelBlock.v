(* RelBlock - the product relation automaton x monitor for the scope of ONE BLOCK b. *)
From Coq Require Import Lia.
From Coercion.Base Require Import Plan.
From Coercion.Engine Require Import Shape Event Action ChecksRun Seq Block Final PlanSM Auto Accept AutoLemmas.
From Coercion.C06 Require Import MonC06 Groups Steps Tab Inv FinalFacts InvPlan Rel Objs TabFacts RelPlan.

Section BlockRel.
  Variable sh : shape.
  Variable b : nat.
  Variable bs : bshape.
  Hypothesis Hb : block_of sh b = Some bs.

  Let sc : scope := SBlock b.
  Definition bsize (g : grp) : nat := group_size sh (SBlock b) g.

  Lemma bsize_spec g rs : grp_get (bs_groups bs) g = Some rs -> length rs = bsize g.
  Proof. unfold bsize, group_size, group_of. simpl. rewrite Hb. simpl. now intros ->. Qed.

  Lemma bsize_absent g : bpres bs g = false -> bsize g = 0.
  Proof.
    unfold bpres, present, bsize, group_size, group_of. simpl. rewrite Hb. simpl.
    destruct (grp_get (bs_groups bs) g); [discriminate|reflexivity].
  Qed.

  Lemma bpres_none g : bpres bs g = false -> grp_get (bs_groups bs) g = None.
  Proof. unfold bpres, present. destruct (grp_get (bs_groups bs) g); [discriminate|reflexivity]. Qed.

  (* ---- the automaton is inside block b ---- *)
  Record rat (s : st) (m : mst) : Prop := {
    ra_ph : s_ph s = PBlocks;
    ra_cb : s_cb s = b;
    ra_flags : flags_rel bsize (b_g (s_b s)) m;
    ra_pran : m_pran m = true -> t_pre (b_g (s_b s)) <> g0;
    ra_cran : m_cran m = true -> t_cont (b_g (s_b s)) <> g0;
    ra_other : m_other m = true ->
               bstage (b_ph (s_b s)) <> SgInit /\ bstage (b_ph (s_b s)) <> SgBypass /\ ~ btaken (s_b s);
    ra_late_a : forall a, In a (s_late s) -> in_scope sc a = true ->
                bstage (b_ph (s_b s)) = SgInit \/ bstage (b_ph (s_b s)) = SgBypass \/ btaken (s_b s) ->
                exists i, a = AChk sc GBypass i;
    ra_late_b : forall i, In (AChk sc GBypass i) (s_late s) ->
                nth_error (m_byp m) i = Some false /\ quiet_at (t_bypass (b_g (s_b s))) i
                /\ t_bypass (b_g (s_b s)) <> g0 }.

  (* ---- block b has not been entered (yet, or ever) ---- *)
  Definition at_pos (s : st) : Prop := s_ph s = PBlocks /\ s_cb s = b.
  Definition pos_before (s : st) : Prop := ~ at_pos s.

  Record rbefore (s : st) (m : mst) : Prop := {
    rb_pos : pos_before s;
    rb_m : m = m_init sh sc;
    rb_late : forall a, In a (s_late s) -> in_scope sc a = false;
    rb_img : ist (s_img s) (OBlock b) = NotStarted }.

  (* ---- block b is over ---- *)
  Definition pos_after (s : st) : Prop :=
    (s_ph s = PBlocks /\ b < s_cb s) \/ ((s_ph s = PPost \/ s_ph s = PDeferred \/ ended s) /\ b <= s_cb s).

  Record rdone (s : st) (m : mst) : Prop := {
    rd_pos : pos_after s;
    rd_code : final_code sh (ist (s_img s)) sc m = 0;
    rd_late : passed m = true -> forall a, In a (s_late s) -> in_scope sc a = false }.

  Definition rblock (s : st) (m : mst) : Prop := rbefore s m \/ rat s m \/ rdone s m.

  Lemma at_binv s : pinv sh s -> s_ph s = PBlocks -> s_cb s = b ->
    binv bs (s_img s) b (g_dead (t_cont (s_g s))) (s_b s).
  Proof. intros P Ph Cb. pose proof (pi_block _ _ P Ph) as B. rewrite Cb, Hb in B. exact B. Qed.

  Lemma own_check_own g i : own_check sc (AChk sc g i) = Some (g, i).
  Proof. unfold own_check, sc. cbn. now rewrite Nat.eqb_refl. Qed.

  Lemma in_scope_own g i : in_scope sc (AChk sc g i) = true.
  Proof. unfold sc. cbn. apply Nat.eqb_refl. Qed.

  Lemma in_scope_spec a : in_scope sc a = true ->
    (exists g i, a = AChk sc g i) \/ (exists q i, a = ASeq b q i).
  Proof.
    unfold sc. destruct a as [[|b0] g i|b0 q i]; simpl; try discriminate.
    - intro E. apply Nat.eqb_eq in E. subst b0. left. eauto.
    - intro E. apply Nat.eqb_eq in E. subst b0. right. eauto.
  Qed.

  (* ---- facts of a state inside block b ---- *)
  Section At.
    Variables (s : st) (m : mst).
    Hypothesis P : pinv sh s.
    Hypothesis R : rat s m.

    Let B : binv bs (s_img s) b (g_dead (t_cont (s_g s))) (s_b s) := at_binv s P (ra_ph _ _ R) (ra_cb _ _ R).
    Let T := bi_tab _ _ _ _ _ B.

    Lemma at_cur : cur_block sh s b = Some bs.
    Proof. unfold cur_block. rewrite (ra_ph _ _ R), (ra_cb _ _ R). cbn. rewrite Nat.eqb_refl. exact Hb. Qed.

    Lemma at_cur_eq b0 bs0 : cur_block sh s b0 = Some bs0 -> b0 = b /\ bs0 = bs.
    Proof.
      intro C. destruct (cur_block_spec _ _ _ _ C) as (_ & E & Hb0). rewrite (ra_cb _ _ R) in E. subst b0.
      rewrite Hb in Hb0. injection Hb0 as <-. auto.
    Qed.

    Lemma at_passed_state :
      passed m = true ->
      ((exists acts, t_bypass (b_g (s_b s)) = GRun 0 acts) \/ btaken (s_b s))
      /\ (bstage (b_ph (s_b s)) = SgBypass \/ bstage (b_ph (s_b s)) = SgEnd)
      /\ t_pre (b_g (s_b s)) = g0 /\ t_cont (b_g (s_b s)) = g0 /\ t_post (b_g (s_b s)) = g0
      /\ t_deferred (b_g (s_b s)) = g0
      /\ (bstage (b_ph (s_b s)) = SgBypass \/ btaken (s_b s)).
    Proof.
      intro Hp. destruct (ra_flags _ _ R) as (Fb & _ & _).
      assert (Hs : (exists acts, t_bypass (b_g (s_b s)) = GRun 0 acts) \/ t_bypass (b_g (s_b s)) = GIdle 1 (Some true)).
      { destruct (passed_state _ _ _ Fb (tab_bypass_gonce _ _ _ _ T) Hp) as [(acts & E & _)|E]; eauto. }
      destruct (tab_passing _ _ _ _ T Hs) as (St & Ep & Ec & Eo & Ed).
      refine (conj Hs (conj St (conj Ep (conj Ec (conj Eo (conj Ed _)))))).
      destruct Hs as [[acts E]|E]; [|now right]. left. destruct St as [Q|Q]; auto. exfalso.
      destruct T as [_ T0]. rewrite Q in T0. cbn zeta in T0. destruct T0 as [(Q1 & _)|(Nb & _)]; [congruence|].
      unfold not_taken in Nb. rewrite E in Nb. destruct (bpres bs GBypass); discriminate.
    Qed.

    (* once the bypass passed no plugin event of the block is possible *)
    Lemma at_silent e s' :
      passed m = true -> handle sh s e = Some s' ->
      (forall a, e = EvStart a -> in_scope sc a = false) /\ (forall a o, e = EvEnd a o -> in_scope sc a = false).
    Proof.
      intros Hp H. destruct (at_passed_state Hp) as (Hs & St & Ep & Ec & Eo & Ed & Prem).
      destruct (ra_flags _ _ R) as (Fb & _ & _).
      destruct (handle_cases _ _ _ _ H) as
        [g op x owed Hc Ha _ U _|b0 bs0 g op x owed Hc Cb Ha _ U _|b0 bs0 q sq sq' owed Cb Hq Ht U _
        |b0 bs0 stt r -> Cb Hw U _|stt r -> Hw U Hr|a l -> Hl E1 E2 E3 E4 E5 E6 _ _ _|snap -> ->
        |fin -> Ph Tm Ag E1 E2 E3 E4 E5 E6 _ _]; try (split; intros; discriminate).
      - (* a plan group: not of this scope *)
        pose proof (chk_op_shape _ _ _ _ Hc) as Shape. split.
        + intros a ->. simpl in Hc. destruct a as [[|b1] g1 i1|]; try discriminate Hc. reflexivity.
        + intros a o ->. simpl in Hc. destruct a as [[|b1] g1 i1|]; try discriminate Hc. reflexivity.
      - (* a group of this block *)
        destruct (at_cur_eq _ _ Cb) as [-> ->].
        assert (Ops : (forall i, op <> OpStart i) /\ (forall i o, op <> OpEnd i o)).
        { destruct g; cbn [tget] in Ha.
          - eapply passed_no_plugin_op; eauto. apply (tab_bypass_gonce _ _ _ _ T).
          - rewrite Ep in Ha. split; intros; intros ->; cbn [g_apply] in Ha; discriminate Ha.
          - rewrite Ec in Ha. split; intros; intros ->; cbn [g_apply] in Ha; discriminate Ha.
          - rewrite Eo in Ha. split; intros; intros ->; cbn [g_apply] in Ha; discriminate Ha.
          - rewrite Ed in Ha. split; intros; intros ->; cbn [g_apply] in Ha; discriminate Ha. }
        destruct Ops as [Os Oe]. pose proof (chk_op_shape _ _ _ _ Hc) as Shape. split.
        + intros a ->. exfalso. simpl in Hc. destruct a; [|discriminate]. injection Hc as _ _ <-. now elim (Os i).
        + intros a o ->. exfalso. simpl in Hc. destruct a; [|discriminate]. injection Hc as _ _ <-. now elim (Oe i o).
      - (* a sequence of this block: they are at rest *)
        destruct (at_cur_eq _ _ Cb) as [-> ->].
        assert (Ne : bstage (b_ph (s_b s)) <> SgBody) by (destruct St as [Q|Q]; rewrite Q; discriminate).
        pose proof (forallb_nth _ _ _ _ (bi_rest _ _ _ _ _ B Ne) Hq) as Rest.
        destruct Ht as [r -> _ _|st r v -> ->|j a0 x0 i Ha0 _ _]; try (split; intros; discriminate).
      - (* a late End *)
        split; [intros; discriminate|]. intros a0 o Q. injection Q as <- <-.
        destruct (in_scope sc a) eqn:Isc; auto. exfalso.
        pose proof (remove_one_in _ _ _ Hl) as Hin.
        assert (Prem' : bstage (b_ph (s_b s)) = SgInit \/ bstage (b_ph (s_b s)) = SgBypass \/ btaken (s_b s))
          by (destruct Prem; auto).
        destruct (ra_late_a _ _ R a Hin Isc Prem') as [i ->].
        destruct (ra_late_b _ _ R i Hin) as (Fl & _ & _).
        unfold passed in Hp. apply andb_true_iff in Hp as [_ At].
        pose proof (all_true_nth _ _ _ At Fl). discriminate.
    Qed.
  End At.

  (* an operation on a check group of block b *)
  Lemma rat_block_chk s m e s' g op x owed :
    pinv sh s -> rat s m -> handle sh s e = Some s' ->
    chk_op e = Some (sc, g, op) ->
    g_apply (grp_get (bs_groups bs) g) (b_may_start (s_b s) g) (ist (s_img s) (OChecks sc g)) (ev_cell s e)
            (tget (b_g (s_b s)) g) op = Some (x, owed) ->
    (forall a, e = EvStart a -> owes (s_late s) a = false) ->
    upd_spec s s' e (s_g s) (b_with_g (s_b s) (tset (b_g (s_b s)) g x)) owed ->
    exists m', mstep sh sc m e = Some m' /\ rat s' m'.
  Proof.
    intros P R H Hc Ha Hs [Ui Up Ug Ut Uc Ub Ul Uf].
    pose proof R as [Rph Rcb Rf Rp Rc Ro La Lb].
    pose proof (at_binv s P Rph Rcb) as B. pose proof (bi_tab _ _ _ _ _ B) as T.
    set (bt := s_b s) in *.
    assert (Hm : b_may_start bt g = true -> allowed (bstage (b_ph bt)) (b_thr bt) (b_g bt) g) by apply b_may_start_spec.
    assert (Xn : x <> g0) by (eapply g_apply_not_fresh; eauto).
    pose proof (chk_op_shape _ _ _ _ Hc) as Shape.
    assert (BypStage : g = GBypass -> bstage (b_ph bt) = SgBypass).
    { intros ->. eapply tab_bypass_op; eauto. }
    assert (Build : forall m',
              flags_after g op m m' ->
              (m_pran m' = true -> m_pran m = true \/ g = GPre) ->
              (m_cran m' = true -> m_cran m = true \/ g = GCont) ->
              (m_other m' = true -> m_other m = true \/ (g <> GBypass /\ g_is_idle (tget (b_g bt) g) = false)) ->
              rat s' m').
    { intros m' Fa Hp' Hc' Ho'.
      assert (Byp_entered : m_other m = true -> g <> GBypass).
      { intros Om Eg. destruct (Ro Om) as (N1 & N2 & Nt). now pose proof (BypStage Eg). }
      assert (Prem_back : bstage (b_ph bt) = SgInit \/ bstage (b_ph bt) = SgBypass \/ t_bypass (tset (b_g bt) g x) = GIdle 1 (Some true) ->
                          bstage (b_ph bt) = SgInit \/ bstage (b_ph bt) = SgBypass \/ btaken bt).
      { intros [Q|[Q|Q]]; auto. destruct g; cbn [tset t_bypass] in Q; auto; right; left; now apply BypStage. }
      constructor; unfold btaken; rewrite ?Up, ?Uc, ?Ub, ?Ul; cbn [b_g b_ph b_with_g]; auto.
      - eapply flags_rel_op; eauto.
        + apply (bi_img _ _ _ _ _ B).
        + intros rs E. now apply bsize_spec.
        + intro M. eapply allowed_may; eauto.
      - intro Q. destruct (Hp' Q) as [Q1| ->]; [|cbn [tset t_pre]; exact Xn].
        destruct g; cbn [tset t_pre]; auto.
      - intro Q. destruct (Hc' Q) as [Q1| ->]; [|cbn [tset t_cont]; exact Xn].
        destruct g; cbn [tset t_cont]; auto.
      - intro Q. destruct (Ho' Q) as [Q1|[Ng Hr]].
        + destruct (Ro Q1) as (N1 & N2 & Nt). pose proof (Byp_entered Q1) as Ng.
          refine (conj N1 (conj N2 _)). destruct g; cbn [tset t_bypass]; auto; now elim Ng.
        + destruct (tab_group_running _ _ _ _ T g Ng Hr) as (N1 & N2 & Nt).
          refine (conj N1 (conj N2 _)). destruct g; cbn [tset t_bypass]; auto; now elim Ng.
      - intros a Hin Isc Prem. pose proof (Prem_back Prem) as Prem0.
        assert (New : forall i, owed = true -> a = AChk sc g i -> exists i0, a = AChk sc GBypass i0).
        { intros i Ow ->. subst owed. pose proof (owed_running _ _ _ _ _ _ _ Ha) as Hr.
          destruct (grp_eqb g GBypass) eqn:E.
          - apply grp_eqb_eq in E. subst g. eauto.
          - exfalso. assert (Ng : g <> GBypass) by (intro Q; subst g; discriminate E).
            destruct (tab_group_running _ _ _ _ T g Ng Hr) as (N1 & N2 & Nt).
            destruct Prem0 as [Q|[Q|Q]]; contradiction. }
        unfold late_after in Hin. destruct (ev_aref e) as [a0|] eqn:Ea; [|now apply La].
        destruct (chk_op_aref _ _ _ _ _ Hc Ea) as (i & -> & Ix).
        destruct owed; [|now apply La]. destruct Hin as [<-|Hin]; [eapply New; eauto|now apply La].
      - intros j Hin.
        assert (Old : In (AChk sc GBypass j) (s_late s) ->
                      nth_error (m_byp m') j = Some false /\ quiet_at (t_bypass (tset (b_g bt) g x)) j
                      /\ t_bypass (tset (b_g bt) g x) <> g0).
        { intro Hi. destruct (Lb j Hi) as (Fl & Qa & Ng0). destruct Fa as (Eb & _ & _).
          destruct g; cbn [tset t_bypass]; rewrite Eb; auto.
          cbn [tget] in Ha.
          assert (NS : forall i0, op = OpStart i0 -> i0 <> j).
          { intros i0 ->. cbn in Shape. subst e. pose proof (owes_in _ _ (Hs _ eq_refl)) as Ni.
            intros ->. now apply Ni. }
          destruct (g_apply_quiet _ _ _ _ _ _ _ _ j (bi_img _ _ _ _ _ B GBypass) (tab_bypass_gonce _ _ _ _ T) Qa NS Ng0 Ha) as [Q1 Q2].
          refine (conj _ (conj Q1 Xn)).
          unfold fl_after. destruct op as [i0|i0|i0 o|i0 k ok|i0 st k ok|st]; auto.
          destruct (outcome_ok o); auto. rewrite nth_upd_other; auto. intros ->. now elim (Q2 o). }
        unfold late_after in Hin. destruct (ev_aref e) as [a0|] eqn:Ea; [|now apply Old].
        destruct (chk_op_aref _ _ _ _ _ Hc Ea) as (i & -> & Ix).
        destruct owed eqn:Ow; [|now apply Old]. destruct Hin as [Q|Hin]; [|now apply Old].
        injection Q as -> ->. cbn [tget] in Ha. destruct Rf as (Fb & _ & _).
        destruct (g_apply_owed _ _ _ _ _ _ _ _ _ (tab_bypass_gonce _ _ _ _ T) Fb Ha) as (i0 & k & ok & -> & Fl & Qa).
        cbn in Shape. destruct Fa as (Eb & _ & _). cbn [tset t_bypass]. rewrite Eb. cbn [fl_after].
        cbn in Ix. subst i0. exact (conj Fl (conj Qa Xn)). }
    assert (Pm : (exists a, e = EvStart a /\ in_scope sc a = true) \/ (exists a o, e = EvEnd a o /\ in_scope sc a = true) -> passed m = false).
    { intro He. destruct (passed m) eqn:Pm; auto. exfalso.
      destruct (at_silent _ _ P R _ _ Pm H) as [N1 N2].
      destruct He as [(a & -> & Isc)|(a & o & -> & Isc)]; [rewrite (N1 a eq_refl) in Isc|rewrite (N2 a o eq_refl) in Isc]; discriminate. }
    destruct op as [i|i|i o|i k ok|i st k ok|st].
    - destruct Shape as (o & stt & n & ok' & r & ->). exists m. split; [reflexivity|].
      apply Build; auto. apply flags_same. discriminate.
    - subst e. unfold mstep, mstep_d. rewrite in_scope_own. cbn [negb].
      rewrite (Pm (or_introl (ex_intro _ _ (conj eq_refl (in_scope_own g i))))).
      cbn [is_seq andb]. eexists. split; [reflexivity|].
      destruct (note_start_flags sc m (AChk sc g i)) as (E1 & E2 & E3).
      apply Build.
      + unfold flags_after. cbn [fl_after]. rewrite E1, E2, E3. destruct g; auto.
      + unfold note_start. rewrite own_check_own. destruct g; cbn; auto.
      + unfold note_start. rewrite own_check_own. destruct g; cbn; auto.
      + unfold note_start. rewrite own_check_own. intro Q.
        assert (Hr : g_is_idle (tget (b_g bt) g) = false).
        { cbn [g_apply] in Ha. destruct (g_start (tget (b_g bt) g) i (ev_cell s (EvStart (AChk sc g i)))) as [y|] eqn:E; [|discriminate].
          destruct (g_start_spec _ _ _ _ E) as (r0 & l0 & a & a' & -> & _). reflexivity. }
        destruct g; cbn in Q; auto; right; (split; [discriminate|exact Hr]).
    - subst e. unfold mstep, mstep_d. rewrite in_scope_own. cbn [negb].
      rewrite (Pm (or_intror (ex_intro _ _ (ex_intro _ _ (conj eq_refl (in_scope_own g i)))))).
      destruct (outcome_ok o) eqn:Ok; cbn [negb].
      + assert (Ne : passed (note_ok sc m (AChk sc g i)) && m_other (note_ok sc m (AChk sc g i)) = false).
        { destruct (m_other (note_ok sc m (AChk sc g i))) eqn:Om; [|apply andb_false_r]. rewrite andb_true_r.
          assert (Om0 : m_other m = true) by (unfold note_ok in Om; rewrite own_check_own in Om; destruct g; exact Om).
          destruct (Ro Om0) as (N1 & N2 & Nt).
          assert (Ng : g <> GBypass) by (intro Eg; now pose proof (BypStage Eg)).
          transitivity (passed m); [|exact (Pm (or_intror (ex_intro _ _ (ex_intro _ _ (conj eq_refl (in_scope_own g i))))))].
          unfold passed, note_ok. rewrite own_check_own. destruct g; try reflexivity. now elim Ng. }
        rewrite Ne. eexists. split; [reflexivity|]. apply Build.
        * unfold flags_after, note_ok. rewrite own_check_own. cbn [fl_after]. rewrite Ok. destruct g; cbn; auto.
        * unfold note_ok. rewrite own_check_own. destruct g; cbn; auto.
        * unfold note_ok. rewrite own_check_own. destruct g; cbn; auto.
        * unfold note_ok. rewrite own_check_own. destruct g; cbn; auto.
      + exists m. split; [reflexivity|]. apply Build; auto. now apply flags_end_fail.
    - destruct Shape as (o & stt & n & ok' & r & ->). exists m. split; [reflexivity|].
      apply Build; auto. apply flags_same. discriminate.
    - destruct Shape as (o & stt & n & ok' & r & ->). exists m. split; [reflexivity|].
      apply Build; auto. apply flags_same. discriminate.
    - destruct Shape as (o & stt & n & ok' & r & ->). exists m. split; [reflexivity|].
      apply Build; auto. apply flags_same. discriminate.
  Qed.

  (* events that leave the groups and the phase of block b alone *)
  Lemma rat_keep s m s' m' :
    rat s m -> s_ph s' = s_ph s -> s_cb s' = s_cb s ->
    b_g (s_b s') = b_g (s_b s) -> b_ph (s_b s') = b_ph (s_b s) ->
    m_byp m' = m_byp m -> m_pre m' = m_pre m -> m_cont m' = m_cont m ->
    m_pran m' = m_pran m -> m_cran m' = m_cran m ->
    (m_other m' = true -> m_other m = true \/
       (bstage (b_ph (s_b s)) <> SgInit /\ bstage (b_ph (s_b s)) <> SgBypass /\ ~ btaken (s_b s))) ->
    (forall a, In a (s_late s') -> In a (s_late s) \/ in_scope sc a = false \/
       ((forall i, a <> AChk sc GBypass i) /\ bstage (b_ph (s_b s)) <> SgInit /\ bstage (b_ph (s_b s)) <> SgBypass
        /\ ~ btaken (s_b s))) ->
    rat s' m'.
  Proof.
    intros [Rph Rcb Rf Rp Rc Ro La Lb] E1 E2 E3 E4 F1 F2 F3 F4 F5 Ho Hl.
    constructor; unfold btaken in *; rewrite ?E1, ?E2, ?E3, ?E4, ?F4, ?F5; auto.
    - unfold flags_rel in *. now rewrite F1, F2, F3.
    - intro Q. destruct (Ho Q) as [Q1|Q1]; auto.
    - intros a Hin Isc Prem. destruct (Hl a Hin) as [Q|[Q|(_ & N1 & N2 & Nt)]]; [now apply La|congruence|].
      destruct Prem as [Q|[Q|Q]]; contradiction.
    - intros j Hin. rewrite F1. destruct (Hl _ Hin) as [Q|[Q|(N & _)]]; [now apply Lb| |now elim (N j)].
      rewrite in_scope_own in Q. discriminate.
  Qed.

  (* while the sequences of block b run: the bypass did not pass, the gate is open *)
  Lemma at_body s m :
    pinv sh s -> rat s m -> bstage (b_ph (s_b s)) = SgBody ->
    passed m = false /\ gate_open m = true /\ ~ btaken (s_b s).
  Proof.
    intros P R St. pose proof (at_binv s P (ra_ph _ _ R) (ra_cb _ _ R)) as B.
    destruct (bi_tab _ _ _ _ _ B) as [A T]. rewrite St in T. cbn zeta in T.
    destruct T as (Nb & Cp & Lc & _). destruct (ra_flags _ _ R) as (Fb & Fp & Fc).
    refine (conj (not_taken_not_passed _ _ _ _ Fb Nb) (conj _ (not_taken_not_taken _ _ Nb))).
    unfold gate_open. rewrite (closed_ok_all_true _ _ _ _ Cp Fp (bsize_absent GPre)). simpl.
    unfold cont_live in Lc. destruct (bpres bs GCont) eqn:Pc.
    - destruct Lc as [Ok _]. eapply cont_ok_all_true; eauto.
    - destruct Lc as [E _]. rewrite E in Fc. eapply absent_all_true; eauto. now apply bsize_absent.
  Qed.

  (* an event of a sequence of block b *)
  Lemma rat_seq s m e s' q sq sq' owed :
    pinv sh s -> rat s m -> nth_error (b_seqs (s_b s)) q = Some sq -> seq_trans bs (s_b s) e b q sq sq' ->
    upd_spec s s' e (s_g s) (b_with_seqs (s_b s) (upd (b_seqs (s_b s)) q sq')) owed ->
    exists m', mstep sh sc m e = Some m' /\ rat s' m'.
  Proof.
    intros P R Hq Ht [Ui Up Ug Ut Uc Ub Ul Uf].
    pose proof (at_binv s P (ra_ph _ _ R) (ra_cb _ _ R)) as B.
    assert (St : bstage (b_ph (s_b s)) = SgBody).
    { destruct (stage_eq_dec (bstage (b_ph (s_b s))) SgBody) as [E|Ne]; auto. exfalso.
      pose proof (forallb_nth _ _ _ _ (bi_rest _ _ _ _ _ B Ne) Hq) as Rest.
      destruct Ht as [r _ Pb _| |]; try discriminate Rest. rewrite Pb in Ne. now elim Ne. }
    destruct (at_body _ _ P R St) as (Pm & Go & Nt).
    assert (Ent : bstage (b_ph (s_b s)) <> SgInit /\ bstage (b_ph (s_b s)) <> SgBypass /\ ~ btaken (s_b s)).
    { rewrite St. repeat split; try discriminate. exact Nt. }
    assert (Keep : forall m', m_byp m' = m_byp m -> m_pre m' = m_pre m -> m_cont m' = m_cont m ->
                   m_pran m' = m_pran m -> m_cran m' = m_cran m -> rat s' m').
    { intros m' F1 F2 F3 F4 F5. eapply rat_keep; eauto; rewrite ?Ub; cbn [b_g b_ph b_with_seqs]; auto.
      intros a Hin. rewrite Ul in Hin. unfold late_after in Hin.
      destruct (ev_aref e) as [a0|] eqn:Ea; auto. destruct owed; auto. destruct Hin as [<-|Hin]; auto.
      right. right. split; [|exact Ent]. intros i ->.
      destruct Ht as [r -> _ _|st r v -> ->|j a1 x0 i0 Ha0 _ _]; try discriminate Ea. rewrite Ha0 in Ea. discriminate Ea. }
    assert (Aref : forall a, ev_aref e = Some a -> in_scope sc a = true /\ own_check sc a = None /\ is_seq a = true).
    { intros a Ea. destruct Ht as [r -> _ _|st r v -> ->|j a1 x0 i0 Ha0 _ _]; try discriminate Ea.
      rewrite Ha0 in Ea. injection Ea as <-. unfold sc. cbn. rewrite Nat.eqb_refl. auto. }
    destruct e as [a|a o|o stt n ok r|snap|fin].
    - destruct (Aref a eq_refl) as (Isc & Oc & Sq). unfold mstep, mstep_d. rewrite Isc, Pm, Sq, Go. cbn [negb andb].
      eexists. split; [reflexivity|]. unfold note_start. rewrite Oc. apply Keep; reflexivity.
    - destruct (Aref a eq_refl) as (Isc & Oc & Sq). unfold mstep, mstep_d. rewrite Isc, Pm. cbn [negb].
      destruct (outcome_ok o); cbn [negb].
      + unfold note_ok. rewrite Oc, Pm. cbn [andb]. eexists. split; [reflexivity|]. apply Keep; reflexivity.
      + eexists. split; [reflexivity|]. apply Keep; reflexivity.
    - exists m. split; [reflexivity|]. apply Keep; reflexivity.
    - exists m. split; [reflexivity|]. apply Keep; reflexivity.
    - exfalso. eapply seq_trans_not_release; eauto.
  Qed.

  Lemma mstep_out_of_scope m e :
    (forall a, ev_aref e = Some a -> in_scope sc a = false) -> (forall fin, e <> EvRelease fin) ->
    mstep sh sc m e = Some m.
  Proof.
    intros Ho Nr. unfold mstep, mstep_d. destruct e as [a|a o|o stt n ok r|snap|fin]; auto.
    - rewrite (Ho a eq_refl). reflexivity.
    - rewrite (Ho a eq_refl). reflexivity.
    - now elim (Nr fin).
  Qed.

  Lemma chk_op_plan_out e g op a : chk_op e = Some (SPlan, g, op) -> ev_aref e = Some a -> in_scope sc a = false.
  Proof. intros Hc Ea. destruct (chk_op_aref _ _ _ _ _ Hc Ea) as (i & -> & _). reflexivity. Qed.

  (* every handler, while the automaton is inside block b *)
  Lemma rat_handle s m e s' :
    pinv sh s -> rat s m -> handle sh s e = Some s' ->
    exists m', mstep sh sc m e = Some m' /\ rat s' m'.
  Proof.
    intros P R H.
    assert (Same : forall m', m' = m -> s_ph s' = s_ph s -> s_cb s' = s_cb s -> s_b s' = s_b s ->
                   (forall a, In a (s_late s') -> In a (s_late s) \/ in_scope sc a = false) -> rat s' m').
    { intros m' -> E1 E2 E3 Hl. eapply rat_keep; eauto; rewrite ?E3; auto.
      intros a Hin. destruct (Hl a Hin); auto. }
    destruct (handle_cases _ _ _ _ H) as
      [g op x owed Hc Ha Hs U _|b0 bs0 g op x owed Hc Cb Ha Hs U _|b0 bs0 q sq sq' owed Cb Hq Ht U _
      |b0 bs0 stt r -> Cb Hw U _|stt r -> Hw U Hr|a l -> Hl E1 E2 E3 E4 E5 E6 E7 _ _|snap -> ->
      |fin -> Ph Tm Ag E1 E2 E3 E4 E5 E6 E7 _].
    - (* a plan group: out of scope *)
      destruct U as [Ui Up Ug Ut Uc Ub Ul Uf]. exists m. split.
      + apply mstep_out_of_scope; [intros a Ea; eapply chk_op_plan_out; eauto|intros fin ->; discriminate Hc].
      + apply Same; auto. intros a Hin. rewrite Ul in Hin. unfold late_after in Hin.
        destruct (ev_aref e) as [a0|] eqn:Ea; auto. destruct owed; auto. destruct Hin as [<-|Hin]; auto.
        right. eapply chk_op_plan_out; eauto.
    - destruct (at_cur_eq _ _ R _ _ Cb) as [-> ->]. eapply rat_block_chk; eauto.
    - destruct (at_cur_eq _ _ R _ _ Cb) as [-> ->]. eapply rat_seq; eauto.
    - destruct U as [Ui Up Ug Ut Uc Ub Ul Uf]. exists m. split; [reflexivity|].
      apply Same; auto. intros a Hin. rewrite Ul in Hin. cbn in Hin. auto.
    - destruct U as [Ui Up Ug Ut Uc Ub Ul Uf]. exists m. split; [reflexivity|].
      apply Same; auto. intros a Hin. rewrite Ul in Hin. cbn in Hin. auto.
    - (* a late End *)
      exists m. split.
      + destruct (in_scope sc a) eqn:Isc.
        * assert (Pm : passed m = false).
          { destruct (passed m) eqn:Pm; auto. exfalso. destruct (at_silent _ _ P R _ _ Pm H) as [_ N].
            rewrite (N a OOverrun eq_refl) in Isc. discriminate. }
          unfold mstep, mstep_d. rewrite Isc, Pm. reflexivity.
        * apply mstep_out_of_scope; [intros a0 Ea; injection Ea as <-; exact Isc|discriminate].
      + apply Same; auto. intros a0 Hin. left. rewrite E7 in Hin. eapply remove_one_incl; eauto.
    - exists m. split; [reflexivity|exact R].
    - exfalso. rewrite (ra_ph _ _ R) in Ph. discriminate.
  Qed.

  (* what an epsilon-move inside block b does to the groups the monitor watches *)
  Ltac bshape_done Ph :=
    cbn; rewrite ?Ph; cbn;
    refine (conj eq_refl (conj eq_refl (conj (or_introl eq_refl) (conj _ _))));
    [let Q := fresh "Q" in let Q' := fresh "Q" in intros Q Q'; try (now elim Q); try (now elim Q'); split; discriminate
    |let Q := fresh "Q" in intros [Q|Q]; try discriminate Q; auto].

  Lemma b_eps_shape im pdead pvis bt bt' :
    binv bs im b pdead bt -> b_eps bs im b pvis bt = Some (BStay bt') ->
    t_bypass (b_g bt') = t_bypass (b_g bt) /\ t_pre (b_g bt') = t_pre (b_g bt)
    /\ (t_cont (b_g bt') = t_cont (b_g bt)
        \/ exists r acts, t_cont (b_g bt) = GRun (S r) acts /\ t_cont (b_g bt') = GIdle (S (S r)) (Some true))
    /\ (bstage (b_ph bt) <> SgInit -> bstage (b_ph bt) <> SgBypass ->
        bstage (b_ph bt') <> SgInit /\ bstage (b_ph bt') <> SgBypass)
    /\ (bstage (b_ph bt') = SgInit \/ bstage (b_ph bt') = SgBypass ->
        bstage (b_ph bt) = SgInit \/ bstage (b_ph bt) = SgBypass).
  Proof.
    intros B H. pose proof B as [B1 B2 B3 B4 B5 B5' B6 B7].
    assert (OD : forall g x v, gonce (tget (b_g bt) g) ->
              once_done (bpres bs g) (tget (b_g bt) g) (ist im (OChecks (SBlock b) g)) = Some (x, v) ->
              x = tget (b_g bt) g).
    { intros g x v O Hd. destruct (bpres bs g) eqn:Pg.
      - destruct (once_done_gonce _ _ _ _ (B1 g) O Hd) as [E ->]. auto.
      - destruct (once_done_absent _ _ _ _ Hd) as [-> ->]. auto. }
    unfold b_eps in H. destruct (b_ph bt) eqn:Ph; cbn [bstage] in *.
    - destruct (status_eqb (ist im (OBlock b)) Running); [|discriminate]. injection H as <-. bshape_done Ph.
    - destruct B2 as [A (Ob & _)]. destruct (g_bypass (bs_groups bs)) as [rs|] eqn:Gb.
      + assert (Pb : bpres bs GBypass = true) by (unfold bpres; cbn; now rewrite Gb).
        destruct (once_done true (t_bypass (b_g bt)) (ist im (OChecks (SBlock b) GBypass))) as [[x v]|] eqn:Od; [|discriminate].
        rewrite <- Pb in Od. pose proof (OD GBypass x v Ob Od) as ->. cbn [tget] in H. rewrite tset_same_b, b_with_g_same in H.
        destruct v; injection H as <-; bshape_done Ph.
      + injection H as <-. bshape_done Ph.
    - destruct B2 as [A (Nb & Op & Oc & _)].
      change (present (g_pre (bs_groups bs))) with (bpres bs GPre) in H.
      change (present (g_cont (bs_groups bs))) with (bpres bs GCont) in H.
      destruct (once_done (bpres bs GPre) (t_pre (b_g bt)) (ist im (OChecks (SBlock b) GPre))) as [[x v1]|] eqn:O1; [|discriminate].
      destruct (once_done (bpres bs GCont) (t_cont (b_g bt)) (ist im (OChecks (SBlock b) GCont))) as [[y v2]|] eqn:O2; [|discriminate].
      pose proof (OD GPre x v1 Op O1) as ->. pose proof (OD GCont y v2 Oc O2) as ->. cbn [tget] in H.
      rewrite tset_same_p, tset_same_c, b_with_g_same in H.
      destruct (v1 && v2); injection H as <-; bshape_done Ph.
    - destruct (negb (Nat.eqb (inflight bt) 0)); [discriminate|].
      destruct (exceeded bs bt); [injection H as <-; bshape_done Ph|].
      destruct (all_started bt); [injection H as <-; bshape_done Ph|].
      destruct (pvis || thr_live (b_thr bt) && g_dead (t_cont (b_g bt))); [|discriminate]. injection H as <-. bshape_done Ph.
    - destruct B2 as [A (Nb & Cp & Lc & Oo & Ed)].
      change (present (g_post (bs_groups bs))) with (bpres bs GPost) in H.
      destruct (once_done (bpres bs GPost) (t_post (b_g bt)) (ist im (OChecks (SBlock b) GPost))) as [[x v]|] eqn:O1; [|discriminate].
      pose proof (OD GPost x v Oo O1) as ->. cbn [tget] in H. rewrite tset_same_o, b_with_g_same in H. injection H as <-.
      bshape_done Ph.
    - destruct B2 as [A (Nb & Cp & Lc & Io & Od)].
      change (present (g_deferred (bs_groups bs))) with (bpres bs GDeferred) in H.
      destruct (once_done (bpres bs GDeferred) (t_deferred (b_g bt)) (ist im (OChecks (SBlock b) GDeferred))) as [[x v]|] eqn:O1; [|discriminate].
      pose proof (OD GDeferred x v Od O1) as ->. cbn [tget] in H. rewrite tset_same_d, b_with_g_same in H. injection H as <-.
      bshape_done Ph.
    - destruct (thr_live (b_thr bt)).
      + destruct (g_settle (t_cont (b_g bt)) (ist im (OChecks (SBlock b) GCont))) as [x|] eqn:Gs; [|discriminate].
        injection H as <-. cbn. rewrite Ph. cbn.
        refine (conj eq_refl (conj eq_refl (conj _ (conj _ _)))).
        * destruct (g_settle_spec _ _ _ (B1 GCont) Gs) as [[_ ->]|(r & acts & E & -> & _)]; [now left|right; eauto].
        * intros; split; discriminate.
        * intros [Q|Q]; discriminate.
      + destruct (status_eqb (ist im (OBlock b)) (if b_cause bt then Failed else Completed)); discriminate.
  Qed.

  (* ---- the block ends: the verdict clauses hold of the durable image ---- *)
  Lemma has_bpres g : has sh (SBlock b) g = bpres bs g.
  Proof. unfold has, group_of. simpl. rewrite Hb. reflexivity. Qed.

  Lemma nseqs_b : nseqs sh b = length (bs_seqs bs).
  Proof. unfold nseqs. now rewrite Hb. Qed.

  Lemma failed_count (f : obj -> status) l k :
    (forall q v, nth_error l q = Some (SDone v) -> f (OSeq b (k + q)) = verdict_status v) ->
    count s_failed l <= length (filter (fun q => status_eqb (f (OSeq b q)) Failed) (seq k (length l))).
  Proof.
    revert k. induction l as [|sq l IH]; intros k H; simpl; [unfold count; simpl; lia|].
    assert (IH' : count s_failed l <= length (filter (fun q => status_eqb (f (OSeq b q)) Failed) (seq (S k) (length l)))).
    { apply IH. intros q v Hq. replace (S k + q) with (k + S q) by lia. now apply H. }
    unfold count in *. simpl. destruct (s_failed sq) eqn:Fs.
    - destruct sq as [| | |[|]]; try discriminate Fs. pose proof (H 0 false eq_refl) as E. rewrite Nat.add_0_r in E.
      rewrite E. simpl. lia.
    - destruct (status_eqb (f (OSeq b k)) Failed); simpl; lia.
  Qed.

  Lemma all_done_image (f : obj -> status) l :
    forallb s_done l = true ->
    (forall q v, nth_error l q = Some (SDone v) -> f (OSeq b q) = verdict_status v) ->
    forall q, q < length l -> is_done (f (OSeq b q)) = true.
  Proof.
    intros Hd H q Hq. destruct (nth_error l q) as [sq|] eqn:E; [|apply nth_error_None in E; lia].
    pose proof (forallb_nth _ _ _ _ Hd E) as D. destruct sq; try discriminate D.
    rewrite (H q v E). destruct v; reflexivity.
  Qed.

  Lemma block_done s m f :
    pinv sh s -> rat s m -> b_eps bs (s_img s) b (p_visible s) (s_b s) = Some (BFinished f) ->
    final_code sh (ist (s_img s)) sc m = 0
    /\ (passed m = true -> forall a, In a (s_late s) -> in_scope sc a = false).
  Proof.
    intros P R H. pose proof R as [Rph Rcb (Fb & Fp & Fc) Rp Rc Ro La Lb].
    pose proof (at_binv s P Rph Rcb) as B. pose proof B as [B1 B2 B3 B4 B5 B5' B6 B7].
    destruct (b_eps_finished _ _ _ _ _ _ H) as (Ph & Lv & -> & St).
    set (bt := s_b s) in *. set (fI := ist (s_img s)) in *.
    destruct B2 as [A T]. rewrite Ph in T. cbn [bstage] in T. cbn zeta in T.
    unfold final_code. cbn [scope_obj sc]. fold fI. rewrite St.
    destruct T as [(Eb & Ep & Ec & Eo & Ed & Et)|(Nb & Cp & Lc & Io & Id)].
    - (* bypassed *)
      assert (Tk : btaken bt) by exact Eb.
      assert (Cf : b_cause bt = false).
      { destruct (b_cause bt) eqn:C; auto. destruct (B6 eq_refl) as (_ & Nt & _). contradiction. }
      rewrite Eb in Fb. pose proof (taken_passed _ _ Fb : passed m = true) as Pm. rewrite Pm, Cf. cbn.
      split; [reflexivity|]. intros _ a Hin. destruct (in_scope sc a) eqn:Isc; auto. exfalso.
      destruct (La a Hin Isc (or_intror (or_intror Tk))) as [i ->].
      destruct (Lb i Hin) as (Fl & _ & _). unfold passed in Pm. apply andb_true_iff in Pm as [_ At].
      pose proof (all_true_nth _ _ _ At Fl). discriminate.
    - pose proof (not_taken_not_passed _ _ _ _ Fb Nb : passed m = false) as Pm. rewrite Pm.
      split; [|discriminate].
      assert (Nt : ~ btaken bt) by (unfold btaken; now apply not_taken_not_taken in Nb).
      destruct (b_cause bt) eqn:C.
      + (* Failed: there is a cause *)
        destruct (B6 eq_refl) as (_ & _ & W).
        assert (Cz : cause sh fI sc = true).
        { unfold cause, sc. destruct W as [(g & In0 & Pg & D0)|[W|W]].
          - apply orb_true_iff. left. apply orb_true_iff. left. apply existsb_exists. exists g. split; [exact In0|].
            unfold grp_failed. rewrite has_bpres, Pg. simpl. rewrite (dead_failed _ _ (B1 g) D0). reflexivity.
          - apply orb_true_iff. left. apply orb_true_iff. right.
            unfold grp_failed. rewrite has_ppres, (dead_present _ _ _ _ GCont (pi_tab _ _ P) W). simpl.
            unfold fI. rewrite (dead_failed _ _ (pi_img _ _ P GCont) W). reflexivity.
          - apply orb_true_iff. right. unfold tol_exceeded. rewrite Hb.
            unfold exceeded in W. apply andb_true_iff in W as [W1 W2]. rewrite W1. simpl.
            apply Z.ltb_lt in W2. apply Z.ltb_lt. unfold failed_seqs_of. rewrite nseqs_b, <- B3.
            pose proof (failed_count fI (b_seqs bt) 0 B4) as Le. unfold failed_seqs in W2. lia. }
        rewrite Cz. unfold is_done. cbn [status_eqb negb andb orb]. rewrite !andb_false_r. reflexivity.
      + (* Completed: the block ran to its end *)
        pose proof (B7 eq_refl) as Fw. unfold fine_w in Fw. fold bt in Fw. rewrite Ph in Fw. cbn [bstage] in Fw.
        destruct (Fw Nt) as (F1 & F2 & F3 & F4 & F5 & F6 & F7).
        assert (Gf : gate_failed m = false).
        { unfold gate_failed. rewrite (closed_ok_all_true _ _ _ _ F2 Fp (bsize_absent GPre)). cbn [negb]. rewrite andb_false_r.
          destruct (bpres bs GCont) eqn:Pc.
          - rewrite (cont_ok_all_true _ _ _ (F3 eq_refl) Fc). cbn. apply andb_false_r.
          - pose proof (A GCont Pc) as Z. cbn [tget] in Z. fold bt in Z. rewrite Z in Fc.
            rewrite (absent_all_true _ _ Fc (bsize_absent GCont Pc)). cbn. apply andb_false_r. }
        assert (Fine : forall g, closed_ok (bpres bs g) (tget (b_g bt) g) -> grp_fine sh fI (SBlock b) g = true).
        { intros g Cg. unfold grp_fine. rewrite has_bpres. unfold closed_ok in Cg. destruct (bpres bs g); [|reflexivity].
          pose proof (B1 g) as Ig. rewrite Cg in Ig. simpl in Ig. rewrite Ig. reflexivity. }
        assert (W : work sh fI sc = true).
        { unfold work, sc. apply andb_true_iff. split.
          - unfold MonC06.stages. cbn [forallb]. rewrite (Fine GPre F2), (Fine GPost F4), (Fine GDeferred F5). cbn.
            rewrite andb_true_r. unfold grp_fine. rewrite has_bpres. destruct (bpres bs GCont) eqn:Pc; [|reflexivity].
            assert (Td : b_thr bt = TDrained).
            { destruct (b_thr bt) eqn:E; [now elim (F7 eq_refl)|discriminate Lv|reflexivity]. }
            destruct (F6 Td eq_refl) as [r Er]. pose proof (B1 GCont) as Ig. cbn [tget] in Ig. fold bt in Ig. rewrite Er in Ig.
            simpl in Ig. rewrite Ig. reflexivity.
          - apply forallb_forall. intros q Hq. apply in_seq in Hq. rewrite nseqs_b, <- B3 in Hq.
            apply (all_done_image fI (b_seqs bt)); auto. lia. }
        rewrite Gf, W. unfold is_done. cbn [status_eqb negb andb orb]. rewrite ?andb_false_r. reflexivity.
  Qed.

  (* ---- outside block b ---- *)
  Definition block_obj (o : obj) : Prop :=
    o = OBlock b \/ (exists g, o = OChecks (SBlock b) g) \/ (exists q, o = OSeq b q).

  Lemma not_at_cur s b0 bs0 : ~ at_pos s -> cur_block sh s b0 = Some bs0 -> b0 <> b.
  Proof. intros N C ->. destruct (cur_block_spec _ _ _ _ C) as (Ph & E & _). apply N. split; auto. Qed.

  (* an event handled while the automaton is not inside block b: it does not touch the objects of block b;
     the action it concerns is outside the scope of block b, unless it is a late End; the owed list grows by
     that action at most; the position relative to block b is kept *)
  Lemma handle_frame s e s' :
    handle sh s e = Some s' -> ~ at_pos s ->
    (forall o, block_obj o -> ist (s_img s') o = ist (s_img s) o)
    /\ (forall a, ev_aref e = Some a -> in_scope sc a = false \/ In a (s_late s))
    /\ (forall a, In a (s_late s') -> In a (s_late s) \/ ev_aref e = Some a)
    /\ ~ at_pos s' /\ (pos_after s -> pos_after s').
  Proof.
    intros H N.
    assert (Late : forall owed a, In a (late_after (s_late s) e owed) -> In a (s_late s) \/ ev_aref e = Some a).
    { intros owed a Hin. unfold late_after in Hin. destruct (ev_aref e) as [a0|]; auto.
      destruct owed; auto. destruct Hin as [<-|Hin]; auto. }
    assert (Pos : forall s2, s_ph s2 = s_ph s -> s_cb s2 = s_cb s -> ~ at_pos s2 /\ (pos_after s -> pos_after s2)).
    { intros s2 E1 E2. unfold at_pos, pos_after, ended. rewrite E1, E2. auto. }
    destruct (handle_cases _ _ _ _ H) as
      [g op x owed Hc Ha Hs U _|b0 bs0 g op x owed Hc Cb Ha Hs U _|b0 bs0 q sq sq' owed Cb Hq Ht U _
      |b0 bs0 stt r -> Cb Hw U _|stt r -> Hw U Hr|a l -> Hl E1 E2 E3 E4 E5 E6 E7 _ _|snap -> ->
      |fin -> Ph Tm Ag E1 E2 E3 E4 E5 E6 E7 _].
    - destruct U as [Ui Up _ _ Uc _ Ul _]. destruct (chk_op_img _ _ _ _ (s_img s) Hc) as [_ Io].
      refine (conj _ (conj _ (conj _ (Pos _ Up Uc)))).
      + intros o Bo. rewrite Ui. apply Io; destruct Bo as [-> |[[g0 ->]|[q ->]]]; try exact I; discriminate.
      + intros a Ea. left. eapply chk_op_plan_out; eauto.
      + intros a Hin. rewrite Ul in Hin. eapply Late; eauto.
    - pose proof (not_at_cur _ _ _ N Cb) as Ne.
      destruct U as [Ui Up _ _ Uc _ Ul _]. destruct (chk_op_img _ _ _ _ (s_img s) Hc) as [_ Io].
      refine (conj _ (conj _ (conj _ (Pos _ Up Uc)))).
      + intros o Bo. rewrite Ui. apply Io; destruct Bo as [-> |[[g0 ->]|[q ->]]]; try exact I; try discriminate.
        intro Q. injection Q as Q _. now apply Ne.
      + intros a Ea. left. destruct (chk_op_aref _ _ _ _ _ Hc Ea) as (i & -> & _). unfold sc. cbn.
        apply Nat.eqb_neq. auto.
      + intros a Hin. rewrite Ul in Hin. eapply Late; eauto.
    - pose proof (not_at_cur _ _ _ N Cb) as Ne.
      destruct U as [Ui Up _ _ Uc _ Ul _]. destruct (seq_trans_img _ _ _ _ _ _ _ (s_img s) Ht) as [Io _].
      refine (conj _ (conj _ (conj _ (Pos _ Up Uc)))).
      + intros o Bo. rewrite Ui. apply Io; destruct Bo as [-> |[[g0 ->]|[q0 ->]]]; try exact I; try discriminate.
        intro Q. injection Q as Q _. now apply Ne.
      + intros a Ea. left. destruct Ht as [r -> _ _|st r v -> ->|j a1 x0 i0 Ha0 _ _]; try discriminate Ea.
        rewrite Ha0 in Ea. injection Ea as <-. unfold sc. cbn. apply Nat.eqb_neq. auto.
      + intros a Hin. rewrite Ul in Hin. eapply Late; eauto.
    - pose proof (not_at_cur _ _ _ N Cb) as Ne. destruct U as [Ui Up _ _ Uc _ Ul _].
      refine (conj _ (conj _ (conj _ (Pos _ Up Uc)))).
      + intros o Bo. rewrite Ui. simpl. rewrite ist_iset, obj_eqb_neq; auto.
        destruct Bo as [-> |[[g0 ->]|[q ->]]]; try discriminate. intro Q. injection Q as Q. now apply Ne.
      + intros a Ea. discriminate Ea.
      + intros a Hin. rewrite Ul in Hin. eapply Late; eauto.
    - destruct U as [Ui Up _ _ Uc _ Ul _].
      refine (conj _ (conj _ (conj _ (Pos _ Up Uc)))).
      + intros o Bo. rewrite Ui. simpl. rewrite ist_iset, obj_eqb_neq; auto.
        destruct Bo as [-> |[[g0 ->]|[q ->]]]; discriminate.
      + intros a Ea. discriminate Ea.
      + intros a Hin. rewrite Ul in Hin. eapply Late; eauto.
    - refine (conj _ (conj _ (conj _ (Pos _ E2 E5)))).
      + intros o _. now rewrite E1.
      + intros a0 Ea. injection Ea as <-. right. eapply remove_one_in; eauto.
      + intros a0 Hin. rewrite E7 in Hin. left. eapply remove_one_incl; eauto.
    - refine (conj _ (conj _ (conj _ (Pos _ eq_refl eq_refl)))); auto. intros a Ea. discriminate Ea.
    - refine (conj _ (conj _ (conj _ (conj _ _)))).
      + intros o _. now rewrite E1.
      + intros a Ea. discriminate Ea.
      + intros a Hin. rewrite E7 in Hin. auto.
      + unfold at_pos. rewrite E2. intros [Q _]. discriminate.
      + unfold pos_after, ended. rewrite E2, E5, Ph. intros [[Q _]|[_ Q]]; [discriminate|]. right. auto.
  Qed.

  (* a failed continuous group of the plan stays failed *)
  Lemma pcont_failed_stable s e s' :
    pinv sh s -> handle sh s e = Some s' ->
    ist (s_img s) (OChecks SPlan GCont) = Failed -> ist (s_img s') (OChecks SPlan GCont) = Failed.
  Proof.
    intros P H F.
    assert (D : g_dead (t_cont (s_g s)) = true).
    { pose proof (pi_img _ _ P GCont) as Ig. cbn [tget] in Ig. rewrite F in Ig.
      destruct (t_cont (s_g s)) as [[|r] [[|]|]|[|r] acts]; simpl in Ig; try contradiction; try discriminate; reflexivity. }
    destruct (handle_cases _ _ _ _ H) as
      [g op x owed Hc Ha Hs U _|b0 bs0 g op x owed Hc Cb Ha Hs U _|b0 bs0 q sq sq' owed Cb Hq Ht U _
      |b0 bs0 stt r -> Cb Hw U _|stt r -> Hw U Hr|a l -> Hl E1 E2 E3 E4 E5 E6 E7 _ _|snap -> ->
      |fin -> Ph Tm Ag E1 E2 E3 E4 E5 E6 E7 _]; try (rewrite E1; exact F); auto.
    - destruct U as [Ui _ _ _ _ _ _ _]. destruct (chk_op_img _ _ _ _ (s_img s) Hc) as [_ Io]. rewrite Ui.
      destruct (grp_eqb g GCont) eqn:E.
      + apply grp_eqb_eq in E. subst g. exfalso.
        exact (dead_no_op _ _ _ _ _ _ _ _ _ _ _ (pi_img _ _ P GCont) D (p_may_start_spec s GCont) Ha).
      + rewrite Io; [exact F|exact I|]. intro Q. injection Q as Q. subst g. discriminate E.
    - destruct U as [Ui _ _ _ _ _ _ _]. destruct (chk_op_img _ _ _ _ (s_img s) Hc) as [_ Io]. rewrite Ui.
      rewrite Io; [exact F|exact I|discriminate].
    - destruct U as [Ui _ _ _ _ _ _ _]. destruct (seq_trans_img _ _ _ _ _ _ _ (s_img s) Ht) as [Io _]. rewrite Ui.
      rewrite Io; [exact F|exact I|discriminate].
    - destruct U as [Ui _ _ _ _ _ _ _]. rewrite Ui. simpl. rewrite ist_iset, obj_eqb_neq; [exact F|discriminate].
    - destruct U as [Ui _ _ _ _ _ _ _]. rewrite Ui. simpl. rewrite ist_iset, obj_eqb_neq; [exact F|discriminate].
  Qed.

  Lemma in_scopes : In sc (scopes sh).
  Proof.
    unfold scopes, sc. right. apply in_map. apply in_seq. pose proof (block_of_lt _ _ _ Hb). lia.
  Qed.

  (* the verdict clauses of block b read the objects of block b and the plan's continuous group *)
  Lemma final_code_block_frame (f f' : obj -> status) m :
    (forall o, block_obj o -> f' o = f o) ->
    (f (OChecks SPlan GCont) = Failed -> f' (OChecks SPlan GCont) = Failed) ->
    final_code sh f sc m = 0 -> final_code sh f' sc m = 0.
  Proof.
    intros Hf Hc.
    assert (Est : f' (OBlock b) = f (OBlock b)) by (apply Hf; left; reflexivity).
    assert (Eg : forall g, grp_failed sh f' (SBlock b) g = grp_failed sh f (SBlock b) g
                         /\ grp_fine sh f' (SBlock b) g = grp_fine sh f (SBlock b) g).
    { intro g. unfold grp_failed, grp_fine. rewrite (Hf (OChecks (SBlock b) g)); auto. right. left. eauto. }
    assert (Eq : forall q, f' (OSeq b q) = f (OSeq b q)) by (intro q; apply Hf; right; right; eauto).
    assert (Ew : work sh f' sc = work sh f sc).
    { unfold work, sc. f_equal.
      - apply forallb_ext'. intros g _. apply Eg.
      - apply forallb_ext'. intros q _. now rewrite Eq. }
    assert (Ec : cause sh f sc = true -> cause sh f' sc = true).
    { unfold cause, sc. intro C. apply orb_true_iff in C as [C|C]; [apply orb_true_iff in C as [C|C]|].
      - apply orb_true_iff. left. apply orb_true_iff. left.
        rewrite (existsb_ext' _ (grp_failed sh f (SBlock b))); [exact C|]. intros g _. apply Eg.
      - apply orb_true_iff. left. apply orb_true_iff. right. unfold grp_failed in *.
        apply andb_true_iff in C as [C1 C2]. rewrite C1. simpl. apply status_eqb_eq in C2. rewrite (Hc C2). reflexivity.
      - apply orb_true_iff. right. unfold tol_exceeded, failed_seqs_of in *.
        rewrite (filter_ext' _ (fun s => status_eqb (f (OSeq b s)) Failed)); [exact C|]. intros q _. now rewrite Eq. }
    unfold final_code. cbn [scope_obj sc]. rewrite Est, Ew.
    destruct (passed m); [auto|].
    destruct (gate_failed m && negb (status_eqb (f (OBlock b)) Failed)); [auto|].
    destruct (status_eqb (f (OBlock b)) Failed) eqn:Sf; cbn [andb].
    - destruct (cause sh f sc) eqn:C; cbn [negb]; [|discriminate]. rewrite (Ec eq_refl). cbn. auto.
    - auto.
  Qed.

  Lemma m_init_code (f : obj -> status) : f (OBlock b) = NotStarted -> final_code sh f sc (m_init sh sc) = 0.
  Proof.
    intro E. unfold final_code. cbn [scope_obj sc]. rewrite E.
    assert (Pm : passed (m_init sh sc) = false).
    { unfold passed, m_init. cbn [m_byp]. destruct (group_size sh sc GBypass); reflexivity. }
    rewrite Pm. reflexivity.
  Qed.

  Lemma m_init_passed : passed (m_init sh sc) = false.
  Proof. unfold passed, m_init. cbn [m_byp]. destruct (group_size sh sc GBypass); reflexivity. Qed.

  Lemma release_code s m fin :
    image_agrees (all_objs sh) (s_img s) (s_reason s) fin = true ->
    final_code sh (ist (s_img s)) sc m = 0 -> final_code sh (fin_st fin) sc m = 0.
  Proof.
    intros Ag C. rewrite (final_code_ext sh (fin_st fin) (ist (s_img s))); auto.
    - intros o Ho. eapply agrees_st; eauto.
    - apply in_scopes.
  Qed.

  (* ---- every handler ---- *)
  Lemma rblock_handle s m e s' :
    pinv sh s -> rblock s m -> handle sh s e = Some s' ->
    exists m', mstep sh sc m e = Some m' /\ rblock s' m'.
  Proof.
    intros P [R|[R|R]] H.
    - (* before *)
      destruct R as [Np -> Hl Im].
      destruct (handle_frame _ _ _ H Np) as (Fr & Out & Lt & Np' & _).
      assert (Out' : forall a, ev_aref e = Some a -> in_scope sc a = false).
      { intros a Ea. destruct (Out a Ea) as [Q|Q]; auto. }
      assert (Rb : rblock s' (m_init sh sc)).
      { left. constructor; auto.
        - intros a Hin. destruct (Lt a Hin) as [Q|Q]; auto.
        - rewrite Fr; [exact Im|left; reflexivity]. }
      exists (m_init sh sc). split; [|exact Rb].
      destruct e as [a|a o|o stt n ok r|snap|fin]; try reflexivity.
      + unfold mstep, mstep_d. rewrite (Out' a eq_refl). reflexivity.
      + unfold mstep, mstep_d. rewrite (Out' a eq_refl). reflexivity.
      + unfold mstep, mstep_d.
        destruct (handle_cases _ _ _ _ H) as
          [g op x owed Hc Ha Hs U _|b0 bs0 g op x owed Hc Cb Ha Hs U _|b0 bs0 q sq sq' owed Cb Hq Ht U _
          |b0 bs0 stt r Q Cb Hw U _|stt r Q Hw U Hr|a0 l Q Hr E1 E2 E3 E4 E5 E6 E7 _ _|snap Q _
          |fin0 Q Ph Tm Ag E1 E2 E3 E4 E5 E6 E7 _]; try discriminate Q; try discriminate Hc.
        * exfalso. eapply seq_trans_not_release; eauto.
        * injection Q as <-. rewrite (release_code _ _ _ Ag (m_init_code _ Im)). reflexivity.
    - (* inside *)
      destruct (rat_handle _ _ _ _ P R H) as (m' & M & R'). exists m'. split; [exact M|]. right. left. exact R'.
    - (* after *)
      destruct R as [Pa Cd Hl].
      assert (Np : ~ at_pos s).
      { unfold at_pos. intros [Q1 Q2]. destruct Pa as [[_ Q]|[[Q|[Q|[Q|Q]]] _]]; try lia; rewrite Q1 in Q; discriminate. }
      destruct (handle_frame _ _ _ H Np) as (Fr & Out & Lt & Np' & Pa').
      assert (Cd' : final_code sh (ist (s_img s')) sc m = 0).
      { eapply final_code_block_frame; [| |exact Cd]; auto. eapply pcont_failed_stable; eauto. }
      assert (Hl' : passed m = true -> forall a, In a (s_late s') -> in_scope sc a = false).
      { intros Pm a Hin. destruct (Lt a Hin) as [Q|Q]; [now apply Hl|]. destruct (Out a Q) as [Q'|Q']; auto. }
      assert (Rd : rblock s' m) by (right; right; constructor; auto).
      exists m. split; [|exact Rd].
      assert (InOut : forall a, ev_aref e = Some a -> in_scope sc a = true -> passed m = false /\ e = EvEnd a OOverrun).
      { intros a Ea Isc. destruct (Out a Ea) as [Q|Q]; [congruence|]. split.
        - destruct (passed m) eqn:Pm; auto. rewrite (Hl eq_refl a Q) in Isc. discriminate.
        - (* only a late End concerns an in-scope action here *)
          destruct (handle_cases _ _ _ _ H) as
            [g op x owed Hc Ha Hs U _|b0 bs0 g op x owed Hc Cb Ha Hs U _|b0 bs0 q sq sq' owed Cb Hq Ht U _
            |b0 bs0 stt r -> Cb Hw U _|stt r -> Hw U Hr|a0 l -> Hr E1 E2 E3 E4 E5 E6 E7 _ _|snap -> ->
            |fin0 -> Ph Tm Ag E1 E2 E3 E4 E5 E6 E7 _]; try discriminate Ea.
          + rewrite (chk_op_plan_out _ _ _ _ Hc Ea) in Isc. discriminate.
          + pose proof (not_at_cur _ _ _ Np Cb) as Ne. destruct (chk_op_aref _ _ _ _ _ Hc Ea) as (i & -> & _).
            unfold sc in Isc. cbn in Isc. apply Nat.eqb_eq in Isc. now elim Ne.
          + pose proof (not_at_cur _ _ _ Np Cb) as Ne.
            destruct Ht as [r -> _ _|st r v -> ->|j a1 x0 i0 Ha0 _ _]; try discriminate Ea.
            rewrite Ha0 in Ea. injection Ea as <-. unfold sc in Isc. cbn in Isc. apply Nat.eqb_eq in Isc. now elim Ne.
          + injection Ea as <-. reflexivity. }
      destruct e as [a|a o|o stt n ok r|snap|fin]; try reflexivity.
      + unfold mstep, mstep_d. destruct (in_scope sc a) eqn:Isc; [|reflexivity].
        destruct (InOut a eq_refl Isc) as (_ & Q). discriminate Q.
      + unfold mstep, mstep_d. destruct (in_scope sc a) eqn:Isc; [|reflexivity].
        destruct (InOut a eq_refl Isc) as (Pm & Q). injection Q as ->. rewrite Pm. reflexivity.
      + unfold mstep, mstep_d.
        destruct (handle_cases _ _ _ _ H) as
          [g op x owed Hc Ha Hs U _|b0 bs0 g op x owed Hc Cb Ha Hs U _|b0 bs0 q sq sq' owed Cb Hq Ht U _
          |b0 bs0 stt r Q Cb Hw U _|stt r Q Hw U Hr|a0 l Q Hr E1 E2 E3 E4 E5 E6 E7 _ _|snap Q _
          |fin0 Q Ph Tm Ag E1 E2 E3 E4 E5 E6 E7 _]; try discriminate Q; try discriminate Hc.
        * exfalso. eapply seq_trans_not_release; eauto.
        * injection Q as <-. rewrite (release_code _ _ _ Ag Cd). reflexivity.
  Qed.

  (* ---- epsilon-moves ---- *)
  Definition late_phase (p : pphase) : Prop := p = PPost \/ p = PDeferred \/ p = PEnd \/ p = PReleased.

  Inductive eps_kind (s s1 : st) : Prop :=
  | EK_plan : s_ph s <> PBlocks -> s_ph s1 <> PBlocks -> s_cb s1 = s_cb s ->
              (late_phase (s_ph s) -> late_phase (s_ph s1)) -> eps_kind s s1
  | EK_first : s_ph s = PPre -> s_ph s1 = PBlocks -> s_cb s1 = 0 ->
               s_b s1 = match block_of sh 0 with Some bs0 => b_init bs0 | None => b_none end -> eps_kind s s1
  | EK_stay bs0 b' : s_ph s = PBlocks -> block_of sh (s_cb s) = Some bs0 ->
               b_eps bs0 (s_img s) (s_cb s) (p_visible s) (s_b s) = Some (BStay b') ->
               s_ph s1 = PBlocks -> s_cb s1 = s_cb s -> s_b s1 = b' -> eps_kind s s1
  | EK_failed bs0 : s_ph s = PBlocks -> block_of sh (s_cb s) = Some bs0 ->
               b_eps bs0 (s_img s) (s_cb s) (p_visible s) (s_b s) = Some (BFinished true) ->
               s_ph s1 = PDeferred -> s_cb s1 = s_cb s -> eps_kind s s1
  | EK_next bs0 : s_ph s = PBlocks -> block_of sh (s_cb s) = Some bs0 ->
               b_eps bs0 (s_img s) (s_cb s) (p_visible s) (s_b s) = Some (BFinished false) ->
               s_ph s1 = PBlocks -> s_cb s1 = S (s_cb s) ->
               s_b s1 = match block_of sh (S (s_cb s)) with Some bs1 => b_init bs1 | None => b_none end -> eps_kind s s1
  | EK_post : s_ph s = PBlocks -> block_of sh (s_cb s) = None -> s_ph s1 = PPost -> s_cb s1 = s_cb s -> eps_kind s s1.

  Lemma eps_kinds s s1 :
    eps sh s = Some s1 -> s_img s1 = s_img s /\ s_late s1 = s_late s /\ eps_kind s s1.
  Proof.
    intro H. unfold eps, p_eps in H. unfold late_phase.
    destruct (s_ph s) eqn:Ph.
    - destruct (status_eqb (ist (s_img s) OPlan) Running); [|discriminate]. injection H as <-. cbn.
      refine (conj eq_refl (conj eq_refl _)). apply EK_plan; cbn; rewrite ?Ph; try discriminate; auto.
      intros [Q|[Q|[Q|Q]]]; discriminate.
    - destruct (g_bypass (sh_groups sh)).
      + destruct (once_done true (t_bypass (s_g s)) (ist (s_img s) (OChecks SPlan GBypass))) as [[x [|]]|]; try discriminate;
          injection H as <-; cbn; refine (conj eq_refl (conj eq_refl _)); apply EK_plan; cbn; rewrite ?Ph; try discriminate; auto;
          intros [Q|[Q|[Q|Q]]]; discriminate.
      + injection H as <-. cbn. refine (conj eq_refl (conj eq_refl _)). apply EK_plan; cbn; rewrite ?Ph; try discriminate; auto.
        intros [Q|[Q|[Q|Q]]]; discriminate.
    - destruct (once_done (present (g_pre (sh_groups sh))) (t_pre (s_g s)) (ist (s_img s) (OChecks SPlan GPre))) as [[x v1]|]; [|discriminate].
      destruct (once_done (present (g_cont (sh_groups sh))) (t_cont (s_g s)) (ist (s_img s) (OChecks SPlan GCont))) as [[y v2]|]; [|discriminate].
      destruct (v1 && v2); injection H as <-.
      + match goal with |- context[enter_block sh ?s0 0] => destruct (enter_block_fields sh s0 0) as (F1 & F2 & F3 & F4 & F5 & F6) end.
        cbn [s_img s_late s_ph s_cb s_b with_ph]. rewrite F1.
        refine (conj eq_refl (conj _ _)).
        * unfold enter_block. destruct (block_of sh 0); reflexivity.
        * apply EK_first; cbn [s_ph s_cb s_b with_ph]; auto.
      + cbn. refine (conj eq_refl (conj eq_refl _)). apply EK_plan; cbn; rewrite ?Ph; try discriminate; auto.
        intros [Q|[Q|[Q|Q]]]; discriminate.
    - destruct (block_of sh (s_cb s)) as [bs0|] eqn:Hb0.
      + destruct (b_eps bs0 (s_img s) (s_cb s) (p_visible s) (s_b s)) as [[b'|[|]]|] eqn:Be; try discriminate; injection H as <-.
        * cbn. refine (conj eq_refl (conj eq_refl _)). eapply EK_stay; eauto.
        * cbn. refine (conj eq_refl (conj eq_refl _)). eapply EK_failed; eauto.
        * destruct (enter_block_fields sh s (S (s_cb s))) as (F1 & F2 & F3 & F4 & F5 & F6).
          refine (conj F1 (conj _ _)).
          -- unfold enter_block. destruct (block_of sh (S (s_cb s))); reflexivity.
          -- eapply EK_next; eauto. now rewrite F2.
      + injection H as <-. cbn. refine (conj eq_refl (conj eq_refl _)). apply EK_post; auto.
    - destruct (thr_live (s_thr s)).
      + destruct (g_settle (t_cont (s_g s)) (ist (s_img s) (OChecks SPlan GCont))) as [x|]; [|discriminate].
        destruct (g_dead x); injection H as <-; cbn; refine (conj eq_refl (conj eq_refl _));
          apply EK_plan; cbn; rewrite ?Ph; try discriminate; auto; intros _; unfold late_phase; auto 6.
      + destruct (once_done (present (g_post (sh_groups sh))) (t_post (s_g s)) (ist (s_img s) (OChecks SPlan GPost))) as [[x v]|]; [|discriminate].
        injection H as <-. cbn. refine (conj eq_refl (conj eq_refl _)). apply EK_plan; cbn; rewrite ?Ph; try discriminate; auto; intros _; unfold late_phase; auto 6.
    - destruct (thr_live (s_thr s)).
      + destruct (g_settle (t_cont (s_g s)) (ist (s_img s) (OChecks SPlan GCont))) as [x|]; [|discriminate].
        injection H as <-. cbn. refine (conj eq_refl (conj eq_refl _)). apply EK_plan; cbn; rewrite ?Ph; try discriminate; auto; intros _; unfold late_phase; auto 6.
      + destruct (once_done (present (g_deferred (sh_groups sh))) (t_deferred (s_g s)) (ist (s_img s) (OChecks SPlan GDeferred))) as [[x v]|]; [|discriminate].
        injection H as <-. cbn. refine (conj eq_refl (conj eq_refl _)). apply EK_plan; cbn; rewrite ?Ph; try discriminate; auto; intros _; unfold late_phase; auto 6.
    - discriminate.
    - discriminate.
  Qed.

  Lemma rat_init s1 m :
    s_ph s1 = PBlocks -> s_cb s1 = b -> s_b s1 = b_init bs -> m = m_init sh sc ->
    (forall a, In a (s_late s1) -> in_scope sc a = false) -> rat s1 m.
  Proof.
    intros Ph Cb Eb -> Hl. constructor; auto; rewrite ?Eb.
    - unfold flags_rel, bsize, sc. cbn. repeat split; try apply repeat_length; reflexivity.
    - cbn. discriminate.
    - cbn. discriminate.
    - cbn. discriminate.
    - intros a Hin Isc. rewrite (Hl a Hin) in Isc. discriminate.
    - intros i Hin. pose proof (Hl _ Hin) as Q. rewrite in_scope_own in Q. discriminate.
  Qed.

  Lemma at_dec s : {at_pos s} + {~ at_pos s}.
  Proof.
    unfold at_pos. destruct (Nat.eq_dec (s_cb s) b) as [E|N]; [|right; intros [_ Q]; contradiction].
    destruct (s_ph s); try (right; intros [Q _]; discriminate). left. auto.
  Qed.

  Lemma rblock_eps s m s1 : pinv sh s -> rblock s m -> eps sh s = Some s1 -> rblock s1 m.
  Proof.
    intros P R H. destruct (eps_kinds _ _ H) as (Ei & El & K).
    assert (LP : forall p, late_phase p -> p = PPost \/ p = PDeferred \/ (p = PEnd \/ p = PReleased)).
    { intros p [Q|[Q|[Q|Q]]]; auto. }
    assert (After : pos_after s -> pos_after s1).
    { unfold pos_after, ended. intros [[Ph Lt]|[Lp Le]].
      - destruct K as [N _ _ _|Q _ _ _|bs0 b' _ _ _ Q1 Q2 _|bs0 _ _ _ Q1 Q2|bs0 _ _ _ Q1 Q2 _|_ _ Q1 Q2]; try congruence.
        + left. rewrite Q1, Q2. auto.
        + right. rewrite Q1, Q2. split; auto; lia.
        + left. rewrite Q1, Q2. split; auto; lia.
        + right. rewrite Q1, Q2. split; auto; lia.
      - assert (Lp' : late_phase (s_ph s)) by (unfold late_phase; destruct Lp as [Q|[Q|[Q|Q]]]; auto).
        destruct K as [_ _ Q2 F|Q _ _ _|bs0 b' Q _ _ _ _ _|bs0 Q _ _ _ _|bs0 Q _ _ _ _ _|Q _ _ _];
          try (destruct Lp' as [Q'|[Q'|[Q'|Q']]]; congruence).
        right. rewrite Q2. split; [|exact Le]. apply LP. now apply F. }
    destruct R as [R|[R|R]].
    - (* before *)
      destruct R as [Np -> Hl Im].
      destruct (at_dec s1) as [At|Nat].
      + (* block b is entered now *)
        right. left. destruct At as [Ph1 Cb1].
        apply rat_init; auto; [|intros a Hin; rewrite El in Hin; auto].
        destruct K as [_ N _ _|_ _ Q2 Q3|bs0 b' Q0 _ _ _ Q2 _|bs0 _ _ _ Q1 _|bs0 _ _ _ _ Q2 Q3|_ _ Q1 _]; try congruence.
        * assert (Eb0 : block_of sh 0 = Some bs) by (rewrite <- Hb; f_equal; congruence). rewrite Eb0 in Q3. exact Q3.
        * exfalso. apply Np. split; congruence.
        * assert (Eb0 : block_of sh (S (s_cb s)) = Some bs) by (rewrite <- Hb; f_equal; congruence). rewrite Eb0 in Q3. exact Q3.
      + left. constructor; auto; [intros a Hin; rewrite El in Hin; auto|now rewrite Ei].
    - (* inside *)
      pose proof R as [Rph Rcb Rf Rp Rc Ro La Lb].
      pose proof (at_binv s P Rph Rcb) as B.
      destruct K as [N _ _ _|Q _ _ _|bs0 b' _ Hb0 Be Q1 Q2 Q3|bs0 _ Hb0 Be Q1 Q2|bs0 _ Hb0 Be Q1 Q2 _|_ Hb0 _ _]; try congruence.
      + (* the block goes on *)
        rewrite Rcb, Hb in Hb0. injection Hb0 as <-. rewrite Rcb in Be.
        destruct (b_eps_shape _ _ _ _ _ B Be) as (Eb & Ep & Ec & Fw & Bw).
        right. left. destruct Rf as (Fb & Fp & Fc).
        constructor; unfold btaken; rewrite ?Q1, ?Q2, ?Q3, ?El, ?Eb, ?Ep; auto.
        * unfold flags_rel. rewrite Eb, Ep. refine (conj Fb (conj Fp _)).
          destruct Ec as [-> |(r & acts & E0 & ->)]; [exact Fc|]. rewrite E0 in Fc.
          destruct Fc as [L (La' & T & Z)]. split; [exact L|]. simpl. auto.
        * intro Q. specialize (Rc Q). destruct Ec as [-> |(r & acts & E0 & ->)]; [exact Rc|discriminate].
        * intro Q. destruct (Ro Q) as (N1 & N2 & Nt). destruct (Fw N1 N2) as [M1 M2]. auto.
        * intros a Hin Isc [Q|[Q|Q]]; apply La; auto.
          -- destruct (Bw (or_introl Q)); auto.
          -- destruct (Bw (or_intror Q)); auto.
      + (* failed *)
        rewrite Rcb, Hb in Hb0. injection Hb0 as <-. rewrite Rcb in Be.
        destruct (block_done _ _ _ P R Be) as [Cd Hl].
        right. right. constructor; [|now rewrite Ei|intros Pm a Hin; rewrite El in Hin; auto].
        unfold pos_after. right. rewrite Q1, Q2, Rcb. auto.
      + rewrite Rcb, Hb in Hb0. injection Hb0 as <-. rewrite Rcb in Be.
        destruct (block_done _ _ _ P R Be) as [Cd Hl].
        right. right. constructor; [|now rewrite Ei|intros Pm a Hin; rewrite El in Hin; auto].
        unfold pos_after. left. rewrite Q1, Q2, Rcb. auto.
    - (* after *)
      destruct R as [Pa Cd Hl]. right. right. constructor; auto; [now rewrite Ei|intros Pm a Hin; rewrite El in Hin; auto].
  Qed.

  Lemma rblock_init : rblock init (m_init sh sc).
  Proof.
    left. constructor; auto.
    - unfold pos_before, at_pos. cbn. intros [Q _]. discriminate.
    - intros a [].
  Qed.

  Lemma rblock_stutter m e s : stutter sh s e = true -> mstep sh sc m e = Some m.
  Proof. destruct e; simpl; try discriminate. reflexivity. Qed.

  (* THE SCOPE OF BLOCK b: every accepted trace satisfies its monitor *)
  Theorem block_scope_holds tr s :
    run sh init tr = Some s -> mon_gate_scope sh sc tr = true.
  Proof.
    intro H.
    destruct (product_run mst (mstep sh sc) sh (fun s m => pinv sh s /\ rblock s m)) with (tr := tr) (s := init)
      (m := m_init sh sc) (s' := s) as (m' & Hm & _).
    - intros s0 m0 s1 [P R] E. split; [eapply pinv_eps; eauto|eapply rblock_eps; eauto].
    - intros s0 m0 e s1 [P R] E. destruct (rblock_handle _ _ _ _ P R E) as (m1 & M1 & R1).
      exists m1. split; [exact M1|]. split; [eapply pinv_handle; eauto|exact R1].
    - intros s0 m0 e [P R] E. exists m0. split; [eapply rblock_stutter; eauto|auto].
    - split; [apply pinv_init|apply rblock_init].
    - exact H.
    - unfold mon_gate_scope.
      assert (E : forall m tr, mfold sh sc m tr = mrun mst (mstep sh sc) m tr).
      { intros m0 tr0. revert m0. induction tr0 as [|e tr0 IH]; intro m0; simpl; auto.
        destruct (mstep sh sc m0 e); auto. }
      rewrite E, Hm. reflexivity.
  Qed.
End BlockRel.

(* ---- all scopes ---- *)
Theorem gating_all_scopes sh tr s :
  run sh init tr = Some s -> mon_gate (sh, tr) = true.
Proof.
  intro H. unfold mon_gate. cbn [fst snd]. apply forallb_forall. intros sc Hs.
  unfold scopes in Hs. destruct Hs as [<-|Hs].
  - eapply plan_scope_holds; eauto.
  - apply in_map_iff in Hs as (b & <- & Hb). apply in_seq in Hb.
    destruct (block_lt sh b) as [bs Eb]; [lia|]. eapply block_scope_holds; eauto.
Qed.
