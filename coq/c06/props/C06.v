(* C06 - Bypass and pre-check gating: what must not run does not run.

   mon_gate (MonC06.v) is the formal statement of the property over an observed trace: per scope (the plan,
   every block) a fold over the plugin Start/End events and the plan Wait returned.  The theorems say that the
   monitor holds on EVERY trace the observable engine automaton (coq/engine: step / run / init) accepts, for
   every shape and every interleaving, with no bound; they are proved by a product invariant between the
   automaton state and the monitor state of each scope (RelPlan.v, RelBlock.v) on top of reachable-state
   invariants of the automaton (Inv.v, InvPlan.v).  This file contains statements and `exact` only. *)
From Coercion.Base Require Import Plan.
From Coercion.Engine Require Import Shape Event PlanSM Auto Accept.
From Coercion.C06 Require Import MonC06 MonC06Facts C06Proofs.

(* THE THEOREM (prefix-closed form): every accepted trace satisfies the monitor - clauses 1, 2, 3 at every
   plugin event of every scope, clauses 4-8 at the release if the trace contains it. *)
Theorem c06_gating :
  forall sh tr s, shape_wf sh = true -> run sh init tr = Some s -> mon_gate (sh, tr) = true.
Proof. exact gating. Qed.
Print Assumptions c06_gating.

(* ... at a trace that ends with the release (Wait returned fin), spelled out for every scope sc of the plan, with
   m the monitor state of the scope after the trace: bypass passed => the scope is Completed in fin; not passed
   and the pre group or the initial continuous run not all-ok => Failed; not passed and Failed => a stage other
   than the bypass is Failed in fin (the bypass failure alone never fails the scope); not passed and Completed =>
   the scope ran to its end; whatever ran of the scope, the scope did end. *)
Theorem c06_gating_at_release :
  forall sh tr fin s sc,
    shape_wf sh = true -> run sh init (tr ++ [EvRelease fin]) = Some s -> In sc (scopes sh) ->
    exists m, mfold sh sc (m_init sh sc) tr = Some m /\
      let st := fin_st fin (scope_obj sc) in
      (passed m = true -> st = Completed) /\
      (passed m = false -> gate_failed m = true -> st = Failed) /\
      (passed m = false -> st = Failed -> cause sh (fin_st fin) sc = true) /\
      (passed m = false -> st = Completed -> work sh (fin_st fin) sc = true) /\
      (ran_any m = true -> st = Completed \/ st = Failed).
Proof. exact gating_at_release. Qed.
Print Assumptions c06_gating_at_release.

(* "If a pre-check, or the initial run of a continuous check, fails, no sequence action of that scope is EVER
   invoked": if at the end of an accepted trace some pre check or some check of the initial continuous run of the
   scope has not returned ok, the trace contains no invocation of a sequence action of the scope at all. *)
Theorem c06_no_sequence_behind_a_closed_gate :
  forall sh tr s sc,
    shape_wf sh = true -> run sh init tr = Some s -> In sc (scopes sh) ->
    exists m, mfold sh sc (m_init sh sc) tr = Some m /\
      (gate_open m = false -> forall a, In (EvStart a) tr -> in_scope sc a = true -> is_seq a = false).
Proof. exact gating_never. Qed.
Print Assumptions c06_no_sequence_behind_a_closed_gate.

(* "If every bypass check succeeds nothing else in that scope is invoked": once every bypass check of a scope has
   returned ok (after tr1), the rest of an accepted trace contains no plugin event of the scope. *)
Theorem c06_nothing_after_a_passed_bypass :
  forall sh tr1 tr2 s sc m1,
    shape_wf sh = true -> run sh init (tr1 ++ tr2) = Some s -> In sc (scopes sh) ->
    mfold sh sc (m_init sh sc) tr1 = Some m1 -> passed m1 = true ->
    forall a, (In (EvStart a) tr2 \/ exists o, In (EvEnd a o) tr2) -> in_scope sc a = false.
Proof. exact gating_silence. Qed.
Print Assumptions c06_nothing_after_a_passed_bypass.

(* the reading lemma of the monitor alone (no automaton): flags never go back *)
Theorem c06_gate_never :
  forall sh sc tr m,
    mfold sh sc (m_init sh sc) tr = Some m -> gate_open m = false ->
    forall a, In (EvStart a) tr -> in_scope sc a = true -> is_seq a = false.
Proof. exact gate_never. Qed.
Print Assumptions c06_gate_never.
