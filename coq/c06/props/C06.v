(* C06 - Bypass and pre-check gating: what must not run does not run.
   (first stage: the reading lemmas of the monitor; the automaton theorem c06_gating is added below them) *)
From Coercion.Base Require Import Plan.
From Coercion.Engine Require Import Shape Event Accept.
From Coercion.C06 Require Import MonC06 MonC06Facts.

(* If at the end of a trace the monitor accepts some pre check or some check of the initial continuous run has
   not returned OOk, no sequence action of the scope was invoked anywhere in the trace. *)
Theorem c06_gate_never :
  forall sh sc tr m,
    mfold sh sc (m_init sh sc) tr = Some m -> gate_open m = false ->
    forall a, In (EvStart a) tr -> in_scope sc a = true -> is_seq a = false.
Proof. exact gate_never. Qed.
Print Assumptions c06_gate_never.
