(* Store group (C13, C14): the plan tree as the storage layer sees it.

   The vaults dereference State of every object and call methods on every element of the child
   slices, so a plan with a nil State, a nil element or (cosmosdb) a nil slice is outside their
   domain (Submit rejects such plans before Create: C16). [of_plan] maps a Base plan into that
   domain and returns None outside it. It also erases what no vault preserves and the property
   does not speak about: whether an empty child slice / attempt slice is nil or empty.

   Everything else is kept: ids, keys, names, descriptions, plugin names, delays, timeouts,
   retries, concurrency, tolerance, typed requests, state triples, reason, submit time,
   attempts with typed responses and wrapped errors, the order of blocks, sequences, actions
   and attempts, and which of the ten check groups are present. *)
From Coercion.Base Require Import Plan.

Record sact := {
  sa_id : uid; sa_key : uid; sa_name : tok; sa_descr : tok; sa_plugin : tok;
  sa_timeout : Z; sa_retries : Z; sa_req : blob;
  sa_atts : list attempt; sa_st : state }.

Record schk := {
  sc_id : uid; sc_key : uid; sc_delay : Z; sc_acts : list sact; sc_st : state }.

Record sseq := {
  sq_id : uid; sq_key : uid; sq_name : tok; sq_descr : tok; sq_acts : list sact; sq_st : state }.

Record sblk := {
  sb_id : uid; sb_key : uid; sb_name : tok; sb_descr : tok;
  sb_entr : Z; sb_exit : Z;
  sb_byp : option schk; sb_pre : option schk; sb_cont : option schk;
  sb_post : option schk; sb_def : option schk;
  sb_seqs : list sseq; sb_conc : Z; sb_tol : Z; sb_st : state }.

Record spln := {
  sp_id : uid; sp_group : uid; sp_name : tok; sp_descr : tok; sp_meta : blob;
  sp_byp : option schk; sp_pre : option schk; sp_cont : option schk;
  sp_post : option schk; sp_def : option schk;
  sp_blocks : list sblk; sp_st : state; sp_submit : Z; sp_reason : reason }.

(* ---- option / list plumbing ---- *)
Definition obind {A B} (o : option A) (f : A -> option B) : option B :=
  match o with Some a => f a | None => None end.

Fixpoint mapM {A B} (f : A -> option B) (l : list A) : option (list B) :=
  match l with
  | [] => Some []
  | x :: r => match f x with
              | None => None
              | Some y => match mapM f r with None => None | Some ys => Some (y :: ys) end
              end
  end.

(* a Go slice of pointers: nil slice = empty; a nil element is outside the domain *)
Definition oslice {A B} (f : A -> option B) (l : option (list (option A))) : option (list B) :=
  match l with
  | None => Some []
  | Some xs => mapM (fun x => obind x f) xs
  end.

Definition oopt {A B} (f : A -> option B) (o : option A) : option (option B) :=
  match o with
  | None => Some None
  | Some a => match f a with Some b => Some (Some b) | None => None end
  end.

(* ---- Base plan -> storage domain ---- *)
Definition of_action (a : action) : option sact :=
  match a_state a with
  | None => None
  | Some st =>
    Some {| sa_id := a_id a; sa_key := a_key a; sa_name := a_name a; sa_descr := a_descr a;
            sa_plugin := a_plugin a; sa_timeout := a_timeout a; sa_retries := a_retries a;
            sa_req := a_req a;
            sa_atts := match a_attempts a with None => [] | Some l => l end;
            sa_st := st |}
  end.

Definition of_checks (c : checks) : option schk :=
  match c_state c, oslice of_action (c_actions c) with
  | Some st, Some acts =>
    Some {| sc_id := c_id c; sc_key := c_key c; sc_delay := c_delay c; sc_acts := acts; sc_st := st |}
  | _, _ => None
  end.

Definition of_sequence (s : sequence) : option sseq :=
  match q_state s, oslice of_action (q_actions s) with
  | Some st, Some acts =>
    Some {| sq_id := q_id s; sq_key := q_key s; sq_name := q_name s; sq_descr := q_descr s;
            sq_acts := acts; sq_st := st |}
  | _, _ => None
  end.

Definition of_block (b : block) : option sblk :=
  match b_state b, oopt of_checks (b_bypass b), oopt of_checks (b_pre b), oopt of_checks (b_cont b),
        oopt of_checks (b_post b), oopt of_checks (b_deferred b), oslice of_sequence (b_seqs b) with
  | Some st, Some byp, Some pre, Some cont, Some post, Some def, Some seqs =>
    Some {| sb_id := b_id b; sb_key := b_key b; sb_name := b_name b; sb_descr := b_descr b;
            sb_entr := b_entrance b; sb_exit := b_exit b;
            sb_byp := byp; sb_pre := pre; sb_cont := cont; sb_post := post; sb_def := def;
            sb_seqs := seqs; sb_conc := b_conc b; sb_tol := b_tol b; sb_st := st |}
  | _, _, _, _, _, _, _ => None
  end.

Definition of_plan (p : plan) : option spln :=
  match p_state p, oopt of_checks (p_bypass p), oopt of_checks (p_pre p), oopt of_checks (p_cont p),
        oopt of_checks (p_post p), oopt of_checks (p_deferred p), oslice of_block (p_blocks p) with
  | Some st, Some byp, Some pre, Some cont, Some post, Some def, Some blocks =>
    Some {| sp_id := p_id p; sp_group := p_group p; sp_name := p_name p; sp_descr := p_descr p;
            sp_meta := p_meta p;
            sp_byp := byp; sp_pre := pre; sp_cont := cont; sp_post := post; sp_def := def;
            sp_blocks := blocks; sp_st := st; sp_submit := p_submit p; sp_reason := p_reason p |}
  | _, _, _, _, _, _, _ => None
  end.

(* ---- boolean equality (executable comparisons of the correspondence check) ---- *)
Definition uid_eqb (a b : uid) : bool := N.eqb (u_ix a) (u_ix b) && Bool.eqb (u_v7 a) (u_v7 b).
Definition tok_eqb (a b : tok) : bool :=
  Bool.eqb (t_blank a) (t_blank b) && Bool.eqb (t_empty a) (t_empty b) && N.eqb (t_ix a) (t_ix b).
Definition blob_eqb (a b : blob) : bool :=
  Bool.eqb (bl_nil a) (bl_nil b) && Bool.eqb (bl_enc a) (bl_enc b)
  && N.eqb (bl_ty a) (bl_ty b) && N.eqb (bl_ix a) (bl_ix b).
Definition state_eqb (a b : state) : bool :=
  status_eqb (s_status a) (s_status b) && Z.eqb (s_start a) (s_start b) && Z.eqb (s_end a) (s_end b).

Definition opt_eqb {A} (e : A -> A -> bool) (a b : option A) : bool :=
  match a, b with
  | None, None => true
  | Some x, Some y => e x y
  | _, _ => false
  end.

Fixpoint list_eqb {A} (e : A -> A -> bool) (a b : list A) : bool :=
  match a, b with
  | [], [] => true
  | x :: a', y :: b' => e x y && list_eqb e a' b'
  | _, _ => false
  end.

Fixpoint perr_eqb (a b : perr) : bool :=
  match a, b with
  | PErr c m p w, PErr c' m' p' w' =>
    N.eqb c c' && N.eqb m m' && Bool.eqb p p'
    && match w, w' with
       | None, None => true
       | Some x, Some y => perr_eqb x y
       | _, _ => false
       end
  end.

Definition attempt_eqb (a b : attempt) : bool :=
  blob_eqb (at_resp a) (at_resp b) && opt_eqb perr_eqb (at_err a) (at_err b)
  && Z.eqb (at_start a) (at_start b) && Z.eqb (at_end a) (at_end b).

Definition sact_eqb (a b : sact) : bool :=
  uid_eqb (sa_id a) (sa_id b) && uid_eqb (sa_key a) (sa_key b)
  && tok_eqb (sa_name a) (sa_name b) && tok_eqb (sa_descr a) (sa_descr b)
  && tok_eqb (sa_plugin a) (sa_plugin b)
  && Z.eqb (sa_timeout a) (sa_timeout b) && Z.eqb (sa_retries a) (sa_retries b)
  && blob_eqb (sa_req a) (sa_req b)
  && list_eqb attempt_eqb (sa_atts a) (sa_atts b) && state_eqb (sa_st a) (sa_st b).

Definition schk_eqb (a b : schk) : bool :=
  uid_eqb (sc_id a) (sc_id b) && uid_eqb (sc_key a) (sc_key b) && Z.eqb (sc_delay a) (sc_delay b)
  && list_eqb sact_eqb (sc_acts a) (sc_acts b) && state_eqb (sc_st a) (sc_st b).

Definition sseq_eqb (a b : sseq) : bool :=
  uid_eqb (sq_id a) (sq_id b) && uid_eqb (sq_key a) (sq_key b)
  && tok_eqb (sq_name a) (sq_name b) && tok_eqb (sq_descr a) (sq_descr b)
  && list_eqb sact_eqb (sq_acts a) (sq_acts b) && state_eqb (sq_st a) (sq_st b).

Definition sblk_eqb (a b : sblk) : bool :=
  uid_eqb (sb_id a) (sb_id b) && uid_eqb (sb_key a) (sb_key b)
  && tok_eqb (sb_name a) (sb_name b) && tok_eqb (sb_descr a) (sb_descr b)
  && Z.eqb (sb_entr a) (sb_entr b) && Z.eqb (sb_exit a) (sb_exit b)
  && opt_eqb schk_eqb (sb_byp a) (sb_byp b) && opt_eqb schk_eqb (sb_pre a) (sb_pre b)
  && opt_eqb schk_eqb (sb_cont a) (sb_cont b) && opt_eqb schk_eqb (sb_post a) (sb_post b)
  && opt_eqb schk_eqb (sb_def a) (sb_def b)
  && list_eqb sseq_eqb (sb_seqs a) (sb_seqs b)
  && Z.eqb (sb_conc a) (sb_conc b) && Z.eqb (sb_tol a) (sb_tol b) && state_eqb (sb_st a) (sb_st b).

Definition spln_eqb (a b : spln) : bool :=
  uid_eqb (sp_id a) (sp_id b) && uid_eqb (sp_group a) (sp_group b)
  && tok_eqb (sp_name a) (sp_name b) && tok_eqb (sp_descr a) (sp_descr b)
  && blob_eqb (sp_meta a) (sp_meta b)
  && opt_eqb schk_eqb (sp_byp a) (sp_byp b) && opt_eqb schk_eqb (sp_pre a) (sp_pre b)
  && opt_eqb schk_eqb (sp_cont a) (sp_cont b) && opt_eqb schk_eqb (sp_post a) (sp_post b)
  && opt_eqb schk_eqb (sp_def a) (sp_def b)
  && list_eqb sblk_eqb (sp_blocks a) (sp_blocks b)
  && state_eqb (sp_st a) (sp_st b) && Z.eqb (sp_submit a) (sp_submit b)
  && reason_eqb (sp_reason a) (sp_reason b).

Definition uid_nil (u : uid) : bool := N.eqb (u_ix u) 0.

Fixpoint memb (u : uid) (l : list uid) : bool :=
  match l with [] => false | x :: r => uid_eqb u x || memb u r end.

(* ---- the ids of a plan, in one list (C16 makes them pairwise distinct) ---- *)
Definition ochk_list (o : option schk) : list schk := match o with Some c => [c] | None => [] end.

Definition chk_ids (c : schk) : list uid := sc_id c :: map sa_id (sc_acts c).
Definition seq_ids (s : sseq) : list uid := sq_id s :: map sa_id (sq_acts s).
Definition blk_groups (b : sblk) : list schk :=
  ochk_list (sb_byp b) ++ ochk_list (sb_pre b) ++ ochk_list (sb_post b) ++ ochk_list (sb_cont b) ++ ochk_list (sb_def b).
Definition pln_groups (p : spln) : list schk :=
  ochk_list (sp_byp p) ++ ochk_list (sp_pre p) ++ ochk_list (sp_post p) ++ ochk_list (sp_cont p) ++ ochk_list (sp_def p).
Definition blk_ids (b : sblk) : list uid :=
  flat_map chk_ids (blk_groups b) ++ sb_id b :: flat_map seq_ids (sb_seqs b).
Definition pln_ids (p : spln) : list uid :=
  sp_id p :: flat_map chk_ids (pln_groups p) ++ flat_map blk_ids (sp_blocks p).

(* every action of a plan *)
Definition blk_actions (b : sblk) : list sact :=
  flat_map sc_acts (blk_groups b) ++ flat_map sq_acts (sb_seqs b).
Definition pln_actions (p : spln) : list sact :=
  flat_map sc_acts (pln_groups p) ++ flat_map blk_actions (sp_blocks p).

(* every string a plan's entries carry as a JSON string / TEXT column: names, descriptions, plugin names *)
Definition act_strs (a : sact) : list tok := [sa_name a; sa_descr a; sa_plugin a].
Definition pln_strs (p : spln) : list tok :=
  sp_name p :: sp_descr p
  :: flat_map act_strs (pln_actions p)
  ++ flat_map (fun b => sb_name b :: sb_descr b :: flat_map (fun s => [sq_name s; sq_descr s]) (sb_seqs b)) (sp_blocks p).

(* ---- the operations of a vault that write (C13/C14 quantify over lists of them) ----
   An Update* carries what the UPDATE statement / patch binds: the object's id, its state triple,
   and for a plan the reason, for an action the attempts; [pid] is the plan id the object carries
   (GetPlanID: the cosmosdb partition key; sqlite does not look at it). *)
Inductive op :=
| OCreate (p : spln)
| OUpdatePlan (id : uid) (rs : reason) (st : state) (sub : Z)   (* sub: the SubmitTime of the object handed in *)
| OUpdateBlock (pid id : uid) (st : state)
| OUpdateChecks (pid id : uid) (st : state)
| OUpdateSequence (pid id : uid) (st : state)
| OUpdateAction (pid id : uid) (st : state) (atts : list attempt)
| ODelete (id : uid).
