(* Store group: correspondence checker for C13 / C14.

   A case is a list of operations the harness performed on a real vault, each with what it observed
   afterwards: the result class of the operation, Read of a set of ids (created, deleted, never
   created), and - on a file-backed sqlite database - the number of rows per table per plan_id
   counted over a direct SQL connection. The model is run on the same operations inside Coq; every
   observation must be what the model computes. Observed plans are listed once in a table and
   referred to by index.

   The codec is instantiated by the perfect one (every encodable value decodes to itself), which
   satisfies the section hypotheses of the theorems; a request, response or attempt that the real
   codec does not bring back unchanged therefore shows up as a disagreement. *)
From Coercion.Base Require Import Plan.
From Coercion.Store Require Import Tree Rows Spec SqliteModel CosmosModel.

Definition enc_req0 (b : blob) : option code := if bl_enc b then Some (CReq b) else None.
Definition dec_req0 (_ : tok) (c : code) : option blob := match c with CReq b => Some b | _ => None end.
Definition enc_att0 (a : attempt) : option code := if bl_enc (at_resp a) then Some (CAtt a) else None.

(* [bad] lists the indices of the strings of the case that are not valid UTF-8. The JSON encoder refuses
   them: inside a request / response (the harness marks such a value unencodable), as the message of a
   plugin error at any depth of an attempt, and (cosmosdb) as a name / description / plugin name. *)
Fixpoint memN (n : N) (l : list N) : bool := match l with [] => false | x :: r => N.eqb n x || memN n r end.
Fixpoint perr_bad (bad : list N) (e : perr) : bool :=
  match e with
  | PErr _ m _ w => memN m bad || match w with Some e' => perr_bad bad e' | None => false end
  end.
Definition enc_att_b (bad : list N) (a : attempt) : option code :=
  if bl_enc (at_resp a) && negb (match at_err a with Some e => perr_bad bad e | None => false end)
  then Some (CAtt a) else None.
Definition str_ok_b (bad : list N) (t : tok) : bool := negb (memN (t_ix t) bad).
Definition dec_att0 (_ : tok) (c : code) : option attempt := match c with CAtt a => Some a | _ => None end.

(* operations as the harness prints them (Base plan terms) *)
Inductive cop :=
| CCreate (p : plan)
| CKilledCreate (p : plan)        (* Create in a child process that was killed at a random instant *)
| CCancelledCreate (p : plan)     (* Create whose context was cancelled at a random instant: nil => stored; error => no trace *)
| CCancelledDelete (id : uid)     (* Delete whose context was cancelled: nil => gone; error => all there or all gone *)
| CCreateStage (n : nat) (p : plan)   (* cosmosdb Create with an injected fault: 0 = plan batch fails, 1 = search batch fails,
                                         3 = ReadItem fails with a non-404 error (the Exists pre-check) *)
| CDeleteStage (n : nat) (id : uid)   (* cosmosdb Delete with an injected fault: 0 = plan batch fails, 1 = search batch fails *)
| CUpdatePlanStage (n : nat) (id : uid) (rs : reason) (st : state) (sub : Z)   (* cosmosdb UpdatePlan, 1 = search batch fails *)
| CSetBadType (ty : N)                (* from now on the registry's plugins declare another response type: an attempt
                                         whose (non-nil) response has Go type index ty cannot be decoded; 0 = as before *)
| CUpdatePlan (id : uid) (rs : reason) (st : state) (sub : Z)
| CUpdateBlock (pid id : uid) (st : state)
| CUpdateChecks (pid id : uid) (st : state)
| CUpdateSequence (pid id : uid) (st : state)
| CUpdateAction (pid id : uid) (st : state) (atts : list attempt)
| CDelete (id : uid).

Record obs := {
  o_ok : option bool;                       (* nil error?  None = not observed *)
  o_reads : list (uid * option nat);        (* Read id: None = error, Some k = k-th plan of the table *)
  o_counts : list (uid * list nat);         (* plan id -> rows in [plans; blocks; checks; sequences; actions] *)
  o_exists : list (uid * bool);             (* Exists id *)
  o_search : list (uid * bool) }.           (* cosmosdb: the search partition has an entry for id *)

Record case := {
  k_backend : nat;                          (* 0 = sqlite, 1 = cosmosdb *)
  k_table : list plan;
  k_steps : list (cop * obs);
  k_items : list (plan * list row);         (* cosmosdb: a plan and the items VerifPlanItems emitted for it (codes blanked) *)
  k_bad : list N }.                         (* indices of the strings of the case that are not valid UTF-8 *)

(* an operation, possibly with an injected fault *)
Inductive xop := XOp (o : op) | XCreateStage (n : nat) (p : spln) | XDeleteStage (n : nat) (id : uid)
                | XUpdatePlanStage (n : nat) (id : uid) (rs : reason) (st : state) (sub : Z) | XSetBad (ty : N).

(* the decoder of a registry in which the response type with index [bad] was replaced (0 = none) *)
Definition dec_att_bad (bad : N) (t : tok) (c : code) : option attempt :=
  match c with
  | CAtt a => if negb (N.eqb bad 0) && negb (bl_nil (at_resp a)) && N.eqb (bl_ty (at_resp a)) bad then None else Some a
  | _ => None
  end.

Record vault := {
  v_st : Type;
  v_init : v_st;
  v_step : xop -> v_st -> v_st * bool;
  v_read : uid -> v_st -> option spln;
  v_count : kind -> uid -> v_st -> nat;
  v_exists : uid -> v_st -> bool;
  v_search : uid -> v_st -> bool }.

Definition on_fst {A B} (m : A -> A * bool) (s : A * B) : (A * B) * bool :=
  let (a, ok) := m (fst s) in ((a, snd s), ok).

Definition sqlite_vault (bad : list N) : vault :=
  {| v_st := (db * N)%type; v_init := ([], 0%N);
     v_step := fun x s =>
                 let dec := dec_att_bad (snd s) in
                 match x with
                 | XOp o => on_fst (SqliteModel.step enc_req0 dec_req0 (enc_att_b bad) dec o) s
                 | XCreateStage _ p => on_fst (SqliteModel.create enc_req0 (enc_att_b bad) p) s
                 | XDeleteStage _ id => on_fst (SqliteModel.delete dec_req0 dec id) s
                 | XUpdatePlanStage _ id rs st sub => on_fst (SqliteModel.step enc_req0 dec_req0 (enc_att_b bad) dec (OUpdatePlan id rs st sub)) s
                 | XSetBad ty => ((fst s, ty), true)
                 end;
     v_read := fun id s => SqliteModel.read dec_req0 (dec_att_bad (snd s)) id (fst s);
     v_count := fun k pid s => count_rows k pid (fst s);
     v_exists := fun id s => SqliteModel.exists_plan id (fst s);
     v_search := fun _ _ => false |}.

Definition cosmos_vault (bad : list N) : vault :=
  {| v_st := (cdb * N)%type; v_init := (([], []), 0%N);
     v_step := fun x s =>
                 let dec := dec_att_bad (snd s) in
                 match x with
                 | XOp (OCreate p) => on_fst (CosmosModel.create_checked enc_req0 dec_req0 (enc_att_b bad) dec (str_ok_b bad) 2 p) s
                 | XOp o => on_fst (CosmosModel.step enc_req0 dec_req0 (enc_att_b bad) dec o) s
                 | XCreateStage 3 p => on_fst (CosmosModel.create_readerr p) s
                 | XCreateStage n p => on_fst (CosmosModel.create_checked enc_req0 dec_req0 (enc_att_b bad) dec (str_ok_b bad) n p) s
                 | XDeleteStage n id => on_fst (CosmosModel.delete_stage dec_req0 dec n id) s
                 | XUpdatePlanStage n id rs st sub => on_fst (CosmosModel.updatePlan_stage n id rs st sub) s
                 | XSetBad ty => ((fst s, ty), true)
                 end;
     v_read := fun id s => CosmosModel.read dec_req0 (dec_att_bad (snd s)) id (fst s);
     v_count := fun k pid s => count_rows k pid (fst (fst s));
     v_exists := fun id s => CosmosModel.exists_plan id (fst (fst s));
     v_search := fun id s => memb id (snd (fst s)) |}.

Definition to_op (c : cop) : option xop :=
  match c with
  | CCreate p | CKilledCreate p | CCancelledCreate p => option_map (fun q => XOp (OCreate q)) (of_plan p)
  | CCancelledDelete id => Some (XOp (ODelete id))
  | CCreateStage n p => option_map (XCreateStage n) (of_plan p)
  | CDeleteStage n id => Some (XDeleteStage n id)
  | CUpdatePlanStage n id rs st sub => Some (XUpdatePlanStage n id rs st sub)
  | CSetBadType ty => Some (XSetBad ty)
  | CUpdatePlan id rs st sub => Some (XOp (OUpdatePlan id rs st sub))
  | CUpdateBlock pid id st => Some (XOp (OUpdateBlock pid id st))
  | CUpdateChecks pid id st => Some (XOp (OUpdateChecks pid id st))
  | CUpdateSequence pid id st => Some (XOp (OUpdateSequence pid id st))
  | CUpdateAction pid id st atts => Some (XOp (OUpdateAction pid id st atts))
  | CDelete id => Some (XOp (ODelete id))
  end.

(* ---- where two plans differ (diagnosis only; the verdict is spln_eqb) ---- *)
Definition plan_diff (a b : spln) : nat :=
  if negb (uid_eqb (sp_id a) (sp_id b)) then 1
  else if negb (uid_eqb (sp_group a) (sp_group b)) then 2
  else if negb (tok_eqb (sp_name a) (sp_name b)) then 3
  else if negb (tok_eqb (sp_descr a) (sp_descr b)) then 4
  else if negb (blob_eqb (sp_meta a) (sp_meta b)) then 5
  else if negb (state_eqb (sp_st a) (sp_st b)) then 6
  else if negb (Z.eqb (sp_submit a) (sp_submit b)) then 7
  else if negb (reason_eqb (sp_reason a) (sp_reason b)) then 8
  else if negb (opt_eqb schk_eqb (sp_byp a) (sp_byp b)) then 9
  else if negb (opt_eqb schk_eqb (sp_pre a) (sp_pre b)) then 10
  else if negb (opt_eqb schk_eqb (sp_cont a) (sp_cont b)) then 11
  else if negb (opt_eqb schk_eqb (sp_post a) (sp_post b)) then 12
  else if negb (opt_eqb schk_eqb (sp_def a) (sp_def b)) then 13
  else if negb (Nat.eqb (length (sp_blocks a)) (length (sp_blocks b))) then 14
  else if negb (list_eqb sblk_eqb (sp_blocks a) (sp_blocks b)) then 15
  else 0.

Definition act_diff (a b : sact) : nat :=
  if negb (uid_eqb (sa_id a) (sa_id b)) then 1
  else if negb (blob_eqb (sa_req a) (sa_req b)) then 2
  else if negb (list_eqb attempt_eqb (sa_atts a) (sa_atts b)) then 3
  else if negb (state_eqb (sa_st a) (sa_st b)) then 4
  else if sact_eqb a b then 0 else 5.

Fixpoint acts_diff (a b : list sact) : nat :=
  match a, b with
  | [], [] => 0
  | x :: a', y :: b' => match act_diff x y with 0 => acts_diff a' b' | n => n end
  | _, _ => 6
  end.

(* ---- one observation against a database of the model ---- *)
(* [] = agrees; otherwise [kind; position; detail; detail] *)
Fixpoint check_reads (v : vault) (tbl : list plan) (d : v_st v) (j : nat) (l : list (uid * option nat)) : list nat :=
  match l with
  | [] => []
  | (id, o) :: r =>
    match v_read v id d, o with
    | None, None => check_reads v tbl d (S j) r
    | Some _, None => [21; j]                 (* implementation: error; model: a plan *)
    | None, Some _ => [22; j]                 (* implementation: a plan; model: error *)
    | Some m, Some k =>
      match nth_error tbl k with
      | None => [29; j]
      | Some p =>
        match of_plan p with
        | None => [23; j]                     (* observed plan has a nil State / nil element *)
        | Some q => if spln_eqb m q then check_reads v tbl d (S j) r
                    else [24; j; plan_diff m q; acts_diff (pln_actions m) (pln_actions q)]
        end
      end
    end
  end.

Definition kinds : list kind := [KPlan; KBlock; KChecks; KSeq; KAction].

Fixpoint check_counts (v : vault) (d : v_st v) (j : nat) (l : list (uid * list nat)) : list nat :=
  match l with
  | [] => []
  | (pid, ns) :: r =>
    if list_eqb Nat.eqb (map (fun k => v_count v k pid d) kinds) ns then check_counts v d (S j) r
    else [31; j]
  end.

Fixpoint check_flags (code : nat) (f : uid -> bool) (j : nat) (l : list (uid * bool)) : list nat :=
  match l with
  | [] => []
  | (id, b) :: r => if Bool.eqb (f id) b then check_flags code f (S j) r else [code; j]
  end.

Definition check_obs (v : vault) (tbl : list plan) (d : v_st v) (ob : obs) : list nat :=
  match check_reads v tbl d 0 (o_reads ob) with
  | [] =>
    match check_counts v d 0 (o_counts ob) with
    | [] =>
      match check_flags 32 (fun id => v_exists v id d) 0 (o_exists ob) with
      | [] => check_flags 33 (fun id => v_search v id d) 0 (o_search ob)
      | bad => bad
      end
    | bad => bad
    end
  | bad => bad
  end.

Definition ok_matches (o : option bool) (b : bool) : bool :=
  match o with None => true | Some x => Bool.eqb x b end.

(* [0] = every observation agrees; [n; i; ...] = first disagreement, at step i *)
Fixpoint check_steps (v : vault) (tbl : list plan) (i : nat) (d : v_st v) (steps : list (cop * obs)) : list nat :=
  match steps with
  | [] => [0]
  | (c, ob) :: r =>
    match to_op c with
    | None => [9; i]                          (* input outside the storage domain: harness error *)
    | Some o =>
      let (d1, ok) := v_step v o d in
      match c with
      | CKilledCreate _ =>
        (* all or nothing: the database is the one after the create, or the one before it *)
        match check_obs v tbl d1 ob with
        | [] => check_steps v tbl (S i) d1 r
        | bad1 =>
          match check_obs v tbl d ob with
          | [] => check_steps v tbl (S i) d r
          | _ => 4 :: i :: bad1
          end
        end
      | CCancelledCreate _ | CCancelledDelete _ =>
        match o_ok ob with
        | Some true =>
          (* it reported success: the model must succeed too, and the state is the one after *)
          if ok then match check_obs v tbl d1 ob with
                     | [] => check_steps v tbl (S i) d1 r
                     | bad => 2 :: i :: bad
                     end
          else [6; i]
        | _ =>
          (* it reported an error: nothing changed (a Delete may also have gone through completely) *)
          match check_obs v tbl d ob with
          | [] => check_steps v tbl (S i) d r
          | bad0 =>
            match c with
            | CCancelledDelete _ =>
              match check_obs v tbl d1 ob with
              | [] => check_steps v tbl (S i) d1 r
              | _ => 7 :: i :: bad0
              end
            | _ => 7 :: i :: bad0
            end
          end
        end
      | _ =>
        if negb (ok_matches (o_ok ob) ok) then [1; i; (if ok then 1 else 0)]
        else match check_obs v tbl d1 ob with
             | [] => check_steps v tbl (S i) d1 r
             | bad => 2 :: i :: bad
             end
      end
    end
  end.

(* ---- cosmosdb: the items planToItems emits (order of emission, every column, pos; codes blanked) ---- *)
Definition blank : code := CReq (Build_blob true true 0 0).
Definition blank_row (r : row) : row :=
  match r with
  | RAction x =>
    RAction {| ar_id := ar_id x; ar_key := ar_key x; ar_plan := ar_plan x; ar_name := ar_name x;
               ar_descr := ar_descr x; ar_pos := ar_pos x; ar_plugin := ar_plugin x;
               ar_timeout := ar_timeout x; ar_retries := ar_retries x; ar_req := blank;
               ar_atts := map (fun _ => blank) (ar_atts x);
               ar_status := ar_status x; ar_start := ar_start x; ar_end := ar_end x |}
  | _ => r
  end.

Definition ouid_eqb := opt_eqb uid_eqb.
Definition uids_eqb := list_eqb uid_eqb.

Definition row_eqb_blank (a b : row) : bool :=
  match blank_row a, blank_row b with
  | RPlan x, RPlan y =>
    uid_eqb (pr_id x) (pr_id y) && uid_eqb (pr_group x) (pr_group y) && tok_eqb (pr_name x) (pr_name y)
    && tok_eqb (pr_descr x) (pr_descr y) && blob_eqb (pr_meta x) (pr_meta y)
    && ouid_eqb (pr_byp x) (pr_byp y) && ouid_eqb (pr_pre x) (pr_pre y) && ouid_eqb (pr_post x) (pr_post y)
    && ouid_eqb (pr_cont x) (pr_cont y) && ouid_eqb (pr_def x) (pr_def y) && uids_eqb (pr_blocks x) (pr_blocks y)
    && status_eqb (pr_status x) (pr_status y) && Z.eqb (pr_start x) (pr_start y) && Z.eqb (pr_end x) (pr_end y)
    && Z.eqb (pr_submit x) (pr_submit y) && reason_eqb (pr_reason x) (pr_reason y)
  | RBlock x, RBlock y =>
    uid_eqb (br_id x) (br_id y) && uid_eqb (br_key x) (br_key y) && uid_eqb (br_plan x) (br_plan y)
    && tok_eqb (br_name x) (br_name y) && tok_eqb (br_descr x) (br_descr y) && Nat.eqb (br_pos x) (br_pos y)
    && Z.eqb (br_entr x) (br_entr y) && Z.eqb (br_exit x) (br_exit y)
    && ouid_eqb (br_byp x) (br_byp y) && ouid_eqb (br_pre x) (br_pre y) && ouid_eqb (br_post x) (br_post y)
    && ouid_eqb (br_cont x) (br_cont y) && ouid_eqb (br_def x) (br_def y) && uids_eqb (br_seqs x) (br_seqs y)
    && Z.eqb (br_conc x) (br_conc y) && Z.eqb (br_tol x) (br_tol y)
    && status_eqb (br_status x) (br_status y) && Z.eqb (br_start x) (br_start y) && Z.eqb (br_end x) (br_end y)
  | RChecks x, RChecks y =>
    uid_eqb (cr_id x) (cr_id y) && uid_eqb (cr_key x) (cr_key y) && uid_eqb (cr_plan x) (cr_plan y)
    && uids_eqb (cr_actions x) (cr_actions y) && Z.eqb (cr_delay x) (cr_delay y)
    && status_eqb (cr_status x) (cr_status y) && Z.eqb (cr_start x) (cr_start y) && Z.eqb (cr_end x) (cr_end y)
  | RSeq x, RSeq y =>
    uid_eqb (sr_id x) (sr_id y) && uid_eqb (sr_key x) (sr_key y) && uid_eqb (sr_plan x) (sr_plan y)
    && tok_eqb (sr_name x) (sr_name y) && tok_eqb (sr_descr x) (sr_descr y) && Nat.eqb (sr_pos x) (sr_pos y)
    && uids_eqb (sr_actions x) (sr_actions y)
    && status_eqb (sr_status x) (sr_status y) && Z.eqb (sr_start x) (sr_start y) && Z.eqb (sr_end x) (sr_end y)
  | RAction x, RAction y =>
    uid_eqb (ar_id x) (ar_id y) && uid_eqb (ar_key x) (ar_key y) && uid_eqb (ar_plan x) (ar_plan y)
    && tok_eqb (ar_name x) (ar_name y) && tok_eqb (ar_descr x) (ar_descr y) && Nat.eqb (ar_pos x) (ar_pos y)
    && tok_eqb (ar_plugin x) (ar_plugin y) && Z.eqb (ar_timeout x) (ar_timeout y) && Z.eqb (ar_retries x) (ar_retries y)
    && Nat.eqb (length (ar_atts x)) (length (ar_atts y))
    && status_eqb (ar_status x) (ar_status y) && Z.eqb (ar_start x) (ar_start y) && Z.eqb (ar_end x) (ar_end y)
  | _, _ => false
  end.

Fixpoint first_row_diff (j : nat) (a b : list row) : option nat :=
  match a, b with
  | [], [] => None
  | x :: a', y :: b' => if row_eqb_blank x y then first_row_diff (S j) a' b' else Some j
  | _, _ => Some j
  end.

Fixpoint check_items (bad : list N) (i : nat) (l : list (plan * list row)) : list nat :=
  match l with
  | [] => []
  | (p, items) :: r =>
    match of_plan p with
    | None => [9; i]
    | Some q =>
      match (if forallb (str_ok_b bad) (pln_strs q) then CosmosModel.planToItems enc_req0 (enc_att_b bad) q else None) with
      | None => match items with [] => check_items bad (S i) r | _ => [42; i] end   (* [] = the implementation refused too *)
      | Some m => match first_row_diff 0 m items with
                  | None => check_items bad (S i) r
                  | Some j => [41; i; j]
                  end
      end
    end
  end.

Definition vault_of (n : nat) (bad : list N) : option vault :=
  match n with 0 => Some (sqlite_vault bad) | 1 => Some (cosmos_vault bad) | _ => None end.

Definition check_case (c : case) : list nat :=
  match vault_of (k_backend c) (k_bad c) with
  | None => [8]
  | Some v =>
    match check_items (k_bad c) 0 (k_items c) with
    | [] => check_steps v (k_table c) 0 (v_init v) (k_steps c)
    | bad => bad
    end
  end.

Definition case_ok (c : case) : bool :=
  match check_case c with [0] => true | _ => false end.
