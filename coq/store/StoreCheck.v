(* Store group: correspondence checker for C13 / C14.

   A case is a list of operations the harness performed on a real vault, each with what it observed
   afterwards: the result class of the operation, Read of a set of ids (created, deleted, never
   created), and - on a file-backed sqlite database - the number of rows per table per plan_id
   counted over a direct SQL connection. The model is run on the same operations inside Coq; every
   observation must be what the model computes. Observed plans are listed once in a table and
   referred to by index.

   The codec is instantiated by the perfect one (every encodable value decodes to itself), which
   satisfies the section hypotheses of the theorems; a request, response or attempt that the real
   codec does not bring back unchanged therefore shows up as a disagreement. *)
From Coercion.Base Require Import Plan.
From Coercion.Store Require Import Tree Rows Spec SqliteModel.

Definition enc_req0 (b : blob) : option code := if bl_enc b then Some (CReq b) else None.
Definition dec_req0 (_ : tok) (c : code) : option blob := match c with CReq b => Some b | _ => None end.
Definition enc_att0 (a : attempt) : option code := if bl_enc (at_resp a) then Some (CAtt a) else None.
Definition dec_att0 (_ : tok) (c : code) : option attempt := match c with CAtt a => Some a | _ => None end.

(* operations as the harness prints them (Base plan terms) *)
Inductive cop :=
| CCreate (p : plan)
| CKilledCreate (p : plan)        (* Create in a child process that was killed at a random instant *)
| CUpdatePlan (id : uid) (rs : reason) (st : state) (sub : Z)
| CUpdateBlock (id : uid) (st : state)
| CUpdateChecks (id : uid) (st : state)
| CUpdateSequence (id : uid) (st : state)
| CUpdateAction (id : uid) (st : state) (atts : list attempt)
| CDelete (id : uid).

Record obs := {
  o_ok : option bool;                       (* nil error?  None = not observed *)
  o_reads : list (uid * option nat);        (* Read id: None = error, Some k = k-th plan of the table *)
  o_counts : list (uid * list nat) }.       (* plan id -> rows in [plans; blocks; checks; sequences; actions] *)

Record case := {
  k_backend : nat;                          (* 0 = sqlite, 1 = cosmosdb *)
  k_table : list plan;
  k_steps : list (cop * obs) }.

Record vault := { v_step : op -> M; v_read : uid -> db -> option spln }.

Definition sqlite_vault : vault :=
  {| v_step := SqliteModel.step enc_req0 dec_req0 enc_att0 dec_att0;
     v_read := SqliteModel.read dec_req0 dec_att0 |}.

Definition to_op (c : cop) : option op :=
  match c with
  | CCreate p | CKilledCreate p => option_map OCreate (of_plan p)
  | CUpdatePlan id rs st sub => Some (OUpdatePlan id rs st sub)
  | CUpdateBlock id st => Some (OUpdateBlock id st)
  | CUpdateChecks id st => Some (OUpdateChecks id st)
  | CUpdateSequence id st => Some (OUpdateSequence id st)
  | CUpdateAction id st atts => Some (OUpdateAction id st atts)
  | CDelete id => Some (ODelete id)
  end.

(* ---- where two plans differ (diagnosis only; the verdict is spln_eqb) ---- *)
Definition plan_diff (a b : spln) : nat :=
  if negb (uid_eqb (sp_id a) (sp_id b)) then 1
  else if negb (uid_eqb (sp_group a) (sp_group b)) then 2
  else if negb (tok_eqb (sp_name a) (sp_name b)) then 3
  else if negb (tok_eqb (sp_descr a) (sp_descr b)) then 4
  else if negb (blob_eqb (sp_meta a) (sp_meta b)) then 5
  else if negb (state_eqb (sp_st a) (sp_st b)) then 6
  else if negb (Z.eqb (sp_submit a) (sp_submit b)) then 7
  else if negb (reason_eqb (sp_reason a) (sp_reason b)) then 8
  else if negb (opt_eqb schk_eqb (sp_byp a) (sp_byp b)) then 9
  else if negb (opt_eqb schk_eqb (sp_pre a) (sp_pre b)) then 10
  else if negb (opt_eqb schk_eqb (sp_cont a) (sp_cont b)) then 11
  else if negb (opt_eqb schk_eqb (sp_post a) (sp_post b)) then 12
  else if negb (opt_eqb schk_eqb (sp_def a) (sp_def b)) then 13
  else if negb (Nat.eqb (length (sp_blocks a)) (length (sp_blocks b))) then 14
  else if negb (list_eqb sblk_eqb (sp_blocks a) (sp_blocks b)) then 15
  else 0.

Definition act_diff (a b : sact) : nat :=
  if negb (uid_eqb (sa_id a) (sa_id b)) then 1
  else if negb (blob_eqb (sa_req a) (sa_req b)) then 2
  else if negb (list_eqb attempt_eqb (sa_atts a) (sa_atts b)) then 3
  else if negb (state_eqb (sa_st a) (sa_st b)) then 4
  else if sact_eqb a b then 0 else 5.

Fixpoint acts_diff (a b : list sact) : nat :=
  match a, b with
  | [], [] => 0
  | x :: a', y :: b' => match act_diff x y with 0 => acts_diff a' b' | n => n end
  | _, _ => 6
  end.

(* ---- one observation against a database of the model ---- *)
(* 0 = agrees; otherwise [kind; position; detail; detail] *)
Fixpoint check_reads (v : vault) (tbl : list plan) (d : db) (j : nat) (l : list (uid * option nat)) : list nat :=
  match l with
  | [] => []
  | (id, o) :: r =>
    match v_read v id d, o with
    | None, None => check_reads v tbl d (S j) r
    | Some _, None => [21; j]                 (* implementation: error; model: a plan *)
    | None, Some _ => [22; j]                 (* implementation: a plan; model: error *)
    | Some m, Some k =>
      match nth_error tbl k with
      | None => [29; j]
      | Some p =>
        match of_plan p with
        | None => [23; j]                     (* observed plan has a nil State / nil element *)
        | Some q => if spln_eqb m q then check_reads v tbl d (S j) r
                    else [24; j; plan_diff m q; acts_diff (pln_actions m) (pln_actions q)]
        end
      end
    end
  end.

Definition kinds : list kind := [KPlan; KBlock; KChecks; KSeq; KAction].

Fixpoint check_counts (d : db) (j : nat) (l : list (uid * list nat)) : list nat :=
  match l with
  | [] => []
  | (pid, ns) :: r =>
    if list_eqb Nat.eqb (map (fun k => count_rows k pid d) kinds) ns then check_counts d (S j) r
    else [31; j]
  end.

Definition check_obs (v : vault) (tbl : list plan) (d : db) (ob : obs) : list nat :=
  match check_reads v tbl d 0 (o_reads ob) with
  | [] => check_counts d 0 (o_counts ob)
  | bad => bad
  end.

Definition ok_matches (o : option bool) (b : bool) : bool :=
  match o with None => true | Some x => Bool.eqb x b end.

(* [0] = every observation agrees; [n; i; ...] = first disagreement, at step i *)
Fixpoint check_steps (v : vault) (tbl : list plan) (i : nat) (d : db) (steps : list (cop * obs)) : list nat :=
  match steps with
  | [] => [0]
  | (c, ob) :: r =>
    match to_op c with
    | None => [9; i]                          (* input outside the storage domain: harness error *)
    | Some o =>
      let (d1, ok) := v_step v o d in
      match c with
      | CKilledCreate _ =>
        (* all or nothing: the database is the one after the create, or the one before it *)
        match check_obs v tbl d1 ob with
        | [] => check_steps v tbl (S i) d1 r
        | bad1 =>
          match check_obs v tbl d ob with
          | [] => check_steps v tbl (S i) d r
          | _ => 4 :: i :: bad1
          end
        end
      | _ =>
        if negb (ok_matches (o_ok ob) ok) then [1; i; (if ok then 1 else 0)]
        else match check_obs v tbl d1 ob with
             | [] => check_steps v tbl (S i) d1 r
             | bad => 2 :: i :: bad
             end
      end
    end
  end.

Definition vault_of (n : nat) : option vault :=
  match n with 0 => Some sqlite_vault | _ => None end.

Definition check_case (c : case) : list nat :=
  match vault_of (k_backend c) with
  | None => [8]
  | Some v => check_steps v (k_table c) 0 [] (k_steps c)
  end.

Definition case_ok (c : case) : bool :=
  match check_case c with [0] => true | _ => false end.
